package main

import (
	"fmt"
	"os"
	"testing"
)

func TestC08XAssoc(t *testing.T) {
	loadKnown("/work/C08r/known_findings.json")
	r := NewResult("C08", "quick", 1, os.TempDir())
	for s := int64(1); s <= 150; s++ {
		c08AssocWorld(r, s)
	}
	fmt.Println("evals", r.Evaluations, "violations", len(r.Violations))
	seen := map[string]int{}
	for _, v := range r.Violations {
		k := fmt.Sprintf("%v | obs=%v exp=%v | %s", v.Input, v.Observed, v.Expected, v.Note)
		if seen[fmt.Sprint(v.Note, v.Observed)] == 0 && len(seen) < 25 {
			fmt.Println(k)
		}
		seen[fmt.Sprint(v.Note, v.Observed)]++
	}
	for k, v := range r.Hist {
		if len(k) > 5 && k[:5] == "assoc" {
			fmt.Println(k, v)
		}
	}
}
