package main

import (
	"encoding/json"
	"fmt"
	"os"
	"testing"
)

func TestC08XAssoc(t *testing.T) {
	loadKnown("/work/C08r/known_findings.json")
	r := NewResult("C08", "quick", 1, os.TempDir())
	for s := int64(1); s <= c08ProbeN(150); s++ {
		c08AssocWorld(r, s)
	}
	fmt.Println("evals", r.Evaluations, "violations", len(r.Violations))
	seen := map[string]int{}
	for _, v := range r.Violations {
		k := fmt.Sprintf("%v | obs=%v exp=%v | %s", v.Input, v.Observed, v.Expected, v.Note)
		if seen[fmt.Sprint(v.Note, v.Observed)] == 0 && len(seen) < 25 {
			fmt.Println(k)
		}
		seen[fmt.Sprint(v.Note, v.Observed)]++
	}
	for k, v := range r.Hist {
		if len(k) > 5 && k[:5] == "assoc" {
			fmt.Println(k, v)
		}
	}
}

func TestC08XModes(t *testing.T) {
	loadKnown("/work/C08r/known_findings.json")
	r := NewResult("C08", "quick", 1, os.TempDir())
	for s := int64(1); s <= c08ProbeN(400); s++ {
		c08ModeOne(r, s, int(s))
	}
	fmt.Println("evals", r.Evaluations, "violations", len(r.Violations), "known", len(r.Known))
	seen := map[string]int{}
	for _, v := range r.Violations {
		b, _ := json.Marshal(v.Input)
		k := fmt.Sprintf("%s | obs=%v exp=%v | %s", b, v.Observed, v.Expected, v.Note)
		if len(seen) < 30 {
			fmt.Println(k)
		}
		seen[k]++
	}
	for k, v := range r.Hist {
		if len(k) > 5 && k[:5] == "modes" {
			fmt.Println(k, v)
		}
	}
}

func c08ProbeN(d int64) int64 {
	var n int64
	if _, err := fmt.Sscan(os.Getenv("C08N"), &n); err == nil && n > 0 {
		return n
	}
	return d
}
