package main

// C01 e2e: relation joins.  callbacks/query.go BuildQuerySQL genJoinClause renders the ON handle of
// Joins("Relation", db.Where(…)) (plus the joined model's QueryClauses, e.g. soft delete) on a PRIVATE statement,
// translates the dialect placeholders back to `?` one by one (BindVarTo on a re-sliced Vars) and re-binds the text as a
// clause.Expr in the outer statement.  Under `$n` every value of the ON condition is renumbered; the generator varies the
// number of values (0,1,2,3, >= 10), their kinds (lists, maps, named containers, sub-queries), the relation kind
// (belongs-to, self-referential belongs-to, has-one with soft delete), nesting ("Manager.Company": the ON condition is
// rendered once per not-yet-joined relation of the path - observed behaviour of the unchanged code, so every value is bound
// once per such relation), join type, and outer conditions before and after the join.

import (
	"fmt"
	"math/rand"
	"strings"

	"gorm.io/gorm"
)

type C01JCompany struct {
	ID    uint `gorm:"primaryKey"`
	Name  string
	Age   int
	Z     *int
	Email string
}
type C01JProfile struct {
	ID        uint `gorm:"primaryKey"`
	C01JUserID uint
	Name      string
	Age       int
	Z         *int
	Email     string
	DeletedAt gorm.DeletedAt
}
type C01JUser struct {
	ID        uint `gorm:"primaryKey"`
	Name      string
	Age       int
	Z         *int
	Email     string
	CompanyID *uint
	Company   *C01JCompany
	ManagerID *uint
	Manager   *C01JUser
	Profile   *C01JProfile
}

func c01SeedRel(db *gorm.DB) {
	if err := db.AutoMigrate(&C01JCompany{}, &C01JProfile{}, &C01JUser{}); err != nil {
		panic(err)
	}
	for i := 1; i <= 3; i++ {
		db.Create(&C01JCompany{ID: uint(i), Name: fmt.Sprint("co", i), Age: i})
	}
	for i := 1; i <= 6; i++ {
		co := uint(1 + i%3)
		u := &C01JUser{ID: uint(i), Name: fmt.Sprint("u", i), Age: 20 + i, CompanyID: &co, Profile: &C01JProfile{Name: fmt.Sprint("p", i)}}
		if i > 1 {
			mg := uint(1)
			u.ManagerID = &mg
		}
		db.Create(u)
	}
}

var c01RelPaths = []string{"Company", "Manager", "Profile", "Manager.Company", "Manager.Profile", "Manager.Manager", "Company"}

// c01OnCond: the conditions put on the ON handle; cols are qualified with the alias
func c01OnCond(rng *rand.Rand, m *markerGen, db *gorm.DB, alias string) (apply func(h *gorm.DB) *gorm.DB, bound []interface{}, desc string) {
	a := alias + "."
	one := func() condForm {
		switch rng.Intn(10) {
		case 0:
			return condForm{"0 values", a + "id > 0", nil, nil}
		case 1:
			s := m.S()
			return condForm{"1 value", a + "name <> ?", []interface{}{s}, []interface{}{s}}
		case 2:
			s, i := m.S(), m.I()
			return condForm{"2 values", a + "name <> ? AND " + a + "id < ?", []interface{}{s, i}, []interface{}{s, i}}
		case 3:
			s, i, j := m.S(), m.I(), m.I()
			return condForm{"3 values", a + "name <> ? AND (" + a + "id < ? OR " + a + "age < ?)", []interface{}{s, i, j}, []interface{}{s, i, j}}
		case 4:
			n := []int{2, 10, 11, 13}[rng.Intn(4)]
			vs, b := make([]int, n), []interface{}{}
			for i := range vs {
				vs[i] = m.I()
				b = append(b, vs[i])
			}
			s := m.S()
			return condForm{fmt.Sprint("IN list of ", n, " + 1"), a + "id NOT IN ? AND " + a + "name <> ?", []interface{}{vs, s}, append(b, s)}
		case 5:
			s, i := m.S(), m.I()
			return condForm{"map{age,name}", map[string]interface{}{"name": s, "age": i}, nil, []interface{}{i, s}}
		case 6:
			n := c01GenNamed(rng, m, a)
			return condForm{n.Desc, n.Tmpl, n.Args, n.Bound}
		case 7:
			return c01TypedCond(rng, m, a)
		case 8:
			sub, b, d := c01GenSub(rng, m, db, rng.Intn(2), false)
			s := m.S()
			return condForm{"sub-query " + d, a + "name <> ? AND " + a + "id NOT IN (?)", []interface{}{s, sub}, append([]interface{}{s}, b...)}
		default:
			i := m.I()
			return condForm{"1 value", a + "age < ?", []interface{}{i}, []interface{}{i}}
		}
	}
	c1 := one()
	c01H("e2e.join-on-form", c01Trunc(c1.desc, 14))
	if rng.Intn(3) > 0 {
		return func(h *gorm.DB) *gorm.DB { return h.Where(c1.query, c1.args...) }, c1.bound, c1.desc
	}
	c2 := one()
	c01H("e2e.join-on-form", c01Trunc(c2.desc, 14))
	or := rng.Intn(2) == 0
	return func(h *gorm.DB) *gorm.DB {
			if or {
				return h.Where(c1.query, c1.args...).Or(c2.query, c2.args...)
			}
			return h.Where(c1.query, c1.args...).Where(c2.query, c2.args...)
		}, append(append([]interface{}{}, c1.bound...), c2.bound...),
		c1.desc + map[bool]string{true: " OR ", false: " AND "}[or] + c2.desc
}

var c01RelFinishers = []string{"Find", "First", "Take", "Count", "Pluck", "Rows", "Scan", "FindPreload"}

func c01GenRelCase(rng *rand.Rand, m *markerGen, db *gorm.DB, c *c01Case) {
	var steps []c01Step
	outer := func() c01Step {
		switch rng.Intn(3) {
		case 0:
			i := m.I()
			return c01Step{"Where(users.age < ?)", "where", []interface{}{i}, func(d *gorm.DB) *gorm.DB { return d.Where("c01_j_users.age < ?", i) }}
		case 1:
			cf := c01TypedCond(rng, m, "c01_j_users.")
			return c01Step{"Where(" + cf.desc + ")", "where", cf.bound, func(d *gorm.DB) *gorm.DB { return d.Where(cf.query, cf.args...) }}
		default:
			s, i := m.S(), m.I()
			return c01Step{"Where(users.name <> ? OR users.id = ?)", "where", []interface{}{s, i}, func(d *gorm.DB) *gorm.DB {
				return d.Where("c01_j_users.name <> ? OR c01_j_users.id = ?", s, i)
			}}
		}
	}
	for i, n := 0, rng.Intn(3); i < n; i++ {
		steps = append(steps, outer())
	}
	specified := map[string]bool{}
	for i, n := 0, 1+rng.Intn(3); i < n; i++ {
		path := c01RelPaths[rng.Intn(len(c01RelPaths))]
		parts := strings.Split(path, ".")
		times, alias := 0, ""
		for k, p := range parts {
			if k == 0 {
				alias = p
			} else {
				alias += "__" + p
			}
			if !specified[alias] {
				times++
				specified[alias] = true
			}
		}
		inner := rng.Intn(3) == 0
		jt := map[bool]string{true: "InnerJoins", false: "Joins"}[inner]
		if rng.Intn(5) == 0 { // no ON handle
			steps = append(steps, c01Step{jt + "(" + path + ")", "joins", nil, func(d *gorm.DB) *gorm.DB {
				if inner {
					return d.InnerJoins(path)
				}
				return d.Joins(path)
			}})
			continue
		}
		apply, bound, desc := c01OnCond(rng, m, db, alias)
		var all []interface{}
		for t := 0; t < times; t++ {
			all = append(all, bound...)
		}
		c01H("e2e.join-on-values", c01Bucket(len(bound)))
		c01H("e2e.join-path", path)
		c01H("e2e.join-rendered-times", fmt.Sprint(times))
		steps = append(steps, c01Step{fmt.Sprintf("%s(%s, db.Where(%s)) x%d", jt, path, desc, times), "joins", all, func(d *gorm.DB) *gorm.DB {
			h := apply(db.Session(&gorm.Session{NewDB: true}))
			if inner {
				return d.InnerJoins(path, h)
			}
			return d.Joins(path, h)
		}})
		if rng.Intn(3) == 0 {
			steps = append(steps, outer())
		}
	}
	for i, n := 0, rng.Intn(2); i < n; i++ {
		steps = append(steps, outer())
	}
	fin := c01RelFinishers[rng.Intn(len(c01RelFinishers))]
	c.Fin = "RelJoin" + fin
	c.Desc = c01Descs(steps)
	c.Expect = append(c.Expect, c01Expect{"SELECT", c01NormAll(c01ChainArgs(steps))})
	c.ExtraOK = fin == "FindPreload" // the preload queries bind database values, not generator values
	c.Run = func(d *gorm.DB) *gorm.DB {
		tx := c01Apply(d, steps).Model(&C01JUser{})
		switch fin {
		case "Find":
			var us []C01JUser
			return tx.Find(&us)
		case "FindPreload":
			var us []C01JUser
			return tx.Preload("Company").Preload("Profile").Find(&us)
		case "First":
			var u C01JUser
			return tx.First(&u)
		case "Take":
			var u C01JUser
			return tx.Take(&u)
		case "Count":
			var n int64
			return tx.Count(&n)
		case "Pluck":
			var ns []string
			return tx.Pluck("c01_j_users.name", &ns)
		case "Scan":
			var rs []map[string]interface{}
			return tx.Scan(&rs)
		default:
			rows, err := tx.Rows()
			if err == nil {
				rows.Close()
			}
			return tx
		}
	}
}
