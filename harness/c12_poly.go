package main

// C12, polymorphic relations whose TARGET TABLE is shared by owners of different types.
//
// Universe: one target table c12_p_toys (owner_id, owner_type) and four relations over it
//   C12PUser.Toys  has-many []T   polymorphic:Owner                          (type value = table name "c12_p_users")
//   C12PUser.Fav   has-one  *T    polymorphic:Owner;polymorphicValue:fav
//   C12PPet.Toys   has-many []*T  polymorphic:Owner;polymorphicValue:pet
//   C12PPet.Toy    has-one  T     polymorphic:Owner;polymorphicValue:pet-one  (held by value)
// Users 1..3 and pets 1..3 exist (equal ids on purpose); 3 is never operated (bystander).  A link is the TRIPLE
// (type value, owner id, target).  The initial table holds targets linked under ANY of the four types, under
// types no relation uses ("other", case variants "FAV", "C12_P_USERS", "") and unlinked ones; every one of the
// pool rows may be handed to Append / Replace / Delete of an owner of ANOTHER type (the type column must be
// rewritten together with the id column; rows that merely share the owner id must never be counted, found,
// unlinked or deleted).
//
// c12pExec runs a sequence on the real Association API; c12pJudge is the link-set reference of the PROPERTY
// (e2e, suite poly-e2e); c12pTie compares table contents / Count / Find / statements with Lean Model.AssocPoly
// (correspondence, suite poly-model-vs-real); c12pColumns ties the DO UPDATE SET column lists and the type
// conditions of the real statements to Lean `assignCols` / `refs` (suite poly-upsert-columns).

import (
	"encoding/json"
	"fmt"
	"math/rand"
	"reflect"
	"regexp"
	"sort"
	"strings"

	"gorm.io/gorm"
)

type C12PToy struct {
	ID        uint `gorm:"primaryKey"`
	Name      string
	OwnerID   *uint
	OwnerType string
}
type C12PUser struct {
	ID   uint `gorm:"primaryKey"`
	Name string
	Toys []C12PToy `gorm:"polymorphic:Owner"`
	Fav  *C12PToy  `gorm:"polymorphic:Owner;polymorphicValue:fav"`
}
type C12PPet struct {
	ID   uint `gorm:"primaryKey"`
	Name string
	Toys []*C12PToy `gorm:"polymorphic:Owner;polymorphicValue:pet"`
	Toy  C12PToy    `gorm:"polymorphic:Owner;polymorphicValue:pet-one"`
}

type c12pRel struct {
	Name  string
	Pet   bool // owner Go type: C12PPet (else C12PUser)
	Field string
	One   bool
	Type  string
}

var c12pRels = []c12pRel{
	{Name: "user.Toys", Field: "Toys", Type: "c12_p_users"},
	{Name: "user.Fav", Field: "Fav", One: true, Type: "fav"},
	{Name: "pet.Toys", Pet: true, Field: "Toys", Type: "pet"},
	{Name: "pet.Toy", Pet: true, Field: "Toy", One: true, Type: "pet-one"},
}

// type strings <-> the Nat codes of the Lean model (0 = "")
var c12pTypes = []string{"", "c12_p_users", "fav", "pet", "pet-one", "other", "FAV", "C12_P_USERS", "pets"}

func c12pCode(t string) int {
	for i, s := range c12pTypes {
		if s == t {
			return i
		}
	}
	return 99
}

func c12pRelOfType(t string) *c12pRel {
	for i := range c12pRels {
		if c12pRels[i].Type == t {
			return &c12pRels[i]
		}
	}
	return nil
}

type c12pRow struct {
	ID   int    `json:"id"`
	OID  int    `json:"oid"` // 0 = NULL
	Type string `json:"type"`
}

type c12pOp struct {
	Rel      int     `json:"rel"`
	Owners   []int   `json:"owners"` // [o] = db.Model(&owner); [1,2] = db.Model(&[]Owner{o1,o2}) / []*Owner
	OwnerPtr bool    `json:"owner_ptr,omitempty"`
	Op       string  `json:"op"`
	Unscoped bool    `json:"unscoped,omitempty"`
	Vals     [][]int `json:"vals"` // per owner (delete: Vals[0] = flat list); k > 0 key, 0 = new record without key
	Shape    int     `json:"shape"`
	Loaded   bool    `json:"loaded,omitempty"` // argument records of existing targets carry the stored owner_id / owner_type (as loaded by First), not only the key
}

type c12pSeq struct {
	Init       []c12pRow `json:"init"`
	Persistent bool      `json:"persistent"` // true: the SAME in-memory owner records receive every operation
	Ops        []c12pOp  `json:"ops"`
}

type c12pObs struct {
	Err    string         `json:"err"`
	Rows   []c12pRow      `json:"rows"` // whole target table, by id
	Names  map[int]string `json:"names"`
	Count  int64          `json:"count"` // of the operated handle
	CountE string         `json:"count_err,omitempty"`
	Find   []int          `json:"find"`
	FindE  string         `json:"find_err,omitempty"`
	Per    map[string]int64 `json:"per"`      // "rel/owner" -> Count() of a fresh single-owner handle
	PerF   map[string][]int `json:"per_find"` // "rel/owner" -> Find()
	MemRaw [][]int        `json:"mem_raw"` // per operated owner, field order
	Held   [][]int        `json:"held"`    // per operated owner: field before the call
	ArgIDs []int          `json:"arg_ids"`
	Stmts  []string       `json:"stmts"`
	SQL    []string       `json:"sql,omitempty"`
}

func c12pUintPtr(v int) *uint { u := uint(v); return &u }

func c12pSetup(db *gorm.DB, s c12pSeq) {
	if err := db.AutoMigrate(&C12PToy{}, &C12PUser{}, &C12PPet{}); err != nil {
		panic(err)
	}
	ex := func(q string, a ...interface{}) {
		if err := db.Exec(q, a...).Error; err != nil {
			panic(fmt.Sprint(q, ": ", err))
		}
	}
	for i := 1; i <= 3; i++ {
		ex("INSERT INTO c12_p_users (id, name) VALUES (?, ?)", i, fmt.Sprint("u", i))
		ex("INSERT INTO c12_p_pets (id, name) VALUES (?, ?)", i, fmt.Sprint("p", i))
	}
	for _, r := range s.Init {
		var oid interface{}
		if r.OID != 0 {
			oid = r.OID
		}
		ex("INSERT INTO c12_p_toys (id, name, owner_id, owner_type) VALUES (?, ?, ?, ?)", r.ID, fmt.Sprint("t", r.ID), oid, r.Type)
	}
	ex("INSERT INTO c12_p_toys (id, name, owner_id, owner_type) VALUES (?, ?, NULL, '')", c12Sentinel, fmt.Sprint("t", c12Sentinel))
}

func c12pReadRows(db *gorm.DB) ([]c12pRow, map[int]string) {
	rows, err := db.Raw("SELECT id, name, owner_id, owner_type FROM c12_p_toys ORDER BY id").Rows()
	if err != nil {
		panic(err)
	}
	defer rows.Close()
	out := []c12pRow{}
	names := map[int]string{}
	for rows.Next() {
		var id int
		var name, ty *string
		var oid *int
		if err := rows.Scan(&id, &name, &oid, &ty); err != nil {
			panic(err)
		}
		r := c12pRow{ID: id}
		if oid != nil {
			r.OID = *oid
		}
		if ty != nil {
			r.Type = *ty
		}
		if name != nil {
			names[id] = *name
		}
		out = append(out, r)
	}
	return out, names
}

func c12pBuildArgs(step, owner int, keys []int, shape int, loaded map[int]c12pRow) (recs []*C12PToy, args []interface{}) {
	mk := func(j, key int) *C12PToy {
		t := &C12PToy{ID: uint(key), Name: c12Label(step, owner, j, key)}
		if x, ok := loaded[key]; ok && key > 0 {
			t.OwnerType = x.Type
			if x.OID != 0 {
				t.OwnerID = c12pUintPtr(x.OID)
			}
		}
		return t
	}
	switch shape {
	case 1: // *[]T
		sl := make([]C12PToy, 0, len(keys))
		for j, key := range keys {
			sl = append(sl, *mk(j, key))
		}
		for j := range sl {
			recs = append(recs, &sl[j])
		}
		args = []interface{}{&sl}
	case 2: // []*T
		sl := []*C12PToy{}
		for j, key := range keys {
			p := mk(j, key)
			recs = append(recs, p)
			sl = append(sl, p)
		}
		args = []interface{}{sl}
	default:
		for j, key := range keys {
			p := mk(j, key)
			recs = append(recs, p)
			args = append(args, p)
		}
	}
	return
}

type c12pHandles struct {
	users []C12PUser
	pets  []C12PPet
}

func c12pNewHandles() *c12pHandles {
	return &c12pHandles{users: []C12PUser{{ID: 1, Name: "u1"}, {ID: 2, Name: "u2"}}, pets: []C12PPet{{ID: 1, Name: "p1"}, {ID: 2, Name: "p2"}}}
}

// the value handed to db.Model for the owners of one operation
func (h *c12pHandles) model(rel *c12pRel, owners []int, ptr bool) interface{} {
	if rel.Pet {
		if len(owners) == 1 {
			return &h.pets[owners[0]-1]
		}
		if ptr {
			ps := []*C12PPet{}
			for _, o := range owners {
				ps = append(ps, &h.pets[o-1])
			}
			return &ps
		}
		return &h.pets
	}
	if len(owners) == 1 {
		return &h.users[owners[0]-1]
	}
	if ptr {
		ps := []*C12PUser{}
		for _, o := range owners {
			ps = append(ps, &h.users[o-1])
		}
		return &ps
	}
	return &h.users
}

func (h *c12pHandles) mem(rel *c12pRel, o int) []int {
	raw := []int{}
	switch {
	case rel.Pet && rel.One:
		raw = append(raw, int(h.pets[o-1].Toy.ID))
	case rel.Pet:
		for _, t := range h.pets[o-1].Toys {
			if t != nil {
				raw = append(raw, int(t.ID))
			}
		}
	case rel.One:
		if h.users[o-1].Fav != nil {
			raw = append(raw, int(h.users[o-1].Fav.ID))
		}
	default:
		for _, t := range h.users[o-1].Toys {
			raw = append(raw, int(t.ID))
		}
	}
	return raw
}

func c12pFresh(rel *c12pRel, o int) interface{} {
	if rel.Pet {
		return &C12PPet{ID: uint(o)}
	}
	return &C12PUser{ID: uint(o)}
}

func c12pExec(s c12pSeq) []c12pObs { return c12pExecOpt(s, false) }

func c12pExecOpt(s c12pSeq, keepSQL bool) []c12pObs {
	db, rec, sqlDB := OpenRec(&gorm.Config{NowFunc: fixedNowFunc})
	defer sqlDB.Close()
	c12pSetup(db, s)
	h := c12pNewHandles()
	if s.Persistent {
		// the operated records are loaded with their relations (in-memory field = stored links) and then receive every operation
		h = &c12pHandles{}
		if err := db.Preload("Toys").Preload("Fav").Order("id").Find(&h.users, []int{1, 2}).Error; err != nil || len(h.users) != 2 {
			panic(fmt.Sprint("preload of the operated users failed: ", err))
		}
		if err := db.Preload("Toys").Preload("Toy").Order("id").Find(&h.pets, []int{1, 2}).Error; err != nil || len(h.pets) != 2 {
			panic(fmt.Sprint("preload of the operated pets failed: ", err))
		}
		rec.Reset()
	}
	var out []c12pObs
	stored := map[int]c12pRow{}
	for _, x := range s.Init {
		stored[x.ID] = x
	}
	for step, op := range s.Ops {
		rel := &c12pRels[op.Rel]
		if !s.Persistent {
			h = c12pNewHandles()
		}
		var loaded map[int]c12pRow
		if op.Loaded {
			loaded = stored
		}
		o := c12pObs{Per: map[string]int64{}, PerF: map[string][]int{}}
		for _, ow := range op.Owners {
			o.Held = append(o.Held, h.mem(rel, ow))
		}
		var recs []*C12PToy
		var args []interface{}
		if op.Op == "delete" || len(op.Owners) == 1 {
			var keys []int
			if len(op.Vals) > 0 {
				keys = op.Vals[0]
			}
			if len(keys) > 0 {
				recs, args = c12pBuildArgs(step, 0, keys, op.Shape, loaded)
			}
		} else if op.Op != "clear" {
			for i := range op.Owners {
				var keys []int
				if i < len(op.Vals) {
					keys = op.Vals[i]
				}
				shape := op.Shape
				if shape == 0 && len(keys) != 1 {
					shape = 1
				}
				r, a := c12pBuildArgs(step, i, keys, shape, loaded)
				recs = append(recs, r...)
				args = append(args, a...)
			}
		}
		model := h.model(rel, op.Owners, op.OwnerPtr)
		rec.Reset()
		func() {
			defer func() {
				if p := recover(); p != nil {
					o.Err = fmt.Sprint("panic: ", p)
				}
			}()
			as := db.Model(model).Association(rel.Field)
			if op.Unscoped {
				as = as.Unscoped()
			}
			var err error
			switch op.Op {
			case "append":
				err = as.Append(args...)
			case "replace":
				err = as.Replace(args...)
			case "delete":
				err = as.Delete(args...)
			case "clear":
				err = as.Clear()
			}
			if err != nil {
				o.Err = err.Error()
			}
		}()
		evs := rec.Snapshot()
		o.Stmts = c12StmtKinds(evs)
		if keepSQL {
			for _, e := range evs {
				if e.Kind == "exec" || e.Kind == "query" {
					o.SQL = append(o.SQL, e.SQL)
				}
			}
		}
		rec.mu.Lock()
		rec.Off = true
		rec.mu.Unlock()
		raw := db.Session(&gorm.Session{NewDB: true})
		o.Rows, o.Names = c12pReadRows(raw)
		stored = map[int]c12pRow{}
		for _, x := range o.Rows {
			stored[x.ID] = x
		}
		count := func(model interface{}, field string) (n int64, e string) {
			defer func() {
				if p := recover(); p != nil {
					e = fmt.Sprint("panic: ", p)
				}
			}()
			as := db.Model(model).Association(field)
			n = as.Count()
			if as.Error != nil {
				e = as.Error.Error()
			}
			return
		}
		find := func(model interface{}, field string) (ids []int, e string) {
			defer func() {
				if p := recover(); p != nil {
					e = fmt.Sprint("panic: ", p)
				}
			}()
			var res []C12PToy
			if err := db.Model(model).Association(field).Find(&res); err != nil {
				e = err.Error()
			}
			ids = []int{}
			for _, t := range res {
				ids = append(ids, int(t.ID))
			}
			sort.Ints(ids)
			return
		}
		o.Count, o.CountE = count(model, rel.Field)
		o.Find, o.FindE = find(model, rel.Field)
		for ri := range c12pRels {
			for ow := 1; ow <= 2; ow++ {
				key := fmt.Sprint(ri, "/", ow)
				n, e := count(c12pFresh(&c12pRels[ri], ow), c12pRels[ri].Field)
				f, e2 := find(c12pFresh(&c12pRels[ri], ow), c12pRels[ri].Field)
				if e != "" || e2 != "" {
					n = -1
				}
				o.Per[key], o.PerF[key] = n, f
			}
		}
		rec.mu.Lock()
		rec.Off = false
		rec.mu.Unlock()
		for _, ow := range op.Owners {
			o.MemRaw = append(o.MemRaw, h.mem(rel, ow))
		}
		o.ArgIDs = []int{}
		for _, r := range recs {
			o.ArgIDs = append(o.ArgIDs, int(r.ID))
		}
		out = append(out, o)
	}
	return out
}

// ---- reference of the property ---------------------------------------------------------------------------

type c12pRef struct {
	links   map[[3]string]bool // (type, owner, label)
	exists  map[string]bool
	mayGone map[string]bool
	foreign map[string]string // label -> "oid:type" of rows that are no link of any of the four relations and were never handed to a call
}

func c12pNewRef(s c12pSeq) *c12pRef {
	r := &c12pRef{links: map[[3]string]bool{}, exists: map[string]bool{}, mayGone: map[string]bool{}, foreign: map[string]string{}}
	for _, x := range append(append([]c12pRow{}, s.Init...), c12pRow{ID: c12Sentinel}) {
		l := fmt.Sprint("t", x.ID)
		r.exists[l] = true
		if x.OID != 0 && c12pRelOfType(x.Type) != nil {
			r.links[[3]string{x.Type, fmt.Sprint(x.OID), l}] = true
		} else {
			r.foreign[l] = fmt.Sprint(x.OID, ":", x.Type)
		}
	}
	return r
}

func (r *c12pRef) add(rel *c12pRel, o int, t string) {
	for l := range r.links { // one pair of link columns per target
		if l[2] == t {
			delete(r.links, l)
		}
	}
	if rel.One {
		for l := range r.links {
			if l[0] == rel.Type && l[1] == fmt.Sprint(o) {
				delete(r.links, l)
			}
		}
	}
	r.links[[3]string{rel.Type, fmt.Sprint(o), t}] = true
	r.exists[t] = true
	delete(r.mayGone, t)
	delete(r.foreign, t)
}

func (r *c12pRef) remove(rel *c12pRel, o int, t string, unscoped bool) {
	l := [3]string{rel.Type, fmt.Sprint(o), t}
	if r.links[l] {
		delete(r.links, l)
		if unscoped {
			r.mayGone[t] = true
		}
	}
}

func (r *c12pRef) apply(op c12pOp, labels [][]string) {
	rel := &c12pRels[op.Rel]
	kind := op.Op
	if kind == "append" && rel.One {
		kind = "replace"
	}
	switch kind {
	case "append":
		for i, o := range op.Owners {
			if i < len(labels) {
				for _, t := range labels[i] {
					r.add(rel, o, t)
				}
			}
		}
	case "replace":
		for i, o := range op.Owners {
			keep := map[string]bool{}
			if i < len(labels) {
				for _, t := range labels[i] {
					keep[t] = true
				}
			}
			for l := range r.links {
				if l[0] == rel.Type && l[1] == fmt.Sprint(o) && !keep[l[2]] {
					r.remove(rel, o, l[2], op.Unscoped)
				}
			}
		}
		for i, o := range op.Owners {
			if i < len(labels) {
				for _, t := range labels[i] {
					r.add(rel, o, t)
				}
			}
		}
	case "delete":
		for _, o := range op.Owners {
			if len(labels) > 0 {
				for _, t := range labels[0] {
					r.remove(rel, o, t, op.Unscoped)
				}
			}
		}
	case "clear":
		for _, o := range op.Owners {
			for l := range r.links {
				if l[0] == rel.Type && l[1] == fmt.Sprint(o) {
					r.remove(rel, o, l[2], op.Unscoped)
				}
			}
		}
	}
}

func (r *c12pRef) all() []string {
	out := []string{}
	for l := range r.links {
		out = append(out, l[0]+"#"+l[1]+"->"+l[2])
	}
	sort.Strings(out)
	return out
}

func (r *c12pRef) of(ty string, o int) []string {
	out := []string{}
	for l := range r.links {
		if l[0] == ty && l[1] == fmt.Sprint(o) {
			out = append(out, l[2])
		}
	}
	sort.Strings(out)
	return out
}

func c12pLabels(step int, op c12pOp, cur map[int]string) [][]string {
	lab := func(owner, j, key int) string {
		if n, ok := cur[key]; ok && key > 0 {
			return n
		}
		return c12Label(step, owner, j, key)
	}
	if op.Op == "delete" || len(op.Owners) == 1 {
		var l []string
		if len(op.Vals) > 0 {
			for j, key := range op.Vals[0] {
				l = append(l, lab(0, j, key))
			}
		}
		return [][]string{l}
	}
	var out [][]string
	for i := range op.Owners {
		var l []string
		if i < len(op.Vals) {
			for j, key := range op.Vals[i] {
				l = append(l, lab(i, j, key))
			}
		}
		out = append(out, l)
	}
	return out
}

// does every operation so far address exactly this (relation, owners)?  Then the persistent records "received
// every operation" and their in-memory field is judged.
func c12pFocused(s c12pSeq, upto int) bool {
	if !s.Persistent {
		return false
	}
	for i := 1; i <= upto; i++ {
		if s.Ops[i].Rel != s.Ops[0].Rel || fmt.Sprint(s.Ops[i].Owners) != fmt.Sprint(s.Ops[0].Owners) {
			return false
		}
	}
	return true
}

// c12pJudge: first disagreement between the observations and the property (nil = holds).
// Latitude: as in c12_oracle.go (order, duplicates, zero-key placeholders, records of links removed by an Unscoped
// call may be gone).  The name/type columns of a row that IS a link of one of the four relations are not judged
// beyond the triple; the (owner_id, owner_type) pair of rows that are no such link and were never handed to a call
// must not change, and those rows must survive.
func c12pJudge(s c12pSeq, obs []c12pObs) (*c12Verdict, int) {
	ref := c12pNewRef(s)
	cur := map[int]string{}
	for _, x := range s.Init {
		cur[x.ID] = fmt.Sprint("t", x.ID)
	}
	cur[c12Sentinel] = fmt.Sprint("t", c12Sentinel)
	judged := 0
	for step, op := range s.Ops {
		if step >= len(obs) {
			break
		}
		o := obs[step]
		rel := &c12pRels[op.Rel]
		labels := c12pLabels(step, op, cur)
		if o.Err != "" {
			return &c12Verdict{Step: step, What: "the operation returned an error", Got: o.Err, Want: "no error", Class: "error"}, judged
		}
		ref.apply(op, labels)
		judged++
		cur = map[int]string{}
		lab := func(id int) string {
			if n, ok := o.Names[id]; ok {
				return n
			}
			return fmt.Sprint("#", id)
		}
		got := []string{}
		present := map[string]string{}
		for _, x := range o.Rows {
			cur[x.ID] = lab(x.ID)
			present[lab(x.ID)] = fmt.Sprint(x.OID, ":", x.Type)
			if x.OID != 0 && c12pRelOfType(x.Type) != nil {
				got = append(got, x.Type+"#"+fmt.Sprint(x.OID)+"->"+lab(x.ID))
			}
		}
		sort.Strings(got)
		// 1. stored links (type, owner, target) of all four relations, all owners
		if w := ref.all(); fmt.Sprint(got) != fmt.Sprint(w) {
			return &c12Verdict{Step: step, What: "links (owner type#owner id->target) stored in the database differ from the links the sequence defines", Got: fmt.Sprint(got), Want: fmt.Sprint(w), Class: "links"}, judged
		}
		// 2. records survive
		for t := range ref.exists {
			if _, ok := present[t]; !ok && !ref.mayGone[t] {
				return &c12Verdict{Step: step, What: "associated record " + t + " did not survive", Got: "missing", Want: "present", Class: "targets"}, judged
			}
		}
		// 3. rows of other owner types / unlinked rows that no call named keep their link columns
		for _, t := range c12SortedKeys(c12pKeys(ref.foreign)) {
			if p, ok := present[t]; ok && p != ref.foreign[t] {
				return &c12Verdict{Step: step, What: "link columns of row " + t + " (another owner type / never handed to a call) were changed", Got: p, Want: ref.foreign[t], Class: "decoy"}, judged
			}
		}
		// 4. Count / Find of the operated handle and of every (relation, owner)
		want := []string{}
		for _, ow := range op.Owners {
			want = append(want, ref.of(rel.Type, ow)...)
		}
		sort.Strings(want)
		if o.CountE != "" || int(o.Count) != len(want) {
			return &c12Verdict{Step: step, What: "Count() of the operated handle differs from the number of links", Got: fmt.Sprint(o.Count, " ", o.CountE), Want: fmt.Sprint(len(want)), Class: "count"}, judged
		}
		gf := []string{}
		for _, id := range o.Find {
			gf = append(gf, lab(id))
		}
		sort.Strings(gf)
		if o.FindE != "" || fmt.Sprint(gf) != fmt.Sprint(want) {
			return &c12Verdict{Step: step, What: "Find() of the operated handle differs from the linked records", Got: fmt.Sprint(gf, " ", o.FindE), Want: fmt.Sprint(want), Class: "find"}, judged
		}
		for ri := range c12pRels {
			for ow := 1; ow <= 2; ow++ {
				key := fmt.Sprint(ri, "/", ow)
				w := ref.of(c12pRels[ri].Type, ow)
				if int(o.Per[key]) != len(w) {
					return &c12Verdict{Step: step, What: fmt.Sprint("Count() of ", c12pRels[ri].Name, " of owner ", ow, " differs from the number of links"), Got: fmt.Sprint(o.Per[key]), Want: fmt.Sprint(len(w)), Class: "count"}, judged
				}
				g := []string{}
				for _, id := range o.PerF[key] {
					g = append(g, lab(id))
				}
				sort.Strings(g)
				if fmt.Sprint(g) != fmt.Sprint(w) {
					return &c12Verdict{Step: step, What: fmt.Sprint("Find() of ", c12pRels[ri].Name, " of owner ", ow, " differs from the linked records"), Got: fmt.Sprint(g), Want: fmt.Sprint(w), Class: "find"}, judged
				}
			}
		}
		// 5. in-memory field of the records that received every operation
		if c12pFocused(s, step) {
			for i, ow := range op.Owners {
				g := []string{}
				for _, id := range c12DistinctSorted(o.MemRaw[i]) {
					g = append(g, lab(id))
				}
				sort.Strings(g)
				if w := ref.of(rel.Type, ow); fmt.Sprint(g) != fmt.Sprint(w) {
					return &c12Verdict{Step: step, What: fmt.Sprint("distinct records of the in-memory field of owner ", ow, " differ from its links"), Got: fmt.Sprint(g, " raw=", o.MemRaw[i]), Want: fmt.Sprint(w), Class: "memory"}, judged
				}
			}
		}
	}
	return nil, judged
}

func c12pKeys(m map[string]string) map[string]bool {
	out := map[string]bool{}
	for k := range m {
		out[k] = true
	}
	return out
}

// ---- generator -------------------------------------------------------------------------------------------

func c12pGenSeq(rng *rand.Rand, maxLen int) c12pSeq {
	s := c12pSeq{Init: []c12pRow{}, Persistent: rng.Intn(2) == 0}
	// never named rows: equal owner ids under types no relation uses (case variants, the OTHER owner's table name)
	s.Init = append(s.Init, c12pRow{1, 1, "other"}, c12pRow{2, 2, "other"}, c12pRow{3, 1, "FAV"}, c12pRow{4, 1, "C12_P_USERS"}, c12pRow{5, 2, "pets"}, c12pRow{6, 1, ""})
	oneUsed := map[string]bool{}
	for id := c12PoolLo; id <= c12PoolHi; id++ {
		if rng.Intn(10) < 3 {
			continue // does not exist: "new with preset key"
		}
		r := c12pRow{ID: id}
		switch x := rng.Intn(10); {
		case x < 2: // unlinked, any type text
			r.Type = c12pTypes[rng.Intn(len(c12pTypes))]
		case x < 8: // a link of one of the four relations
			rel := c12pRels[rng.Intn(len(c12pRels))]
			r.OID, r.Type = 1+rng.Intn(3), rel.Type
			if rel.One {
				if oneUsed[fmt.Sprint(rel.Type, r.OID)] {
					r.OID = 0
				}
				oneUsed[fmt.Sprint(rel.Type, r.OID)] = true
			}
		default: // a row of a type no relation uses
			r.OID, r.Type = 1+rng.Intn(3), c12pTypes[5+rng.Intn(len(c12pTypes)-5)]
		}
		s.Init = append(s.Init, r)
	}
	n := 1 + rng.Intn(maxLen)
	uns := rng.Intn(3) == 0
	next := c12Sentinel + 1
	created := [][]int{{}, {}}
	focusRel, focusOwners, focusPtr := rng.Intn(len(c12pRels)), []int{1 + rng.Intn(2)}, rng.Intn(2) == 0
	if rng.Intn(3) == 0 {
		focusOwners = []int{1, 2}
	}
	if s.Persistent && len(focusOwners) == 2 {
		// persistent records of a slice: the pool is partitioned between the two owners (no target is ever held by
		// both in-memory fields: listed finding F12e), so are their initial links
		fr := c12pRels[focusRel]
		seen := map[int]bool{}
		for i := range s.Init {
			x := &s.Init[i]
			if x.Type == fr.Type && (x.OID == 1 || x.OID == 2) && x.ID >= c12PoolLo {
				x.OID = 1
				if x.ID > c12PoolLo+2 {
					x.OID = 2
				}
				if fr.One && seen[x.OID] {
					x.OID = 0
				}
				seen[x.OID] = true
			}
		}
	}
	for i := 0; i < n; i++ {
		op := c12pOp{Rel: focusRel, Owners: focusOwners, OwnerPtr: focusPtr, Shape: rng.Intn(3), Loaded: rng.Intn(2) == 0}
		if !s.Persistent {
			op.Rel = rng.Intn(len(c12pRels))
			op.Owners = []int{1 + rng.Intn(2)}
			if rng.Intn(3) == 0 {
				op.Owners = []int{1, 2}
			}
			op.OwnerPtr = rng.Intn(2) == 0
		}
		rel := &c12pRels[op.Rel]
		slice := len(op.Owners) == 2
		switch x := rng.Intn(100); {
		case x < 40:
			op.Op = "append"
		case x < 65:
			op.Op = "replace"
		case x < 88:
			op.Op = "delete"
		default:
			op.Op = "clear"
		}
		op.Unscoped = uns && rng.Intn(2) == 0
		nextAtStart := next
		pick := func(owner int) int {
			lo, hi := c12PoolLo, c12PoolHi
			part := s.Persistent && slice && owner >= 0 // persistent records of a slice: no target is handed to both (finding F12e)
			if part {
				if owner == 0 {
					hi = c12PoolLo + 2
				} else {
					lo = c12PoolLo + 3
				}
			}
			var cand []int
			for id := lo; id <= hi; id++ {
				cand = append(cand, id)
			}
			for o := range created {
				if !(part && o != owner) {
					for _, id := range created[o] {
						if id < nextAtStart {
							cand = append(cand, id)
						}
					}
				}
			}
			return cand[rng.Intn(len(cand))]
		}
		used := map[int]int{}
		genVals := func(owner int, allowNew bool, min int) []int {
			cnt := min + rng.Intn(4-min)
			if rel.One && allowNew {
				cnt = 1
			}
			vs := []int{}
			for tries := 0; len(vs) < cnt && tries < 20; tries++ {
				if allowNew && rng.Intn(4) == 0 {
					vs = append(vs, 0)
					continue
				}
				if len(vs) > 0 && !rel.One && rng.Intn(5) == 0 {
					if d := vs[rng.Intn(len(vs))]; d != 0 {
						vs = append(vs, d)
						continue
					}
				}
				key := pick(owner)
				if allowNew {
					if o, ok := used[key]; ok && o != owner {
						continue
					}
					used[key] = owner
				}
				vs = append(vs, key)
			}
			if rel.One && allowNew && len(vs) == 0 {
				vs = []int{0}
			}
			return vs
		}
		switch op.Op {
		case "append", "replace":
			for o := range op.Owners {
				min := 0
				if !slice {
					min = 1 // a call without values is Clear / a no-op
				}
				vs := genVals(o, true, min)
				op.Vals = append(op.Vals, vs)
				for _, v := range vs {
					if v == 0 {
						created[o%2] = append(created[o%2], next)
						next++
					}
				}
			}
		case "delete":
			op.Vals = [][]int{genVals(-1, false, 0)}
		default:
			op.Vals = [][]int{}
		}
		s.Ops = append(s.Ops, op)
	}
	return s
}

// non-trivial: a call names a target that the initial table links under ANOTHER type or to another owner, or that
// carries the operated owner's id under a type no relation uses
func c12pNontrivial(s c12pSeq) bool {
	init := map[int]c12pRow{}
	for _, r := range s.Init {
		init[r.ID] = r
	}
	for _, op := range s.Ops {
		rel := c12pRels[op.Rel]
		for _, vs := range op.Vals {
			for _, v := range vs {
				if r, ok := init[v]; ok && r.OID != 0 && (r.Type != rel.Type || r.OID != op.Owners[0]) {
					return true
				}
			}
		}
	}
	return false
}

func c12pHist(r *Result, pfx string, s c12pSeq) {
	r.H(pfx+".handles", map[bool]string{true: "persistent", false: "fresh"}[s.Persistent])
	r.H(pfx+".len", fmt.Sprint(len(s.Ops)))
	init := map[int]c12pRow{}
	for _, x := range s.Init {
		init[x.ID] = x
	}
	for _, op := range s.Ops {
		rel := c12pRels[op.Rel]
		n := rel.Name + "/" + op.Op
		if op.Unscoped {
			n += "+unscoped"
		}
		if len(op.Owners) > 1 {
			n += "/slice"
		}
		r.H(pfx+".op", n)
		for _, vs := range op.Vals {
			for _, v := range vs {
				x, ok := init[v]
				switch {
				case v == 0:
					r.H(pfx+".value", "new without key")
				case !ok:
					r.H(pfx+".value", "preset key, not in the initial table")
				case x.OID == 0:
					r.H(pfx+".value", "initially unlinked")
				case x.Type == rel.Type && x.OID == op.Owners[0]:
					r.H(pfx+".value", "initially linked to the operated (type, owner)")
				case x.Type == rel.Type:
					r.H(pfx+".value", "initially linked to another owner of the same type")
				case c12pRelOfType(x.Type) != nil:
					r.H(pfx+".value", "initially linked under ANOTHER relation type")
				default:
					r.H(pfx+".value", "initially a row of a type no relation uses")
				}
			}
		}
	}
}

func c12pE2E(r *Result, s c12pSeq) {
	obs := c12pExec(s)
	v, judged := c12pJudge(s, obs)
	r.H("poly.judged_steps", fmt.Sprint(judged))
	if v == nil {
		return
	}
	r.Violate(Violation{Kind: "e2e", Suite: "poly-e2e", Input: s, Observed: map[string]interface{}{"step": v.Step, "class": v.Class, "got": v.Got, "obs": obs[v.Step]},
		Expected: map[string]interface{}{"want": v.Want, "verdict": v.What}})
}

// ---- correspondence with Lean Model.AssocPoly ----------------------------------------------------------------

type c12pLeanObs struct {
	Rows  [][3]int `json:"rows"`
	Next  int      `json:"next"`
	Count int      `json:"count"`
	Find  []int    `json:"find"`
	Stmts []string `json:"stmts"`
}

// the Lean ops need the in-memory field of the handle before every call (`held`): taken from the real run
func c12pLeanInput(s c12pSeq, obs []c12pObs) map[string]interface{} {
	rows := [][3]int{}
	for _, x := range s.Init {
		rows = append(rows, [3]int{x.ID, x.OID, c12pCode(x.Type)})
	}
	rows = append(rows, [3]int{c12Sentinel, 0, 0})
	ops := []map[string]interface{}{}
	for step, op := range s.Ops {
		if step >= len(obs) {
			break
		}
		rel := c12pRels[op.Rel]
		args := []interface{}{}
		named := []int{}
		for i, o := range op.Owners {
			held := []int{}
			if i < len(obs[step].Held) {
				held = append(held, obs[step].Held[i]...)
			}
			vals := []int{}
			switch {
			case op.Op == "delete" || op.Op == "clear":
			case len(op.Owners) == 1:
				if len(op.Vals) > 0 {
					vals = append(vals, op.Vals[0]...)
				}
			case i < len(op.Vals):
				vals = append(vals, op.Vals[i]...)
			}
			args = append(args, []interface{}{o, held, vals})
		}
		if op.Op == "delete" && len(op.Vals) > 0 {
			named = append(named, op.Vals[0]...)
		}
		ops = append(ops, map[string]interface{}{"one": rel.One, "ty": c12pCode(rel.Type), "op": op.Op, "unscoped": op.Unscoped, "args": args, "named": named})
	}
	return map[string]interface{}{"rows": rows, "next": c12Sentinel + 1, "ops": ops}
}

func c12pTie(r *Result, seqs []c12pSeq) {
	var ops [][]interface{}
	reals := make([][]c12pObs, len(seqs))
	for i, s := range seqs {
		reals[i] = c12pExec(s)
		ops = append(ops, []interface{}{"assoc.poly", c12pLeanInput(s, reals[i])})
	}
	outs, err := AskLean(ops)
	if err != nil {
		r.Violate(Violation{Kind: "correspondence", Suite: "poly-model-vs-real", Note: err.Error()})
		return
	}
	for i, s := range seqs {
		var lean []c12pLeanObs
		if err := json.Unmarshal(outs[i], &lean); err != nil {
			r.Violate(Violation{Kind: "correspondence", Suite: "poly-model-vs-real", Input: s, Observed: string(outs[i]), Note: "model rejected the sequence: " + err.Error()})
			continue
		}
		r.Case("poly-model-vs-real", canon(s), c12pNontrivial(s))
		for step, op := range s.Ops {
			if step >= len(reals[i]) || step >= len(lean) {
				break
			}
			o := reals[i][step]
			rel := c12pRels[op.Rel]
			b := fmt.Sprintf("one=%v/%s", rel.One, op.Op)
			if op.Unscoped {
				b += "/unscoped"
			}
			if len(op.Owners) > 1 {
				b += "/slice"
			}
			if len(o.Held) > 0 && len(o.Held[0]) > 0 {
				b += "/held"
			}
			r.H("poly.model_branch", b)
			r.CorrCompared++
			rr := [][3]int{}
			for _, x := range o.Rows {
				rr = append(rr, [3]int{x.ID, x.OID, c12pCode(x.Type)})
			}
			find := append([]int{}, o.Find...)
			a := fmt.Sprintf("err=%v rows=%v count=%d find=%v stmts=%v", o.Err != "", rr, o.Count, find, o.Stmts)
			l := lean[step]
			st := []string{}
			for _, m := range l.Stmts {
				st = append(st, strings.Fields(m)[0]+" c12_p_toys")
			}
			if l.Rows == nil {
				l.Rows = [][3]int{}
			}
			if l.Find == nil {
				l.Find = []int{}
			}
			m := fmt.Sprintf("err=false rows=%v count=%d find=%v stmts=%v", l.Rows, l.Count, l.Find, st)
			if a != m {
				r.Violate(Violation{Kind: "correspondence", Suite: "poly-model-vs-real", Input: s, Observed: map[string]interface{}{"step": step, "real": a},
					Expected: map[string]interface{}{"model": m}, Note: "real Association API vs Lean Gorm.AssocPoly.step (target table (id, owner id, type code) + Count/Find of the handle + statement kinds)"})
				break
			}
		}
	}
}

// ---- the column lists and type conditions of the real statements vs Lean assignCols / refs ------------------------

var c12pSetRe = regexp.MustCompile("DO UPDATE SET (.*?)( RETURNING|$)")

func c12pSetCols(sql string) []string {
	m := c12pSetRe.FindStringSubmatch(sql)
	if m == nil {
		return nil
	}
	out := []string{}
	for _, a := range strings.Split(m[1], ",") {
		c := strings.Trim(strings.TrimSpace(strings.SplitN(a, "=", 2)[0]), "`\"")
		out = append(out, c)
	}
	return out
}

// columns named by the WHERE clause, out of the given candidates, sorted
func c12pWhereCols(sql string, cands []string) []string {
	i := strings.Index(sql, " WHERE ")
	out := []string{}
	if i < 0 {
		return out
	}
	w := sql[i:]
	for _, c := range cands {
		if strings.Contains(w, "`"+c+"`") || strings.Contains(w, "\""+c+"\"") || strings.Contains(w, "."+c+" ") {
			out = append(out, c)
		}
	}
	sort.Strings(out)
	return out
}

type c12pColCase struct {
	Universe string `json:"universe"` // poly | plain
	Rel      string `json:"rel"`
	Slice    bool   `json:"slice"`
	Ptr      bool   `json:"ptr"`
	Op       string `json:"op"`
}

// c12pColumns: for every has-one / has-many relation (polymorphic and plain), single owner and slice of owners,
// Append and Replace of an EXISTING target: the `DO UPDATE SET` column list of the real INSERT must be Lean
// `assignCols`, and the WHERE clause of the clean-up / Delete / Count statements must name the columns of `refs`.
func c12pColumns(r *Result) {
	type relInfo struct {
		uni, name string
		one       bool
		ty        int
		idCol     string
		tyCol     string
		table     string
		run       func(slice, ptr bool, op string) []string
	}
	polyRun := func(ri int) func(slice, ptr bool, op string) []string {
		return func(slice, ptr bool, op string) []string {
			s := c12pSeq{Init: []c12pRow{{11, 3, "other"}, {12, 3, "other"}, {13, 1, c12pRels[ri].Type}}, Ops: []c12pOp{{Rel: ri, Owners: []int{1}, OwnerPtr: ptr, Op: op, Vals: [][]int{{11}}}}}
			if slice {
				s.Ops[0].Owners, s.Ops[0].Vals = []int{1, 2}, [][]int{{11}, {12}}
			}
			if op == "delete" {
				s.Ops[0].Vals = [][]int{{13}}
			}
			obs := c12pExecOpt(s, true)
			return obs[0].SQL
		}
	}
	plainRun := func(kind string) func(slice, ptr bool, op string) []string {
		return func(slice, ptr bool, op string) []string {
			s := c12Seq{Kind: kind, Owners: 1, OwnerPtr: ptr, Pre: []int{11, 12, 13}, By: []int{11}, Own: []int{}, Ops: []c12Op{{Op: op, Vals: [][]int{{11}}}}}
			if slice {
				s.Owners, s.Ops[0].Vals = 2, [][]int{{11}, {12}}
			}
			var sqls []string
			c12ExecTrace(s, func(step int, evs []Event) {
				for _, e := range evs {
					if e.Kind == "exec" || e.Kind == "query" {
						sqls = append(sqls, e.SQL)
					}
				}
			})
			return sqls
		}
	}
	rels := []relInfo{}
	for i, pr := range c12pRels {
		rels = append(rels, relInfo{"poly", pr.Name, pr.One, c12pCode(pr.Type), "owner_id", "owner_type", "c12_p_toys", polyRun(i)})
	}
	for _, kn := range []string{"has_one", "has_many", "has_one_val", "has_many_ptr", "poly_one", "poly_many"} {
		k := c12KindByName(kn)
		ri := relInfo{"plain", kn, k.Card1, 0, k.FK, "", k.Table, plainRun(kn)}
		if k.Poly {
			ri.ty, ri.tyCol = 1, "holder_type"
		}
		rels = append(rels, ri)
	}
	var asks [][]interface{}
	for _, ri := range rels {
		asks = append(asks, []interface{}{"assoc.polycols", map[string]interface{}{"one": ri.one, "ty": ri.ty}})
	}
	outs, err := AskLean(asks)
	if err != nil {
		r.Violate(Violation{Kind: "correspondence", Suite: "poly-upsert-columns", Note: err.Error()})
		return
	}
	for i, ri := range rels {
		var lean struct {
			Cols  []string `json:"cols"`
			Conds []string `json:"conds"`
		}
		if err := json.Unmarshal(outs[i], &lean); err != nil {
			r.Violate(Violation{Kind: "correspondence", Suite: "poly-upsert-columns", Observed: string(outs[i]), Note: err.Error()})
			continue
		}
		name := func(c string) string {
			if c == "type" {
				return ri.tyCol
			}
			return ri.idCol
		}
		wantSet, wantWhere := []string{}, []string{}
		for _, c := range lean.Cols {
			wantSet = append(wantSet, name(c))
		}
		for _, c := range lean.Conds {
			wantWhere = append(wantWhere, name(c))
		}
		sort.Strings(wantWhere)
		cands := []string{ri.idCol}
		if ri.tyCol != "" {
			cands = append(cands, ri.tyCol)
		}
		for _, slice := range []bool{false, true} {
			for _, ptr := range []bool{false, true} {
				if ptr && !slice {
					continue
				}
				for _, op := range []string{"append", "replace", "delete", "clear"} {
					cc := c12pColCase{ri.uni, ri.name, slice, ptr, op}
					r.Case("poly-upsert-columns", canon(cc), true)
					sqls := ri.run(slice, ptr, op)
					for _, q := range sqls {
						up := strings.ToUpper(q)
						switch {
						case strings.HasPrefix(up, "INSERT") && strings.Contains(q, ri.table):
							r.CorrCompared++
							r.H("poly.columns", "upsert "+fmt.Sprint(wantSet))
							if got := c12pSetCols(q); fmt.Sprint(got) != fmt.Sprint(wantSet) {
								r.Violate(Violation{Kind: "correspondence", Suite: "poly-upsert-columns", Input: cc, Observed: map[string]interface{}{"sql": q, "do_update_set": got},
									Expected: map[string]interface{}{"assignCols": wantSet}, Note: "DO UPDATE SET column list of the association upsert vs Lean Gorm.AssocPoly.assignCols"})
							}
						case (strings.HasPrefix(up, "UPDATE") || strings.HasPrefix(up, "DELETE")) && strings.Contains(q, ri.table):
							r.CorrCompared++
							r.H("poly.columns", "where "+fmt.Sprint(wantWhere))
							if got := c12pWhereCols(q, cands); fmt.Sprint(got) != fmt.Sprint(wantWhere) {
								r.Violate(Violation{Kind: "correspondence", Suite: "poly-upsert-columns", Input: cc, Observed: map[string]interface{}{"sql": q, "where_columns": got},
									Expected: map[string]interface{}{"refs": wantWhere}, Note: "link columns named by the WHERE clause of the unlink statement vs Lean Gorm.AssocPoly.staleRow/namedRow (type condition + owner condition)"})
							}
						}
					}
				}
			}
		}
	}
}

func init() {
	register("C12", func(r *Result, rng *rand.Rand, tier string) {
		defer c12Timed("poly")()
		nE, nT := 1000, 800
		if tier == "thorough" {
			nE, nT = 15000, 12000
		} else if tier == "search" {
			nE, nT = 3000, 0
		}
		c12pColumns(r)
		for i := 0; i < nE && !expired(); i++ {
			s := c12pGenSeq(rng, 8)
			r.Case("poly-e2e", canon(s), c12pNontrivial(s))
			c12pHist(r, "poly", s)
			if i%211 == 0 {
				r.Sample(map[string]interface{}{"suite": "poly-e2e", "input": s})
			}
			c12pE2E(r, s)
		}
		var batch []c12pSeq
		for i := 0; i < nT && !expired(); i++ {
			batch = append(batch, c12pGenSeq(rng, 8))
			if len(batch) == 300 || i == nT-1 {
				c12pTie(r, batch)
				batch = nil
			}
		}
	})
	replay := func(r *Result, input json.RawMessage) {
		var s c12pSeq
		if err := json.Unmarshal(input, &s); err != nil {
			r.Note("bad replay input: %v", err)
			return
		}
		c12pE2E(r, s)
	}
	replayers["C12/poly-e2e"] = replay
	replayers["C12/poly-model-vs-real"] = replay
	replayers["C12/poly-upsert-columns"] = func(r *Result, input json.RawMessage) {
		c12pColumns(r)
	}
}

var _ = reflect.TypeOf
