package main

import (
	"fmt"
	"math/rand"
	"reflect"

	"gorm.io/gorm"
)

// C19: DryRun / ToSQL send nothing and expose exactly the statement a real run sends.

type c19Obs struct {
	DryEvents   []string `json:"dry_events"`
	ToSQLEvents []string `json:"tosql_events"`
	DrySQL      string   `json:"dry_sql"`
	DryVars     []string `json:"dry_vars"`
	DryErr      string   `json:"dry_err"`
	RealSQL     string   `json:"real_sql"`
	RealArgs    []string `json:"real_args"`
	RealErr     string   `json:"real_err"`
	RealSent    bool     `json:"real_sent"`
}

func evKinds(es []Event) []string {
	out := []string{}
	for _, e := range es {
		out = append(out, e.Kind)
	}
	return out
}

func c19Case(db *gorm.DB, rec *Recorder, ch *Chain, fin Finisher) (obs c19Obs, verdict string) {
	var vals []interface{}
	if fin.Args != nil {
		vals = fin.Args(ch.M)
	}
	// 1. DryRun session
	rec.Reset()
	dry := fin.Run(ch.Apply(db.Session(&gorm.Session{DryRun: true})), vals)
	des := rec.Snapshot()
	obs.DryEvents = evKinds(des)
	obs.DrySQL = dry.Statement.SQL.String()
	obs.DryVars = normArgs(dry.Statement.Vars)
	if dry.Error != nil {
		obs.DryErr = dry.Error.Error()
	}
	for _, e := range des {
		if !isTxEvent(e) {
			verdict = "DryRun run reached the driver: " + e.String()
		}
	}
	// 2. ToSQL
	rec.Reset()
	_ = db.ToSQL(func(tx *gorm.DB) *gorm.DB { return fin.Run(ch.Apply(tx), vals) })
	tes := rec.Snapshot()
	obs.ToSQLEvents = evKinds(tes)
	if len(tes) != 0 {
		verdict = "ToSQL made driver calls: " + fmt.Sprint(evKinds(tes))
	}
	// 3. real run inside an explicit transaction that is rolled back (restores the data)
	tx := db.Begin()
	rec.Reset()
	real := fin.Run(ch.Apply(tx), vals)
	res := rec.Snapshot()
	tx.Rollback()
	if real.Error != nil {
		obs.RealErr = real.Error.Error()
	}
	for _, e := range res {
		if isTxEvent(e) {
			continue
		}
		obs.RealSent = true
		obs.RealSQL = e.SQL
		obs.RealArgs = normArgs(e.Args)
		break
	}
	if obs.RealSent {
		if obs.RealSQL != obs.DrySQL {
			verdict = "DryRun SQL differs from the statement sent for real"
		} else if !reflect.DeepEqual(obs.RealArgs, obs.DryVars) && !(len(obs.RealArgs) == 0 && len(obs.DryVars) == 0) {
			verdict = "DryRun vars differ from the bound values sent for real"
		}
	}
	return
}

func init() {
	register("C19", func(r *Result, rng *rand.Rand, tier string) {
		rounds := 1500
		if tier == "thorough" {
			rounds = 150000
		} else if tier == "search" {
			rounds = 20000
		}
		db, rec := openUsers()
		var fins []Finisher
		fins = append(fins, readFinishers()...)
		fins = append(fins, writeFinishers()...)
		fins = append(fins, createFinishers()...)
		for i := 0; i < rounds && !expired(); i++ {
			fin := fins[i%len(fins)]
			ch := genChain(rng, db, 5, true)
			if fin.Name == "RawScan" || fin.Name == "Exec" || fin.Name == "ExecNamed" {
				ch = &Chain{M: &markerGen{}} // Raw/Exec take no chain conditions
			}
			obs, verdict := c19Case(db, rec, ch, fin)
			in := map[string]interface{}{"chain": ch.Desc(), "finisher": fin.Name}
			r.Case("dryrun", obs.DrySQL+"|"+fin.Name, obs.RealSent)
			r.H("finisher", fin.Name)
			r.H("real_sent", fmt.Sprint(obs.RealSent))
			r.H("chain_len", fmt.Sprint(len(ch.Steps)))
			if obs.RealErr != "" {
				e := obs.RealErr
				if len(e) > 40 {
					e = e[:40]
				}
				r.H("real_error", e)
			}
			if i%211 == 0 {
				r.Sample(map[string]interface{}{"input": in, "observed": obs})
			}
			if verdict != "" {
				r.Violate(Violation{Kind: "e2e", Suite: "dryrun", Input: in, Observed: obs, Expected: verdict})
			}
		}
	})
}
