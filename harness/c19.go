package main

import (
	"encoding/json"
	"fmt"
	"math/rand"
	"reflect"

	"gorm.io/driver/sqlite"
	"gorm.io/gorm"
	"gorm.io/gorm/logger"
)

// C19: DryRun / ToSQL send nothing and expose exactly the statement a real run sends.
// Suite "dryrun": random chains (C01 grammar) x finishers x handle derivations; the operation families with hooks,
// associations, batches, compound finishers ... live in c19_ops.go / c19_e2e.go (suite "ops").

type c19Obs struct {
	DryEvents   []string `json:"dry_events"`
	CfgEvents   []string `json:"cfg_events"`
	ToSQLEvents []string `json:"tosql_events"`
	DrySQL      string   `json:"dry_sql"`
	DryVars     []string `json:"dry_vars"`
	CfgSQL      string   `json:"cfg_sql"`
	CfgVars     []string `json:"cfg_vars"`
	DryErr      string   `json:"dry_err"`
	RealSQL     string   `json:"real_sql"`
	RealArgs    []string `json:"real_args"`
	RealErr     string   `json:"real_err"`
	RealSent    bool     `json:"real_sent"`
}

func evKinds(es []Event) []string {
	out := []string{}
	for _, e := range es {
		out = append(out, e.Kind)
	}
	return out
}

// c19Case: dbDry is a handle opened with Config.DryRun on the same pool (nil = skip that run)
func c19Case(db, dbDry *gorm.DB, rec *Recorder, ch *Chain, fin Finisher, dv c19Deriv) (obs c19Obs, verdict string) {
	var vals []interface{}
	if fin.Args != nil {
		vals = fin.Args(ch.M)
	}
	// 1. DryRun session
	rec.Reset()
	var dry *gorm.DB
	dv.Wrap(db.Session(&gorm.Session{DryRun: true}), func(h *gorm.DB) { dry = fin.Run(ch.Apply(h), vals) })
	des := rec.Snapshot()
	obs.DryEvents = evKinds(des)
	obs.DrySQL = dry.Statement.SQL.String()
	obs.DryVars = normArgs(dry.Statement.Vars)
	if dry.Error != nil {
		obs.DryErr = dry.Error.Error()
	}
	for _, e := range des {
		if !isTxEvent(e) {
			verdict = "DryRun run reached the driver: " + e.String()
		}
	}
	// 1b. DryRun by configuration
	if dbDry != nil {
		rec.Reset()
		var cfg *gorm.DB
		dv.Wrap(dbDry, func(h *gorm.DB) { cfg = fin.Run(ch.Apply(h), vals) })
		ces := rec.Snapshot()
		obs.CfgEvents = evKinds(ces)
		obs.CfgSQL = cfg.Statement.SQL.String()
		obs.CfgVars = normArgs(cfg.Statement.Vars)
		for _, e := range ces {
			if !isTxEvent(e) {
				verdict = "DryRun (by configuration) run reached the driver: " + e.String()
			}
		}
		if obs.CfgSQL != obs.DrySQL || !reflect.DeepEqual(obs.CfgVars, obs.DryVars) {
			verdict = "DryRun by configuration exposes another statement than a DryRun session"
		}
	}
	// 2. ToSQL
	rec.Reset()
	str := db.ToSQL(func(tx *gorm.DB) *gorm.DB {
		var r *gorm.DB
		dv.Wrap(tx, func(h *gorm.DB) { r = fin.Run(ch.Apply(h), vals) })
		return r
	})
	tes := rec.Snapshot()
	obs.ToSQLEvents = evKinds(tes)
	if len(tes) != 0 {
		verdict = "ToSQL made driver calls: " + fmt.Sprint(evKinds(tes))
	}
	if want := db.Dialector.Explain(obs.DrySQL, dry.Statement.Vars...); str != want {
		verdict = "ToSQL returns " + str + " but the DryRun session exposes " + want
	}
	// 3. real run inside an explicit transaction that is rolled back (restores the data)
	tx := db.Begin()
	rec.Reset()
	var real *gorm.DB
	dv.Wrap(tx, func(h *gorm.DB) { real = fin.Run(ch.Apply(h), vals) })
	res := rec.Snapshot()
	tx.Rollback()
	if real.Error != nil {
		obs.RealErr = real.Error.Error()
	}
	for _, e := range res {
		if isTxEvent(e) || !c19IsStmtKind(e.Kind) { // prepare / stmt_close carry no bound values
			continue
		}
		obs.RealSent = true
		obs.RealSQL = e.SQL
		obs.RealArgs = normArgs(e.Args)
		break
	}
	if obs.RealSent {
		if obs.RealSQL != obs.DrySQL {
			verdict = "DryRun SQL differs from the statement sent for real"
		} else if !reflect.DeepEqual(obs.RealArgs, obs.DryVars) && !(len(obs.RealArgs) == 0 && len(obs.DryVars) == 0) {
			verdict = "DryRun vars differ from the bound values sent for real"
		}
	}
	return
}

type c19ChainSpec struct {
	CaseSeed int64  `json:"case_seed"`
	Finisher string `json:"finisher"`
	Deriv    string `json:"deriv"`
}

type c19ChainWorld struct {
	db, dry *gorm.DB
	rec     *Recorder
	fins    []Finisher
	all     []c19Deriv // every derivation (lookup for replays)
	dvs     []c19Deriv
}

func c19OpenChainWorld() *c19ChainWorld {
	db, rec := openUsers()
	sqlDB, _ := db.DB()
	dry, err := gorm.Open(sqlite.Dialector{Conn: sqlDB}, &gorm.Config{NowFunc: fixedNowFunc, Logger: logger.Discard, DryRun: true})
	if err != nil {
		panic(err)
	}
	rec.Reset()
	w := &c19ChainWorld{db: db, dry: dry, rec: rec}
	w.fins = append(w.fins, readFinishers()...)
	w.fins = append(w.fins, writeFinishers()...)
	w.fins = append(w.fins, createFinishers()...)
	// explicit transactions under ToSQL are the pattern of finding F25: while it is listed AND the tree does not carry its
	// repair they are left to the "ops" suite (which matches them against the pattern); otherwise they are ordinary input
	explicitOK := !listed(c19FExplicitTx) || c19BeginSkipsDryRun()
	for _, d := range c19Derivs() {
		w.all = append(w.all, d)
		if !d.Explicit || explicitOK {
			w.dvs = append(w.dvs, d)
		}
	}
	return w
}

// c19BeginSkipsDryRun: the regenerated fact Gen.beginSkipsDryRun of the tree under check (false if the driver cannot be asked)
func c19BeginSkipsDryRun() bool {
	outs, err := AskLean([][]interface{}{{"c19.flags"}})
	if err != nil || len(outs) != 1 {
		return false
	}
	var f struct {
		BeginSkipsDryRun bool `json:"beginSkipsDryRun"`
	}
	_ = json.Unmarshal(outs[0], &f)
	return f.BeginSkipsDryRun
}

func (w *c19ChainWorld) eval(r *Result, spec c19ChainSpec, sample bool) {
	var fin *Finisher
	for i := range w.fins {
		if w.fins[i].Name == spec.Finisher {
			fin = &w.fins[i]
		}
	}
	dv := w.dvs[0]
	for _, d := range w.all { // a replayed spec may name a derivation the generator of this tree leaves out
		if d.Name == spec.Deriv {
			dv = d
		}
	}
	if fin == nil {
		r.Note("unknown finisher %q", spec.Finisher)
		return
	}
	crng := rand.New(rand.NewSource(spec.CaseSeed))
	ch := genChain(crng, w.db, 5, true)
	if fin.Name == "RawScan" || fin.Name == "Exec" || fin.Name == "ExecNamed" {
		ch = &Chain{M: &markerGen{}} // Raw/Exec take no chain conditions
	}
	obs, verdict := c19Case(w.db, w.dry, w.rec, ch, *fin, dv)
	r.Case("dryrun", obs.DrySQL+"|"+fin.Name, obs.RealSent)
	r.H("finisher", fin.Name)
	r.H("deriv", dv.Name)
	r.H("real_sent", fmt.Sprint(obs.RealSent))
	r.H("chain_len", fmt.Sprint(len(ch.Steps)))
	if obs.RealErr != "" {
		e := obs.RealErr
		if len(e) > 40 {
			e = e[:40]
		}
		r.H("real_error", e)
	}
	if sample {
		r.Sample(map[string]interface{}{"input": spec, "chain": ch.Desc(), "observed": obs})
	}
	if verdict != "" {
		r.Violate(Violation{Kind: "e2e", Suite: "dryrun", Input: spec, Observed: map[string]interface{}{"chain": ch.Desc(), "obs": obs}, Expected: verdict})
	}
}

func init() {
	register("C19", func(r *Result, rng *rand.Rand, tier string) {
		rounds := 1500
		if tier == "thorough" {
			rounds = 150000
		} else if tier == "search" {
			rounds = 20000
		}
		w := c19OpenChainWorld()
		for i := 0; i < rounds && !expired(); i++ {
			spec := c19ChainSpec{CaseSeed: rng.Int63(), Finisher: w.fins[i%len(w.fins)].Name, Deriv: w.dvs[rng.Intn(len(w.dvs))].Name}
			w.eval(r, spec, i%211 == 0)
		}
	})
	replayers["C19/dryrun"] = func(r *Result, input json.RawMessage) {
		var spec c19ChainSpec
		if err := json.Unmarshal(input, &spec); err != nil {
			r.Note("bad replay input: %v", err)
			return
		}
		c19OpenChainWorld().eval(r, spec, false)
	}
}
