package main

import (
	"fmt"
	"testing"

	"gorm.io/gorm"
	"gorm.io/gorm/clause"
)

func TestC11Probe(t *testing.T) {
	db, _, sqlDB := OpenRec(nil)
	defer sqlDB.Close()
	dry := db.Session(&gorm.Session{DryRun: true})
	var os []C11SOwner
	st := dry.Joins("Card", db.Where(&C11SCard{N: 3})).Joins("Memo").InnerJoins("Boss", db.Where(clause.Gt{Column: clause.Column{Table: clause.CurrentTable, Name: "n"}, Value: 2})).Joins("Boss.Group", db.Where("`Boss__Group`.`n` IN ?", []int{1, 2})).Find(&os).Statement
	fmt.Println(st.SQL.String(), st.Vars)
	var co []C11COrder
	st = dry.Joins("Cust").Joins("Receipt", db.Where("`Receipt`.`n` % 2 = ?", 1)).Joins("Parent.Receipt").Find(&co).Statement
	fmt.Println(st.SQL.String(), st.Vars)
}
