package main

// C20 round 3 — what the columns gorm DERIVES for an auto-created many2many join table inherit from the (tagged)
// columns they reference.
//
//   mig.jointag  (correspondence)  generated tags (uniqueness / index settings in every spelling, 0..2 of them, mixed
//                with size / not null / default / comment / column / autoIncrement / primaryKey / type / permission
//                settings, odd letter case, blanks, a second struct-tag key) on the OWN-side and on the REFERENCED-side
//                key columns of a many2many relation between two reflect.StructOf models (default keys, foreignKey:,
//                References:, composite, joinForeignKey / joinReferences given or defaulted): the struct tag, the parsed
//                TagSettings, Field.Unique, Field.PrimaryKey and the index gate of every field of the REAL
//                Relationship.JoinTable schema, and its ParseUniqueConstraints / ParseIndexes, against Lean
//                Gorm.Mig.joinCol (Model/MigrateJoin.lean).
//   jointable    (end-to-end)  histories  migrate(owner v1 [, target]) -> rows -> migrate(owner v2 = v1 + a many2many
//                field) -> link a BIPARTITE GRAPH (several owners share one target, one owner has several targets;
//                Association.Append, nested Create, Association.Replace) -> read every owner back with Preload and
//                Association.Count -> migrate(v2) again.  Judged, and nothing else: AutoMigrate(v2) succeeds, every
//                link that was stored without an error is returned (the migrated tables accept and return records of the
//                new model), rows that existed before are still there, the repeated AutoMigrate sends no CREATE/ALTER/DROP.
//                Latitude: which constraints / indexes the join table carries is NOT judged here (observed in a histogram);
//                link order is free.
//
// Finding F30-C20 (unchanged tree): a referenced column that carries TWO uniqueness settings (`unique;uniqueIndex`,
// `uniqueIndex:a;uniqueIndex:b`) or `unique ` with a trailing blank keeps `unique` in the join-table column
// (removeSettingFromTag removes one match per name): the join column gets `CONSTRAINT uni_… UNIQUE`, the second link to the
// same target is dropped silently (ON CONFLICT DO NOTHING).

import (
	"encoding/json"
	"fmt"
	"math/rand"
	"reflect"
	"sort"
	"strings"

	"gorm.io/gorm"
	"gorm.io/gorm/schema"
)

const c20F30 = "F30-C20-join-column-keeps-unique"

// ---- tag alphabet ---------------------------------------------------------------------------------

var c20jUniq = []string{"unique", "uniqueIndex", "uniqueIndex:ux_%s", "uniqueIndex:ux_%s,priority:2", "UNIQUE", "UniqueIndex", "UNIQUEINDEX:ux_%s",
	"unique:true", "uniqueindex", "Unique", "uniqueIndex:,sort:desc", "uniqueIndex:ux_%s,where:1 = 1"}
var c20jIdx = []string{"index", "index:ix_%s", "index:ix_%s,unique", "index:,unique", "INDEX", "Index:ix_%s,priority:3", "index:,class:UNIQUE", "index:ix_%s,sort:desc",
	"unique:false", "index:,composite:cmp%s"}
var c20jPlain = []string{"size:40", "not null", "default:'d'", "comment:plain", "type:varchar(30)", "<-:create", "precision:3", "NOT NULL", "Size:24",
	"autoIncrementIncrement:2", "comment:the code", "default:x"}

// settings whose TEXT contains one of the stripped names without being that setting (the regexp is not anchored)
var c20jTricky = []string{"comment:the unique code", "comment:lookup index", "default:unique", "comment:my column", "comment:is unique", "default:'index'",
	"comment:autoincrement off", "column:ref_col", "COLUMN:RefCol", "autoIncrement:false", "autoincrement", "autoIncrement", "primaryKey", "primarykey", "PRIMARYKEY", "primary_key",
	"column:unique_code", "column:idx_index", "comment:uniqueindex", "check:x_unique > 0"}

type c20jTagOpt struct {
	uniq   int  // number of uniqueness settings (-1 = random 0..2)
	tricky bool // unanchored / odd spellings, blanks, primaryKey, column
	single bool // at most ONE uniqueness / index setting altogether (outside the pattern of finding F30)
}

// c20jBody: one generated gorm tag body; kinds = which setting families were used
func c20jBody(rng *rand.Rand, o c20jTagOpt, salt string) (body string, kinds []string) {
	var parts []string
	nu := o.uniq
	if nu < 0 {
		switch x := rng.Intn(20); {
		case x < 5:
			nu = 0
		case x < 17:
			nu = 1
		default:
			nu = 2
		}
	}
	for i := 0; i < nu; i++ {
		u := c20jUniq[rng.Intn(len(c20jUniq))]
		if strings.Contains(u, "%s") {
			u = fmt.Sprintf(u, salt+fmt.Sprint(i))
		}
		parts = append(parts, u)
		kinds = append(kinds, "uniq:"+strings.ToLower(strings.SplitN(strings.SplitN(u, ":", 2)[0], ",", 2)[0]))
	}
	if rng.Intn(3) == 0 && !(o.single && nu > 0) {
		x := c20jIdx[rng.Intn(len(c20jIdx))]
		if strings.Contains(x, "%s") {
			x = fmt.Sprintf(x, salt)
		}
		parts = append(parts, x)
		kinds = append(kinds, "idx")
	}
	for n := rng.Intn(3); n > 0; n-- {
		parts = append(parts, c20jPlain[rng.Intn(len(c20jPlain))])
		kinds = append(kinds, "plain")
	}
	if o.tricky {
		for n := rng.Intn(3); n > 0; n-- {
			parts = append(parts, c20jTricky[rng.Intn(len(c20jTricky))])
			kinds = append(kinds, "tricky")
		}
	}
	rng.Shuffle(len(parts), func(i, j int) { parts[i], parts[j] = parts[j], parts[i] })
	if o.tricky {
		for i := range parts {
			switch rng.Intn(12) {
			case 0:
				parts[i] = " " + parts[i]
				kinds = append(kinds, "blank-before")
			case 1:
				parts[i] = parts[i] + " "
				kinds = append(kinds, "blank-after")
			}
		}
		if rng.Intn(10) == 0 {
			parts = append(parts, "")
			kinds = append(kinds, "empty-setting")
		}
	}
	if len(parts) == 0 {
		kinds = append(kinds, "no-tag")
	}
	return strings.Join(parts, ";"), kinds
}

// c20jUniqCount: settings of a tag body whose (trimmed, lower-cased) key is unique / uniqueindex, and whether one of them is
// followed by a blank before the separator
func c20jUniqCount(body string) (n int, trailing bool) {
	n, _, trailing = c20jHotCount(body)
	return
}

// c20jHotCount: … and the settings whose key is index
func c20jHotCount(body string) (uniq, idx int, trailing bool) {
	for _, p := range strings.Split(body, ";") {
		k := strings.SplitN(p, ":", 2)[0]
		switch strings.ToLower(strings.TrimSpace(k)) {
		case "unique", "uniqueindex":
			uniq++
			if strings.TrimRight(p, " ") != p {
				trailing = true
			}
		case "index":
			idx++
		}
	}
	return
}

// ---- mig.jointag ------------------------------------------------------------------------------------

type c20jSide struct {
	Fields []c20Field `json:"fields"` // key candidates (besides ID)
	Keys   []string   `json:"keys"`   // names listed in foreignKey: / References: (empty = default primary key)
	Join   []string   `json:"join"`   // joinForeignKey / joinReferences names (empty = default)
	IDTag  string     `json:"idtag"`
	Extra  string     `json:"extra"` // a second struct-tag key in front of / behind the gorm key ("" | "pre" | "post")
}

type c20jTieCase struct {
	Own c20jSide `json:"own"`
	Ref c20jSide `json:"ref"`
}

func c20jStructTag(body, extra string) reflect.StructTag {
	if body == "" && extra == "" {
		return ""
	}
	g := `gorm:"` + body + `"`
	switch extra {
	case "pre":
		return reflect.StructTag(`json:"unique;index" ` + g)
	case "post":
		return reflect.StructTag(g + ` json:"index,omitempty"`)
	}
	return reflect.StructTag(g)
}

func c20jSideType(s c20jSide, rel *reflect.StructField) (t reflect.Type, err error) {
	defer func() {
		if p := recover(); p != nil {
			err = fmt.Errorf("StructOf: %v", p)
		}
	}()
	sf := []reflect.StructField{{Name: "ID", Type: reflect.TypeOf(uint(0)), Tag: c20jStructTag(s.IDTag, "")}}
	for _, f := range s.Fields {
		sf = append(sf, reflect.StructField{Name: f.Name, Type: c20Kinds[f.Kind], Tag: c20jStructTag(f.Tag, s.Extra)})
	}
	sf = append(sf, reflect.StructField{Name: "Label", Type: reflect.TypeOf("")})
	if rel != nil {
		sf = append(sf, *rel)
	}
	return reflect.StructOf(sf), nil
}

func c20jGenSide(rng *rand.Rand, prefix string) c20jSide {
	s := c20jSide{}
	if rng.Intn(4) == 0 {
		s.IDTag, _ = c20jBody(rng, c20jTagOpt{uniq: rng.Intn(2), tricky: false}, prefix+"id")
		s.IDTag = strings.ReplaceAll(strings.ReplaceAll(s.IDTag, "default:'d'", "not null"), "default:x", "not null") // (no text default on a number)
		s.IDTag = strings.Trim("primaryKey;"+s.IDTag, ";")
	}
	n := rng.Intn(3)
	for i := 0; i < n; i++ {
		body, _ := c20jBody(rng, c20jTagOpt{uniq: -1, tricky: rng.Intn(3) == 0}, fmt.Sprintf("%s%d", prefix, i))
		kind := []string{"string", "string", "int64", "uint"}[rng.Intn(4)]
		if strings.Contains(strings.ToLower(body), "default") { // (a text default on a number is a parse error, logged by gorm)
			kind = "string"
		}
		name := fmt.Sprintf("%sK%c", strings.ToUpper(prefix), 'A'+i)
		s.Fields = append(s.Fields, c20Field{Name: name, Kind: kind, Tag: body})
		s.Keys = append(s.Keys, name)
	}
	if len(s.Keys) > 0 && rng.Intn(5) == 0 { // keys declared but the relation uses the default primary key
		s.Keys = nil
	}
	nk := len(s.Keys)
	if nk == 0 {
		nk = 1
	}
	if rng.Intn(2) == 0 {
		for i := 0; i < nk; i++ {
			s.Join = append(s.Join, fmt.Sprintf("%sRef%d", strings.Title(prefix), i))
		}
	}
	s.Extra = []string{"", "", "", "pre", "post"}[rng.Intn(5)]
	return s
}

func c20jRelTag(c c20jTieCase, table string) string {
	parts := []string{"many2many:" + table}
	if len(c.Own.Keys) > 0 {
		parts = append(parts, "foreignKey:"+strings.Join(c.Own.Keys, ","))
	}
	if len(c.Ref.Keys) > 0 {
		parts = append(parts, "References:"+strings.Join(c.Ref.Keys, ","))
	}
	if len(c.Own.Join) > 0 {
		parts = append(parts, "joinForeignKey:"+strings.Join(c.Own.Join, ","))
	}
	if len(c.Ref.Join) > 0 {
		parts = append(parts, "joinReferences:"+strings.Join(c.Ref.Join, ","))
	}
	return strings.Join(parts, ";")
}

type c20jColView struct {
	Tag      string            `json:"tag"`
	Body     string            `json:"body"`
	Settings map[string]string `json:"settings"`
	Unique   bool              `json:"unique"`
	Indexed  bool              `json:"indexed"`
	PK       bool              `json:"pk"`
}

// c20jReal: per join-table field (in field order) the source struct tag and the view of the real parsed field
func c20jReal(c c20jTieCase) (srcTags []string, views []c20jColView, names []string, uniCons, idx int, err error) {
	defer func() {
		if p := recover(); p != nil {
			err = fmt.Errorf("panic: %v", p)
		}
	}()
	rt, err := c20jSideType(c.Ref, nil)
	if err != nil {
		return
	}
	ot, err := c20jSideType(c.Own, &reflect.StructField{Name: "Rel", Type: reflect.SliceOf(rt), Tag: reflect.StructTag(`gorm:"` + c20jRelTag(c, "c20j_links") + `"`)})
	if err != nil {
		return
	}
	sch, err := schema.Parse(reflect.New(ot).Interface(), newSyncMap(), c20Namer{NamingStrategy: schema.NamingStrategy{IdentifierMaxLength: 64}, anon: "c20j_anon"})
	if err != nil {
		return
	}
	rel := sch.Relationships.Relations["Rel"]
	if rel == nil || rel.JoinTable == nil {
		err = fmt.Errorf("no join table")
		return
	}
	jt := rel.JoinTable
	inIndex := map[string]bool{}
	ixs := jt.ParseIndexes()
	idx = len(ixs)
	for _, ix := range ixs {
		for _, f := range ix.Fields {
			inIndex[f.Name] = true
		}
	}
	uniCons = len(jt.ParseUniqueConstraints())
	for _, f := range jt.Fields {
		var source *schema.Field
		for _, ref := range rel.References { // the own-side loop runs first: a shared join field is built from the own field
			if ref.ForeignKey == f && (source == nil || ref.OwnPrimaryKey) {
				if source == nil || ref.OwnPrimaryKey {
					source = ref.PrimaryKey
				}
			}
		}
		if source == nil {
			continue // the ignored back-pointer field
		}
		srcTags = append(srcTags, string(source.StructField.Tag))
		names = append(names, f.Name)
		views = append(views, c20jColView{Tag: string(f.StructField.Tag), Body: f.StructField.Tag.Get("gorm"), Settings: f.TagSettings,
			Unique: f.Unique, Indexed: inIndex[f.Name], PK: f.PrimaryKey})
	}
	return
}

func c20jModelView(raw json.RawMessage) (v c20jColView, err error) {
	var m struct {
		Tag      string      `json:"tag"`
		Body     string      `json:"body"`
		Settings [][2]string `json:"settings"`
		Unique   bool        `json:"unique"`
		Indexed  bool        `json:"indexed"`
		PK       bool        `json:"pk"`
	}
	if err = json.Unmarshal(raw, &m); err != nil {
		return
	}
	v = c20jColView{Tag: m.Tag, Body: m.Body, Settings: map[string]string{}, Unique: m.Unique, Indexed: m.Indexed, PK: m.PK}
	for _, kv := range m.Settings {
		v.Settings[kv[0]] = kv[1]
	}
	return
}

func c20jJudgeTie(r *Result, c c20jTieCase) (ok bool) {
	srcTags, views, names, uniCons, _, err := c20jReal(c)
	if err != nil {
		r.H("jointag.skip", strings.SplitN(err.Error(), ":", 2)[0])
		return true
	}
	var ops [][]interface{}
	for _, t := range srcTags {
		ops = append(ops, []interface{}{"mig.jointag", t})
	}
	outs, err := AskLean(ops)
	if err != nil {
		r.Violate(Violation{Kind: "correspondence", Suite: "mig.jointag", Input: c, Note: err.Error()})
		return false
	}
	ok = true
	nUni := 0
	for i := range views {
		mv, err := c20jModelView(outs[i])
		r.CorrCompared++
		if mv.Unique {
			nUni++
			r.H("jointag.model", "join column stays unique (finding shape)")
		} else {
			r.H("jointag.model", "join column not unique")
		}
		if mv.Indexed {
			r.H("jointag.model", "join column keeps an index setting")
		}
		if err != nil || canon(mv) != canon(views[i]) {
			ok = false
			r.Violate(Violation{Kind: "correspondence", Suite: "mig.jointag", Input: c, Observed: views[i], Expected: mv,
				Note: fmt.Sprintf("join-table field %s derived from a field tagged %q: real schema.Relationship.JoinTable field vs Lean Gorm.Mig.joinCol", names[i], srcTags[i])})
			break
		}
	}
	if ok && nUni != uniCons {
		ok = false
		r.Violate(Violation{Kind: "correspondence", Suite: "mig.jointag", Input: c, Observed: uniCons, Expected: nUni,
			Note: "number of unique constraints of the join table: JoinTable.ParseUniqueConstraints() vs the Lean model's unique join columns"})
	}
	return ok
}

func c20TieJoinTag(r *Result, rng *rand.Rand, tier string) {
	n := 700
	if tier == "thorough" {
		n = 12000
	} else if tier == "search" {
		n = 4000
	}
	// batched: collect cases, ask Lean once
	type pend struct {
		c     c20jTieCase
		src   []string
		views []c20jColView
		names []string
		uni   int
	}
	var ps []pend
	var ops [][]interface{}
	for i := 0; i < n && !expired(); i++ {
		c := c20jTieCase{Own: c20jGenSide(rng, "o"), Ref: c20jGenSide(rng, "r")}
		src, views, names, uni, idx, err := c20jReal(c)
		if err != nil {
			r.H("jointag.skip", strings.SplitN(err.Error(), ":", 2)[0])
			continue
		}
		r.H("jointag.join-fields", fmt.Sprint(len(views)))
		r.H("jointag.real.unique-constraints", fmt.Sprint(uni))
		r.H("jointag.real.indexes", fmt.Sprint(idx))
		r.H("jointag.keys", fmt.Sprintf("own:%d ref:%d joinFK:%v joinRef:%v", len(c.Own.Keys), len(c.Ref.Keys), len(c.Own.Join) > 0, len(c.Ref.Join) > 0))
		for _, t := range src {
			nu, tr := c20jUniqCount(reflect.StructTag(t).Get("gorm"))
			r.H("jointag.source.uniqueness-settings", fmt.Sprint(nu))
			if tr {
				r.H("jointag.source.feature", "uniqueness setting followed by a blank")
			}
			ops = append(ops, []interface{}{"mig.jointag", t})
		}
		ps = append(ps, pend{c, src, views, names, uni})
		r.Case("mig.jointag", canon(c), true)
		if i < 2 {
			r.Sample(c)
		}
	}
	outs, err := AskLean(ops)
	if err != nil {
		r.Violate(Violation{Kind: "correspondence", Suite: "mig.jointag", Note: err.Error()})
		return
	}
	k := 0
	bad := 0
	for _, p := range ps {
		nUni := 0
		differ := false
		for i := range p.views {
			mv, err := c20jModelView(outs[k])
			k++
			r.CorrCompared++
			if mv.Unique {
				nUni++
				r.H("jointag.model", "join column stays unique (finding shape)")
			} else {
				r.H("jointag.model", "join column not unique")
			}
			if mv.Indexed {
				r.H("jointag.model", "join column keeps an index setting")
			}
			if !differ && (err != nil || canon(mv) != canon(p.views[i])) {
				differ = true
				if bad < 5 {
					r.Violate(Violation{Kind: "correspondence", Suite: "mig.jointag", Input: p.c, Observed: p.views[i], Expected: mv,
						Note: fmt.Sprintf("join-table field %s derived from a field tagged %q: real schema.Relationship.JoinTable field vs Lean Gorm.Mig.joinCol", p.names[i], p.src[i])})
				} else {
					r.CorrDiffs++
				}
				bad++
			}
		}
		if !differ && nUni != p.uni {
			r.Violate(Violation{Kind: "correspondence", Suite: "mig.jointag", Input: p.c, Observed: p.uni, Expected: nUni,
				Note: "number of unique constraints of the join table: JoinTable.ParseUniqueConstraints() vs the Lean model's unique join columns"})
		}
	}
}

// ---- jointable (end-to-end) -------------------------------------------------------------------------

// named targets (a generated struct type has no name: only ONE anonymous model can get a table name from the namer, so
// the generated side is the owner; the referenced side varies by which of these columns `References:` names)
type C20jTag struct {
	ID   uint `gorm:"primaryKey"`
	Name string
	UxA  string `gorm:"uniqueIndex"`
	UnB  string `gorm:"unique"`
	UxC  string `gorm:"uniqueIndex:ux_c20j_c;size:40"`
	UnD  string `gorm:"size:30;unique;not null"`
	IxE  string `gorm:"index"`
	IxF  string `gorm:"index:ix_c20j_f,unique"`
	UxG  int64  `gorm:"UNIQUEINDEX"`
	UnH  int    `gorm:"not null;UNIQUE"`
	K1   string `gorm:"uniqueIndex:ux_c20j_k,priority:1;size:20"`
	K2   int    `gorm:"uniqueIndex:ux_c20j_k,priority:2"`
	UxJ  string `gorm:"uniqueIndex;size:12"`
	UnK  string `gorm:"index;unique"`
	PlL  string `gorm:"size:25;default:'x'"`
	UxM  string `gorm:"column:m_code;uniqueIndex:ux_c20j_m,sort:desc"`
	UnN  string `gorm:"type:varchar(16);unique"`
}

func (C20jTag) TableName() string { return "c20j_tags" }

// string + composite primary keys, a unique alternative key
type C20jCity struct {
	Country string `gorm:"primaryKey;size:2"`
	Code    string `gorm:"primaryKey;size:8"`
	Zip     string `gorm:"uniqueIndex;size:10"`
	Title   string
}

func (C20jCity) TableName() string { return "c20j_cities" }

// the two-uniqueness-settings witnesses of F30 (kept out of the ordinary target)
type C20jTagW struct {
	ID  uint   `gorm:"primaryKey"`
	TwL string `gorm:"unique;uniqueIndex"`
	TwM string `gorm:"uniqueIndex:ux_c20j_w1;uniqueIndex:ux_c20j_w2,priority:1"`
	M2  int    `gorm:"uniqueIndex:ux_c20j_w2,priority:2"`
}

func (C20jTagW) TableName() string { return "c20j_tagws" }

var c20jTargets = map[string]struct {
	typ  reflect.Type
	refs [][]string // candidate References: lists (nil = default primary key)
}{
	"tag": {reflect.TypeOf(C20jTag{}), [][]string{nil, nil, {"UxA"}, {"UnB"}, {"UxC"}, {"UnD"}, {"IxE"}, {"IxF"}, {"UxG"}, {"UnH"}, {"K1", "K2"}, {"UxJ"}, {"UnK"}, {"PlL"}, {"UxM"}, {"UnN"},
		{"UxA", "UnB"}, {"ID", "UxC"}, {"UxG", "UxJ"}}},
	"city": {reflect.TypeOf(C20jCity{}), [][]string{nil, {"Zip"}, {"Country", "Code"}, {"Code", "Zip"}}},
	"tagw": {reflect.TypeOf(C20jTagW{}), [][]string{{"TwL"}, {"TwM"}, {"TwM", "M2"}}},
}

type c20jSpec struct {
	Target   string     `json:"target"`
	Refs     []string   `json:"refs"`     // References: (empty = default)
	OwnKeys  []c20Field `json:"ownkeys"`  // additional key candidates of the owner (generated tags)
	UseOwn   bool       `json:"useown"`   // foreignKey: lists OwnKeys (else the owner's ID)
	IDTag    string     `json:"idtag"`    // tag of the owner's ID
	JoinFK   []string   `json:"joinfk"`   // joinForeignKey names
	JoinRef  []string   `json:"joinref"`  // joinReferences names
	Cons     string     `json:"cons"`     // constraint: tag of the relation
	Fresh    bool       `json:"fresh"`    // no v1: AutoMigrate(v2) on an empty database
	TargetV1 bool       `json:"targetv1"` // the target model is migrated (and filled) together with v1
	Explicit int        `json:"explicit"` // v2 call: 0 owner alone, 1 owner+target, 2 target+owner
	Owners   int        `json:"owners"`
	Targets  int        `json:"targets"`
	Edges    [][]int    `json:"edges"` // per owner (the last one is created NESTED after v2): indexes of its targets
	Link     string     `json:"link"`  // append | append-all | replace
	DisableFK bool      `json:"disablefk"`
	SkipTx   bool       `json:"skiptx"`
}

type c20jOutcome struct {
	Stage    string   `json:"stage"`
	Verdict  string   `json:"verdict,omitempty"`
	Expected string   `json:"expected,omitempty"`
	Observed string   `json:"observed,omitempty"`
	Err      string   `json:"err,omitempty"`
	JoinDDL  string   `json:"join_ddl,omitempty"`
	Repeat   []string `json:"repeat,omitempty"`
}

func c20jOwnerType(sp c20jSpec, withRel bool) (reflect.Type, error) {
	side := c20jSide{Fields: sp.OwnKeys, IDTag: sp.IDTag}
	if !withRel {
		return c20jSideType(side, nil)
	}
	tg := c20jTargets[sp.Target]
	parts := []string{"many2many:c20j_links"}
	if sp.UseOwn {
		var ks []string
		for _, f := range sp.OwnKeys {
			ks = append(ks, f.Name)
		}
		parts = append(parts, "foreignKey:"+strings.Join(ks, ","))
	}
	if len(sp.Refs) > 0 {
		parts = append(parts, "References:"+strings.Join(sp.Refs, ","))
	}
	if len(sp.JoinFK) > 0 {
		parts = append(parts, "joinForeignKey:"+strings.Join(sp.JoinFK, ","))
	}
	if len(sp.JoinRef) > 0 {
		parts = append(parts, "joinReferences:"+strings.Join(sp.JoinRef, ","))
	}
	if sp.Cons != "" {
		parts = append(parts, sp.Cons)
	}
	return c20jSideType(side, &reflect.StructField{Name: "Rel", Type: reflect.SliceOf(tg.typ), Tag: reflect.StructTag(`gorm:"` + strings.Join(parts, ";") + `"`)})
}

func c20jFill(v reflect.Value, salt string, n int) {
	t := v.Type()
	for i := 0; i < t.NumField(); i++ {
		f := v.Field(i)
		name := t.Field(i).Name
		if name == "ID" || name == "Rel" {
			continue
		}
		switch f.Kind() {
		case reflect.String:
			s := fmt.Sprintf("%s%s%d", strings.ToLower(name), salt, n)
			if name == "Country" {
				s = fmt.Sprintf("c%d", n)
			}
			f.SetString(s)
		case reflect.Int, reflect.Int64:
			f.SetInt(int64(1000*(i+1) + n))
		case reflect.Uint, reflect.Uint64:
			f.SetUint(uint64(1000*(i+1) + n))
		}
	}
}

// c20jKey: identifying text of a target / owner record (its Name / Label / Title column)
func c20jMark(v reflect.Value) string {
	for _, n := range []string{"Name", "Title", "Label", "TwL"} {
		if f := v.FieldByName(n); f.IsValid() {
			return f.String()
		}
	}
	return ""
}

func c20jRun(sp c20jSpec) (out c20jOutcome) {
	defer func() {
		if p := recover(); p != nil {
			out = c20jOutcome{Stage: "panic", Err: fmt.Sprint(p)}
		}
	}()
	tg, ok := c20jTargets[sp.Target]
	if !ok {
		return c20jOutcome{Stage: "bad-spec"}
	}
	t1, err := c20jOwnerType(sp, false)
	if err != nil {
		return c20jOutcome{Stage: "type", Err: err.Error()}
	}
	t2, err := c20jOwnerType(sp, true)
	if err != nil {
		return c20jOutcome{Stage: "type", Err: err.Error()}
	}
	db, rec := c20OpenCfg("c20j_owners", c20Cfg{DisableFK: sp.DisableFK, SkipTx: sp.SkipTx})
	if sq, e := db.DB(); e == nil {
		defer sq.Close()
	}
	newTarget := func(j int) reflect.Value {
		v := reflect.New(tg.typ)
		c20jFill(v.Elem(), "t", j)
		return v
	}
	var targets []reflect.Value
	makeTargets := func() error {
		for j := 0; j < sp.Targets; j++ {
			v := newTarget(j)
			if err := db.Create(v.Interface()).Error; err != nil {
				return err
			}
			targets = append(targets, v)
		}
		return nil
	}
	nOld := sp.Owners - 1 // the last owner is created nested after v2
	if !sp.Fresh {
		args := []interface{}{reflect.New(t1).Interface()}
		if sp.TargetV1 {
			args = append(args, reflect.New(tg.typ).Interface())
		}
		if err := db.AutoMigrate(args...); err != nil {
			return c20jOutcome{Stage: "v1-rejected", Err: err.Error()}
		}
		for i := 0; i < nOld; i++ {
			v := reflect.New(t1)
			c20jFill(v.Elem(), "o", i)
			if err := db.Create(v.Interface()).Error; err != nil {
				return c20jOutcome{Stage: "v1-insert", Err: err.Error()}
			}
		}
		if sp.TargetV1 {
			if err := makeTargets(); err != nil {
				return c20jOutcome{Stage: "v1-insert", Err: err.Error()}
			}
		}
	}
	// --- migrate(v2): owner gains the many2many field
	m2 := reflect.New(t2).Interface()
	args := []interface{}{m2}
	switch sp.Explicit {
	case 1:
		args = []interface{}{m2, reflect.New(tg.typ).Interface()}
	case 2:
		args = []interface{}{reflect.New(tg.typ).Interface(), m2}
	}
	if err := db.AutoMigrate(args...); err != nil {
		return c20jOutcome{Stage: "v2-failed", Err: err.Error(), Verdict: "AutoMigrate of the model that gained a many2many field returned an error", Observed: err.Error(), Expected: "nil"}
	}
	c20Quiet(rec, func() {
		db.Raw("SELECT sql FROM sqlite_master WHERE type = 'table' AND name = 'c20j_links'").Scan(&out.JoinDDL)
	})
	if sp.Fresh {
		for i := 0; i < nOld; i++ {
			v := reflect.New(t2)
			c20jFill(v.Elem(), "o", i)
			if err := db.Create(v.Interface()).Error; err != nil {
				return c20jOutcome{Stage: "v2-insert", Err: err.Error(), Verdict: "the migrated table rejects a record of the new model", Observed: err.Error(), Expected: "nil", JoinDDL: out.JoinDDL}
			}
		}
	}
	if len(targets) == 0 {
		if err := makeTargets(); err != nil {
			return c20jOutcome{Stage: "target-insert", Err: err.Error(), Verdict: "the auto-created table of the related model rejects a record", Observed: err.Error(), Expected: "nil", JoinDDL: out.JoinDDL}
		}
	}
	// --- the rows that existed before v2 are still there
	var owners []reflect.Value
	{
		list := reflect.New(reflect.SliceOf(t2))
		if err := db.Order("id").Find(list.Interface()).Error; err != nil {
			return c20jOutcome{Stage: "read-owners", Err: err.Error(), Verdict: "reading the rows of the migrated table failed", Observed: err.Error(), Expected: "nil", JoinDDL: out.JoinDDL}
		}
		if list.Elem().Len() != nOld {
			return c20jOutcome{Stage: "rows-lost", Verdict: "rows of the owner table changed across AutoMigrate(v2)", Observed: fmt.Sprint(list.Elem().Len()), Expected: fmt.Sprint(nOld), JoinDDL: out.JoinDDL}
		}
		for i := 0; i < nOld; i++ {
			p := reflect.New(t2)
			p.Elem().Set(list.Elem().Index(i))
			want := reflect.New(t1)
			c20jFill(want.Elem(), "o", i)
			if c20jMark(p.Elem()) != c20jMark(want.Elem()) {
				return c20jOutcome{Stage: "rows-lost", Verdict: "column values of the owner table changed across AutoMigrate(v2)", Observed: c20jMark(p.Elem()), Expected: c20jMark(want.Elem()), JoinDDL: out.JoinDDL}
			}
			owners = append(owners, p)
		}
	}
	// --- store the links of the bipartite graph
	pick := func(idx []int) reflect.Value {
		s := reflect.MakeSlice(reflect.SliceOf(tg.typ), 0, len(idx))
		for _, j := range idx {
			s = reflect.Append(s, targets[j].Elem())
		}
		return s
	}
	fail := func(stage string, err error) c20jOutcome {
		return c20jOutcome{Stage: stage, Err: err.Error(), Verdict: "storing a link of the new many2many relation returned an error", Observed: err.Error(), Expected: "nil", JoinDDL: out.JoinDDL}
	}
	for i, o := range owners {
		as := db.Model(o.Interface()).Association("Rel")
		switch sp.Link {
		case "append-all":
			lst := reflect.New(reflect.SliceOf(tg.typ))
			lst.Elem().Set(pick(sp.Edges[i]))
			if err := as.Append(lst.Interface()); err != nil {
				return fail("link", err)
			}
		case "replace":
			lst := reflect.New(reflect.SliceOf(tg.typ))
			lst.Elem().Set(pick(sp.Edges[i]))
			if err := as.Replace(lst.Interface()); err != nil {
				return fail("link", err)
			}
		default:
			for _, j := range sp.Edges[i] {
				// a fresh handle per link: the owner value keeps what Append added
				if err := db.Model(o.Interface()).Association("Rel").Append(targets[j].Interface()); err != nil {
					return fail("link", err)
				}
			}
		}
	}
	{ // the last owner: a record of the new model created together with its (existing) related rows
		v := reflect.New(t2)
		c20jFill(v.Elem(), "o", nOld)
		v.Elem().FieldByName("Rel").Set(pick(sp.Edges[nOld]))
		if err := db.Create(v.Interface()).Error; err != nil {
			return fail("nested-create", err)
		}
		owners = append(owners, v)
	}
	// --- read back
	for i, o := range owners {
		var want []string
		for _, j := range sp.Edges[i] {
			want = append(want, c20jMark(targets[j].Elem()))
		}
		sort.Strings(want)
		got := reflect.New(t2)
		if err := db.Preload("Rel").First(got.Interface(), o.Elem().FieldByName("ID").Interface()).Error; err != nil {
			return c20jOutcome{Stage: "read-back", Err: err.Error(), Verdict: "reading a record of the new model back failed", Observed: err.Error(), Expected: "nil", JoinDDL: out.JoinDDL}
		}
		var have []string
		rel := got.Elem().FieldByName("Rel")
		for k := 0; k < rel.Len(); k++ {
			have = append(have, c20jMark(rel.Index(k)))
		}
		sort.Strings(have)
		if strings.Join(have, ",") != strings.Join(want, ",") {
			return c20jOutcome{Stage: "links-lost", Verdict: fmt.Sprintf("owner #%d: the related rows stored without an error are not the ones read back (Preload)", i),
				Observed: strings.Join(have, ","), Expected: strings.Join(want, ","), JoinDDL: out.JoinDDL}
		}
		if n := db.Model(got.Interface()).Association("Rel").Count(); int(n) != len(want) {
			return c20jOutcome{Stage: "links-lost", Verdict: fmt.Sprintf("owner #%d: Association.Count disagrees with the links stored", i),
				Observed: fmt.Sprint(n), Expected: fmt.Sprint(len(want)), JoinDDL: out.JoinDDL}
		}
	}
	// --- migrate(v2) again: nothing to do
	rec.Reset()
	if err := db.AutoMigrate(args...); err != nil {
		return c20jOutcome{Stage: "repeat-failed", Err: err.Error(), Verdict: "the repeated AutoMigrate(v2) returned an error", Observed: err.Error(), Expected: "nil", JoinDDL: out.JoinDDL}
	}
	if ddl := c20SchemaStmts(rec.Snapshot()); len(ddl) > 0 {
		return c20jOutcome{Stage: "repeat-ddl", Verdict: "the repeated AutoMigrate(v2) issued schema-changing statements", Observed: strings.Join(ddl, " ;; "), Expected: "no CREATE/ALTER/DROP", JoinDDL: out.JoinDDL, Repeat: ddl}
	}
	out.Stage = "ok"
	return out
}

// c20jKnown: the pattern of F30 — a column the relation references (either side) carries two or more uniqueness settings,
// or one followed by a blank; and the failure is a lost link
func c20jKnown(sp c20jSpec, o c20jOutcome) string {
	var check func(body string) bool
	switch {
	case o.Stage == "links-lost": // the surviving setting is `unique`
		check = func(body string) bool {
			n, tr := c20jUniqCount(body)
			return n >= 2 || tr
		}
	case o.Stage == "v2-failed" && strings.Contains(o.Err, "already exists"): // the surviving setting is a NAMED index
		check = func(body string) bool {
			u, i, _ := c20jHotCount(body)
			return u+i >= 2 && i >= 1
		}
	default:
		return ""
	}
	if sp.UseOwn {
		for _, f := range sp.OwnKeys {
			if check(f.Tag) {
				return c20F30
			}
		}
	} else if check(sp.IDTag) {
		return c20F30
	}
	tg := c20jTargets[sp.Target]
	for _, rn := range sp.Refs {
		if sf, ok := tg.typ.FieldByName(rn); ok && check(sf.Tag.Get("gorm")) {
			return c20F30
		}
	}
	return ""
}

func c20jGenSpec(rng *rand.Rand, finding bool) c20jSpec {
	sp := c20jSpec{Target: []string{"tag", "tag", "tag", "city"}[rng.Intn(4)]}
	if finding && rng.Intn(2) == 0 {
		sp.Target = "tagw"
	}
	tg := c20jTargets[sp.Target]
	sp.Refs = tg.refs[rng.Intn(len(tg.refs))]
	// owner side
	if rng.Intn(5) == 0 { // (a primary key is unique anyway: these tags only feed the tag clean-up)
		sp.IDTag = []string{"primaryKey", "primaryKey;autoIncrement", "primaryKey;comment:main index of the owners", "primaryKey;unique", "primaryKey;uniqueIndex", "primaryKey;index"}[rng.Intn(6)]
	}
	if rng.Intn(2) == 0 {
		nk := 1 + rng.Intn(2)
		for i := 0; i < nk; i++ {
			nu := []int{0, 1, 1, 1, 1}[rng.Intn(5)]
			body, _ := c20jBody(rng, c20jTagOpt{uniq: nu, single: !finding}, fmt.Sprintf("o%d", i))
			kind := []string{"string", "string", "int64"}[rng.Intn(3)]
			if strings.Contains(body, "varchar") || strings.Contains(body, "default:") || strings.Contains(body, "precision") || strings.Contains(strings.ToLower(body), "size") {
				kind = "string"
			}
			if kind != "string" { // text-only settings
				body, _ = c20jBody(rng, c20jTagOpt{uniq: nu, single: !finding}, fmt.Sprintf("o%d", i))
				var keep []string
				for _, p := range strings.Split(body, ";") {
					lp := strings.ToLower(p)
					if strings.HasPrefix(lp, "size") || strings.HasPrefix(lp, "type") || strings.HasPrefix(lp, "default") || strings.HasPrefix(lp, "precision") {
						continue
					}
					keep = append(keep, p)
				}
				body = strings.Join(keep, ";")
			}
			// SQLite exclusions of this check (c20_gen.go): type:T(N) together with size:M; composite: needs a partner
			if strings.Contains(body, "type:") && strings.Contains(strings.ToLower(body), "size:") {
				body = strings.Replace(body, "type:varchar(30)", "", 1)
			}
			body = strings.Trim(strings.ReplaceAll(body, ";;", ";"), ";")
			sp.OwnKeys = append(sp.OwnKeys, c20Field{Name: fmt.Sprintf("OK%c", 'A'+i), Kind: kind, Tag: body})
		}
		sp.UseOwn = rng.Intn(4) != 0
	}
	nOwn := 1
	if sp.UseOwn {
		nOwn = len(sp.OwnKeys)
	}
	// (the owner type has no name: without joinForeignKey the join column of the default key would be a bare `id`)
	if !sp.UseOwn || rng.Intn(2) == 0 {
		for i := 0; i < nOwn; i++ {
			sp.JoinFK = append(sp.JoinFK, fmt.Sprintf("OwnerRef%d", i))
		}
	}
	if rng.Intn(2) == 0 {
		nr := len(sp.Refs)
		if nr == 0 {
			nr = 1
			if sp.Target == "city" {
				nr = 2
			}
		}
		for i := 0; i < nr; i++ {
			sp.JoinRef = append(sp.JoinRef, fmt.Sprintf("TargetRef%d", i))
		}
	}
	sp.Cons = []string{"", "", "", "constraint:OnDelete:CASCADE", "constraint:-"}[rng.Intn(5)]
	sp.Fresh = rng.Intn(4) == 0
	sp.TargetV1 = !sp.Fresh && rng.Intn(2) == 0
	sp.Explicit = []int{0, 0, 1, 2}[rng.Intn(4)]
	if sp.Cons == "constraint:-" && !sp.TargetV1 && sp.Explicit == 0 {
		// latitude (unchanged tree): ReorderModels adds a related model only through the relation's constraint; with
		// `constraint:-` the join table is created but the related model has to be passed by the caller
		sp.Explicit = 1 + rng.Intn(2)
	}
	sp.Owners = 3 + rng.Intn(2)
	sp.Targets = 2 + rng.Intn(3)
	sp.Link = []string{"append", "append", "append-all", "replace"}[rng.Intn(4)]
	sp.DisableFK = rng.Intn(6) == 0
	sp.SkipTx = rng.Intn(6) == 0
	// bipartite graph: target 0 is shared by every owner, owner 0 has at least two targets
	for i := 0; i < sp.Owners; i++ {
		set := map[int]bool{0: true}
		if i == 0 {
			set[1] = true
		}
		for j := 1; j < sp.Targets; j++ {
			if rng.Intn(2) == 0 {
				set[j] = true
			}
		}
		var e []int
		for j := range set {
			e = append(e, j)
		}
		sort.Ints(e)
		sp.Edges = append(sp.Edges, e)
	}
	return sp
}

func c20jJudge(r *Result, sp c20jSpec) c20jOutcome {
	o := c20jRun(sp)
	if o.Verdict == "" {
		return o
	}
	if id := c20jKnown(sp, o); id != "" && listed(id) {
		r.KnownFinding(id, fmt.Sprintf("many2many References:%v of %s: %s — expected %s, read back %s; join table: %s", sp.Refs, sp.Target, o.Verdict, o.Expected, o.Observed, o.JoinDDL))
		return o
	}
	r.Violate(Violation{Kind: "e2e", Suite: "jointable", Input: sp, Observed: o, Expected: o.Expected, Note: o.Verdict})
	return o
}

func c20E2EJoinTable(r *Result, rng *rand.Rand, tier string) {
	n := 160
	if tier == "thorough" {
		n = 2500
	} else if tier == "search" {
		n = 1200
	}
	// dedicated probe of the listed finding
	w := c20jSpec{Target: "tagw", Refs: []string{"TwL"}, JoinFK: []string{"OwnerRef0"}, Owners: 3, Targets: 2, Edges: [][]int{{0, 1}, {0}, {0, 1}}, Link: "append"}
	if o := c20jRun(w); o.Stage == "links-lost" {
		if listed(c20F30) {
			r.KnownFinding(c20F30, "many2many References:TwL (`unique;uniqueIndex`): "+o.Verdict+" — expected "+o.Expected+", read back "+o.Observed+"; join table: "+o.JoinDDL)
		} else {
			r.Violate(Violation{Kind: "e2e", Suite: "jointable", Input: w, Observed: o, Expected: o.Expected, Note: o.Verdict})
		}
	} else {
		r.Note("finding %s no longer reproduces on its witness (stage %s %s)", c20F30, o.Stage, o.Err)
	}
	for i := 0; i < n && !expired(); i++ {
		sp := c20jGenSpec(rng, rng.Intn(40) == 0)
		o := c20jJudge(r, sp)
		r.Case("jointable", canon(sp), o.Stage == "ok")
		r.H("jointable.stage", o.Stage)
		r.H("jointable.target", sp.Target+" References:"+strings.Join(sp.Refs, ","))
		r.H("jointable.link", sp.Link)
		r.H("jointable.shape", fmt.Sprintf("fresh:%v targetV1:%v explicit:%d ownkey:%v joinFK:%v joinRef:%v", sp.Fresh, sp.TargetV1, sp.Explicit, sp.UseOwn, len(sp.JoinFK) > 0, len(sp.JoinRef) > 0))
		if o.JoinDDL != "" {
			u := strings.Count(strings.ToUpper(o.JoinDDL), " UNIQUE")
			r.H("jointable.join-ddl", fmt.Sprintf("UNIQUE constraints:%d", u))
		}
		if o.Verdict == "" && o.Stage != "ok" && i < 400 {
			b, _ := json.Marshal(sp)
			r.Note("jointable skipped at %s: %s :: %s", o.Stage, o.Err, b)
		}
		if i < 2 {
			r.Sample(sp)
		}
	}
}

func init() {
	register("C20", func(r *Result, rng *rand.Rand, tier string) {
		if c20Only("jointag") {
			c20TieJoinTag(r, rng, tier)
		}
	})
	register("C20", func(r *Result, rng *rand.Rand, tier string) {
		if c20Only("jointable") {
			c20E2EJoinTable(r, rng, tier)
		}
	})
	replayers["C20/mig.jointag"] = func(r *Result, input json.RawMessage) {
		var c c20jTieCase
		if err := json.Unmarshal(input, &c); err != nil {
			r.Note("bad replay input: %v", err)
			return
		}
		c20jJudgeTie(r, c)
	}
	replayers["C20/jointable"] = func(r *Result, input json.RawMessage) {
		var sp c20jSpec
		if err := json.Unmarshal(input, &sp); err != nil {
			r.Note("bad replay input: %v", err)
			return
		}
		c20jJudge(r, sp)
	}
	var _ = gorm.ErrRecordNotFound
}
