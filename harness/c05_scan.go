package main

// C05 correspondence suite `scan-tail` for Model/Stages.lean `scanTail`: the real gorm.Scan runs on scripted rows
// (gorm.Rows is an interface) whose Next fails at a chosen row – so that the failure is visible only through Err() –
// for every scan mode (all 8 combinations of ScanInitialized / ScanUpdate / ScanOnConflictDoNothing), every kind of
// destination, 0–3 rows, and a db.Error that is nil / another error / the very same value; the resulting db.Error is
// compared with the model.

import (
	"encoding/json"
	"database/sql"
	"errors"
	"fmt"
	"math/rand"
	"reflect"

	"gorm.io/gorm"
)

type C05ScanRec struct {
	ID   uint `gorm:"primaryKey"`
	Name string
}

type c05FakeRows struct {
	cols     []string
	data     [][]interface{}
	pos      int
	errAt    int // Next fails when pos == errAt (and err != nil)
	err      error
	failed   bool
	closeErr error
}

func (f *c05FakeRows) Columns() ([]string, error)              { return append([]string(nil), f.cols...), nil }
func (f *c05FakeRows) ColumnTypes() ([]*sql.ColumnType, error) { return nil, nil }
func (f *c05FakeRows) Next() bool {
	if f.failed {
		return false
	}
	if f.err != nil && f.pos == f.errAt {
		f.failed = true
		return false
	}
	if f.pos >= len(f.data) {
		return false
	}
	f.pos++
	return true
}
func (f *c05FakeRows) Err() error {
	if f.failed {
		return f.err
	}
	return nil
}
func (f *c05FakeRows) Close() error { return f.closeErr }
func (f *c05FakeRows) Scan(dest ...interface{}) error {
	if f.pos == 0 || f.pos > len(f.data) {
		return errors.New("c05 fake rows: Scan without Next")
	}
	row := f.data[f.pos-1]
	for i, d := range dest {
		if i >= len(row) {
			break
		}
		if sc, ok := d.(sql.Scanner); ok {
			if err := sc.Scan(row[i]); err != nil {
				return err
			}
			continue
		}
		rv := reflect.ValueOf(d)
		if rv.Kind() != reflect.Ptr || rv.IsNil() {
			return fmt.Errorf("c05 fake rows: dest %d is %T", i, d)
		}
		rv = rv.Elem()
		v := reflect.ValueOf(row[i])
		switch {
		case rv.Kind() == reflect.Interface:
			rv.Set(v)
		case rv.Kind() == reflect.Ptr:
			n := reflect.New(rv.Type().Elem())
			if !v.Type().ConvertibleTo(n.Elem().Type()) {
				return fmt.Errorf("c05 fake rows: cannot convert %T to %s", row[i], n.Elem().Type())
			}
			n.Elem().Set(v.Convert(n.Elem().Type()))
			rv.Set(n)
		case v.Type().ConvertibleTo(rv.Type()):
			rv.Set(v.Convert(rv.Type()))
		default:
			return fmt.Errorf("c05 fake rows: cannot convert %T to %s", row[i], rv.Type())
		}
	}
	return nil
}

var c05ScanDests = []string{"*struct", "*[]struct", "*[]*struct", "*map", "*[]map", "*int64"}

func c05ScanDest(kind string, update bool, n int) interface{} {
	switch kind {
	case "*struct":
		return &C05ScanRec{}
	case "*[]struct":
		s := []C05ScanRec{}
		if update {
			s = make([]C05ScanRec, n+1) // update mode fills existing elements (never fewer than the rows: scan.go returns early then)
		}
		return &s
	case "*[]*struct":
		s := []*C05ScanRec{}
		if update {
			for i := 0; i <= n; i++ {
				s = append(s, &C05ScanRec{})
			}
		}
		return &s
	case "*map":
		m := map[string]interface{}{}
		return &m
	case "*[]map":
		s := []map[string]interface{}{}
		return &s
	}
	var x int64
	return &x
}

func c05ScanTailSuite(r *Result, rng *rand.Rand, tier string) {
	base, _, sqlDB := OpenRec(nil)
	defer sqlDB.Close()
	errRows := errors.New("c05 scan: rows failed")
	errOther := errors.New("c05 scan: earlier error")
	type tcase struct {
		in   []interface{}
		real interface{}
		desc string
	}
	var cases []tcase
	for mode := 0; mode < 8; mode++ {
		for _, dk := range c05ScanDests {
			for n := 0; n <= 3; n++ {
				for errAt := -1; errAt <= n; errAt++ {
					for _, pre := range []string{"nil", "other", "same"} {
						if pre == "same" && errAt < 0 {
							continue
						}
						initialized := mode&int(gorm.ScanInitialized) != 0
						update := mode&int(gorm.ScanUpdate) != 0
						if initialized && (n == 0 || errAt == 0) {
							continue // a caller passes ScanInitialized only after a successful first Next
						}
						cols := []string{"id", "name"}
						if dk == "*int64" {
							cols = []string{"id"}
						}
						fr := &c05FakeRows{cols: cols, errAt: errAt}
						if errAt >= 0 {
							fr.err = errRows
						}
						for i := 0; i < n; i++ {
							row := []interface{}{int64(i + 1), fmt.Sprint("n", i)}
							fr.data = append(fr.data, row[:len(cols)])
						}
						dest := c05ScanDest(dk, update, n)
						tx := base.Session(&gorm.Session{NewDB: true}).Model(dest)
						if err := tx.Statement.Parse(dest); err != nil {
							tx.Statement.Schema = nil
						}
						tx.Statement.Dest = dest
						tx.Statement.ReflectValue = reflect.Indirect(reflect.ValueOf(dest))
						var cur interface{}
						switch pre {
						case "other":
							tx.Error = errOther
							cur = errOther.Error()
						case "same":
							tx.Error = errRows
							cur = errRows.Error()
						}
						if initialized {
							fr.Next()
						}
						desc := fmt.Sprintf("mode=%d dest=%s rows=%d errAt=%d pre=%s", mode, dk, n, errAt, pre)
						func() {
							defer func() {
								if p := recover(); p != nil {
									r.Note("scan-tail: gorm.Scan panicked on %s: %v", desc, p)
									tx.Error = fmt.Errorf("panic: %v", p)
								}
							}()
							gorm.Scan(fr, tx, gorm.ScanMode(mode))
						}()
						var re interface{}
						if fr.failed { // rows.Err() answers the error only if a Next did fail (a single-row destination stops earlier)
							re = errRows.Error()
							r.H("scan_rows_err_seen", dk)
						}
						cases = append(cases, tcase{[]interface{}{"c05.scantail", mode, cur, re, pre == "same"}, c05ErrJ(tx.Error), desc})
						r.H("scan_mode", fmt.Sprint(mode))
						r.H("scan_dest", dk)
						r.H("scan_rows_err", fmt.Sprintf("errAt=%d of %d rows", errAt, n))
					}
				}
			}
		}
	}
	var ops [][]interface{}
	for _, c := range cases {
		ops = append(ops, c.in)
	}
	outs, err := AskLean(ops)
	if err != nil {
		r.Violate(Violation{Kind: "correspondence", Suite: "scan-tail", Note: err.Error()})
		return
	}
	for i, c := range cases {
		r.CorrCompared++
		r.Case("scan-tail", c.desc, true)
		if canon(c.real) != canonRaw(outs[i]) {
			r.Violate(Violation{Kind: "correspondence", Suite: "scan-tail", Input: c.desc, Observed: canon(c.real), Expected: canonRaw(outs[i]),
				Note: "db.Error after the real gorm.Scan on scripted rows whose failure shows only in rows.Err() vs Stg.scanTail (Model/Stages.lean)"})
		}
	}
}

func init() {
	register("C05", c05ScanTailSuite)
	replayers["C05/scan-tail"] = func(r *Result, input json.RawMessage) {
		r.Note("scan-tail replays are correspondence-only: rerun the suite")
	}
}
