package main

import (
	"encoding/json"
	"fmt"
	"math/rand"
	"strings"
)

func c11JudgeWorld(r *Result, cs c11Case, record bool) {
	f := c11Families[cs.World.Family]
	got, want, err := c11RunCase(cs)
	bad := ""
	if err != nil {
		bad = "error: " + err.Error()
	} else if strings.Join(got, "\n") != strings.Join(want, "\n") {
		bad = "loaded associations differ from the reference join"
	}
	if bad == "" {
		return
	}
	if f != nil && cs.World.collides(f) && listed("F6-C11-key-collision") {
		r.KnownFinding("F6-C11-key-collision", bad)
		return
	}
	r.Violate(Violation{Kind: "e2e", Suite: "world", Input: cs, Observed: map[string]interface{}{"got": got, "verdict": bad}, Expected: want,
		Note: "family " + cs.World.Family + ": every loaded parent must carry exactly the live children whose fk tuple equals its key tuple and that satisfy the condition"})
}

func init() {
	register("C11", func(r *Result, rng *rand.Rand, tier string) {
		worlds := 90
		if tier == "thorough" {
			worlds = 9000
		} else if tier == "search" {
			worlds = 1500
		}
		fams := []string{"S", "C", "U", "S", "C"}
		for i := 0; i < worlds && !expired(); i++ {
			f := c11Families[fams[i%len(fams)]]
			mode := 0
			if i%9 == 8 {
				mode = 1
			}
			w := f.Gen(rng, mode)
			r.H("world.family", f.Name)
			r.H("world.collides", fmt.Sprint(w.collides(f)))
			for k := 0; k < 8; k++ {
				op := f.genOp(rng, w)
				cs := c11Case{World: w, Op: op}
				nontriv := len(w.Tables[op.Parent]) >= 2
				r.Case("world", canon(cs), nontriv)
				r.H("world.op", op.Kind+"/"+op.Shape)
				if op.Kind == "query" {
					if op.All {
						r.H("world.node", "clause.Associations")
					}
					f.nodeStats(r, f.table(op.Parent), op.Nodes, 0)
				} else {
					c := "nocond"
					if op.Cond.Kind != "" {
						c = "cond"
					}
					what := "find"
					if op.Count {
						what = "count"
					}
					r.H("world.assoc", f.table(op.Parent).rel(op.Rel).Kind+"/"+what+"/"+c)
				}
				if i%37 == 0 && k == 0 {
					r.Sample(map[string]interface{}{"suite": "world", "op": op, "family": f.Name})
				}
				c11JudgeWorld(r, cs, true)
			}
		}
	})
	replayers["C11/world"] = func(r *Result, input json.RawMessage) {
		var cs c11Case
		if err := json.Unmarshal(input, &cs); err != nil {
			r.Note("bad replay input: %v", err)
			return
		}
		c11JudgeWorld(r, cs, false)
	}
}
