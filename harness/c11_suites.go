package main

import (
	"encoding/json"
	"fmt"
	"math/rand"
	"strings"
)

// ---- finding F6b: nested joins + Preload below them on a single-struct destination ------------------------------

const c11F6b = "F6b-C11-nested-join-preload-nil-panic"

type c11Chain struct {
	Hops []string    `json:"hops"`
	Val  interface{} `json:"val"` // nil = NULL join, [[name, value]] = struct
}

// every joined node that has a Preload directly below it gives one walk of preloadEntryPoint through the joined hops
func (f *c11Family) chains(w c11World, t *c11Table, row c11Row, nodes []*c11Node, hops []string, out *[][]string) {
	for _, nd := range nodes {
		if !nd.Join {
			continue
		}
		path := append(append([]string{}, hops...), nd.Rel)
		for _, k := range nd.Kids {
			if !k.Join {
				*out = append(*out, path)
				break
			}
		}
		f.chains(w, f.table(t.rel(nd.Rel).Child), nil, nd.Kids, path, out)
	}
}

func (f *c11Family) chainVal(w c11World, t *c11Table, row c11Row, nodes []*c11Node, hops []string) interface{} {
	if len(hops) == 0 {
		return []interface{}{}
	}
	for _, nd := range nodes {
		if nd.Join && nd.Rel == hops[0] {
			rel := t.rel(nd.Rel)
			cs := w.children(rel, row, nd.Cond)
			var v interface{}
			if len(cs) > 0 {
				v = f.chainVal(w, f.table(rel.Child), cs[0], nd.Kids, hops[1:])
			}
			return []interface{}{[]interface{}{nd.Rel, v}}
		}
	}
	return []interface{}{}
}

func c11DeepChain(nodes []*c11Node, depth int) bool {
	for _, nd := range nodes {
		if !nd.Join {
			continue
		}
		if depth >= 1 {
			for _, k := range nd.Kids {
				if !k.Join {
					return true
				}
			}
		}
		if c11DeepChain(nd.Kids, depth+1) {
			return true
		}
	}
	return false
}

// the walks of a single-struct query with at least two joined hops, for the row that is loaded
func c11Chains(cs c11Case) []c11Chain {
	if cs.Op.Kind != "query" || cs.Op.Shape != "single" || cs.Op.All || !c11DeepChain(cs.Op.Nodes, 0) {
		return nil
	}
	f := c11Families[cs.World.Family]
	t := f.table(cs.Op.Parent)
	var row c11Row
	for _, r := range cs.World.selected(t, cs.Op.PSel) {
		if f.innerOK(cs.World, t, r, cs.Op.Nodes) {
			row = r
			break
		}
	}
	if row == nil {
		return nil
	}
	var paths [][]string
	f.chains(cs.World, t, row, cs.Op.Nodes, nil, &paths)
	var out []c11Chain
	for _, p := range paths {
		if len(p) >= 2 {
			out = append(out, c11Chain{Hops: p, Val: f.chainVal(cs.World, t, row, cs.Op.Nodes, p)})
		}
	}
	return out
}

func c11JudgeWorld(r *Result, cs c11Case, record bool) {
	f := c11Families[cs.World.Family]
	got, want, err := c11RunCase(cs)
	realPanic := err != nil && strings.HasPrefix(err.Error(), "panic:")
	if chains := c11Chains(cs); len(chains) > 0 {
		var ops [][]interface{}
		for _, c := range chains {
			ops = append(ops, []interface{}{"entry.walk", c.Val, c.Hops})
		}
		outs, lerr := AskLean(ops)
		modelPanic := false
		for _, o := range outs {
			if string(o) == "false" {
				modelPanic = true
			}
		}
		r.CorrCompared++
		r.H("world.entrywalk", fmt.Sprintf("model-panic=%v real-panic=%v", modelPanic, realPanic))
		if lerr != nil || modelPanic != realPanic {
			r.Violate(Violation{Kind: "correspondence", Suite: "entry-walk", Input: cs, Observed: fmt.Sprint("real panic: ", realPanic, " ", err), Expected: fmt.Sprint("model panic: ", modelPanic),
				Note: "preloadEntryPoint walking joined relations of a single-struct destination vs Lean Gorm.entryWalk"})
		}
		if modelPanic && realPanic {
			if listed(c11F6b) {
				r.KnownFinding(c11F6b, "nil-pointer dereference in preloadEntryPoint: single-struct destination, NULL joined relation followed by a further joined hop with a Preload below")
				return
			}
		}
	}
	bad := ""
	if err != nil {
		bad = "error: " + err.Error()
	} else if strings.Join(got, "\n") != strings.Join(want, "\n") {
		bad = "loaded associations differ from the reference join"
	}
	if bad == "" {
		return
	}
	if !realPanic && f != nil && cs.World.collides(f) && listed("F6-C11-key-collision") {
		r.KnownFinding("F6-C11-key-collision", bad)
		return
	}
	r.Violate(Violation{Kind: "e2e", Suite: "world", Input: cs, Observed: map[string]interface{}{"got": got, "verdict": bad}, Expected: want,
		Note: "family " + cs.World.Family + ": every loaded parent must carry exactly the live children whose fk tuple equals its key tuple and that satisfy the condition"})
}

// the listed witness of F6b
func c11F6bWitness() c11Case {
	return c11Case{
		World: c11World{Family: "C", Tables: map[string][]c11Row{
			"c11c_orders": {{"region": 1, "code": "a", "n": 1, "deleted_at": false, "cust_tenant": 0, "cust_id": 0, "cust_zone": "", "p_region": nil, "p_code": nil}},
			"c11c_lines":  {{"n": 1, "o_region": 1, "o_code": "a", "deleted_at": false}},
		}},
		Op: c11Op{Kind: "query", Parent: "c11c_orders", Shape: "single", Nodes: []*c11Node{
			{Rel: "Parent", Join: true, Kids: []*c11Node{{Rel: "Parent", Join: true, Kids: []*c11Node{{Rel: "Lines"}}}}}}},
	}
}

func init() {
	register("C11", func(r *Result, rng *rand.Rand, tier string) {
		worlds := 560
		if tier == "thorough" {
			worlds = 11000
		} else if tier == "search" {
			worlds = 1500
		}
		fams := []string{"S", "C", "R", "U", "S", "R", "C"}
		c11JudgeWorld(r, c11F6bWitness(), true) // dedicated probe of the listed finding F6b
		for i := 0; i < worlds && !expired(); i++ {
			f := c11Families[fams[i%len(fams)]]
			mode := 0
			if i%9 == 8 {
				mode = 1
			}
			w := f.Gen(rng, mode)
			r.H("world.family", f.Name)
			r.H("world.collides", fmt.Sprint(w.collides(f)))
			for k := 0; k < 8; k++ {
				op := f.genOp(rng, w)
				cs := c11Case{World: w, Op: op}
				nontriv := len(w.Tables[op.Parent]) >= 2
				r.Case("world", canon(cs), nontriv)
				r.H("world.op", op.Kind+"/"+op.Shape)
				if op.Twice || op.Unscoped {
					r.H("world.flags", fmt.Sprintf("twice=%v unscoped=%v", op.Twice, op.Unscoped))
				}
				if op.Kind == "query" {
					if op.All {
						r.H("world.node", "clause.Associations")
					}
					f.nodeStats(r, f.table(op.Parent), op.Nodes, 0)
				} else {
					c := "nocond"
					if op.Cond.Kind != "" {
						c = "cond"
					}
					what := "find"
					if op.Count {
						what = "count"
					}
					r.H("world.assoc", f.table(op.Parent).rel(op.Rel).Kind+"/"+what+"/"+c)
				}
				if i%37 == 0 && k == 0 {
					r.Sample(map[string]interface{}{"suite": "world", "op": op, "family": f.Name})
				}
				c11JudgeWorld(r, cs, true)
			}
		}
	})
	replayers["C11/world"] = func(r *Result, input json.RawMessage) {
		var cs c11Case
		if err := json.Unmarshal(input, &cs); err != nil {
			r.Note("bad replay input: %v", err)
			return
		}
		c11JudgeWorld(r, cs, false)
	}
}
