package main

import (
	"context"
	"encoding/json"
	"errors"
	"fmt"
	"math/rand"
	"os"
	"strings"

	"gorm.io/gorm"
)

// ---- fault points: an injected failure at EACH query of a load --------------------------------------------------------
//
// The property promises every loaded parent "exactly the child rows … none missing".  When one of the queries of a load
// fails (the parent query, any preload level, the join-table query of a many2many relation, its second hop, a query below a
// joined relation) the caller must either see an error or receive the complete result; a nil error together with parents
// whose children are missing breaks "none missing" silently.  Latitude: WHICH error is reported, and what the destination
// holds when an error is reported, is not judged.

var c11FaultKinds = []string{"err", "cancel", "notfound"}

var errC11Injected = errors.New("c11: injected driver failure")

// runs cs.Op with cs.Fault armed on an opened world; fired = the K-th query was reached; queries = queries sent
func c11RunFault(db *gorm.DB, rec *Recorder, cs c11Case) (got, want []string, err error, fired bool, queries int) {
	ctx, cancel := context.WithCancel(context.Background())
	defer cancel()
	rec.Reset()
	if cs.Fault != nil {
		flt := *cs.Fault
		rec.Fault = func(idx int, ev *Event) error {
			if ev.Kind != "query" {
				return nil
			}
			queries++
			if queries-1 != flt.K {
				return nil
			}
			fired = true
			switch flt.Kind {
			case "cancel":
				cancel()
				return context.Canceled
			case "notfound":
				return gorm.ErrRecordNotFound
			}
			return errC11Injected
		}
	} else {
		rec.Fault = func(idx int, ev *Event) error {
			if ev.Kind == "query" {
				queries++
			}
			return nil
		}
	}
	defer func() { rec.Fault = nil }()
	got, want, err = c11ExecCase(db, ctx, cs)
	return
}

func c11JudgeFault(r *Result, db *gorm.DB, rec *Recorder, cs c11Case) {
	got, want, err, fired, _ := c11RunFault(db, rec, cs)
	r.H("fault.outcome", fmt.Sprintf("%s fired=%v error=%v", cs.Fault.Kind, fired, err != nil))
	if !fired || err != nil {
		return // error reported (or the fault point does not exist)
	}
	if strings.Join(got, "\n") == strings.Join(want, "\n") {
		r.H("fault.outcome", "nil error, complete result")
		if os.Getenv("C11_DEBUG") != "" {
			fmt.Fprintln(os.Stderr, "SWALLOWED", canon(cs.Op), canon(cs.Fault), got)
		}
		return
	}
	r.Violate(Violation{Kind: "e2e", Suite: "world-fault", Input: cs, Observed: map[string]interface{}{"got": got, "error": nil}, Expected: want,
		Note: fmt.Sprintf("query #%d of the load was failed by the driver (%s), yet the finisher reported no error and the loaded associations are incomplete", cs.Fault.K, cs.Fault.Kind)})
}

// every fault point of one case
func c11FaultPoints(r *Result, rng *rand.Rand, db *gorm.DB, rec *Recorder, cs c11Case, allKinds bool) {
	cs.Fault = nil
	got, want, err, _, queries := c11RunFault(db, rec, cs)
	if err != nil || want == nil || strings.Join(got, "\n") != strings.Join(want, "\n") {
		return // judged by the fault-free oracle
	}
	r.H("fault.queries", c11Bucket(queries))
	for k := 0; k < queries && k < 16; k++ {
		kinds := []string{c11FaultKinds[rng.Intn(len(c11FaultKinds))]}
		if allKinds {
			kinds = c11FaultKinds
		}
		for _, kind := range kinds {
			c := cs
			c.Fault = &c11Fault{K: k, Kind: kind}
			r.Case("world-fault", canon(c), len(want) >= 1 && queries >= 2)
			c11JudgeFault(r, db, rec, c)
		}
	}
}

// ---- finding F6b: nested joins + Preload below them on a single-struct destination ------------------------------

const c11F6b = "F6b-C11-nested-join-preload-nil-panic"

type c11Chain struct {
	Hops []string    `json:"hops"`
	Val  interface{} `json:"val"` // nil = NULL join, [[name, value]] = struct
}

// every joined node that has a Preload directly below it gives one walk of preloadEntryPoint through the joined hops
func (f *c11Family) chains(w c11World, t *c11Table, row c11Row, nodes []*c11Node, hops []string, out *[][]string) {
	for _, nd := range nodes {
		if !nd.Join {
			continue
		}
		path := append(append([]string{}, hops...), nd.Rel)
		for _, k := range nd.Kids {
			if !k.Join {
				*out = append(*out, path)
				break
			}
		}
		f.chains(w, f.table(t.rel(nd.Rel).Child), nil, nd.Kids, path, out)
	}
}

func (f *c11Family) chainVal(w c11World, t *c11Table, row c11Row, nodes []*c11Node, hops []string) interface{} {
	if len(hops) == 0 {
		return []interface{}{}
	}
	for _, nd := range nodes {
		if nd.Join && nd.Rel == hops[0] {
			rel := t.rel(nd.Rel)
			cs := w.children(rel, row, nd.Cond)
			var v interface{}
			if len(cs) > 0 {
				v = f.chainVal(w, f.table(rel.Child), cs[0], nd.Kids, hops[1:])
			}
			return []interface{}{[]interface{}{nd.Rel, v}}
		}
	}
	return []interface{}{}
}

func c11DeepChain(nodes []*c11Node, depth int) bool {
	for _, nd := range nodes {
		if !nd.Join {
			continue
		}
		if depth >= 1 {
			for _, k := range nd.Kids {
				if !k.Join {
					return true
				}
			}
		}
		if c11DeepChain(nd.Kids, depth+1) {
			return true
		}
	}
	return false
}

// the walks of a single-struct query with at least two joined hops, for the row that is loaded
func c11Chains(cs c11Case) []c11Chain {
	if cs.Op.Kind != "query" || cs.Op.Shape != "single" || cs.Op.All || !c11DeepChain(cs.Op.Nodes, 0) {
		return nil
	}
	f := c11Families[cs.World.Family]
	t := f.table(cs.Op.Parent)
	var row c11Row
	for _, r := range cs.World.selected(t, cs.Op.PSel) {
		if f.innerOK(cs.World, t, r, cs.Op.Nodes) {
			row = r
			break
		}
	}
	if row == nil {
		return nil
	}
	var paths [][]string
	f.chains(cs.World, t, row, cs.Op.Nodes, nil, &paths)
	var out []c11Chain
	for _, p := range paths {
		if len(p) >= 2 {
			out = append(out, c11Chain{Hops: p, Val: f.chainVal(cs.World, t, row, cs.Op.Nodes, p)})
		}
	}
	return out
}

func c11JudgeWorld(r *Result, cs c11Case, record bool) { c11JudgeWorldDB(r, cs, nil) }

// db != nil: the world is already loaded there (the operations only read); anything suspicious is re-run on a fresh
// database so that every reported input replays on its own
func c11JudgeWorldDB(r *Result, cs c11Case, db *gorm.DB) {
	f := c11Families[cs.World.Family]
	var got, want []string
	var err error
	inTx := cs.Op.Ctx == "tx" || cs.Op.Ctx == "txprepare"
	if db != nil && !inTx {
		got, want, err = c11ExecCase(db, nil, cs)
	}
	if db == nil || inTx || err != nil || strings.Join(got, "\n") != strings.Join(want, "\n") {
		got, want, err = c11RunCase(cs)
	}
	realPanic := err != nil && strings.HasPrefix(err.Error(), "panic:")
	if chains := c11Chains(cs); len(chains) > 0 {
		var ops [][]interface{}
		for _, c := range chains {
			ops = append(ops, []interface{}{"entry.walk", c.Val, c.Hops})
		}
		outs, lerr := AskLean(ops)
		modelPanic := false
		for _, o := range outs {
			if string(o) == "false" {
				modelPanic = true
			}
		}
		r.CorrCompared++
		r.H("world.entrywalk", fmt.Sprintf("model-panic=%v real-panic=%v", modelPanic, realPanic))
		if lerr != nil || modelPanic != realPanic {
			r.Violate(Violation{Kind: "correspondence", Suite: "entry-walk", Input: cs, Observed: fmt.Sprint("real panic: ", realPanic, " ", err), Expected: fmt.Sprint("model panic: ", modelPanic),
				Note: "preloadEntryPoint walking joined relations of a single-struct destination vs Lean Gorm.entryWalk"})
		}
		if modelPanic && realPanic {
			if listed(c11F6b) {
				r.KnownFinding(c11F6b, "nil-pointer dereference in preloadEntryPoint: single-struct destination, NULL joined relation followed by a further joined hop with a Preload below")
				return
			}
		}
	}
	if err != nil && !realPanic && c11F35Pattern(cs) && listed(c11F35) {
		r.KnownFinding(c11F35, "Preload(clause.Associations, <inline condition with arguments>) on a model with relations in `embedded`-tagged structs: the finisher reports a driver error (conditions applied twice)")
		return
	}
	bad := ""
	if err != nil {
		bad = "error: " + err.Error()
	} else if strings.Join(got, "\n") != strings.Join(want, "\n") {
		bad = "loaded associations differ from the reference join"
	}
	if bad == "" {
		return
	}
	if !realPanic && f != nil && cs.World.collides(f) && listed("F6-C11-key-collision") {
		r.KnownFinding("F6-C11-key-collision", bad)
		return
	}
	r.Violate(Violation{Kind: "e2e", Suite: "world", Input: cs, Observed: map[string]interface{}{"got": got, "verdict": bad}, Expected: want,
		Note: "family " + cs.World.Family + ": every loaded parent must carry exactly the live children whose fk tuple equals its key tuple and that satisfy the condition"})
}

// ---- finding F35: Preload(clause.Associations, inline condition) x relations declared in `embedded`-tagged structs --------------

const c11F35 = "F35-C11-associations-embedded-conds-twice"

func (t *c11Table) hasEmb() bool {
	for i := range t.Rels {
		if t.Rels[i].Emb != "" {
			return true
		}
	}
	return false
}

func c11F35Pattern(cs c11Case) bool {
	f := c11Families[cs.World.Family]
	op := cs.Op
	return f != nil && op.Kind == "query" && op.All && op.AllC.Kind != "" && op.AllC.Style != "scope" && f.table(op.Parent).hasEmb()
}

// c11AssocFacts: the regenerated fact (extract/gen_c11_assoc.go -> Gen/AssocCondsFacts.lean, read through the Lean driver) that
// tells whether the repair of F35 is present in the tree under test. It selects the model (Lean side: assocCondsCurrent) and
// switches the generators: a repaired pattern is ordinary input space and is no longer avoided.
type c11AssocFactsT struct {
	Once bool `json:"once"`
}

var c11AssocFactsCache *c11AssocFactsT

func c11AssocFacts() c11AssocFactsT {
	if c11AssocFactsCache == nil {
		f := c11AssocFactsT{}
		if outs, err := AskLean([][]interface{}{{"assoc.facts"}}); err == nil && len(outs) == 1 {
			_ = json.Unmarshal(outs[0], &f)
		}
		c11AssocFactsCache = &f
	}
	return *c11AssocFactsCache
}

// while F35 is a listed finding of an unrepaired tree the generators produce its pattern only now and then
func c11AvoidF35() bool { return listed(c11F35) && !c11AssocFacts().Once }

// the listed witness of F35 (family D) and its control (family U: every relation at the top level)
func c11F35Witness(fam string) c11Case {
	f := c11Families[fam]
	w := c11ScaleWorld(f, 3, 7, nil)
	w.idx = nil
	return c11Case{World: w, Op: c11Op{Kind: "query", Parent: f.parentTables()[0].Name, Shape: "slice", All: true, AllC: c11Cond{Kind: "in", Set: []int{1, 2, 3}, Style: "inline"}}}
}

// a generated occurrence of the pattern: Preload(clause.Associations, <inline condition with arguments>) on a model with
// relations in `embedded`-tagged structs, every destination shape, plain / PrepareStmt / transaction / pinned connection
func c11GenF35Case(rng *rand.Rand) c11Case {
	f := c11Families["D"]
	var pts []*c11Table
	for _, t := range f.parentTables() {
		if t.hasEmb() {
			pts = append(pts, t)
		}
	}
	w := f.Gen(rng, 0)
	op := c11Op{Kind: "query", Parent: pts[rng.Intn(len(pts))].Name, All: true}
	op.Shape = []string{"slice", "ptrs", "single", "dup"}[rng.Intn(4)]
	op.AllC = genC11Cond(rng, f.maxN(w), []string{"inline"})
	op.Ctx = []string{"", "", "prepare", "prepare", "tx", "conn", "txprepare"}[rng.Intn(7)]
	op.Twice = op.Shape == "single" && rng.Intn(3) == 0
	op.Unscoped = rng.Intn(4) == 0
	return c11Case{World: w, Op: op}
}

// per run: (1) the Lean model of the conditions reaching preload (assocCondsCurrent + inlineWellFormed, following the
// regenerated fact) agrees with error / no error of the witness on family D and of the same call on family U; (2) the witness
// is judged: an error is the KNOWN finding while it is listed, a VIOLATION otherwise, and without an error the loaded
// associations must equal the reference join; (3) generated occurrences of the pattern go through the world judge — a few
// while the finding is listed and the tree unrepaired, freely otherwise
func c11F35Probe(r *Result, rng *rand.Rand, tier string) {
	run := func(fam string) (c11Case, string, error) {
		cs := c11F35Witness(fam)
		got, want, err := c11RunCase(cs)
		diff := ""
		if err == nil && strings.Join(got, "\n") != strings.Join(want, "\n") {
			diff = "loaded associations differ from the reference join"
		}
		return cs, diff, err
	}
	csD, diffD, errD := run("D")
	_, diffU, errU := run("U")
	outs, lerr := AskLean([][]interface{}{{"assoc.conds", 1, []string{"n IN ?", "[1 2 3]"}, 1}, {"assoc.conds", 0, []string{"n IN ?", "[1 2 3]"}, 1}})
	if lerr != nil {
		r.Violate(Violation{Kind: "correspondence", Suite: "assoc-conds", Note: lerr.Error()})
		return
	}
	var md, mu struct {
		N  int  `json:"n"`
		OK bool `json:"ok"`
	}
	_ = json.Unmarshal(outs[0], &md)
	_ = json.Unmarshal(outs[1], &mu)
	r.CorrCompared += 2
	r.H("assoc-conds", fmt.Sprintf("embedded: real error=%v model well-formed=%v; top level: real error=%v model well-formed=%v", errD != nil, md.OK, errU != nil, mu.OK))
	r.H("assoc-conds.fact", fmt.Sprintf("once=%v", c11AssocFacts().Once))
	witness := "Preload(clause.Associations, \"n IN ?\", []int{1, 2, 3}) on family D (relations in embedded structs) and family U (top level)"
	if (errD == nil) != md.OK || (errU == nil) != mu.OK {
		r.Violate(Violation{Kind: "correspondence", Suite: "assoc-conds", Input: witness,
			Observed: fmt.Sprint("D: ", errD, " / U: ", errU), Expected: fmt.Sprint("model: D well-formed=", md.OK, " U well-formed=", mu.OK),
			Note: "conditions reaching callbacks.preload through parsePreloadMap / preloadEntryPoint vs Lean Gorm.assocCondsCurrent + inlineWellFormed"})
	}
	r.Case("assoc-conds", canon(csD.Op), true)
	switch {
	case errD != nil && listed(c11F35):
		r.KnownFinding(c11F35, "witness re-confirmed: "+errD.Error())
	case errD != nil || diffD != "":
		r.Violate(Violation{Kind: "e2e", Suite: "assoc-conds", Input: witness, Observed: fmt.Sprint("family D: ", errD, " ", diffD),
			Expected: "no error; every relation (embedded or not) carries exactly the live children with n IN (1, 2, 3)",
			Note:     "Preload(clause.Associations, cond, args…): every relation must receive the conditions exactly once"})
	}
	if errU != nil || diffU != "" {
		r.Violate(Violation{Kind: "e2e", Suite: "assoc-conds", Input: witness, Observed: fmt.Sprint("family U: ", errU, " ", diffU),
			Expected: "no error; every relation carries exactly the live children with n IN (1, 2, 3)"})
	}
	if rng == nil {
		return
	}
	n := 24
	if tier == "thorough" {
		n = 200
	}
	if c11AvoidF35() {
		n = 3
	}
	for i := 0; i < n && !expired(); i++ {
		cs := c11GenF35Case(rng)
		r.Case("assoc-conds", canon(cs), len(cs.World.Tables[cs.Op.Parent]) >= 2)
		r.H("assoc-conds.gen", cs.Op.AllC.Kind+"/"+cs.Op.Shape+"/ctx="+cs.Op.Ctx)
		c11JudgeWorld(r, cs, false)
	}
}

// the listed witness of F6b
func c11F6bWitness() c11Case {
	return c11Case{
		World: c11World{Family: "C", Tables: map[string][]c11Row{
			"c11c_orders": {{"region": 1, "code": "a", "n": 1, "deleted_at": false, "cust_tenant": 0, "cust_id": 0, "cust_zone": "", "p_region": nil, "p_code": nil}},
			"c11c_lines":  {{"n": 1, "o_region": 1, "o_code": "a", "deleted_at": false}},
		}},
		Op: c11Op{Kind: "query", Parent: "c11c_orders", Shape: "single", Nodes: []*c11Node{
			{Rel: "Parent", Join: true, Kids: []*c11Node{{Rel: "Parent", Join: true, Kids: []*c11Node{{Rel: "Lines"}}}}}}},
	}
}

func init() {
	register("C11", func(r *Result, rng *rand.Rand, tier string) {
		worlds := 560
		if tier == "thorough" {
			worlds = 11000
		} else if tier == "search" {
			worlds = 1500
		}
		fams := []string{"S", "C", "R", "N", "U", "E", "S", "R", "N", "C", "D"}
		c11JudgeWorld(r, c11F6bWitness(), true) // dedicated probe of the listed finding F6b
		c11F35Probe(r, rng, tier)
		for i := 0; i < worlds && !expired(); i++ {
			f := c11Families[fams[i%len(fams)]]
			mode := 0
			if i%11 == 8 || i%11 == 3 {
				mode = 1
			}
			c11DelHeavy = i%4 == 1
			w := f.Gen(rng, mode)
			c11DelHeavy = false
			db, rec, closeFn := c11OpenWorldRec(f, w)
			r.H("world.family", f.Name)
			r.H("world.collides", fmt.Sprint(w.collides(f)))
			for k := 0; k < 8; k++ {
				op := f.genOp(rng, w)
				cs := c11Case{World: w, Op: op}
				nontriv := len(w.Tables[op.Parent]) >= 2
				r.Case("world", canon(cs), nontriv)
				r.H("world.op", op.Kind+"/"+op.Shape)
				if op.Twice || op.Unscoped {
					r.H("world.flags", fmt.Sprintf("twice=%v unscoped=%v", op.Twice, op.Unscoped))
				}
				if op.Unscoped {
					r.H("world.unscoped", c11UnscopedShape(op))
				}
				if op.Ctx != "" {
					r.H("world.ctx", op.Ctx+"/"+op.Kind)
				}
				if op.Kind == "query" {
					if op.All {
						r.H("world.node", "clause.Associations")
					}
					f.nodeStats(r, f.table(op.Parent), op.Nodes, 0)
				} else {
					c := "nocond"
					if op.Cond.Kind != "" {
						c = "cond"
					}
					what := "find"
					if op.Count {
						what = "count"
					}
					r.H("world.assoc", f.table(op.Parent).rel(op.Rel).Kind+"/"+what+"/"+c)
				}
				if i%37 == 0 && k == 0 {
					r.Sample(map[string]interface{}{"suite": "world", "op": op, "family": f.Name})
				}
				c11JudgeWorldDB(r, cs, db)
				if k%2 == 0 {
					c11FaultPoints(r, rng, db, rec, cs, tier == "thorough" && k%4 == 0)
				}
			}
			closeFn()
		}
	})
	replayers["C11/world-fault"] = func(r *Result, input json.RawMessage) {
		var cs c11Case
		if err := json.Unmarshal(input, &cs); err != nil || cs.Fault == nil {
			r.Note("bad replay input: %v", err)
			return
		}
		f := c11Families[cs.World.Family]
		if f == nil {
			r.Note("unknown family")
			return
		}
		db, rec, closeFn := c11OpenWorldRec(f, cs.World)
		defer closeFn()
		c11JudgeFault(r, db, rec, cs)
	}
	replayers["C11/assoc-conds"] = func(r *Result, input json.RawMessage) { c11F35Probe(r, nil, "") }
	replayers["C11/world"] = func(r *Result, input json.RawMessage) {
		var cs c11Case
		if err := json.Unmarshal(input, &cs); err != nil {
			r.Note("bad replay input: %v", err)
			return
		}
		c11JudgeWorld(r, cs, false)
	}
}
