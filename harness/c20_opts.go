package main

// C20 — configuration dimension of the end-to-end oracles and the association part of "the migrated table accepts and
// returns records of the new model".
//
// Every gorm.Config / Session setting the migrator reads is a generated dimension of a history (c20Cfg):
//   DisableForeignKeyConstraintWhenMigrating   legitimately switches off: foreign-key CONSTRAINTS.  Not tables, not columns,
//                                              not check / unique constraints, not indexes.
//   IgnoreRelationshipsWhenMigrating           legitimately switches off: everything AutoMigrate does FOR relations (constraints,
//                                              auto-added parent / join tables).  The model's own columns, checks, uniques and
//                                              indexes are still reconciled; tables of models passed explicitly still exist.
//   NamingStrategy (TablePrefix, SingularTable, NoLowerCase, NameReplacer, IdentifierMaxLength): switches off nothing.
//   PrepareStmt, SkipDefaultTransaction, the handle AutoMigrate is called on (Session / WithContext / NewDB): nothing.
// (DryRun belongs to C19; CreateBatchSize, FullSaveAssociations … are not read by the migrator.)
//
// Association oracle (name-agnostic, judged by behaviour): after AutoMigrate a record of the model with NESTED association
// values is created and read back with Preload for every relation whose tables the call must have produced:
//   * relations of every kind whose related model was passed explicitly to AutoMigrate (now or in an earlier call);
//   * belongs-to whose parent was not passed, and many2many (join table + far side) — AutoMigrate adds these tables itself
//     (documented: "AutoMigrate will create tables, missing foreign keys, constraints, columns and indexes");
// Latitudes (behaviour of the unchanged code, not demanded): has-one / has-many / polymorphic CHILD tables are never
// auto-added; a relation tagged `constraint:-` adds nothing (the dependency is read off the constraint); a belongs-to that
// the parent mirrors with a has-one/has-many is folded into the parent's constraint (parse-history dependent); tables two
// hops away (parent's own many2many) are not demanded.

import (
	"context"
	"encoding/json"
	"fmt"
	"math/rand"
	"reflect"
	"regexp"
	"sort"
	"strings"

	"gorm.io/driver/sqlite"
	"gorm.io/gorm"
	"gorm.io/gorm/schema"
)

type c20Cfg struct {
	DisableFK bool   `json:"disable_fk,omitempty"`
	IgnoreRel bool   `json:"ignore_rel,omitempty"`
	Naming    string `json:"naming,omitempty"` // "", prefix, singular, nolower, replacer, short, mixed
	Prepare   bool   `json:"prepare,omitempty"`
	SkipTx    bool   `json:"skip_tx,omitempty"`
	Handle    string `json:"handle,omitempty"` // "", session, ctx, newdb, chain
}

func (c *c20Cfg) get() c20Cfg {
	if c == nil {
		return c20Cfg{}
	}
	return *c
}

func (c c20Cfg) String() string {
	var p []string
	if c.DisableFK {
		p = append(p, "disableFK")
	}
	if c.IgnoreRel {
		p = append(p, "ignoreRel")
	}
	if c.Naming != "" {
		p = append(p, "naming:"+c.Naming)
	}
	if c.Prepare {
		p = append(p, "prepare")
	}
	if c.SkipTx {
		p = append(p, "skiptx")
	}
	if c.Handle != "" {
		p = append(p, "handle:"+c.Handle)
	}
	if len(p) == 0 {
		return "default"
	}
	return strings.Join(p, "+")
}

func c20Naming(kind string) schema.NamingStrategy {
	ns := schema.NamingStrategy{IdentifierMaxLength: 64}
	switch kind {
	case "prefix":
		ns.TablePrefix = "tp_"
	case "singular":
		ns.SingularTable = true
	case "nolower":
		ns.NoLowerCase = true
	case "replacer":
		ns.NameReplacer = strings.NewReplacer("C20", "Kx")
	case "short":
		ns.IdentifierMaxLength = 28
	case "mixed":
		ns.TablePrefix, ns.SingularTable, ns.NoLowerCase = "Mx_", true, true
	}
	return ns
}

func c20OpenCfg(table string, c c20Cfg) (*gorm.DB, *Recorder) {
	db, rec, _ := OpenRec(&gorm.Config{NowFunc: fixedNowFunc,
		DisableForeignKeyConstraintWhenMigrating: c.DisableFK, IgnoreRelationshipsWhenMigrating: c.IgnoreRel,
		PrepareStmt: c.Prepare, SkipDefaultTransaction: c.SkipTx,
		NamingStrategy: c20Namer{NamingStrategy: c20Naming(c.Naming), anon: table}})
	return db, rec
}

type c20CtxKey struct{}

// c20Handle: the handle AutoMigrate is called on
func c20Handle(db *gorm.DB, c c20Cfg) *gorm.DB {
	switch c.Handle {
	case "session":
		return db.Session(&gorm.Session{})
	case "ctx":
		return db.WithContext(context.WithValue(context.Background(), c20CtxKey{}, 1))
	case "newdb":
		return db.Session(&gorm.Session{NewDB: true, SkipHooks: true})
	case "chain": // a handle that already carries (irrelevant) chained state
		return db.Where("1 = 1").Session(&gorm.Session{NewDB: true})
	}
	return db
}

func c20GenCfg(rng *rand.Rand) *c20Cfg {
	c := c20Cfg{}
	switch rng.Intn(10) {
	case 0, 1, 2, 3:
		c.DisableFK = true
	case 4, 5:
		c.IgnoreRel = true
	case 6:
		c.DisableFK, c.IgnoreRel = true, true
	}
	if rng.Intn(3) == 0 {
		c.Naming = []string{"prefix", "singular", "nolower", "replacer", "short", "mixed"}[rng.Intn(6)]
	}
	// (PrepareStmt is not generated: see c20Excluded)
	c.SkipTx = rng.Intn(6) == 0
	if rng.Intn(4) == 0 {
		c.Handle = []string{"session", "ctx", "newdb", "chain"}[rng.Intn(4)]
	}
	if c == (c20Cfg{}) {
		return nil
	}
	return &c
}

// the related models of the history grammar, by relation kind
var c20Relatives = map[string]interface{}{
	"owner": &C20Owner{}, "powner": &C20Owner{}, "org": &C20Org{}, "toys": &C20Toy{}, "badge": &C20Badge{}, "tags": &C20Tag{},
	"pics": &C20Pic{},
}

// polymorphic has-many target (child table is never auto-added: judged only when passed explicitly)
type C20Pic struct {
	ID       uint `gorm:"primaryKey"`
	URL      string
	HostID   uint
	HostType string
}

func c20RelOff(tag string) bool {
	v, ok := c20TagGet(tag, "constraint")
	return ok && strings.TrimSpace(v) == "-"
}

// c20Demanded: the relation FIELDS of the model whose tables the AutoMigrate calls so far must have produced (see the
// latitudes at the top).  explicit = relation kinds whose related model was passed to AutoMigrate.
func c20Demanded(fs []c20Field, c c20Cfg, explicit map[string]bool) []string {
	var out []string
	for _, f := range fs {
		if !c20IsRel(f.Kind) {
			continue
		}
		k := f.Kind
		if k == "powner" {
			k = "owner"
		}
		switch {
		case explicit[k] && (f.Kind != "tags" || !c.IgnoreRel): // a many2many needs its join table: relations ignored => not there
			out = append(out, f.Name)
		case c.IgnoreRel:
		case (k == "owner" || k == "org" || k == "tags") && !c20RelOff(f.Tag):
			out = append(out, f.Name)
		}
	}
	return out
}

// c20Nest fills the relation fields `names` of rec (pointer to a model struct) with fresh related values carrying a marker.
func c20Nest(db *gorm.DB, rec reflect.Value, names []string, salt int) error {
	if len(names) == 0 {
		return nil
	}
	st := &gorm.Statement{DB: db}
	if err := st.Parse(rec.Interface()); err != nil {
		return err
	}
	for ni, name := range names {
		rel := st.Schema.Relationships.Relations[name]
		if rel == nil {
			return fmt.Errorf("no relation %s", name)
		}
		n := 1
		if rel.Type == schema.HasMany || rel.Type == schema.Many2Many {
			n = 2
		}
		fv := rec.Elem().FieldByName(name)
		for k := 0; k < n; k++ {
			child := reflect.New(rel.FieldSchema.ModelType)
			c20FillChild(db, rel, child, fmt.Sprintf("m%d_%d_%d", salt, ni, k))
			switch fv.Kind() {
			case reflect.Struct:
				fv.Set(child.Elem())
			case reflect.Ptr:
				fv.Set(child)
			case reflect.Slice:
				if fv.Type().Elem().Kind() == reflect.Ptr {
					fv.Set(reflect.Append(fv, child))
				} else {
					fv.Set(reflect.Append(fv, child.Elem()))
				}
			}
		}
	}
	return nil
}

// c20FillChild: string primary keys get a distinct value, the first free string column the marker
func c20FillChild(db *gorm.DB, rel *schema.Relationship, child reflect.Value, marker string) {
	fk := map[*schema.Field]bool{}
	for _, ref := range rel.References {
		fk[ref.ForeignKey] = true
	}
	marked := false
	for _, f := range rel.FieldSchema.Fields {
		if f.DBName == "" || f.FieldType.Kind() != reflect.String || len(f.BindNames) != 1 {
			continue
		}
		switch {
		case f.PrimaryKey:
			_ = f.Set(db.Statement.Context, child, "k"+marker)
		case !fk[f] && !marked:
			_ = f.Set(db.Statement.Context, child, marker)
			marked = true
		}
	}
}

// c20NestView: canonical view of the related values found in the relation fields `names` of a record
func c20NestView(db *gorm.DB, rec reflect.Value, names []string) (map[string][]string, error) {
	out := map[string][]string{}
	if len(names) == 0 {
		return out, nil
	}
	st := &gorm.Statement{DB: db}
	if err := st.Parse(rec.Interface()); err != nil {
		return nil, err
	}
	for _, name := range names {
		rel := st.Schema.Relationships.Relations[name]
		fv := rec.Elem().FieldByName(name)
		var kids []reflect.Value
		switch fv.Kind() {
		case reflect.Struct:
			kids = append(kids, fv)
		case reflect.Ptr:
			if !fv.IsNil() {
				kids = append(kids, fv.Elem())
			}
		case reflect.Slice:
			for i := 0; i < fv.Len(); i++ {
				e := fv.Index(i)
				if e.Kind() == reflect.Ptr {
					if e.IsNil() {
						continue
					}
					e = e.Elem()
				}
				kids = append(kids, e)
			}
		}
		list := []string{}
		for _, kv := range kids {
			s := ""
			for _, f := range rel.FieldSchema.Fields {
				if f.DBName == "" || len(f.BindNames) != 1 {
					continue
				}
				if f.PrimaryKey || f.FieldType.Kind() == reflect.String {
					v, _ := f.ValueOf(db.Statement.Context, kv)
					s += fmt.Sprintf("%s=%v;", f.Name, v)
				}
			}
			list = append(list, s)
		}
		sort.Strings(list)
		out[name] = list
	}
	return out, nil
}

// c20CreateNested creates rec with nested values in the demanded relation fields and reads it back with Preload;
// returns (stage, verdict, expected, observed): stage "" = fine.
func c20CreateNested(db *gorm.DB, rec *Recorder, sch *schema.Schema, recv reflect.Value, demanded []string, salt int) (stage, verdict, expected, observed string, got reflect.Value) {
	got = reflect.New(recv.Type().Elem())
	if err := c20Nest(db, recv, demanded, salt); err != nil {
		return "nest", "", "", err.Error(), got
	}
	var cerr, rerr error
	c20Quiet(rec, func() {
		cerr = db.Session(&gorm.Session{NewDB: true}).Create(recv.Interface()).Error
		if cerr != nil {
			return
		}
		q := db.Session(&gorm.Session{NewDB: true})
		for _, pf := range sch.PrimaryFields {
			v, _ := pf.ValueOf(db.Statement.Context, recv)
			q = q.Where("`"+pf.DBName+"` = ?", v)
		}
		for _, n := range demanded {
			q = q.Preload(n)
		}
		rerr = q.Take(got.Interface()).Error
	})
	assoc := ""
	if len(demanded) > 0 {
		assoc = " with its associations " + strings.Join(demanded, ",")
	}
	if cerr != nil {
		return "create", "migrated tables reject a record of the model" + assoc, "", cerr.Error(), got
	}
	if rerr != nil {
		return "read", "record of the model" + assoc + " cannot be read back", "", rerr.Error(), got
	}
	want, _ := c20NestView(db, recv, demanded)
	have, _ := c20NestView(db, got, demanded)
	if canon(want) != canon(have) {
		return "read", "associations of the record read back differently (Preload " + strings.Join(demanded, ",") + ")", canon(want), canon(have), got
	}
	return "", "", "", "", got
}

type c20TableDump struct {
	Cols []string
	Rows []string
}

// c20DumpOthers: every row of every table except `skip`, keyed by table (columns in table_info order)
func c20DumpOthers(db *gorm.DB, rec *Recorder, skip string) map[string]c20TableDump {
	out := map[string]c20TableDump{}
	var tables []string
	c20Quiet(rec, func() {
		db.Session(&gorm.Session{NewDB: true}).Raw("SELECT name FROM sqlite_master WHERE type = 'table' AND name NOT LIKE 'sqlite_%' ORDER BY name").Scan(&tables)
	})
	for _, t := range tables {
		if t == skip {
			continue
		}
		var cols []string
		c20Quiet(rec, func() {
			db.Session(&gorm.Session{NewDB: true}).Raw("SELECT name FROM pragma_table_info(?) ORDER BY cid", t).Scan(&cols)
		})
		d, err := c20Dump(db, rec, t, cols)
		if err == nil {
			out[t] = c20TableDump{Cols: cols, Rows: d}
		}
	}
	return out
}

// c20OthersKept: every table that existed before still holds the same rows in the columns it had (new columns are free)
func c20OthersKept(db *gorm.DB, rec *Recorder, before map[string]c20TableDump) (table, expected, observed string) {
	for t, d := range before {
		if len(d.Rows) == 0 {
			continue
		}
		now, err := c20Dump(db, rec, t, d.Cols)
		if err != nil || canon(now) != canon(d.Rows) {
			return t, canon(d.Rows), canon(now) + fmt.Sprint(err)
		}
	}
	return "", "", ""
}

// ---- correspondence: ReorderModels / relation constraints under the configuration switches ----------------------------
//
// Real side: migrator.Migrator.ReorderModels(values, autoAdd) of a handle opened with the generated configuration, and (for
// autoAdd) a real AutoMigrate(values...) on a fresh database whose CREATE TABLE statements give the tables created and the
// FOREIGN KEY constraints each carries.  Model side: Gorm.Mig.reorderModelsOpt / fksOpt over what the harness reads off the
// parsed schemas (relation kind, target table, IgnoreMigration, ParseConstraint() result, join table).  Relationships are
// iterated in Go map order, so results are compared as sets (the order under the default configuration is tied by mig.reorder).

var c20CreateRe = regexp.MustCompile("(?is)^\\s*CREATE TABLE `([^`]+)`")
var c20FKNameRe = regexp.MustCompile("(?i)CONSTRAINT `([^`]+)` FOREIGN KEY")

type c20RoCase struct {
	Cfg     c20Cfg   `json:"cfg"`
	Family  string   `json:"family"`
	Values  []int    `json:"values"`
	AutoAdd bool     `json:"autoAdd"`
	Tables  []string `json:"tables,omitempty"`
}

func c20RoModels(fam string) []interface{} {
	if fam == "graph" {
		var out []interface{}
		for _, n := range c20FamNames {
			out = append(out, c20Fam[n])
		}
		return out
	}
	if f := c20FamilyByName(fam); f != nil {
		return f.V2
	}
	return nil
}

// c20RoRun: one case on the real code and the op lists for the model
func c20RoRun(c c20RoCase) (real map[string]interface{}, ops [][]interface{}, tables []string, err error) {
	defer func() {
		if p := recover(); p != nil {
			err = fmt.Errorf("panic: %v", p)
		}
	}()
	models := c20RoModels(c.Family)
	db, rec := c20OpenCfg("c20ro_anon", c.Cfg)
	if sq, e := db.DB(); e == nil {
		defer sq.Close()
	}
	// warm schema cache: every model of the family is parsed before anything is read off (mirror folding depends on it)
	byType := map[reflect.Type]string{}
	var decls []map[string]interface{}
	seen := map[*schema.Schema]bool{}
	var queue []*schema.Schema
	for _, m := range models {
		st := &gorm.Statement{DB: db}
		if e := st.Parse(m); e != nil {
			return nil, nil, nil, e
		}
		queue = append(queue, st.Schema)
	}
	var vals []interface{}
	var names []string
	for _, i := range c.Values {
		vals = append(vals, models[i%len(models)])
	}
	res := c20Handle(db, c.Cfg).Migrator().(sqlite.Migrator).ReorderModels(vals, c.AutoAdd)
	for len(queue) > 0 {
		s := queue[0]
		queue = queue[1:]
		if s == nil || seen[s] {
			continue
		}
		seen[s] = true
		byType[s.ModelType] = s.Table
		var rn []string
		for n := range s.Relationships.Relations {
			rn = append(rn, n)
		}
		sort.Strings(rn)
		rels := []interface{}{}
		for _, n := range rn {
			rel := s.Relationships.Relations[n]
			d := map[string]interface{}{"kind": string(rel.Type), "target": rel.FieldSchema.Table, "ignore": rel.Field.IgnoreMigration, "con": nil, "join": nil}
			if k := rel.ParseConstraint(); k != nil && k.Schema != nil && k.ReferenceSchema != nil {
				d["con"] = []string{k.Name, k.Schema.Table, k.ReferenceSchema.Table}
				queue = append(queue, k.ReferenceSchema, k.Schema)
			}
			if rel.JoinTable != nil {
				d["join"] = rel.JoinTable.Table
				queue = append(queue, rel.JoinTable)
			}
			queue = append(queue, rel.FieldSchema)
			rels = append(rels, d)
		}
		decls = append(decls, map[string]interface{}{"table": s.Table, "rels": rels})
	}
	for _, v := range vals {
		names = append(names, byType[reflect.TypeOf(v).Elem()])
	}
	var out []string
	for _, v := range res {
		t, ok := byType[reflect.TypeOf(v).Elem()]
		if !ok {
			t = "?" + reflect.TypeOf(v).String()
		}
		out = append(out, t)
	}
	sort.Strings(out)
	real = map[string]interface{}{"reorder": nz(out)}
	ops = append(ops, []interface{}{"mig.reorderopt", decls, names, c.AutoAdd, c.Cfg.DisableFK, c.Cfg.IgnoreRel})
	if c.AutoAdd {
		rec.Reset()
		if e := c20Handle(db, c.Cfg).AutoMigrate(vals...); e != nil {
			return nil, nil, nil, fmt.Errorf("AutoMigrate: %v", e)
		}
		created := map[string][]string{}
		for _, sql := range c20SchemaStmts(rec.Snapshot()) {
			if m := c20CreateRe.FindStringSubmatch(sql); m != nil {
				fks := []string{}
				for _, f := range c20FKNameRe.FindAllStringSubmatch(sql, -1) {
					fks = append(fks, f[1])
				}
				sort.Strings(fks)
				created[m[1]] = fks
				tables = append(tables, m[1])
			}
		}
		sort.Strings(tables)
		real["created"] = nz(tables)
		real["fks"] = created
		ops = append(ops, []interface{}{"mig.fksopt", decls, tables, c.Cfg.DisableFK, c.Cfg.IgnoreRel})
	}
	return real, ops, tables, nil
}

func c20RoJudge(r *Result, c c20RoCase) {
	real, ops, _, err := c20RoRun(c)
	if err != nil {
		r.H("reorderopt.skip", strings.SplitN(err.Error(), ":", 2)[0])
		return
	}
	outs, err := AskLean(ops)
	if err != nil {
		r.Violate(Violation{Kind: "correspondence", Suite: "mig.reorderopt", Input: c, Note: err.Error()})
		return
	}
	c20RoCompare(r, c, real, outs)
}

// c20RoCompare: the model's answers (one per op of the case) against what the real code did
func c20RoCompare(r *Result, c c20RoCase, real map[string]interface{}, outs []json.RawMessage) {
	var mo []string
	_ = jsonUnmarshal(outs[0], &mo)
	sort.Strings(mo)
	model := map[string]interface{}{"reorder": nz(mo)}
	if len(outs) > 1 {
		model["created"] = nz(mo)
		var fk map[string][]string
		_ = jsonUnmarshal(outs[1], &fk)
		model["fks"] = fk
	}
	r.CorrCompared++
	if canon(real) != canon(model) {
		r.Violate(Violation{Kind: "correspondence", Suite: "mig.reorderopt", Input: c, Observed: real, Expected: model,
			Note: "real ReorderModels / tables and FOREIGN KEY constraints created by AutoMigrate under the configuration vs Lean Gorm.Mig.reorderModelsOpt / fksOpt (sets)"})
	}
	r.H("reorderopt.added", fmt.Sprint(len(mo)-len(c20Uniq(c.Values, len(c20RoModels(c.Family))))))
}

func c20Uniq(xs []int, mod int) map[int]bool {
	out := map[int]bool{}
	for _, x := range xs {
		out[x%mod] = true
	}
	return out
}

func c20TieReorderOpt(r *Result, rng *rand.Rand, tier string) {
	if !c20Only("reorderopt") {
		return
	}
	n := 400
	if tier == "thorough" {
		n = 6000
	} else if tier == "search" {
		n = 1500
	}
	fams := []string{"graph"}
	for _, f := range c20Families {
		fams = append(fams, f.Name)
	}
	// (the real code runs case by case; the model is asked ONCE for the whole batch: one driver process instead of n)
	type pending struct {
		c    c20RoCase
		real map[string]interface{}
		at   int
		n    int
	}
	var pend []pending
	var batch [][]interface{}
	for i := 0; i < n && !expired(); i++ {
		c := c20RoCase{Family: fams[rng.Intn(len(fams))], AutoAdd: rng.Intn(5) > 0}
		if i < 4*len(fams) { // every family under every switch combination, whatever the seed
			c.Family = fams[i/4]
			c.AutoAdd = true
		}
		c.Cfg.DisableFK, c.Cfg.IgnoreRel = i%2 == 1, i%4 >= 2
		if i >= 4*len(fams) && rng.Intn(3) == 0 {
			c.Cfg.Naming = []string{"prefix", "singular", "nolower", "replacer", "short", "mixed"}[rng.Intn(6)]
		}
		if rng.Intn(4) == 0 {
			c.Cfg.Handle = []string{"session", "ctx", "newdb", "chain"}[rng.Intn(4)]
		}
		nm := len(c20RoModels(c.Family))
		k := 1 + rng.Intn(3)
		if i < 4*len(fams) {
			k = 1
		}
		for j := 0; j < k; j++ {
			c.Values = append(c.Values, rng.Intn(nm))
		}
		if real, ops, _, err := c20RoRun(c); err != nil {
			r.H("reorderopt.skip", strings.SplitN(err.Error(), ":", 2)[0])
		} else {
			pend = append(pend, pending{c, real, len(batch), len(ops)})
			batch = append(batch, ops...)
		}
		r.Case("mig.reorderopt", canon(c), true)
		r.H("reorderopt.cfg", fmt.Sprintf("disableFK=%v ignoreRel=%v autoAdd=%v", c.Cfg.DisableFK, c.Cfg.IgnoreRel, c.AutoAdd))
		r.H("reorderopt.family", c.Family)
	}
	if len(batch) == 0 {
		return
	}
	outs, err := AskLean(batch)
	if err != nil { // fall back to case-by-case questions so that the failing case is named
		for _, p := range pend {
			c20RoJudge(r, p.c)
		}
		return
	}
	for _, p := range pend {
		c20RoCompare(r, p.c, p.real, outs[p.at:p.at+p.n])
	}
}

func init() {
	register("C20", c20TieReorderOpt)
	replayers["C20/mig.reorderopt"] = func(r *Result, input json.RawMessage) {
		var c c20RoCase
		if err := json.Unmarshal(input, &c); err != nil {
			r.Note("bad replay input: %v", err)
			return
		}
		c20RoJudge(r, c)
	}
}
