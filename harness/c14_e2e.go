package main

// C14 e2e suites that do not use the model: (1) "stampede": free-running goroutines released together on the same
// text through the real cache (exercises the RUnlock→Lock window that no gate can force); (2) "gorm": real
// gorm.Open(PrepareStmt) / Session(PrepareStmt) on SQLite behind the recording driver against the non-prepared
// reference, then Close + drain and the driver-level open-statement counter.

import (
	"context"
	"encoding/json"
	"errors"
	"fmt"
	"math/rand"
	"sync"
	"sync/atomic"
	"time"

	"gorm.io/gorm"
)

func c14Stampede(r *Result, rng *rand.Rand, rounds int) {
	// bail-out: 3 hanging rounds end the suite; when the forced suite already confirmed that goroutines hang in this
	// cache, one hanging round and a shorter wait are enough
	hangs, maxHangs, wait := 0, 3, 5*time.Second
	if c14ForcedHangs > 0 {
		maxHangs, wait = 1, 2*time.Second
	}
	for i := 0; i < rounds && !expired() && hangs < maxHangs; i++ {
		n := 4 + rng.Intn(9)
		nq := 1 + rng.Intn(2)
		ops := make([]c14Op, n)
		for t := range ops {
			ops[t] = c14Op{"use", 0, rng.Intn(nq)}
		}
		w := newC14World(1, ops, false)
		w.shape = i % c14NShapes() // which SQL texts stand behind the text indexes: the cache must not care
		barrier := make(chan struct{})
		var wg sync.WaitGroup
		for t := range ops {
			wg.Add(1)
			go func(t int) {
				defer wg.Done()
				<-barrier
				res := w.runOp(t)
				w.mu.Lock()
				w.results[t] = res
				w.mu.Unlock()
			}(t)
		}
		close(barrier)
		done := make(chan struct{})
		go func() { wg.Wait(); close(done) }()
		in := map[string]interface{}{"goroutines": n, "texts": nq, "round": i, "text_shape": c14ShapeName(w.shape)}
		select {
		case <-done:
		case <-time.After(wait):
			r.Violate(Violation{Kind: "e2e", Suite: "stampede", Input: in, Observed: "goroutines did not finish", Expected: "no deadlock"})
			hangs++
			continue
		}
		r.Case("stampede", fmt.Sprint(i), n >= 2)
		r.H("c14.stampede.goroutines", fmt.Sprint(n))
		for q := 0; q < len(w.preps); q++ {
			r.H("c14.stampede.prepares-per-text", fmt.Sprint(w.preps[q]))
			if w.preps[q] > 1 {
				r.Violate(Violation{Kind: "e2e", Suite: "stampede", Input: in, Observed: fmt.Sprintf("text %d prepared %d times", q, w.preps[q]),
					Expected: "one PrepareContext per text per generation under concurrent demand (no failure, no eviction, no Reset)"})
			}
		}
		for t, res := range w.results {
			if res != "rows" {
				r.Violate(Violation{Kind: "e2e", Suite: "stampede", Input: in, Observed: fmt.Sprintf("goroutine %d: %s", t, res), Expected: "rows"})
			}
		}
		w.views[0].Close()
		ok := false
		for k := 0; k < 2000; k++ {
			if atomic.LoadInt64(&w.openDrv) == 0 {
				ok = true
				break
			}
			time.Sleep(50 * time.Microsecond)
		}
		if !ok {
			r.Violate(Violation{Kind: "e2e", Suite: "stampede", Input: in, Observed: fmt.Sprintf("%d driver statements open after Close", w.openDrv), Expected: "0"})
		}
		w.sqlDB.Close()
	}
}

type c14Row struct {
	ID   int
	Name string
	Age  int
}

// c14GormTimeout bounds one round / one probe of the free-running gorm suite: a cache whose waiters are never woken
// must not hang the harness.  A round takes a few milliseconds; the bound is far beyond any load effect.
func c14GormTimeout() time.Duration {
	if c14ForcedHangs > 0 {
		return 5 * time.Second // the forced suite already confirmed that goroutines hang in this cache
	}
	return 20 * time.Second
}

// c14Bounded runs f on its own goroutine and reports whether it returned within the timeout.  On a timeout the
// goroutine is left behind (it is blocked inside the cache) and the caller must stop using what f was using.
func c14Bounded(timeout time.Duration, f func()) bool {
	done := make(chan struct{})
	go func() { defer close(done); f() }()
	select {
	case <-done:
		return true
	case <-time.After(timeout):
		return false
	}
}

func c14Gorm(r *Result, rng *rand.Rand, rounds int) {
	for i := 0; i < rounds && !expired(); i++ {
		i := i
		n := 2 + rng.Intn(5)
		if !c14Bounded(c14GormTimeout(), func() { c14GormRound(r, i, n) }) {
			r.Violate(Violation{Kind: "e2e", Suite: "gorm", Input: map[string]interface{}{"goroutines": n, "session_level": i%2 == 1, "round": i},
				Observed: fmt.Sprintf("the round did not finish within %v (goroutines blocked inside the prepared-statement cache)", c14GormTimeout()), Expected: "no deadlock"})
			r.Note("gorm suite: round %d hung, the remaining rounds and the API probe are skipped", i)
			return
		}
	}
	if !c14Bounded(c14GormTimeout(), func() { c14GormStaleProbe(r) }) {
		r.Violate(Violation{Kind: "e2e", Suite: "gorm", Input: "stale-session-probe",
			Observed: fmt.Sprintf("the probe did not finish within %v", c14GormTimeout()), Expected: "no deadlock"})
	}
}

func c14GormRound(r *Result, i, n int) {
	{
		sessionLevel := i%2 == 1
		db, rec, sqlDB := OpenRec(&gorm.Config{PrepareStmt: !sessionLevel})
		ref, _, refSQL := OpenRec(nil)
		for _, d := range []*gorm.DB{db, ref} {
			d.Exec("create table c14_rows(id integer primary key, name text, age int)")
			for k := 1; k <= 6; k++ {
				d.Exec("insert into c14_rows(id,name,age) values (?,?,?)", k, fmt.Sprintf("n%d", k%3), 10*k)
			}
		}
		h := db
		if sessionLevel {
			h = db.Session(&gorm.Session{PrepareStmt: true})
		}
		queries := []func(d *gorm.DB, a int) (string, error){
			func(d *gorm.DB, a int) (string, error) {
				var out []c14Row
				e := d.Table("c14_rows").Where("age > ?", a).Order("id").Find(&out).Error
				return fmt.Sprint(out), e
			},
			func(d *gorm.DB, a int) (string, error) {
				var n int64
				e := d.Table("c14_rows").Where("name = ?", fmt.Sprintf("n%d", a%3)).Count(&n).Error
				return fmt.Sprint(n), e
			},
			func(d *gorm.DB, a int) (string, error) {
				var out c14Row
				e := d.Raw("select * from c14_rows where id = ?", 1+a%6).Scan(&out).Error
				return fmt.Sprint(out), e
			},
		}
		var wg sync.WaitGroup
		var mu sync.Mutex
		bad := []string{}
		for g := 0; g < n; g++ {
			wg.Add(1)
			go func(g int) {
				defer wg.Done()
				for k := 0; k < 6; k++ {
					qi, a := (g+k)%len(queries), (g*7+k*13)%60
					got, e1 := queries[qi](h.WithContext(context.Background()), a)
					want, e2 := queries[qi](ref, a)
					if e1 != nil || e2 != nil || got != want {
						mu.Lock()
						bad = append(bad, fmt.Sprintf("g%d q%d a%d: got %s/%v want %s/%v", g, qi, a, got, e1, want, e2))
						mu.Unlock()
					}
				}
			}(g)
		}
		wg.Wait()
		in := map[string]interface{}{"goroutines": n, "session_level": sessionLevel, "round": i}
		r.Case("gorm", fmt.Sprint(i, n, sessionLevel), n >= 2)
		r.H("c14.gorm.mode", fmt.Sprintf("session=%v", sessionLevel))
		if len(bad) > 0 {
			r.Violate(Violation{Kind: "e2e", Suite: "gorm", Input: in, Observed: bad, Expected: "same rows as the non-prepared handle"})
		}
		// a transaction through the cache, then Close + drain
		if err := h.Transaction(func(tx *gorm.DB) error {
			var out []c14Row
			return tx.Table("c14_rows").Where("age > ?", 20).Find(&out).Error
		}); err != nil {
			r.Violate(Violation{Kind: "e2e", Suite: "gorm", Input: in, Observed: err.Error(), Expected: "transaction through the cache succeeds"})
		}
		pdb, ok := h.ConnPool.(*gorm.PreparedStmtDB)
		if !ok {
			r.Violate(Violation{Kind: "e2e", Suite: "gorm", Input: in, Observed: fmt.Sprintf("%T", h.ConnPool), Expected: "*gorm.PreparedStmtDB"})
			return
		}
		cached := len(pdb.Stmts)
		r.H("c14.gorm.cached-texts", fmt.Sprint(cached))
		pdb.Close()
		drained := false
		for k := 0; k < 4000; k++ {
			if atomic.LoadInt64(&rec.Stmts) == 0 {
				drained = true
				break
			}
			time.Sleep(100 * time.Microsecond)
		}
		if !drained {
			r.Violate(Violation{Kind: "e2e", Suite: "gorm", Input: in, Observed: fmt.Sprintf("%d driver statements open after Close+drain", rec.Stmts), Expected: "0"})
		}
		var x c14Row
		err := h.Raw("select * from c14_rows where id = ?", 1).Scan(&x).Error
		if err == nil {
			r.Violate(Violation{Kind: "e2e", Suite: "gorm", Input: in, Observed: "query succeeded through a closed cache struct", Expected: "clean error after Close"})
		} else if !errors.Is(err, gorm.ErrInvalidDB) {
			r.H("c14.gorm.after-close", "other-clean-error")
		} else {
			r.H("c14.gorm.after-close", "ErrInvalidDB")
		}
		sqlDB.Close()
		refSQL.Close()
	}
}

// F14a through the public API only: a prepared session runs a query and Resets its cache; a prepared session obtained
// AFTERWARDS from the same database runs the same query.  Demanded (property text): the same rows as in non-prepared
// mode — the cache was reset, not closed.  Both before/after orders are probed: Reset through the first session then a NEW
// session, and Reset through the first session then an OLDER sibling session.
func c14GormStaleProbe(r *Result) {
	type obs struct {
		Variant string `json:"variant"`
		E1, E2  string
	}
	errText := func(e error) string {
		if e == nil {
			return ""
		}
		return e.Error()
	}
	var seen []obs
	for _, variant := range []string{"new-session-after-reset", "older-session-after-reset"} {
		db, _, sqlDB := OpenRec(nil)
		db.Exec("create table c14_rows(id integer primary key, name text, age int)")
		db.Exec("insert into c14_rows(id,name,age) values (1,'a',1)")
		var older *gorm.DB
		if variant == "older-session-after-reset" {
			older = db.Session(&gorm.Session{PrepareStmt: true})
			var y c14Row
			older.Raw("select * from c14_rows where id = ?", 1).Scan(&y)
		}
		s1 := db.Session(&gorm.Session{PrepareStmt: true})
		var x c14Row
		e1 := s1.Raw("select * from c14_rows where id = ?", 1).Scan(&x).Error
		s1.ConnPool.(*gorm.PreparedStmtDB).Reset()
		time.Sleep(20 * time.Millisecond)
		s2 := older
		if s2 == nil {
			s2 = db.Session(&gorm.Session{PrepareStmt: true})
		}
		x = c14Row{}
		e2 := s2.Raw("select * from c14_rows where id = ?", 1).Scan(&x).Error
		if e2 == nil && x.ID != 1 {
			e2 = fmt.Errorf("wrong row %v", x)
		}
		seen = append(seen, obs{variant, errText(e1), errText(e2)})
		sqlDB.Close()
	}
	r.Case("gorm", "stale-session-probe", true)
	bad := ""
	for _, o := range seen {
		if o.E1 != "" {
			r.Violate(Violation{Kind: "e2e", Suite: "gorm", Input: "stale-session-probe", Observed: o, Expected: "the first prepared session's query succeeds"})
			return
		}
		if o.E2 != "" && bad == "" {
			bad = o.Variant + ": " + o.E2
		}
	}
	if bad != "" {
		if listed("F14a-C14-stale-shared-map") {
			r.KnownFinding("F14a-C14-stale-shared-map", "gorm API: Session(PrepareStmt) → query → Reset through that session → another Session(PrepareStmt) of the same database → same query: "+bad)
		} else {
			r.Violate(Violation{Kind: "e2e", Suite: "gorm", Input: "stale-session-probe", Observed: seen, Expected: "same rows as non-prepared mode (the cache was reset, not closed)"})
		}
	} else {
		r.Note("probe F14a through the gorm API: Reset through one prepared session, same query through another: rows in both variants (facts: session reuses the registered struct=%v)", c14Facts().SessReuse)
	}
}

func init() {
	replayers["C14/gorm"] = func(r *Result, input json.RawMessage) {
		var name string
		if json.Unmarshal(input, &name) == nil && name == "stale-session-probe" {
			c14GormStaleProbe(r)
		}
	}
	register("C14", func(r *Result, rng *rand.Rand, tier string) {
		rounds, grounds := 400, 12
		if tier == "thorough" {
			rounds, grounds = 20000, 300
		} else if tier == "search" {
			rounds, grounds = 4000, 60
		}
		c14Stampede(r, rng, rounds)
		c14Gorm(r, rng, grounds)
	})
}
