package main

// C10: a write touches only permitted, selected columns of exactly the targeted rows.
//
// This file: generated model types (reflect.StructOf with random permission / auto-time / default tags),
// export of the REAL parsed schema to the Lean model, and the correspondence suites
//   perm  : Lean permOfTags                vs schema.Parse'd Creatable/Updatable/Readable/IgnoreMigration
//   sao   : Lean selectAndOmit             vs Statement.SelectAndOmitColumns
//   stmt  : Lean write set per write path  vs the column lists of the real DryRun statement
//           (incl. WHERE key columns of updates and deletes for every key shape, ON CONFLICT target of upserts)
// Schemas: genC10Schema (single integer key first) and genC10SchemaK (no key / string key / composite keys with and
// without a prioritized member / key members anywhere, with permission tags, inside embedded structs).
// The end-to-end oracles (cell-by-cell table diff, model-free) are in c10_e2e.go (write set, single-key tables) and
// c10_keys.go (row targeting on tables whose rows share partial keys + the rowsel tie).

import (
	"encoding/json"
	"fmt"
	"math/rand"
	"reflect"
	"regexp"
	"sort"
	"strings"
	"sync"
	"time"

	"gorm.io/gorm"
	"gorm.io/gorm/clause"
	"gorm.io/gorm/schema"
)

const c10Table = "c10_t"

type c10F struct {
	Name  string `json:"name"`
	Kind  string `json:"kind"`            // uint | int | str | i64 | time
	Tag   string `json:"tag"`             // content of the gorm tag
	Embed string `json:"embed,omitempty"` // "Meta:m_" = the field lives in a nested struct field Meta tagged embedded;embeddedPrefix:m_ ("Meta:" = no prefix)
}

type c10Sch struct {
	Fields []c10F `json:"fields"`
}

var c10PermTags = []string{"", "", "", "", "<-", "<-:create", "<-:update", "<-:false", "<-:create,update", "->", "->:false", "-", "-:migration", "-:all",
	"->;<-:create", "->;<-:update", "->:false;<-:create"}
var c10WildPermTags = []string{"<-:Create", "->:FALSE", "-: All ", "<-:no", "-:MIGRATION", "->:true", "<-:createupdate", "- ", "<-:update;->"}

var c10DataNames = []string{"Name", "Age", "Score", "Note", "Flag", "Rank", "City", "Qty"}

func c10Typ(kind string) reflect.Type {
	switch kind {
	case "uint":
		return reflect.TypeOf(uint(0))
	case "int":
		return reflect.TypeOf(int(0))
	case "i64":
		return reflect.TypeOf(int64(0))
	case "time":
		return reflect.TypeOf(time.Time{})
	}
	return reflect.TypeOf("")
}

// c10Paths: reflect index path of every (flat) field; consecutive fields with the same non-empty Embed share one
// nested struct field
func (s c10Sch) c10Paths() [][]int {
	out := make([][]int, len(s.Fields))
	top, sub := -1, 0
	for i, f := range s.Fields {
		if f.Embed != "" && i > 0 && s.Fields[i-1].Embed == f.Embed {
			sub++
			out[i] = []int{top, sub}
			continue
		}
		top++
		if f.Embed != "" {
			sub = 0
			out[i] = []int{top, 0}
		} else {
			out[i] = []int{top}
		}
	}
	return out
}

func c10StructField(f c10F) reflect.StructField {
	sf := reflect.StructField{Name: f.Name, Type: c10Typ(f.Kind)}
	if f.Tag != "" {
		sf.Tag = reflect.StructTag(`gorm:"` + f.Tag + `"`)
	}
	return sf
}

func c10EmbedPrefix(embed string) string {
	if i := strings.Index(embed, ":"); i >= 0 {
		return embed[i+1:]
	}
	return ""
}

func (s c10Sch) Type() reflect.Type {
	fs := []reflect.StructField{}
	for i := 0; i < len(s.Fields); {
		f := s.Fields[i]
		if f.Embed == "" {
			fs = append(fs, c10StructField(f))
			i++
			continue
		}
		inner := []reflect.StructField{}
		j := i
		for ; j < len(s.Fields) && s.Fields[j].Embed == f.Embed; j++ {
			inner = append(inner, c10StructField(s.Fields[j]))
		}
		name := f.Embed
		if k := strings.Index(name, ":"); k >= 0 {
			name = name[:k]
		}
		tag := "embedded"
		if p := c10EmbedPrefix(f.Embed); p != "" {
			tag += ";embeddedPrefix:" + p
		}
		fs = append(fs, reflect.StructField{Name: name, Type: reflect.StructOf(inner), Tag: reflect.StructTag(`gorm:"` + tag + `"`)})
		i = j
	}
	return reflect.StructOf(fs)
}

func c10Join(parts ...string) string {
	var out []string
	for _, p := range parts {
		if p != "" {
			out = append(out, p)
		}
	}
	return strings.Join(out, ";")
}

// c10KeyShapes: primary-key shapes (empty = model without any primary key).  Composite keys with and without a member
// named ID (= PrioritizedPrimaryField), with an autoIncrement member, with autoIncrement:false, string members,
// custom columns, an untagged ID beside a tagged key (ID is then NOT a key member).
var c10KeyShapes = [][]c10F{
	{},
	{{Name: "ID", Kind: "uint"}},
	{{Name: "ID", Kind: "uint", Tag: "primaryKey"}},
	{{Name: "Code", Kind: "uint", Tag: "primaryKey;column:code"}},
	{{Name: "Code", Kind: "str", Tag: "primaryKey"}},
	{{Name: "Num", Kind: "int", Tag: "primaryKey;autoIncrement:false"}},
	{{Name: "ID", Kind: "uint", Tag: "primaryKey;autoIncrement:false"}, {Name: "Locale", Kind: "str", Tag: "primaryKey"}},
	{{Name: "ID", Kind: "uint", Tag: "primaryKey"}, {Name: "Locale", Kind: "str", Tag: "primaryKey;column:loc"}},
	{{Name: "Locale", Kind: "str", Tag: "primaryKey"}, {Name: "ID", Kind: "uint", Tag: "primaryKey"}},
	{{Name: "Tenant", Kind: "str", Tag: "primaryKey"}, {Name: "Seq", Kind: "uint", Tag: "primaryKey;autoIncrement"}},
	{{Name: "A", Kind: "uint", Tag: "primaryKey"}, {Name: "B", Kind: "uint", Tag: "primaryKey"}},
	{{Name: "A", Kind: "uint", Tag: "primaryKey"}, {Name: "B", Kind: "str", Tag: "primaryKey"}, {Name: "Ver", Kind: "int", Tag: "primaryKey"}},
	{{Name: "ID", Kind: "uint", Tag: "primaryKey"}, {Name: "Locale", Kind: "str", Tag: "primaryKey"}, {Name: "Ver", Kind: "int", Tag: "primaryKey;autoIncrement:false"}},
	{{Name: "ID", Kind: "uint"}, {Name: "Locale", Kind: "str", Tag: "primaryKey"}},
	{{Name: "Locale", Kind: "str", Tag: "primary_key"}, {Name: "Id", Kind: "i64", Tag: "primaryKey;column:id"}},
}

var c10KeyPermTags = []string{"<-:create", "<-:create", "->", "<-:update", "<-:false", "<-"}

// genC10SchemaK: like genC10Schema but the key is drawn from c10KeyShapes, its members sit at random positions
// among the data fields (relative order kept), may carry permission tags, and a run of fields may live in an
// embedded struct (with or without embeddedPrefix).
func genC10SchemaK(rng *rand.Rand, wild bool) c10Sch {
	base := genC10Schema(rng, wild)
	data := base.Fields[1:]
	shape := c10KeyShapes[rng.Intn(len(c10KeyShapes))]
	var s c10Sch
	pos := make([]int, len(shape))
	for i := range pos {
		pos[i] = rng.Intn(len(data) + 1)
		if rng.Intn(2) == 0 {
			pos[i] = 0
		}
	}
	sort.Ints(pos)
	k := 0
	for i := 0; i <= len(data); i++ {
		for k < len(shape) && pos[k] == i {
			f := shape[k]
			if rng.Intn(5) == 0 {
				f.Tag = c10Join(c10KeyPermTags[rng.Intn(len(c10KeyPermTags))], f.Tag)
			}
			s.Fields = append(s.Fields, f)
			k++
		}
		if i < len(data) {
			s.Fields = append(s.Fields, data[i])
		}
	}
	if rng.Intn(3) == 0 && len(s.Fields) >= 2 {
		a := rng.Intn(len(s.Fields))
		b := a + 1 + rng.Intn(3)
		if b > len(s.Fields) {
			b = len(s.Fields)
		}
		embed := []string{"Meta:m_", "Meta:", "Part:p_"}[rng.Intn(3)]
		for i := a; i < b; i++ {
			s.Fields[i].Embed = embed
		}
	}
	return s
}

// c10KeyIdx: indices (into the flat field list) of the primary fields of the REAL parsed schema
func c10KeyIdx(sch *schema.Schema) []int {
	out := []int{}
	for i, f := range sch.Fields {
		if f.PrimaryKey && f.DBName != "" {
			out = append(out, i)
		}
	}
	return out
}

func c10IsKey(sch *schema.Schema, name string) bool {
	for _, f := range sch.PrimaryFields {
		if f.Name == name {
			return true
		}
	}
	return false
}

// c10KeyVal: the n-th non-zero value of a key component of this kind
func c10KeyVal(kind string, n int) interface{} {
	if kind == "str" {
		return fmt.Sprintf("k%d", n)
	}
	return n
}

// c10GenValsK: every key component independently zero (pZeroKey %) or one of 3 small values; data fields as c10GenVals
func c10GenValsK(rng *rand.Rand, s c10Sch, sch *schema.Schema, pZeroKey int, pNonZero int, salt int) c10Vals {
	v := c10Vals{}
	allZero := rng.Intn(100) < pZeroKey
	for i, f := range s.Fields {
		if sch.Fields[i].PrimaryKey {
			if !allZero && rng.Intn(100) >= pZeroKey {
				v[f.Name] = c10KeyVal(f.Kind, 1+rng.Intn(3))
			}
			continue
		}
		if rng.Intn(100) < pNonZero {
			v[f.Name] = c10NonZero(rng, f, salt*10+i)
		}
	}
	return v
}

// genC10Schema: wild = also spellings/tags that are only meaningful for the model tie (not for the e2e table).
func genC10Schema(rng *rand.Rand, wild bool) c10Sch {
	var s c10Sch
	switch rng.Intn(10) {
	case 0:
		s.Fields = append(s.Fields, c10F{Name: "ID", Kind: "uint", Tag: ""}) // prioritized primary key by name
	case 1:
		s.Fields = append(s.Fields, c10F{Name: "Code", Kind: "uint", Tag: "primaryKey;column:code"})
	default:
		s.Fields = append(s.Fields, c10F{Name: "ID", Kind: "uint", Tag: "primaryKey"})
	}
	names := append([]string{}, c10DataNames...)
	rng.Shuffle(len(names), func(i, j int) { names[i], names[j] = names[j], names[i] })
	n := 2 + rng.Intn(5)
	for i := 0; i < n; i++ {
		f := c10F{Name: names[i], Kind: []string{"int", "str", "int", "i64"}[rng.Intn(4)]}
		perm := c10PermTags[rng.Intn(len(c10PermTags))]
		if wild && rng.Intn(5) == 0 {
			perm = c10WildPermTags[rng.Intn(len(c10WildPermTags))]
		}
		col, def := "", ""
		ignored := strings.HasPrefix(strings.TrimSpace(perm), "-") && !strings.HasPrefix(perm, "->") && !strings.Contains(strings.ToLower(perm), "migration")
		if rng.Intn(7) == 0 && (!ignored || (wild && rng.Intn(2) == 0)) {
			col = "column:c_" + strings.ToLower(f.Name)
			if wild && rng.Intn(4) == 0 && i+1 < n {
				col = "column:" + names[i+1] // a column spelled like another field's Go name
			}
		}
		if rng.Intn(5) == 0 && !ignored {
			if f.Kind == "str" {
				def = []string{"default:dd", "default:(lower('XY'))", "default:null"}[rng.Intn(3)]
			} else {
				def = []string{"default:7", "default:(abs(-3))", "default:null"}[rng.Intn(3)]
			}
		}
		f.Tag = c10Join(perm, col, def)
		s.Fields = append(s.Fields, f)
	}
	autoPerm := func() string {
		if rng.Intn(6) == 0 {
			return []string{"<-:create", "<-:update", "->", "<-:false"}[rng.Intn(4)]
		}
		return ""
	}
	switch rng.Intn(7) {
	case 0, 1:
		s.Fields = append(s.Fields, c10F{Name: "UpdatedAt", Kind: "i64", Tag: autoPerm()})
	case 2:
		s.Fields = append(s.Fields, c10F{Name: "UpdatedAt", Kind: "time", Tag: autoPerm()})
	case 3:
		s.Fields = append(s.Fields, c10F{Name: "Mtime", Kind: "i64", Tag: c10Join(autoPerm(), "autoUpdateTime")})
	case 4:
		s.Fields = append(s.Fields, c10F{Name: "Mtime", Kind: "i64", Tag: c10Join(autoPerm(), "autoUpdateTime:milli")})
	}
	switch rng.Intn(6) {
	case 0, 1:
		s.Fields = append(s.Fields, c10F{Name: "CreatedAt", Kind: "i64", Tag: autoPerm()})
	case 2:
		s.Fields = append(s.Fields, c10F{Name: "Ctime", Kind: "i64", Tag: c10Join(autoPerm(), "autoCreateTime")})
	}
	return s
}

// c10Parse parses the generated type with the REAL schema parser (through Statement.Parse, as every finisher does).
func c10Parse(db *gorm.DB, s c10Sch) (*schema.Schema, reflect.Type, error) {
	typ := s.Type()
	stmt := &gorm.Statement{DB: db, Table: c10Table}
	if err := stmt.Parse(reflect.New(typ).Interface()); err != nil {
		return nil, typ, err
	}
	return stmt.Schema, typ, nil
}

// c10Export projects the real parsed schema onto the Lean `Schema` structure.
func c10Export(sch *schema.Schema) map[string]interface{} {
	fields := []interface{}{}
	for _, f := range sch.Fields {
		fields = append(fields, []interface{}{f.Name, f.DBName, f.PrimaryKey, f.Creatable, f.Updatable, f.Readable,
			f.AutoCreateTime > 0, f.AutoUpdateTime > 0, f.HasDefaultValue, f.DefaultValueInterface != nil, strings.EqualFold(f.DefaultValue, "NULL")})
	}
	rels := []string{}
	for k := range sch.Relationships.Relations {
		rels = append(rels, k)
	}
	sort.Strings(rels)
	ddb := []string{}
	for _, f := range sch.FieldsWithDefaultDBValue {
		ddb = append(ddb, f.DBName)
	}
	return map[string]interface{}{"table": c10Table, "fields": fields, "rels": rels, "defaultDB": ddb}
}

func c10OpenDry() *gorm.DB {
	db, _, _ := OpenRec(&gorm.Config{NowFunc: fixedNowFunc, DryRun: true})
	return db
}

// c10ParseDB: a handle used ONLY to parse generated types (Statement.Parse never reaches the connection pool), so the
// pool is closed at once — tens of thousands of these are opened per thorough run and must not pile up.
func c10ParseDB() *gorm.DB {
	db, _, sqlDB := OpenRec(&gorm.Config{NowFunc: fixedNowFunc, DryRun: true})
	_ = sqlDB.Close()
	return db
}

// ---- select / omit name generator -------------------------------------------------------------------

func c10GenNames(rng *rand.Rand, sch *schema.Schema, max int, wild bool, r *Result, hist string) []string {
	n := rng.Intn(max + 1)
	out := []string{}
	for i := 0; i < n; i++ {
		f := sch.Fields[rng.Intn(len(sch.Fields))]
		form := rng.Intn(10)
		if wild {
			form = rng.Intn(20)
		}
		var s, kind string
		switch {
		case form == 0:
			s, kind = "*", "star"
		case form <= 4:
			s, kind = f.Name, "field-name"
		case form <= 9:
			s, kind = f.DBName, "column"
			if s == "" {
				s, kind = f.Name, "field-name"
			}
		case form == 10:
			s, kind = c10Table+"."+f.DBName, "table.col"
		case form == 11:
			s, kind = "`"+f.DBName+"`", "quoted"
		case form == 12:
			s, kind = "other."+f.DBName, "othertable.col"
		case form == 13:
			s, kind = c10Table+".*", "table.*"
		case form == 14:
			s, kind = "zzz", "unknown"
		case form == 15:
			s, kind = clause.Associations, "associations"
		case form == 16:
			s, kind = "`"+c10Table+"`.`"+f.DBName+"`", "quoted-table.col"
		case form == 17:
			s, kind = strings.ToLower(f.Name), "lower-field-name"
		case form == 18:
			s, kind = f.DBName+" desc", "not-a-name"
		default:
			s, kind = "."+f.DBName+".", "dots"
		}
		if r != nil {
			r.H(hist, kind)
		}
		out = append(out, s)
	}
	return out
}

// ---- values -------------------------------------------------------------------------------------------

// c10Vals: Go field name -> non-zero value (fields absent are zero). Values are JSON-able.
type c10Vals map[string]interface{}

func c10NonZero(rng *rand.Rand, f c10F, salt int) interface{} {
	switch f.Kind {
	case "str":
		return fmt.Sprintf("w%d", salt)
	case "time":
		return "T"
	}
	return 1000 + salt
}

func c10GenVals(rng *rand.Rand, s c10Sch, pk int, pNonZero int, salt int) c10Vals {
	v := c10Vals{}
	for i, f := range s.Fields {
		if i == 0 {
			if pk != 0 {
				v[f.Name] = pk
			}
			continue
		}
		if rng.Intn(100) < pNonZero {
			v[f.Name] = c10NonZero(rng, f, salt*10+i)
		}
	}
	return v
}

var c10GivenTime = time.Date(2001, 2, 3, 4, 5, 6, 0, time.UTC)

// c10Build sets the non-zero values into a fresh *T
func c10Build(typ reflect.Type, s c10Sch, v c10Vals) reflect.Value {
	p := reflect.New(typ)
	c10Fill(p.Elem(), s, v)
	return p
}

func c10Fill(e reflect.Value, s c10Sch, v c10Vals) {
	paths := s.c10Paths()
	for i, f := range s.Fields {
		x, ok := v[f.Name]
		if !ok {
			continue
		}
		fv := e.FieldByIndex(paths[i])
		switch f.Kind {
		case "str":
			fv.SetString(fmt.Sprint(x))
		case "time":
			fv.Set(reflect.ValueOf(c10GivenTime))
		case "uint":
			fv.SetUint(uint64(c10Int(x)))
		default:
			fv.SetInt(int64(c10Int(x)))
		}
	}
}

func c10Int(x interface{}) int {
	switch n := x.(type) {
	case int:
		return n
	case int64:
		return int(n)
	case uint:
		return int(n)
	case float64:
		return int(n)
	case json.Number:
		i, _ := n.Int64()
		return int(i)
	}
	return 0
}

func c10NZ(v c10Vals) []string {
	out := []string{}
	for k := range v {
		out = append(out, k)
	}
	sort.Strings(out)
	return out
}

// ---- one statement-level case ---------------------------------------------------------------------------

type c10Case struct {
	Schema  c10Sch          `json:"schema"`
	Path    string          `json:"path"`
	Selects []string        `json:"selects"`
	Omits   []string        `json:"omits"`
	Rows    []c10Vals       `json:"rows"`  // struct value(s)
	Model   c10Vals         `json:"model"` // model value when Dest != Model
	Map     [][]interface{} `json:"map"`   // [key, value] pairs for map paths (value nil allowed); for create_maps: one per row in MapRows
	MapRows [][][]interface{} `json:"map_rows"`
	Dto     *c10Sch           `json:"dto,omitempty"` // upd_dto: the updating value is of this (different) struct type
}

// c10DtoOf: same fields, permission tags re-drawn (a DTO type used as `Model(&m).Updates(dto)`)
func c10DtoOf(rng *rand.Rand, s c10Sch) *c10Sch {
	d := c10Sch{}
	for i, f := range s.Fields {
		if i > 0 && rng.Intn(2) == 0 {
			keep := []string{}
			for _, p := range strings.Split(f.Tag, ";") {
				if p != "" && !strings.HasPrefix(p, "-") && !strings.HasPrefix(p, "<-") {
					keep = append(keep, p)
				}
			}
			perm := []string{"", "<-:create", "<-:false", "->", "<-:update", "<-"}[rng.Intn(6)]
			f.Tag = c10Join(append([]string{perm}, keep...)...)
		}
		d.Fields = append(d.Fields, f)
	}
	return &d
}

var c10Paths = []string{"upd_dto", "upd_dto", "upd_struct", "upd_struct", "upd_self", "updcols_struct", "upd_map", "upd_map", "update1", "updcol1", "updcols_map",
	"save", "save", "create", "create_slice", "create_map", "create_maps", "upsert_all", "save_slice", "upsert_slice", "delete", "delete_model",
	"upd_struct_nomodel", "updcols_struct_nomodel"}

type c10Obs struct {
	Kind   string   `json:"kind"` // UPDATE | INSERT | none
	Insert []string `json:"insert"`
	Set    []string `json:"set"`
	Where  []string `json:"where"`
	Upsert []string `json:"upsert"`
	// Conflict: conflict target of the ON CONFLICT clause (UpdateAll: gorm fills it with the primary fields)
	Conflict []string `json:"conflict"`
}

var c10DelColRe = regexp.MustCompile("`" + c10Table + "`\\.`([^`]*)`")

func c10MapOf(pairs [][]interface{}) map[string]interface{} {
	m := map[string]interface{}{}
	for _, p := range pairs {
		v := p[1]
		switch x := v.(type) { // values of a replayed (JSON-decoded) case
		case json.Number:
			v = c10Int(x)
		case float64:
			v = int(x)
		case string:
			if strings.HasPrefix(x, "expr:") { // SQL expression value: `col` + 1000
				v = gorm.Expr("`"+strings.TrimPrefix(x, "expr:")+"` + ?", 1000)
			} else if t, err := time.Parse(time.RFC3339, x); err == nil {
				v = t
			}
		}
		m[fmt.Sprint(p[0])] = v
	}
	return m
}

var c10SetRe = regexp.MustCompile("`([^`]*)`=")
var c10WhereRe = regexp.MustCompile("`([^`]*)` = \\?")

// c10Chain applies table/select/omit to a session
func c10Chain(db *gorm.DB, sel, om []string) *gorm.DB {
	tx := db.Table(c10Table)
	if len(sel) > 0 {
		tx = tx.Select(append([]string{}, sel...))
	}
	if len(om) > 0 {
		tx = tx.Omit(append([]string{}, om...)...)
	}
	return tx
}

// c10Exec runs the write path of c on db (DryRun or real) and returns the finished *gorm.DB
func c10Exec(db *gorm.DB, typ reflect.Type, c *c10Case, extra func(*gorm.DB) *gorm.DB) *gorm.DB {
	tx := c10Chain(db, c.Selects, c.Omits)
	if extra != nil {
		tx = extra(tx)
	}
	row := func(i int) reflect.Value {
		if i < len(c.Rows) {
			return c10Build(typ, c.Schema, c.Rows[i])
		}
		return reflect.New(typ)
	}
	slice := func() interface{} {
		sl := reflect.New(reflect.SliceOf(typ))
		for i := range c.Rows {
			sl.Elem().Set(reflect.Append(sl.Elem(), row(i).Elem()))
		}
		return sl.Interface()
	}
	model := func() interface{} { return c10Build(typ, c.Schema, c.Model).Interface() }
	switch c.Path {
	case "upd_struct":
		return tx.Model(model()).Updates(row(0).Elem().Interface())
	case "upd_struct_nomodel": // no Model(…) at all: the struct VALUE is model and destination (its own key is the condition AND in SET)
		return tx.Updates(row(0).Elem().Interface())
	case "updcols_struct_nomodel":
		return tx.UpdateColumns(row(0).Elem().Interface())
	case "upd_dto":
		return tx.Model(model()).Updates(c10Build(c.Dto.Type(), *c.Dto, c.Rows[0]).Elem().Interface())
	case "upd_self":
		p := row(0).Interface()
		return tx.Model(p).Updates(p)
	case "updcols_struct":
		return tx.Model(model()).UpdateColumns(row(0).Elem().Interface())
	case "upd_map":
		return tx.Model(model()).Updates(c10MapOf(c.Map))
	case "updcols_map":
		return tx.Model(model()).UpdateColumns(c10MapOf(c.Map))
	case "update1":
		return tx.Model(model()).Update(fmt.Sprint(c.Map[0][0]), c10MapOf(c.Map[:1])[fmt.Sprint(c.Map[0][0])])
	case "updcol1":
		return tx.Model(model()).UpdateColumn(fmt.Sprint(c.Map[0][0]), c10MapOf(c.Map[:1])[fmt.Sprint(c.Map[0][0])])
	case "save":
		return tx.Save(row(0).Interface())
	case "create":
		return tx.Create(row(0).Interface())
	case "create_slice":
		return tx.Create(slice())
	case "create_batches":
		return tx.CreateInBatches(slice(), 2)
	case "create_map":
		return tx.Model(reflect.New(typ).Interface()).Create(c10MapOf(c.Map))
	case "create_maps":
		ms := []map[string]interface{}{}
		for _, r := range c.MapRows {
			ms = append(ms, c10MapOf(r))
		}
		return tx.Model(reflect.New(typ).Interface()).Create(&ms) // pointer: a plain []map value makes gorm.Scan panic on RETURNING dialects (side finding, not C10)
	case "upsert_all":
		return tx.Clauses(clause.OnConflict{UpdateAll: true}).Create(row(0).Interface())
	case "upsert_slice":
		return tx.Clauses(clause.OnConflict{UpdateAll: true}).Create(slice())
	case "save_slice":
		return tx.Save(slice())
	case "updmap_slicemodel": // keys given through a SLICE model value: WHERE (key…) IN ((…),(…))
		return tx.Model(slice()).Updates(c10MapOf(c.Map))
	case "delete_slice":
		return tx.Delete(slice())
	case "delete": // key given through the deleted value itself
		return tx.Delete(row(0).Interface())
	case "delete_model": // key given through Model(&m) AND through the deleted value
		return tx.Model(model()).Delete(row(0).Interface())
	}
	panic("unknown path " + c.Path)
}

func c10Observe(tx *gorm.DB) c10Obs {
	o := c10Obs{Kind: "none", Insert: []string{}, Set: []string{}, Where: []string{}, Upsert: []string{}, Conflict: []string{}}
	sql := tx.Statement.SQL.String()
	switch {
	case strings.HasPrefix(sql, "UPDATE"):
		o.Kind = "UPDATE"
		rest := sql
		if i := strings.Index(rest, " SET "); i >= 0 {
			rest = rest[i+5:]
		}
		where := ""
		if i := strings.Index(rest, " WHERE "); i >= 0 {
			rest, where = rest[:i], rest[i+7:]
		}
		for _, m := range c10SetRe.FindAllStringSubmatch(rest, -1) {
			o.Set = append(o.Set, m[1])
		}
		for _, m := range c10WhereRe.FindAllStringSubmatch(where, -1) {
			o.Where = append(o.Where, m[1])
		}
	case strings.HasPrefix(sql, "DELETE"):
		// DELETE FROM `c10_t` WHERE (`c10_t`.`id`,`c10_t`.`loc`) IN ((?,?)) [AND `c10_t`.`id` = ?]: the key columns the
		// WHERE constrains, in order
		o.Kind = "DELETE"
		if i := strings.Index(sql, " WHERE "); i >= 0 {
			for _, m := range c10DelColRe.FindAllStringSubmatch(sql[i+7:], -1) {
				o.Where = append(o.Where, m[1])
			}
		}
	case strings.HasPrefix(sql, "INSERT"):
		o.Kind = "INSERT"
		if c, ok := tx.Statement.Clauses["VALUES"]; ok {
			if v, ok := c.Expression.(clause.Values); ok {
				for _, col := range v.Columns {
					o.Insert = append(o.Insert, col.Name)
				}
			}
		}
		if c, ok := tx.Statement.Clauses["ON CONFLICT"]; ok {
			if oc, ok := c.Expression.(clause.OnConflict); ok {
				for _, a := range oc.DoUpdates {
					o.Upsert = append(o.Upsert, a.Column.Name)
				}
				for _, col := range oc.Columns {
					o.Conflict = append(o.Conflict, col.Name)
				}
			}
		}
	}
	return o
}

func c10MapKeysForLean(pairs [][]interface{}) [][]interface{} {
	sorted := append([][]interface{}{}, pairs...)
	sort.Slice(sorted, func(i, j int) bool { return fmt.Sprint(sorted[i][0]) < fmt.Sprint(sorted[j][0]) })
	out := [][]interface{}{}
	for _, p := range sorted {
		out = append(out, []interface{}{p[0], p[1] == nil})
	}
	return out
}

func c10KeyNames(pairs [][]interface{}) []string {
	out := []string{}
	for _, p := range pairs {
		out = append(out, fmt.Sprint(p[0]))
	}
	sort.Strings(out)
	return out
}

// c10LeanOps: the model ops whose answers predict the observation of c
func c10LeanOps(exp map[string]interface{}, c *c10Case) [][]interface{} {
	rows := [][]string{}
	for _, r := range c.Rows {
		rows = append(rows, c10NZ(r))
	}
	if len(rows) == 0 {
		rows = append(rows, []string{})
	}
	sel, om := c.Selects, c.Omits
	if sel == nil {
		sel = []string{}
	}
	if om == nil {
		om = []string{}
	}
	switch c.Path {
	case "upd_dto":
		dsch, _, err := c10Parse(c10ParseDB(), *c.Dto)
		if err != nil {
			panic(err)
		}
		return [][]interface{}{{"c10.updstruct", exp, c10Export(dsch), sel, om, false, false, rows[0], c10NZ(c.Model)}}
	case "upd_struct":
		return [][]interface{}{{"c10.updstruct", exp, exp, sel, om, false, false, rows[0], c10NZ(c.Model)}}
	case "upd_self":
		return [][]interface{}{{"c10.updstruct", exp, exp, sel, om, true, false, rows[0], rows[0]}}
	case "upd_struct_nomodel": // Dest (a non-addressable struct value) is also the model value: !CanAddr ⇒ destIsModel = false
		return [][]interface{}{{"c10.updstruct", exp, exp, sel, om, false, false, rows[0], rows[0]}}
	case "updcols_struct_nomodel":
		return [][]interface{}{{"c10.updstruct", exp, exp, sel, om, false, true, rows[0], rows[0]}}
	case "updcols_struct":
		return [][]interface{}{{"c10.updstruct", exp, exp, sel, om, false, true, rows[0], c10NZ(c.Model)}}
	case "upd_map", "update1":
		return [][]interface{}{{"c10.updmap", exp, sel, om, false, c10MapKeysForLean(c.Map), c10NZ(c.Model)}}
	case "updcols_map", "updcol1":
		return [][]interface{}{{"c10.updmap", exp, sel, om, true, c10MapKeysForLean(c.Map), c10NZ(c.Model)}}
	case "save":
		return [][]interface{}{{"c10.save", exp, sel, om, rows[0]}, {"c10.create", exp, sel, om, false, rows[:1], false}}
	case "create":
		return [][]interface{}{{"c10.create", exp, sel, om, false, rows[:1], false}}
	case "create_slice", "create_batches":
		return [][]interface{}{{"c10.create", exp, sel, om, true, rows, false}}
	case "create_map":
		return [][]interface{}{{"c10.createmap", exp, sel, om, c10KeyNames(c.Map)}}
	case "create_maps":
		rs := [][]string{}
		for _, r := range c.MapRows {
			rs = append(rs, c10KeyNames(r))
		}
		return [][]interface{}{{"c10.createmaps", exp, sel, om, rs}}
	case "delete":
		return [][]interface{}{{"c10.delconds", exp, rows[0], []string{}, false}}
	case "delete_model":
		return [][]interface{}{{"c10.delconds", exp, rows[0], c10NZ(c.Model), true}}
	case "upsert_all":
		return [][]interface{}{{"c10.create", exp, sel, om, false, rows[:1], true}}
	case "upsert_slice", "save_slice":
		return [][]interface{}{{"c10.create", exp, sel, om, true, rows, true}}
	}
	panic("unknown path")
}

// c10Expected assembles the predicted observation from the Lean answers
func c10Expected(c *c10Case, outs []json.RawMessage) (c10Obs, string) {
	o := c10Obs{Kind: "none", Insert: []string{}, Set: []string{}, Where: []string{}, Upsert: []string{}, Conflict: []string{}}
	strs := func(raw json.RawMessage) []string {
		var l []string
		_ = json.Unmarshal(raw, &l)
		if l == nil {
			l = []string{}
		}
		return l
	}
	pair := func(raw json.RawMessage) []json.RawMessage {
		var l []json.RawMessage
		_ = json.Unmarshal(raw, &l)
		return l
	}
	for _, x := range outs {
		if string(x) == `"bad-op"` {
			return o, "bad-op"
		}
	}
	branch := c.Path
	switch c.Path {
	case "upd_struct", "upd_self", "updcols_struct", "upd_dto", "upd_struct_nomodel", "updcols_struct_nomodel":
		p := pair(outs[0])
		o.Set, o.Where = strs(p[0]), strs(p[1])
		if len(o.Set) > 0 {
			o.Kind = "UPDATE"
		} else {
			o.Where = []string{}
		}
	case "upd_map", "update1", "updcols_map", "updcol1":
		p := pair(outs[0])
		o.Set, o.Where = strs(p[0]), strs(p[1])
		if len(o.Set) > 0 {
			o.Kind = "UPDATE"
		} else {
			o.Where = []string{}
		}
	case "save":
		p := pair(outs[0])
		var route string
		_ = json.Unmarshal(p[0], &route)
		branch = "save-" + route
		if route == "update" {
			o.Set, o.Where = strs(p[1]), strs(p[2])
			if len(o.Set) > 0 {
				o.Kind = "UPDATE"
			} else {
				o.Where = []string{}
			}
		} else {
			o.Kind = "INSERT"
			o.Insert = strs(pair(outs[1])[0])
		}
	case "create", "create_slice", "create_batches", "upsert_all", "upsert_slice", "save_slice":
		p := pair(outs[0])
		o.Kind = "INSERT"
		o.Insert, o.Upsert = strs(p[0]), strs(p[1])
		if len(p) > 2 {
			o.Conflict = strs(p[2])
		}
	case "delete", "delete_model":
		o.Kind = "DELETE"
		o.Where = strs(outs[0])
	case "create_map":
		o.Kind = "INSERT"
		o.Insert = strs(outs[0])
	case "create_maps":
		o.Kind = "INSERT"
		seen := map[string]bool{}
		for _, k := range strs(outs[0]) { // the code keeps each accepted column once and sorts
			if !seen[k] {
				seen[k] = true
				o.Insert = append(o.Insert, k)
			}
		}
		sort.Strings(o.Insert)
	}
	return o, branch
}

// c10GenMap: keys spelled as field name / column / unknown, values zero / non-zero / nil
func c10GenMap(rng *rand.Rand, sch *schema.Schema, s c10Sch, wild bool, single bool, salt int, r *Result, expr bool) [][]interface{} {
	out := [][]interface{}{}
	used := map[string]bool{}
	n := 1 + rng.Intn(4)
	if single {
		n = 1
	}
	for tries := 0; len(out) < n && tries < 12*n; tries++ { // skipped draws (key member, repeated field) are retried
		idx := rng.Intn(len(s.Fields))
		if sch.Fields[idx].PrimaryKey && !(wild && rng.Intn(4) == 0) {
			continue
		}
		f, pf := s.Fields[idx], sch.Fields[idx]
		key, kind := pf.DBName, "column"
		if pf.DBName == "" || rng.Intn(2) == 0 {
			key, kind = pf.Name, "field-name"
		}
		if wild && rng.Intn(10) == 0 {
			key, kind = "zzz", "unknown"
		}
		if used[key] || (!wild && used[pf.Name]) {
			continue // (e2e: one key per field — which of two spellings of one field wins is not specified)
		}
		used[key] = true
		used[pf.Name] = true
		var val interface{}
		vk := "non-zero"
		switch rng.Intn(4) {
		case 0:
			vk = "zero"
			if f.Kind == "str" {
				val = ""
			} else if f.Kind == "time" {
				val = time.Time{}
			} else {
				val = 0
			}
		case 1:
			if wild || !(pf.AutoUpdateTime > 0) {
				vk = "nil"
				val = nil
				break
			}
			fallthrough
		default:
			val = c10NonZero(rng, f, salt*10+idx)
			if val == "T" {
				val = c10GivenTime
			}
		}
		if expr && (f.Kind == "int" || f.Kind == "i64") && pf.DBName != "" && !(pf.AutoUpdateTime > 0) && rng.Intn(5) == 0 {
			vk, val = "expr", "expr:"+pf.DBName
		}
		if r != nil {
			r.H("c10.map.key", kind)
			r.H("c10.map.value", vk)
		}
		out = append(out, []interface{}{key, val})
	}
	return out
}

func genC10Case(rng *rand.Rand, db *gorm.DB, wild bool, r *Result) (*c10Case, *schema.Schema, reflect.Type) {
	for {
		s := genC10Schema(rng, wild)
		if rng.Intn(3) > 0 {
			s = genC10SchemaK(rng, wild)
		}
		sch, typ, err := c10Parse(db, s)
		if err != nil {
			if r != nil {
				r.H("c10.schema.parse-error", "1")
			}
			continue
		}
		if r != nil {
			r.H("c10.stmt.key-shape", c10ShapeOf(sch))
			r.H("c10.stmt.embedded", fmt.Sprint(c10HasEmbed(s)))
		}
		c := &c10Case{Schema: s, Path: c10Paths[rng.Intn(len(c10Paths))]}
		c.Selects = c10GenNames(rng, sch, 3, wild, r, "c10.select.form")
		if rng.Intn(3) == 0 {
			c.Selects = nil
		}
		c.Omits = c10GenNames(rng, sch, 2, wild, r, "c10.omit.form")
		if rng.Intn(2) == 0 {
			c.Omits = nil
		}
		nrows := 1
		if strings.HasSuffix(c.Path, "slice") || c.Path == "create_batches" {
			nrows = 1 + rng.Intn(3)
		}
		for i := 0; i < nrows; i++ {
			c.Rows = append(c.Rows, c10GenValsK(rng, s, sch, 25, 50, i+1))
		}
		c.Model = c10GenValsK(rng, s, sch, 20, 0, 0)
		if c.Path == "upd_dto" {
			c.Dto = c10DtoOf(rng, s)
			if _, _, err := c10Parse(db, *c.Dto); err != nil {
				c.Path, c.Dto = "upd_struct", nil
			}
		}
		if (c.Path == "upd_struct" || c.Path == "upd_dto") && rng.Intn(3) > 0 {
			for _, k := range c10KeyIdx(sch) {
				delete(c.Rows[0], s.Fields[k].Name)
			}
		}
		single := c.Path == "update1" || c.Path == "updcol1"
		c.Map = c10GenMap(rng, sch, s, wild, single, 7, r, strings.HasPrefix(c.Path, "upd"))
		if c.Path == "create_maps" {
			for i, n := 0, 1+rng.Intn(3); i < n; i++ {
				c.MapRows = append(c.MapRows, c10GenMap(rng, sch, s, wild, false, 3+i, nil, false))
			}
		}
		return c, sch, typ
	}
}

// c10ShapeOf: histogram bucket describing the key of the parsed schema
func c10ShapeOf(sch *schema.Schema) string {
	prio := "none"
	if p := sch.PrioritizedPrimaryField; p != nil {
		prio = "member"
		if len(sch.PrimaryFields) == 1 {
			prio = "single"
		}
	}
	kinds := []string{}
	for _, f := range sch.PrimaryFields {
		kinds = append(kinds, string(f.DataType))
	}
	return fmt.Sprintf("pk=%d[%s] prioritized=%s", len(sch.PrimaryFields), strings.Join(kinds, ","), prio)
}

func c10HasEmbed(s c10Sch) bool {
	for _, f := range s.Fields {
		if f.Embed != "" {
			return true
		}
	}
	return false
}

func c10Restricted(s c10Sch) bool {
	for _, f := range s.Fields {
		for _, p := range strings.Split(f.Tag, ";") {
			p = strings.TrimSpace(p)
			if strings.HasPrefix(p, "-") || strings.HasPrefix(p, "<-:") {
				if !strings.EqualFold(p, "-:migration") {
					return true
				}
			}
		}
	}
	return false
}

var c10CacheReset sync.Mutex

func init() {
	// correspondence 1+2: permission tags and SelectAndOmitColumns
	register("C10", func(r *Result, rng *rand.Rand, tier string) {
		n := 1500
		if tier == "thorough" {
			n = 60000
		} else if tier == "search" {
			n = 300
		}
		t0 := time.Now()
		defer func() { r.Note("c10 perm+sao: n=%d took %.1fs", n, time.Since(t0).Seconds()) }()
		db := c10OpenDry()
		var ops [][]interface{}
		var reals []string
		var suites []string
		var inputs []interface{}
		for i := 0; i < n && !expired(); i++ {
			if i%400 == 399 {
				db = c10OpenDry() // fresh schema cache
			}
			s := genC10Schema(rng, true)
			if i%2 == 1 {
				s = genC10SchemaK(rng, true) // every key shape, key members with permission tags, embedded structs
			}
			sch, _, err := c10Parse(db, s)
			if err != nil {
				r.H("c10.schema.parse-error", "1")
				continue
			}
			r.H("c10.schema.fields", fmt.Sprint(len(s.Fields)))
			r.H("c10.schema.key-shape", c10ShapeOf(sch))
			for fi, f := range s.Fields {
				pf := sch.Fields[fi]
				if pf.Name != f.Name {
					r.Violate(Violation{Kind: "correspondence", Suite: "perm", Input: s, Note: "harness: parsed field order differs from generated order"})
					break
				}
				ts := schema.ParseTagSetting(f.Tag, ";")
				pairs := [][]string{}
				for k, v := range ts {
					pairs = append(pairs, []string{k, v})
				}
				sort.Slice(pairs, func(a, b int) bool { return pairs[a][0] < pairs[b][0] })
				ops = append(ops, []interface{}{"c10.perm", pairs})
				reals = append(reals, canon([]bool{pf.Creatable, pf.Updatable, pf.Readable, pf.IgnoreMigration}))
				suites = append(suites, "perm")
				inputs = append(inputs, f)
				for _, p := range strings.Split(f.Tag, ";") {
					if strings.HasPrefix(p, "-") || strings.HasPrefix(p, "<-") {
						r.H("c10.perm.tag", p)
					}
				}
				if len(pairs) == 0 || !(strings.Contains(f.Tag, "-")) {
					r.H("c10.perm.tag", "(none)")
				}
				r.H("c10.perm.result", fmt.Sprintf("c=%v u=%v r=%v", pf.Creatable, pf.Updatable, pf.Readable))
			}
			exp := c10Export(sch)
			for k := 0; k < 3; k++ {
				sel := c10GenNames(rng, sch, 3, true, r, "c10.sao.select.form")
				om := c10GenNames(rng, sch, 2, true, r, "c10.sao.omit.form")
				rc, ru := rng.Intn(2) == 0, rng.Intn(2) == 0
				stmt := &gorm.Statement{DB: db, Table: c10Table, Selects: sel, Omits: om}
				if err := stmt.Parse(reflect.New(s.Type()).Interface()); err != nil {
					continue
				}
				res, restricted := stmt.SelectAndOmitColumns(rc, ru)
				kv := [][]interface{}{}
				for k, v := range res {
					kv = append(kv, []interface{}{k, v})
				}
				sort.Slice(kv, func(a, b int) bool { return kv[a][0].(string) < kv[b][0].(string) })
				ops = append(ops, []interface{}{"c10.sao", exp, sel, om, rc, ru})
				reals = append(reals, canon(map[string]interface{}{"r": kv, "restricted": restricted}))
				suites = append(suites, "sao")
				inputs = append(inputs, map[string]interface{}{"schema": s, "selects": sel, "omits": om, "requireCreate": rc, "requireUpdate": ru})
				r.H("c10.sao.restricted", fmt.Sprint(restricted))
			}
		}
		outs, err := AskLean(ops)
		if err != nil {
			r.Violate(Violation{Kind: "correspondence", Suite: "sao", Note: err.Error()})
			return
		}
		for i := range ops {
			got := canonRaw(outs[i])
			if suites[i] == "sao" {
				var m struct {
					R          [][]interface{} `json:"r"`
					Restricted bool            `json:"restricted"`
				}
				_ = json.Unmarshal(outs[i], &m)
				sort.Slice(m.R, func(a, b int) bool { return fmt.Sprint(m.R[a][0]) < fmt.Sprint(m.R[b][0]) })
				if m.R == nil {
					m.R = [][]interface{}{}
				}
				got = canon(map[string]interface{}{"r": m.R, "restricted": m.Restricted})
			}
			r.CorrCompared++
			in := inputs[i]
			nontrivial := true
			if suites[i] == "sao" {
				mm := in.(map[string]interface{})
				nontrivial = c10Restricted(mm["schema"].(c10Sch)) && len(mm["selects"].([]string))+len(mm["omits"].([]string)) > 0
			}
			r.Case(suites[i], canon(ops[i][1:]), nontrivial)
			if got != reals[i] {
				r.Violate(Violation{Kind: "correspondence", Suite: suites[i], Input: in, Observed: reals[i], Expected: got,
					Note: "real gorm (observed) vs Lean model (expected): " + fmt.Sprint(ops[i][0])})
			}
		}
	})

	// correspondence 3: write set per write path vs the real DryRun statement
	register("C10", func(r *Result, rng *rand.Rand, tier string) {
		n := 2500
		if tier == "thorough" {
			n = 120000
		} else if tier == "search" {
			n = 400
		}
		t0 := time.Now()
		defer func() { r.Note("c10 stmt: n=%d took %.1fs", n, time.Since(t0).Seconds()) }()
		db := c10OpenDry()
		var ops [][]interface{}
		type pend struct {
			c     *c10Case
			real  c10Obs
			first int
			cnt   int
			err   string
		}
		var pends []pend
		for i := 0; i < n && !expired(); i++ {
			if i%400 == 399 {
				db = c10OpenDry()
			}
			c, sch, typ := genC10Case(rng, db, i%3 != 0, r)
			var tx *gorm.DB
			func() {
				defer func() {
					if p := recover(); p != nil { // the unchanged tree does not panic on any generated DryRun statement
						r.Violate(Violation{Kind: "correspondence", Suite: "stmt", Input: c, Observed: fmt.Sprint("panic: ", p), Note: "gorm panicked while building the DryRun statement"})
					}
				}()
				tx = c10Exec(db, typ, c, nil)
			}()
			if tx == nil {
				continue
			}
			obs := c10Observe(tx)
			if c.Path == "create_maps" {
				sort.Strings(obs.Insert)
			}
			lops := c10LeanOps(c10Export(sch), c)
			pends = append(pends, pend{c: c, real: obs, first: len(ops), cnt: len(lops), err: fmt.Sprint(tx.Error)})
			ops = append(ops, lops...)
			r.H("c10.stmt.path", c.Path)
			r.H("c10.stmt.real-kind", obs.Kind)
			r.H("c10.stmt.set-size", fmt.Sprint(len(obs.Set)+len(obs.Insert)))
			if i%311 == 0 {
				r.Sample(map[string]interface{}{"suite": "stmt", "input": c, "real": obs, "sql": tx.Statement.SQL.String()})
			}
		}
		outs, err := AskLean(ops)
		if err != nil {
			r.Violate(Violation{Kind: "correspondence", Suite: "stmt", Note: err.Error()})
			return
		}
		for _, p := range pends {
			want, branch := c10Expected(p.c, outs[p.first:p.first+p.cnt])
			r.H("c10.stmt.model-branch", branch)
			r.CorrCompared++
			r.Case("stmt", canon(p.c), c10Restricted(p.c.Schema) && len(p.c.Selects)+len(p.c.Omits) > 0)
			if canon(want) != canon(p.real) {
				r.Violate(Violation{Kind: "correspondence", Suite: "stmt", Input: p.c, Observed: p.real, Expected: want,
					Note: "column lists of the real DryRun statement (observed) vs Lean write set (expected); gorm error: " + p.err})
			}
		}
	})
}
