package main

// C10, round 5 — FIELD KINDS of the written models.
//
// "Updates with a struct writes its non-zero fields": whether a field is zero is decided by schema.Field.ValueOf, which
// has separate code per way a field is reached / stored (plain index, index path through value- and pointer-embedded
// structs, serializer wrapper) and relies on reflect.IsZero per Go kind.  The other C10 suites only generate
// int / uint / string / int64 / time.Time fields; this file generates models over a ZOO of kinds:
//   bool, float64, *int, *string, *time.Time, time.Time, []byte, sql.NullString, sql.NullInt64, named string / int types,
//   driver.Valuer+sql.Scanner types of struct, slice and array kind, serializer:json on []string / map / struct / *struct,
//   serializer:gob, serializer:unixtime, a type that is its own schema.SerializerInterface, value-embedded and
//   POINTER-embedded structs (with prefix) — each with its zero value and with non-zero values that LOOK empty
//   (pointer to 0 / "", []byte{}, empty non-nil slices and maps, sql.Null*{Valid:true} with a zero payload,
//   sql.NullString{String:"x", Valid:false}, [2]int{0,1}).
//
// Suites:
//   zero        (correspondence) Lean FieldZero.valueOfZero on the generic projection of the record (reflect value ->
//               GoVal) with the REAL field.StructField.Index / Serializer flag vs the zero flag of the real
//               field.ValueOf(ctx, reflect.ValueOf(record)), for every field of every generated record;
//   stmt-kinds  (correspondence) Lean structSetOfRecord / createColumnsOfRecords / saveOfRecord vs the SET / INSERT /
//               WHERE-key lists of the real DryRun statement;
//   kinds-diff  (e2e, model-free) a 3-row SQLite table whose every column holds data is dumped before / after ONE real
//               write (Create, Create(slice), Updates(struct), Updates(&self), Updates(struct) without Model,
//               UpdateColumns(struct), Updates(map), UpdateColumns(map), Update, Save, upsert UpdateAll, upsert
//               DoUpdates) and the WHOLE table is compared cell by cell:
//                 * rows other than the targeted one never change;
//                 * a column whose tag denies the kind of write never changes (update) / is NULL in a created row;
//                 * struct update: a column is written iff it is permitted, not omitted and (selected, or — without a
//                   restricting Select — its Go value is non-zero); written = the cell holds the given value in the
//                   documented encoding of its kind; not written = the cell is byte-identical to before;
//                 * map update / Update: exactly the given keys (zero values, nil, empty-but-non-nil included);
//                 * Save: every permitted, not omitted field, zero or not.
//               What "zero" means is the Go language's zero value of the field's type (Zero flag of the variant
//               table below) — independent of gorm.  Latitude: cells of ZERO-valued fields in created / upserted rows
//               may hold the zero value's encoding or NULL (C03's business); when the write returns an error only the
//               "never changes" demands are judged.

import (
	"bytes"
	"context"
	"database/sql"
	"database/sql/driver"
	"encoding/gob"
	"encoding/json"
	"fmt"
	"math"
	"math/rand"
	"reflect"
	"sort"
	"strconv"
	"strings"
	"time"

	"gorm.io/gorm"
	"gorm.io/gorm/clause"
	"gorm.io/gorm/schema"
)

// ---- the kinds ---------------------------------------------------------------------------------------------

type c10ZStr string
type c10ZInt int64

type c10ZPoint struct{ X, Y int }

func (p c10ZPoint) Value() (driver.Value, error) { return fmt.Sprintf("%d,%d", p.X, p.Y), nil }
func (p *c10ZPoint) Scan(v interface{}) error {
	_, err := fmt.Sscanf(c10Norm(v), "%d,%d", &p.X, &p.Y)
	return err
}

type c10ZStrs []string

func (s c10ZStrs) Value() (driver.Value, error) {
	if s == nil {
		return nil, nil
	}
	return strings.Join(s, "|"), nil
}
func (s *c10ZStrs) Scan(v interface{}) error {
	if v == nil {
		*s = nil
		return nil
	}
	*s = c10ZStrs{}
	if t := c10Norm(v); t != "" {
		*s = strings.Split(t, "|")
	}
	return nil
}

type c10ZArr [2]int

func (a c10ZArr) Value() (driver.Value, error) { return fmt.Sprintf("%d;%d", a[0], a[1]), nil }
func (a *c10ZArr) Scan(v interface{}) error {
	_, err := fmt.Sscanf(c10Norm(v), "%d;%d", &a[0], &a[1])
	return err
}

type c10ZDoc struct {
	A int
	B string
}

// c10ZEnc is its own serializer (schema.SerializerInterface on the pointer): stored as "enc:"+S
type c10ZEnc struct{ S string }

func (e *c10ZEnc) Scan(ctx context.Context, field *schema.Field, dst reflect.Value, dbValue interface{}) error {
	e.S = strings.TrimPrefix(c10Norm(dbValue), "enc:")
	return nil
}
func (e c10ZEnc) Value(ctx context.Context, field *schema.Field, dst reflect.Value, fieldValue interface{}) (interface{}, error) {
	switch x := fieldValue.(type) {
	case c10ZEnc:
		return "enc:" + x.S, nil
	case *c10ZEnc:
		if x != nil {
			return "enc:" + x.S, nil
		}
	}
	return "enc:", nil
}

// c10ZVar: one value of a kind.  Zero = it is the zero value of the Go type (language spec).  Drv = the driver value
// of the cell a write of this value stores (documented encoding of the kind: Valuer result, JSON text, gob bytes, …);
// MapVal = what a map update hands over for this variant (nil: the Go value itself).
type c10ZVar struct {
	Label  string
	Zero   bool
	V      interface{}
	Drv    interface{}
	MapVal interface{}
}

type c10ZKind struct {
	Name string
	Typ  reflect.Type
	Tag  string
	SQL  string
	Vars []c10ZVar // Vars[0] is the zero value; the LAST one seeds the table
}

func c10Gob(v interface{}) []byte {
	buf := new(bytes.Buffer)
	if err := gob.NewEncoder(buf).Encode(v); err != nil {
		panic(err)
	}
	return buf.Bytes()
}

func c10PInt(n int) *int          { return &n }
func c10PStr(s string) *string    { return &s }
func c10PTime(t time.Time) *time.Time { return &t }

var c10ZT2 = time.Date(2011, 12, 13, 14, 15, 16, 0, time.UTC)

var c10ZKinds = func() []c10ZKind {
	ks := []c10ZKind{
		{Name: "int", Typ: reflect.TypeOf(int(0)), SQL: "integer", Vars: []c10ZVar{{"0", true, int(0), int64(0), nil}, {"7", false, int(7), int64(7), nil}, {"-1", false, int(-1), int64(-1), nil}}},
		{Name: "str", Typ: reflect.TypeOf(""), SQL: "text", Vars: []c10ZVar{{"empty", true, "", "", nil}, {"space", false, " ", " ", nil}, {"w", false, "w", "w", nil}}},
		{Name: "bool", Typ: reflect.TypeOf(false), SQL: "integer", Vars: []c10ZVar{{"false", true, false, int64(0), nil}, {"true", false, true, int64(1), nil}}},
		{Name: "f64", Typ: reflect.TypeOf(float64(0)), SQL: "real", Vars: []c10ZVar{{"0", true, float64(0), float64(0), nil}, {"tiny", false, 5e-324, 5e-324, nil}, {"1.5", false, 1.5, 1.5, nil}}},
		{Name: "u8", Typ: reflect.TypeOf(uint8(0)), SQL: "integer", Vars: []c10ZVar{{"0", true, uint8(0), int64(0), nil}, {"200", false, uint8(200), int64(200), nil}}},
		{Name: "pint", Typ: reflect.TypeOf((*int)(nil)), SQL: "integer", Vars: []c10ZVar{{"nil", true, (*int)(nil), nil, nil}, {"&0", false, c10PInt(0), int64(0), nil}, {"&5", false, c10PInt(5), int64(5), nil}}},
		{Name: "pstr", Typ: reflect.TypeOf((*string)(nil)), SQL: "text", Vars: []c10ZVar{{"nil", true, (*string)(nil), nil, nil}, {"&empty", false, c10PStr(""), "", nil}, {"&x", false, c10PStr("x"), "x", nil}}},
		{Name: "time", Typ: reflect.TypeOf(time.Time{}), SQL: "datetime", Vars: []c10ZVar{{"zero", true, time.Time{}, time.Time{}, nil}, {"t2", false, c10ZT2, c10ZT2, nil}, {"t", false, c10GivenTime, c10GivenTime, nil}}},
		{Name: "ptime", Typ: reflect.TypeOf((*time.Time)(nil)), SQL: "datetime", Vars: []c10ZVar{{"nil", true, (*time.Time)(nil), nil, nil}, {"&zero", false, c10PTime(time.Time{}), time.Time{}, nil}, {"&t", false, c10PTime(c10GivenTime), c10GivenTime, nil}}},
		{Name: "bytes", Typ: reflect.TypeOf([]byte(nil)), SQL: "blob", Vars: []c10ZVar{{"nil", true, []byte(nil), nil, nil}, {"empty", false, []byte{}, []byte{}, nil}, {"ab", false, []byte("ab"), []byte("ab"), nil}}},
		{Name: "nstr", Typ: reflect.TypeOf(sql.NullString{}), SQL: "text", Vars: []c10ZVar{{"zero", true, sql.NullString{}, nil, nil},
			{"valid-empty", false, sql.NullString{Valid: true}, "", nil}, {"invalid-x", false, sql.NullString{String: "x"}, nil, nil}, {"x", false, sql.NullString{String: "x", Valid: true}, "x", nil}}},
		{Name: "nint", Typ: reflect.TypeOf(sql.NullInt64{}), SQL: "integer", Vars: []c10ZVar{{"zero", true, sql.NullInt64{}, nil, nil},
			{"valid-0", false, sql.NullInt64{Valid: true}, int64(0), nil}, {"5", false, sql.NullInt64{Int64: 5, Valid: true}, int64(5), nil}}},
		{Name: "named-str", Typ: reflect.TypeOf(c10ZStr("")), SQL: "text", Vars: []c10ZVar{{"empty", true, c10ZStr(""), "", nil}, {"n", false, c10ZStr("n"), "n", nil}}},
		{Name: "named-int", Typ: reflect.TypeOf(c10ZInt(0)), SQL: "integer", Vars: []c10ZVar{{"0", true, c10ZInt(0), int64(0), nil}, {"9", false, c10ZInt(9), int64(9), nil}}},
		{Name: "valuer-struct", Typ: reflect.TypeOf(c10ZPoint{}), SQL: "text", Vars: []c10ZVar{{"zero", true, c10ZPoint{}, "0,0", nil}, {"0,3", false, c10ZPoint{0, 3}, "0,3", nil}, {"1,2", false, c10ZPoint{1, 2}, "1,2", nil}}},
		{Name: "valuer-slice", Typ: reflect.TypeOf(c10ZStrs(nil)), Tag: "type:text", SQL: "text", Vars: []c10ZVar{{"nil", true, c10ZStrs(nil), nil, nil}, {"empty", false, c10ZStrs{}, "", nil}, {"a|b", false, c10ZStrs{"a", "b"}, "a|b", nil}}},
		{Name: "valuer-array", Typ: reflect.TypeOf(c10ZArr{}), SQL: "text", Vars: []c10ZVar{{"zero", true, c10ZArr{}, "0;0", nil}, {"0;1", false, c10ZArr{0, 1}, "0;1", nil}, {"4;0", false, c10ZArr{4, 0}, "4;0", nil}}},
		{Name: "json-slice", Typ: reflect.TypeOf([]string(nil)), Tag: "serializer:json", SQL: "text", Vars: []c10ZVar{{"nil", true, []string(nil), nil, nil},
			{"empty", false, []string{}, "[]", "[]"}, {"a", false, []string{"a"}, `["a"]`, `["a"]`}}},
		{Name: "json-map", Typ: reflect.TypeOf(map[string]string(nil)), Tag: "serializer:json", SQL: "text", Vars: []c10ZVar{{"nil", true, map[string]string(nil), nil, nil},
			{"empty", false, map[string]string{}, "{}", "{}"}, {"kv", false, map[string]string{"k": "v"}, `{"k":"v"}`, `{"k":"v"}`}}},
		{Name: "json-struct", Typ: reflect.TypeOf(c10ZDoc{}), Tag: "serializer:json", SQL: "text", Vars: []c10ZVar{{"zero", true, c10ZDoc{}, `{"A":0,"B":""}`, `{"A":0,"B":""}`},
			{"b", false, c10ZDoc{B: "b"}, `{"A":0,"B":"b"}`, `{"A":0,"B":"b"}`}, {"1b", false, c10ZDoc{1, "b"}, `{"A":1,"B":"b"}`, `{"A":1,"B":"b"}`}}},
		{Name: "json-ptr", Typ: reflect.TypeOf((*c10ZDoc)(nil)), Tag: "serializer:json", SQL: "text", Vars: []c10ZVar{{"nil", true, (*c10ZDoc)(nil), nil, nil},
			{"&zero", false, &c10ZDoc{}, `{"A":0,"B":""}`, `{"A":0,"B":""}`}, {"&2c", false, &c10ZDoc{2, "c"}, `{"A":2,"B":"c"}`, `{"A":2,"B":"c"}`}}},
		{Name: "gob-slice", Typ: reflect.TypeOf([]string(nil)), Tag: "serializer:gob", SQL: "blob", Vars: []c10ZVar{{"nil", true, []string(nil), c10Gob([]string(nil)), c10Gob([]string(nil))},
			{"empty", false, []string{}, c10Gob([]string{}), c10Gob([]string{})}, {"g", false, []string{"g"}, c10Gob([]string{"g"}), c10Gob([]string{"g"})}}},
		{Name: "unixtime", Typ: reflect.TypeOf(int64(0)), Tag: "serializer:unixtime;type:datetime", SQL: "datetime", Vars: []c10ZVar{{"0", true, int64(0), time.Unix(0, 0).UTC(), time.Unix(0, 0).UTC()},
			{"1000", false, int64(1000), time.Unix(1000, 0).UTC(), time.Unix(1000, 0).UTC()}}},
		{Name: "self-serializer", Typ: reflect.TypeOf(c10ZEnc{}), SQL: "text", Vars: []c10ZVar{{"zero", true, c10ZEnc{}, "enc:", "enc:"}, {"q", false, c10ZEnc{"q"}, "enc:q", "enc:q"}}},
	}
	return ks
}()

func c10ZKindOf(name string) *c10ZKind {
	for i := range c10ZKinds {
		if c10ZKinds[i].Name == name {
			return &c10ZKinds[i]
		}
	}
	panic("unknown kind " + name)
}

// ---- schemas -------------------------------------------------------------------------------------------------

const c10ZTable = c10Table // the DryRun helpers (c10Chain / c10Observe / c10Export) are keyed on this name

type c10ZF struct {
	Name  string `json:"name"`
	Kind  string `json:"kind"`
	Perm  string `json:"perm,omitempty"`
	Def   string `json:"def,omitempty"` // "" | "default:null" | "default:(lower('x'))": a DB default — Create leaves the column out when the Go value is ZERO
	Embed string `json:"embed,omitempty"` // "" | "Meta:m_" value-embedded with prefix | "*Meta:m_" pointer-embedded
}

type c10ZSch struct {
	Fields []c10ZF `json:"fields"` // Fields[0] is the key `ID uint`
}

func (f c10ZF) tag() string { return c10Join(f.Perm, c10ZKindOf(f.Kind).Tag, f.Def) }

func (s c10ZSch) Type() reflect.Type {
	mk := func(f c10ZF) reflect.StructField {
		sf := reflect.StructField{Name: f.Name, Type: c10ZKindOf(f.Kind).Typ}
		if f.Name == "ID" {
			sf.Type = reflect.TypeOf(uint(0))
			sf.Tag = `gorm:"primaryKey"`
			return sf
		}
		if t := f.tag(); t != "" {
			sf.Tag = reflect.StructTag(`gorm:"` + t + `"`)
		}
		return sf
	}
	fs := []reflect.StructField{}
	for i := 0; i < len(s.Fields); {
		f := s.Fields[i]
		if f.Embed == "" {
			fs = append(fs, mk(f))
			i++
			continue
		}
		inner := []reflect.StructField{}
		j := i
		for ; j < len(s.Fields) && s.Fields[j].Embed == f.Embed; j++ {
			inner = append(inner, mk(s.Fields[j]))
		}
		name := strings.TrimPrefix(f.Embed, "*")
		prefix := ""
		if k := strings.Index(name, ":"); k >= 0 {
			name, prefix = name[:k], name[k+1:]
		}
		tag := "embedded"
		if prefix != "" {
			tag += ";embeddedPrefix:" + prefix
		}
		typ := reflect.StructOf(inner)
		if strings.HasPrefix(f.Embed, "*") {
			typ = reflect.PtrTo(typ)
		}
		fs = append(fs, reflect.StructField{Name: name, Type: typ, Tag: reflect.StructTag(`gorm:"` + tag + `"`)})
		i = j
	}
	return reflect.StructOf(fs)
}

// column name as the documented naming strategy gives it (snake case of the Go name, embeddedPrefix in front)
func (s c10ZSch) col(i int) string {
	f := s.Fields[i]
	c := schema.NamingStrategy{}.ColumnName("", f.Name)
	if k := strings.Index(f.Embed, ":"); k >= 0 {
		c = f.Embed[k+1:] + c
	}
	return c
}

var c10ZDataNames = []string{"Alpha", "Beta", "Gamma", "Delta", "Eps", "Zeta", "Eta", "Theta", "Iota", "Kappa"}
var c10ZPerms = []string{"", "", "", "", "", "", "<-:create", "<-:update", "<-:false", "->", "-", "<-"}

func genC10KSch(rng *rand.Rand) c10ZSch {
	s := c10ZSch{Fields: []c10ZF{{Name: "ID", Kind: "int"}}}
	names := append([]string{}, c10ZDataNames...)
	rng.Shuffle(len(names), func(i, j int) { names[i], names[j] = names[j], names[i] })
	n := 3 + rng.Intn(5)
	for i := 0; i < n; i++ {
		k := c10ZKinds[rng.Intn(len(c10ZKinds))]
		f := c10ZF{Name: names[i], Kind: k.Name, Perm: c10ZPerms[rng.Intn(len(c10ZPerms))]}
		if rng.Intn(7) == 0 && f.Perm != "-" {
			f.Def = []string{"default:null", "default:(lower('x'))"}[rng.Intn(2)]
		}
		s.Fields = append(s.Fields, f)
	}
	if rng.Intn(2) == 0 { // a run of data fields lives in an embedded struct (value or pointer)
		a := 1 + rng.Intn(n)
		b := a + 1 + rng.Intn(3)
		if b > len(s.Fields) {
			b = len(s.Fields)
		}
		embed := []string{"Meta:m_", "*Meta:m_", "*Part:", "Part:p_"}[rng.Intn(4)]
		for i := a; i < b; i++ {
			s.Fields[i].Embed = embed
		}
	}
	return s
}

// c10ZRow: variant index per field name (absent = variant 0 = the zero value); NilEmbed = the pointer to the
// pointer-embedded struct is nil (then every field inside is zero)
type c10ZRow struct {
	ID       int            `json:"id"`
	Vals     map[string]int `json:"vals"`
	NilEmbed bool           `json:"nil_embed,omitempty"`
}

func (s c10ZSch) hasPtrEmbed() bool {
	for _, f := range s.Fields {
		if strings.HasPrefix(f.Embed, "*") {
			return true
		}
	}
	return false
}

func (s c10ZSch) variant(row c10ZRow, i int) c10ZVar {
	f := s.Fields[i]
	k := c10ZKindOf(f.Kind)
	if row.NilEmbed && strings.HasPrefix(f.Embed, "*") {
		return k.Vars[0]
	}
	return k.Vars[row.Vals[f.Name]%len(k.Vars)]
}

func (s c10ZSch) build(typ reflect.Type, row c10ZRow) reflect.Value {
	p := reflect.New(typ)
	e := p.Elem()
	top := -1
	for i := 0; i < len(s.Fields); i++ {
		f := s.Fields[i]
		if f.Embed == "" || i == 0 || s.Fields[i-1].Embed != f.Embed {
			top++
		}
		var fv reflect.Value
		if f.Embed == "" {
			fv = e.Field(top)
		} else {
			holder := e.Field(top)
			if holder.Kind() == reflect.Ptr {
				if row.NilEmbed {
					continue
				}
				if holder.IsNil() {
					holder.Set(reflect.New(holder.Type().Elem()))
				}
				holder = holder.Elem()
			}
			fv = holder.FieldByName(f.Name)
		}
		if i == 0 {
			fv.SetUint(uint64(row.ID))
			continue
		}
		v := reflect.ValueOf(s.variant(row, i).V)
		if v.IsValid() {
			fv.Set(v)
		}
	}
	return p
}

func genC10KRow(rng *rand.Rand, s c10ZSch, id int, pNonZero int) c10ZRow {
	row := c10ZRow{ID: id, Vals: map[string]int{}}
	for i, f := range s.Fields {
		if i == 0 {
			continue
		}
		if rng.Intn(100) < pNonZero {
			row.Vals[f.Name] = 1 + rng.Intn(len(c10ZKindOf(f.Kind).Vars)-1)
		}
	}
	if s.hasPtrEmbed() && rng.Intn(4) == 0 {
		row.NilEmbed = true
	}
	return row
}

type c10ZCase struct {
	Schema    c10ZSch         `json:"schema"`
	Path      string          `json:"path"`
	Selects   []string        `json:"selects"`
	Omits     []string        `json:"omits"`
	Rows      []c10ZRow       `json:"rows"`
	Key       int             `json:"key"` // row targeted through Model(&T{ID: key}) / Where
	Map       [][]interface{} `json:"map"` // [key as spelled, field name, variant] (variant -1 = nil)
	DoUpdates []string        `json:"do_updates,omitempty"`
}

var c10ZPaths = []string{"upd_struct", "upd_struct", "upd_struct", "updcols_struct", "upd_self", "upd_nomodel", "save", "save", "create", "create_slice",
	"upsert_all", "upsert_cols", "upd_map", "updcols_map", "update1"}

func genC10KCase(rng *rand.Rand, r *Result) *c10ZCase {
	s := genC10KSch(rng)
	c := &c10ZCase{Schema: s, Path: c10ZPaths[rng.Intn(len(c10ZPaths))], Key: 1 + rng.Intn(3)}
	pick := func(max int, star bool) []string {
		out := []string{}
		for i, n := 0, rng.Intn(max+1); i < n; i++ {
			j := 1 + rng.Intn(len(s.Fields)-1)
			switch {
			case star && rng.Intn(8) == 0:
				out = append(out, "*")
			case rng.Intn(2) == 0 || s.Fields[j].Perm == "-":
				out = append(out, s.Fields[j].Name)
			default:
				out = append(out, s.col(j))
			}
		}
		if len(out) == 0 {
			return nil
		}
		return out
	}
	if rng.Intn(3) == 0 {
		c.Selects = pick(3, true)
	}
	if rng.Intn(4) == 0 {
		c.Omits = pick(2, false)
	}
	switch c.Path {
	case "create":
		c.Rows = []c10ZRow{genC10KRow(rng, s, 101, 55)}
	case "create_slice":
		c.Rows = []c10ZRow{genC10KRow(rng, s, 101, 55), genC10KRow(rng, s, 102, 55)}
	case "upsert_all", "upsert_cols":
		c.Rows = []c10ZRow{genC10KRow(rng, s, c.Key, 55)}
		if c.Path == "upsert_cols" {
			c.Selects, c.Omits = nil, nil
			for i, f := range s.Fields[1:] {
				if (f.Perm == "" || f.Perm == "<-") && f.Def == "" && rng.Intn(2) == 0 {
					c.DoUpdates = append(c.DoUpdates, s.col(i+1))
				}
			}
			if len(c.DoUpdates) == 0 {
				c.Path = "upsert_all"
			}
		}
		if c.Path == "upsert_all" { // keep the key in the INSERT so that the conflict really happens
			if len(c.Selects) > 0 && !c10Has(c.Selects, "*") {
				c.Selects = append(c.Selects, "id")
			}
		}
	case "upd_self", "save":
		c.Rows = []c10ZRow{genC10KRow(rng, s, c.Key, 45)}
	default:
		c.Rows = []c10ZRow{genC10KRow(rng, s, 0, 45)}
	}
	if strings.HasPrefix(c.Path, "create") && len(c.Selects) > 0 && !c10Has(c.Selects, "*") {
		c.Selects = append(c.Selects, "ID") // keep the given key in the INSERT: created rows are found by it
	}
	if strings.HasSuffix(c.Path, "_map") || c.Path == "update1" {
		used := map[string]bool{}
		n := 1 + rng.Intn(3)
		if c.Path == "update1" {
			n = 1
		}
		for t := 0; len(c.Map) < n && t < 20; t++ {
			j := 1 + rng.Intn(len(s.Fields)-1)
			f := s.Fields[j]
			if used[f.Name] {
				continue
			}
			used[f.Name] = true
			key := s.col(j)
			if rng.Intn(2) == 0 || f.Perm == "-" { // an ignored field has no column: its snake-case name would be a RAW column name for gorm
				key = f.Name
			}
			vi := rng.Intn(len(c10ZKindOf(f.Kind).Vars))
			if rng.Intn(6) == 0 {
				vi = -1
			}
			c.Map = append(c.Map, []interface{}{key, f.Name, vi})
		}
	}
	if r != nil {
		r.H("c10.kinds.path", c.Path)
		for i, f := range s.Fields[1:] {
			for _, row := range c.Rows {
				v := s.variant(row, i+1)
				z := "non-zero"
				if v.Zero {
					z = "zero"
				}
				r.H("c10.kinds.kind-value", f.Kind+"/"+z)
			}
			e := "plain"
			if strings.HasPrefix(f.Embed, "*") {
				e = "ptr-embedded"
			} else if f.Embed != "" {
				e = "embedded"
			}
			r.H("c10.kinds.reach", e)
		}
	}
	return c
}

func (c *c10ZCase) mapValue() map[string]interface{} {
	m := map[string]interface{}{}
	for _, p := range c.Map {
		v, _, _ := c.mapEntry(p)
		m[fmt.Sprint(p[0])] = v
	}
	return m
}

// mapEntry: (value handed to gorm, driver value of the expected cell, field index)
func (c *c10ZCase) mapEntry(p []interface{}) (interface{}, interface{}, int) {
	name := fmt.Sprint(p[1])
	vi := c10Int(p[2])
	if s, ok := p[2].(string); ok {
		vi, _ = strconv.Atoi(s)
	}
	for i, f := range c.Schema.Fields {
		if f.Name != name {
			continue
		}
		if vi < 0 {
			return nil, nil, i
		}
		k := c10ZKindOf(f.Kind)
		v := k.Vars[vi%len(k.Vars)]
		if v.MapVal != nil {
			return v.MapVal, v.Drv, i
		}
		return v.V, v.Drv, i
	}
	panic("map entry names an unknown field")
}

// c10ZExec runs the write on db (DryRun or real)
func c10ZExec(db *gorm.DB, typ reflect.Type, c *c10ZCase) *gorm.DB {
	tx := c10Chain(db, c.Selects, c.Omits)
	s := c.Schema
	row := func(i int) reflect.Value { return s.build(typ, c.Rows[i]) }
	model := func() interface{} { return s.build(typ, c10ZRow{ID: c.Key}).Interface() }
	slice := func() interface{} {
		sl := reflect.New(reflect.SliceOf(typ))
		for i := range c.Rows {
			sl.Elem().Set(reflect.Append(sl.Elem(), row(i).Elem()))
		}
		return sl.Interface()
	}
	switch c.Path {
	case "upd_struct":
		return tx.Model(model()).Updates(row(0).Elem().Interface())
	case "updcols_struct":
		return tx.Model(model()).UpdateColumns(row(0).Elem().Interface())
	case "upd_self":
		p := row(0).Interface()
		return tx.Model(p).Updates(p)
	case "upd_nomodel":
		return tx.Where("`id` = ?", c.Key).Updates(row(0).Elem().Interface())
	case "save":
		return tx.Save(row(0).Interface())
	case "create":
		return tx.Create(row(0).Interface())
	case "create_slice":
		return tx.Create(slice())
	case "upsert_all":
		return tx.Clauses(clause.OnConflict{UpdateAll: true}).Create(row(0).Interface())
	case "upsert_cols":
		return tx.Clauses(clause.OnConflict{Columns: []clause.Column{{Name: "id"}}, DoUpdates: clause.AssignmentColumns(c.DoUpdates)}).Create(row(0).Interface())
	case "upd_map":
		return tx.Model(model()).Updates(c.mapValue())
	case "updcols_map":
		return tx.Model(model()).UpdateColumns(c.mapValue())
	case "update1":
		for k, v := range c.mapValue() {
			return tx.Model(model()).Update(k, v)
		}
	}
	panic("unknown path " + c.Path)
}

// ---- reflect value -> Lean GoVal (generic projection, no knowledge of gorm) -----------------------------------

func c10ZGoVal(v reflect.Value, depth int) []interface{} {
	switch v.Kind() {
	case reflect.Int, reflect.Int8, reflect.Int16, reflect.Int32, reflect.Int64:
		return []interface{}{"int", v.Int()}
	case reflect.Uint, reflect.Uint8, reflect.Uint16, reflect.Uint32, reflect.Uint64, reflect.Uintptr:
		return []interface{}{"uint", v.Uint()}
	case reflect.String:
		return []interface{}{"str", v.String()}
	case reflect.Bool:
		return []interface{}{"bool", v.Bool()}
	case reflect.Float32, reflect.Float64:
		return []interface{}{"float", strconv.FormatUint(math.Float64bits(v.Float()), 10)}
	case reflect.Ptr:
		if v.IsNil() {
			return []interface{}{"nilptr"}
		}
		if depth > 4 || v.Type().Elem().PkgPath() == "time" {
			return []interface{}{"ptr", []interface{}{"struct", []interface{}{}}}
		}
		return []interface{}{"ptr", c10ZGoVal(v.Elem(), depth+1)}
	case reflect.Slice:
		if v.IsNil() {
			return []interface{}{"nilslice"}
		}
		return []interface{}{"slice", v.Len()}
	case reflect.Map:
		if v.IsNil() {
			return []interface{}{"nilmap"}
		}
		return []interface{}{"map", v.Len()}
	case reflect.Interface, reflect.Func, reflect.Chan:
		if v.IsNil() {
			return []interface{}{"niliface"}
		}
		return []interface{}{"iface"}
	case reflect.Array:
		xs := []interface{}{}
		for i := 0; i < v.Len(); i++ {
			xs = append(xs, c10ZGoVal(v.Index(i), depth+1))
		}
		return []interface{}{"array", xs}
	case reflect.Struct:
		xs := []interface{}{}
		for i := 0; i < v.NumField(); i++ {
			xs = append(xs, c10ZGoVal(v.Field(i), depth+1))
		}
		return []interface{}{"struct", xs}
	}
	return []interface{}{"niliface"}
}

// c10ZAccesses: how the REAL parsed schema reaches each field
func c10ZAccesses(sch *schema.Schema) []interface{} {
	out := []interface{}{}
	for _, f := range sch.Fields {
		idx := []int{}
		idx = append(idx, f.StructField.Index...)
		out = append(out, []interface{}{f.Name, idx, f.Serializer != nil})
	}
	return out
}

func c10ZParse(db *gorm.DB, s c10ZSch) (*schema.Schema, reflect.Type, error) {
	typ := s.Type()
	stmt := &gorm.Statement{DB: db, Table: c10ZTable}
	if err := stmt.Parse(reflect.New(typ).Interface()); err != nil {
		return nil, typ, err
	}
	return stmt.Schema, typ, nil
}

// ---- e2e: whole-table diff ----------------------------------------------------------------------------------

func c10ZSetup(s c10ZSch) (*gorm.DB, *sql.DB) {
	db, _, sqlDB := OpenRec(&gorm.Config{NowFunc: fixedNowFunc})
	defs := []string{"`id` integer primary key"}
	for i, f := range s.Fields[1:] {
		defs = append(defs, "`"+s.col(i+1)+"` "+c10ZKindOf(f.Kind).SQL)
	}
	defs = append(defs, "k_ integer") // stable row identity for the dump (a write may legitimately re-key a row)
	if _, err := sqlDB.Exec("CREATE TABLE " + c10ZTable + " (" + strings.Join(defs, ", ") + ")"); err != nil {
		panic(fmt.Sprint(err, defs))
	}
	for k := 1; k <= 3; k++ {
		cols, ph, args := []string{"`id`", "k_"}, []string{"?", "?"}, []interface{}{k, k}
		for i, f := range s.Fields[1:] {
			vars := c10ZKindOf(f.Kind).Vars
			cols, ph, args = append(cols, "`"+s.col(i+1)+"`"), append(ph, "?"), append(args, vars[len(vars)-1].Drv)
		}
		if _, err := sqlDB.Exec("INSERT INTO "+c10ZTable+" ("+strings.Join(cols, ",")+") VALUES ("+strings.Join(ph, ",")+")", args...); err != nil {
			panic(err)
		}
	}
	return db, sqlDB
}

// c10ZDump: existing rows by k_ (1..3); rows created by the write (k_ NULL) by 1000 + id
func c10ZDump(sqlDB *sql.DB) map[int]map[string]string {
	out := map[int]map[string]string{}
	rows, err := sqlDB.Query("SELECT * FROM " + c10ZTable + " ORDER BY `id`")
	if err != nil {
		panic(err)
	}
	defer rows.Close()
	cols, _ := rows.Columns()
	for rows.Next() {
		vals := make([]interface{}, len(cols))
		ptrs := make([]interface{}, len(cols))
		for i := range vals {
			ptrs[i] = &vals[i]
		}
		if err := rows.Scan(ptrs...); err != nil {
			panic(err)
		}
		m := map[string]string{}
		for i, c := range cols {
			m[c] = c10ZCell(vals[i])
		}
		var k int
		if m["k_"] == "<nil>" {
			fmt.Sscan(m["id"], &k)
			k += 1000
		} else {
			fmt.Sscan(m["k_"], &k)
		}
		out[k] = m
	}
	return out
}

// c10ZCell: normalised cell; NULL, empty text and empty blob stay distinguishable from each other only as far as SQLite
// hands them back ("<nil>" vs "")
func c10ZCell(v interface{}) string {
	switch x := v.(type) {
	case []byte:
		return "b:" + string(x)
	case string:
		return "b:" + x
	case float64:
		return strconv.FormatFloat(x, 'g', -1, 64)
	}
	return c10Norm(v)
}

func c10ZNamed(s c10ZSch, i int, list []string) bool {
	for _, n := range list {
		if n == s.Fields[i].Name || n == s.col(i) {
			return true
		}
	}
	return false
}

func c10ZDeny(perm string) (denyC, denyU bool) { return c10TagPerm(perm) }

func c10ZJudge(c *c10ZCase, r *Result) (verdict string, detail map[string]interface{}) {
	s := c.Schema
	db, sqlDB := c10ZSetup(s)
	defer sqlDB.Close()
	typ := s.Type()
	before := c10ZDump(sqlDB)
	defer func() {
		if p := recover(); p != nil {
			if r != nil {
				r.H("c10.kinds.gorm-panic", c.Path)
				r.Note("gorm panicked (not judged): kinds path=%s %v", c.Path, p)
			}
			verdict, detail = "", map[string]interface{}{"panic": fmt.Sprint(p)}
		}
	}()
	tx := c10ZExec(db, typ, c)
	after := c10ZDump(sqlDB)
	failed := tx.Error != nil
	detail = map[string]interface{}{"error": fmt.Sprint(tx.Error), "rows_affected": tx.RowsAffected}
	if r != nil {
		r.H("c10.kinds.error", fmt.Sprint(failed))
	}
	bad := func(format string, a ...interface{}) string { return fmt.Sprintf(format, a...) }
	selAll := c10Has(c.Selects, "*")
	restricting := len(c.Selects) > 0 && !selAll
	isCreate := c.Path == "create" || c.Path == "create_slice"
	isUpsert := c.Path == "upsert_all" || c.Path == "upsert_cols"
	isMap := strings.HasSuffix(c.Path, "_map") || c.Path == "update1"

	for k := 1; k <= 3; k++ {
		b, a := before[k], after[k]
		if a == nil {
			return bad("row %d disappeared", k), detail
		}
		targeted := k == c.Key && !isCreate
		for i := range s.Fields {
			col := s.col(i)
			if i == 0 {
				col = "id"
			}
			was, is := b[col], a[col]
			if !targeted {
				if was != is {
					return bad("row %d is not targeted but column %s changed %q -> %q", k, col, was, is), detail
				}
				continue
			}
			if i == 0 {
				// the key column: a struct value that is NOT the model carries ID = 0; it is written only when selected
				rekey := (c.Path == "upd_struct" || c.Path == "updcols_struct" || c.Path == "upd_nomodel") && !failed &&
					!c10ZNamed(s, 0, c.Omits) && (selAll || c10ZNamed(s, 0, c.Selects))
				if rekey && is != "0" {
					return bad("row %d: the key column is selected, expected the given value \"0\", found %q", k, is), detail
				}
				if !rekey && was != is {
					return bad("row %d: the key column is outside the write set but changed %q -> %q", k, was, is), detail
				}
				continue
			}
			f := s.Fields[i]
			denyC, denyU := c10ZDeny(f.Perm)
			if denyU || (isUpsert && denyC) {
				if was != is {
					return bad("row %d: column %s (kind %s) of a field denying the write (tag %q) changed %q -> %q", k, col, f.Kind, f.Perm, was, is), detail
				}
				continue
			}
			if failed || (c.Path == "upsert_all" && f.Def != "") { // UpdateAll leaves columns with a DB default alone or not: C03's business
				continue
			}
			omitted := c10ZNamed(s, i, c.Omits)
			selected := selAll || c10ZNamed(s, i, c.Selects)
			inSet := false
			var accept []string
			switch {
			case isMap:
				for _, p := range c.Map {
					_, drv, fi := c.mapEntry(p)
					if fi == i && !omitted && (!restricting || selected) {
						inSet, accept = true, []string{c10ZCell(drv)}
					}
				}
			case c.Path == "upsert_cols":
				v := s.variant(c.Rows[0], i)
				if c10Has(c.DoUpdates, col) {
					inSet, accept = true, []string{c10ZCell(v.Drv)}
					if v.Zero {
						accept = append(accept, "<nil>")
					}
				}
			default:
				v := s.variant(c.Rows[0], i)
				switch {
				case omitted:
				case c.Path == "save" || isUpsert:
					inSet = !restricting || selected
				case restricting || selAll:
					inSet = selected
				default:
					inSet = !v.Zero
				}
				accept = []string{c10ZCell(v.Drv)}
				if isUpsert && v.Zero {
					accept = append(accept, "<nil>") // latitude: zero-valued fields of created / upserted rows
				}
				if c.Rows[0].NilEmbed && strings.HasPrefix(f.Embed, "*") {
					accept = append(accept, "<nil>") // latitude: a selected field below a nil embedded pointer has no Go value; NULL or the zero value's encoding
				}
			}
			if inSet {
				if !c10Has(accept, is) {
					return bad("row %d: column %s (kind %s) is in the write set, expected %q, found %q (was %q)", k, col, f.Kind, accept, is, was), detail
				}
			} else if was != is {
				return bad("row %d: column %s (kind %s) is outside the write set but changed %q -> %q", k, col, f.Kind, was, is), detail
			}
		}
	}
	if isCreate && !failed {
		for _, row := range c.Rows {
			a := after[1000+row.ID]
			if a == nil {
				return bad("created row %d is missing", row.ID), detail
			}
			for i := 1; i < len(s.Fields); i++ {
				f, col := s.Fields[i], s.col(i)
				is := a[col]
				denyC, _ := c10ZDeny(f.Perm)
				omitted := c10ZNamed(s, i, c.Omits)
				selected := selAll || c10ZNamed(s, i, c.Selects)
				if denyC || omitted || (restricting && !selected) {
					if is != "<nil>" {
						return bad("created row %d: column %s (kind %s, tag %q) is denied / omitted / not selected but holds %q", row.ID, col, f.Kind, f.Perm, is), detail
					}
					continue
				}
				v := s.variant(row, i)
				if !v.Zero && is != c10ZCell(v.Drv) {
					return bad("created row %d: column %s (kind %s) expected the given value %q, found %q", row.ID, col, f.Kind, c10ZCell(v.Drv), is), detail
				}
			}
		}
	}
	if !isCreate && len(after) != len(before) && !failed {
		return bad("an update / upsert on an existing key changed the number of rows %d -> %d", len(before), len(after)), detail
	}
	return "", detail
}

func c10ZRun(r *Result, c *c10ZCase) {
	if verdict, detail := c10ZJudge(c, r); verdict != "" {
		r.Violate(Violation{Kind: "e2e", Suite: "kinds-diff", Input: c, Observed: detail, Expected: verdict,
			Note: "whole-table diff around one real write on a model over the field-kind zoo vs the write set the property predicts (zero = zero value of the Go type)"})
	}
}

func c10ZDecode(input json.RawMessage) (*c10ZCase, error) {
	var c c10ZCase
	dec := json.NewDecoder(strings.NewReader(string(input)))
	dec.UseNumber()
	err := dec.Decode(&c)
	return &c, err
}

func init() {
	// e2e
	register("C10", func(r *Result, rng *rand.Rand, tier string) {
		n := 1500
		if tier == "thorough" {
			n = 40000
		} else if tier == "search" {
			n = 3000
		}
		t0 := time.Now()
		defer func() { r.Note("c10 kinds-diff: n=%d took %.1fs", n, time.Since(t0).Seconds()) }()
		for i := 0; i < n && !expired(); i++ {
			c := genC10KCase(rng, r)
			r.Case("kinds-diff", canon(c), len(c.Selects)+len(c.Omits) > 0 || strings.Contains(c.Path, "struct") || c.Path == "upd_self")
			if i%499 == 0 {
				r.Sample(map[string]interface{}{"suite": "kinds-diff", "input": c})
			}
			c10ZRun(r, c)
		}
	})
	replayers["C10/kinds-diff"] = func(r *Result, input json.RawMessage) {
		c, err := c10ZDecode(input)
		if err != nil {
			r.Violate(Violation{Kind: "e2e", Suite: "kinds-diff", Note: "cannot decode replay input: " + err.Error()})
			return
		}
		c10ZRun(r, c)
	}

	// correspondence: zero flags and statement lists
	register("C10", func(r *Result, rng *rand.Rand, tier string) {
		n := 2000
		if tier == "thorough" {
			n = 60000
		} else if tier == "search" {
			n = 300
		}
		t0 := time.Now()
		defer func() { r.Note("c10 zero + stmt-kinds: n=%d took %.1fs", n, time.Since(t0).Seconds()) }()
		db := c10OpenDry()
		ctx := context.Background()
		type pend struct {
			suite string
			in    interface{}
			real  string
			first int
			c     *c10ZCase
		}
		var ops [][]interface{}
		var pends []pend
		for i := 0; i < n && !expired(); i++ {
			if i%400 == 399 {
				db = c10OpenDry()
			}
			c := genC10KCase(rng, nil)
			if i%7 == 0 { // the zero tie also sees -0.0 / NaN-free odd floats: a float field set to negative zero
				c.Path = "upd_struct"
			}
			sch, typ, err := c10ZParse(db, c.Schema)
			if err != nil {
				r.H("c10.kinds.parse-error", "1")
				continue
			}
			accs := c10ZAccesses(sch)
			exp := c10Export(sch)
			recs := []interface{}{}
			for ri, row := range c.Rows {
				rv := c.Schema.build(typ, row)
				if i%7 == 0 {
					c10ZNegZero(rv.Elem())
				}
				gv := c10ZGoVal(rv.Elem(), 0)
				recs = append(recs, gv)
				zs := []bool{}
				for _, f := range sch.Fields {
					_, z := f.ValueOf(ctx, rv)
					zs = append(zs, z)
					r.H("c10.zero.real", fmt.Sprintf("serializer=%v index=%d zero=%v", f.Serializer != nil, len(f.StructField.Index), z))
				}
				pends = append(pends, pend{suite: "zero", in: map[string]interface{}{"case": c, "row": ri}, real: canon(zs), first: len(ops)})
				ops = append(ops, []interface{}{"c10.kzero", accs, gv})
			}
			if i%7 == 0 {
				continue
			}
			sel, om := c.Selects, c.Omits
			if sel == nil {
				sel = []string{}
			}
			if om == nil {
				om = []string{}
			}
			var lop []interface{}
			modelNz := []string{"ID"}
			switch c.Path {
			case "upd_struct":
				lop = []interface{}{"c10.kstruct", exp, exp, sel, om, false, false, accs, recs[0], modelNz}
			case "updcols_struct":
				lop = []interface{}{"c10.kstruct", exp, exp, sel, om, false, true, accs, recs[0], modelNz}
			case "upd_self":
				lop = []interface{}{"c10.kstruct", exp, exp, sel, om, true, false, accs, recs[0], []string{}}
			case "upd_nomodel":
				lop = []interface{}{"c10.kstruct", exp, exp, sel, om, false, false, accs, recs[0], []string{}}
			case "save":
				lop = []interface{}{"c10.ksave", exp, sel, om, accs, recs[0]}
			case "create":
				lop = []interface{}{"c10.kcreate", exp, sel, om, false, accs, recs[:1], false}
			case "create_slice":
				lop = []interface{}{"c10.kcreate", exp, sel, om, true, accs, recs, false}
			case "upsert_all":
				lop = []interface{}{"c10.kcreate", exp, sel, om, false, accs, recs[:1], true}
			default:
				continue // map paths and explicit DoUpdates do not depend on the zero test
			}
			var tx *gorm.DB
			func() {
				defer func() {
					if p := recover(); p != nil {
						if c10ZNilEmbedSerializer(c) {
							r.H("c10.stmt-kinds.gorm-panic", "nil-embedded serializer field (side finding, not judged)")
							return
						}
						r.Violate(Violation{Kind: "correspondence", Suite: "stmt-kinds", Input: c, Observed: fmt.Sprint("panic: ", p), Note: "gorm panicked while building the DryRun statement"})
					}
				}()
				tx = c10ZExec(db, typ, c)
			}()
			if tx == nil {
				continue
			}
			obs := c10Observe(tx)
			if c.Path == "upd_nomodel" {
				obs.Where = c10ZDropWhereID(obs.Where) // the chain's own `id` = ? condition is not a key condition gorm added
			}
			r.H("c10.stmt-kinds.path", c.Path)
			r.H("c10.stmt-kinds.real-kind", obs.Kind)
			pends = append(pends, pend{suite: "stmt-kinds", in: c, real: canon(obs), first: len(ops), c: c})
			ops = append(ops, lop)
		}
		outs, err := AskLean(ops)
		if err != nil {
			r.Violate(Violation{Kind: "correspondence", Suite: "zero", Note: err.Error()})
			return
		}
		for _, p := range pends {
			r.CorrCompared++
			want := canonRaw(outs[p.first])
			if p.suite == "stmt-kinds" {
				want = canon(c10ZExpected(p.c, outs[p.first]))
			}
			r.Case(p.suite, canon(ops[p.first][1:]), true)
			if want != p.real {
				r.Violate(Violation{Kind: "correspondence", Suite: p.suite, Input: p.in, Observed: p.real, Expected: want,
					Note: "real gorm (observed) vs Lean FieldZero model (expected): " + fmt.Sprint(ops[p.first][0])})
			}
		}
	})
}

// c10ZNilEmbedSerializer: side finding (a panic, not a write-set question, so not judged by C10): writing a SELECTED
// serializer field that lives inside a NIL pointer-embedded struct — ValueOf hands `&serializer{fieldValue: nil}` to
// field.Set, whose `s.Serializer.Scan` branch dereferences the unset Serializer (schema/field.go, Set wrapper)
func c10ZNilEmbedSerializer(c *c10ZCase) bool {
	for _, row := range c.Rows {
		if !row.NilEmbed {
			continue
		}
		for _, f := range c.Schema.Fields {
			if strings.HasPrefix(f.Embed, "*") && (strings.Contains(c10ZKindOf(f.Kind).Tag, "serializer:") || f.Kind == "self-serializer") {
				return true
			}
		}
	}
	return false
}

func c10ZDropWhereID(w []string) []string {
	out := []string{}
	dropped := false
	for _, x := range w {
		if x == "id" && !dropped {
			dropped = true
			continue
		}
		out = append(out, x)
	}
	return out
}

// c10ZNegZero sets every top-level float64 field to -0.0 (reflect.IsZero: NOT zero) — zero tie only
func c10ZNegZero(e reflect.Value) {
	for i := 0; i < e.NumField(); i++ {
		if e.Field(i).Kind() == reflect.Float64 {
			e.Field(i).SetFloat(math.Copysign(0, -1))
		}
	}
}

func c10ZExpected(c *c10ZCase, out json.RawMessage) c10Obs {
	o := c10Obs{Kind: "none", Insert: []string{}, Set: []string{}, Where: []string{}, Upsert: []string{}, Conflict: []string{}}
	var l []json.RawMessage
	_ = json.Unmarshal(out, &l)
	strs := func(raw json.RawMessage) []string {
		var x []string
		_ = json.Unmarshal(raw, &x)
		if x == nil {
			x = []string{}
		}
		return x
	}
	if len(l) < 2 {
		o.Kind = "bad-op"
		return o
	}
	switch c.Path {
	case "upd_struct", "updcols_struct", "upd_self", "upd_nomodel":
		o.Set, o.Where = strs(l[0]), strs(l[1])
		if len(o.Set) > 0 {
			o.Kind = "UPDATE"
		} else {
			o.Where = []string{}
		}
	case "save":
		var route string
		_ = json.Unmarshal(l[0], &route)
		if route == "update" {
			o.Set, o.Where = strs(l[1]), strs(l[2])
			if len(o.Set) > 0 {
				o.Kind = "UPDATE"
			} else {
				o.Where = []string{}
			}
		} else {
			o.Kind = "save-create"
		}
	default:
		o.Kind = "INSERT"
		o.Insert, o.Upsert = strs(l[0]), strs(l[1])
		if len(l) > 2 {
			o.Conflict = strs(l[2])
		}
	}
	return o
}

var _ = sort.Strings
