package main

import (
	"gorm.io/gorm"
)

// C11 model families for the generic reference-join oracle (c11_world.go).
// Every model has the unique row number `n` (identity of the row in the oracle and the column the
// generated conditions talk about) and a soft-delete column; join tables have neither.

type c11Code string // named string type: takes the default arm of utils.ToStringKey

// ---- family S: single-column string / named-string / []byte keys ------------------------------------

type C11SGroup struct {
	Code      string `gorm:"primaryKey"`
	N         int
	DeletedAt gorm.DeletedAt
}

func (C11SGroup) TableName() string { return "c11s_groups" }

type C11SCard struct {
	ID        uint `gorm:"primaryKey"`
	N         int
	OwnerCode *string
	DeletedAt gorm.DeletedAt
}

func (C11SCard) TableName() string { return "c11s_cards" }

type C11SItem struct {
	ID        uint `gorm:"primaryKey"`
	N         int
	OwnerCode *string
	DeletedAt gorm.DeletedAt
	Owner     *C11SOwner `gorm:"foreignKey:OwnerCode;references:Code"`
}

func (C11SItem) TableName() string { return "c11s_items" }

type C11STag struct {
	Code      c11Code `gorm:"primaryKey"`
	N         int
	DeletedAt gorm.DeletedAt
}

func (C11STag) TableName() string { return "c11s_tags" }

type C11SNote struct {
	ID        uint `gorm:"primaryKey"`
	N         int
	OwnerID   string
	OwnerType string
	DeletedAt gorm.DeletedAt
}

func (C11SNote) TableName() string { return "c11s_notes" }

type C11SOwner struct {
	Code      string `gorm:"primaryKey"`
	N         int
	DeletedAt gorm.DeletedAt
	GroupCode *string
	Group     *C11SGroup   `gorm:"foreignKey:GroupCode;references:Code"`
	Card      *C11SCard    `gorm:"foreignKey:OwnerCode;references:Code"`
	Items     []C11SItem   `gorm:"foreignKey:OwnerCode;references:Code"`
	Tags      []C11STag    `gorm:"many2many:c11s_owner_tags;foreignKey:Code;joinForeignKey:OwnerCode;references:Code;joinReferences:TagCode"`
	Notes     []C11SNote   `gorm:"polymorphic:Owner;polymorphicValue:sown"`
	Memo      *C11SNote    `gorm:"polymorphic:Owner;polymorphicValue:smemo"`
	BossCode  *string
	Boss      *C11SOwner   `gorm:"foreignKey:BossCode;references:Code"`
	Staff     []*C11SOwner `gorm:"foreignKey:BossCode;references:Code"`
	Friends   []*C11SOwner `gorm:"many2many:c11s_friends;foreignKey:Code;joinForeignKey:OwnerCode;references:Code;joinReferences:FriendCode"`
}

func (C11SOwner) TableName() string { return "c11s_owners" }

type C11BItem struct {
	ID        uint `gorm:"primaryKey"`
	N         int
	OwnerKey  []byte
	DeletedAt gorm.DeletedAt
	Owner     *C11BOwner `gorm:"foreignKey:OwnerKey;references:Key"`
}

func (C11BItem) TableName() string { return "c11b_items" }

type C11BOwner struct {
	Key       []byte `gorm:"primaryKey"`
	N         int
	DeletedAt gorm.DeletedAt
	Items     []C11BItem `gorm:"foreignKey:OwnerKey;references:Key"`
}

func (C11BOwner) TableName() string { return "c11b_owners" }

// ---- family U: single-column integer keys of several Go types -----------------------------------------

type C11UGroup struct {
	ID        int64 `gorm:"primaryKey;autoIncrement:false"`
	N         int
	DeletedAt gorm.DeletedAt
}

func (C11UGroup) TableName() string { return "c11u_groups" }

type C11UCard struct {
	ID        uint `gorm:"primaryKey"`
	N         int
	OwnerID   uint // non-pointer: 0 = no owner
	DeletedAt gorm.DeletedAt
}

func (C11UCard) TableName() string { return "c11u_cards" }

type C11UItem struct {
	ID        uint `gorm:"primaryKey"`
	N         int
	OwnerID   *uint
	DeletedAt gorm.DeletedAt
	Owner     *C11UOwner `gorm:"foreignKey:OwnerID;references:ID"`
}

func (C11UItem) TableName() string { return "c11u_items" }

type C11UTag struct {
	ID        int `gorm:"primaryKey;autoIncrement:false"`
	N         int
	DeletedAt gorm.DeletedAt
}

func (C11UTag) TableName() string { return "c11u_tags" }

type C11UNote struct {
	ID        uint `gorm:"primaryKey"`
	N         int
	OwnerID   uint
	OwnerType string
	DeletedAt gorm.DeletedAt
}

func (C11UNote) TableName() string { return "c11u_notes" }

type C11UOwner struct {
	ID        uint `gorm:"primaryKey;autoIncrement:false"`
	N         int
	DeletedAt gorm.DeletedAt
	GroupID   *int64
	Group     *C11UGroup   `gorm:"foreignKey:GroupID;references:ID"`
	Card      *C11UCard    `gorm:"foreignKey:OwnerID;references:ID"`
	Items     []C11UItem   `gorm:"foreignKey:OwnerID;references:ID"`
	Tags      []*C11UTag   `gorm:"many2many:c11u_owner_tags;foreignKey:ID;joinForeignKey:OwnerID;references:ID;joinReferences:TagID"`
	Notes     []C11UNote   `gorm:"polymorphic:Owner;polymorphicValue:uown"`
	Memo      *C11UNote    `gorm:"polymorphic:Owner;polymorphicValue:umemo"`
	BossID    *uint
	Boss      *C11UOwner   `gorm:"foreignKey:BossID;references:ID"`
	Staff     []C11UOwner  `gorm:"foreignKey:BossID;references:ID"`
	Friends   []*C11UOwner `gorm:"many2many:c11u_friends;foreignKey:ID;joinForeignKey:OwnerID;references:ID;joinReferences:FriendID"`
}

func (C11UOwner) TableName() string { return "c11u_owners" }

// ---- family C: composite keys (2 and 3 columns, mixed types, zero-valued components) -----------------

type C11CCust struct {
	Tenant    int    `gorm:"primaryKey;autoIncrement:false"`
	ID        uint   `gorm:"primaryKey;autoIncrement:false"`
	Zone      string `gorm:"primaryKey"`
	N         int
	DeletedAt gorm.DeletedAt
}

func (C11CCust) TableName() string { return "c11c_custs" }

type C11CLine struct {
	ID        uint `gorm:"primaryKey"`
	N         int
	ORegion   *uint
	OCode     *string
	DeletedAt gorm.DeletedAt
	Order     *C11COrder `gorm:"foreignKey:ORegion,OCode;references:Region,Code"`
}

func (C11CLine) TableName() string { return "c11c_lines" }

type C11CReceipt struct {
	ID        uint `gorm:"primaryKey"`
	N         int
	ORegion   uint
	OCode     string
	DeletedAt gorm.DeletedAt
}

func (C11CReceipt) TableName() string { return "c11c_receipts" }

type C11CLabel struct {
	Ns        string `gorm:"primaryKey"`
	Num       uint   `gorm:"primaryKey;autoIncrement:false"`
	N         int
	DeletedAt gorm.DeletedAt
}

func (C11CLabel) TableName() string { return "c11c_labels" }

type C11COrder struct {
	Region     uint   `gorm:"primaryKey;autoIncrement:false"`
	Code       string `gorm:"primaryKey"`
	N          int
	DeletedAt  gorm.DeletedAt
	CustTenant int
	CustID     uint
	CustZone   string
	Cust       *C11CCust    `gorm:"foreignKey:CustTenant,CustID,CustZone;references:Tenant,ID,Zone"`
	Lines      []C11CLine   `gorm:"foreignKey:ORegion,OCode;references:Region,Code"`
	Receipt    *C11CReceipt `gorm:"foreignKey:ORegion,OCode;references:Region,Code"`
	Labels     []C11CLabel  `gorm:"many2many:c11c_order_labels;foreignKey:Region,Code;joinForeignKey:ORegion,OCode;references:Ns,Num;joinReferences:LNs,LNum"`
	PRegion    *uint
	PCode      *string
	Parent     *C11COrder   `gorm:"foreignKey:PRegion,PCode;references:Region,Code"`
	Subs       []C11COrder  `gorm:"foreignKey:PRegion,PCode;references:Region,Code"`
	Peers      []*C11COrder `gorm:"many2many:c11c_peers;foreignKey:Region,Code;joinForeignKey:ARegion,ACode;references:Region,Code;joinReferences:BRegion,BCode"`
}

func (C11COrder) TableName() string { return "c11c_orders" }
