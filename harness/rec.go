package main

// Recording / fault-injecting database/sql/driver wrapper in front of go-sqlite3.
// Every driver-level call made on behalf of gorm is appended to Recorder.Events
// (kind, SQL text, bound args, context marker) and may be failed by Recorder.Fault.

import (
	"context"
	"database/sql"
	"database/sql/driver"
	"errors"
	"fmt"
	"sync"
	"sync/atomic"

	sqlite3 "github.com/mattn/go-sqlite3"
	"gorm.io/driver/sqlite"
	"gorm.io/gorm"
	"gorm.io/gorm/logger"
)

type ctxKey struct{}

// CtxMarker returns the harness marker carried by ctx ("" if none).
func CtxMarker(ctx context.Context) string {
	if ctx == nil {
		return ""
	}
	if v, ok := ctx.Value(ctxKey{}).(string); ok {
		return v
	}
	return ""
}

func WithMarker(ctx context.Context, m string) context.Context {
	return context.WithValue(ctx, ctxKey{}, m)
}

type Event struct {
	Kind   string // begin commit rollback exec query prepare stmt_exec stmt_query stmt_close
	SQL    string
	Args   []interface{}
	Marker string
	HasCtx bool
	Err    string
}

func (e Event) String() string {
	return fmt.Sprintf("%s %q %v", e.Kind, e.SQL, e.Args)
}

type Recorder struct {
	mu     sync.Mutex
	Events []Event
	// Fault is consulted before the call is forwarded; non-nil error = injected failure.
	// idx is the index the event will get in Events.
	Fault  func(idx int, ev *Event) error
	OpenTx int64 // driver-level open transactions
	Stmts  int64 // driver-level open prepared statements
	Off    bool  // when true nothing is recorded and no fault is injected
}

func (r *Recorder) Reset() {
	r.mu.Lock()
	r.Events = nil
	r.mu.Unlock()
}

func (r *Recorder) Snapshot() []Event {
	r.mu.Lock()
	defer r.mu.Unlock()
	out := make([]Event, len(r.Events))
	copy(out, r.Events)
	return out
}

func (r *Recorder) record(ev Event) error {
	if r == nil || r.Off {
		return nil
	}
	r.mu.Lock()
	idx := len(r.Events)
	var err error
	if r.Fault != nil {
		err = r.Fault(idx, &ev)
	}
	if err != nil {
		ev.Err = err.Error()
	}
	r.Events = append(r.Events, ev)
	r.mu.Unlock()
	return err
}

func namedToArgs(nv []driver.NamedValue) []interface{} {
	out := make([]interface{}, len(nv))
	for i, v := range nv {
		out[i] = v.Value
	}
	return out
}

type recConnector struct {
	dsn string
	drv *sqlite3.SQLiteDriver
	rec *Recorder
}

func (c *recConnector) Connect(ctx context.Context) (driver.Conn, error) {
	inner, err := c.drv.Open(c.dsn)
	if err != nil {
		return nil, err
	}
	return &recConn{inner: inner.(*sqlite3.SQLiteConn), rec: c.rec}, nil
}
func (c *recConnector) Driver() driver.Driver { return c.drv }

type recConn struct {
	inner *sqlite3.SQLiteConn
	rec   *Recorder
}

func (c *recConn) Prepare(query string) (driver.Stmt, error) {
	return c.PrepareContext(context.Background(), query)
}
func (c *recConn) Close() error { return c.inner.Close() }
func (c *recConn) Begin() (driver.Tx, error) {
	return c.BeginTx(context.Background(), driver.TxOptions{})
}
func (c *recConn) BeginTx(ctx context.Context, opts driver.TxOptions) (driver.Tx, error) {
	if err := c.rec.record(Event{Kind: "begin", Marker: CtxMarker(ctx), HasCtx: true}); err != nil {
		return nil, err
	}
	tx, err := c.inner.BeginTx(ctx, opts)
	if err != nil {
		return nil, err
	}
	atomic.AddInt64(&c.rec.OpenTx, 1)
	return &recTx{inner: tx, rec: c.rec}, nil
}
func (c *recConn) PrepareContext(ctx context.Context, query string) (driver.Stmt, error) {
	if err := c.rec.record(Event{Kind: "prepare", SQL: query, Marker: CtxMarker(ctx), HasCtx: true}); err != nil {
		return nil, err
	}
	st, err := c.inner.PrepareContext(ctx, query)
	if err != nil {
		return nil, err
	}
	atomic.AddInt64(&c.rec.Stmts, 1)
	return &recStmt{inner: st.(*sqlite3.SQLiteStmt), rec: c.rec, sql: query}, nil
}
func (c *recConn) ExecContext(ctx context.Context, query string, args []driver.NamedValue) (driver.Result, error) {
	if err := c.rec.record(Event{Kind: "exec", SQL: query, Args: namedToArgs(args), Marker: CtxMarker(ctx), HasCtx: true}); err != nil {
		return nil, err
	}
	return c.inner.ExecContext(ctx, query, args)
}
func (c *recConn) QueryContext(ctx context.Context, query string, args []driver.NamedValue) (driver.Rows, error) {
	if err := c.rec.record(Event{Kind: "query", SQL: query, Args: namedToArgs(args), Marker: CtxMarker(ctx), HasCtx: true}); err != nil {
		return nil, err
	}
	return c.inner.QueryContext(ctx, query, args)
}
func (c *recConn) Ping(ctx context.Context) error { return c.inner.Ping(ctx) }

type recTx struct {
	inner driver.Tx
	rec   *Recorder
}

func (t *recTx) Commit() error {
	if err := t.rec.record(Event{Kind: "commit"}); err != nil {
		// an injected commit failure discards the transaction
		_ = t.inner.Rollback()
		atomic.AddInt64(&t.rec.OpenTx, -1)
		return err
	}
	atomic.AddInt64(&t.rec.OpenTx, -1)
	return t.inner.Commit()
}
func (t *recTx) Rollback() error {
	_ = t.rec.record(Event{Kind: "rollback"})
	atomic.AddInt64(&t.rec.OpenTx, -1)
	return t.inner.Rollback()
}

type recStmt struct {
	inner *sqlite3.SQLiteStmt
	rec   *Recorder
	sql   string
}

func (s *recStmt) Close() error {
	_ = s.rec.record(Event{Kind: "stmt_close", SQL: s.sql})
	atomic.AddInt64(&s.rec.Stmts, -1)
	return s.inner.Close()
}
func (s *recStmt) NumInput() int { return s.inner.NumInput() }
func (s *recStmt) Exec(args []driver.Value) (driver.Result, error) {
	return nil, errors.New("recStmt.Exec: use ExecContext")
}
func (s *recStmt) Query(args []driver.Value) (driver.Rows, error) {
	return nil, errors.New("recStmt.Query: use QueryContext")
}
func (s *recStmt) ExecContext(ctx context.Context, args []driver.NamedValue) (driver.Result, error) {
	if err := s.rec.record(Event{Kind: "stmt_exec", SQL: s.sql, Args: namedToArgs(args), Marker: CtxMarker(ctx), HasCtx: true}); err != nil {
		return nil, err
	}
	return s.inner.ExecContext(ctx, args)
}
func (s *recStmt) QueryContext(ctx context.Context, args []driver.NamedValue) (driver.Rows, error) {
	if err := s.rec.record(Event{Kind: "stmt_query", SQL: s.sql, Args: namedToArgs(args), Marker: CtxMarker(ctx), HasCtx: true}); err != nil {
		return nil, err
	}
	return s.inner.QueryContext(ctx, args)
}

var memCounter int64

// OpenRec opens a fresh private in-memory SQLite database behind the recording driver.
func OpenRec(cfg *gorm.Config) (*gorm.DB, *Recorder, *sql.DB) {
	n := atomic.AddInt64(&memCounter, 1)
	dsn := fmt.Sprintf("file:verifmem%d?mode=memory&cache=shared", n)
	rec := &Recorder{}
	sqlDB := sql.OpenDB(&recConnector{dsn: dsn, drv: &sqlite3.SQLiteDriver{}, rec: rec})
	// keep one connection alive so the shared in-memory database survives
	sqlDB.SetMaxIdleConns(4)
	if cfg == nil {
		cfg = &gorm.Config{}
	}
	if cfg.Logger == nil {
		cfg.Logger = logger.Discard
	}
	db, err := gorm.Open(sqlite.Dialector{Conn: sqlDB}, cfg)
	if err != nil {
		panic(err)
	}
	return db, rec, sqlDB
}
