package main

import (
	"encoding/json"
	"fmt"
	"math/rand"
	"reflect"
	"strings"

	"gorm.io/gorm"
	"gorm.io/gorm/clause"
)

// ---- stub clause.Builder: captures text segments and vars --------------------------------

type stubBuilder struct {
	sb   strings.Builder
	vars []interface{}
}

func (b *stubBuilder) WriteByte(c byte) error            { return b.sb.WriteByte(c) }
func (b *stubBuilder) WriteString(s string) (int, error) { return b.sb.WriteString(s) }
func (b *stubBuilder) WriteQuoted(f interface{})         { fmt.Fprintf(&b.sb, "`%v`", f) }
func (b *stubBuilder) AddVar(w clause.Writer, vs ...interface{}) {
	for i, v := range vs {
		if i > 0 {
			w.WriteByte(',')
		}
		b.vars = append(b.vars, v)
		w.WriteByte('?')
	}
}
func (b *stubBuilder) AddError(err error) error { return err }

type C15Item struct {
	ID uint `gorm:"primaryKey"`
	N  int
	S  string
}

type limCall struct {
	Kind string
	N    int
}

func (c limCall) J() []interface{} { return []interface{}{c.Kind, c.N} }

func genLimCalls(rng *rand.Rand, maxLen int, allowZeroLimit bool) []limCall {
	n := rng.Intn(maxLen + 1)
	var out []limCall
	for i := 0; i < n; i++ {
		var v int
		switch rng.Intn(6) {
		case 0:
			v = -1
		case 1:
			v = 0
		default:
			v = 1 + rng.Intn(7)
		}
		k := "limit"
		if rng.Intn(2) == 0 {
			k = "offset"
		}
		if k == "limit" && v == 0 && !allowZeroLimit {
			v = 1 + rng.Intn(7)
		}
		out = append(out, limCall{k, v})
	}
	return out
}

func callsJ(cs []limCall) []interface{} {
	out := make([]interface{}, len(cs))
	for i, c := range cs {
		out[i] = c.J()
	}
	return out
}

// real effective LIMIT/OFFSET: fold clause.Limit.MergeClause exactly as Statement.AddClause does, then Build.
func realLimit(cs []limCall) (lim, off interface{}) {
	var c clause.Clause
	have := false
	for _, call := range cs {
		var l clause.Limit
		if call.Kind == "limit" {
			n := call.N
			l = clause.Limit{Limit: &n}
		} else {
			l = clause.Limit{Offset: call.N}
		}
		// Statement.AddClause: name := v.Name(); c := stmt.Clauses[name]; c.Name = name; v.MergeClause(&c)
		c.Name = l.Name()
		l.MergeClause(&c)
		have = true
	}
	if !have {
		return nil, nil
	}
	b := &stubBuilder{}
	c.Expression.Build(b)
	txt := b.sb.String()
	i := 0
	if strings.Contains(txt, "LIMIT ?") {
		lim = b.vars[i]
		i++
	}
	if strings.Contains(txt, "OFFSET ?") {
		off = b.vars[i]
	}
	return
}

func applyLimCalls(db *gorm.DB, cs []limCall) *gorm.DB {
	for _, c := range cs {
		if c.Kind == "limit" {
			db = db.Limit(c.N)
		} else {
			db = db.Offset(c.N)
		}
	}
	return db
}

func idsOf(items []C15Item) []int {
	out := make([]int, len(items))
	for i, it := range items {
		out[i] = int(it.ID)
	}
	return out
}

func init() {
	// ---- correspondence: limit.merge (pure, exported clause.Limit) ------------------------
	register("C15", func(r *Result, rng *rand.Rand, tier string) {
		n := 3000
		if tier == "thorough" {
			n = 200000
		}
		var ops [][]interface{}
		var css [][]limCall
		// exhaustive short sequences first
		vals := []int{-1, 0, 1, 2}
		var rec func(prefix []limCall, d int)
		rec = func(prefix []limCall, d int) {
			css = append(css, append([]limCall(nil), prefix...))
			if d == 0 {
				return
			}
			for _, k := range []string{"limit", "offset"} {
				for _, v := range vals {
					rec(append(prefix, limCall{k, v}), d-1)
				}
			}
		}
		rec(nil, 3)
		for i := 0; i < n; i++ {
			css = append(css, genLimCalls(rng, 8, true))
		}
		for _, cs := range css {
			ops = append(ops, []interface{}{"limit.merge", callsJ(cs)})
		}
		outs, err := AskLean(ops)
		if err != nil {
			r.Violate(Violation{Kind: "correspondence", Suite: "limit.merge", Note: err.Error()})
			return
		}
		for i, cs := range css {
			lim, off := realLimit(cs)
			real := canon([]interface{}{lim, off})
			model := canonRaw(outs[i])
			r.CorrCompared++
			nz := 0
			for _, c := range cs {
				if c.N != 0 {
					nz++
				}
			}
			r.Case("limit.merge", real+canon(callsJ(cs)), len(cs) >= 2 && nz >= 1)
			r.H("limit.merge.len", fmt.Sprint(len(cs)))
			if real != model {
				r.Violate(Violation{Kind: "correspondence", Suite: "limit.merge", Input: callsJ(cs), Observed: real, Expected: model,
					Note: "real clause.Limit.MergeClause/Build vs Lean Gorm.applyCalls/effLimitOf/effOffsetOf"})
			}
		}
	})

	// ---- correspondence + e2e: FindInBatches on SQLite ------------------------------------
	register("C15", func(r *Result, rng *rand.Rand, tier string) {
		maxN, rounds := 12, 700
		if tier == "thorough" {
			maxN, rounds = 60, 40000
		} else if tier == "search" {
			maxN, rounds = 30, 8000
		}
		db, rec := c15Open()
		var cases []c15Case
		var ops [][]interface{}
		for i := 0; i < rounds && !expired(); i++ {
			// table with gaps in the key space
			n := rng.Intn(maxN + 1)
			if i < maxN+1 {
				n = i // every size once
			}
			rows := []int{}
			id := 0
			for j := 0; j < n; j++ {
				id += 1 + rng.Intn(3)
				rows = append(rows, id)
			}
			c15Fill(db, rows)
			for k := 0; k < 6; k++ {
				// Limit(0) is the pattern of finding F7c: avoided while the tree has the finding (the findings suite
				// probes it), ordinary input once the regenerated fact says the early return is present
				c := c15Case{Rows: rows, Calls: genLimCalls(rng, 4, c15Facts().ZeroLimitReturn), Batch: 1 + rng.Intn(maxN/2+2)}
				if c15Facts().ZeroLimitReturn && rng.Intn(8) == 0 {
					c.Calls = []limCall{{"limit", 0}}
					if rng.Intn(2) == 0 {
						c.Calls = append(c.Calls, limCall{"offset", rng.Intn(4)})
					}
				}
				c15Run(db, rec, &c)
				cases = append(cases, c)
				ops = append(ops, []interface{}{"batches", rows, callsJ(c.Calls), c.Batch})
			}
		}
		outs, err := AskLean(ops)
		if err != nil {
			r.Violate(Violation{Kind: "correspondence", Suite: "batches", Note: err.Error()})
			return
		}
		for i, c := range cases {
			in := c.input()
			nb := 0
			if c.real != nil {
				nb = len(c.real["batches"].([][]int))
			}
			r.Case("batches", canon(in), nb > 1)
			r.H("batches.count", fmt.Sprint(nb))
			if lim, _ := realLimit(c.Calls); lim == 0 {
				r.H("batches.limit", "effective LIMIT 0")
			} else {
				r.H("batches.limit", "other")
			}
			r.H("batches.tablesize", fmt.Sprint(len(c.Rows)/5*5, "+"))
			if i%97 == 0 {
				r.Sample(map[string]interface{}{"suite": "batches", "input": in, "real": c.real})
			}
			if c.e2e != "" {
				r.Violate(Violation{Kind: "e2e", Suite: "batches", Input: in, Observed: c.real, Expected: c.e2e})
			}
			r.CorrCompared++
			var m interface{}
			_ = json.Unmarshal(outs[i], &m)
			if c.real != nil && canon(c.real) != canon(m) {
				r.Violate(Violation{Kind: "correspondence", Suite: "batches", Input: in, Observed: c.real, Expected: m,
					Note: "real DB.FindInBatches/Find on SQLite (batches, RowsAffected, sequence of issued queries: limit/offset/cursor) vs Lean Gorm.findInBatches/findAll"})
			}
		}
	})
	replayers["C15/batches"] = func(r *Result, input json.RawMessage) {
		var in struct {
			Rows  []int           `json:"rows"`
			Calls [][]interface{} `json:"calls"`
			Batch int             `json:"batch"`
		}
		if err := json.Unmarshal(input, &in); err != nil {
			r.Note("bad replay input: %v", err)
			return
		}
		c := c15Case{Rows: in.Rows, Batch: in.Batch}
		for _, x := range in.Calls {
			c.Calls = append(c.Calls, limCall{x[0].(string), int(x[1].(float64))})
		}
		db, rec := c15Open()
		c15Fill(db, c.Rows)
		c15Run(db, rec, &c)
		r.Case("batches", canon(c.input()), true)
		if c.e2e != "" {
			r.Violate(Violation{Kind: "e2e", Suite: "batches", Input: c.input(), Observed: c.real, Expected: c.e2e})
		}
	}
}

type c15Case struct {
	Rows  []int
	Calls []limCall
	Batch int
	real  map[string]interface{}
	e2e   string
}

func (c *c15Case) input() map[string]interface{} {
	return map[string]interface{}{"rows": c.Rows, "calls": callsJ(c.Calls), "batch": c.Batch}
}

func c15Open() (*gorm.DB, *Recorder) {
	db, rec, _ := OpenRec(nil)
	if err := db.AutoMigrate(&C15Item{}); err != nil {
		panic(err)
	}
	return db, rec
}

// c15Triple = [limit, offset|nil, cursor|nil] of one recorded SELECT of the batch loop
func c15Triple(ev Event) []interface{} {
	return []interface{}{c15SQLValue(ev, c15ReLimit), c15SQLValue(ev, c15ReOffset), c15SQLValue(ev, c15ReCursor)}
}

func c15Fill(db *gorm.DB, rows []int) {
	db.Session(&gorm.Session{AllowGlobalUpdate: true}).Delete(&C15Item{})
	if len(rows) > 0 {
		items := make([]C15Item, len(rows))
		for j := range items {
			items[j] = C15Item{ID: uint(rows[j]), N: j % 5, S: fmt.Sprint("s", j%4)}
		}
		if err := db.Create(&items).Error; err != nil {
			panic(err)
		}
	}
}

// c15Run executes FindInBatches and Find on the real code and judges the end-to-end oracle
// (no model involved): concatenation of the batches = Find's rows, each batch non-empty and no larger
// than requested, keys strictly increasing, RowsAffected = rows delivered.
func c15Run(db *gorm.DB, rec *Recorder, c *c15Case) {
	got := [][]int{}
	var dest []C15Item
	rec.Reset()
	res := applyLimCalls(db.Model(&C15Item{}), c.Calls).FindInBatches(&dest, c.Batch, func(tx *gorm.DB, b int) error {
		got = append(got, idsOf(dest))
		return nil
	})
	queries := []interface{}{}
	for _, ev := range rec.Snapshot() {
		if ev.Kind == "query" {
			queries = append(queries, c15Triple(ev))
		}
	}
	var all []C15Item
	res2 := applyLimCalls(db.Model(&C15Item{}), c.Calls).Order("id").Find(&all)
	if res.Error != nil || res2.Error != nil {
		c.e2e = fmt.Sprint("unexpected error: ", res.Error, " / ", res2.Error)
		return
	}
	find := idsOf(all)
	c.real = map[string]interface{}{"batches": got, "find": find, "fuel": false, "pk": false, "queries": queries, "ra": res.RowsAffected}
	flat := []int{}
	for _, b := range got {
		if len(b) == 0 || len(b) > c.Batch {
			c.e2e = fmt.Sprintf("batch of size %d (requested %d)", len(b), c.Batch)
		}
		flat = append(flat, b...)
	}
	for j := 1; j < len(flat); j++ {
		if flat[j-1] >= flat[j] {
			c.e2e = "keys not strictly increasing across batches"
		}
	}
	if !reflect.DeepEqual(flat, append([]int{}, find...)) {
		c.e2e = "concatenated batches differ from Find"
	}
	if int(res.RowsAffected) != len(flat) {
		c.e2e = fmt.Sprintf("RowsAffected %d != rows delivered %d", res.RowsAffected, len(flat))
	}
}
