package main

// C16 (round 3) — KEY SHAPES and CHAIN MODIFIERS.
//
// Dimensions that were constant before this file:
//   (1) key shapes — every model had ONE auto-increment key. Here: composite keys of 2 and 3 parts (int + string),
//       application-assigned string keys, zero ("" / 0) as a legitimate key part, partly-zero keys, keys whose non-zero
//       part is shared by other rows, next to the classic auto-increment key; every model has an `…_arch` twin table with
//       same-key rows.
//   (2) chain modifiers in front of FirstOrCreate / FirstOrInit / Save / Create+OnConflict: Unscoped (with soft-deleted
//       first matches), Table(<arch twin>), Select / Omit, Scopes, Clauses(clause.Where), Session flags, WithContext,
//       Model, Session{NewDB} at the head — shuffled with Where / Attrs / Assign calls in struct / map / key-value / raw form.
//
// Suites:
//   wide      (e2e)  every program is judged on BOTH whole tables (the addressed one and the twin) against a Go reference
//                    that implements the property text — "Save stores the full value whether or not its key already exists"
//                    (and NO other row of any table changes), "FirstOrInit/FirstOrCreate return the first match unchanged, or
//                    else a record built from the conditions plus Attrs, with Assign applied in both cases" (the STORED row
//                    and the RETURNED record carry the assigned values, in the table the chain addresses), "FirstOrInit never
//                    writes, FirstOrCreate writes at most one row".
//   wide-tie  (tie)  the same programs (those the Lean model covers: no Select/Omit) on real gorm vs `c16.wide`
//                    (Model.UpsertKeys: saveK / firstOrInitK / firstOrCreateK / createK with the regenerated key test and
//                    nested-handle facts): tables, returned record, error class, and the shape of the nested UPDATE.
//
// Oracle latitudes (written where they apply): a value with a ZERO key part is "a value without key" for gorm: Save sends it
// to Create; when that exact key already exists the unique error (nothing changed) is accepted next to "stored". With a
// composite key the lookup is ordered by the first key column only: any match that is minimal in that column is "the first
// match". Under Select/Omit only the permitted columns are judged (stored and returned). RowsAffected is not judged.

import (
	"context"
	"encoding/json"
	"flag"
	"fmt"
	"math/rand"
	"reflect"
	"sort"
	"strings"
	"time"

	"gorm.io/gorm"
	"gorm.io/gorm/clause"
)

const c16F30ID = "F30-C16-found-update-keyed-by-nonzero-key-parts"

type C16W0 struct { // the classic shape: one auto-increment key
	ID        uint `gorm:"primaryKey"`
	Name      string
	Qty       int
	UpdatedAt time.Time
	DeletedAt gorm.DeletedAt
}

type C16W1 struct { // application-assigned string key
	Code      string `gorm:"primaryKey"`
	Name      string
	Qty       int
	UpdatedAt time.Time
	DeletedAt gorm.DeletedAt
}

type C16W2 struct { // composite int + string
	Wh        int    `gorm:"primaryKey;autoIncrement:false"`
	Sku       string `gorm:"primaryKey"`
	Name      string
	Qty       int
	UpdatedAt time.Time
	DeletedAt gorm.DeletedAt
}

type C16W3 struct { // composite string + int + int, no soft delete
	Org       string `gorm:"primaryKey"`
	Wh        int    `gorm:"primaryKey;autoIncrement:false"`
	Bin       int    `gorm:"primaryKey;autoIncrement:false"`
	Name      string
	Qty       int
	UpdatedAt time.Time
}

func (C16W0) TableName() string { return "c16_w0" }
func (C16W1) TableName() string { return "c16_w1" }
func (C16W2) TableName() string { return "c16_w2" }
func (C16W3) TableName() string { return "c16_w3" }

type c16wModel struct {
	tag     string
	typ     reflect.Type
	table   string
	arch    string
	keyCols []string
	keyGo   []string
	keyStr  []bool
	soft    bool
	auto    bool
}

var c16wModels = []*c16wModel{
	{tag: "id", typ: reflect.TypeOf(C16W0{}), table: "c16_w0", arch: "c16_w0_arch", keyCols: []string{"id"}, keyGo: []string{"ID"}, keyStr: []bool{false}, soft: true, auto: true},
	{tag: "code", typ: reflect.TypeOf(C16W1{}), table: "c16_w1", arch: "c16_w1_arch", keyCols: []string{"code"}, keyGo: []string{"Code"}, keyStr: []bool{true}, soft: true},
	{tag: "wh+sku", typ: reflect.TypeOf(C16W2{}), table: "c16_w2", arch: "c16_w2_arch", keyCols: []string{"wh", "sku"}, keyGo: []string{"Wh", "Sku"}, keyStr: []bool{false, true}, soft: true},
	{tag: "org+wh+bin", typ: reflect.TypeOf(C16W3{}), table: "c16_w3", arch: "c16_w3_arch", keyCols: []string{"org", "wh", "bin"}, keyGo: []string{"Org", "Wh", "Bin"}, keyStr: []bool{true, false, false}},
}

// C16WR: one row. K = key parts, N = name, Q = qty, D = soft-deleted (0/1). 0 encodes the Go zero value ("" / 0).
type C16WR struct {
	K []int `json:"k"`
	N int   `json:"n"`
	Q int   `json:"q"`
	D int   `json:"d"`
}

func (r C16WR) clone() C16WR { return C16WR{K: append([]int{}, r.K...), N: r.N, Q: r.Q, D: r.D} }

// column index: 0..nk-1 = key parts, nk = name, nk+1 = qty
func (m *c16wModel) nk() int { return len(m.keyCols) }
func (m *c16wModel) colName(c int) string {
	switch {
	case c < m.nk():
		return m.keyCols[c]
	case c == m.nk():
		return "name"
	}
	return "qty"
}
func (m *c16wModel) goName(c int) string {
	switch {
	case c < m.nk():
		return m.keyGo[c]
	case c == m.nk():
		return "Name"
	}
	return "Qty"
}
func (m *c16wModel) isStr(c int) bool {
	if c < m.nk() {
		return m.keyStr[c]
	}
	return c == m.nk()
}
func (m *c16wModel) val(c, n int) interface{} {
	if m.isStr(c) {
		if n == 0 {
			return ""
		}
		if c < m.nk() {
			return fmt.Sprintf("k%d", n)
		}
		return fmt.Sprintf("n%d", n)
	}
	if m.auto && c == 0 {
		return uint(n)
	}
	return n
}
func c16wDecS(s string) int {
	if s == "" {
		return 0
	}
	n := 0
	if _, err := fmt.Sscanf(s[1:], "%d", &n); err != nil {
		return -1
	}
	return n
}
func (r C16WR) get(m *c16wModel, c int) int {
	switch {
	case c < m.nk():
		return r.K[c]
	case c == m.nk():
		return r.N
	}
	return r.Q
}
func (r *C16WR) set(m *c16wModel, c, v int) {
	switch {
	case c < m.nk():
		r.K[c] = v
	case c == m.nk():
		r.N = v
	default:
		r.Q = v
	}
}
func (m *c16wModel) zeroRow() C16WR { return C16WR{K: make([]int, m.nk())} }

var c16wDelTime = time.Date(2020, 1, 2, 3, 4, 5, 0, time.UTC)

func (m *c16wModel) fill(e reflect.Value, r C16WR) {
	for c := 0; c < m.nk()+2; c++ {
		f := e.FieldByName(m.goName(c))
		switch f.Kind() {
		case reflect.String:
			f.SetString(m.val(c, r.get(m, c)).(string))
		case reflect.Uint:
			f.SetUint(uint64(r.get(m, c)))
		default:
			f.SetInt(int64(r.get(m, c)))
		}
	}
	if m.soft && r.D != 0 {
		e.FieldByName("DeletedAt").Set(reflect.ValueOf(gorm.DeletedAt{Time: c16wDelTime, Valid: true}))
	}
}
func (m *c16wModel) mk(r C16WR) interface{} {
	v := reflect.New(m.typ)
	m.fill(v.Elem(), r)
	return v.Interface()
}
func (m *c16wModel) mkSlice(rs []C16WR) interface{} {
	s := reflect.MakeSlice(reflect.SliceOf(m.typ), len(rs), len(rs))
	for i, r := range rs {
		m.fill(s.Index(i), r)
	}
	p := reflect.New(s.Type())
	p.Elem().Set(s)
	return p.Interface()
}
func (m *c16wModel) rd(v interface{}) C16WR {
	e := reflect.Indirect(reflect.ValueOf(v))
	r := m.zeroRow()
	for c := 0; c < m.nk()+2; c++ {
		f := e.FieldByName(m.goName(c))
		switch f.Kind() {
		case reflect.String:
			r.set(m, c, c16wDecS(f.String()))
		case reflect.Uint:
			r.set(m, c, int(f.Uint()))
		default:
			r.set(m, c, int(f.Int()))
		}
	}
	if m.soft && e.FieldByName("DeletedAt").Interface().(gorm.DeletedAt).Valid {
		r.D = 1
	}
	return r
}

// C16WS: one chain step (or the inline conditions of the finisher)
type C16WS struct {
	K    string   `json:"k"`              // where attrs assign unscoped table select omit scope cwhere sess ctx model newdb
	Form string   `json:"form,omitempty"` // where/attrs/assign: struct map kv raw; cwhere: str col; sess: the flag
	F    [][2]int `json:"f,omitempty"`    // (column, value)
	Cols []int    `json:"cols,omitempty"` // select / omit
}

type C16WP struct {
	M     int     `json:"m"`
	Rows  []C16WR `json:"rows"`
	Arch  []C16WR `json:"arch"`
	Steps []C16WS `json:"steps"`
	Op    string  `json:"op"` // save save2 saves foc foi create
	V     []C16WR `json:"v,omitempty"`
	Inl   *C16WS  `json:"inl,omitempty"`
	Rule  string  `json:"rule,omitempty"` // create: none nothing all upd
	RCols []int   `json:"rcols,omitempty"`
	RTgt  bool    `json:"rtgt,omitempty"` // OnConflict.Columns spelled out (all key columns) instead of defaulted
}

type c16wOut struct {
	Rows []C16WR `json:"rows"`
	Arch []C16WR `json:"arch"`
	Val  []C16WR `json:"val"`
	Err  string  `json:"err"`
	Msg  string  `json:"msg,omitempty"`
	RA   int64   `json:"ra"`
	// driver-level facts
	Writes int      `json:"writes"`         // INSERT/UPDATE/DELETE statements sent
	Upd    []string `json:"upd,omitempty"` // shape of each UPDATE sent: table|unscoped?|number of bound WHERE values
}

type c16wEnv struct {
	db  *gorm.DB
	rec *Recorder
	e   *c16Env
}

func c16wOpen() *c16wEnv {
	e := c16Open()
	for _, m := range c16wModels {
		z := reflect.New(m.typ).Interface()
		if err := e.db.AutoMigrate(z); err != nil {
			panic(err)
		}
		if err := e.db.Table(m.arch).AutoMigrate(z); err != nil {
			panic(err)
		}
		if m.auto {
			// round 4: with an integer key SQLite's table scan IS key order (rowid). An index over the payload makes a lookup
			// by name come out in (name, qty DESC) order instead, so "the first match" (lowest key) and "the first row the
			// database yields" differ on this model too whenever the query carries no ORDER BY of its own.
			for _, t := range []string{m.table, m.arch} {
				c16MustExec(e.sql, "CREATE INDEX IF NOT EXISTS "+t+"_nq ON "+t+"(name, qty DESC)")
			}
		}
	}
	return &c16wEnv{db: e.db, rec: e.rec, e: e}
}

func (w *c16wEnv) setTable(m *c16wModel, t string, rows []C16WR) {
	w.e.quiet(func() {
		c16MustExec(w.e.sql, "DELETE FROM "+t)
		if m.auto {
			c16MustExec(w.e.sql, "DELETE FROM sqlite_sequence WHERE name = ?", t)
		}
		for _, r := range rows {
			cols := append(append([]string{}, m.keyCols...), "name", "qty")
			args := []interface{}{}
			for c := 0; c < m.nk()+2; c++ {
				args = append(args, m.val(c, r.get(m, c)))
			}
			if m.soft {
				cols = append(cols, "deleted_at")
				if r.D != 0 {
					args = append(args, c16wDelTime)
				} else {
					args = append(args, nil)
				}
			}
			c16MustExec(w.e.sql, "INSERT INTO "+t+" ("+strings.Join(cols, ",")+") VALUES (?"+strings.Repeat(",?", len(cols)-1)+")", args...)
		}
	})
}

func c16wSort(rows []C16WR) {
	sort.Slice(rows, func(i, j int) bool {
		for c := range rows[i].K {
			if rows[i].K[c] != rows[j].K[c] {
				return rows[i].K[c] < rows[j].K[c]
			}
		}
		return false
	})
}

func (w *c16wEnv) dump(m *c16wModel, t string) []C16WR {
	out := []C16WR{}
	w.e.quiet(func() {
		cols := append(append([]string{}, m.keyCols...), "name", "qty")
		if m.soft {
			cols = append(cols, "deleted_at IS NOT NULL")
		} else {
			cols = append(cols, "0")
		}
		rows, err := w.e.sql.Query("SELECT " + strings.Join(cols, ",") + " FROM " + t)
		if err != nil {
			panic(err)
		}
		defer rows.Close()
		for rows.Next() {
			vals := make([]interface{}, len(cols))
			ptrs := make([]interface{}, len(cols))
			for i := range vals {
				ptrs[i] = &vals[i]
			}
			if err := rows.Scan(ptrs...); err != nil {
				panic(err)
			}
			r := m.zeroRow()
			for c, v := range vals {
				n := 0
				switch x := v.(type) {
				case nil:
					n = 0
				case int64:
					n = int(x)
				case string:
					n = c16wDecS(x)
				case []byte:
					n = c16wDecS(string(x))
				case bool:
					if x {
						n = 1
					}
				default:
					n = -1
				}
				if c < m.nk()+2 {
					r.set(m, c, n)
				} else {
					r.D = n
				}
			}
			out = append(out, r)
		}
	})
	c16wSort(out)
	return out
}

func (m *c16wModel) structOf(fs [][2]int) interface{} {
	r := m.zeroRow()
	for _, f := range fs {
		r.set(m, f[0], f[1])
	}
	return m.mk(r)
}
func (m *c16wModel) mapOf(fs [][2]int) map[string]interface{} {
	out := map[string]interface{}{}
	for _, f := range fs {
		out[m.colName(f[0])] = m.val(f[0], f[1])
	}
	return out
}

func (m *c16wModel) applyWhere(h *gorm.DB, s *C16WS) *gorm.DB {
	switch s.Form {
	case "struct":
		return h.Where(m.structOf(s.F))
	case "map":
		return h.Where(m.mapOf(s.F))
	case "kv":
		for _, f := range s.F {
			h = h.Where(m.colName(f[0]), m.val(f[0], f[1]))
		}
		return h
	}
	for _, f := range s.F {
		h = h.Where(m.colName(f[0])+" = ?", m.val(f[0], f[1]))
	}
	return h
}

func (m *c16wModel) initArgs(s *C16WS) []interface{} {
	switch s.Form {
	case "struct":
		return []interface{}{m.structOf(s.F)}
	case "map":
		return []interface{}{m.mapOf(s.F)}
	}
	return []interface{}{m.colName(s.F[0][0]), m.val(s.F[0][0], s.F[0][1])}
}

func (m *c16wModel) names(cols []int) []string {
	out := make([]string, len(cols))
	for i, c := range cols {
		out[i] = m.colName(c)
	}
	return out
}

func (w *c16wEnv) chain(m *c16wModel, steps []C16WS) *gorm.DB {
	h := w.db
	for i := range steps {
		s := &steps[i]
		switch s.K {
		case "where":
			h = m.applyWhere(h, s)
		case "attrs":
			h = h.Attrs(m.initArgs(s)...)
		case "assign":
			h = h.Assign(m.initArgs(s)...)
		case "unscoped":
			h = h.Unscoped()
		case "table":
			h = h.Table(m.arch)
		case "select":
			h = h.Select(m.names(s.Cols))
		case "omit":
			h = h.Omit(m.names(s.Cols)...)
		case "scope":
			sc := *s
			h = h.Scopes(func(x *gorm.DB) *gorm.DB { return m.applyWhere(x, &sc) })
		case "cwhere":
			var exprs []clause.Expression
			for _, f := range s.F {
				if s.Form == "col" {
					exprs = append(exprs, clause.Eq{Column: clause.Column{Name: m.colName(f[0])}, Value: m.val(f[0], f[1])})
				} else {
					exprs = append(exprs, clause.Eq{Column: m.colName(f[0]), Value: m.val(f[0], f[1])})
				}
			}
			h = h.Clauses(clause.Where{Exprs: exprs})
		case "sess":
			h = h.Session(c16SessionOf(s.Form))
		case "ctx":
			h = h.WithContext(WithMarker(context.Background(), "c16w"))
		case "model":
			h = h.Model(reflect.New(m.typ).Interface())
		case "newdb":
			h = h.Session(&gorm.Session{NewDB: true})
		}
	}
	return h
}

func (r *C16WP) oc(m *c16wModel) clause.OnConflict {
	oc := clause.OnConflict{}
	if r.RTgt {
		for _, k := range m.keyCols {
			oc.Columns = append(oc.Columns, clause.Column{Name: k})
		}
	}
	switch r.Rule {
	case "nothing":
		oc.DoNothing = true
	case "all":
		oc.UpdateAll = true
	case "upd":
		oc.DoUpdates = clause.AssignmentColumns(m.names(r.RCols))
	}
	return oc
}

func c16wErrClass(err error) string {
	c := c16ErrClass(err)
	if strings.HasPrefix(c, "other:") {
		return "other"
	}
	return c
}

var c16wNoTie = false

var c16wWhereRe = strings.NewReplacer("`", "", "\"", "")

func c16wUpdShape(ev Event) string {
	q := c16wWhereRe.Replace(ev.SQL)
	f := strings.Fields(q)
	t := ""
	if len(f) > 1 {
		t = f[1]
	}
	i := strings.Index(q, " WHERE ")
	nw := 0
	uns := "unscoped"
	if i >= 0 {
		nw = strings.Count(q[i:], "?")
		if strings.Contains(q[i:], "deleted_at IS NULL") {
			uns = "scoped"
		}
	} else {
		uns = "nowhere"
	}
	return fmt.Sprintf("%s|%s|%d", t, uns, nw)
}

func (w *c16wEnv) run(p *C16WP) (out c16wOut) {
	m := c16wModels[p.M]
	w.setTable(m, m.table, p.Rows)
	w.setTable(m, m.arch, p.Arch)
	w.rec.Reset()
	defer func() {
		if x := recover(); x != nil {
			out.Err = fmt.Sprintf("panic: %v", x)
		}
		for _, ev := range w.rec.Snapshot() {
			if ev.Kind != "exec" && ev.Kind != "stmt_exec" && ev.Kind != "query" && ev.Kind != "stmt_query" {
				continue
			}
			q := strings.ToUpper(strings.TrimSpace(ev.SQL))
			if strings.HasPrefix(q, "INSERT") || strings.HasPrefix(q, "UPDATE") || strings.HasPrefix(q, "DELETE") {
				out.Writes++
			}
			if strings.HasPrefix(q, "UPDATE") {
				out.Upd = append(out.Upd, c16wUpdShape(ev))
			}
		}
		out.Rows, out.Arch = w.dump(m, m.table), w.dump(m, m.arch)
	}()
	h := w.chain(m, p.Steps)
	var res *gorm.DB
	switch p.Op {
	case "save", "save2":
		v := m.mk(p.V[0])
		res = h.Save(v)
		if p.Op == "save2" && res.Error == nil {
			res = w.chain(m, p.Steps).Save(v)
		}
		out.Val = []C16WR{m.rd(v)}
	case "saves":
		v := m.mkSlice(p.V)
		res = h.Save(v)
	case "create":
		v := m.mk(p.V[0])
		if p.Rule != "none" {
			h = h.Clauses(p.oc(m))
		}
		res = h.Create(v)
	case "foc", "foi":
		dest := reflect.New(m.typ).Interface()
		var inl []interface{}
		if p.Inl != nil {
			switch p.Inl.Form {
			case "struct":
				inl = []interface{}{m.structOf(p.Inl.F)}
			case "map":
				inl = []interface{}{m.mapOf(p.Inl.F)}
			default:
				inl = []interface{}{m.colName(p.Inl.F[0][0]) + " = ?", m.val(p.Inl.F[0][0], p.Inl.F[0][1])}
			}
		}
		if p.Op == "foc" {
			res = h.FirstOrCreate(dest, inl...)
		} else {
			res = h.FirstOrInit(dest, inl...)
		}
		out.Val = []C16WR{m.rd(dest)}
	}
	out.Err = c16wErrClass(res.Error)
	if res.Error != nil {
		out.Msg = res.Error.Error()
	}
	out.RA = res.RowsAffected
	return
}

// ---- what a chain denotes ------------------------------------------------------------------------

type c16wSem struct {
	arch     bool
	unscoped bool
	conds    [][3]int // (column, value, buildable: 1 = clause.Eq, 0 = raw text) — query conditions (chain + scopes + inline)
	txconds  int      // how many of them sit on the chain itself (they also join the nested UPDATE); scopes count
	attrs    [][2]int
	assigns  [][2]int
	sel, om  []int
	hasSel   bool
	hasOm    bool
}

func c16wFields(m *c16wModel, s *C16WS) [][2]int {
	if s.Form == "struct" {
		out := [][2]int{}
		for _, f := range s.F {
			if f[1] != 0 {
				out = append(out, f)
			}
		}
		// a struct lists its fields in declaration order
		sort.SliceStable(out, func(i, j int) bool { return out[i][0] < out[j][0] })
		return out
	}
	if s.Form == "map" {
		out := append([][2]int{}, s.F...)
		sort.SliceStable(out, func(i, j int) bool { return m.colName(out[i][0]) < m.colName(out[j][0]) })
		return out
	}
	return s.F
}

func (p *C16WP) sem() (s c16wSem) {
	m := c16wModels[p.M]
	var scoped [][3]int
	add := func(dst *[][3]int, st *C16WS) {
		for _, f := range c16wFields(m, st) {
			b := 1
			if st.Form == "raw" {
				b = 0
			}
			*dst = append(*dst, [3]int{f[0], f[1], b})
		}
	}
	for i := range p.Steps {
		st := &p.Steps[i]
		switch st.K {
		case "where", "cwhere":
			add(&s.conds, st)
		case "scope":
			add(&scoped, st)
		case "attrs":
			s.attrs = c16wFields(m, st)
		case "assign":
			s.assigns = c16wFields(m, st)
		case "unscoped":
			s.unscoped = true
		case "table":
			s.arch = true
		case "select":
			s.sel, s.hasSel = st.Cols, true
		case "omit":
			s.om, s.hasOm = st.Cols, true
		}
	}
	s.conds = append(s.conds, scoped...)
	s.txconds = len(s.conds)
	if p.Inl != nil {
		add(&s.conds, p.Inl)
	}
	return
}

func c16wHasCol(l []int, c int) bool {
	for _, x := range l {
		if x == c {
			return true
		}
	}
	return false
}

// permitted: may column c be read / written under the chain's Select / Omit
func (s *c16wSem) permitted(c int) bool {
	if s.hasOm && c16wHasCol(s.om, c) {
		return false
	}
	if s.hasSel {
		return c16wHasCol(s.sel, c)
	}
	return true
}

func c16wKeyEq(a, b []int) bool {
	for i := range a {
		if a[i] != b[i] {
			return false
		}
	}
	return true
}

func c16wFind(rows []C16WR, k []int) int {
	for i := range rows {
		if c16wKeyEq(rows[i].K, k) {
			return i
		}
	}
	return -1
}

func c16wCopy(rows []C16WR) []C16WR {
	out := make([]C16WR, len(rows))
	for i, r := range rows {
		out[i] = r.clone()
	}
	return out
}

func c16wAnyZero(k []int) bool {
	for _, x := range k {
		if x == 0 {
			return true
		}
	}
	return false
}

// c16wExp: what the property demands. Alt (optional) is a second permitted outcome (latitude).
type c16wExp struct {
	Rows, Arch []C16WR
	Err        string
	Val        *C16WR // returned record (FirstOrInit / FirstOrCreate), nil = not judged
	NewKeys    int    // rows of the addressed table whose key (-1) is handed out by the database
	Alt        *c16wExp
	AltErr     string // a second permitted error class with the SAME tables
	Branch     string
	Finding    bool // inside the pattern of F30 (see c16wJudge)
	ValCols    []int
	NMatch     int  // rows satisfying the lookup's conditions
	ScanFirst  bool // the first match (ORDER BY) is also the first matching row in insertion order
}

const c16wNewKey = -1

func (p *C16WP) refRun(real *c16wOut) c16wExp {
	m := c16wModels[p.M]
	s := p.sem()
	e := c16wExp{Rows: c16wCopy(p.Rows), Arch: c16wCopy(p.Arch), Err: "ok"}
	T := &e.Rows
	if s.arch {
		T = &e.Arch
	}
	maxKey := func() int {
		k := 0
		for _, r := range *T {
			if r.K[0] > k {
				k = r.K[0]
			}
		}
		return k
	}
	switch p.Op {
	case "save", "save2", "saves":
		for _, v := range p.V {
			v = v.clone()
			if m.auto && v.K[0] == 0 {
				v.K[0] = c16wNewKey
				e.NewKeys++
				*T = append(*T, v)
				continue
			}
			i := c16wFind(*T, v.K)
			if i < 0 {
				*T = append(*T, v)
				if p.Op == "save2" && c16wAnyZero(v.K) {
					// latitude: the second Save of a value with a zero key part is a second Create: unique error, and the
					// table is what one Save left
					e.AltErr = "unique"
				}
				continue
			}
			if p.Op != "saves" && c16wAnyZero(v.K) {
				// latitude: gorm reads a zero key part as "no key" and inserts; the key exists: unique error, nothing changed
				alt := c16wExp{Rows: c16wCopy(p.Rows), Arch: c16wCopy(p.Arch), Err: "unique", Branch: "save/zero-part-exists"}
				e.Alt = &alt
			}
			(*T)[i] = v
		}
		e.Branch = p.Op
		_ = maxKey
	case "create":
		v := p.V[0].clone()
		e.Branch = "create/" + p.Rule
		if m.auto && v.K[0] == 0 {
			v.K[0] = c16wNewKey
			e.NewKeys++
			*T = append(*T, v)
			e.Branch += "/new"
			break
		}
		i := c16wFind(*T, v.K)
		if i < 0 {
			*T = append(*T, v)
			e.Branch += "/absent"
			break
		}
		e.Branch += "/conflict"
		switch p.Rule {
		case "none":
			e.Err = "unique"
		case "nothing":
		case "all":
			(*T)[i] = v
		case "upd":
			for _, c := range p.RCols {
				(*T)[i].set(m, c, v.get(m, c))
			}
		}
	case "foi", "foc":
		// the rows the lookup may return: visible, satisfying every condition, minimal in the ORDER BY column
		var matches []int
		for i, r := range *T {
			if r.D != 0 && !s.unscoped {
				continue
			}
			ok := true
			for _, c := range s.conds {
				if r.get(m, c[0]) != c[1] {
					ok = false
				}
			}
			if ok {
				matches = append(matches, i)
			}
		}
		if len(matches) > 0 {
			min := (*T)[matches[0]].K[0]
			for _, i := range matches {
				if (*T)[i].K[0] < min {
					min = (*T)[i].K[0]
				}
			}
			var cands []int
			for _, i := range matches {
				if (*T)[i].K[0] == min {
					cands = append(cands, i)
				}
			}
			pick := cands[0]
			if len(cands) > 1 && real != nil && len(real.Val) == 1 {
				for _, i := range cands {
					if c16wKeyEq((*T)[i].K, real.Val[0].K) {
						pick = i
					}
				}
			}
			e.Branch = p.Op + "/found"
			e.NMatch, e.ScanFirst = len(matches), pick == matches[0]
			if len(cands) > 1 {
				e.Branch += "/tie"
			}
			found := (*T)[pick].clone()
			ret := found.clone()
			for _, a := range s.assigns {
				ret.set(m, a[0], a[1])
			}
			e.Val = &ret
			for c := 0; c < m.nk()+2; c++ {
				if s.permitted(c) {
					e.ValCols = append(e.ValCols, c)
				}
			}
			if p.Op == "foc" && len(s.assigns) > 0 {
				e.Branch += "/assign"
				for _, a := range s.assigns {
					if s.permitted(a[0]) {
						(*T)[pick].set(m, a[0], a[1])
					}
				}
				// F30: the nested UPDATE is keyed by the NON-ZERO key parts the loaded record carries
				loaded := found.clone()
				for c := 0; c < m.nk(); c++ {
					if !s.permitted(c) {
						loaded.K[c] = 0
					}
				}
				if c16wAnyZero(loaded.K) {
					e.Finding = true
					alt := c16wExp{Rows: c16wCopy(p.Rows), Arch: c16wCopy(p.Arch), Err: "ok", Val: e.Val, ValCols: e.ValCols, Branch: e.Branch + "/f30"}
					AT := &alt.Rows
					if s.arch {
						AT = &alt.Arch
					}
					nw := 0
					for c := 0; c < m.nk(); c++ {
						if loaded.K[c] != 0 {
							nw++
						}
					}
					nw += s.txconds
					global := false
					for _, st := range p.Steps {
						global = global || (st.K == "sess" && st.Form == "global")
					}
					if nw == 0 && !global {
						alt.Err = "other" // ErrMissingWhereClause
					} else { // (under Session{AllowGlobalUpdate} the condition-less UPDATE is sent and hits every visible row)
						for i := range *AT {
							r := &(*AT)[i]
							if r.D != 0 && !s.unscoped {
								continue
							}
							ok := true
							for c := 0; c < m.nk(); c++ {
								if loaded.K[c] != 0 && r.K[c] != loaded.K[c] {
									ok = false
								}
							}
							for _, c := range s.conds[:s.txconds] {
								if r.get(m, c[0]) != c[1] {
									ok = false
								}
							}
							if ok {
								for _, a := range s.assigns {
									if s.permitted(a[0]) {
										r.set(m, a[0], a[1])
									}
								}
							}
						}
					}
					e.Alt = &alt
				}
			}
			break
		}
		e.Branch = p.Op + "/miss"
		built := m.zeroRow()
		for _, c := range s.conds {
			if c[2] == 1 {
				built.set(m, c[0], c[1])
			}
		}
		for _, a := range s.attrs {
			built.set(m, a[0], a[1])
		}
		for _, a := range s.assigns {
			built.set(m, a[0], a[1])
		}
		ret := built.clone()
		e.Val = &ret
		for c := 0; c < m.nk()+2; c++ {
			e.ValCols = append(e.ValCols, c)
		}
		if p.Op == "foi" {
			break
		}
		ins := built.clone()
		for c := m.nk(); c < m.nk()+2; c++ {
			if !s.permitted(c) {
				ins.set(m, c, 0)
			}
		}
		if m.auto && ins.K[0] == 0 {
			ins.K[0] = c16wNewKey
			e.NewKeys++
			e.ValCols = e.ValCols[1:]
			*T = append(*T, ins)
			e.Branch += "/insert"
			break
		}
		if c16wFind(*T, ins.K) >= 0 {
			e.Err, e.Val = "unique", nil
			e.Branch += "/key-taken"
			break
		}
		*T = append(*T, ins)
		e.Branch += "/insert"
	}
	c16wSort(e.Rows)
	c16wSort(e.Arch)
	return e
}

// c16wSameTable: observed vs expected rows; rows with key -1 match any observed row whose key was not in `before`
func c16wSameTable(obs, exp, before []C16WR) bool {
	if len(obs) != len(exp) {
		return false
	}
	used := make([]bool, len(obs))
	var wild []C16WR
	for _, x := range exp {
		if x.K[0] == c16wNewKey {
			wild = append(wild, x)
			continue
		}
		i := c16wFind(obs, x.K)
		if i < 0 || used[i] || obs[i].N != x.N || obs[i].Q != x.Q || obs[i].D != x.D {
			return false
		}
		used[i] = true
	}
	for _, x := range wild {
		ok := false
		for i, o := range obs {
			if used[i] || c16wFind(before, o.K) >= 0 || o.K[0] == 0 {
				continue
			}
			if o.N == x.N && o.Q == x.Q && o.D == x.D {
				used[i], ok = true, true
				break
			}
		}
		if !ok {
			return false
		}
	}
	return true
}

func (p *C16WP) meets(e *c16wExp, real *c16wOut) (string, interface{}, interface{}) {
	m := c16wModels[p.M]
	s := p.sem()
	bMain, bArch := p.Rows, p.Arch
	if !c16wSameTable(real.Rows, e.Rows, bMain) {
		return "table " + m.table + " after the operation differs from the reference", real.Rows, e.Rows
	}
	if !c16wSameTable(real.Arch, e.Arch, bArch) {
		return "table " + m.arch + " after the operation differs from the reference", real.Arch, e.Arch
	}
	if real.Err != e.Err && (e.AltErr == "" || real.Err != e.AltErr) {
		return "error class differs", real.Err, e.Err
	}
	if e.Val != nil && e.Err == "ok" && len(real.Val) == 1 {
		for _, c := range e.ValCols {
			if real.Val[0].get(m, c) != e.Val.get(m, c) {
				return "returned record differs from the reference in column " + m.colName(c), real.Val[0], *e.Val
			}
		}
		if m.soft && !s.hasSel && !s.hasOm && real.Val[0].D != e.Val.D {
			return "returned record differs from the reference in deleted_at", real.Val[0], *e.Val
		}
	}
	return "", nil, nil
}

func c16wDiffCount(a, b []C16WR) int {
	n := 0
	for _, x := range b {
		i := c16wFind(a, x.K)
		if i < 0 || a[i].N != x.N || a[i].Q != x.Q || a[i].D != x.D {
			n++
		}
	}
	for _, x := range a {
		if c16wFind(b, x.K) < 0 {
			n++
		}
	}
	return n
}

// c16wJudge: "" = the real outcome is one the property permits; finding = it is the listed F30 outcome
func (p *C16WP) judge(real *c16wOut) (what string, obs, exp interface{}, finding bool, ref c16wExp) {
	ref = p.refRun(real)
	if strings.HasPrefix(real.Err, "panic") {
		return "panic", real.Err, ref.Err, false, ref
	}
	what, obs, exp = p.meets(&ref, real)
	if what != "" && ref.Alt != nil {
		if w2, _, _ := p.meets(ref.Alt, real); w2 == "" {
			if ref.Finding {
				return what, obs, exp, true, ref
			}
			what = ""
		}
	}
	if what != "" {
		return
	}
	changed := c16wDiffCount(p.Rows, real.Rows) + c16wDiffCount(p.Arch, real.Arch)
	switch p.Op {
	case "foi":
		if real.Writes != 0 || changed != 0 {
			return "FirstOrInit wrote to the database", real.Writes, 0, false, ref
		}
	case "foc":
		if changed > 1 {
			return "FirstOrCreate changed more than one row", changed, "<= 1", false, ref
		}
	}
	return "", nil, nil, false, ref
}

func c16wReport(r *Result, w *c16wEnv, p *C16WP) (c16wOut, c16wExp, bool) {
	real := w.run(p)
	what, obs, exp, finding, ref := p.judge(&real)
	if what == "" {
		return real, ref, true
	}
	if finding && listed(c16F30ID) {
		r.KnownFinding(c16F30ID, "FirstOrCreate found a record whose loaded key has a zero part (legitimately zero composite part, or key column excluded by Select/Omit): the Assign UPDATE is keyed by the non-zero parts only and rewrote every row sharing them")
		return real, ref, false
	}
	r.Violate(Violation{Kind: "e2e", Suite: "wide", Input: p, Observed: obs, Expected: exp, Note: what})
	return real, ref, false
}

// ---- generators ----------------------------------------------------------------------------------

func c16wGenKey(rng *rand.Rand, m *c16wModel, zeroOK bool) []int {
	k := make([]int, m.nk())
	for i := range k {
		lo := 0
		if !zeroOK || (m.auto && i == 0) {
			lo = 1
		}
		k[i] = lo + rng.Intn(3-lo+1)
		if m.nk() >= 3 && k[i] > 2 {
			k[i] = 2
		}
	}
	return k
}

func c16wGenTable(rng *rand.Rand, m *c16wModel, max int, like []C16WR) []C16WR {
	rows := []C16WR{}
	n := rng.Intn(max + 1)
	for i := 0; i < n; i++ {
		var k []int
		switch {
		case len(like) > 0 && rng.Intn(2) == 0:
			k = append([]int{}, like[rng.Intn(len(like))].K...) // same key as a row of the twin table
		case len(rows) > 0 && m.nk() > 1 && rng.Intn(2) == 0:
			// share every part but one with an existing row
			k = append([]int{}, rows[rng.Intn(len(rows))].K...)
			j := rng.Intn(m.nk())
			k[j] = rng.Intn(4)
			if m.nk() >= 3 && k[j] > 2 {
				k[j] = 2
			}
		default:
			k = c16wGenKey(rng, m, rng.Intn(3) == 0)
		}
		if m.auto && k[0] == 0 {
			k[0] = 1 + rng.Intn(4)
		}
		if c16wFind(rows, k) >= 0 {
			continue
		}
		r := C16WR{K: k, N: rng.Intn(4), Q: rng.Intn(5)}
		if m.soft && rng.Intn(3) == 0 {
			r.D = 1
		}
		rows = append(rows, r)
	}
	c16wSort(rows)
	return rows
}

var c16wForms = []string{"struct", "map", "kv", "raw"}

func c16wShuffle(rng *rand.Rand, steps []C16WS) {
	rng.Shuffle(len(steps), func(i, j int) { steps[i], steps[j] = steps[j], steps[i] })
}

// c16wGenMods: the modifiers that must not change what the chain denotes beyond their documented meaning
func c16wGenMods(rng *rand.Rand, m *c16wModel, op string) []C16WS {
	var out []C16WS
	if m.soft && rng.Intn(3) == 0 {
		out = append(out, C16WS{K: "unscoped"})
	}
	if rng.Intn(3) == 0 {
		out = append(out, C16WS{K: "table"})
	}
	if rng.Intn(3) == 0 {
		out = append(out, C16WS{K: "sess", Form: c16SessFlags[rng.Intn(len(c16SessFlags))]})
	}
	if rng.Intn(5) == 0 {
		out = append(out, C16WS{K: "sess", Form: ""})
	}
	if rng.Intn(5) == 0 {
		out = append(out, C16WS{K: "ctx"})
	}
	if (op == "foc" || op == "foi" || op == "create") && rng.Intn(6) == 0 {
		out = append(out, C16WS{K: "model"})
	}
	return out
}

func c16wGenInit(rng *rand.Rand, m *c16wModel, k string, prefer [][2]int) C16WS {
	s := C16WS{K: k, Form: c16wForms[rng.Intn(3)]}
	nk := m.nk()
	cols := []int{nk, nk + 1}
	if s.Form == "kv" || rng.Intn(2) == 0 {
		cols = []int{nk + rng.Intn(2)}
	}
	for _, c := range cols {
		v := 1 + rng.Intn(5)
		if s.Form == "map" && rng.Intn(4) == 0 {
			v = 0
		}
		s.F = append(s.F, [2]int{c, v})
	}
	// name the same column as the other call (with a different value) every other time
	if len(prefer) > 0 && rng.Intn(2) == 0 {
		s.F = [][2]int{{prefer[0][0], 1 + (prefer[0][1]+rng.Intn(4))%5}}
	}
	return s
}

func c16wGenFirst(rng *rand.Rand, m *c16wModel, op string) *C16WP {
	p := &C16WP{M: c16wIndex(m), Op: op}
	p.Rows = c16wGenTable(rng, m, 5, nil)
	p.Arch = c16wGenTable(rng, m, 4, p.Rows)
	mods := c16wGenMods(rng, m, op)
	arch, uns := false, false
	for _, s := range mods {
		arch = arch || s.K == "table"
		uns = uns || s.K == "unscoped"
	}
	T := p.Rows
	if arch {
		T = p.Arch
	}
	// conditions: 2/3 aimed at an existing row (soft-deleted ones included), else random
	ncols := m.nk() + 2
	var fs [][2]int
	if len(T) > 0 && rng.Intn(3) != 0 {
		row := T[rng.Intn(len(T))]
		if m.soft && uns && rng.Intn(2) == 0 {
			for _, r := range T {
				if r.D != 0 {
					row = r
				}
			}
		}
		for c := 0; c < ncols; c++ {
			if rng.Intn(2) == 0 {
				fs = append(fs, [2]int{c, row.get(m, c)})
			}
		}
		if len(fs) == 0 {
			c := rng.Intn(m.nk())
			fs = append(fs, [2]int{c, row.get(m, c)})
		}
	} else {
		for c := 0; c < ncols; c++ {
			if rng.Intn(2) == 0 {
				v := rng.Intn(4)
				if m.auto && c == 0 {
					v = 1 + rng.Intn(5)
				}
				fs = append(fs, [2]int{c, v})
			}
		}
		if len(fs) == 0 {
			fs = append(fs, [2]int{m.nk(), 1 + rng.Intn(3)})
		}
	}
	// round 4: SEVERAL matches — 2..all rows of the addressed table share a payload and the conditions name only that
	// payload, so which of them is "the first match" is decided by the lookup's ORDER BY alone
	if len(T) >= 2 && rng.Intn(3) == 0 {
		n, q := 1+rng.Intn(3), 1+rng.Intn(4)
		sameQ := rng.Intn(3) == 0
		k := 2 + rng.Intn(len(T)-1)
		for _, i := range rng.Perm(len(T))[:k] {
			T[i].N = n
			if sameQ {
				T[i].Q = q
			}
			if m.soft && !uns && rng.Intn(2) == 0 {
				T[i].D = 0
			}
		}
		fs = [][2]int{{m.nk(), n}}
		if sameQ {
			fs = append(fs, [2]int{m.nk() + 1, q})
		}
	}
	rng.Shuffle(len(fs), func(i, j int) { fs[i], fs[j] = fs[j], fs[i] })
	// round 4: ROW ORDER — the rows are INSERTED in shuffled order (p.Rows / p.Arch are kept in insertion order), so a
	// table scan does not yield them in key order
	c16wShuffleRows(rng, p.Rows)
	c16wShuffleRows(rng, p.Arch)
	// split the conditions over Where / Scopes / Clauses(Where) / inline
	var steps []C16WS
	for len(fs) > 0 {
		n := 1 + rng.Intn(len(fs))
		part := fs[:n]
		fs = fs[n:]
		form := c16wForms[rng.Intn(4)]
		if form == "struct" {
			// a struct condition cannot express a zero value
			var nz, z [][2]int
			for _, f := range part {
				if f[1] != 0 {
					nz = append(nz, f)
				} else {
					z = append(z, f)
				}
			}
			if len(z) > 0 {
				steps = append(steps, C16WS{K: "where", Form: "map", F: z})
			}
			if len(nz) == 0 {
				continue
			}
			part = nz
		}
		if m.auto && form == "kv" {
			form = "map"
		}
		switch k := rng.Intn(8); {
		case k == 0:
			steps = append(steps, C16WS{K: "scope", Form: form, F: part})
		case k == 1:
			steps = append(steps, C16WS{K: "cwhere", Form: []string{"str", "col"}[rng.Intn(2)], F: part})
		case k == 2 && p.Inl == nil:
			if form == "kv" {
				form = "raw"
			}
			if form == "raw" {
				// one inline text condition; the rest goes to a Where
				if len(part) > 1 {
					steps = append(steps, C16WS{K: "where", Form: "map", F: part[1:]})
				}
				part = part[:1]
			}
			p.Inl = &C16WS{K: "inline", Form: form, F: part}
		default:
			steps = append(steps, C16WS{K: "where", Form: form, F: part})
		}
	}
	var attrs, assign *C16WS
	if rng.Intn(2) == 0 {
		a := c16wGenInit(rng, m, "attrs", nil)
		attrs = &a
	}
	if rng.Intn(3) != 0 {
		var pref [][2]int
		if attrs != nil {
			pref = attrs.F
		}
		a := c16wGenInit(rng, m, "assign", pref)
		assign = &a
	}
	if attrs != nil {
		steps = append(steps, *attrs)
	}
	if assign != nil {
		steps = append(steps, *assign)
	}
	// Select / Omit over the payload columns (the key columns stay loaded; the other shape is F30, see c16wGenF30)
	switch rng.Intn(8) {
	case 0:
		cols := []int{}
		for c := 0; c < m.nk(); c++ {
			cols = append(cols, c)
		}
		for c := m.nk(); c < ncols; c++ {
			if rng.Intn(2) == 0 {
				cols = append(cols, c)
			}
		}
		steps = append(steps, C16WS{K: "select", Cols: cols})
	case 1:
		steps = append(steps, C16WS{K: "omit", Cols: []int{m.nk() + rng.Intn(2)}})
	}
	steps = append(steps, mods...)
	c16wShuffle(rng, steps)
	if rng.Intn(12) == 0 {
		steps = append([]C16WS{{K: "newdb"}}, steps...)
	}
	p.Steps = steps
	return p
}

func c16wShuffleRows(rng *rand.Rand, rows []C16WR) {
	rng.Shuffle(len(rows), func(i, j int) { rows[i], rows[j] = rows[j], rows[i] })
}

func c16wIndex(m *c16wModel) int {
	for i, x := range c16wModels {
		if x == m {
			return i
		}
	}
	return 0
}

func c16wGenValue(rng *rand.Rand, m *c16wModel, T []C16WR) C16WR {
	v := C16WR{N: rng.Intn(4), Q: rng.Intn(5)}
	switch k := rng.Intn(10); {
	case k < 4 && len(T) > 0:
		v.K = append([]int{}, T[rng.Intn(len(T))].K...) // an existing key (live or soft-deleted)
	case k < 7 && len(T) > 0 && m.nk() > 1:
		// shares every part but one with an existing row; the differing part is zero half of the time
		v.K = append([]int{}, T[rng.Intn(len(T))].K...)
		j := rng.Intn(m.nk())
		if rng.Intn(2) == 0 {
			v.K[j] = 0
		} else {
			v.K[j] = 1 + rng.Intn(3)
		}
	default:
		v.K = c16wGenKey(rng, m, true)
		if m.auto && rng.Intn(3) == 0 {
			v.K[0] = 0
		}
	}
	if m.nk() >= 3 {
		for i := range v.K {
			if v.K[i] > 3 {
				v.K[i] = 3
			}
		}
	}
	return v
}

func c16wGenWrite(rng *rand.Rand, m *c16wModel, op string) *C16WP {
	p := &C16WP{M: c16wIndex(m), Op: op}
	p.Rows = c16wGenTable(rng, m, 5, nil)
	p.Arch = c16wGenTable(rng, m, 4, p.Rows)
	p.Steps = c16wGenMods(rng, m, op)
	c16wShuffle(rng, p.Steps)
	arch := false
	for _, s := range p.Steps {
		arch = arch || s.K == "table"
	}
	T := p.Rows
	if arch {
		T = p.Arch
	}
	n := 1
	if op == "saves" {
		n = 1 + rng.Intn(3)
	}
	defer func() { c16wShuffleRows(rng, p.Rows); c16wShuffleRows(rng, p.Arch) }()
	for len(p.V) < n {
		v := c16wGenValue(rng, m, T)
		if c16wFind(p.V, v.K) >= 0 {
			n--
			continue
		}
		if m.auto && v.K[0] == 0 && op == "saves" {
			// a key handed out by the database inside a multi-row upsert can collide with a later explicit key of the same
			// statement (SQLite): not judged; Save of slices with zero auto keys is covered by the `e2e` suite
			v.K[0] = 1 + rng.Intn(5)
			if c16wFind(p.V, v.K) >= 0 {
				continue
			}
		}
		p.V = append(p.V, v)
	}
	if op == "create" {
		p.Rule = []string{"none", "nothing", "all", "upd"}[rng.Intn(4)]
		p.RTgt = rng.Intn(2) == 0
		if p.Rule == "upd" {
			p.RCols = []int{m.nk() + rng.Intn(2)}
			if rng.Intn(3) == 0 {
				p.RCols = []int{m.nk(), m.nk() + 1}
			}
		}
	}
	return p
}

// c16wGenF30: the listed pattern — found record whose LOADED key has a zero part
func c16wGenF30(rng *rand.Rand) *C16WP {
	m := c16wModels[2+rng.Intn(2)]
	for {
		p := c16wGenFirst(rng, m, "foc")
		hasSelOm := false
		for _, st := range p.Steps {
			hasSelOm = hasSelOm || st.K == "select" || st.K == "omit"
		}
		if !hasSelOm && rng.Intn(2) == 0 {
			// key column not loaded (never next to a Select / a second Omit: a query reads Selects and ignores Omits when both
			// are present, the nested UPDATE reads both — that combination is not in the reference)
			p.Steps = append(p.Steps, C16WS{K: "omit", Cols: []int{rng.Intn(m.nk())}})
		}
		e := p.refRun(nil)
		if e.Finding && !strings.Contains(e.Branch, "/tie") {
			return p
		}
	}
}

func c16wF30Witness() *C16WP {
	return &C16WP{M: 2, Op: "foc",
		Rows:  []C16WR{{K: []int{0, 1}, N: 1, Q: 1}, {K: []int{1, 1}, N: 2, Q: 2}, {K: []int{2, 1}, N: 3, Q: 3}},
		Arch:  []C16WR{},
		Steps: []C16WS{{K: "where", Form: "raw", F: [][2]int{{1, 1}}}, {K: "assign", Form: "struct", F: [][2]int{{3, 5}}}}}
}

func (p *C16WP) nontrivial() bool {
	// the written / queried key or condition meets a non-empty addressed table
	s := p.sem()
	if s.arch {
		return len(p.Arch) > 0
	}
	return len(p.Rows) > 0
}

func c16WideSuite(r *Result, rng *rand.Rand, tier string) {
	n := 2600
	if tier == "thorough" {
		n = 60000
	} else if tier == "search" {
		n = 400000
	}
	w := c16wOpen()
	// probe: re-confirm the listed finding on its witness
	{
		wit := c16wF30Witness()
		real := w.run(wit)
		what, obs, exp, finding, _ := wit.judge(&real)
		switch {
		case what != "" && finding && listed(c16F30ID):
			r.KnownFinding(c16F30ID, "witness Where(\"sku = ?\",\"k1\").Assign(C16W2{Qty:5}).FirstOrCreate(&d): first match (0,k1) has a zero key part; the UPDATE `WHERE sku = ? AND sku = ?` rewrote (1,k1) and (2,k1) as well")
		case what != "":
			r.Violate(Violation{Kind: "e2e", Suite: "wide", Input: wit, Observed: obs, Expected: exp, Note: what})
		default:
			r.Note("finding %s no longer reproduces on its witness", c16F30ID)
		}
	}
	type tieCase struct {
		p    *C16WP
		real c16wOut
	}
	var ties []tieCase
	ops := []string{"foc", "foc", "foc", "foi", "save", "save", "save2", "saves", "create"}
	for i := 0; i < n && !expired(); i++ {
		m := c16wModels[rng.Intn(len(c16wModels))]
		if rng.Intn(3) == 0 {
			m = c16wModels[2] // the composite int+string key most often
		}
		op := ops[rng.Intn(len(ops))]
		var p *C16WP
		switch {
		case i%40 == 39:
			p = c16wGenF30(rng)
		case op == "foc" || op == "foi":
			p = c16wGenFirst(rng, m, op)
		default:
			p = c16wGenWrite(rng, m, op)
		}
		real, ref, ok := c16wReport(r, w, p)
		key := canon(p)
		r.Case("wide", key, p.nontrivial())
		mm := c16wModels[p.M]
		r.H("wide.key_shape", mm.tag)
		r.H("wide.op", p.Op)
		r.H("wide.branch", ref.Branch)
		if p.Op == "foc" || p.Op == "foi" {
			switch {
			case ref.NMatch >= 3:
				r.H("wide.matches", "3+")
			default:
				r.H("wide.matches", fmt.Sprint(ref.NMatch))
			}
			if ref.NMatch >= 2 {
				r.H("wide.first_match_vs_insertion_order", fmt.Sprintf("%s first-inserted-is-first=%v", mm.tag, ref.ScanFirst))
			}
		}
		if ref.Finding {
			r.H("wide.f30_pattern", "yes")
		} else {
			r.H("wide.f30_pattern", "no")
		}
		for _, s := range p.Steps {
			switch s.K {
			case "where", "attrs", "assign", "scope":
				r.H("wide."+s.K+"_form", s.Form)
			case "sess":
				r.H("wide.session_flag", "{"+s.Form+"}")
			default:
				r.H("wide.modifier", s.K)
			}
		}
		for _, v := range p.V {
			switch {
			case mm.auto && v.K[0] == 0:
				r.H("wide.value_key", "zero (auto)")
			case c16wAnyZero(v.K) && mm.nk() > 1:
				z := 0
				for _, x := range v.K {
					if x == 0 {
						z++
					}
				}
				if z == mm.nk() {
					r.H("wide.value_key", "all parts zero")
				} else {
					r.H("wide.value_key", "partly zero")
				}
			case c16wAnyZero(v.K):
				r.H("wide.value_key", "zero string key")
			default:
				r.H("wide.value_key", "non-zero")
			}
		}
		if i < 3 {
			r.Sample(p)
		}
		if ok && !c16wNoTie && p.leanable() {
			ties = append(ties, tieCase{p, real})
		}
	}
	// ---- wide-tie: the same programs against Model.UpsertKeys
	ops2 := make([][]interface{}, len(ties))
	for i, t := range ties {
		ops2[i] = t.p.leanOp()
	}
	for off := 0; off < len(ops2); off += 4000 {
		end := off + 4000
		if end > len(ops2) {
			end = len(ops2)
		}
		ans, err := AskLean(ops2[off:end])
		if err != nil {
			r.Note("lean driver: %v", err)
			return
		}
		for i, a := range ans {
			t := ties[off+i]
			c16wCompareTie(r, t.p, &t.real, a)
		}
	}
}

// ---- tie with Model.UpsertKeys ---------------------------------------------------------------------

// the Lean model covers: conditions / Unscoped / Table / Attrs / Assign (no Select / Omit); first matches that are unique
// in the ORDER BY column; values whose zero key on the auto-increment model is handed a key by the database are compared
// as "max key + 1" (AUTOINCREMENT on a fresh sequence).
func (p *C16WP) leanable() bool {
	s := p.sem()
	if s.hasSel || s.hasOm {
		return false
	}
	e := p.refRun(nil)
	return !strings.Contains(e.Branch, "/tie")
}

func c16wSorted(rows []C16WR) []C16WR {
	out := c16wCopy(rows)
	c16wSort(out)
	return out
}

func c16wRowJ(r C16WR) []interface{} {
	k := make([]interface{}, len(r.K))
	for i, x := range r.K {
		k[i] = x
	}
	return []interface{}{k, r.N, r.Q, r.D}
}

func c16wRowsJ(rs []C16WR) []interface{} {
	out := make([]interface{}, len(rs))
	for i, r := range rs {
		out[i] = c16wRowJ(r)
	}
	return out
}

func c16wPairsJ(fs [][2]int) []interface{} {
	out := make([]interface{}, len(fs))
	for i, f := range fs {
		out[i] = []interface{}{f[0], f[1]}
	}
	return out
}

func (p *C16WP) leanOp() []interface{} {
	m := c16wModels[p.M]
	s := p.sem()
	conds := make([]interface{}, len(s.conds))
	for i, c := range s.conds {
		conds[i] = []interface{}{c[0], c[1], c[2]}
	}
	rule := p.Rule
	if p.Op != "create" {
		rule = ""
	}
	b2i := func(b bool) int {
		if b {
			return 1
		}
		return 0
	}
	return []interface{}{"c16.wide", map[string]interface{}{
		"nk": m.nk(), "auto": b2i(m.auto), "soft": b2i(m.soft),
		// round 4: STORAGE (insertion) order — the model's lookup (UpsertScan.lookupK under the regenerated LookupCfg) decides
		"main": c16wRowsJ(p.Rows), "arch": c16wRowsJ(p.Arch),
		"table": b2i(s.arch), "unscoped": b2i(s.unscoped),
		"conds": conds, "txconds": s.txconds,
		"attrs": c16wPairsJ(s.attrs), "assigns": c16wPairsJ(s.assigns),
		"op": p.Op, "vals": c16wRowsJ(p.V), "rule": rule, "rcols": p.RCols,
	}}
}

type c16wLeanOut struct {
	Main [][]json.RawMessage `json:"main"`
	Arch [][]json.RawMessage `json:"arch"`
	Val  []json.RawMessage   `json:"val"`
	Err  string              `json:"err"`
	Upd  []string            `json:"upd"`
}

func c16wDecRow(raw []json.RawMessage) (r C16WR, ok bool) {
	if len(raw) != 4 {
		return r, false
	}
	if json.Unmarshal(raw[0], &r.K) != nil || json.Unmarshal(raw[1], &r.N) != nil || json.Unmarshal(raw[2], &r.Q) != nil || json.Unmarshal(raw[3], &r.D) != nil {
		return r, false
	}
	return r, true
}

func c16wDecRows(raw [][]json.RawMessage) ([]C16WR, bool) {
	out := []C16WR{}
	for _, x := range raw {
		r, ok := c16wDecRow(x)
		if !ok {
			return nil, false
		}
		out = append(out, r)
	}
	c16wSort(out)
	return out, true
}

func c16wCompareTie(r *Result, p *C16WP, real *c16wOut, raw json.RawMessage) {
	m := c16wModels[p.M]
	var lo c16wLeanOut
	bad := func(note string, obs, exp interface{}) {
		r.Violate(Violation{Kind: "correspondence", Suite: "wide-tie", Input: p, Observed: obs, Expected: exp, Note: note})
	}
	r.Case("wide-tie", canon(p), p.nontrivial())
	r.CorrCompared++
	if err := json.Unmarshal(raw, &lo); err != nil {
		bad("lean answer not understood: "+string(raw), nil, nil)
		return
	}
	lm, ok1 := c16wDecRows(lo.Main)
	la, ok2 := c16wDecRows(lo.Arch)
	if !ok1 || !ok2 {
		bad("lean answer not understood: "+string(raw), nil, nil)
		return
	}
	if canon(real.Rows) != canon(lm) {
		bad("table "+m.table+": real gorm vs Model.UpsertKeys", real.Rows, lm)
		return
	}
	if canon(real.Arch) != canon(la) {
		bad("table "+m.arch+": real gorm vs Model.UpsertKeys", real.Arch, la)
		return
	}
	if real.Err != lo.Err {
		bad("error class: real gorm vs Model.UpsertKeys", real.Err, lo.Err)
		return
	}
	if (p.Op == "foc" || p.Op == "foi") && real.Err == "ok" {
		lv, ok := c16wDecRow(lo.Val)
		if !ok || canon(real.Val[0]) != canon(lv) {
			bad("returned record: real gorm vs Model.UpsertKeys", real.Val, lv)
			return
		}
	}
	// the nested UPDATE (FirstOrCreate found + Assign; Save): table, soft-delete filter, number of bound WHERE values
	if p.Op == "foc" || p.Op == "save" {
		got := real.Upd
		if got == nil {
			got = []string{}
		}
		want := lo.Upd
		for i := range want {
			want[i] = strings.Replace(want[i], "T0", m.table, 1)
			want[i] = strings.Replace(want[i], "T1", m.arch, 1)
			if !m.soft {
				want[i] = strings.Replace(want[i], "|scoped|", "|unscoped|", 1)
			}
		}
		if canon(got) != canon(want) {
			bad("UPDATE statements sent (table|soft-delete filter|bound WHERE values): real gorm vs Model.UpsertKeys", got, want)
			return
		}
	}
	r.H("wide-tie.op", p.Op)
}

func init() {
	register("C16", c16WideSuite)
	replayers["C16/wide"] = func(r *Result, input json.RawMessage) {
		var p C16WP
		if err := json.Unmarshal(input, &p); err != nil {
			r.Note("bad replay input: %v", err)
			return
		}
		c16wReport(r, c16wOpen(), &p)
	}
	replayers["C16/wide-tie"] = func(r *Result, input json.RawMessage) {
		var p C16WP
		if err := json.Unmarshal(input, &p); err != nil {
			r.Note("bad replay input: %v", err)
			return
		}
		if f := flag.Lookup("driver"); f != nil && f.Value.String() != "" {
			driverPath = f.Value.String()
		}
		w := c16wOpen()
		real := w.run(&p)
		ans, err := AskLean([][]interface{}{p.leanOp()})
		if err != nil {
			r.Note("lean driver: %v", err)
			return
		}
		c16wCompareTie(r, &p, &real, ans[0])
	}
}
