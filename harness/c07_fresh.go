package main

// C07 round 4 — family "fresh" of the race-detector programs: COLD schema cache, every goroutine uses its OWN group of model
// types (no type is shared or related across goroutines) and all goroutines make their very first use at the same instant.
// The parses are independent by construction — goroutines share nothing but the cache map, the pools and whatever the schema
// package keeps at package level — so the cold-cache findings F10 / F12 (a parser handed an unfinished schema of a RELATED
// type) cannot apply and EVERY race pair, panic or result difference is a violation.  Relation kinds per group: many2many
// (default join table / custom join keys on non-primary columns / self-referential / both directions / composite keys with
// soft delete), polymorphic has-many + has-one with polymorphicValue, has-one / has-many referencing a non-primary column,
// belongs-to, self-referential belongs-to + has-many, twice-embedded struct with prefixes.

import (
	"fmt"
	"reflect"
	"sort"
	"strings"

	"gorm.io/gorm"
	"gorm.io/gorm/clause"
)

type C07FTag struct {
	ID   uint `gorm:"primaryKey"`
	Name string
}
type C07FPost struct {
	ID    uint `gorm:"primaryKey"`
	Title string
	Tags  []C07FTag `gorm:"many2many:c07f_post_tags"`
}

type C07FSkill struct {
	ID   uint   `gorm:"primaryKey"`
	Slug string `gorm:"uniqueIndex"`
}
type C07FWorker struct {
	ID     uint        `gorm:"primaryKey"`
	Title  string      `gorm:"uniqueIndex"`
	Skills []C07FSkill `gorm:"many2many:c07f_worker_skills;foreignKey:Title;joinForeignKey:WorkerTitle;References:Slug;joinReferences:SkillSlug"`
}

type C07FPerson struct {
	ID      uint `gorm:"primaryKey"`
	Title   string
	Friends []*C07FPerson `gorm:"many2many:c07f_person_friends"`
	BossID  *uint
	Boss    *C07FPerson
	Reports []C07FPerson `gorm:"foreignKey:BossID"`
}

type C07FToy struct {
	ID         uint `gorm:"primaryKey"`
	Name       string
	HolderID   uint
	HolderType string
}
type C07FBadge struct {
	ID         uint `gorm:"primaryKey"`
	Label      string
	HolderID   uint
	HolderType string
}
type C07FOwner struct {
	ID    uint `gorm:"primaryKey"`
	Title string
	Toys  []C07FToy  `gorm:"polymorphic:Holder"`
	Badge *C07FBadge `gorm:"polymorphic:Holder;polymorphicValue:own"`
}

type C07FAddr struct {
	City string
	Zip  string
}
type C07FCustomer struct {
	ID   uint `gorm:"primaryKey"`
	Name string
}
type C07FLine struct {
	ID      uint `gorm:"primaryKey"`
	OrderID uint
	Sku     string
}
type C07FOrder struct {
	ID         uint `gorm:"primaryKey"`
	Title      string
	Ship       C07FAddr `gorm:"embedded;embeddedPrefix:ship_"`
	Bill       C07FAddr `gorm:"embedded;embeddedPrefix:bill_"`
	CustomerID *uint
	Customer   *C07FCustomer
	Lines      []C07FLine `gorm:"foreignKey:OrderID"`
}

type C07FRole struct {
	ID       uint `gorm:"primaryKey"`
	Name     string
	Accounts []C07FAccount `gorm:"many2many:c07f_account_roles"`
}
type C07FAccount struct {
	ID    uint `gorm:"primaryKey"`
	Title string
	Roles []C07FRole `gorm:"many2many:c07f_account_roles"`
}

type C07FMeta struct {
	ID     uint `gorm:"primaryKey"`
	DocRef string
	Info   string
}
type C07FRev struct {
	ID     uint `gorm:"primaryKey"`
	DocRef string
	N      int
}
type C07FDoc struct {
	ID    uint `gorm:"primaryKey"`
	Title string
	Ref   string    `gorm:"uniqueIndex"`
	Meta  *C07FMeta `gorm:"foreignKey:DocRef;references:Ref"`
	Revs  []C07FRev `gorm:"foreignKey:DocRef;references:Ref"`
}

type C07FMember struct {
	ID   uint `gorm:"primaryKey"`
	Nick string
}
type C07FTeam struct {
	Org       string `gorm:"primaryKey"`
	ID        uint   `gorm:"primaryKey;autoIncrement:false"`
	Title     string
	Members   []C07FMember `gorm:"many2many:c07f_team_members"`
	DeletedAt gorm.DeletedAt
}

type c07FreshGroup struct {
	name   string
	models []interface{}
	tables []string
	mk     func(id uint) interface{} // a parent with key id and children whose keys derive from id
	slice  func() interface{}        // *[]Parent
	one    func(id uint) interface{} // *Parent carrying only its key
	assocs []string
	joins  []string
}

var c07FreshGroups = []c07FreshGroup{
	{name: "m2m", models: []interface{}{&C07FTag{}, &C07FPost{}}, tables: []string{"c07_f_tags", "c07_f_posts", "c07f_post_tags"},
		mk: func(id uint) interface{} {
			return &C07FPost{ID: id, Title: fmt.Sprint("p", id), Tags: []C07FTag{{ID: id*10 + 1, Name: "a"}, {ID: id*10 + 2, Name: "b"}}}
		}, slice: func() interface{} { return &[]C07FPost{} }, one: func(id uint) interface{} { return &C07FPost{ID: id} }, assocs: []string{"Tags"}},
	{name: "m2m-custom-keys", models: []interface{}{&C07FSkill{}, &C07FWorker{}}, tables: []string{"c07_f_skills", "c07_f_workers", "c07f_worker_skills"},
		mk: func(id uint) interface{} {
			return &C07FWorker{ID: id, Title: fmt.Sprint("w", id), Skills: []C07FSkill{{ID: id*10 + 1, Slug: fmt.Sprint("s", id, "a")}, {ID: id*10 + 2, Slug: fmt.Sprint("s", id, "b")}}}
		}, slice: func() interface{} { return &[]C07FWorker{} }, one: func(id uint) interface{} { return &C07FWorker{ID: id, Title: fmt.Sprint("w", id)} }, assocs: []string{"Skills"}},
	{name: "self-m2m", models: []interface{}{&C07FPerson{}}, tables: []string{"c07_f_people", "c07f_person_friends"},
		mk: func(id uint) interface{} {
			return &C07FPerson{ID: id, Title: fmt.Sprint("h", id), Friends: []*C07FPerson{{ID: id*10 + 1, Title: "f1"}}, Boss: &C07FPerson{ID: id*10 + 2, Title: "boss"},
				Reports: []C07FPerson{{ID: id*10 + 3, Title: "r1"}}}
		}, slice: func() interface{} { return &[]C07FPerson{} }, one: func(id uint) interface{} { return &C07FPerson{ID: id} }, assocs: []string{"Friends", "Reports"}, joins: []string{"Boss"}},
	{name: "polymorphic", models: []interface{}{&C07FToy{}, &C07FBadge{}, &C07FOwner{}}, tables: []string{"c07_f_toys", "c07_f_badges", "c07_f_owners"},
		mk: func(id uint) interface{} {
			return &C07FOwner{ID: id, Title: fmt.Sprint("o", id), Toys: []C07FToy{{ID: id*10 + 1, Name: "t1"}, {ID: id*10 + 2, Name: "t2"}}, Badge: &C07FBadge{ID: id*10 + 3, Label: "b"}}
		}, slice: func() interface{} { return &[]C07FOwner{} }, one: func(id uint) interface{} { return &C07FOwner{ID: id} }, assocs: []string{"Toys"}, joins: []string{"Badge"}},
	{name: "embedded", models: []interface{}{&C07FCustomer{}, &C07FLine{}, &C07FOrder{}}, tables: []string{"c07_f_customers", "c07_f_lines", "c07_f_orders"},
		mk: func(id uint) interface{} {
			return &C07FOrder{ID: id, Title: fmt.Sprint("o", id), Ship: C07FAddr{City: "s", Zip: "1"}, Bill: C07FAddr{City: "b", Zip: "2"}, Customer: &C07FCustomer{ID: id*10 + 1, Name: "c"},
				Lines: []C07FLine{{ID: id*10 + 2, Sku: "x"}, {ID: id*10 + 3, Sku: "y"}}}
		}, slice: func() interface{} { return &[]C07FOrder{} }, one: func(id uint) interface{} { return &C07FOrder{ID: id} }, assocs: []string{"Lines"}, joins: []string{"Customer"}},
	{name: "m2m-both-ways", models: []interface{}{&C07FRole{}, &C07FAccount{}}, tables: []string{"c07_f_roles", "c07_f_accounts", "c07f_account_roles"},
		mk: func(id uint) interface{} {
			return &C07FAccount{ID: id, Title: fmt.Sprint("a", id), Roles: []C07FRole{{ID: id*10 + 1, Name: "r1"}, {ID: id*10 + 2, Name: "r2"}}}
		}, slice: func() interface{} { return &[]C07FAccount{} }, one: func(id uint) interface{} { return &C07FAccount{ID: id} }, assocs: []string{"Roles"}},
	{name: "non-primary-refs", models: []interface{}{&C07FMeta{}, &C07FRev{}, &C07FDoc{}}, tables: []string{"c07_f_meta", "c07_f_revs", "c07_f_docs"},
		mk: func(id uint) interface{} {
			return &C07FDoc{ID: id, Title: fmt.Sprint("d", id), Ref: fmt.Sprint("ref", id), Meta: &C07FMeta{ID: id*10 + 1, Info: "i"}, Revs: []C07FRev{{ID: id*10 + 2, N: 1}, {ID: id*10 + 3, N: 2}}}
		}, slice: func() interface{} { return &[]C07FDoc{} }, one: func(id uint) interface{} { return &C07FDoc{ID: id, Ref: fmt.Sprint("ref", id)} }, assocs: []string{"Revs"}, joins: []string{"Meta"}},
	{name: "composite-m2m-softdelete", models: []interface{}{&C07FMember{}, &C07FTeam{}}, tables: []string{"c07_f_members", "c07_f_teams", "c07f_team_members"},
		mk: func(id uint) interface{} {
			return &C07FTeam{Org: "acme", ID: id, Title: fmt.Sprint("t", id), Members: []C07FMember{{ID: id*10 + 1, Nick: "m1"}, {ID: id*10 + 2, Nick: "m2"}}}
		}, slice: func() interface{} { return &[]C07FTeam{} }, one: func(id uint) interface{} { return &C07FTeam{Org: "acme", ID: id} }, assocs: []string{"Members"}},
}

func (C07FMeta) TableName() string { return "c07_f_meta" }

func c07FreshModels() (ms []interface{}, ts []string) {
	for _, g := range c07FreshGroups {
		ms = append(ms, g.models...)
		ts = append(ts, g.tables...)
	}
	return
}

// c07Render: canonical print of a value tree (slices sorted, nil pointers, no addresses, no times)
func c07Render(v reflect.Value, depth int) string {
	if depth > 4 {
		return "…"
	}
	switch v.Kind() {
	case reflect.Ptr, reflect.Interface:
		if v.IsNil() {
			return "nil"
		}
		return c07Render(v.Elem(), depth)
	case reflect.Struct:
		if v.Type().String() == "time.Time" || v.Type().String() == "gorm.DeletedAt" {
			return "_"
		}
		var fs []string
		for i := 0; i < v.NumField(); i++ {
			if v.Type().Field(i).IsExported() {
				fs = append(fs, c07Render(v.Field(i), depth+1))
			}
		}
		return "{" + strings.Join(fs, " ") + "}"
	case reflect.Slice:
		var es []string
		for i := 0; i < v.Len(); i++ {
			es = append(es, c07Render(v.Index(i), depth+1))
		}
		sort.Strings(es)
		return "[" + strings.Join(es, ",") + "]"
	default:
		return fmt.Sprint(v.Interface())
	}
}

// opFresh: one operation of goroutine w on ITS group (group index = goroutine index)
func (w *c07RaceWorker) opFresh(h *gorm.DB) string {
	g := c07FreshGroups[(w.g+w.rot)%len(c07FreshGroups)]
	pk := func(d *gorm.DB) *gorm.DB {
		col := clause.Column{Table: clause.CurrentTable, Name: "id"}
		return d.Where(clause.Gte{Column: col, Value: w.base}, clause.Lte{Column: col, Value: w.base + 9999})
	}
	k := w.rng.Intn(9)
	if w.first { // the very first use: a full parse of the group's types through a different entry in every goroutine
		w.first = false
		k = []int{0, 1, 2, 3}[w.g%4]
	}
	if len(w.users) == 0 && k >= 3 && k != 1 {
		k = 0
	}
	w.kinds[fmt.Sprintf("fresh%d:%s", k, g.name)] = true
	pick := func() uint {
		if len(w.users) == 0 {
			return w.base + 1
		}
		return w.users[w.rng.Intn(len(w.users))]
	}
	switch k {
	case 0:
		id := w.next()
		obj := g.mk(id)
		err := h.Create(obj).Error
		if err == nil {
			w.users = append(w.users, id)
		}
		return fmt.Sprintf("create %s %s", c07ErrClass(err), c07Render(reflect.ValueOf(obj), 0))
	case 1:
		out := g.slice()
		err := pk(h.Preload(clause.Associations)).Find(out).Error
		return fmt.Sprintf("preload %s %s", c07ErrClass(err), c07Render(reflect.ValueOf(out), 0))
	case 2:
		out := g.slice()
		d := h
		for _, j := range g.joins {
			d = d.Joins(j)
		}
		err := pk(d).Find(out).Error
		return fmt.Sprintf("joins %s %s", c07ErrClass(err), c07Render(reflect.ValueOf(out), 0))
	case 3:
		rel := g.assocs[w.rng.Intn(len(g.assocs))]
		n := h.Model(g.one(pick())).Association(rel).Count()
		return fmt.Sprintf("assoc-count %s %d", rel, n)
	case 4:
		var n int64
		err := pk(h.Model(g.one(0))).Count(&n).Error
		return fmt.Sprintf("count %s %d", c07ErrClass(err), n)
	case 5:
		res := h.Model(g.one(pick())).Update("title", fmt.Sprintf("u%d", w.rng.Intn(100)))
		return fmt.Sprintf("update %s %d", c07ErrClass(res.Error), res.RowsAffected)
	case 6:
		out := g.one(0)
		err := pk(h).First(out).Error
		return fmt.Sprintf("first %s %s", c07ErrClass(err), c07Render(reflect.ValueOf(out), 0))
	case 7:
		rel := g.assocs[w.rng.Intn(len(g.assocs))]
		err := h.Model(g.one(pick())).Association(rel).Clear()
		return fmt.Sprintf("assoc-clear %s %s", rel, c07ErrClass(err))
	default:
		id := pick()
		res := h.Select(clause.Associations).Delete(g.one(id))
		return fmt.Sprintf("delete %s %d", c07ErrClass(res.Error), res.RowsAffected)
	}
}

// c07FreshSchemaPrints: after the program, the parse result of every group type (relations, join tables and their fields): what a
// goroutine's concurrent first parse built must be what the serial first parse builds
func c07FreshSchemaPrints(shared *gorm.DB, groups int) []string {
	var out []string
	for i := 0; i < groups && i < len(c07FreshGroups); i++ {
		for _, m := range c07FreshGroups[i].models {
			s := c07SchemaOf(shared, m)
			out = append(out, fmt.Sprintf("schema %T: %s", m, strings.Join(c07SchemaPrint(s), " ## ")))
		}
	}
	return out
}
