package main

// C18 correspondence: the Lean handle model (Model/Handle.lean: `Handle.step` over the REGENERATED
// bodies of Session()/getInstance()) against the real gorm.DB on the same derivation programs.
// Compared after every step: the context on the handle's statement (marker id), its clone mode
// (read by reflection) and what the step did to the RECEIVER's statement context.
// No SQL is run here; the e2e suites observe the driver.

import (
	"context"
	"encoding/json"
	"flag"
	"fmt"
	"math/rand"

	"gorm.io/gorm"
)

type c18TieStep struct {
	Kind  string   `json:"kind"` // gi | us
	Flags []string `json:"flags,omitempty"`
	Ctx   int      `json:"ctx"` // us: context id bound when Flags contains "Context"
}

type c18TieProg struct {
	Start string       `json:"start"` // root (clone 1) | session (clone 2) | chain (clone 0)
	Steps []c18TieStep `json:"steps"`
}

func c18TieID(ctx context.Context) int {
	var n int
	if _, err := fmt.Sscanf(CtxMarker(ctx), "n%d", &n); err != nil {
		return 0
	}
	return n
}

// run on the real code; returns per step [ctx id, clone, parentSym]
func c18TieReal(db *gorm.DB, p c18TieProg) ([][3]interface{}, int, int) {
	h := db
	switch p.Start {
	case "session":
		h = db.Session(&gorm.Session{})
	case "chain":
		h = db.Where("1 = 1")
	}
	ctx0, clone0 := c18TieID(h.Statement.Context), c18Clone(h)
	var out [][3]interface{}
	for _, s := range p.Steps {
		parent := h
		before := parent.Statement.Context
		var cfg context.Context
		if s.Kind == "gi" {
			h = h.Where("1 = 1")
		} else {
			b := c18Bind{Kind: "sess", Ctx: -1}
			hasCtx := false
			for _, f := range s.Flags {
				if f == "Context" {
					hasCtx = true
				} else {
					b.Flags = append(b.Flags, f)
				}
			}
			sess := c18Session(b, nil)
			if hasCtx {
				cfg = WithMarker(context.Background(), fmt.Sprint("n", s.Ctx))
				sess.Context = cfg
			}
			h = h.Session(sess)
		}
		sym := "lost"
		after := parent.Statement.Context
		if c18SameObject(after, before) {
			sym = "parent"
		} else if cfg != nil && c18SameObject(after, cfg) {
			sym = "config"
		}
		out = append(out, [3]interface{}{c18TieID(h.Statement.Context), c18Clone(h), sym})
	}
	return out, ctx0, clone0
}

func c18TieCompare(r *Result, db *gorm.DB, progs []c18TieProg) {
	var ops [][]interface{}
	var reals [][][3]interface{}
	for _, p := range progs {
		real, c0, cl0 := c18TieReal(db, p)
		reals = append(reals, real)
		var steps []interface{}
		for _, s := range p.Steps {
			if s.Kind == "gi" {
				steps = append(steps, []interface{}{"gi"})
			} else {
				fl := s.Flags
				if fl == nil {
					fl = []string{}
				}
				steps = append(steps, []interface{}{"us", fl, s.Ctx})
			}
		}
		if steps == nil {
			steps = []interface{}{}
		}
		ops = append(ops, []interface{}{"c18.derive", c0, cl0, steps})
	}
	ans, err := AskLean(ops)
	if err != nil {
		r.Violate(Violation{Kind: "correspondence", Suite: "handle", Input: map[string]interface{}{}, Observed: "lean driver: " + err.Error(), Expected: "answers"})
		return
	}
	for i, p := range progs {
		r.Case("handle", canon(p), len(p.Steps) > 0)
		r.CorrCompared++
		want := canon(reals[i])
		got := canonRaw(ans[i])
		if want != got {
			r.Violate(Violation{Kind: "correspondence", Suite: "handle", Input: p, Observed: "model " + got, Expected: "real " + want,
				Note: "per step [context id on the handle's statement, clone, what happened to the receiver's statement context]"})
		}
	}
}

func c18TieSuite(r *Result, rng *rand.Rand, tier string) {
	db, _, sqlDB := c18Open(nil)
	defer sqlDB.Close()
	all := append(append([]string{}, c18FlagNames...), "Context")
	starts := []string{"root", "session", "chain"}
	// (1) every one of the 2^15 flag valuations, one Session call each
	var progs []c18TieProg
	stride := 1
	if tier == "search" {
		stride = 7
	}
	for mask := 0; mask < 1<<uint(len(all)); mask += stride {
		var fs []string
		for i, f := range all {
			if mask&(1<<uint(i)) != 0 {
				fs = append(fs, f)
			}
		}
		st := starts[rng.Intn(3)]
		if tier == "thorough" {
			for _, s := range starts {
				progs = append(progs, c18TieProg{Start: s, Steps: []c18TieStep{{Kind: "us", Flags: fs, Ctx: 1 + mask%97}}})
			}
			continue
		}
		progs = append(progs, c18TieProg{Start: st, Steps: []c18TieStep{{Kind: "us", Flags: fs, Ctx: 1 + mask%97}}})
	}
	// (2) random multi-step programs
	n := 2000
	if tier == "thorough" {
		n = 100000
	}
	for i := 0; i < n; i++ {
		p := c18TieProg{Start: starts[rng.Intn(3)]}
		for j, l := 0, 1+rng.Intn(7); j < l; j++ {
			if rng.Intn(3) == 0 {
				p.Steps = append(p.Steps, c18TieStep{Kind: "gi"})
				continue
			}
			fs := c18GenFlags(rng)
			if rng.Intn(2) == 0 {
				fs = append(fs, "Context")
			}
			p.Steps = append(p.Steps, c18TieStep{Kind: "us", Flags: fs, Ctx: 1 + i*8 + j})
		}
		progs = append(progs, p)
	}
	for _, p := range progs {
		for _, s := range p.Steps {
			r.H("handle.step", s.Kind)
		}
		r.H("handle.start", p.Start)
	}
	for i := 0; i < len(progs); i += 20000 {
		j := i + 20000
		if j > len(progs) {
			j = len(progs)
		}
		c18TieCompare(r, db, progs[i:j])
	}
}

func init() {
	register("C18", c18TieSuite)
	register("C18", c18BindSuite)
	replayers["C18/handle"] = func(r *Result, input json.RawMessage) {
		var p c18TieProg
		if err := json.Unmarshal(input, &p); err != nil {
			return
		}
		db, _, sqlDB := c18Open(nil)
		defer sqlDB.Close()
		// main.go applies -driver only after the replay branch; honour it here
		if f := flag.Lookup("driver"); f != nil && f.Value.String() != "" {
			driverPath = f.Value.String()
		}
		c18TieCompare(r, db, []c18TieProg{p})
	}
}
