package main

// C07 round 4 — family "carry" of the race-detector programs and the deterministic suite "midflight".
//
// DIMENSION: state CARRIED BY THE SHARED HANDLE.  The reusable handle all goroutines start from is not a bare *gorm.DB but
// `shared.Table/Model(…).<random subset of Order / Select / Omit / Limit / Offset / Joins / Preload / Group / Distinct / Where / Not /
// Scopes / Unscoped>.Session(&gorm.Session{})`; every goroutine adds its own row filter and runs every finisher that rewrites
// clauses temporarily (Count, Pluck, First/Last ordering, FindInBatches, Scan, Rows) next to plain reads and writes.
// DIMENSION: SPELLING of column names given by the program — column name, Go field name, upper case, mixed case
// ("user_name", "UserName", "USER_NAME", "User_Name"; SQL identifiers are case-insensitive, so all are legal) in Update /
// Updates keys / Pluck / Select / Omit / Order / map conditions.
//
// race child: results + final rows vs the serial run, race pairs (this family never runs a schema parser inside the goroutines:
// all models are parsed before the start, so the cold-cache patterns F10 / F12 cannot apply and EVERY pair is unlisted).
//
// "midflight" (ordinary binary, single goroutine, deterministic): callbacks registered before and after every built-in
// callback look at the SHARED handle while an operation started from it is in flight; the handle's Statement (clause keys and
// expressions, WHERE list, selects, omits, joins, preloads, table, model, flags) must be what it was before the operation —
// any other goroutine's getInstance reads exactly these without synchronisation, so a write that is visible mid-flight is a
// data race with every concurrent operation (and a clone taken in the window runs a different statement than alone).  After
// every operation a reflective print of the cached *schema.Schema of every model (all maps, field attributes, relations)
// must equal the print taken right after the parse: the cached schema is read without locks by every goroutine.

import (
	"database/sql"
	"encoding/json"
	"fmt"
	"math/rand"
	"reflect"
	"sort"
	"strings"

	"gorm.io/driver/sqlite"
	"gorm.io/gorm"
	"gorm.io/gorm/clause"
	"gorm.io/gorm/schema"
)

type C07Cat struct {
	ID   uint `gorm:"primaryKey"`
	Name string
}

type C07ItemTag struct {
	ID     uint `gorm:"primaryKey"`
	ItemID uint
	Label  string
}

type C07Item struct {
	ID       uint `gorm:"primaryKey"`
	UserName string
	ZipCode  string
	Score    int
	Note     string
	CatID    *uint
	Cat      *C07Cat
	Tags     []C07ItemTag `gorm:"foreignKey:ItemID"`
}

type C07ItemLite struct {
	ID       uint
	UserName string
	Score    int
}

var c07CarryModels = []interface{}{&C07Cat{}, &C07ItemTag{}, &C07Item{}}
var c07CarryTables = []string{"c07_cats", "c07_item_tags", "c07_items"}

const c07CarryRows = 6

func c07CarrySeed(setup *gorm.DB, g int) {
	base := uint(g+1) * 10000
	cat := C07Cat{ID: base + 1, Name: fmt.Sprintf("cat%d", g)}
	if err := setup.Create(&cat).Error; err != nil {
		panic(err)
	}
	for i := uint(1); i <= c07CarryRows; i++ {
		it := C07Item{ID: base + i, UserName: fmt.Sprintf("u%d_%d", g, i), ZipCode: fmt.Sprintf("z%d", i%3), Score: int((i * 7) % 5), Note: "n", CatID: &cat.ID,
			Tags: []C07ItemTag{{ID: (base+i)*10 + 1, Label: "a"}, {ID: (base+i)*10 + 2, Label: "b"}}}
		if err := setup.Create(&it).Error; err != nil {
			panic(err)
		}
	}
}

func c07ShowItem(it *C07Item) string {
	s := fmt.Sprintf("I%d/%s/%s/%d/%s", it.ID, it.UserName, it.ZipCode, it.Score, it.Note)
	if it.CatID != nil {
		s += fmt.Sprintf(" cid=%d", *it.CatID)
	}
	if it.Cat != nil {
		s += fmt.Sprintf(" C%d/%s", it.Cat.ID, it.Cat.Name)
	}
	var tg []string
	for _, t := range it.Tags {
		tg = append(tg, fmt.Sprintf("t%d%s", t.ID, t.Label))
	}
	sort.Strings(tg)
	return s + "[" + strings.Join(tg, ",") + "]"
}

func c07ShowItems(its []C07Item) string {
	var out []string
	for i := range its {
		out = append(out, c07ShowItem(&its[i]))
	}
	return strings.Join(out, " | ")
}

// c07Spell: one of the legal spellings of a column ("user_name")
func c07Spell(rng *rand.Rand, col string) string {
	parts := strings.Split(col, "_")
	switch rng.Intn(6) {
	case 0, 1:
		return col
	case 2: // Go field name
		s := ""
		for _, p := range parts {
			if p == "id" {
				s += "ID"
			} else {
				s += strings.ToUpper(p[:1]) + p[1:]
			}
		}
		return s
	case 3:
		return strings.ToUpper(col)
	case 4:
		for i, p := range parts {
			parts[i] = strings.ToUpper(p[:1]) + p[1:]
		}
		return strings.Join(parts, "_")
	default: // odd mixed case
		b := []byte(col)
		for i := range b {
			if i%2 == 1 && b[i] >= 'a' && b[i] <= 'z' {
				b[i] -= 32
			}
		}
		return string(b)
	}
}

var c07CarryFeatures = []string{"order", "orderclause", "select", "omit", "limit", "offset", "joins", "preload", "group", "distinct", "where", "not", "scopes", "unscoped", "wheregroup"}

// c07CarryHandle builds the state-carrying shared handle (deterministic in seed).  write = the program writes: the handle then
// carries Table(…) instead of Model(&obj) (a Model object is the CALLER's memory that gorm's update path writes back into).
func c07CarryHandle(shared *gorm.DB, seed int64, write bool) (*gorm.DB, []string) {
	rng := rand.New(rand.NewSource(seed*31 + 7))
	var feats []string
	tx := shared.Table("c07_items")
	if !write && rng.Intn(2) == 0 {
		tx = shared.Model(&C07Item{})
		feats = append(feats, "model")
	} else {
		feats = append(feats, "table")
	}
	n := 2 + rng.Intn(4)
	has := map[string]bool{}
	for len(has) < n {
		f := c07CarryFeatures[rng.Intn(len(c07CarryFeatures))]
		if rng.Intn(3) == 0 {
			f = []string{"order", "orderclause"}[rng.Intn(2)] // ordering is the clause finishers rewrite most
		}
		if has[f] || (f == "select" && has["joins"]) || (f == "joins" && (has["select"] || has["group"])) || (f == "group" && has["joins"]) ||
			(f == "order" && has["orderclause"]) || (f == "orderclause" && has["order"]) {
			if len(has) >= len(c07CarryFeatures)-4 {
				break
			}
			continue
		}
		has[f] = true
		feats = append(feats, f)
		switch f {
		case "order":
			tx = tx.Order("c07_items.score desc").Order("c07_items.id")
		case "orderclause":
			tx = tx.Order(clause.OrderByColumn{Column: clause.Column{Table: clause.CurrentTable, Name: "score"}, Desc: true}).Order("c07_items.id desc")
		case "select":
			tx = tx.Select("id", "user_name", "score", "zip_code", "cat_id")
		case "omit":
			tx = tx.Omit("Note")
		case "limit":
			tx = tx.Limit(50)
		case "offset":
			tx = tx.Offset(0)
		case "joins":
			tx = tx.Joins("Cat")
		case "preload":
			tx = tx.Preload("Tags")
		case "group":
			tx = tx.Group("c07_items.id")
		case "distinct":
			tx = tx.Distinct()
		case "where":
			tx = tx.Where("c07_items.score >= ?", 0)
		case "not":
			tx = tx.Not("c07_items.score = ?", -5)
		case "scopes":
			tx = tx.Scopes(func(d *gorm.DB) *gorm.DB { return d.Where("c07_items.score < ?", 1<<30) })
		case "unscoped":
			tx = tx.Unscoped()
		case "wheregroup": // an Or INSIDE a group (a top-level Or would make the goroutines' row filters overlap)
			tx = tx.Where(shared.Where("c07_items.score >= ?", 0).Or("c07_items.score = ?", -7))
		}
	}
	if c07CarryStatic(seed) {
		// DIRECT programs: the goroutines call finishers on the shared handle ITSELF (the receiver of Count / Find / Pluck / … is the
		// shared *gorm.DB, no chain method in between); the handle restricts itself to a block of rows nobody writes
		tx = tx.Where("c07_items.id BETWEEN ? AND ?", c07CarryStaticBase, c07CarryStaticBase+9999).Set("c07:static", true)
		feats = append(feats, "direct")
	}
	return tx.Session(&gorm.Session{}), feats
}

const c07CarryStaticG = 87
const c07CarryStaticBase = uint(c07CarryStaticG+1) * 10000

func c07CarryStatic(seed int64) bool { return seed%2 == 1 }

// opCarryDirect: finishers called directly on the shared handle (static rows, read-only)
func (w *c07RaceWorker) opCarryDirect(h *gorm.DB) string {
	k := w.rng.Intn(14)
	sp := func(col string) string { return c07Spell(w.rng, col) }
	w.kinds[fmt.Sprintf("direct%02d", k)] = true
	switch k {
	case 0, 1, 2:
		var n int64
		err := h.Count(&n).Error
		return fmt.Sprintf("dcount %s %d", c07ErrClass(err), n)
	case 3:
		var its []C07Item
		err := h.Find(&its).Error
		return fmt.Sprintf("dfind %s %s", c07ErrClass(err), c07ShowItems(its))
	case 4:
		var it C07Item
		err := h.First(&it).Error
		return fmt.Sprintf("dfirst %s %s", c07ErrClass(err), c07ShowItem(&it))
	case 5:
		var it C07Item
		err := h.Last(&it).Error
		return fmt.Sprintf("dlast %s %s", c07ErrClass(err), c07ShowItem(&it))
	case 6:
		var it C07Item
		err := h.Take(&it).Error
		return fmt.Sprintf("dtake %s %d", c07ErrClass(err), it.ID)
	case 7:
		col := sp([]string{"user_name", "zip_code", "score"}[w.rng.Intn(3)])
		var vals []string
		err := h.Pluck(col, &vals).Error
		return fmt.Sprintf("dpluck %s %s %v", col, c07ErrClass(err), vals)
	case 8:
		var ls []C07ItemLite
		err := h.Scan(&ls).Error
		return fmt.Sprintf("dscan %s %v", c07ErrClass(err), ls)
	case 9:
		rows, err := h.Rows()
		if err != nil {
			return "drows " + c07ErrClass(err)
		}
		n := 0
		for rows.Next() {
			n++
		}
		rows.Close()
		return fmt.Sprintf("drows ok %d", n)
	case 10:
		var its []C07Item
		var seen []string
		err := h.FindInBatches(&its, 2, func(tx *gorm.DB, batch int) error {
			seen = append(seen, fmt.Sprintf("b%d:%s", batch, c07ShowItems(its)))
			if batch >= 12 {
				return fmt.Errorf("c07: stop after %d batches", batch)
			}
			return nil
		}).Error
		return fmt.Sprintf("dbatches %s %v", c07ErrClass(err), seen)
	case 11: // the operation whose result depends on the carried ordering
		var its []C07Item
		err := h.Limit(1).Find(&its).Error
		return fmt.Sprintf("dlimit1 %s %s", c07ErrClass(err), c07ShowItems(its))
	case 12:
		col := sp("user_name")
		var its []C07Item
		err := h.Select(col, "id").Limit(3).Find(&its).Error
		return fmt.Sprintf("dselect %s %s %s", col, c07ErrClass(err), c07ShowItems(its))
	default:
		it := C07Item{}
		err := h.FirstOrInit(&it).Error
		return fmt.Sprintf("dfirstorinit %s %d", c07ErrClass(err), it.ID)
	}
}

const c07CarryOpKinds = 24

// opCarry: one operation of a goroutine on its own rows through the state-carrying handle h
func (w *c07RaceWorker) opCarry(h *gorm.DB) string {
	if _, static := h.Get("c07:static"); static {
		return w.opCarryDirect(h)
	}
	lo, hi := w.base, w.base+9999
	own := func(d *gorm.DB) *gorm.DB { return d.Where("c07_items.id BETWEEN ? AND ?", lo, hi) }
	id := w.base + 1 + uint(w.rng.Intn(c07CarryRows))
	k := w.rng.Intn(c07CarryOpKinds)
	if w.only != "" {
		var ks []int
		for _, s := range strings.Split(w.only, ",") {
			var n int
			if _, err := fmt.Sscan(s, &n); err == nil {
				ks = append(ks, n)
			}
		}
		if len(ks) > 0 {
			k = ks[w.rng.Intn(len(ks))]
		}
	}
	if w.ro {
		switch k {
		case 8, 9, 14, 15, 19, 21:
			k = []int{0, 3, 16, 10}[w.rng.Intn(4)]
		}
	}
	sp := func(col string) string { return c07Spell(w.rng, col) }
	w.kinds[fmt.Sprintf("carry%02d", k)] = true
	switch k {
	case 0:
		var n int64
		err := own(h).Count(&n).Error
		return fmt.Sprintf("count %s %d", c07ErrClass(err), n)
	case 1:
		var its []C07Item
		err := own(h).Find(&its).Error
		return fmt.Sprintf("find %s %s", c07ErrClass(err), c07ShowItems(its))
	case 2:
		var it C07Item
		var err error
		which := w.rng.Intn(3)
		switch which {
		case 0:
			err = own(h).First(&it).Error
		case 1:
			err = own(h).Last(&it).Error
		default:
			err = h.Where("c07_items.id = ?", id).Take(&it).Error
		}
		return fmt.Sprintf("first%d %s %s", which, c07ErrClass(err), c07ShowItem(&it))
	case 3:
		col := sp([]string{"user_name", "zip_code", "score"}[w.rng.Intn(3)])
		var vals []string
		err := own(h).Pluck(col, &vals).Error
		return fmt.Sprintf("pluck %s %s %v", col, c07ErrClass(err), vals)
	case 4:
		var ls []C07ItemLite
		err := own(h).Scan(&ls).Error
		return fmt.Sprintf("scan %s %v", c07ErrClass(err), ls)
	case 5:
		rows, err := own(h).Rows()
		if err != nil {
			return "rows " + c07ErrClass(err)
		}
		var out []string
		for rows.Next() {
			var l C07ItemLite
			if err := h.ScanRows(rows, &l); err != nil {
				out = append(out, c07ErrClass(err))
				break
			}
			out = append(out, fmt.Sprint(l))
		}
		rows.Close()
		return fmt.Sprintf("rows ok %v", out)
	case 6:
		var n int64
		err := own(h).Session(&gorm.Session{}).Count(&n).Error
		var its []C07Item
		err2 := own(h).Limit(2).Find(&its).Error
		return fmt.Sprintf("count+find %s %d %s %s", c07ErrClass(err), n, c07ErrClass(err2), c07ShowItems(its))
	case 7:
		var its []C07Item
		var seen []string
		err := own(h).FindInBatches(&its, 2, func(tx *gorm.DB, batch int) error {
			seen = append(seen, fmt.Sprintf("b%d:%s", batch, c07ShowItems(its)))
			if batch >= 12 { // with some carried clauses (ordering not by key) the batch loop of the unchanged tree does not advance: not C07's matter
				return fmt.Errorf("c07: stop after %d batches", batch)
			}
			return nil
		}).Error
		return fmt.Sprintf("batches %s %v", c07ErrClass(err), seen)
	case 8:
		col := sp([]string{"user_name", "zip_code", "note"}[w.rng.Intn(3)])
		v := fmt.Sprintf("v%d_%d", w.g, w.rng.Intn(1000))
		res := h.Model(&C07Item{ID: id}).Update(col, v)
		return fmt.Sprintf("update %s %s %d", col, c07ErrClass(res.Error), res.RowsAffected)
	case 9:
		m := map[string]interface{}{sp("user_name"): fmt.Sprintf("m%d_%d", w.g, w.rng.Intn(1000)), sp("score"): w.rng.Intn(5)}
		var keys []string
		for k := range m {
			keys = append(keys, k)
		}
		sort.Strings(keys)
		res := h.Model(&C07Item{ID: id}).Updates(m)
		return fmt.Sprintf("updates %v %s %d", keys, c07ErrClass(res.Error), res.RowsAffected)
	case 10:
		col := sp("user_name")
		var its []C07Item
		err := own(h).Select(col, sp("id")).Find(&its).Error
		return fmt.Sprintf("select %s %s %s", col, c07ErrClass(err), c07ShowItems(its))
	case 11:
		col := sp("note")
		var its []C07Item
		err := own(h).Omit(col, sp("zip_code")).Find(&its).Error
		return fmt.Sprintf("omit %s %s %s", col, c07ErrClass(err), c07ShowItems(its))
	case 12:
		col := sp("score")
		var its []C07Item
		err := own(h).Order(col + " desc").Limit(2).Find(&its).Error
		return fmt.Sprintf("order %s %s %s", col, c07ErrClass(err), c07ShowItems(its))
	case 13:
		col := sp("zip_code")
		var its []C07Item
		err := own(h).Where(map[string]interface{}{col: "z1"}).Find(&its).Error
		return fmt.Sprintf("wheremap %s %s %s", col, c07ErrClass(err), c07ShowItems(its))
	case 14:
		nid := w.next() + 100
		it := C07Item{ID: nid, UserName: fmt.Sprintf("new%d", nid), ZipCode: "zz", Score: 1, Note: "c"}
		err := h.Create(&it).Error
		return fmt.Sprintf("create %s %d", c07ErrClass(err), it.ID)
	case 15:
		res := h.Where("c07_items.id = ?", id).Delete(&C07Item{})
		it := C07Item{ID: id, UserName: fmt.Sprintf("re%d", id), ZipCode: "z0", Score: 2, Note: "r"}
		err2 := h.Session(&gorm.Session{NewDB: true}).Create(&it).Error
		return fmt.Sprintf("delete %s %d recreate %s", c07ErrClass(res.Error), res.RowsAffected, c07ErrClass(err2))
	case 16:
		var its []C07Item
		err := own(h).Limit(1).Find(&its).Error
		return fmt.Sprintf("limit1 %s %s", c07ErrClass(err), c07ShowItems(its))
	case 17:
		var n int64
		col := sp("zip_code")
		err := own(h).Distinct(col).Count(&n).Error
		return fmt.Sprintf("countdistinct %s %s %d", col, c07ErrClass(err), n)
	case 18:
		var n int64
		err := own(h).Group("c07_items.zip_code").Count(&n).Error
		return fmt.Sprintf("groupcount %s %d", c07ErrClass(err), n)
	case 19:
		it := C07Item{}
		err := h.Where("c07_items.id = ?", id).Attrs(C07Item{Note: "attr"}).FirstOrCreate(&it).Error
		return fmt.Sprintf("firstorcreate %s %s", c07ErrClass(err), c07ShowItem(&it))
	case 20:
		it := C07Item{}
		err := h.Where("c07_items.id = ?", w.base+500).Assign(map[string]interface{}{sp("note"): "init"}).FirstOrInit(&it).Error
		return fmt.Sprintf("firstorinit %s %s", c07ErrClass(err), c07ShowItem(&it))
	case 21:
		it := C07Item{ID: id, UserName: fmt.Sprintf("s%d_%d", w.g, w.rng.Intn(100)), ZipCode: "z2", Score: 3, Note: "s"}
		err := h.Session(&gorm.Session{NewDB: true}).Save(&it).Error
		return fmt.Sprintf("save %s", c07ErrClass(err))
	case 22:
		n := h.Session(&gorm.Session{NewDB: true}).Model(&C07Item{ID: id}).Association("Tags").Count()
		var its []C07Item
		err := own(h).Preload("Cat").Limit(2).Find(&its).Error
		return fmt.Sprintf("assoc %d preload %s %s", n, c07ErrClass(err), c07ShowItems(its))
	default:
		var its []C07Item
		var n int64
		err := own(h).Find(&its).Count(&n).Error // a finisher's result handle used for a second finisher
		return fmt.Sprintf("find+count %s %d %s", c07ErrClass(err), n, c07ShowItems(its))
	}
}

// ---------- prints ----------

// c07StmtPrint: everything of a handle's own Statement that getInstance / clone hand to the next operation
func c07StmtPrint(st *gorm.Statement) string {
	if st == nil {
		return "<nil>"
	}
	var cl []string
	for k, c := range st.Clauses {
		cl = append(cl, fmt.Sprintf("%s:%T%v", k, c.Expression, c.Expression))
	}
	sort.Strings(cl)
	var pre []string
	for k := range st.Preloads {
		pre = append(pre, k)
	}
	sort.Strings(pre)
	var joins []string
	for _, j := range st.Joins {
		joins = append(joins, j.Name)
	}
	return c07ReHex.ReplaceAllString(fmt.Sprintf("table=%q tableExpr=%v model=%T dest=%T unscoped=%v distinct=%v clauses=%v selects=%v omits=%v colmap=%v joins=%v preloads=%v sql=%d vars=%d schema=%v skipHooks=%v raise=%v build=%v err=%v rows=%d",
		st.Table, st.TableExpr != nil, st.Model, st.Dest, st.Unscoped, st.Distinct, cl, st.Selects, st.Omits, st.ColumnMapping, joins, pre, st.SQL.Len(), len(st.Vars),
		st.Schema != nil, st.SkipHooks, st.RaiseErrorOnNotFound, st.BuildClauses, st.DB.Error, st.DB.RowsAffected), "0x?")
}

// c07ReflectScalars prints the exported scalar / string-collection fields of a struct value
func c07ReflectScalars(v reflect.Value) []string {
	var out []string
	t := v.Type()
	for i := 0; i < t.NumField(); i++ {
		f := t.Field(i)
		if !f.IsExported() {
			continue
		}
		fv := v.Field(i)
		switch fv.Kind() {
		case reflect.String, reflect.Bool, reflect.Int, reflect.Int8, reflect.Int16, reflect.Int32, reflect.Int64, reflect.Uint, reflect.Uint8, reflect.Uint16,
			reflect.Uint32, reflect.Uint64:
			out = append(out, fmt.Sprintf("%s=%v", f.Name, fv.Interface()))
		case reflect.Map:
			var ks []string
			for _, k := range fv.MapKeys() {
				e := fv.MapIndex(k)
				s := fmt.Sprint(k.Interface())
				switch e.Kind() {
				case reflect.String, reflect.Bool:
					s += "=" + fmt.Sprint(e.Interface())
				case reflect.Ptr:
					if !e.IsNil() && e.Elem().Kind() == reflect.Struct {
						if n := e.Elem().FieldByName("Name"); n.IsValid() && n.Kind() == reflect.String {
							s += "->" + n.String()
						}
					}
				}
				ks = append(ks, s)
			}
			sort.Strings(ks)
			out = append(out, fmt.Sprintf("%s{%d}=%v", f.Name, len(ks), ks))
		case reflect.Slice:
			var es []string
			for j := 0; j < fv.Len(); j++ {
				e := fv.Index(j)
				switch {
				case e.Kind() == reflect.String:
					es = append(es, e.String())
				case e.Kind() == reflect.Ptr && !e.IsNil() && e.Elem().Kind() == reflect.Struct:
					if n := e.Elem().FieldByName("Name"); n.IsValid() && n.Kind() == reflect.String {
						es = append(es, n.String())
					} else {
						es = append(es, "*")
					}
				default:
					es = append(es, "·")
				}
			}
			out = append(out, fmt.Sprintf("%s[%d]=%v", f.Name, fv.Len(), es))
		case reflect.Ptr, reflect.Interface, reflect.Func:
			out = append(out, fmt.Sprintf("%s nil=%v", f.Name, fv.IsNil()))
		}
	}
	return out
}

// c07SchemaPrint: a reflective print of a cached schema: its own scalar fields, maps (keys → field names) and slices, every field's
// attributes, every relation (type, references, join table and its fields)
func c07SchemaPrint(s *schema.Schema) []string {
	if s == nil {
		return []string{"<nil>"}
	}
	out := c07ReflectScalars(reflect.ValueOf(s).Elem())
	for _, f := range s.Fields {
		out = append(out, "field "+f.Name+": "+strings.Join(c07ReflectScalars(reflect.ValueOf(f).Elem()), " "))
	}
	var rels []string
	for name, rel := range s.Relationships.Relations {
		line := fmt.Sprintf("rel %s: %s", name, strings.Join(c07ReflectScalars(reflect.ValueOf(rel).Elem()), " "))
		for _, ref := range rel.References {
			pk, fk := "-", "-"
			if ref.PrimaryKey != nil {
				pk = ref.PrimaryKey.Name
			}
			if ref.ForeignKey != nil {
				fk = ref.ForeignKey.Name
			}
			line += fmt.Sprintf(" ref(%s,%s,%q,own=%v)", pk, fk, ref.PrimaryValue, ref.OwnPrimaryKey)
		}
		if rel.JoinTable != nil {
			var jf []string
			for k := range rel.JoinTable.FieldsByName {
				jf = append(jf, k)
			}
			sort.Strings(jf)
			line += fmt.Sprintf(" join(%s,%v,%v)", rel.JoinTable.Table, jf, rel.JoinTable.DBNames)
		}
		rels = append(rels, line)
	}
	sort.Strings(rels)
	out = append(out, rels...)
	out = append(out, fmt.Sprintf("relcounts hasOne=%d belongsTo=%d hasMany=%d m2m=%d embedded=%d", len(s.Relationships.HasOne), len(s.Relationships.BelongsTo),
		len(s.Relationships.HasMany), len(s.Relationships.Many2Many), len(s.Relationships.EmbeddedRelations)))
	return out
}

func c07SchemaOf(db *gorm.DB, model interface{}) *schema.Schema {
	st := &gorm.Statement{DB: db}
	if err := st.Parse(model); err != nil {
		return nil
	}
	return st.Schema
}

func c07FirstDiff(a, b []string) string {
	for i := range a {
		if i >= len(b) {
			return fmt.Sprintf("line %d missing; before: %s", i, a[i])
		}
		if a[i] != b[i] {
			return fmt.Sprintf("before: %s || after: %s", a[i], b[i])
		}
	}
	if len(b) > len(a) {
		return "extra line after: " + b[len(a)]
	}
	return ""
}

// ---------- suite "midflight" ----------

type c07MidCase struct {
	Seed  int64  `json:"seed"`
	Ops   int    `json:"ops"`
	Write bool   `json:"write"`
	Only  string `json:"only,omitempty"`
}

func init() {
	register("C07", c07Midflight)
	replayers["C07/midflight"] = func(r *Result, input json.RawMessage) {
		var c c07MidCase
		if json.Unmarshal(input, &c) == nil {
			c07MidflightRun(r, c)
		}
	}
}

func c07Midflight(r *Result, rng *rand.Rand, tier string) {
	if o := c07Only(); o != "" && o != "midflight" {
		return
	}
	n := 60
	if tier == "thorough" {
		n = 1500
	}
	for i := 0; i < n && !expired(); i++ {
		c := c07MidCase{Seed: rng.Int63n(1 << 40), Ops: 14 + rng.Intn(10), Write: rng.Intn(3) != 0}
		if c07MidflightRun(r, c) {
			break
		}
	}
}

// c07MidflightRun: true = a violation was reported
func c07MidflightRun(r *Result, c c07MidCase) bool {
	var sqlDB *sql.DB
	setup, _, sqlDB := OpenRec(&gorm.Config{NowFunc: fixedNowFunc})
	defer sqlDB.Close()
	sqlDB.SetMaxOpenConns(1)
	if err := setup.AutoMigrate(c07CarryModels...); err != nil {
		panic(err)
	}
	c07CarrySeed(setup, 0)
	c07CarrySeed(setup, c07CarryStaticG)
	shared, err := gorm.Open(sqlite.Dialector{Conn: sqlDB}, &gorm.Config{NowFunc: fixedNowFunc, Logger: c07NewTraceLogger()})
	if err != nil {
		panic(err)
	}
	h, feats := c07CarryHandle(shared, c.Seed, c.Write)
	// parse phase: done before any operation; the cached schemas are read-only from here on
	var schemas []*schema.Schema
	var before [][]string
	for _, m := range c07CarryModels {
		schemas = append(schemas, c07SchemaOf(shared, m))
	}
	for _, s := range schemas { // after ALL parses (a parse inserts back references into the schemas of related models: F12's ground)
		before = append(before, c07SchemaPrint(s))
	}
	base := c07StmtPrint(h.Statement)
	basePtr := h.Statement
	mid := ""
	where := ""
	look := func(at string) func(*gorm.DB) {
		return func(tx *gorm.DB) {
			if mid != "" {
				return
			}
			if h.Statement != basePtr {
				mid, where = "the handle's Statement pointer was replaced", at
			} else if now := c07StmtPrint(h.Statement); now != base {
				mid, where = fmt.Sprintf("before the operation: %s || while it is in flight: %s", base, now), at
			}
		}
	}
	cb := shared.Callback()
	_ = cb.Query().Before("*").Register("c07:mid_q0", look("before query callbacks"))
	_ = cb.Query().After("*").Register("c07:mid_q1", look("after query callbacks"))
	_ = cb.Query().After("gorm:query").Register("c07:mid_q2", look("after gorm:query"))
	_ = cb.Row().Before("*").Register("c07:mid_r0", look("before row callbacks"))
	_ = cb.Row().After("*").Register("c07:mid_r1", look("after row callbacks"))
	_ = cb.Create().Before("*").Register("c07:mid_c0", look("before create callbacks"))
	_ = cb.Create().After("gorm:create").Register("c07:mid_c1", look("after gorm:create"))
	_ = cb.Update().Before("*").Register("c07:mid_u0", look("before update callbacks"))
	_ = cb.Update().After("gorm:update").Register("c07:mid_u1", look("after gorm:update"))
	_ = cb.Delete().Before("*").Register("c07:mid_d0", look("before delete callbacks"))
	_ = cb.Delete().After("gorm:delete").Register("c07:mid_d1", look("after gorm:delete"))
	_ = cb.Raw().Before("*").Register("c07:mid_x0", look("before raw callbacks"))
	w := &c07RaceWorker{g: 0, base: 10000, rng: rand.New(rand.NewSource(c.Seed*131 + 1)), kinds: map[string]bool{}, ro: !c.Write, only: c.Only}
	r.H("midflight.handle", strings.Join(feats, "+"))
	for _, f := range feats {
		r.H("midflight.carried", f)
	}
	for i := 0; i < c.Ops; i++ {
		res := c07Guard(func() string { return w.opCarry(h) })
		kind := strings.SplitN(res, " ", 2)[0]
		r.H("midflight.op", kind)
		r.Case("midflight", fmt.Sprintf("%v|%s", feats, kind), true)
		if strings.Contains(res, " err:") {
			r.H("midflight.result", "operation error (same alone and concurrently; handle still judged)")
		}
		viol := func(obs, exp, note string) bool {
			r.H("midflight.result", "VIOLATION")
			r.Violate(Violation{Kind: "e2e", Suite: "midflight", Input: c, Observed: fmt.Sprintf("operation %d (%s) on the handle carrying %v: %s", i, res, feats, obs), Expected: exp, Note: note})
			return true
		}
		if mid != "" {
			return viol(where+": "+mid, "an operation started through a shared handle never changes the handle's own Statement, not even temporarily",
				"every other goroutine's getInstance / Statement.clone reads the handle's Statement without synchronisation: a write that is visible while the operation is in flight is a data race with any concurrent operation, and a clone taken in the window builds a different statement than when it runs alone")
		}
		if h.Statement != basePtr || c07StmtPrint(h.Statement) != base {
			return viol("after the operation: "+c07StmtPrint(h.Statement)+" || before: "+base, "the handle's Statement is unchanged after the operation", "an operation wrote the shared handle's Statement")
		}
		for j, s := range schemas {
			if d := c07FirstDiff(before[j], c07SchemaPrint(s)); d != "" {
				return viol("cached schema of "+s.Name+" changed: "+d, "a cached *schema.Schema is read-only after its parse",
					"every goroutine reads the cached schema's maps and fields without locks (LookUpField, SelectAndOmitColumns ranging over FieldsByName, Scan): a write after the parse phase is a data race with any concurrent operation on the model")
			}
		}
	}
	r.H("midflight.result", "handle and cached schemas constant")
	return false
}
