package main

// C16 — Save / Create+OnConflict / FirstOrInit / FirstOrCreate converge to the documented state,
// independent of Session/WithContext calls in the chain.
//
// Suites (reuse / reuse-tie live in c16_reuse.go, the partial-insert generator and the sql suite in c16_partial.go):
//   tie  — correspondence: the real finisher on SQLite vs the Lean model (`c16.run`) on the same
//          table / chain / finisher: table after (all columns, timestamps as 0|NOW), returned
//          record, RowsAffected, error class.
//   e2e  — oracle independent of the model: a Go reference map keyed by primary key implements the
//          documented semantics; every variant of a logical chain with Session(&Session{}) /
//          WithContext inserted at every position must produce the reference outcome.
//
// Value encoding shared with the model: every column holds a small natural number; 0 = Go zero value
// ("" / 0 / zero time / NULL), strings are "v<n>", times are fixedNow + (n-1)h (NOW = 1).

import (
	"context"
	"database/sql"
	"encoding/json"
	"errors"
	"flag"
	"fmt"
	"math/rand"
	"sort"
	"strings"
	"time"

	"gorm.io/gorm"
	"gorm.io/gorm/clause"
)

type C16Base struct {
	ID        uint `gorm:"primaryKey"`
	Name      string
	Age       int
	Email     string
	Code      string `gorm:"default:v7"`
	Rank      int    `gorm:"default:(8)"`
	CreatedAt time.Time
	UpdatedAt time.Time
	// `default:null`: HasDefaultValue, DefaultValueInterface == nil, DefaultValue "null" — left out of the INSERT when
	// zero, but (unlike Rank) part of the UpdateAll expansion when it IS inserted
	Note string `gorm:"default:null"`
}

type C16U struct {
	C16Base
}

type C16S struct {
	C16Base
	DeletedAt gorm.DeletedAt
}

const (
	c16ID = iota
	c16Name
	c16Age
	c16Email
	c16Code
	c16Rank
	c16Created
	c16Updated
	c16Note
	c16Deleted
)

const c16F3ID = "F3-C16-clone-drops-attrs-assigns"

var c16Cols = []string{"id", "name", "age", "email", "code", "rank", "created_at", "updated_at", "note", "deleted_at"}
var c16IsStr = []bool{false, true, false, true, true, false, false, false, true, false}
var c16IsTime = []bool{false, false, false, false, false, false, true, true, false, true}

func c16Kinds(soft bool) []interface{} {
	k := []interface{}{[]interface{}{"pk"}, []interface{}{"plain"}, []interface{}{"plain"}, []interface{}{"plain"},
		[]interface{}{"cd", 7}, []interface{}{"dd", 8}, []interface{}{"ac"}, []interface{}{"au"}, []interface{}{"dn"}}
	if soft {
		k = append(k, []interface{}{"sd"})
	}
	return k
}

func c16N(soft bool) int {
	if soft {
		return 10
	}
	return 9
}

func (C16U) TableName() string { return "c16_u" }
func (C16S) TableName() string { return "c16_s" }

func c16Table(soft bool) string {
	if soft {
		return "c16_s"
	}
	return "c16_u"
}

func c16EncS(n int) string {
	if n == 0 {
		return ""
	}
	return fmt.Sprint("v", n)
}

func c16DecS(s string) int {
	if s == "" {
		return 0
	}
	var n int
	if _, err := fmt.Sscanf(s, "v%d", &n); err != nil {
		return -1
	}
	return n
}

func c16EncT(n int) time.Time {
	if n == 0 {
		return time.Time{}
	}
	return fixedNow.Add(time.Duration(n-1) * time.Hour)
}

func c16DecT(t time.Time) int {
	if t.IsZero() || t.Year() <= 1 {
		return 0
	}
	d := t.Sub(fixedNow)
	if d < 0 || d%time.Hour != 0 {
		return -1
	}
	return int(d/time.Hour) + 1
}

// Go value of column c holding n (what a user would put into a map / kv argument)
func c16Val(c, n int) interface{} {
	switch {
	case c16IsStr[c]:
		return c16EncS(n)
	case c16IsTime[c]:
		return c16EncT(n)
	case c == c16ID:
		return uint(n)
	}
	return n
}

func c16Mk(soft bool, r []int) interface{} {
	b := C16Base{ID: uint(r[0]), Name: c16EncS(r[1]), Age: r[2], Email: c16EncS(r[3]), Code: c16EncS(r[4]), Rank: r[5],
		CreatedAt: c16EncT(r[6]), UpdatedAt: c16EncT(r[7]), Note: c16EncS(r[8])}
	if soft {
		s := &C16S{C16Base: b}
		if r[c16Deleted] != 0 {
			s.DeletedAt = gorm.DeletedAt{Time: c16EncT(r[c16Deleted]), Valid: true}
		}
		return s
	}
	return &C16U{C16Base: b}
}

func c16Rd(v interface{}) []int {
	var b C16Base
	out := []int{}
	switch x := v.(type) {
	case *C16U:
		b = x.C16Base
	case *C16S:
		b = x.C16Base
	}
	out = append(out, int(b.ID), c16DecS(b.Name), b.Age, c16DecS(b.Email), c16DecS(b.Code), b.Rank, c16DecT(b.CreatedAt), c16DecT(b.UpdatedAt), c16DecS(b.Note))
	if s, ok := v.(*C16S); ok {
		d := 0
		if s.DeletedAt.Valid {
			d = c16DecT(s.DeletedAt.Time)
		}
		out = append(out, d)
	}
	return out
}

// ---- abstract programs (JSON-able: they are the replay inputs) -------------------------------

type C16W struct { // one Where(...) call or the inline conds of a finisher
	Form   string   `json:"form"` // struct | map | kv | clause | raw | group
	Fields [][2]int `json:"fields,omitempty"`
	Sub    []C16W   `json:"sub,omitempty"`
}

type C16I struct { // Attrs / Assign argument
	Form   string   `json:"form"` // struct | map | kv
	Fields [][2]int `json:"fields"`
}

type C16R struct {
	Kind string   `json:"kind"`          // nothing | all | updates
	Asg  [][2]int `json:"asg,omitempty"` // (col, lit) ; lit = -1 means excluded.col
}

type C16St struct {
	K    string `json:"k"` // where | oc | attrs | assign | session | ctx | model | select | omit | selstar | omitassoc | sess | table
	W    *C16W  `json:"w,omitempty"`
	Init *C16I  `json:"init,omitempty"`
	Rule *C16R  `json:"rule,omitempty"`
	Cols []int  `json:"cols,omitempty"` // select | omit: the columns named
	// Sp: how select / omit spell a column — 0 database name, 1 Go field name, 2 table-qualified `tbl.col`
	Sp int `json:"sp,omitempty"`
	// Flag: the Session field set by a `sess` step (skiphooks | fullsave | skiptx | prepare | batch | queryfields | global)
	Flag string `json:"flag,omitempty"`
}

// finishers:
//   save | save2 | create | foi | foc         one struct
//   cmap    Model(&T{}).Create(map[string]interface{}{…})      keys = Cols, values = Row[c]
//   cmaps   Model(&T{}).Create(&[]map[string]interface{}{…})   keys = Cols (same for every element), values = Many[i][c]
//   cslice  Create(&[]T{…Many…})          sslice  Save(&[]T{…Many…})
type C16F struct {
	K    string  `json:"k"`
	Row  []int   `json:"row,omitempty"`
	Inl  *C16W   `json:"inl,omitempty"`
	Cols []int   `json:"cols,omitempty"`
	Many [][]int `json:"many,omitempty"`
	// Self (save / save2): db.Model(&v).Save(&v)
	Self bool `json:"self,omitempty"`
}

type C16P struct {
	Soft  bool    `json:"soft"`
	Rows  [][]int `json:"rows"`
	Steps []C16St `json:"steps"`
	Fin   C16F    `json:"fin"`
	// Fault (e2e only): the first SELECT of the finisher fails at the driver
	Fault bool `json:"fault,omitempty"`
}

type C16O struct {
	Rows [][]int `json:"rows"`
	Val  []int   `json:"val"`
	RA   int64   `json:"ra"`
	Err  string  `json:"err"`
	hit  bool
}

// ---- real side ---------------------------------------------------------------------------------

type c16Env struct {
	db  *gorm.DB
	rec *Recorder
	sql *sql.DB
}

func c16Open() *c16Env {
	db, rec, sqlDB := OpenRec(&gorm.Config{NowFunc: fixedNowFunc})
	if err := db.AutoMigrate(&C16U{}, &C16S{}); err != nil {
		panic(err)
	}
	return &c16Env{db, rec, sqlDB}
}

func (e *c16Env) quiet(f func()) {
	e.rec.mu.Lock()
	off := e.rec.Off
	e.rec.Off = true
	e.rec.mu.Unlock()
	defer func() { e.rec.mu.Lock(); e.rec.Off = off; e.rec.mu.Unlock() }()
	f()
}

// setTable puts the table into exactly the given state (and resets the AUTOINCREMENT counter to max key)
func (e *c16Env) setTable(soft bool, rows [][]int) {
	t := c16Table(soft)
	e.quiet(func() {
		c16MustExec(e.sql, "DELETE FROM "+t)
		c16MustExec(e.sql, "DELETE FROM sqlite_sequence WHERE name = ?", t)
		for _, r := range rows {
			cols := c16Cols[:c16N(soft)]
			args := make([]interface{}, len(cols))
			for c := range cols {
				switch {
				case r[c] == 0 && (c == c16Deleted || c == c16Note):
					args[c] = nil
				default:
					args[c] = c16Val(c, r[c])
				}
			}
			c16MustExec(e.sql, "INSERT INTO "+t+" ("+strings.Join(cols, ",")+") VALUES (?"+strings.Repeat(",?", len(cols)-1)+")", args...)
		}
	})
}

func c16MustExec(db *sql.DB, q string, args ...interface{}) {
	if _, err := db.Exec(q, args...); err != nil {
		panic(fmt.Sprintf("%s: %v", q, err))
	}
}

func (e *c16Env) dump(soft bool) [][]int {
	var out [][]int
	e.quiet(func() {
		n := c16N(soft)
		rows, err := e.sql.Query("SELECT " + strings.Join(c16Cols[:n], ",") + " FROM " + c16Table(soft) + " ORDER BY id")
		if err != nil {
			panic(err)
		}
		defer rows.Close()
		for rows.Next() {
			vals := make([]interface{}, n)
			ptrs := make([]interface{}, n)
			for i := range vals {
				ptrs[i] = &vals[i]
			}
			if err := rows.Scan(ptrs...); err != nil {
				panic(err)
			}
			r := make([]int, n)
			for c, v := range vals {
				switch x := v.(type) {
				case nil:
					r[c] = 0
				case int64:
					r[c] = int(x)
				case string:
					if c16IsTime[c] {
						r[c] = -1
					} else {
						r[c] = c16DecS(x)
					}
				case []byte:
					r[c] = c16DecS(string(x))
				case time.Time:
					r[c] = c16DecT(x)
				default:
					r[c] = -1
				}
			}
			out = append(out, r)
		}
	})
	if out == nil {
		out = [][]int{}
	}
	return out
}

func c16FieldsToRow(soft bool, fs [][2]int) []int {
	r := make([]int, c16N(soft))
	for _, f := range fs {
		r[f[0]] = f[1]
	}
	return r
}

func c16StructVal(soft bool, fs [][2]int) interface{} {
	p := c16Mk(soft, c16FieldsToRow(soft, fs))
	if soft {
		return *(p.(*C16S))
	}
	return *(p.(*C16U))
}

func c16MapVal(fs [][2]int) map[string]interface{} {
	m := map[string]interface{}{}
	for _, f := range fs {
		m[c16Cols[f[0]]] = c16Val(f[0], f[1])
	}
	return m
}

// whereArgs = the (query, args...) a user passes for this condition form
func (w *C16W) args(soft bool, db *gorm.DB) (interface{}, []interface{}) {
	switch w.Form {
	case "struct":
		return c16StructVal(soft, w.Fields), nil
	case "map":
		return c16MapVal(w.Fields), nil
	case "kv":
		return c16Cols[w.Fields[0][0]], []interface{}{c16Val(w.Fields[0][0], w.Fields[0][1])}
	case "clause":
		return clause.Eq{Column: c16Cols[w.Fields[0][0]], Value: c16Val(w.Fields[0][0], w.Fields[0][1])}, nil
	case "raw":
		return c16Cols[w.Fields[0][0]] + " = ?", []interface{}{c16Val(w.Fields[0][0], w.Fields[0][1])}
	case "group":
		g := db.Session(&gorm.Session{NewDB: true})
		for i := range w.Sub {
			q, a := w.Sub[i].args(soft, db)
			g = g.Where(q, a...)
		}
		return g, nil
	}
	panic("bad where form " + w.Form)
}

func (i *C16I) args(soft bool) []interface{} {
	switch i.Form {
	case "struct":
		return []interface{}{c16StructVal(soft, i.Fields)}
	case "map":
		return []interface{}{c16MapVal(i.Fields)}
	case "kv":
		return []interface{}{c16Cols[i.Fields[0][0]], c16Val(i.Fields[0][0], i.Fields[0][1])}
	}
	panic("bad init form " + i.Form)
}

func (r *C16R) clause() clause.OnConflict {
	switch r.Kind {
	case "nothing":
		return clause.OnConflict{DoNothing: true}
	case "all":
		return clause.OnConflict{UpdateAll: true}
	}
	var cols []string
	lits := map[string]interface{}{}
	for _, a := range r.Asg {
		if a[1] < 0 {
			cols = append(cols, c16Cols[a[0]])
		} else {
			lits[c16Cols[a[0]]] = c16Val(a[0], a[1])
		}
	}
	set := clause.AssignmentColumns(cols)
	if len(lits) > 0 {
		set = append(set, clause.Assignments(lits)...)
	}
	return clause.OnConflict{Columns: []clause.Column{{Name: "id"}}, DoUpdates: set}
}

func c16ErrClass(err error) string {
	switch {
	case err == nil:
		return "ok"
	case strings.Contains(err.Error(), "UNIQUE constraint failed"):
		return "unique"
	case strings.Contains(err.Error(), "c16-injected"):
		return "injected"
	}
	return "other:" + err.Error()
}

type c16RealOut struct {
	C16O
	Writes int // INSERT/UPDATE/DELETE statements that reached the driver
}

// chain applies the chain steps to handle h
func (e *c16Env) chain(h *gorm.DB, soft bool, steps []C16St) *gorm.DB {
	for i := range steps {
		s := &steps[i]
		switch s.K {
		case "where":
			q, a := s.W.args(soft, e.db)
			h = h.Where(q, a...)
		case "oc":
			h = h.Clauses(s.Rule.clause())
		case "attrs":
			if s.Init == nil {
				h = h.Attrs()
			} else {
				h = h.Attrs(s.Init.args(soft)...)
			}
		case "assign":
			if s.Init == nil {
				h = h.Assign()
			} else {
				h = h.Assign(s.Init.args(soft)...)
			}
		case "session":
			h = h.Session(&gorm.Session{})
		case "ctx":
			h = h.WithContext(WithMarker(context.Background(), "c16"))
		case "model":
			h = h.Model(c16Mk(soft, make([]int, c16N(soft))))
		case "selstar":
			h = h.Select("*")
		case "omitassoc":
			h = h.Omit(clause.Associations)
		case "table":
			h = h.Table(c16Table(soft))
		case "sess":
			h = h.Session(c16SessionOf(s.Flag))
		case "select", "omit":
			names := make([]interface{}, len(s.Cols))
			for i, c := range s.Cols {
				names[i] = c16Spell(c, s.Sp, soft)
			}
			if s.K == "select" {
				h = h.Select(names[0], names[1:]...)
			} else {
				strs := make([]string, len(names))
				for i := range names {
					strs[i] = names[i].(string)
				}
				h = h.Omit(strs...)
			}
		}
	}
	return h
}

func c16MkSlice(soft bool, many [][]int) interface{} {
	if soft {
		out := make([]C16S, len(many))
		for i, r := range many {
			out[i] = *(c16Mk(soft, r).(*C16S))
		}
		return &out
	}
	out := make([]C16U, len(many))
	for i, r := range many {
		out[i] = *(c16Mk(soft, r).(*C16U))
	}
	return &out
}

func c16MapOf(cols []int, r []int) map[string]interface{} {
	m := map[string]interface{}{}
	for _, c := range cols {
		if r[c] == 0 && (c == c16Deleted || c == c16Note) {
			m[c16Cols[c]] = nil
		} else {
			m[c16Cols[c]] = c16Val(c, r[c])
		}
	}
	return m
}

// finisher calls the finisher f on handle h; returns the caller's value and the result handle
func (e *c16Env) finisher(h *gorm.DB, soft bool, f *C16F) (dest interface{}, res *gorm.DB) {
	switch f.K {
	case "save":
		dest = c16Mk(soft, f.Row)
		if f.Self {
			h = h.Model(dest)
		}
		res = h.Save(dest)
	case "save2":
		// db.Save(&v); db.Save(&v) — judged by the reference of ONE Save (idempotence)
		dest = c16Mk(soft, f.Row)
		if f.Self {
			h = h.Model(dest)
		}
		if res = h.Save(dest); res.Error == nil {
			res = h.Save(dest)
		}
	case "create":
		dest = c16Mk(soft, f.Row)
		res = h.Create(dest)
	case "cmap":
		res = h.Create(c16MapOf(f.Cols, f.Row))
	case "cmaps":
		ms := make([]map[string]interface{}, len(f.Many))
		for i, r := range f.Many {
			ms[i] = c16MapOf(f.Cols, r)
		}
		res = h.Create(&ms)
	case "cslice":
		res = h.Create(c16MkSlice(soft, f.Many))
	case "sslice":
		res = h.Save(c16MkSlice(soft, f.Many))
	case "foi", "foc":
		dest = c16Mk(soft, make([]int, c16N(soft)))
		var conds []interface{}
		if f.Inl != nil {
			q, a := f.Inl.args(soft, e.db)
			conds = append([]interface{}{q}, a...)
		}
		if f.K == "foi" {
			res = h.FirstOrInit(dest, conds...)
		} else {
			res = h.FirstOrCreate(dest, conds...)
		}
	}
	return
}

// runReal executes the program on the real code from the given table state.
func (e *c16Env) runReal(p *C16P) (out c16RealOut) {
	e.setTable(p.Soft, p.Rows)
	e.rec.Reset()
	if p.Fault {
		fired := false
		e.rec.mu.Lock()
		e.rec.Fault = func(idx int, ev *Event) error {
			if !fired && (ev.Kind == "query" || ev.Kind == "stmt_query") && strings.HasPrefix(strings.ToUpper(strings.TrimSpace(ev.SQL)), "SELECT") {
				fired = true
				return errors.New("c16-injected query failure")
			}
			return nil
		}
		e.rec.mu.Unlock()
		defer func() { e.rec.mu.Lock(); e.rec.Fault = nil; e.rec.mu.Unlock() }()
	}
	defer func() {
		if x := recover(); x != nil {
			out.Err = fmt.Sprint("panic:", x)
			out.Rows = e.dump(p.Soft)
		}
	}()
	h := e.chain(e.db, p.Soft, p.Steps)
	dest, res := e.finisher(h, p.Soft, &p.Fin)
	if dest != nil {
		out.Val = c16Rd(dest)
	}
	out.RA = res.RowsAffected
	out.Err = c16ErrClass(res.Error)
	out.Writes = e.writes()
	out.Rows = e.dump(p.Soft)
	return
}

// writes = INSERT/UPDATE/DELETE statements that reached the driver since the last Reset
func (e *c16Env) writes() (n int) {
	for _, ev := range e.rec.Snapshot() {
		if ev.Kind == "exec" || ev.Kind == "stmt_exec" || ev.Kind == "query" || ev.Kind == "stmt_query" {
			u := strings.ToUpper(strings.TrimSpace(ev.SQL))
			if strings.HasPrefix(u, "INSERT") || strings.HasPrefix(u, "UPDATE") || strings.HasPrefix(u, "DELETE") || strings.HasPrefix(u, "REPLACE") {
				n++
			}
		}
	}
	return
}

// ---- protocol form for the Lean model -----------------------------------------------------------

func c16PairsJ(fs [][2]int) []interface{} {
	out := make([]interface{}, len(fs))
	for i, f := range fs {
		out[i] = []interface{}{f[0], f[1]}
	}
	return out
}

// sorted by column NAME, as BuildCondition sorts map keys
func c16SortedByName(fs [][2]int) [][2]int {
	out := append([][2]int(nil), fs...)
	sort.SliceStable(out, func(i, j int) bool { return c16Cols[out[i][0]] < c16Cols[out[j][0]] })
	return out
}

// c16AndJ mirrors clause.And: no expression -> nothing, one -> itself, several -> AndConditions
func c16AndJ(l []interface{}) []interface{} {
	switch len(l) {
	case 0:
		return []interface{}{}
	case 1:
		return l
	}
	return []interface{}{[]interface{}{"and", l}}
}

// condsJ = the expressions one Where(...) call appends to Clauses["WHERE"].Exprs, in the shape
// statement.go BuildCondition produces them (it returns `[]Expression{clause.And(conds...)}`)
func (w *C16W) condsJ() []interface{} {
	var out []interface{}
	switch w.Form {
	case "struct":
		for _, f := range w.Fields {
			if f[1] != 0 {
				out = append(out, []interface{}{"eq", f[0], f[1]})
			}
		}
		return c16AndJ(out)
	case "map":
		for _, f := range c16SortedByName(w.Fields) {
			out = append(out, []interface{}{"eq", f[0], f[1]})
		}
		return c16AndJ(out)
	case "kv", "clause":
		out = append(out, []interface{}{"eq", w.Fields[0][0], w.Fields[0][1]})
	case "raw":
		out = append(out, []interface{}{"raw", w.Fields[0][0], w.Fields[0][1]})
	case "group":
		var l []interface{}
		for i := range w.Sub {
			l = append(l, w.Sub[i].condsJ()...)
		}
		return c16AndJ(l)
	}
	if out == nil {
		out = []interface{}{}
	}
	return out
}

func (i *C16I) J() interface{} {
	if i == nil {
		return nil
	}
	switch i.Form {
	case "struct":
		return []interface{}{"struct", c16PairsJ(i.Fields)}
	case "map":
		return []interface{}{"map", c16PairsJ(c16SortedByName(i.Fields))}
	}
	return []interface{}{"kv", i.Fields[0][0], i.Fields[0][1]}
}

func (r *C16R) J() interface{} {
	switch r.Kind {
	case "nothing":
		return []interface{}{"nothing"}
	case "all":
		return []interface{}{"all"}
	}
	var as []interface{}
	for _, a := range r.Asg {
		if a[1] < 0 {
			as = append(as, []interface{}{a[0], nil})
		}
	}
	for _, a := range r.Asg {
		if a[1] >= 0 {
			as = append(as, []interface{}{a[0], a[1]})
		}
	}
	return []interface{}{"updates", as}
}

// c16StepsJ: chain steps in protocol form; Model/Select/Omit are not chain steps of the model (Select/Omit reach it as
// the `src` of the finisher), sel/omit collect what they named
func c16StepsJ(in []C16St) (steps []interface{}, sel, omit []int) {
	steps = []interface{}{}
	sel, omit = []int{}, []int{}
	for i := range in {
		s := &in[i]
		switch s.K {
		case "model", "selstar", "omitassoc", "sess", "table":
		case "select": // chainable_api.go Select / Omit REPLACE Statement.Selects / Omits
			sel = append([]int{}, s.Cols...)
		case "omit":
			omit = append([]int{}, s.Cols...)
		case "where":
			steps = append(steps, []interface{}{"where", s.W.condsJ()})
		case "oc":
			steps = append(steps, []interface{}{"oc", s.Rule.J()})
		case "attrs":
			steps = append(steps, []interface{}{"attrs", s.Init.J()})
		case "assign":
			steps = append(steps, []interface{}{"assign", s.Init.J()})
		default:
			steps = append(steps, []interface{}{s.K})
		}
	}
	return
}

func (f *C16F) J(sel, omit []int) []interface{} {
	switch f.K {
	case "save":
		return []interface{}{"save", f.Row}
	case "create":
		if len(sel)+len(omit) > 0 {
			return []interface{}{"createfrom", []interface{}{"struct", sel, omit}, f.Row}
		}
		return []interface{}{"create", f.Row}
	case "cmap":
		return []interface{}{"createfrom", []interface{}{"map", f.Cols}, f.Row}
	}
	inl := []interface{}{}
	if f.Inl != nil {
		inl = f.Inl.condsJ()
	}
	return []interface{}{f.K, inl}
}

func c16NextOf(rows [][]int) int {
	next := 1
	for _, r := range rows {
		if r[0] >= next {
			next = r[0] + 1
		}
	}
	return next
}

func c16RowsJ(in [][]int) []interface{} {
	rows := make([]interface{}, len(in))
	for i, r := range in {
		rows[i] = r
	}
	return rows
}

func (p *C16P) leanOp() []interface{} {
	if m := p.mods(); p.Fin.K == "save" && m.any {
		return []interface{}{"c16.save", c16Kinds(p.Soft), c16RowsJ(p.Rows), c16NextOf(p.Rows), c16ModsJ(m), p.Fin.Row}
	}
	steps, sel, omit := c16StepsJ(p.Steps)
	return []interface{}{"c16.run", "gen", c16Kinds(p.Soft), c16RowsJ(p.Rows), c16NextOf(p.Rows), steps, p.Fin.J(sel, omit)}
}

// ---- generators ------------------------------------------------------------------------------------

const c16Keys = 3

func c16GenRow(rng *rand.Rand, soft bool, key int) []int {
	r := make([]int, c16N(soft))
	r[c16ID] = key
	r[c16Name] = rng.Intn(3)
	r[c16Age] = rng.Intn(3)
	r[c16Email] = rng.Intn(2) * 4
	if rng.Intn(2) == 0 {
		r[c16Code] = []int{0, 5, 7}[rng.Intn(3)]
	}
	if rng.Intn(2) == 0 {
		r[c16Rank] = []int{0, 6, 8}[rng.Intn(3)]
	}
	if rng.Intn(2) == 0 {
		r[c16Note] = []int{0, 3, 5}[rng.Intn(3)]
	}
	return r
}

func c16GenTable(rng *rand.Rand, soft bool) [][]int {
	var rows [][]int
	for k := 1; k <= c16Keys; k++ {
		if rng.Intn(3) == 0 {
			continue
		}
		r := c16GenRow(rng, soft, k)
		r[c16Created] = rng.Intn(3)
		r[c16Updated] = rng.Intn(3)
		if soft && rng.Intn(3) == 0 {
			r[c16Deleted] = 2 + rng.Intn(2)
		}
		rows = append(rows, r)
	}
	if rows == nil {
		rows = [][]int{}
	}
	return rows
}

// condition fields over name/age (+ sometimes id, email): small domains so that they hit existing rows
func c16GenFields(rng *rand.Rand, allowID bool, allowZero bool) [][2]int {
	var fs [][2]int
	add := func(c, v int) {
		if v != 0 || allowZero {
			fs = append(fs, [2]int{c, v})
		}
	}
	if allowID && rng.Intn(4) == 0 {
		add(c16ID, 1+rng.Intn(c16Keys))
	}
	if rng.Intn(3) != 0 {
		add(c16Name, rng.Intn(3))
	}
	if rng.Intn(2) == 0 {
		add(c16Age, rng.Intn(3))
	}
	if rng.Intn(5) == 0 {
		add(c16Email, rng.Intn(2)*4)
	}
	if len(fs) == 0 {
		fs = append(fs, [2]int{c16Name, 1 + rng.Intn(2)})
	}
	return fs
}

func c16GenWhere(rng *rand.Rand, rich bool, depth int) *C16W {
	n := 2
	if rich {
		n = 6
	}
	switch rng.Intn(n) {
	case 0:
		return &C16W{Form: "struct", Fields: c16GenFields(rng, true, false)}
	case 1:
		return &C16W{Form: "map", Fields: c16GenFields(rng, true, true)}
	case 2:
		f := c16GenFields(rng, false, true)
		return &C16W{Form: "kv", Fields: f[:1]}
	case 3:
		f := c16GenFields(rng, false, true)
		return &C16W{Form: "clause", Fields: f[:1]}
	case 4:
		f := c16GenFields(rng, false, true)
		return &C16W{Form: "raw", Fields: f[:1]}
	default:
		if depth <= 0 {
			return &C16W{Form: "struct", Fields: c16GenFields(rng, true, false)}
		}
		w := &C16W{Form: "group"}
		for i, m := 0, 1+rng.Intn(2); i < m; i++ {
			w.Sub = append(w.Sub, *c16GenWhere(rng, rich, depth-1))
		}
		return w
	}
}

// attrs/assign fields: non-key columns (assigning the key through Assign is outside the model's stated domain)
func c16GenInit(rng *rand.Rand) *C16I {
	var fs [][2]int
	cols := []int{c16Name, c16Age, c16Email, c16Code, c16Rank}
	rng.Shuffle(len(cols), func(i, j int) { cols[i], cols[j] = cols[j], cols[i] })
	for _, c := range cols[:1+rng.Intn(2)] {
		fs = append(fs, [2]int{c, rng.Intn(4)})
	}
	sort.Slice(fs, func(i, j int) bool { return fs[i][0] < fs[j][0] })
	switch rng.Intn(3) {
	case 0:
		return &C16I{Form: "struct", Fields: fs}
	case 1:
		return &C16I{Form: "map", Fields: fs}
	}
	return &C16I{Form: "kv", Fields: fs[:1]}
}

func c16GenRule(rng *rand.Rand, soft bool) *C16R {
	switch rng.Intn(4) {
	case 0:
		return &C16R{Kind: "nothing"}
	case 1:
		return &C16R{Kind: "all"}
	}
	cols := []int{c16Name, c16Age, c16Email, c16Code, c16Rank, c16Updated, c16Note}
	if soft {
		cols = append(cols, c16Deleted)
	}
	rng.Shuffle(len(cols), func(i, j int) { cols[i], cols[j] = cols[j], cols[i] })
	r := &C16R{Kind: "updates"}
	for _, c := range cols[:1+rng.Intn(3)] {
		lit := -1
		if rng.Intn(3) == 0 && !c16IsTime[c] {
			lit = rng.Intn(4)
		}
		r.Asg = append(r.Asg, [2]int{c, lit})
	}
	sort.Slice(r.Asg, func(i, j int) bool { return r.Asg[i][0] < r.Asg[j][0] })
	return r
}

// genLogical builds a chain WITHOUT derivation steps + finisher
func c16GenLogical(rng *rand.Rand, rich bool) *C16P {
	soft := rng.Intn(2) == 0
	return c16GenLogicalOn(rng, rich, soft, c16GenTable(rng, soft))
}

func c16GenLogicalOn(rng *rand.Rand, rich bool, soft bool, rows [][]int) *C16P {
	p := &C16P{Soft: soft, Rows: rows}
	switch k := rng.Intn(13); {
	case k >= 10:
		c16GenPartial(rng, p)
	case k < 2:
		p.Fin = C16F{K: "save", Row: c16GenRow(rng, p.Soft, rng.Intn(c16Keys+1))}
		if !rich && rng.Intn(2) == 0 {
			p.Fin.K = "save2"
		}
		if rng.Intn(3) != 0 {
			c16GenSaveMods(rng, p, rich)
		}
	case k < 5:
		p.Fin = C16F{K: "create", Row: c16GenRow(rng, p.Soft, rng.Intn(c16Keys+2))}
		if rng.Intn(6) != 0 {
			p.Steps = append(p.Steps, C16St{K: "oc", Rule: c16GenRule(rng, p.Soft)})
		}
	default:
		p.Fin = C16F{K: "foi"}
		if k >= 7 {
			p.Fin.K = "foc"
		}
		for i, n := 0, rng.Intn(3); i < n; i++ {
			p.Steps = append(p.Steps, C16St{K: "where", W: c16GenWhere(rng, rich, 1)})
		}
		if rng.Intn(3) == 0 || len(p.Steps) == 0 {
			p.Fin.Inl = c16GenWhere(rng, rich, 0)
			if p.Fin.Inl.Form == "group" {
				p.Fin.Inl = &C16W{Form: "struct", Fields: c16GenFields(rng, true, false)}
			}
		}
		if rng.Intn(3) != 0 {
			p.Steps = append(p.Steps, C16St{K: "attrs", Init: c16GenInit(rng)})
		}
		if rng.Intn(2) == 0 {
			p.Steps = append(p.Steps, C16St{K: "assign", Init: c16GenInit(rng)})
		}
		if rng.Intn(12) == 0 {
			p.Steps = append(p.Steps, C16St{K: "attrs"}) // Attrs() with no argument resets
		}
		rng.Shuffle(len(p.Steps), func(i, j int) { p.Steps[i], p.Steps[j] = p.Steps[j], p.Steps[i] })
		if !rich && rng.Intn(10) == 0 {
			p.Fault = true
		}
	}
	return p
}

func (p *C16P) withDeriv(pos int, kind string) *C16P {
	q := *p
	q.Steps = append(append(append([]C16St{}, p.Steps[:pos]...), C16St{K: kind}), p.Steps[pos:]...)
	return &q
}

// f3Pattern: a derivation (Session/WithContext) occurs AFTER an Attrs/Assign call with a non-empty
// argument list and before the finisher.
func (p *C16P) f3Pattern() bool {
	seen := false
	for _, s := range p.Steps {
		if (s.K == "attrs" || s.K == "assign") && s.Init != nil {
			seen = true
		}
		if (s.K == "session" || s.K == "ctx") && seen {
			return true
		}
	}
	return false
}

// without returns the program minus the steps selected by drop
func (p *C16P) without(drop func(C16St) bool) *C16P {
	q := *p
	q.Steps = nil
	for _, s := range p.Steps {
		if !drop(s) {
			q.Steps = append(q.Steps, s)
		}
	}
	return &q
}

func (p *C16P) key() string { return canon(p) }

// leanable: the program is inside the Lean model's domain (multi-row statements are judged by the e2e oracle only)
func (p *C16P) leanable() bool {
	switch p.Fin.K {
	case "cmaps", "cslice", "sslice", "save2":
		return false
	}
	return true
}

func (p *C16P) collides() bool {
	// a written/queried key or condition meets an existing row
	if len(p.Rows) == 0 {
		return false
	}
	switch p.Fin.K {
	case "save", "save2", "create", "cmap":
		for _, r := range p.Rows {
			if r[0] == p.Fin.Row[0] {
				return true
			}
		}
		return false
	case "cmaps", "cslice", "sslice":
		for _, r := range p.Rows {
			for _, m := range p.Fin.Many {
				if r[0] == m[0] {
					return true
				}
			}
		}
		return false
	}
	return true
}

// ---- suite 1: correspondence --------------------------------------------------------------------

func c16CompareTie(r *Result, p *C16P, real c16RealOut, leanRaw json.RawMessage) {
	r.CorrCompared++
	if ok, obs, exp, note := c16TieDiff(p, real, leanRaw); !ok {
		r.Violate(Violation{Kind: "correspondence", Suite: "tie", Input: p, Observed: obs, Expected: exp, Note: note})
	}
}

// c16TieDiff compares the real outcome of p with the model's answer
func c16TieDiff(p *C16P, real c16RealOut, leanRaw json.RawMessage) (bool, interface{}, interface{}, string) {
	var m struct {
		Rows [][]int `json:"rows"`
		Val  []int   `json:"val"`
		RA   int64   `json:"ra"`
		Err  string  `json:"err"`
	}
	if err := json.Unmarshal(leanRaw, &m); err != nil {
		return false, string(leanRaw), "model output", "model rejected the op"
	}
	if m.Rows == nil {
		m.Rows = [][]int{}
	}
	obs := C16O{Rows: real.Rows, Val: real.Val, RA: real.RA, Err: real.Err}
	exp := C16O{Rows: m.Rows, Val: m.Val, RA: m.RA, Err: m.Err}
	if exp.Err != "ok" || p.Fin.K == "cmap" {
		// on a driver error only table, RowsAffected and error class are compared; a map value is not read back
		obs.Val, exp.Val = nil, nil
	}
	if obs.Val != nil && exp.Val != nil && p.Fin.K != "foi" && p.Fin.K != "foc" && len(obs.Val) > c16Note && len(exp.Val) > c16Note {
		// `note` read back through RETURNING: a NULL leaves the Go field untouched while '' overwrites it
		// (schema/field.go string setter); the value abstraction identifies NULL and '' — not compared, not judged
		obs.Val = append([]int(nil), obs.Val...)
		exp.Val = append([]int(nil), exp.Val...)
		obs.Val[c16Note], exp.Val[c16Note] = 0, 0
	}
	if canon(obs) != canon(exp) {
		return false, obs, exp, "real finisher vs Model.Upsert.runChain (table, record, RowsAffected, error class)"
	}
	return true, nil, nil, ""
}

func c16TieSuite(r *Result, rng *rand.Rand, tier string) {
	n := 6000
	if tier == "thorough" {
		n = 60000
	} else if tier == "search" {
		n = 400000
	}
	e := c16Open()
	var progs []*C16P
	var reals []c16RealOut
	var ops [][]interface{}
	flush := func() {
		if len(ops) == 0 {
			return
		}
		ans, err := AskLean(ops)
		if err != nil {
			r.Violate(Violation{Kind: "correspondence", Suite: "tie", Input: "batch", Observed: err.Error(), Expected: "driver answers"})
		} else {
			for i := range progs {
				c16CompareTie(r, progs[i], reals[i], ans[i])
			}
		}
		progs, reals, ops = nil, nil, nil
	}
	for i := 0; i < n && !expired(); i++ {
		p := c16GenLogical(rng, true)
		// derivations anywhere (0..2 of them)
		for j, m := 0, rng.Intn(3); j < m; j++ {
			kind := "session"
			if rng.Intn(2) == 0 {
				kind = "ctx"
			}
			p = p.withDeriv(rng.Intn(len(p.Steps)+1), kind)
		}
		// a short history on the same database: every step starts from the table the previous one left
		for step, steps := 0, 1+rng.Intn(3); step < steps; step++ {
			for !p.leanable() {
				p = c16GenLogicalOn(rng, true, p.Soft, p.Rows)
			}
			real := e.runReal(p)
			r.Case("tie", p.key(), p.collides())
			r.H("tie.finisher", p.Fin.K)
			r.H("tie.outcome", p.Fin.K+"/"+c16Outcome(p, real))
			r.H("tie.model_branch", c16Branch(p))
			r.H("tie.chain_len", fmt.Sprint(len(p.Steps)))
			r.H("tie.table_rows", fmt.Sprint(len(p.Rows)))
			if p.f3Pattern() {
				r.H("tie.f3_pattern", "yes")
			} else {
				r.H("tie.f3_pattern", "no")
			}
			progs = append(progs, p)
			reals = append(reals, real)
			ops = append(ops, p.leanOp())
			p = c16GenLogicalOn(rng, true, p.Soft, real.Rows)
		}
		if len(ops) >= 2000 {
			flush()
		}
	}
	flush()
}

// c16Branch names the model branch the program exercises (computed from the input alone)
func c16Branch(p *C16P) string {
	t := c16NewRef(p.Soft, p.Rows)
	switch p.Fin.K {
	case "save", "save2":
		k := p.Fin.Row[0]
		md := c16SaveBranch(p)
		if k == 0 {
			return p.Fin.K + md + "/zero-key-insert"
		}
		old, ok := t.rows[k]
		switch {
		case !ok:
			return p.Fin.K + md + "/absent-upsert-inserts"
		case t.live(old):
			return p.Fin.K + md + "/live-update-all"
		}
		return p.Fin.K + md + "/soft-deleted-upsert-updates"
	case "cmap", "cmaps", "cslice", "sslice":
		return c16PartialBranch(p)
	case "create":
		rule := "norule"
		for _, s := range p.Steps {
			if s.K == "oc" {
				rule = s.Rule.Kind
			}
			if s.K == "select" || s.K == "omit" {
				return c16PartialBranch(p)
			}
		}
		k := p.Fin.Row[0]
		if _, ok := t.rows[k]; ok {
			if p.Soft && t.rows[k][c16Deleted] != 0 {
				return "create/conflict-softdeleted-" + rule
			}
			return "create/conflict-" + rule
		}
		if k == 0 {
			return "create/zero-key-" + rule
		}
		return "create/absent-" + rule
	}
	hasAttrs, hasAssign := false, false
	for _, s := range p.Steps {
		if s.K == "attrs" {
			hasAttrs = s.Init != nil
		}
		if s.K == "assign" {
			hasAssign = s.Init != nil
		}
	}
	exp := c16RefRun(p)
	b := p.Fin.K + "/miss"
	if exp.hit {
		b = p.Fin.K + "/hit"
	}
	if exp.Err != "ok" {
		b = p.Fin.K + "/miss-unique"
	}
	if hasAttrs {
		b += "+attrs"
	}
	if hasAssign {
		b += "+assign"
	}
	return b
}

func c16Outcome(p *C16P, o c16RealOut) string {
	if o.Err != "ok" {
		return o.Err
	}
	changed := c16DiffRows(p.Rows, o.Rows)
	switch {
	case len(o.Rows) > len(p.Rows):
		return "inserted"
	case changed > 0:
		return "updated"
	}
	return "no-write"
}

func c16DiffRows(a, b [][]int) int {
	am := map[int]string{}
	for _, r := range a {
		am[r[0]] = fmt.Sprint(r)
	}
	n := 0
	seen := map[int]bool{}
	for _, r := range b {
		seen[r[0]] = true
		if am[r[0]] != fmt.Sprint(r) {
			n++
		}
	}
	for k := range am {
		if !seen[k] {
			n++
		}
	}
	return n
}

// ---- suite 2: end-to-end oracle --------------------------------------------------------------------
//
// Reference = a Go map keyed by primary key implementing the DOCUMENTED semantics:
//   Save: zero key => insert; else the row gets the full value (update of all fields; if no live row has
//     the key: INSERT … ON CONFLICT UPDATE-ALL).  Create: database/client defaults for zero fields.
//   OnConflict on an existing key: DoNothing keeps the row; DoUpdates sets exactly the listed columns;
//     UpdateAll sets every column except primary key, columns whose default comes from the database and
//     the auto-create time.  No rule: unique violation, nothing written.
//   FirstOrInit/FirstOrCreate: first live row (by key) matching the conditions, plus Assign; else the record
//     built from the equality conditions, then Attrs, then Assign.  Init never writes, Create writes <= 1 row.
// Latitude (accepted, not judged): tracked timestamps (created_at / updated_at) everywhere; the in-memory
// record when the driver reports an error; RowsAffected (the statement does not define it; the tie compares it).

type c16Ref struct {
	soft bool
	rows map[int][]int
}

func c16NewRef(soft bool, rows [][]int) *c16Ref {
	m := map[int][]int{}
	for _, r := range rows {
		m[r[0]] = append([]int(nil), r...)
	}
	return &c16Ref{soft, m}
}

func (t *c16Ref) live(r []int) bool { return !t.soft || r[c16Deleted] == 0 }

func (t *c16Ref) nextKey() int {
	n := 1
	for k := range t.rows {
		if k >= n {
			n = k + 1
		}
	}
	return n
}

func (t *c16Ref) dump() [][]int {
	var ks []int
	for k := range t.rows {
		ks = append(ks, k)
	}
	sort.Ints(ks)
	out := [][]int{}
	for _, k := range ks {
		out = append(out, t.rows[k])
	}
	return out
}

// c16Ins describes which columns an INSERT lists and how the value was supplied.
//   struct (mapSrc=false): every column, except that id / rank / note (database-side defaults) are listed only when
//     non-zero; Select(cols…) restricts to the named columns (the tracked times stay unless omitted); Omit(cols…)
//     removes the named ones; zero `code` gets the client default, zero tracked times get NOW.
//   map (mapSrc=true): exactly the map's keys, values as given.
type c16Ins struct {
	mapSrc bool
	cols   []int // map keys
	sel    []int
	omit   []int
}

func c16Has(l []int, c int) bool {
	for _, x := range l {
		if x == c {
			return true
		}
	}
	return false
}

// allowed: 1 = explicitly selected, 0 = explicitly omitted, -1 = not mentioned
func (i *c16Ins) mention(c int) int {
	if c16Has(i.omit, c) {
		return 0
	}
	if c16Has(i.sel, c) {
		return 1
	}
	return -1
}

// listed = column c is in the INSERT's column list for value v
func (i *c16Ins) listed(v []int, c int) bool {
	if i.mapSrc {
		return c16Has(i.cols, c)
	}
	m, restricted := i.mention(c), len(i.sel) > 0
	switch c {
	case c16ID, c16Rank, c16Note:
		return (m == 1 || (m == -1 && !restricted)) && v[c] != 0
	case c16Created, c16Updated:
		return m != 0
	}
	return m == 1 || (m == -1 && !restricted)
}

// updatable = UpdateAll may assign the column (it must ALSO be listed in the INSERT)
func (i *c16Ins) updatable(c int) bool {
	if c == c16ID || c == c16Rank || c == c16Created {
		return false // primary key, default from the database, auto-create time
	}
	if i.mapSrc {
		return true
	}
	m := i.mention(c)
	return m == 1 || (m == -1 && len(i.sel) == 0)
}

// the row a fresh insert of v produces (= excluded.* on conflict)
func (t *c16Ref) fresh(v []int, ins *c16Ins) []int {
	r := make([]int, len(v))
	for c := range v {
		if ins.listed(v, c) {
			r[c] = v[c]
			if !ins.mapSrc && c == c16Code && r[c] == 0 {
				r[c] = 7
			}
			continue
		}
		switch c { // database-side defaults of the columns the INSERT leaves out
		case c16ID:
			r[c] = t.nextKey()
		case c16Code:
			r[c] = 7
		case c16Rank:
			r[c] = 8
		}
	}
	return r
}

var c16StructAll = &c16Ins{}

// insert with optional rule; returns (record, error class)
func (t *c16Ref) create(v []int, rule *C16R) ([]int, string) { return t.createIns(v, c16StructAll, rule) }

func (t *c16Ref) createIns(v []int, ins *c16Ins, rule *C16R) ([]int, string) {
	f := t.fresh(v, ins)
	rec := append([]int(nil), v...) // the caller's struct afterwards (struct source only)
	if !ins.mapSrc && ins.listed(v, c16Code) && rec[c16Code] == 0 {
		rec[c16Code] = 7
	}
	back := func(row []int) { rec[c16ID], rec[c16Rank], rec[c16Note] = row[c16ID], row[c16Rank], row[c16Note] }
	old, exists := t.rows[f[0]]
	if !exists {
		t.rows[f[0]] = f
		back(f)
		return rec, "ok"
	}
	if rule == nil {
		return nil, "unique"
	}
	switch rule.Kind {
	case "nothing":
		return rec, "ok"
	case "all":
		// every column of the INSERT except primary key, database-default columns and the auto-create time;
		// a column the INSERT does not list keeps its stored value
		any := false
		for c := 1; c < len(old); c++ {
			if ins.listed(v, c) && ins.updatable(c) {
				old[c] = f[c]
				any = true
			}
		}
		if !any {
			return rec, "ok" // nothing assignable: degrades to DO NOTHING
		}
	default:
		for _, a := range rule.Asg {
			if a[1] < 0 {
				old[a[0]] = f[a[0]]
			} else {
				old[a[0]] = a[1]
			}
		}
	}
	back(old)
	return rec, "ok"
}

func (t *c16Ref) save(v []int) ([]int, string) {
	if v[0] == 0 {
		return t.create(v, nil)
	}
	if old, ok := t.rows[v[0]]; ok && t.live(old) {
		copy(old[1:], v[1:])
		return append([]int(nil), v...), "ok"
	}
	return t.create(v, &C16R{Kind: "all"})
}

type c16Eqs struct {
	match [][2]int // all equalities the row must satisfy
	init  [][2]int // those that also initialise a new record (everything but raw SQL text)
}

func (w *C16W) eqs(e *c16Eqs) {
	switch w.Form {
	case "struct":
		for _, f := range w.Fields {
			if f[1] != 0 {
				e.match = append(e.match, f)
				e.init = append(e.init, f)
			}
		}
	case "map", "kv", "clause":
		e.match = append(e.match, w.Fields...)
		e.init = append(e.init, w.Fields...)
	case "raw":
		e.match = append(e.match, w.Fields...)
	case "group":
		for i := range w.Sub {
			w.Sub[i].eqs(e)
		}
	}
}

func (i *C16I) apply(r []int) {
	if i == nil {
		return
	}
	for _, f := range i.Fields {
		if i.Form == "struct" && f[1] == 0 {
			continue
		}
		r[f[0]] = f[1]
	}
}

// expected outcome of the LOGICAL program (derivation steps are ignored: they must not matter)
func c16RefRun(p *C16P) C16O {
	t := c16NewRef(p.Soft, p.Rows)
	var e c16Eqs
	var attrs, assigns *C16I
	var rule *C16R
	ins := &c16Ins{}
	for i := range p.Steps {
		s := &p.Steps[i]
		switch s.K {
		case "where":
			s.W.eqs(&e)
		case "attrs":
			attrs = s.Init
		case "assign":
			assigns = s.Init
		case "oc":
			rule = s.Rule
		case "select": // the last Select / Omit call counts
			ins.sel = s.Cols
		case "omit":
			ins.omit = s.Cols
		}
	}
	var rec []int
	errc := "ok"
	wasHit := false
	// several rows in one statement: row by row, and a failing row undoes the whole statement
	many := func(rows [][]int, in *c16Ins, rl *C16R) {
		snap := c16NewRef(p.Soft, t.dump())
		for _, row := range rows {
			if _, errc = t.createIns(row, in, rl); errc != "ok" {
				t.rows = snap.rows
				return
			}
		}
	}
	switch p.Fin.K {
	case "save", "save2":
		if m := p.mods(); m.any {
			rec, errc = t.saveMods(p.Fin.Row, m)
		} else {
			rec, errc = t.save(p.Fin.Row)
		}
	case "create":
		rec, errc = t.createIns(p.Fin.Row, ins, rule)
	case "cmap":
		_, errc = t.createIns(p.Fin.Row, &c16Ins{mapSrc: true, cols: p.Fin.Cols}, rule)
	case "cmaps":
		many(p.Fin.Many, &c16Ins{mapSrc: true, cols: p.Fin.Cols}, rule)
	case "cslice":
		many(p.Fin.Many, ins, rule)
	case "sslice":
		// Save of a slice = upsert of every element with UpdateAll (unless the chain carries its own rule)
		rl := rule
		if rl == nil {
			rl = &C16R{Kind: "all"}
		}
		many(p.Fin.Many, ins, rl)
	default:
		if p.Fault {
			// the lookup itself failed: the error is reported and nothing is written (creating a record
			// without knowing that no match exists would break "first match or else create")
			return C16O{Rows: t.dump(), Err: "injected"}
		}
		if p.Fin.Inl != nil {
			p.Fin.Inl.eqs(&e)
		}
		var hit []int
		for _, r := range t.dump() {
			ok := t.live(r)
			for _, m := range e.match {
				ok = ok && r[m[0]] == m[1]
			}
			if ok {
				hit = r
				break
			}
		}
		wasHit = hit != nil
		if hit != nil {
			rec = append([]int(nil), hit...)
			assigns.apply(rec)
			if p.Fin.K == "foc" && assigns != nil {
				assigns.apply(hit)
			}
		} else {
			rec = make([]int, c16N(p.Soft))
			for _, f := range e.init {
				rec[f[0]] = f[1]
			}
			attrs.apply(rec)
			assigns.apply(rec)
			if p.Fin.K == "foc" {
				rec, errc = t.create(rec, nil)
			}
		}
	}
	return C16O{Rows: t.dump(), Val: rec, Err: errc, hit: wasHit}
}

func c16MaskTS(r []int) []int {
	if r == nil {
		return nil
	}
	out := append([]int(nil), r...)
	out[c16Created], out[c16Updated] = 0, 0
	return out
}

func c16MaskRows(rows [][]int) [][]int {
	out := make([][]int, len(rows))
	for i, r := range rows {
		out[i] = c16MaskTS(r)
	}
	return out
}

// c16Judge returns "" if the real outcome is what the property demands for this program
func c16Judge(p *C16P, real c16RealOut) (string, interface{}, interface{}) {
	return c16JudgeVs(p, real, c16RefRun(p))
}

// c16JudgeVs compares the real outcome of p with a given expected outcome
func c16JudgeVs(p *C16P, real c16RealOut, exp C16O) (string, interface{}, interface{}) {
	obsT, expT := c16MaskRows(real.Rows), c16MaskRows(exp.Rows)
	if canon(obsT) != canon(expT) {
		return "table after the operation differs from the reference map", obsT, expT
	}
	if real.Err != exp.Err {
		return "error class differs", real.Err, exp.Err
	}
	// the returned record is part of the statement for FirstOrInit/FirstOrCreate only
	if exp.Err == "ok" && (p.Fin.K == "foi" || p.Fin.K == "foc") && canon(c16MaskTS(real.Val)) != canon(c16MaskTS(exp.Val)) {
		return "returned record differs from the reference", c16MaskTS(real.Val), c16MaskTS(exp.Val)
	}
	switch p.Fin.K {
	case "foi":
		if real.Writes != 0 || c16DiffRows(p.Rows, real.Rows) != 0 {
			return "FirstOrInit wrote to the database", real.Writes, 0
		}
	case "foc":
		if real.Writes > 1 || c16DiffRows(p.Rows, real.Rows) > 1 {
			return "FirstOrCreate wrote more than one row", real.Writes, "<= 1"
		}
	}
	return "", nil, nil
}

func c16JudgeAndReport(r *Result, e *c16Env, p *C16P) bool {
	real := e.runReal(p)
	what, obs, exp := c16Judge(p, real)
	if what == "" {
		return true
	}
	if p.f3Pattern() && listed(c16F3ID) {
		// inside the listed pattern only: the chain without the derivations satisfies the reference AND the
		// observed outcome is exactly the reference outcome of the chain with its Attrs and/or Assign calls
		// removed (that is what "clone() drops attrs/assigns" produces); anything else is a violation
		base := p.without(func(s C16St) bool { return s.K == "session" || s.K == "ctx" })
		if w2, _, _ := c16Judge(base, e.runReal(base)); w2 == "" {
			for _, drop := range [][]string{{"attrs"}, {"assign"}, {"attrs", "assign"}} {
				q := base.without(func(s C16St) bool {
					for _, d := range drop {
						if s.K == d {
							return true
						}
					}
					return false
				})
				if len(q.Steps) == len(base.Steps) {
					continue
				}
				if w3, _, _ := c16JudgeVs(p, real, c16RefRun(q)); w3 == "" {
					r.KnownFinding(c16F3ID, "Session/WithContext after Attrs/Assign makes FirstOrInit/FirstOrCreate ignore the attrs/assigns (Statement.clone drops both fields)")
					return false
				}
			}
		}
	}
	r.Violate(Violation{Kind: "e2e", Suite: "e2e", Input: p, Observed: obs, Expected: exp, Note: what})
	return false
}

func c16F3Witness() *C16P {
	return &C16P{Soft: false, Rows: [][]int{},
		Steps: []C16St{{K: "where", W: &C16W{Form: "struct", Fields: [][2]int{{c16Name, 1}}}},
			{K: "attrs", Init: &C16I{Form: "struct", Fields: [][2]int{{c16Age, 2}}}},
			{K: "ctx"}},
		Fin: C16F{K: "foi"}}
}

func c16E2ESuite(r *Result, rng *rand.Rand, tier string) {
	n := 2200
	if tier == "thorough" {
		n = 30000
	} else if tier == "search" {
		n = 200000
	}
	e := c16Open()
	// probe: re-confirm the listed finding on its witness
	{
		w := c16F3Witness()
		real := e.runReal(w)
		what, _, _ := c16Judge(w, real)
		switch {
		case what != "" && listed(c16F3ID):
			r.KnownFinding(c16F3ID, "witness Where(U{Name}).Attrs(U{Age}).WithContext(ctx).FirstOrInit(&u): attrs lost (Statement.clone drops attrs/assigns)")
		case what != "":
			r.Violate(Violation{Kind: "e2e", Suite: "e2e", Input: w, Observed: real.Val, Expected: c16RefRun(w).Val, Note: what})
		default:
			r.Note("finding %s no longer reproduces on its witness", c16F3ID)
		}
	}
	for i := 0; i < n && !expired(); i++ {
		p := c16GenLogical(rng, false)
		// a history of 1..3 logical programs, each run in every derivation variant from the same table state
		for step, steps := 0, 1+rng.Intn(3); step < steps; step++ {
			exp := c16RefRun(p)
			variants := []*C16P{p}
			for pos := 0; pos <= len(p.Steps); pos++ {
				variants = append(variants, p.withDeriv(pos, "session"), p.withDeriv(pos, "ctx"))
			}
			// plus one variant with two derivations
			if len(p.Steps) > 0 {
				variants = append(variants, p.withDeriv(rng.Intn(len(p.Steps)+1), "ctx").withDeriv(rng.Intn(len(p.Steps)+2), "session"))
			}
			for vi, v := range variants {
				c16JudgeAndReport(r, e, v)
				r.Case("e2e", v.key(), v.collides())
				if vi == 0 {
					r.H("e2e.finisher", p.Fin.K)
					r.H("e2e.expected", p.Fin.K+"/"+c16ExpOutcome(p, exp))
					r.H("e2e.branch", c16Branch(p))
					r.H("e2e.variants", fmt.Sprint(len(variants)))
					for _, s := range p.Steps {
						switch s.K {
						case "where":
							r.H("e2e.cond_form", s.W.Form)
						case "attrs", "assign":
							if s.Init != nil {
								r.H("e2e."+s.K+"_form", s.Init.Form)
							} else {
								r.H("e2e."+s.K+"_form", "none")
							}
						case "oc":
							r.H("e2e.rule", s.Rule.Kind)
						}
					}
					nd := 0
					for _, row := range p.Rows {
						if p.Soft && row[c16Deleted] != 0 {
							nd++
						}
					}
					r.H("e2e.soft_deleted_rows", fmt.Sprint(nd))
				}
				if v.f3Pattern() {
					r.H("e2e.f3_pattern", "yes")
				} else {
					r.H("e2e.f3_pattern", "no")
				}
			}
			if i < 3 && step == 0 {
				r.Sample(p)
			}
			p = c16GenLogicalOn(rng, false, p.Soft, exp.Rows)
		}
	}
}

func c16ExpOutcome(p *C16P, exp C16O) string {
	if exp.Err != "ok" {
		return exp.Err
	}
	switch {
	case len(exp.Rows) > len(p.Rows):
		return "inserted"
	case c16DiffRows(c16MaskRows(p.Rows), c16MaskRows(exp.Rows)) > 0:
		return "updated"
	}
	if p.Fin.K == "foi" || p.Fin.K == "foc" {
		if exp.hit {
			return "hit"
		}
		return "miss"
	}
	return "no-change"
}

func init() {
	register("C16", c16TieSuite)
	register("C16", c16E2ESuite)
	replayers["C16/e2e"] = func(r *Result, input json.RawMessage) {
		var p C16P
		if err := json.Unmarshal(input, &p); err != nil {
			r.Note("bad replay input: %v", err)
			return
		}
		c16JudgeAndReport(r, c16Open(), &p)
	}
	replayers["C16/tie"] = func(r *Result, input json.RawMessage) {
		var p C16P
		if err := json.Unmarshal(input, &p); err != nil {
			r.Note("bad replay input: %v", err)
			return
		}
		// main.go applies -driver only after the replay branch; honour it here
		if f := flag.Lookup("driver"); f != nil && f.Value.String() != "" {
			driverPath = f.Value.String()
		}
		e := c16Open()
		real := e.runReal(&p)
		ans, err := AskLean([][]interface{}{p.leanOp()})
		if err != nil {
			r.Note("lean driver: %v", err)
			return
		}
		c16CompareTie(r, &p, real, ans[0])
	}
}
