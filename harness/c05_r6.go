package main

// C05 round 6: Save's INSERT FALLBACK judged on its own.
//
// Save(value) with a non-zero primary key that matches no row runs TWO pipelines: the UPDATE pipeline (0 rows; it saves
// the association values and commits in its own implicit transaction - listed finding F17-C05-save-two-phase is about
// what THAT phase leaves behind) and then the fallback `tx.Session(&Session{SkipHooks: true})…Create(value)`: the
// Create pipeline with the parent INSERT, every association upsert and the join rows.  The fallback is a write
// operation of its own and has to be all-or-nothing in itself: whatever driver call of it fails, the database must be
// exactly what the UPDATE phase committed ("phase-one state", the F17 pattern) - not that state plus the parent row,
// not that state plus some of the fallback's upserts.
//
// c05PhaseOne computes the phase-one state by a reference run on the same world: the first driver call after the
// first successful COMMIT is failed before it is executed (unchanged gorm: the fallback's BEGIN; a gorm whose fallback
// does not open a transaction: its first statement) - nothing of the fallback has been executed at that point, so the
// reference does not depend on how the fallback is wrapped.  The F17 classifier of the `fault` suite accepts an
// outcome as the listed finding only if the database equals that state.
//
// Generators: SaveMissingKey (c05.go) is one fixed graph; here the missing-key Save runs over GENERATED graphs of both
// families (every association kind, FullSaveAssociations on/off, association values that exist already in family "s"),
// so that the fallback phase has many statements after the parent INSERT and faults reach each of them.

import (
	"context"
	"math/rand"
	"reflect"

	"gorm.io/gorm"
)

// c05SaveMissingOps: operations that are a Save of a keyed record matching no row (two pipelines)
var c05SaveMissingOps = map[string]bool{"SaveMissingKey": true, "SaveMissingGraph": true, "SSaveMissing": true, "SSaveMissingExisting": true}

func c05R6Ops() []c05Op {
	sess := func(db *gorm.DB, fsa bool) *gorm.DB {
		if fsa {
			return db.Session(&gorm.Session{FullSaveAssociations: true})
		}
		return db
	}
	mkS := func(name string, setup func(db *gorm.DB, rng *rand.Rand) func(*gorm.DB) error) c05Op {
		c05SOpNames[name] = true
		return c05Op{Name: name, Setup: setup}
	}
	return []c05Op{
		{"SaveMissingGraph", func(db *gorm.DB, rng *rand.Rand) func(*gorm.DB) error {
			u := genUser(rng, "q")
			u.ID = uint(9000 + rng.Intn(900))
			if u.Company == nil && u.Profile == nil && len(u.Pets)+len(u.Langs)+len(u.Toys) == 0 {
				u.Pets = []RPet{{Name: "pq"}}
			}
			if rng.Intn(2) == 0 {
				u.Langs = append(u.Langs, RLang{Code: "lq", Name: "lang"})
			}
			fsa := rng.Intn(3) == 0
			return func(db *gorm.DB) error { c := c05CloneUser(u); return sess(db, fsa).Save(c).Error }
		}},
		mkS("SSaveMissing", func(db *gorm.DB, rng *rand.Rand) func(*gorm.DB) error {
			gs, fsa, full := rng.Int63(), rng.Intn(3) == 0, rng.Intn(2) == 0
			id := uint(7000 + rng.Intn(900))
			return func(db *gorm.DB) error {
				d := c05SGenDoc(rand.New(rand.NewSource(gs)), "m", full)
				d.ID = id
				if d.Owner == nil && d.Cover == nil && len(d.Lines)+len(d.Badges)+len(d.Seals)+len(d.Marks) == 0 {
					d.Cover = &C05SCover{Title: "cm"}
				}
				c05SPoison(c05PoisonAt, d)
				return sess(db, fsa).Save(d).Error
			}
		}),
		mkS("SSaveMissingExisting", func(db *gorm.DB, rng *rand.Rand) func(*gorm.DB) error {
			// association values that exist already (their upserts take the conflict branch in BOTH phases)
			first := c05SLoadFirst(db)
			gs, fsa := rng.Int63(), rng.Intn(2) == 0
			id := uint(8000 + rng.Intn(900))
			return func(db *gorm.DB) error {
				d := c05SExisting(first, rand.New(rand.NewSource(gs)), "x")
				d.ID = id
				c05SPoison(c05PoisonAt, d)
				return sess(db, fsa).Save(d).Error
			}
		}),
	}
}

// c05PhaseOne: the database as the UPDATE phase of a missing-key Save leaves it when NOTHING of the fallback phase
// has been executed (see the file comment).  ok=false: the run had no COMMIT followed by a further driver call.
// The world is left in that state: the caller restores it.
func c05PhaseOne(w *c05World, poisonAt int) (dump map[string][]string, ok bool) {
	w.rec.Reset()
	w.ctl.takeReal()
	var ctx context.Context
	if w.where != "plain" {
		ctx = WithMarker(context.Background(), "c05")
	}
	seen, fired := false, false
	w.rec.Fault = func(idx int, ev *Event) error {
		if !faultable(*ev) || c05StageKind(ev.Kind) {
			return nil
		}
		if fired {
			return errInjected // whatever still follows (nothing on an error-sticky pipeline) does not run either
		}
		if seen {
			fired = true
			return errInjected
		}
		if ev.Kind == "commit" {
			seen = true
		}
		return nil
	}
	c05PoisonAt = poisonAt
	err := w.exec(ctx)
	c05PoisonAt = -1
	w.rec.mu.Lock()
	w.rec.Fault = nil
	w.rec.mu.Unlock()
	w.quiesce()
	w.ctl.takeReal()
	if !fired || err == nil {
		return nil, false
	}
	return w.dump(), true
}

// c05F17Candidate: the outcome has the outer shape of the listed finding (a missing-key Save on a handle with the
// implicit transactions, a COMMIT succeeded before the fault, the database is neither unchanged nor reported applied)
func c05F17Candidate(opName, where string, o c05Outcome, committed bool) bool {
	if o.Verdict == "" || !c05SaveMissingOps[opName] || !listed("F17-C05-save-two-phase") || !committed {
		return false
	}
	if !(len(o.Verdict) >= 16 && o.Verdict[:16] == "database changed") && !hasSuffix(o.Verdict, "applied only partially") {
		return false
	}
	return where == "plain" || where == "ctx" || where == "translate" || where == "prepare"
}

func hasSuffix(s, suf string) bool { return len(s) >= len(suf) && s[len(s)-len(suf):] == suf }

// c05F17Exact: is the candidate EXACTLY the listed finding - the database equals the phase-one state, i.e. the
// failed fallback phase left nothing of its own?  Otherwise: the verdict for the violation.
func c05F17Exact(o c05Outcome, p1 map[string][]string, ok bool) (bool, string) {
	if !ok {
		return false, o.Verdict + "; and no phase-one reference state could be taken (no COMMIT followed by a driver call in a fault-free-until-then run)"
	}
	if reflect.DeepEqual(o.Dump, p1) {
		return true, ""
	}
	return false, o.Verdict + "; not the listed F17 pattern: the database differs from what the UPDATE phase committed (see phase_one_state) - " +
		"the failed INSERT fallback of Save left part of its own writes (parent row / association upserts / join rows): the fallback phase is not all-or-nothing"
}
