package main

// C03 correspondence suites for the code between "row" and "field":
//  * "lookup": schema.Parse of generated types whose Go names and column names CROSS (column of one field = Go
//    name of another, case variants, embedded members with and without prefix, several fields claiming one column,
//    `-` and permission tags) → real Schema.LookUpField / DBNames / FieldsByName vs Lean parseReg / lookUpField
//    (theorems C03_lookup_column_owner, C03_lookup_distinct_columns).
//  * "pool": the pooled scan holder of serializer fields (field.NewValuePool + the serializer wrapper of field.Set)
//    pushed through several rows with an INCREMENTAL Scan vs Lean scanLoop with renewal (C03_pool_rows_independent).
//  * "conflict-skip": RETURNING + ON CONFLICT DO NOTHING on real SQLite vs Lean scanUpdateDN; e2e verdict for the
//    inserted records; finding F21 (preset keys) is re-confirmed by a probe.

import (
	"context"
	"database/sql"
	"encoding/json"
	"fmt"
	"math/rand"
	"reflect"
	"strings"
	"sync"

	"gorm.io/gorm"
	"gorm.io/gorm/clause"
	"gorm.io/gorm/schema"
)

// ---- lookup ----

type c03LookupField struct {
	Name string `json:"name"`
	Type string `json:"type"` // string | int | emb:A | emb:*A | emb:B | emb:C
	Tag  string `json:"tag"`
}

type c03LookupInput struct {
	Fields []c03LookupField `json:"fields"`
}

var c03LookupCache sync.Map

func c03LookupType(in c03LookupInput) reflect.Type {
	var sf []reflect.StructField
	for _, f := range in.Fields {
		var t reflect.Type
		switch f.Type {
		case "string":
			t = reflect.TypeOf("")
		case "int":
			t = reflect.TypeOf(int64(0))
		case "emb:A":
			t = reflect.TypeOf(EmbA{})
		case "emb:*A":
			t = reflect.TypeOf(&EmbA{})
		case "emb:B":
			t = reflect.TypeOf(EmbB{})
		default:
			t = reflect.TypeOf(EmbC{})
		}
		sf = append(sf, reflect.StructField{Name: f.Name, Type: t, Tag: reflect.StructTag(`gorm:"` + f.Tag + `"`)})
	}
	return reflect.StructOf(sf)
}

func c03GenLookup(rng *rand.Rand) c03LookupInput {
	names := append([]string{"ID", "F1", "F2", "EA", "EB", "X", "Y", "Ea", "Pxea"}, c03CrossNames...)
	rng.Shuffle(len(names), func(i, j int) { names[i], names[j] = names[j], names[i] })
	n := 2 + rng.Intn(6)
	var in c03LookupInput
	usedEmb := map[string]bool{}
	for i := 0; i < n; i++ {
		f := c03LookupField{Name: names[i], Type: []string{"string", "string", "int", "string", "emb"}[rng.Intn(5)]}
		var tags []string
		if f.Type == "emb" {
			f.Type = []string{"emb:A", "emb:*A", "emb:B", "emb:C"}[rng.Intn(4)]
			if usedEmb[f.Type] && rng.Intn(2) == 0 {
				f.Type = "string"
			}
		}
		if strings.HasPrefix(f.Type, "emb") {
			usedEmb[f.Type] = true
			tags = append(tags, "embedded")
			if rng.Intn(2) == 0 {
				tags = append(tags, "embeddedPrefix:"+[]string{"pre_", "Px", "P", "e"}[rng.Intn(4)])
			}
		} else {
			switch rng.Intn(6) {
			case 0, 1: // column = Go name of some field of this struct (possibly its own), or of an embedded member
				tags = append(tags, "column:"+names[rng.Intn(n+2)])
			case 2: // case variant of a Go name / of a default column
				v := names[rng.Intn(n)]
				tags = append(tags, "column:"+[]string{strings.ToLower(v), strings.ToUpper(v), "ea", "pre_x", "Pxea", "f1"}[rng.Intn(6)])
			case 3:
				tags = append(tags, "column:c_"+strings.ToLower(f.Name))
			}
			switch rng.Intn(10) {
			case 0:
				tags = append(tags, "-")
			case 1:
				tags = append(tags, "->")
			case 2:
				tags = append(tags, "<-:false")
			case 3:
				tags = append(tags, "-:migration")
			case 4:
				tags = append(tags, "->:false;<-:false")
			}
		}
		f.Tag = strings.Join(tags, ";")
		in.Fields = append(in.Fields, f)
	}
	return in
}

// c03RunLookup parses the type with the real schema.Parse and reports (a) what the registration loop reads of every
// parsed field, (b) the candidate names, (c) the real answers
func c03RunLookup(in c03LookupInput) (fields []interface{}, names []string, real interface{}, err error) {
	typ := c03LookupType(in)
	sch, err := schema.Parse(reflect.New(typ).Interface(), &c03LookupCache, schema.NamingStrategy{})
	if err != nil {
		return nil, nil, nil, err
	}
	seen := map[string]bool{}
	addName := func(s string) {
		if s != "" && !seen[s] {
			seen[s] = true
			names = append(names, s)
		}
	}
	index := map[*schema.Field]int{}
	for i, f := range sch.Fields {
		index[f] = i
		var db interface{}
		if f.DBName != "" {
			db = f.DBName
		}
		fields = append(fields, []interface{}{f.Name, db, len(f.BindNames), f.Creatable || f.Updatable || f.Readable, f.TagSettings["-"] == "-"})
		for _, s := range []string{f.Name, f.DBName} {
			addName(s)
			addName(strings.ToLower(s))
			addName(strings.ToUpper(s))
		}
	}
	addName("no_such_name")
	idx := func(f *schema.Field) interface{} {
		if f == nil {
			return nil
		}
		if i, ok := index[f]; ok {
			return i
		}
		return "foreign-field"
	}
	look := make([]interface{}, len(names))
	byName := make([]interface{}, len(names))
	for i, n := range names {
		look[i] = idx(sch.LookUpField(n))
		byName[i] = idx(sch.FieldsByName[n])
	}
	dbNames := sch.DBNames
	if dbNames == nil { // a schema without any column: nil slice == empty list
		dbNames = []string{}
	}
	return fields, names, []interface{}{look, dbNames, byName}, nil
}

func c03LookupSuite(r *Result, rng *rand.Rand, tier string) {
	n := 1500
	if tier == "thorough" {
		n = 20000
	}
	var ops [][]interface{}
	var ins []c03LookupInput
	var reals []interface{}
	var allNames [][]string
	var allFields [][]interface{}
	for i := 0; i < n && !expired(); i++ {
		in := c03GenLookup(rng)
		fields, names, real, err := c03RunLookup(in)
		if err != nil {
			r.H("lookup.parse", "error(skipped)")
			continue
		}
		ops = append(ops, []interface{}{"c03.lookup", fields, names})
		ins = append(ins, in)
		reals = append(reals, real)
		allNames = append(allNames, names)
		allFields = append(allFields, fields)
	}
	outs, err := AskLean(ops)
	if err != nil {
		r.Violate(Violation{Kind: "correspondence", Suite: "lookup", Note: err.Error()})
		return
	}
	for i, in := range ins {
		// classify: does some name designate one field as column and another as Go name? several claimants of a column?
		dbOf, nameOf := map[string]int{}, map[string]int{}
		dup, cross := false, false
		for fi, f := range allFields[i] {
			a := f.([]interface{})
			if a[1] != nil {
				if _, ok := dbOf[a[1].(string)]; ok {
					dup = true
				} else {
					dbOf[a[1].(string)] = fi
				}
			}
			if _, ok := nameOf[a[0].(string)]; !ok {
				nameOf[a[0].(string)] = fi
			}
		}
		for c, fi := range dbOf {
			if fj, ok := nameOf[c]; ok && fj != fi {
				cross = true
			}
		}
		r.H("lookup.crossing", fmt.Sprint(cross))
		r.H("lookup.duplicate-column", fmt.Sprint(dup))
		r.H("lookup.fields", fmt.Sprint(minInt(len(allFields[i]), 12)))
		r.Case("lookup", canon(in), cross || dup)
		r.CorrCompared++
		if canon(reals[i]) != canonRaw(outs[i]) {
			r.Violate(Violation{Kind: "correspondence", Suite: "lookup", Input: map[string]interface{}{"type": in, "parsed_fields": allFields[i], "names": allNames[i]},
				Observed: reals[i], Expected: json.RawMessage(outs[i]),
				Note:     "Schema.LookUpField / DBNames / FieldsByName of the parsed type differ from Model.Scan.parseReg / lookUpField"})
		}
	}
}

// ---- pool ----

// CSelfKV: its own serializer; Scan = json.Unmarshal INTO the receiver, NULL ignored (members a, b, c; zero = absent)
type CSelfKV struct {
	A int `json:"a,omitempty"`
	B int `json:"b,omitempty"`
	C int `json:"c,omitempty"`
}

func (d *CSelfKV) Scan(ctx context.Context, field *schema.Field, dst reflect.Value, dbValue interface{}) error {
	b, ok, err := c03Bytes(dbValue)
	if err != nil || !ok {
		return err
	}
	return json.Unmarshal(b, d)
}

func (d *CSelfKV) Value(ctx context.Context, field *schema.Field, dst reflect.Value, fieldValue interface{}) (interface{}, error) {
	b, err := json.Marshal(fieldValue)
	return string(b), err
}

type KV3 struct {
	A int `json:"a,omitempty"`
	B int `json:"b,omitempty"`
	C int `json:"c,omitempty"`
}

type c03PoolModelV struct {
	ID uint
	F  CSelfKV
}
type c03PoolModelP struct {
	ID uint
	F  *CSelfKV
}
type c03PoolModelJ struct {
	ID uint
	F  KV3 `gorm:"serializer:json"`
}
type c03PoolModelJP struct {
	ID uint
	F  *KV3 `gorm:"serializer:json"`
}

type c03PoolInput struct {
	Model   string          `json:"model"` // self | self-ptr | json | json-ptr
	ViaPool bool            `json:"via_pool"`
	Docs    [][]interface{} `json:"docs"` // nil = NULL; else 3 entries, nil = member absent
}

func c03RunPool(in c03PoolInput) (out [][]int, err error) {
	var m interface{}
	switch in.Model {
	case "self":
		m = &c03PoolModelV{}
	case "self-ptr":
		m = &c03PoolModelP{}
	case "json":
		m = &c03PoolModelJ{}
	default:
		m = &c03PoolModelJP{}
	}
	sch, err := schema.Parse(m, &c03LookupCache, schema.NamingStrategy{})
	if err != nil {
		return nil, err
	}
	field := sch.LookUpField("f")
	ctx := context.Background()
	holder := field.NewValuePool.Get()
	var recs []reflect.Value
	for i, d := range in.Docs {
		if in.ViaPool && i > 0 {
			holder = field.NewValuePool.Get()
		}
		var dbv interface{}
		if d != nil {
			parts := []string{}
			for k, v := range d {
				if v != nil {
					parts = append(parts, fmt.Sprintf("%q:%d", string(rune('a'+k)), asInt(v)))
				}
			}
			dbv = "{" + strings.Join(parts, ",") + "}"
			if i%2 == 1 {
				dbv = []byte(dbv.(string))
			}
		}
		if err := holder.(sql.Scanner).Scan(dbv); err != nil {
			return nil, err
		}
		rec := reflect.New(sch.ModelType).Elem()
		if err := field.Set(ctx, rec, holder); err != nil {
			return nil, err
		}
		recs = append(recs, rec)
		if in.ViaPool {
			field.NewValuePool.Put(holder)
		}
	}
	// read every record only after ALL rows went through the holder (retroactive changes count)
	for _, rec := range recs {
		f := reflect.Indirect(rec.Field(1))
		if !f.IsValid() {
			out = append(out, []int{0, 0, 0}) // LATITUDE: nil pointer == zero document
			continue
		}
		out = append(out, []int{int(f.Field(0).Int()), int(f.Field(1).Int()), int(f.Field(2).Int())})
	}
	return out, nil
}

func c03PoolSuite(r *Result, rng *rand.Rand, tier string) {
	n := 1200
	if tier == "thorough" {
		n = 12000
	}
	var ops [][]interface{}
	var ins []c03PoolInput
	for i := 0; i < n; i++ {
		in := c03PoolInput{Model: []string{"self", "self-ptr", "json", "json-ptr"}[rng.Intn(4)], ViaPool: rng.Intn(2) == 0}
		ln := 1 + rng.Intn(6)
		for j := 0; j < ln; j++ {
			if rng.Intn(4) == 0 {
				in.Docs = append(in.Docs, nil)
				continue
			}
			d := make([]interface{}, 3)
			for k := range d {
				if rng.Intn(2) == 0 {
					d[k] = 1 + rng.Intn(99)
				}
			}
			in.Docs = append(in.Docs, d)
		}
		docs := make([]interface{}, len(in.Docs))
		for j, d := range in.Docs {
			if d != nil {
				docs[j] = d
			}
		}
		ops = append(ops, []interface{}{"c03.scanloop", true, 3, docs})
		ins = append(ins, in)
	}
	outs, err := AskLean(ops)
	if err != nil {
		r.Violate(Violation{Kind: "correspondence", Suite: "pool", Note: err.Error()})
		return
	}
	for i, in := range ins {
		real, err := c03RunPool(in)
		sparse := false
		for j, d := range in.Docs {
			if j > 0 && (d == nil || d[0] == nil || d[1] == nil || d[2] == nil) {
				sparse = true
			}
		}
		r.H("pool.model", in.Model)
		r.H("pool.rows", fmt.Sprint(len(in.Docs)))
		r.H("pool.sparse-later-row", fmt.Sprint(sparse))
		r.Case("pool", canon(in), sparse)
		r.CorrCompared++
		var obs interface{} = real
		if err != nil {
			obs = "error: " + err.Error()
		}
		if canon(obs) != canonRaw(outs[i]) {
			r.Violate(Violation{Kind: "correspondence", Suite: "pool", Input: in, Observed: obs, Expected: json.RawMessage(outs[i]),
				Note: "values handed to the records by field.Set through one pooled holder differ from Model.Scan.scanLoop (renewed holder): state of an earlier row reached a later one"})
		}
	}
}

// ---- RETURNING + ON CONFLICT DO NOTHING ----

const c03F21 = "F21-C03-donothing-preset-keys"

type c03DNInput struct {
	Existing []int64 `json:"existing"` // rows present before
	Keys     []int64 `json:"keys"`     // 0 = zero key
	Shape    string  `json:"shape"`
}

// returns in-memory keys, the key of the row holding each element's payload (0 = not stored), returned row keys in order
func c03RunDN(in c03DNInput) (mem, rowOf, rows []int64, err error) {
	db, sqlDB := c03Open(true, nil)
	defer sqlDB.Close()
	if e := db.AutoMigrate(&BFRow{}); e != nil {
		return nil, nil, nil, e
	}
	for _, k := range in.Existing {
		if e := db.Create(&BFRow{ID: k, P: "old"}).Error; e != nil {
			return nil, nil, nil, e
		}
	}
	recs := make([]*BFRow, len(in.Keys))
	for i, k := range in.Keys {
		recs[i] = &BFRow{ID: k, P: fmt.Sprint("new-", i)}
	}
	var tx *gorm.DB
	if in.Shape == "values" {
		vals := make([]BFRow, len(recs))
		for i := range recs {
			vals[i] = *recs[i]
		}
		tx = db.Clauses(clause.OnConflict{DoNothing: true}).Create(&vals)
		for i := range vals {
			recs[i] = &vals[i]
		}
	} else {
		tx = db.Clauses(clause.OnConflict{DoNothing: true}).Create(&recs)
	}
	if tx.Error != nil {
		return nil, nil, nil, tx.Error
	}
	for i, rec := range recs {
		mem = append(mem, rec.ID)
		var id int64
		db.Raw("SELECT id FROM bf_rows WHERE p = ?", fmt.Sprint("new-", i)).Scan(&id)
		rowOf = append(rowOf, id)
		if id != 0 {
			rows = append(rows, id)
		}
	}
	return
}

func c03JudgeDN(r *Result, in c03DNInput, model json.RawMessage) {
	mem, rowOf, rows, err := c03RunDN(in)
	if err != nil {
		r.Violate(Violation{Kind: "e2e", Suite: "conflict-skip", Input: in, Observed: err.Error(), Expected: "Create succeeds"})
		return
	}
	_ = rows
	// e2e: every STORED record carries the key of its row.  LATITUDE: records that were not stored (conflict) are not judged.
	var bad []int
	preset := false // pattern of F21: some preset-key element was inserted (did not conflict)
	for i := range mem {
		if in.Keys[i] != 0 && rowOf[i] != 0 {
			preset = true
		}
		if rowOf[i] != 0 && mem[i] != rowOf[i] {
			bad = append(bad, i)
		}
	}
	if len(bad) > 0 {
		what := fmt.Sprintf("in-memory keys %v, rows storing those records %v (0 = not stored)", mem, rowOf)
		if preset && listed(c03F21) {
			r.H("conflict-skip.verdict", "known-F21")
			r.KnownFinding(c03F21, "RETURNING + ON CONFLICT DO NOTHING: a batch with a preset-key element that IS inserted shifts the returned rows, later records carry another row's key")
		} else {
			r.H("conflict-skip.verdict", "violation")
			r.Violate(Violation{Kind: "e2e", Suite: "conflict-skip", Input: in, Observed: what, Expected: "each stored record carries the key of its own row"})
		}
	} else {
		r.H("conflict-skip.verdict", "ok")
	}
	if model != nil {
		r.CorrCompared++
		if canon(mem) != canonRaw(model) {
			r.Violate(Violation{Kind: "correspondence", Suite: "conflict-skip", Input: in, Observed: map[string]interface{}{"mem": mem, "returned_rows": rows}, Expected: model,
				Note: "in-memory keys after Create with ON CONFLICT DO NOTHING differ from Model.Scan.scanUpdateDN"})
		}
	}
}

func c03DNSuite(r *Result, rng *rand.Rand, tier string) {
	n := 150
	if tier == "thorough" {
		n = 2500
	}
	ins := []c03DNInput{{Keys: []int64{100, 0}, Shape: "values"}} // probe of F21 (witness of C03_conflict_skip_counterexample)
	for i := 0; i < n && !expired(); i++ {
		in := c03DNInput{Shape: []string{"values", "pointers"}[rng.Intn(2)]}
		for j, ne := 0, rng.Intn(3); j < ne; j++ {
			in.Existing = append(in.Existing, int64(1+j)*1000)
		}
		ln := 1 + rng.Intn(6)
		mode := rng.Intn(4) // 0,1: all zero (outside F21's pattern); 2: presets all conflicting; 3: any
		perm := rng.Perm(20)
		for j := 0; j < ln; j++ {
			k := int64(0)
			switch {
			case mode == 2 && len(in.Existing) > 0 && rng.Intn(2) == 0:
				k = in.Existing[rng.Intn(len(in.Existing))]
			case mode == 3 && rng.Intn(2) == 0:
				k = int64(perm[j]+1) * 1000 // may or may not exist
			}
			in.Keys = append(in.Keys, k)
		}
		// duplicate preset keys inside one statement are kept out (which of them wins is SQLite's business)
		seen := map[int64]bool{}
		for j, k := range in.Keys {
			if k != 0 && seen[k] {
				in.Keys[j] = 0
			}
			seen[k] = true
		}
		ins = append(ins, in)
	}
	// model: the rows RETURNING yields are those of the elements that do not conflict, in order, with the modelled
	// rowid assignment; computed here from the real table afterwards (rows), so only the skip heuristic is compared
	type pend struct {
		in   c03DNInput
		mem  []int64
		rows []int64
	}
	var ops [][]interface{}
	for _, in := range ins {
		_, _, rows, err := c03RunDN(in)
		if err != nil {
			rows = nil
		}
		if rows == nil {
			rows = []int64{}
		}
		ops = append(ops, []interface{}{"c03.scandn", in.Keys, rows})
	}
	outs, err := AskLean(ops)
	if err != nil {
		r.Violate(Violation{Kind: "correspondence", Suite: "conflict-skip", Note: err.Error()})
		return
	}
	for i, in := range ins {
		z, p := false, false
		for _, k := range in.Keys {
			if k == 0 {
				z = true
			} else {
				p = true
			}
		}
		r.H("conflict-skip.keys", map[bool]string{true: "with-preset", false: "all-zero"}[p])
		r.Case("conflict-skip", canon(in), len(in.Keys) > 1 && z)
		c03JudgeDN(r, in, outs[i])
	}
}

func init() {
	register("C03", c03LookupSuite)
	register("C03", c03PoolSuite)
	register("C03", c03DNSuite)
	replayers["C03/lookup"] = func(r *Result, input json.RawMessage) { r.Note("lookup replays are correspondence-only") }
	replayers["C03/pool"] = func(r *Result, input json.RawMessage) { r.Note("pool replays are correspondence-only") }
	replayers["C03/conflict-skip"] = func(r *Result, input json.RawMessage) {
		var in c03DNInput
		if json.Unmarshal(input, &in) != nil {
			return
		}
		c03JudgeDN(r, in, nil)
	}
}
