package main

import (
	"encoding/json"
	"fmt"
	"math/rand"
	"sort"
	"strconv"
	"strings"
)

// ---- C11 scale family ---------------------------------------------------------------------------------------------
//
// The worlds of c11_families.go hold a handful of rows.  "For all data graphs" includes graphs with MANY parents: code that
// splits a key list (batches of the IN list, chunks of a result set, a growing slice, a cap on bind variables) is exact on
// six parents and wrong on six hundred.  A SCALE WORLD is generated from the table / relation descriptors of a family
// (every family: S string keys, U integer keys, C composite keys, R non-primary references, N nullable-first columns):
//
//   * the main parent table has P rows (P in 3, 499, 500, 501, 640, 1200, random; a light world goes to SQLite's
//     bind-variable limit 32766 and one above), every other model table P or 2P rows, polymorphic child tables one block of
//     P rows per polymorphic relation plus one more;
//   * every referenced key column gets P distinct values in an order that is NOT the insertion order (a seeded permutation;
//     strings differ in letter case only for neighbouring numbers; composite keys recombine few first components with many
//     last components, with zero-valued first components);
//   * has-many children are spread over ALL parents (child i -> parent i mod P, so the last parents have children too), a
//     few pile up on the first three parents, a few are orphans or NULL; has-one / polymorphic-one children are a bijection;
//     belongs-to / self references hit ~0.9 P distinct targets; every parent has up to two many2many links, to ~0.94 P
//     distinct targets;
//   * about one row in seven of every table is soft-deleted.
//
// The oracle is the same reference join as for the small worlds (c11World.children), served by a hash index; on worlds with
// P <= 40 both evaluations are compared with each other on every case (self-check of the index).
//
// A case is stored as (family, P, seed, operation): the replayer regenerates the world.

type c11ScaleCase struct {
	Family  string   `json:"family"`
	Parents int      `json:"parents"`
	Seed    int64    `json:"seed"`
	Rels    []string `json:"rels,omitempty"` // light world: only these relations of the main parent table are populated
	Op      c11Op    `json:"op"`
	// "" = the loaded associations must equal the reference join; "error-or-complete" = an error of the finisher is accepted
	// too (parents beyond the database's bind-variable limit): never a nil error with missing rows
	Verdict string `json:"verdict,omitempty"`
	target  int    // histogram only: number of live parents the selection loads
}

// ---- hash index of the reference join ------------------------------------------------------------------------------

type c11Index struct {
	direct map[string]map[string][]c11Row // relation -> child key tuple -> child rows (table order)
	viaP   map[string]map[string][]c11Row // relation -> parent key tuple -> join rows
	viaC   map[string]map[string][]c11Row // relation -> child key tuple -> child rows
}

// exact SQL tuple equality as a map key: "" when a component is NULL (equals nothing)
func c11TupleKey(r c11Row, pairs [][2]string, side int) string {
	var sb strings.Builder
	for _, p := range pairs {
		v := c11Norm(r[p[side]])
		if v == nil {
			return ""
		}
		fmt.Fprintf(&sb, "%T\x01%v\x00", v, v)
	}
	return sb.String()
}

func (w c11World) childrenIndexed(rel *c11RelD, p c11Row, cond c11Cond) []c11Row {
	ix := w.idx
	name := rel.Child + "\x00" + rel.Field + "\x00" + rel.Via + "\x00" + fmt.Sprint(rel.On, rel.ViaP, rel.ViaC)
	build := func(rows []c11Row, pairs [][2]string, side int) map[string][]c11Row {
		m := map[string][]c11Row{}
		for _, r := range rows {
			if k := c11TupleKey(r, pairs, side); k != "" {
				m[k] = append(m[k], r)
			}
		}
		return m
	}
	var cands []c11Row
	if rel.Via == "" {
		m, ok := ix.direct[name]
		if !ok {
			m = build(w.Tables[rel.Child], rel.On, 1)
			ix.direct[name] = m
		}
		if k := c11TupleKey(p, rel.On, 0); k != "" {
			cands = m[k]
		}
	} else {
		mp, ok := ix.viaP[name]
		if !ok {
			mp = build(w.Tables[rel.Via], rel.ViaP, 1)
			ix.viaP[name] = mp
			ix.viaC[name] = build(w.Tables[rel.Child], rel.ViaC, 1)
		}
		mc := ix.viaC[name]
		if k := c11TupleKey(p, rel.ViaP, 0); k != "" {
			for _, j := range mp[k] {
				if kc := c11TupleKey(j, rel.ViaC, 0); kc != "" {
					cands = append(cands, mc[kc]...)
				}
			}
		}
	}
	var out []c11Row
	for _, c := range cands {
		if (!w.unscoped && !c11Live(c)) || !cond.ok(c11N(c)) {
			continue
		}
		okc := true
		for _, k := range rel.Const {
			if !c11Eq(c[k[0]], k[1]) {
				okc = false
			}
		}
		if okc {
			out = append(out, c)
		}
	}
	sort.SliceStable(out, func(i, j int) bool { return c11N(out[i]) < c11N(out[j]) })
	return out
}

func c11NewIndex() *c11Index {
	return &c11Index{direct: map[string]map[string][]c11Row{}, viaP: map[string]map[string][]c11Row{}, viaC: map[string]map[string][]c11Row{}}
}

// ---- world generator ---------------------------------------------------------------------------------------------------

// one foreign-key link between two tables, however many relations read it (Owner.Items and Item.Owner; Boss and Staff;
// the polymorphic relations sharing owner_id / owner_type)
type c11ScaleLink struct {
	Holder, Target string
	FK, Key        []string
	Variants       [][][2]string // polymorphic constants (holder column, value), one entry per polymorphic relation
	VarUnique      []bool        // that relation is to-one
	Unique         bool          // a plain has-one reads the link: at most one holder row per target row
	HasKind        bool          // read by a has-one / has-many relation (the holder is the child table)
}

func c11Side(pairs [][2]string, side int) []string {
	var out []string
	for _, p := range pairs {
		out = append(out, p[side])
	}
	return out
}

func (f *c11Family) scaleLinks() []*c11ScaleLink {
	var out []*c11ScaleLink
	find := func(h string, fk []string, t string, key []string) *c11ScaleLink {
		for _, l := range out {
			if l.Holder == h && l.Target == t && strings.Join(l.FK, ",") == strings.Join(fk, ",") && strings.Join(l.Key, ",") == strings.Join(key, ",") {
				return l
			}
		}
		l := &c11ScaleLink{Holder: h, Target: t, FK: fk, Key: key}
		out = append(out, l)
		return l
	}
	for _, t := range f.Tables {
		for i := range t.Rels {
			rel := &t.Rels[i]
			if rel.Via != "" {
				continue
			}
			on := append([][2]string{}, rel.On...)
			if strings.HasSuffix(rel.Kind, "belongs_to") {
				sort.Slice(on, func(a, b int) bool { return on[a][1] < on[b][1] }) // by referenced column
				find(t.Name, c11Side(on, 0), rel.Child, c11Side(on, 1))
				continue
			}
			sort.Slice(on, func(a, b int) bool { return on[a][0] < on[b][0] }) // by referenced column
			l := find(rel.Child, c11Side(on, 1), t.Name, c11Side(on, 0))
			l.HasKind = true
			if len(rel.Const) > 0 {
				l.Variants = append(l.Variants, rel.Const)
				l.VarUnique = append(l.VarUnique, rel.Single)
			} else if rel.Single {
				l.Unique = true
			}
		}
	}
	return out
}

// the referenced column groups of every table
func (f *c11Family) scaleKeyGroups() map[string][][]string {
	groups := map[string][][]string{}
	add := func(t string, cols []string) {
		cols = append([]string{}, cols...)
		sort.Strings(cols)
		for _, g := range groups[t] {
			if strings.Join(g, ",") == strings.Join(cols, ",") {
				return
			}
		}
		for _, g := range groups[t] {
			for _, c := range g {
				if c11In(cols, c) {
					panic("c11 scale: column " + t + "." + c + " is part of two referenced keys")
				}
			}
		}
		groups[t] = append(groups[t], cols)
	}
	for _, l := range f.scaleLinks() {
		add(l.Target, l.Key)
	}
	for _, t := range f.Tables {
		for i := range t.Rels {
			if rel := &t.Rels[i]; rel.Via != "" {
				add(t.Name, c11Side(rel.ViaP, 0))
				add(rel.Child, c11Side(rel.ViaC, 1))
			}
		}
	}
	return groups
}

func c11ScaleStr(x int) string {
	s := strconv.FormatInt(int64(x/2), 36)
	if x%2 == 1 {
		return "K" + strings.ToUpper(s)
	}
	return "k" + s
}

func c11ScaleHash(a, b int) uint32 {
	h := uint32(a)*2654435761 ^ uint32(b)*40503
	h ^= h >> 15
	h *= 2246822519
	h ^= h >> 13
	return h
}

func c11ScaleWorld(f *c11Family, parents int, seed int64, rels []string) c11World {
	rng := rand.New(rand.NewSource(seed))
	w := c11World{Family: f.Name, Tables: map[string][]c11Row{}, idx: c11NewIndex()}
	main := f.parentTables()[0]
	links := f.scaleLinks()
	groups := f.scaleKeyGroups()

	// which tables carry rows
	keep := map[string]bool{}
	if rels != nil {
		keep[main.Name] = true
		for _, rn := range rels {
			rel := main.rel(rn)
			keep[rel.Child] = true
			if rel.Via != "" {
				keep[rel.Via] = true
			}
		}
	}
	size := map[string]int{}
	for _, t := range f.Tables {
		if t.Model != nil && (rels == nil || keep[t.Name]) {
			size[t.Name] = parents
		}
	}
	for _, l := range links {
		if size[l.Holder] == 0 || size[l.Target] == 0 {
			continue
		}
		if len(l.Variants) > 0 {
			size[l.Holder] = (len(l.Variants)+1)*size[l.Target] + 5
		} else if l.HasKind && !l.Unique && l.Holder != l.Target {
			size[l.Holder] = 2 * parents
		}
	}

	// key values
	perms := map[string][]int{}
	for _, t := range f.Tables {
		for _, g := range groups[t.Name] {
			if len(g) == 1 && size[t.Name] > 0 {
				perms[t.Name+"."+g[0]] = rng.Perm(size[t.Name])
			}
		}
	}
	val := func(t *c11Table, col string, x int, small bool) interface{} {
		switch t.col(col).Typ {
		case "int", "uint":
			return x
		}
		if small {
			return []string{"", "x", "X"}[x%3]
		}
		return c11ScaleStr(x)
	}
	// key columns of row i of table t (i > size: a key no row has)
	keyOf := func(t *c11Table, i int) c11Row {
		out := c11Row{}
		for _, g := range groups[t.Name] {
			if len(g) == 1 {
				x := size[t.Name] + 1 + i%50
				if i <= size[t.Name] {
					x = perms[t.Name+"."+g[0]][i-1] + 1
				}
				out[g[0]] = val(t, g[0], x, false)
				continue
			}
			for k, c := range g {
				switch {
				case k == 0:
					out[c] = val(t, c, i%3, true)
				case k == len(g)-1:
					out[c] = val(t, c, i/3+1, false)
				default:
					out[c] = val(t, c, (i/3)%2, true)
				}
			}
		}
		return out
	}
	for ti, t := range f.Tables {
		if t.Model == nil {
			continue
		}
		den := uint32(7)
		if t == main {
			den = 11
		}
		for i := 1; i <= size[t.Name]; i++ {
			r := keyOf(t, i)
			r["n"] = i
			r["deleted_at"] = c11ScaleHash(ti+1, i)%den == 0
			w.Tables[t.Name] = append(w.Tables[t.Name], r)
		}
	}

	// foreign keys
	for li, l := range links {
		ht, tt := f.table(l.Holder), f.table(l.Target)
		kt := size[l.Target]
		setLink := func(r c11Row, j int) {
			if j == 0 || kt == 0 {
				for _, c := range l.FK {
					switch {
					case ht.col(c).Ptr:
						r[c] = nil
					case ht.col(c).Typ == "int" || ht.col(c).Typ == "uint":
						r[c] = 0
					default:
						r[c] = ""
					}
				}
				return
			}
			k := keyOf(tt, j)
			for x, c := range l.FK {
				r[c] = k[l.Key[x]]
			}
		}
		shift := 0
		if l.Holder == l.Target {
			shift = 1
		}
		// several links between the same two tables (same-named key fields at different embedding levels, two relations to
		// one target): each gets its own rotation of targets, so that the columns of one row hold DIFFERENT keys
		for _, o := range links[:li] {
			if o.Holder == l.Holder && o.Target == l.Target {
				shift += 2
			}
		}
		for idx, r := range w.Tables[l.Holder] {
			i := idx + 1
			switch {
			case kt == 0:
				setLink(r, 0)
				for _, v := range l.Variants {
					for _, kv := range v {
						r[kv[0]] = "other"
					}
				}
			case len(l.Variants) > 0:
				b, j := (i-1)/kt, (i-1)%kt+1
				consts := [][2]string(nil)
				if b < len(l.Variants) {
					consts = l.Variants[b]
				} else if b == len(l.Variants) {
					for v := range l.Variants {
						if !l.VarUnique[v] {
							consts = l.Variants[v]
							break
						}
					}
				}
				if i%41 == 0 {
					j = kt + 3 + i // nobody's key
				}
				setLink(r, j)
				for _, kv := range l.Variants[0] {
					r[kv[0]] = []string{"other", strings.ToUpper(l.Variants[0][0][1])}[i%2]
				}
				for _, kv := range consts {
					r[kv[0]] = kv[1]
				}
			case l.Unique:
				if i <= kt && i%13 != 0 {
					setLink(r, 1+(i-1+shift)%kt)
				} else {
					setLink(r, 0)
				}
			default:
				switch i % 30 {
				case 0:
					setLink(r, 0)
				case 10:
					setLink(r, kt+3+i)
				case 20:
					setLink(r, 1+(i/30)%3)
				default:
					setLink(r, 1+(i-1+shift)%kt)
				}
			}
		}
	}

	// decoy columns: the neighbouring row's value of the same-named key column
	for _, d := range f.Decoys {
		rows := w.Tables[d.Table]
		for i, r := range rows {
			r[d.Col] = rows[(i+1)%len(rows)][d.Like]
		}
	}

	// join tables
	done := map[string]bool{}
	for _, t := range f.Tables {
		for i := range t.Rels {
			rel := &t.Rels[i]
			if rel.Via == "" || done[rel.Via] {
				continue
			}
			done[rel.Via] = true
			ct := f.table(rel.Child)
			kp, kc := size[t.Name], size[ct.Name]
			if kp == 0 || kc == 0 || (rels != nil && !keep[rel.Via]) {
				continue
			}
			link := func(a, b int) {
				pk, ck := keyOf(t, a), keyOf(ct, b)
				r := c11Row{}
				for _, p := range rel.ViaP {
					r[p[1]] = pk[p[0]]
				}
				for _, p := range rel.ViaC {
					r[p[0]] = ck[p[1]]
				}
				w.Tables[rel.Via] = append(w.Tables[rel.Via], r)
			}
			self := 0
			if t == ct {
				self = 1
			}
			for a := 1; a <= kp; a++ {
				if a%17 == 0 {
					continue
				}
				b1, b2 := 1+(a-1+self)%kc, 1+(a*5+2)%kc
				link(a, b1)
				if b2 != b1 {
					link(a, b2)
				}
			}
			link(kp+3, 1)
			link(1, kc+3)
		}
	}
	return w
}

// ---- operations ----------------------------------------------------------------------------------------------------------

func c11ScaleCond(rng *rand.Rand, maxN int, styles []string) c11Cond {
	c := c11Cond{Style: styles[rng.Intn(len(styles))]}
	if rng.Intn(2) == 0 {
		c.Kind, c.K = "mod", rng.Intn(2)
	} else {
		c.Kind, c.K = "gt", rng.Intn(maxN+1)
	}
	return c
}

// the matrix: every relation of the main parent table x {flat, function condition that adds nothing, function condition
// with Where, condition with arguments, nested (the relation has preloads below it / is the preload below another one),
// below a joined relation} x {Preload, Joins, Association().Find / Count over the slice of all parents}
func (f *c11Family) scaleOps(rng *rand.Rand, parents int) (ops []c11Op, tags []string) {
	t := f.parentTables()[0]
	add := func(tag string, op c11Op) {
		op.Parent = t.Name
		if op.Kind == "" {
			op.Kind = "query"
		}
		if op.Shape == "" {
			op.Shape = []string{"slice", "ptrs"}[rng.Intn(2)]
			if op.Kind == "assoc" {
				op.Shape = []string{"structs", "ptrs"}[rng.Intn(2)]
			}
		}
		if rng.Intn(5) == 0 {
			op.Unscoped = true
		}
		if rng.Intn(6) == 0 {
			op.PSel = c11Cond{Kind: "gt", K: rng.Intn(parents/2 + 1), Style: "where"}
		}
		if rng.Intn(7) == 0 {
			op.Ctx = []string{"tx", "prepare", "conn", "txprepare"}[rng.Intn(4)]
		}
		f.sprinkleEmb(rng, t, op.Nodes)
		ops, tags = append(ops, op), append(tags, tag)
	}
	idf := c11Cond{Style: "idfunc"}
	for i := range t.Rels {
		rel := &t.Rels[i]
		ct := f.table(rel.Child)
		maxN := 2 * parents
		kind := rel.Kind
		add(kind+"/preload/flat", c11Op{Nodes: []*c11Node{{Rel: rel.Field}}})
		add(kind+"/preload/idfunc", c11Op{Nodes: []*c11Node{{Rel: rel.Field, Cond: idf}}})
		add(kind+"/preload/scope", c11Op{Nodes: []*c11Node{{Rel: rel.Field, Cond: c11ScaleCond(rng, maxN, []string{"scope"})}}})
		add(kind+"/preload/args", c11Op{Nodes: []*c11Node{{Rel: rel.Field, Cond: c11ScaleCond(rng, maxN, []string{"inline"})}}})
		if len(ct.Rels) > 0 {
			kr := &ct.Rels[rng.Intn(len(ct.Rels))]
			add(kind+"/preload/nested>"+kr.Kind, c11Op{Nodes: []*c11Node{{Rel: rel.Field, Explicit: rng.Intn(2) == 0, Kids: []*c11Node{{Rel: kr.Field}}}}})
			kr = &ct.Rels[rng.Intn(len(ct.Rels))]
			inner := idf
			if rng.Intn(2) == 0 {
				inner = c11ScaleCond(rng, maxN, []string{"inline", "scope"})
			}
			outer := c11Cond{}
			if rng.Intn(3) == 0 {
				outer = idf
			}
			add(kind+"/preload/nested-cond>"+kr.Kind, c11Op{Nodes: []*c11Node{{Rel: rel.Field, Cond: outer, Explicit: true, Kids: []*c11Node{{Rel: kr.Field, Cond: inner}}}}})
			if rel.Single {
				kr = &ct.Rels[rng.Intn(len(ct.Rels))]
				kid := &c11Node{Rel: kr.Field}
				switch rng.Intn(3) {
				case 0:
					kid.Cond = idf
				case 1:
					kid.Cond = c11ScaleCond(rng, maxN, []string{"inline", "scope"})
				}
				kt := f.table(kr.Child)
				if len(kt.Rels) > 0 && rng.Intn(2) == 0 {
					kid.Kids = []*c11Node{{Rel: kt.Rels[rng.Intn(len(kt.Rels))].Field}}
					kid.Explicit = true
				}
				add(kind+"/join/preload-below>"+kr.Kind, c11Op{Nodes: []*c11Node{{Rel: rel.Field, Join: true, Kids: []*c11Node{kid}}}})
			}
		}
		if rel.Single {
			add(kind+"/join/flat", c11Op{Nodes: []*c11Node{{Rel: rel.Field, Join: true, Inner: rng.Intn(3) == 0}}})
			add(kind+"/join/on", c11Op{Nodes: []*c11Node{{Rel: rel.Field, Join: true, Cond: c11ScaleCond(rng, maxN, []string{"expr", "alias"})}}})
		}
		add(kind+"/assoc/find", c11Op{Kind: "assoc", Rel: rel.Field})
		cond := c11ScaleCond(rng, maxN, []string{"inline", "where"})
		add(kind+"/assoc/find-cond", c11Op{Kind: "assoc", Rel: rel.Field, Cond: cond})
		add(kind+"/assoc/count", c11Op{Kind: "assoc", Rel: rel.Field, Count: true})
	}
	// several relations in one query, clause.Associations, duplicated parents
	if len(t.Rels) >= 3 {
		p := rng.Perm(len(t.Rels))
		add("multi/preload", c11Op{Nodes: []*c11Node{{Rel: t.Rels[p[0]].Field}, {Rel: t.Rels[p[1]].Field, Cond: idf}, {Rel: t.Rels[p[2]].Field}}})
	}
	add("all/preload", c11Op{All: true})
	add("all/preload-idfunc", c11Op{All: true, AllC: idf})
	add("dup/preload", c11Op{Shape: "dup", Nodes: []*c11Node{{Rel: t.Rels[rng.Intn(len(t.Rels))].Field}}})
	return
}

// ---- judge ---------------------------------------------------------------------------------------------------------------

type c11ScaleDiff struct {
	Loaded   int      `json:"loaded"`
	Expected int      `json:"expected"`
	Differ   int      `json:"differ"`
	FirstAt  int      `json:"first_at"`
	Got      []string `json:"got"`
	Want     []string `json:"want"`
	Err      string   `json:"error,omitempty"`
}

func c11ScaleCompare(got, want []string) *c11ScaleDiff {
	d := &c11ScaleDiff{Loaded: len(got), Expected: len(want), FirstAt: -1}
	n := len(got)
	if len(want) > n {
		n = len(want)
	}
	for i := 0; i < n; i++ {
		g, x := "<absent>", "<absent>"
		if i < len(got) {
			g = got[i]
		}
		if i < len(want) {
			x = want[i]
		}
		if g != x {
			if d.FirstAt < 0 {
				d.FirstAt = i
			}
			d.Differ++
			if len(d.Got) < 3 {
				if len(g) > 300 {
					g = g[:300] + "…"
				}
				if len(x) > 300 {
					x = x[:300] + "…"
				}
				d.Got, d.Want = append(d.Got, g), append(d.Want, x)
			}
		}
	}
	if d.Differ == 0 {
		return nil
	}
	return d
}

// opened scale worlds of this run, reused by consecutive cases of one world
type c11ScaleDB struct {
	key   string
	w     c11World
	close func()
	run   func(cs c11Case) (got, want []string, err error)
}

func c11ScaleOpen(sc c11ScaleCase) *c11ScaleDB {
	f := c11Families[sc.Family]
	w := c11ScaleWorld(f, sc.Parents, sc.Seed, sc.Rels)
	db, rec, closeFn := c11OpenWorldRec(f, w)
	rec.Reset()
	return &c11ScaleDB{key: fmt.Sprint(sc.Family, sc.Parents, sc.Seed, sc.Rels), w: w, close: closeFn,
		run: func(cs c11Case) ([]string, []string, error) {
			defer rec.Reset()
			if cs.Op.Ctx == "tx" || cs.Op.Ctx == "txprepare" {
				return c11RunCaseInTx(f, cs) // a fresh database: the world is inserted inside the transaction
			}
			return c11ExecCase(db, nil, cs)
		}}
}

func c11JudgeScale(r *Result, sc c11ScaleCase, sdb *c11ScaleDB) {
	if c11Families[sc.Family] == nil || sc.Parents < 1 {
		r.Note("scale: bad case")
		return
	}
	if sdb == nil {
		sdb = c11ScaleOpen(sc)
		defer sdb.close()
	}
	cs := c11Case{World: sdb.w, Op: sc.Op}
	got, want, err := sdb.run(cs)
	if sc.Parents <= 40 && err == nil { // self-check of the hash index against the nested-loop reference join
		plain := cs
		plain.World.idx = nil
		_, want2, _ := sdb.run(plain)
		if strings.Join(want, "\n") != strings.Join(want2, "\n") {
			panic(fmt.Sprintf("c11 scale: indexed reference join differs from the nested-loop one on %s", canon(sc)))
		}
	}
	outcome := "complete"
	var diff *c11ScaleDiff
	switch {
	case err != nil && sc.Verdict == "error-or-complete" && !strings.HasPrefix(err.Error(), "panic:"):
		outcome = "error reported"
	case err != nil:
		diff = &c11ScaleDiff{Err: err.Error(), FirstAt: -1}
		outcome = "error"
	default:
		if diff = c11ScaleCompare(got, want); diff != nil {
			outcome = "differs"
		}
	}
	if sc.Verdict != "" {
		r.H("scale.limit", fmt.Sprintf("loaded parents=%d %s: %s", sc.target, c11ScaleOpTag(sc.Op), outcome))
	}
	if diff == nil {
		return
	}
	note := "scale world of family " + sc.Family + fmt.Sprintf(" with %d parents: every loaded parent — also the last ones — must carry exactly the live children whose fk tuple equals its key tuple and that satisfy the condition", sc.Parents)
	if sc.Verdict != "" {
		note += "; beyond the database's bind-variable limit an error of the finisher is accepted, a nil error with missing rows is not"
	}
	r.Violate(Violation{Kind: "e2e", Suite: "scale", Input: sc, Observed: diff, Expected: "the reference join (see got / want of the first differing parents)", Note: note})
}

func c11ScaleOpTag(op c11Op) string {
	if op.Kind == "assoc" {
		return "assoc " + op.Rel
	}
	var walk func(ns []*c11Node) string
	walk = func(ns []*c11Node) string {
		var parts []string
		for _, n := range ns {
			s := n.Rel
			if n.Join {
				s = "join:" + s
			}
			if n.Cond.Style == "idfunc" || n.Cond.Style == "scope" {
				s += "(func)"
			} else if n.Cond.Kind != "" {
				s += "(cond)"
			}
			if len(n.Kids) > 0 {
				s += ">" + walk(n.Kids)
			}
			parts = append(parts, s)
		}
		return strings.Join(parts, "+")
	}
	if op.All {
		return "preload clause.Associations"
	}
	return "preload " + walk(op.Nodes)
}

func c11ScaleBucket(p int) string {
	switch {
	case p <= 40:
		return "<=40"
	case p < 499:
		return "41..498"
	case p <= 501:
		return fmt.Sprint(p)
	case p <= 1000:
		return "502..1000"
	case p <= 5000:
		return "1001..5000"
	case p <= 32766:
		return "5001..32766"
	}
	return ">32766 (beyond SQLite's bind-variable limit)"
}

func c11ScaleSuite(r *Result, rng *rand.Rand, tier string) {
	fams := []string{"U", "S", "C", "R", "N", "E", "D"}
	over := []int{501, 1200, 640}
	under := []int{500, 3, 499}
	type plan struct {
		fam    string
		p      int
		maxOps int
	}
	var plans []plan
	rot := rng.Intn(15)
	for i, fn := range fams {
		o := over[(i+rot)%3]
		if (i+rot)%5 == 4 {
			o = 502 + rng.Intn(1500)
		}
		switch tier {
		case "quick", "search":
			big := 0
			if fn == "D" {
				big = 64 // thirteen relations: a random half of the matrix per run
			}
			plans = append(plans, plan{fn, o, big}, plan{fn, under[(i+rot/3)%3], 24})
		default:
			for _, p := range []int{3, 17, 499, 500, 501, 640, 1200, 502 + rng.Intn(3000)} {
				plans = append(plans, plan{fn, p, 0})
			}
		}
	}
	for _, pl := range plans {
		if expired() {
			break
		}
		f := c11Families[pl.fam]
		sc := c11ScaleCase{Family: pl.fam, Parents: pl.p, Seed: rng.Int63n(1 << 40)}
		sdb := c11ScaleOpen(sc)
		ops, tags := f.scaleOps(rng, pl.p)
		order := rng.Perm(len(ops))
		if pl.maxOps > 0 && len(order) > pl.maxOps {
			order = order[:pl.maxOps]
		}
		r.H("scale.world", pl.fam+" parents="+c11ScaleBucket(pl.p))
		for _, k := range order {
			sc.Op = ops[k]
			r.Case("scale", canon(sc), pl.p >= 2)
			r.H("scale.op", tags[k])
			r.H("scale.parents", c11ScaleBucket(pl.p))
			if sc.Op.Unscoped {
				r.H("scale.flags", "unscoped")
			}
			if sc.Op.Ctx != "" {
				r.H("scale.flags", "ctx="+sc.Op.Ctx)
			}
			c11JudgeScale(r, sc, sdb)
		}
		if pl.p >= 501 && pl.fam == "U" {
			r.Sample(map[string]interface{}{"suite": "scale", "family": pl.fam, "parents": pl.p, "op": ops[order[0]]})
		}
		sdb.close()
	}

	// SQLite's bind-variable limit: 32766 parent keys fit into one IN list, 32767 do not.  What the unchanged code does
	// above the limit is to report the database's error ("too many SQL variables"); the property tolerates that, it does
	// not tolerate silence.  The parent selection `n > K` is chosen so that exactly `target` live parents are loaded.
	targets := []int{32767, 32766}
	if tier == "thorough" {
		targets = []int{32766, 32767, 32768, 36000}
	}
	if !expired() {
		sc := c11ScaleCase{Family: "U", Parents: 40500, Seed: rng.Int63n(1 << 40), Rels: []string{"Items", "Group"}, Verdict: "error-or-complete"}
		sdb := c11ScaleOpen(sc)
		main := c11Families["U"].parentTables()[0]
		live := sdb.w.selected(main, c11Cond{})
		idf := c11Cond{Style: "idfunc"}
		for ti, target := range targets {
			ops := []c11Op{
				{Kind: "query", Shape: "slice", Nodes: []*c11Node{{Rel: "Items"}}},
				{Kind: "query", Shape: "ptrs", Nodes: []*c11Node{{Rel: "Items", Cond: idf, Explicit: true, Kids: []*c11Node{{Rel: "Owner"}}}}},
				{Kind: "assoc", Shape: "structs", Rel: "Items"},
				{Kind: "query", Shape: "slice", Nodes: []*c11Node{{Rel: "Group", Cond: idf}}},
				{Kind: "query", Shape: "slice", Nodes: []*c11Node{{Rel: "Group", Join: true}}},
			}
			if tier != "thorough" && ti > 0 {
				ops = ops[:2]
			}
			for _, op := range ops {
				if len(live) < target {
					break
				}
				op.Parent = main.Name
				op.PSel = c11Cond{Kind: "gt", K: c11N(live[len(live)-target]) - 1, Style: "where"}
				sc.Op, sc.target = op, target
				r.Case("scale", canon(sc), true)
				r.H("scale.parents", c11ScaleBucket(target))
				c11JudgeScale(r, sc, sdb)
			}
		}
		sdb.close()
	}
}

func init() {
	register("C11", c11ScaleSuite) // hundreds / thousands of parents
	replayers["C11/scale"] = func(r *Result, input json.RawMessage) {
		var sc c11ScaleCase
		if err := json.Unmarshal(input, &sc); err != nil {
			r.Note("bad replay input: %v", err)
			return
		}
		c11JudgeScale(r, sc, nil)
	}
}
