package main

// C03 round 6 — dimension: HOW the round trip reads a record back.  The other e2e suites read through Where(...)/inline
// keys or into fresh structs; here every created row is read back through a value that CARRIES ITS KEY:
//   - the destination struct itself (First/Take/Last/Find(&T{key…}), also with further conditions, also the very record
//     that was handed to Create — the "reload" idiom),
//   - a struct / map condition (Where(&T{key…}), Take(&fresh, &T{key…}), Where(map)),
// over a zoo of key shapes (composite keys with and without a prioritized member, members named ID, autoIncrement
// members, renamed columns, embedded key structs with and without prefix, string members, three-part keys, legitimate
// zero parts), tables in which every key member's value is shared by several rows, rows inserted in non-key order,
// absent keys assembled from members of different rows, and the usual execution contexts.
//
// Oracle (only what the property states): a read that succeeds hands back a record that Create stored — one whose key
// agrees with every NON-ZERO key part the carrier holds (gorm documents that zero parts are ignored) — with equal field
// values; when all parts are non-zero that is exactly the one created record.  A carrier whose full key no row has must
// not load anything.

import (
	"encoding/json"
	"errors"
	"fmt"
	"math/rand"
	"reflect"
	"strings"

	"gorm.io/gorm"
	"gorm.io/gorm/clause"
)

type C03KBody struct {
	Text  string
	Num   int64
	Score float64
	Opt   *string
	Raw   []byte
	Flag  bool
}

type C03KKey struct {
	ID     uint   `gorm:"primaryKey"`
	Locale string `gorm:"primaryKey"`
}

type C03KKeyAuto struct {
	Serial int64  `gorm:"primaryKey;autoIncrement"`
	Realm  string `gorm:"primaryKey"`
}

type (
	c03KIdLoc struct {
		ID     uint   `gorm:"primaryKey"`
		Locale string `gorm:"primaryKey"`
		C03KBody
	}
	c03KLocId struct {
		C03KBody
		Locale string `gorm:"primaryKey"`
		ID     uint   `gorm:"primaryKey"`
	}
	c03KIdNoAuto struct {
		ID     uint   `gorm:"primaryKey;autoIncrement:false"`
		Locale string `gorm:"primaryKey"`
		C03KBody
	}
	c03KAuto struct {
		Seq int64  `gorm:"primaryKey;autoIncrement"`
		Tag string `gorm:"primaryKey"`
		C03KBody
	}
	c03KTagAuto struct {
		Tag string `gorm:"primaryKey"`
		C03KBody
		Seq int64 `gorm:"primaryKey;autoIncrement"`
	}
	c03KCodeVer struct {
		Code string `gorm:"primaryKey"`
		Ver  int    `gorm:"primaryKey;autoIncrement:false"`
		C03KBody
	}
	c03KRenamed struct {
		ID   uint   `gorm:"column:ident;primaryKey"`
		Lang string `gorm:"column:lang_code;primaryKey"`
		C03KBody
	}
	c03KTriple struct {
		ID     uint   `gorm:"primaryKey"`
		Locale string `gorm:"primaryKey"`
		Rev    uint8  `gorm:"primaryKey;autoIncrement:false"`
		C03KBody
	}
	c03KEmb struct {
		C03KBody
		Key C03KKey `gorm:"embedded"`
	}
	c03KEmbPfx struct {
		K C03KKey `gorm:"embedded;embeddedPrefix:k_"`
		C03KBody
	}
	c03KEmbAuto struct {
		C03KKeyAuto
		C03KBody
	}
	c03KStrID struct {
		ID   string `gorm:"primaryKey"`
		Part int    `gorm:"primaryKey;autoIncrement:false"`
		C03KBody
	}
	c03KIntPair struct {
		ID    int32 `gorm:"primaryKey"`
		Owner int64 `gorm:"primaryKey;autoIncrement:false"`
		C03KBody
	}
	c03KSingle struct {
		ID uint
		C03KBody
	}
	c03KSingleStr struct {
		Code string `gorm:"primaryKey"`
		C03KBody
	}
)

type c03KShape struct {
	Name  string
	Proto interface{}
	Keys  [][]int // index paths of the key members
	// ZeroOK[i]: member i may legitimately hold its zero value in a stored row (no auto-increment default involved)
	ZeroOK []bool
}

func c03KShapes() []c03KShape {
	return []c03KShape{
		{"id+locale", c03KIdLoc{}, [][]int{{0}, {1}}, []bool{false, true}},
		{"locale+id", c03KLocId{}, [][]int{{1}, {2}}, []bool{true, false}},
		{"id(noauto)+locale", c03KIdNoAuto{}, [][]int{{0}, {1}}, []bool{true, true}},
		{"auto+tag", c03KAuto{}, [][]int{{0}, {1}}, []bool{false, true}},
		{"tag+auto", c03KTagAuto{}, [][]int{{0}, {2}}, []bool{true, false}},
		{"code+ver", c03KCodeVer{}, [][]int{{0}, {1}}, []bool{true, true}},
		{"renamed", c03KRenamed{}, [][]int{{0}, {1}}, []bool{false, true}},
		{"triple", c03KTriple{}, [][]int{{0}, {1}, {2}}, []bool{false, true, true}},
		{"embedded", c03KEmb{}, [][]int{{1, 0}, {1, 1}}, []bool{false, true}},
		{"embedded-prefix", c03KEmbPfx{}, [][]int{{0, 0}, {0, 1}}, []bool{false, true}},
		{"embedded-auto", c03KEmbAuto{}, [][]int{{0, 0}, {0, 1}}, []bool{false, true}},
		{"strid+part", c03KStrID{}, [][]int{{0}, {1}}, []bool{true, true}},
		{"int-pair", c03KIntPair{}, [][]int{{0}, {1}}, []bool{false, true}},
		{"single-id", c03KSingle{}, [][]int{{0}}, []bool{false}},
		{"single-code", c03KSingleStr{}, [][]int{{0}}, []bool{false}},
	}
}

func c03KShapeBy(name string) (c03KShape, bool) {
	for _, s := range c03KShapes() {
		if s.Name == name {
			return s, true
		}
	}
	return c03KShape{}, false
}

var c03KHows = []string{"first-dest", "take-dest", "last-dest", "find-dest", "take-dest-where", "take-dest-inline", "find-dest-order",
	"where-struct", "where-struct-val", "inline-struct", "inline-struct-val", "where-map", "find-slice-where-struct", "reload-first", "reload-take",
	"model-dest-take"}

type c03KInput struct {
	Seed      int64  `json:"seed"`
	Shape     string `json:"shape"`
	Create    string `json:"create"` // single | values | pointers | batches | maps
	N         int    `json:"n"`
	Returning bool   `json:"returning"`
	Where     string `json:"where"` // plain | tx | prepare | sessprepare | skiptx | session | table
	Zero      bool   `json:"zero_parts"`
	Desc      string `json:"desc,omitempty"`
}

var c03KStrs = []string{"en", "fr", "EN", "e n", "f'r", "日本", "%", "en "}

func c03KMember(rng *rand.Rand, t reflect.Type, alpha int) reflect.Value {
	v := reflect.New(t).Elem()
	switch t.Kind() {
	case reflect.String:
		v.SetString(c03KStrs[rng.Intn(alpha)])
	case reflect.Int, reflect.Int8, reflect.Int16, reflect.Int32, reflect.Int64:
		v.SetInt(int64(1 + rng.Intn(alpha)))
	default:
		v.SetUint(uint64(1 + rng.Intn(alpha)))
	}
	return v
}

func c03KBodyGen(rng *rand.Rand, i int) C03KBody {
	b := C03KBody{Text: fmt.Sprintf("row-%d-%s", i, c03KStrs[rng.Intn(len(c03KStrs))]), Num: int64(rng.Intn(2000)) - 1000, Flag: rng.Intn(2) == 0}
	if rng.Intn(3) != 0 {
		b.Score = float64(rng.Intn(4000))/8 - 100
	}
	if rng.Intn(2) == 0 {
		s := fmt.Sprintf("opt%d", rng.Intn(50))
		if rng.Intn(5) == 0 {
			s = ""
		}
		b.Opt = &s
	}
	if rng.Intn(2) == 0 {
		b.Raw = []byte{byte(rng.Intn(256)), 0, byte(i)}
	}
	return b
}

func c03KBodyOf(rec reflect.Value) reflect.Value {
	for i := 0; i < rec.NumField(); i++ {
		if rec.Type().Field(i).Type == reflect.TypeOf(C03KBody{}) {
			return rec.Field(i)
		}
	}
	panic("no body")
}

func c03KKeyStr(sh c03KShape, rec reflect.Value) string {
	var parts []string
	for _, p := range sh.Keys {
		parts = append(parts, fmt.Sprintf("%#v", rec.FieldByIndex(p).Interface()))
	}
	return strings.Join(parts, "|")
}

func c03KShow(rec reflect.Value) string {
	b, _ := json.Marshal(rec.Interface())
	return string(b)
}

func c03KDDLType(k reflect.Kind) string {
	switch k {
	case reflect.String:
		return "text"
	case reflect.Float32, reflect.Float64:
		return "real"
	case reflect.Bool:
		return "numeric"
	case reflect.Slice:
		return "blob"
	case reflect.Ptr:
		return "text"
	}
	return "integer"
}

// c03KRun executes one history; every message is one judged read that broke the oracle
func c03KRun(r *Result, in c03KInput) (bads []string) {
	bad := func(f string, a ...interface{}) { bads = append(bads, fmt.Sprintf(f, a...)) }
	defer func() {
		if p := recover(); p != nil {
			bad("panic: %v", p)
		}
	}()
	sh, ok := c03KShapeBy(in.Shape)
	if !ok {
		return
	}
	rng := rand.New(rand.NewSource(in.Seed))
	typ := reflect.TypeOf(sh.Proto)
	cfg := &gorm.Config{NowFunc: fixedNowFunc}
	switch in.Where {
	case "prepare":
		cfg.PrepareStmt = true
	case "skiptx":
		cfg.SkipDefaultTransaction = true
	}
	db, sqlDB := c03Open(in.Returning, cfg)
	defer sqlDB.Close()
	tbl := ""
	if in.Where == "table" {
		tbl = "Keyed-Rows"
	}
	base := func(d *gorm.DB) *gorm.DB {
		if tbl != "" {
			return d.Table(tbl)
		}
		return d
	}
	// ---- table: created by hand with the COMPOSITE primary key (the SQLite dialector would make an auto-increment
	// member the sole key of the table) ----
	stmt := &gorm.Statement{DB: db}
	if err := stmt.Parse(reflect.New(typ).Interface()); err != nil {
		bad("parse: %v", err)
		return
	}
	if tbl == "" {
		tbl = stmt.Schema.Table
	}
	var cols, keyCols []string
	for _, f := range stmt.Schema.Fields {
		if f.DBName != "" {
			cols = append(cols, "`"+f.DBName+"` "+c03KDDLType(f.FieldType.Kind()))
		}
	}
	for _, p := range sh.Keys {
		name := typ.FieldByIndex(p).Name
		for _, f := range stmt.Schema.Fields {
			if f.Name == name && reflect.DeepEqual(f.StructField.Index, p) {
				keyCols = append(keyCols, f.DBName)
			}
		}
	}
	if len(keyCols) != len(sh.Keys) {
		bad("schema: key columns %v for %d key members", keyCols, len(sh.Keys))
		return
	}
	ddl := "CREATE TABLE `" + tbl + "` (" + strings.Join(cols, ", ") + ", PRIMARY KEY (`" + strings.Join(keyCols, "`, `") + "`))"
	if err := db.Exec(ddl).Error; err != nil {
		bad("ddl %s: %v", ddl, err)
		return
	}
	// ---- rows: distinct full keys over small alphabets (members shared by several rows), inserted in drawn order ----
	alpha := 2 + rng.Intn(2)
	want := reflect.MakeSlice(reflect.SliceOf(typ), 0, in.N)
	seen := map[string]bool{}
	for tries := 0; want.Len() < in.N && tries < 200; tries++ {
		rec := reflect.New(typ).Elem()
		for ki, p := range sh.Keys {
			f := rec.FieldByIndex(p)
			if in.Zero && sh.ZeroOK[ki] && rng.Intn(4) == 0 {
				continue // a legitimate zero part
			}
			f.Set(c03KMember(rng, f.Type(), alpha))
		}
		allZero := true
		for _, p := range sh.Keys {
			allZero = allZero && rec.FieldByIndex(p).IsZero()
		}
		k := c03KKeyStr(sh, rec)
		if seen[k] || allZero {
			continue
		}
		seen[k] = true
		c03KBodyOf(rec).Set(reflect.ValueOf(c03KBodyGen(rng, want.Len())))
		want = reflect.Append(want, rec)
	}
	n := want.Len()
	copyOf := func(rec reflect.Value) reflect.Value { // deep enough: Opt and Raw are re-allocated
		c := reflect.New(typ).Elem()
		c.Set(rec)
		b := c03KBodyOf(c).Addr().Interface().(*C03KBody)
		if b.Opt != nil {
			s := *b.Opt
			b.Opt = &s
		}
		if b.Raw != nil {
			b.Raw = append([]byte{}, b.Raw...)
		}
		return c
	}
	// ---- execution context ----
	h := db
	var finish func()
	switch in.Where {
	case "tx":
		tx := db.Begin()
		h = tx
		finish = func() {
			if err := tx.Commit().Error; err != nil {
				bad("commit: %v", err)
			}
		}
	case "sessprepare":
		h = db.Session(&gorm.Session{PrepareStmt: true})
	case "session":
		h = db.Session(&gorm.Session{})
	}
	// ---- Create ----
	given := reflect.MakeSlice(reflect.SliceOf(typ), n, n)
	for i := 0; i < n; i++ {
		given.Index(i).Set(copyOf(want.Index(i)))
	}
	var created []reflect.Value // addressable records that went through Create (struct shapes)
	var err error
	switch in.Create {
	case "single":
		for i := 0; i < n && err == nil; i++ {
			err = base(h).Create(given.Index(i).Addr().Interface()).Error
			created = append(created, given.Index(i))
		}
	case "values":
		gp := reflect.New(given.Type())
		gp.Elem().Set(given)
		err = base(h).Create(gp.Interface()).Error
		for i := 0; i < n; i++ {
			created = append(created, gp.Elem().Index(i))
		}
	case "pointers":
		ps := reflect.MakeSlice(reflect.SliceOf(reflect.PtrTo(typ)), n, n)
		for i := 0; i < n; i++ {
			ps.Index(i).Set(given.Index(i).Addr())
			created = append(created, given.Index(i))
		}
		err = base(h).Create(ps.Interface()).Error
	case "batches":
		gp := reflect.New(given.Type())
		gp.Elem().Set(given)
		err = base(h).CreateInBatches(gp.Interface(), 1+rng.Intn(n)).Error
		for i := 0; i < n; i++ {
			created = append(created, gp.Elem().Index(i))
		}
	case "maps":
		for i := 0; i < n && err == nil; i++ {
			m := map[string]interface{}{}
			for _, f := range stmt.Schema.Fields {
				if f.DBName == "" {
					continue
				}
				key := f.DBName
				if rng.Intn(2) == 0 {
					key = f.Name
				}
				if _, dup := m[key]; dup {
					key = f.DBName
				}
				m[key] = given.Index(i).FieldByIndex(f.StructField.Index).Interface()
			}
			// embedded leaves share Go names only with themselves here; the model tells Create the schema
			err = base(h).Model(reflect.New(typ).Interface()).Create(m).Error
		}
	}
	if err != nil {
		bad("Create(%s): %v", in.Create, err)
		return
	}
	for i, c := range created {
		if c03KKeyStr(sh, c) != c03KKeyStr(sh, want.Index(i)) {
			bad("after Create record %d carries key %s, handed in with %s", i, c03KKeyStr(sh, c), c03KKeyStr(sh, want.Index(i)))
		}
	}
	// ---- carriers: the key of every stored row, plus absent keys assembled from members of different rows ----
	type carrier struct {
		key reflect.Value // a record holding only key parts
		idx int           // row it was taken from, -1 for an assembled one
	}
	keyOnly := func(rec reflect.Value) reflect.Value {
		c := reflect.New(typ).Elem()
		for _, p := range sh.Keys {
			c.FieldByIndex(p).Set(rec.FieldByIndex(p))
		}
		return c
	}
	var carriers []carrier
	for i := 0; i < n; i++ {
		carriers = append(carriers, carrier{keyOnly(want.Index(i)), i})
	}
	for t := 0; t < 2 && n > 1 && len(sh.Keys) > 1; t++ {
		c := reflect.New(typ).Elem()
		for _, p := range sh.Keys {
			c.FieldByIndex(p).Set(want.Index(rng.Intn(n)).FieldByIndex(p))
		}
		carriers = append(carriers, carrier{c, -1})
	}
	candidates := func(c reflect.Value) (out []int) {
		for i := 0; i < n; i++ {
			okRow := true
			for _, p := range sh.Keys {
				cv := c.FieldByIndex(p)
				if !cv.IsZero() && !reflect.DeepEqual(cv.Interface(), want.Index(i).FieldByIndex(p).Interface()) {
					okRow = false
				}
			}
			if okRow {
				out = append(out, i)
			}
		}
		return
	}
	judge := func(how string, c carrier, loaded reflect.Value, err error, rows int64) {
		cands := candidates(c.key)
		what := fmt.Sprintf("%s carrying key %s", how, c03KKeyStr(sh, c.key))
		if r != nil {
			r.Case("keyed", fmt.Sprint(in.Seed, in.Shape, in.Create, in.Where, in.Returning, what), len(sh.Keys) > 1)
		}
		notFound := errors.Is(err, gorm.ErrRecordNotFound) || (err == nil && rows == 0)
		if err != nil && !errors.Is(err, gorm.ErrRecordNotFound) {
			bad("%s: error %v", what, err)
			return
		}
		if len(cands) == 0 {
			if !notFound {
				bad("%s: no stored row has this key, yet the read loaded %s", what, c03KShow(loaded))
			}
			return
		}
		if notFound {
			bad("%s: not found, but Create stored %s", what, c03KShow(want.Index(cands[0])))
			return
		}
		for _, i := range cands {
			if reflect.DeepEqual(loaded.Interface(), want.Index(i).Interface()) {
				return
			}
		}
		bad("%s: created %s, loaded %s", what, c03KShow(want.Index(cands[0])), c03KShow(loaded))
	}
	condMap := func(c reflect.Value) map[string]interface{} {
		m := map[string]interface{}{}
		for ki, p := range sh.Keys {
			if v := c.FieldByIndex(p); !v.IsZero() {
				m[keyCols[ki]] = v.Interface()
			}
		}
		return m
	}
	textCol := "text"
	for _, c := range carriers {
		for _, how := range c03KHows {
			dest := reflect.New(typ)
			keyed := reflect.New(typ)
			keyed.Elem().Set(c.key)
			var res *gorm.DB
			switch how {
			case "first-dest":
				dest.Elem().Set(c.key)
				res = base(h).First(dest.Interface())
			case "take-dest":
				dest.Elem().Set(c.key)
				res = base(h).Take(dest.Interface())
			case "last-dest":
				dest.Elem().Set(c.key)
				res = base(h).Last(dest.Interface())
			case "find-dest":
				dest.Elem().Set(c.key)
				res = base(h).Find(dest.Interface())
			case "find-dest-order":
				dest.Elem().Set(c.key)
				res = base(h).Order("`" + textCol + "` desc").Limit(1).Find(dest.Interface())
			case "take-dest-where":
				dest.Elem().Set(c.key)
				res = base(h).Where("`"+textCol+"` <> ?", "no such text").Take(dest.Interface())
			case "take-dest-inline":
				dest.Elem().Set(c.key)
				res = base(h).Take(dest.Interface(), "`"+textCol+"` LIKE ?", "row-%")
			case "model-dest-take":
				// Model and destination both carry the key
				dest.Elem().Set(c.key)
				res = base(h).Model(keyed.Interface()).Take(dest.Interface())
			case "where-struct":
				res = base(h).Where(keyed.Interface()).Take(dest.Interface())
			case "where-struct-val":
				res = base(h).Where(keyed.Elem().Interface()).First(dest.Interface())
			case "inline-struct":
				res = base(h).Take(dest.Interface(), keyed.Interface())
			case "inline-struct-val":
				res = base(h).First(dest.Interface(), keyed.Elem().Interface())
			case "where-map":
				m := condMap(c.key)
				if len(m) == 0 {
					continue
				}
				res = base(h).Where(m).Take(dest.Interface())
			case "find-slice-where-struct":
				list := reflect.New(reflect.SliceOf(typ))
				res = base(h).Where(keyed.Interface()).Find(list.Interface())
				cands := candidates(c.key)
				if res.Error == nil && list.Elem().Len() != len(cands) {
					bad("find-slice-where-struct carrying key %s: %d rows loaded, %d stored rows have this key", c03KKeyStr(sh, c.key), list.Elem().Len(), len(cands))
					continue
				}
				if res.Error != nil || list.Elem().Len() == 0 {
					judge(how, c, dest.Elem(), res.Error, 0)
					continue
				}
				for i := 0; i < list.Elem().Len(); i++ {
					judge(how, c, list.Elem().Index(i), nil, 1)
				}
				continue
			case "reload-first", "reload-take":
				// the record that was handed to Create is itself the destination
				if c.idx < 0 || c.idx >= len(created) {
					continue
				}
				rec := created[c.idx]
				if how == "reload-first" {
					res = base(h).First(rec.Addr().Interface())
				} else {
					res = base(h).Take(rec.Addr().Interface())
				}
				judge(how, c, rec, res.Error, res.RowsAffected)
				continue
			}
			judge(how, c, dest.Elem(), res.Error, res.RowsAffected)
		}
	}
	if finish != nil {
		finish()
	}
	return
}

func c03KeyedSuite(r *Result, rng *rand.Rand, tier string) {
	n := 260
	if tier == "thorough" {
		n = 6000
	}
	shapes := c03KShapes()
	for i := 0; i < n && !expired(); i++ {
		in := c03KInput{Seed: rng.Int63(), Shape: shapes[i%len(shapes)].Name,
			Create:    []string{"single", "values", "pointers", "batches", "maps"}[rng.Intn(5)],
			N:         2 + rng.Intn(5),
			Returning: rng.Intn(3) != 0,
			Where:     []string{"plain", "plain", "tx", "prepare", "sessprepare", "skiptx", "session", "table"}[rng.Intn(8)],
			Zero:      rng.Intn(3) == 0}
		bads := c03KRun(r, in)
		r.H("keyed.shape", in.Shape)
		r.H("keyed.create", in.Create)
		r.H("keyed.where", in.Where)
		r.H("keyed.zero_parts", fmt.Sprint(in.Zero))
		if len(bads) == 0 {
			r.H("keyed.verdict", "ok")
			continue
		}
		r.H("keyed.verdict", "violation")
		if len(bads) > 8 {
			bads = append(bads[:8], fmt.Sprintf("… %d more", len(bads)-8))
		}
		r.Violate(Violation{Kind: "e2e", Suite: "keyed", Input: in, Observed: bads,
			Expected: "a read through a value carrying a key (destination struct, struct or map condition) loads the record Create stored under that key, with equal field values; a key no row has loads nothing"})
	}
}

func init() {
	register("C03", c03KeyedSuite)
	register("C03", c03DestKeySuite)
	replayers["C03/destkey"] = func(r *Result, input json.RawMessage) { r.Note("destkey replays are correspondence-only") }
	replayers["C03/keyed"] = func(r *Result, input json.RawMessage) {
		var in c03KInput
		if json.Unmarshal(input, &in) != nil {
			return
		}
		if bads := c03KRun(nil, in); len(bads) > 0 {
			if len(bads) > 8 {
				bads = bads[:8]
			}
			r.Violate(Violation{Kind: "e2e", Suite: "keyed", Input: in, Observed: bads})
		}
	}
}

// ---- correspondence `destkey`: the conditions the real BuildQuerySQL derives from a destination carrying key parts
// (DryRun statement, clause WHERE) vs Model.DestKey.destKeyConds.  Values travel as numbers: integers as themselves,
// strings as 1 + their index in c03KStrs, the zero value as 0. ----

type c03KDestKeyInput struct {
	Shape    string          `json:"shape"`
	Finisher string          `json:"finisher"`
	Key      [][]interface{} `json:"key"` // [column, value code] per member of Schema.PrimaryFields
}

func c03KCode(v reflect.Value) (int, bool) {
	switch v.Kind() {
	case reflect.String:
		if v.String() == "" {
			return 0, true
		}
		for i, s := range c03KStrs {
			if s == v.String() {
				return i + 1, true
			}
		}
		return 0, false
	case reflect.Int, reflect.Int8, reflect.Int16, reflect.Int32, reflect.Int64:
		return int(v.Int()), v.Int() >= 0
	case reflect.Uint, reflect.Uint8, reflect.Uint16, reflect.Uint32, reflect.Uint64:
		return int(v.Uint()), true
	}
	return 0, false
}

func c03DestKeySuite(r *Result, rng *rand.Rand, tier string) {
	n := 400
	if tier == "thorough" {
		n = 5000
	}
	db, sqlDB := c03Open(true, &gorm.Config{NowFunc: fixedNowFunc})
	defer sqlDB.Close()
	dry := db.Session(&gorm.Session{DryRun: true})
	shapes := c03KShapes()
	var ops [][]interface{}
	var ins []c03KDestKeyInput
	var reals []interface{}
	for i := 0; i < n && !expired(); i++ {
		sh := shapes[i%len(shapes)]
		typ := reflect.TypeOf(sh.Proto)
		stmt := &gorm.Statement{DB: db}
		if err := stmt.Parse(reflect.New(typ).Interface()); err != nil {
			continue
		}
		dest := reflect.New(typ)
		in := c03KDestKeyInput{Shape: sh.Name, Finisher: []string{"First", "Take", "Last", "Find"}[rng.Intn(4)]}
		for _, pf := range stmt.Schema.PrimaryFields {
			f := dest.Elem().FieldByIndex(pf.StructField.Index)
			if rng.Intn(3) != 0 {
				f.Set(c03KMember(rng, f.Type(), 3))
			}
			code, _ := c03KCode(f)
			in.Key = append(in.Key, []interface{}{pf.DBName, code})
		}
		// non-key fields the destination happens to hold never become conditions
		if rng.Intn(2) == 0 {
			c03KBodyOf(dest.Elem()).Set(reflect.ValueOf(c03KBodyGen(rng, i)))
		}
		var res *gorm.DB
		switch in.Finisher {
		case "First":
			res = dry.First(dest.Interface())
		case "Take":
			res = dry.Take(dest.Interface())
		case "Last":
			res = dry.Last(dest.Interface())
		default:
			res = dry.Find(dest.Interface())
		}
		real := []interface{}{}
		if c, ok := res.Statement.Clauses["WHERE"]; ok {
			if w, ok := c.Expression.(clause.Where); ok {
				for _, e := range w.Exprs {
					eq, ok := e.(clause.Eq)
					col, ok2 := eq.Column.(clause.Column)
					if !ok || !ok2 {
						real = append(real, []interface{}{fmt.Sprintf("?%T", e), 0})
						continue
					}
					code, okc := c03KCode(reflect.ValueOf(eq.Value))
					if !okc {
						real = append(real, []interface{}{col.Name, fmt.Sprintf("?%v", eq.Value)})
						continue
					}
					real = append(real, []interface{}{col.Name, code})
				}
			} else {
				real = append(real, []interface{}{fmt.Sprintf("?%T", c.Expression), 0})
			}
		}
		ops = append(ops, []interface{}{"c03.destkey", in.Key})
		ins = append(ins, in)
		reals = append(reals, real)
		r.H("destkey.shape", sh.Name)
		r.H("destkey.conds", fmt.Sprintf("%d of %d parts", len(real), len(in.Key)))
	}
	outs, err := AskLean(ops)
	if err != nil {
		r.Violate(Violation{Kind: "correspondence", Suite: "destkey", Note: "lean driver: " + err.Error()})
		return
	}
	for i := range ops {
		r.Case("destkey", canon(ins[i]), len(ins[i].Key) > 1)
		r.CorrCompared++
		if canon(reals[i]) != canonRaw(outs[i]) {
			r.Violate(Violation{Kind: "correspondence", Suite: "destkey", Input: ins[i], Observed: reals[i], Expected: json.RawMessage(outs[i]),
				Note: "WHERE conditions of a query whose destination carries key parts (DryRun; callbacks/query.go BuildQuerySQL) differ from Model.DestKey.destKeyConds"})
		}
	}
}
