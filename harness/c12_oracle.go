package main

// C12 end-to-end oracle: a Go link-set reference of the PROPERTY (independent of the Lean model and of
// association.go) + the sequence generator.
//
// Reference state: a set of links (owner, target label) + the set of target labels that must exist.
//   Append adds, Replace sets, Delete removes the named targets, Clear removes all; has-one / belongs-to hold at
//   most one link per owner (Append behaves as Replace); a target of a has-one / has-many / polymorphic relation
//   has one fk column, so linking it to an owner unlinks it from any other owner.
//   Targets survive every scoped operation; after an Unscoped operation the records of the links that operation
//   removed MAY be gone (the text demands survival only without Unscoped) — every other record must survive.
//
// Latitude written down (each is a permitted outcome, never a violation):
//   * order of Find results and of the in-memory field: compared as sets of primary keys;
//   * duplicates in the in-memory field (the property speaks of the DISTINCT records);
//   * zero-key placeholders in the in-memory field (Clear stores a pointer to an empty struct) are not records;
//   * whether an Unscoped operation deletes the records of the links it removed;
//   * NOT latitude: an error returned by one of the generated (always well-formed) calls is reported - the
//     sequence cannot "define" links through a call that fails half-way; error kinds are histogrammed;
//   * more than one value for a has-one / belongs-to owner in one call, and one target handed to two different
//     owners of a has-one/has-many/polymorphic relation in ONE call: not generated (the text does not define them).

import (
	"encoding/json"
	"fmt"
	"math/rand"
	"sort"
	"strings"
	"sync"
)

type c12Ref struct {
	k       *c12Kind
	links   map[[2]string]bool // (owner, label)
	exists  map[string]bool
	mayGone map[string]bool
}

func c12OwnerKey(o int) string { return fmt.Sprint(o) }

func c12NewRef(k *c12Kind, s c12Seq) *c12Ref {
	r := &c12Ref{k: k, links: map[[2]string]bool{}, exists: map[string]bool{}, mayGone: map[string]bool{}}
	for _, p := range append(append([]int{}, s.Pre...), c12Sentinel) {
		r.exists[fmt.Sprint("t", p)] = true
	}
	for _, b := range s.By {
		r.links[[2]string{c12OwnerKey(c12Bystander), fmt.Sprint("t", b)}] = true
	}
	for _, b := range s.Own {
		r.links[[2]string{c12OwnerKey(c12Owner1), fmt.Sprint("t", b)}] = true
	}
	return r
}

func (r *c12Ref) add(o int, t string) {
	if r.k.Class == "fk" {
		for l := range r.links {
			if l[1] == t && l[0] != c12OwnerKey(o) {
				delete(r.links, l)
			}
		}
	}
	if r.k.Card1 {
		for l := range r.links {
			if l[0] == c12OwnerKey(o) && l[1] != t {
				delete(r.links, l)
			}
		}
	}
	r.links[[2]string{c12OwnerKey(o), t}] = true
	r.exists[t] = true
	delete(r.mayGone, t)
}

func (r *c12Ref) remove(o int, t string, unscoped bool) {
	l := [2]string{c12OwnerKey(o), t}
	if r.links[l] {
		delete(r.links, l)
		if unscoped {
			r.mayGone[t] = true
		}
	}
}

func (r *c12Ref) removeAll(o int, unscoped bool) {
	for l := range r.links {
		if l[0] == c12OwnerKey(o) {
			r.remove(o, l[1], unscoped)
		}
	}
}

// apply one operation; labels[i] = labels of owner i's values (delete: labels[0] = flat list)
func (r *c12Ref) apply(op c12Op, owners []int, labels [][]string) {
	total := 0
	for _, l := range labels {
		total += len(l)
	}
	kind := op.Op
	if kind == "append" && r.k.Card1 {
		// has-one / belongs-to: Append of a target replaces the owner's link; an owner that receives NO target keeps its link
		if total == 0 {
			return
		}
		for i, o := range owners {
			if i < len(labels) && len(labels[i]) > 0 {
				r.removeAll(o, op.Unscoped)
			}
		}
		for i, o := range owners {
			if i < len(labels) {
				for _, t := range labels[i] {
					r.add(o, t)
				}
			}
		}
		return
	}
	switch kind {
	case "append":
		for i, o := range owners {
			if i < len(labels) {
				for _, t := range labels[i] {
					r.add(o, t)
				}
			}
		}
	case "replace":
		for i, o := range owners {
			keep := map[string]bool{}
			if i < len(labels) {
				for _, t := range labels[i] {
					keep[t] = true
				}
			}
			for l := range r.links {
				if l[0] == c12OwnerKey(o) && !keep[l[1]] {
					r.remove(o, l[1], op.Unscoped)
				}
			}
		}
		for i, o := range owners {
			if i < len(labels) {
				for _, t := range labels[i] {
					r.add(o, t)
				}
			}
		}
	case "delete":
		for _, o := range owners {
			if len(labels) > 0 {
				for _, t := range labels[0] {
					r.remove(o, t, op.Unscoped)
				}
			}
		}
	case "clear":
		for _, o := range owners {
			r.removeAll(o, op.Unscoped)
		}
	}
}

func (r *c12Ref) linksOf(owners []int) []string {
	out := []string{}
	for l := range r.links {
		for _, o := range owners {
			if l[0] == c12OwnerKey(o) {
				out = append(out, l[0]+"->"+l[1])
			}
		}
	}
	sort.Strings(out)
	return out
}

func (r *c12Ref) allLinks() []string {
	out := []string{}
	for l := range r.links {
		out = append(out, l[0]+"->"+l[1])
	}
	sort.Strings(out)
	return out
}

// labels of the values of one operation.  A key k > 0 names the record that has primary key k when the operation
// starts (cur: key -> label of the records existing then); if there is none it is a new record "t<k>".
func c12OpLabels(s c12Seq, step int, op c12Op, cur map[int]string) [][]string {
	var out [][]string
	lab := func(owner, j, key int) string {
		if n, ok := cur[key]; ok && key > 0 {
			return n
		}
		return c12Label(step, owner, j, key)
	}
	if op.Op == "delete" || s.Owners <= 1 {
		var l []string
		if len(op.Vals) > 0 {
			for j, key := range op.Vals[0] {
				l = append(l, lab(0, j, key))
			}
		}
		return [][]string{l}
	}
	for i := 0; i < s.Owners; i++ {
		var l []string
		if i < len(op.Vals) {
			for j, key := range op.Vals[i] {
				l = append(l, lab(i, j, key))
			}
		}
		out = append(out, l)
	}
	return out
}

func c12OwnerIDs(s c12Seq) []int {
	if s.Owners <= 1 {
		return []int{c12Owner1}
	}
	return []int{c12Owner1, c12Owner2}
}

type c12Verdict struct {
	Flags []string `json:"flags"` // patterns of listed findings present in the judged prefix
	Step  int      `json:"step"`
	What  string   `json:"what"`
	Got   string   `json:"got"`
	Want  string   `json:"want"`
	Class string   `json:"class"` // links | targets | count | find | memory | decoy
}

// c12Judge compares the observations with the reference; returns the first disagreement (nil = property holds).
func c12Judge(s c12Seq, obs []c12Obs) (*c12Verdict, int) {
	v, n, flags := c12JudgeF(s, obs)
	if v != nil {
		v.Flags = c12SortedKeys(flags)
	}
	return v, n
}

// c12Flags: which listed-finding patterns does the operation `op` (about to run in reference state ref, with
// the records `cur` existing) exhibit.  Each pattern is a decidable predicate over the sequence prefix.
func c12Flags(s c12Seq, k *c12Kind, ref *c12Ref, op c12Op, labels [][]string, cur map[int]string, handed map[string]int, flags map[string]bool, dirt *c12Dirt) {
	// F12h: the call goes through a handle whose *gorm.DB an earlier statement-building call has already used (c12_handles.go)
	if dirt.step(k, op) {
		flags["F12h-reused-handle-keeps-statement-of-previous-call"] = true
	}
	// F12a: belongs-to + Unscoped Append/Replace/Delete/Clear (the delete statement aims at the wrong record / table)
	if k.Class == "bt" && op.Unscoped {
		flags["F12a-belongs-to-unscoped-deletes-wrong-record"] = true
	}
	// F12c: many2many save whose value list has a record with a preset key that does not exist yet, followed by a
	// record without key (ON CONFLICT DO NOTHING + RETURNING back-fill walks past the wrong elements)
	if k.Class == "m2m" && (op.Op == "append" || op.Op == "replace") {
		for _, vs := range op.Vals {
			presetNew := false
			for _, key := range vs {
				if key != 0 {
					if _, ok := cur[key]; !ok {
						presetNew = true
					}
				} else if presetNew {
					flags["F12c-many2many-returning-backfill"] = true
				}
			}
		}
	}
	// F12d: many2many Replace on a slice of owners: a link (A,t) is kept when t is among the new values of owner B
	if k.Class == "m2m" && s.Owners == 2 && op.Op == "replace" && len(labels) == 2 {
		for a := 0; a < 2; a++ {
			mine := map[string]bool{}
			for _, t := range labels[a] {
				mine[t] = true
			}
			for _, t := range labels[1-a] {
				if !mine[t] && ref.links[[2]string{c12OwnerKey(c12OwnerIDs(s)[a]), t}] {
					flags["F12d-many2many-slice-replace-keeps-foreign-new"] = true
				}
			}
		}
	}
	// F12g: has-one / belongs-to Append/Replace where an owner's argument is an EMPTY slice: appendToRelations sets nothing and
	// the owner's in-memory field is saved as it is: Replace keeps the old link, and after a Delete/Clear (the field then holds
	// a pointer to an EMPTY record) a blank record is created and linked
	if k.Card1 && (op.Op == "replace" || op.Op == "append") {
		if s.Owners <= 1 {
			if op.Empty && (len(op.Vals) == 0 || len(op.Vals[0]) == 0) {
				flags["F12g-single-valued-empty-slice-argument"] = true
			}
		} else {
			for i := 0; i < s.Owners; i++ {
				if i >= len(op.Vals) || len(op.Vals[i]) == 0 {
					flags["F12g-single-valued-empty-slice-argument"] = true
				}
			}
		}
	}
	// F12e: has-one/has-many/polymorphic on a slice of owners: a target handed to owner A and (at another step) to owner B
	if k.Class == "fk" && s.Owners == 2 && (op.Op == "append" || op.Op == "replace") {
		for i, ls := range labels {
			for _, t := range ls {
				if o, ok := handed[t]; ok && o != i {
					flags["F12e-moved-target-stale-in-memory-copy"] = true
				}
				handed[t] = i
			}
		}
	}
}

func c12JudgeF(s c12Seq, obs []c12Obs) (*c12Verdict, int, map[string]bool) {
	flags := map[string]bool{}
	handed := map[string]int{}
	dirt := &c12Dirt{}
	sticky := &c12Sticky{}
	for _, b := range s.Own {
		handed[fmt.Sprint("t", b)] = 0 // held by the first operated owner from the start
	}
	k := c12KindByName(s.Kind)
	ref := c12NewRef(k, s)
	owners := c12OwnerIDs(s)
	decoy0 := "[1:1:other 2:2:other]"
	judged := 0
	cur := map[int]string{}
	for _, p := range append(append([]int{}, s.Pre...), c12Sentinel) {
		cur[p] = fmt.Sprint("t", p)
	}
	for step, op := range s.Ops {
		if step >= len(obs) {
			break
		}
		o := obs[step]
		labels := c12OpLabels(s, step, op, cur)
		c12Flags(s, k, ref, op, labels, cur, handed, flags, dirt)
		refused := sticky.before(op) && o.Err != ""
		if op.Bad {
			if o.BadErr == "" {
				// latitude: the ill-typed Append was accepted - the text says nothing about such a call; the sequence is not judged further
				return nil, judged, flags
			}
			// the handle has failed once: it may refuse the call (error, nothing changes) or perform it in full
			refused = o.Err != ""
			sticky.failed(op)
		}
		if o.Err != "" && !refused {
			// every generated call is well-formed (saved owners, one argument per owner): the API has no reason to refuse it
			return &c12Verdict{Step: step, What: "the operation returned an error", Got: o.Err, Want: "no error", Class: "error"}, judged, flags
		}
		if !refused {
			ref.apply(op, owners, labels)
		}
		judged++
		cur = map[int]string{}
		for _, id := range o.Targets {
			cur[id] = o.Names[id]
		}
		lab := func(id int) string {
			if n, ok := o.Names[id]; ok {
				return n
			}
			return fmt.Sprint("#", id)
		}
		// 1. stored links
		got := []string{}
		for _, l := range o.Links {
			got = append(got, fmt.Sprint(l[0], "->", lab(l[1])))
		}
		sort.Strings(got)
		if w := ref.allLinks(); fmt.Sprint(got) != fmt.Sprint(w) {
			return &c12Verdict{Step: step, What: "links stored in the database differ from the links the sequence defines", Got: fmt.Sprint(got), Want: fmt.Sprint(w), Class: "links"}, judged, flags
		}
		// 2. associated records survive (unless Unscoped removed their link)
		present := map[string]bool{}
		for _, id := range o.Targets {
			present[lab(id)] = true
		}
		for t := range ref.exists {
			if !present[t] && !ref.mayGone[t] {
				return &c12Verdict{Step: step, What: "associated record " + t + " did not survive", Got: "missing", Want: "present", Class: "targets"}, judged, flags
			}
		}
		// 3. Count / Find of the operated value
		wl := ref.linksOf(owners)
		if k.Class == "bt" && k.Composite() && len(wl) == 0 && strings.Contains(o.CountE+o.FindE, "IN(...) element has 1 term") {
			// boundary, not judged (same rendering as Delete() without values, see c12_ck.go): with NO foreign-key value in any
			// operated owner the composite condition is rendered `(r,z) IN (NULL)`, which SQLite rejects; no link is reported
			o.CountE, o.FindE = "", ""
		}
		if o.CountE != "" || int(o.Count) != len(wl) {
			// F12b: belongs-to Count over a slice of owners counts the distinct records, not the links
			if k.Class == "bt" && s.Owners == 2 && o.CountE == "" {
				tg := map[string]bool{}
				for _, l := range wl {
					tg[l[len(c12OwnerKey(c12Owner1))+2:]] = true
				}
				if len(tg) < len(wl) && int(o.Count) == len(tg) {
					flags["F12b-belongs-to-count-of-shared-target"] = true
				}
			}
			return &c12Verdict{Step: step, What: "Count() differs from the number of links", Got: fmt.Sprint(o.Count, " ", o.CountE), Want: fmt.Sprint(len(wl)), Class: "count"}, judged, flags
		}
		wantT := map[string]bool{}
		for l := range ref.links {
			for _, ow := range owners {
				if l[0] == c12OwnerKey(ow) {
					wantT[l[1]] = true
				}
			}
		}
		gotT := map[string]bool{}
		for _, id := range o.Find {
			gotT[lab(id)] = true
		}
		if o.FindE != "" || fmt.Sprint(c12SortedKeys(gotT)) != fmt.Sprint(c12SortedKeys(wantT)) {
			return &c12Verdict{Step: step, What: "Find() differs from the linked records", Got: fmt.Sprint(c12SortedKeys(gotT), " ", o.FindE), Want: fmt.Sprint(c12SortedKeys(wantT)), Class: "find"}, judged, flags
		}
		// 4. in-memory field of every operated record (each received every operation)
		for i, ow := range owners {
			w := map[string]bool{}
			for l := range ref.links {
				if l[0] == c12OwnerKey(ow) {
					w[l[1]] = true
				}
			}
			g := map[string]bool{}
			for _, id := range o.Mem[i] {
				g[lab(id)] = true
			}
			if fmt.Sprint(c12SortedKeys(g)) != fmt.Sprint(c12SortedKeys(w)) {
				return &c12Verdict{Step: step, What: fmt.Sprint("distinct records of the in-memory field of owner ", ow, " differ from its links"), Got: fmt.Sprint(c12SortedKeys(g), " raw=", o.MemRaw[i]), Want: fmt.Sprint(c12SortedKeys(w)), Class: "memory"}, judged, flags
			}
		}
		// 5. links of another owner type (polymorphic decoys) are not touched
		if k.Poly {
			d := fmt.Sprint(o.Decoys)
			if d != decoy0 {
				return &c12Verdict{Step: step, What: "rows of another polymorphic owner type were changed", Got: d, Want: decoy0, Class: "decoy"}, judged, flags
			}
		}
	}
	return nil, judged, flags
}

func c12SortedKeys(m map[string]bool) []string {
	out := []string{}
	for k := range m {
		out = append(out, k)
	}
	sort.Strings(out)
	return out
}

// ---- generator -------------------------------------------------------------------------------------------

type c12GenCfg struct {
	Kinds    []string
	Unscoped float64 // probability that a sequence may contain Unscoped operations
	Slice    float64 // probability of a slice of owners
	MaxLen   int
	Avoid    float64 // probability that a sequence stays outside the patterns of the listed findings
	Handles  float64 // probability that the calls of a sequence go through handles kept in variables (c12_handles.go)
	Tie      bool    // correspondence suite: stay outside the patterns the link-store model does not reproduce (F12g; F12c on referenced-column many2many)
}

// c12GenSeq: operation sequences with new (no key), new with preset key, existing, bystander-owned and duplicate
// targets.  The generator simulates key allocation (database-assigned keys start at 21) so that later operations
// can name records created by earlier ones.
func c12GenSeq(rng *rand.Rand, cfg c12GenCfg) c12Seq {
	kn := cfg.Kinds[rng.Intn(len(cfg.Kinds))]
	k := c12KindByName(kn)
	s := c12Seq{Kind: kn, Owners: 1, Pre: []int{}, By: []int{}, Own: []int{}}
	if rng.Float64() < cfg.Slice {
		s.Owners = 2
		s.OwnerPtr = rng.Intn(2) == 0
	}
	avoid := rng.Float64() < cfg.Avoid
	exists := map[int]bool{}
	for id := c12PoolLo; id <= c12PoolHi; id++ {
		if rng.Intn(2) == 0 {
			s.Pre = append(s.Pre, id)
			exists[id] = true
			if rng.Intn(5) < 2 && !(k.Card1 && len(s.By) >= 1) {
				s.By = append(s.By, id)
			} else if rng.Intn(4) == 0 && !(k.Card1 && len(s.Own) >= 1) && !(avoid && s.Owners == 2 && id > c12PoolLo+2) {
				s.Own = append(s.Own, id) // the operated owner u1 starts with links (and is loaded with Preload)
			}
		}
	}
	uns := rng.Float64() < cfg.Unscoped
	n := 1 + rng.Intn(cfg.MaxLen)
	next := c12Sentinel + 1
	created := [][]int{{}, {}} // per owner: keys of the records it created (simulated)
	plan := rng.Float64() < cfg.Handles
	dirtGen := &c12Dirt{}
	afterBad := false
	stickyGen := &c12Sticky{}
	for i := 0; i < n; i++ {
		op := c12Op{Shape: rng.Intn(3)}
		if rng.Intn(2) == 0 { // state of the argument records: built by hand / loaded / loaded with their own relations / stale fk / key only
			op.Arg = rng.Intn(c12ArgStates)
		}
		switch x := rng.Intn(100); {
		case x < 35:
			op.Op = "append"
		case x < 60:
			op.Op = "replace"
		case x < 85:
			op.Op = "delete"
		default:
			op.Op = "clear"
		}
		// self-referential belongs-to + Unscoped: inside listed finding F12a, and there the stray `DELETE FROM <owner table>`
		// is valid SQL on the shared table (the model of F12a is written for distinct tables): not generated
		if uns && rng.Intn(2) == 0 && !(avoid && k.Class == "bt") && k.Name != "self_belongs_to" && !(k.Ref && k.Class == "bt") {
			op.Unscoped = true
		}
		opName := op.Op
		noNew := false
		if plan {
			// the handle the call goes through: fresh / kept in a variable / the kept Unscoped() copy; Unscoped() called in between
			if rng.Intn(4) > 0 {
				op.Via = 1
				if op.Unscoped {
					op.Via = 2
				}
				op.Renew = rng.Intn(6) == 0
			}
			if rng.Intn(3) > 0 {
				op.Touch = 1 + rng.Intn(c12Touches-1)
			}
			if !cfg.Tie && rng.Intn(4) == 0 {
				op.Other = 1 + rng.Intn(c12Others-1)
			}
			if !cfg.Tie && rng.Intn(10) == 0 && opName != "delete" {
				op.Bad = true
			}
			if afterBad && op.Via != 0 && rng.Intn(2) == 0 {
				op.Renew = true
			}
			afterBad = (afterBad && !op.Renew) || (op.Bad && op.Via != 0)
			probe := *dirtGen
			if probe.step(k, op) && (avoid || cfg.Tie) {
				// stay outside listed finding F12h: no read through the handle before the call, a used handle is built anew
				if op.Touch == c12TouchCount || op.Touch == c12TouchFind {
					op.Touch = 1 + rng.Intn(3)
				}
				if op.Via != 0 {
					op.Renew = true
				}
			}
			dirtGen.step(k, op)
			// a call that may be refused (ill-typed value first / a struct that has failed before) creates nothing: it names no keyless record,
			// so that the keys simulated for later operations stay those the database assigns
			noNew = stickyGen.before(op) || op.Bad
			if op.Bad {
				stickyGen.failed(op)
			}
		}
		nextAtStart := next
		pick := func(owner int) int {
			lo, hi := c12PoolLo, c12PoolHi
			if avoid && s.Owners == 2 && owner >= 0 { // partition the pool between the operated owners
				if owner == 0 {
					hi = c12PoolLo + 2
				} else {
					lo = c12PoolLo + 3
				}
			}
			var cand []int
			for id := lo; id <= hi; id++ {
				cand = append(cand, id)
			}
			for o := range created {
				if !(avoid && s.Owners == 2 && owner >= 0 && o != owner) {
					for _, id := range created[o] {
						if id < nextAtStart {
							cand = append(cand, id)
						}
					}
				}
			}
			return cand[rng.Intn(len(cand))]
		}
		used := map[int]int{} // key -> owner index (fk class: one owner per key within a call)
		genVals := func(owner int, allowNew bool) []int {
			cnt := rng.Intn(4)
			if k.Card1 {
				cnt = 1
				if rng.Intn(8) == 0 && !((avoid || cfg.Tie) && allowNew && s.Owners == 2) { // (slice of owners: an EMPTY SLICE argument for a has-one / belongs-to owner: finding F12g)
					cnt = 0 // a call that names NO target: Append adds nothing, Delete removes nothing, Replace clears
				}
			}
			if cnt == 0 && !allowNew && k.Composite() {
				cnt = 1 // boundary, not generated: Delete without values on composite keys renders `(a,b) IN (NULL)`, which SQLite rejects
			}
			vs := []int{}
			for j := 0; j < cnt; j++ {
				if allowNew && !noNew && rng.Intn(4) == 0 {
					vs = append(vs, 0)
					continue
				}
				if len(vs) > 0 && !k.Card1 && rng.Intn(5) == 0 {
					d := vs[rng.Intn(len(vs))]
					if d != 0 {
						vs = append(vs, d) // duplicate target in one call
						continue
					}
				}
				key := pick(owner)
				if k.Class == "fk" && allowNew {
					if o, ok := used[key]; ok && o != owner {
						if k.Card1 {
							j--
						}
						continue
					}
					used[key] = owner
				}
				vs = append(vs, key)
			}
			if (avoid || (cfg.Tie && k.Ref)) && k.Class == "m2m" {
				// keep records without key in front of records with a preset key that does not exist yet
				sort.SliceStable(vs, func(a, b int) bool { return vs[a] == 0 && vs[b] != 0 })
			}
			return vs
		}
		switch op.Op {
		case "append", "replace":
			for o := 0; o < s.Owners; o++ {
				vs := genVals(o, true)
				if len(vs) == 0 && s.Owners == 1 && !((avoid || cfg.Tie) && k.Card1) {
					op.Empty = rng.Intn(2) == 0 // one empty slice instead of no argument at all (has-one / belongs-to: finding F12g)
				}
				op.Vals = append(op.Vals, vs)
				for _, v := range vs {
					if v == 0 {
						created[o] = append(created[o], next)
						next++
					} else {
						exists[v] = true
					}
				}
			}
		case "delete":
			vs := genVals(-1, false)
			if k.Card1 && rng.Intn(3) == 0 {
				vs = append(vs, pick(-1))
			}
			if len(vs) == 0 {
				op.Empty = rng.Intn(2) == 0
			}
			op.Vals = [][]int{vs}
		default:
			op.Vals = [][]int{}
		}
		s.Ops = append(s.Ops, op)
	}
	return s
}

func c12SeqNontrivial(s c12Seq) bool {
	// >= 2 operations and a shared / duplicate / bystander-owned target among the values
	if len(s.Ops) < 2 {
		return false
	}
	seen := map[int]int{}
	by := map[int]bool{}
	for _, b := range s.By {
		by[b] = true
	}
	for _, op := range s.Ops {
		for _, vs := range op.Vals {
			for _, v := range vs {
				if v != 0 {
					seen[v]++
					if seen[v] >= 2 || by[v] {
						return true
					}
				}
			}
		}
	}
	return false
}

func c12Hist(r *Result, pfx string, s c12Seq) {
	r.H(pfx+".kind", s.Kind)
	r.H(pfx+".owners", fmt.Sprint(s.Owners))
	r.H(pfx+".len", fmt.Sprint(len(s.Ops)))
	r.H(pfx+".initial_links_of_operated_owner", fmt.Sprint(len(s.Own)))
	for _, op := range s.Ops {
		n := op.Op
		if op.Unscoped {
			n += "+unscoped"
		}
		r.H(pfx+".op", n)
		if op.Via != 0 || op.Touch != 0 || op.Other != 0 || op.Bad {
			r.H(pfx+".handle", fmt.Sprintf("via=%d renew=%v touch=%d other=%d bad=%v", op.Via, op.Renew, op.Touch, op.Other, op.Bad))
		}
		r.H(pfx+".argument_state", []string{"fresh", "loaded", "preloaded", "stale-fk", "key-only"}[op.Arg])
		if len(op.Vals) == 0 || (len(op.Vals) == 1 && len(op.Vals[0]) == 0) {
			r.H(pfx+".zero_values", fmt.Sprintf("%s/card1=%v/empty_slice=%v", op.Op, c12KindByName(s.Kind).Card1, op.Empty))
		}
		for _, vs := range op.Vals {
			news, dup := 0, false
			seen := map[int]bool{}
			for _, v := range vs {
				if v == 0 {
					news++
				} else if seen[v] {
					dup = true
				}
				seen[v] = true
			}
			r.H(pfx+".values", fmt.Sprintf("n=%d new=%d dup=%v", len(vs), news, dup))
		}
	}
}

// c12Probes re-confirms every listed finding on its minimised witness (known_findings.d/C12.json).
var c12Probes = map[string]string{
	"F12a-belongs-to-unscoped-deletes-wrong-record":  `{"kind":"belongs_to","owners":1,"pre":[15,16],"by":[],"ops":[{"op":"append","vals":[[15]],"shape":0},{"op":"replace","unscoped":true,"vals":[[16]],"shape":0}]}`,
	"F12b-belongs-to-count-of-shared-target":         `{"kind":"belongs_to","owners":2,"pre":[11],"by":[],"ops":[{"op":"append","vals":[[11],[11]],"shape":0}]}`,
	"F12c-many2many-returning-backfill":              `{"kind":"many2many","owners":1,"pre":[],"by":[],"ops":[{"op":"append","vals":[[14,0]],"shape":0}]}`,
	"F12d-many2many-slice-replace-keeps-foreign-new": `{"kind":"many2many","owners":2,"pre":[11,12],"by":[],"ops":[{"op":"append","vals":[[11],[12]],"shape":0},{"op":"replace","vals":[[12],[11]],"shape":0}]}`,
	"F12g-single-valued-empty-slice-argument": `{"kind":"has_one","owners":1,"pre":[14],"by":[],"own":[14],"ops":[{"op":"replace","vals":[[]],"shape":1,"empty":true}]}`,
	"F12h-reused-handle-keeps-statement-of-previous-call": `{"kind":"has_many","owners":1,"pre":[11,12],"by":[],"own":[],"ops":[{"op":"append","vals":[[11,12]],"shape":0,"via":1},{"op":"delete","vals":[[11]],"shape":0,"via":1},{"op":"delete","vals":[[12]],"shape":0,"via":1}]}`,
	"F12e-moved-target-stale-in-memory-copy":         `{"kind":"has_many","owners":2,"pre":[11],"by":[],"ops":[{"op":"append","vals":[[11],[]],"shape":1},{"op":"append","vals":[[],[11]],"shape":1}]}`,
}

func c12RunProbes(r *Result) {
	for _, id := range c12SortedProbeIDs() {
		var s c12Seq
		if err := json.Unmarshal([]byte(c12Probes[id]), &s); err != nil {
			panic(err)
		}
		r.Case("finding-probes", id, true)
		v, _ := c12Judge(s, c12Exec(s))
		hit := false
		if v != nil {
			for _, f := range v.Flags {
				hit = hit || f == id
			}
		}
		switch {
		case v == nil:
			r.Note("listed finding %s no longer reproduces on its witness (entry ignored)", id)
		case hit && listed(id):
			r.KnownFinding(id, v.What+": got "+v.Got+" want "+v.Want)
		default:
			r.Violate(Violation{Kind: "e2e", Suite: "e2e-sequences", Input: s, Observed: map[string]interface{}{"step": v.Step, "class": v.Class, "got": v.Got}, Expected: map[string]interface{}{"want": v.Want, "verdict": v.What}})
		}
	}
}

func c12SortedProbeIDs() []string {
	m := map[string]bool{}
	for id := range c12Probes {
		m[id] = true
	}
	return c12SortedKeys(m)
}

// c12ExecAll runs independent sequences (each on its own database and its own gorm handle) on a few workers
func c12ExecAll(seqs []c12Seq) [][]c12Obs {
	out := make([][]c12Obs, len(seqs))
	var wg sync.WaitGroup
	ch := make(chan int)
	for w := 0; w < 4; w++ {
		wg.Add(1)
		go func() {
			defer wg.Done()
			for i := range ch {
				out[i] = c12Exec(seqs[i])
			}
		}()
	}
	for i := range seqs {
		ch <- i
	}
	close(ch)
	wg.Wait()
	return out
}

func c12E2E(r *Result, s c12Seq, suite string) {
	c12Trace(s)
	c12E2EObs(r, s, suite, c12Exec(s))
}

func c12E2EObs(r *Result, s c12Seq, suite string, obs []c12Obs) {
	v, judged := c12Judge(s, obs)
	r.H("e2e.judged_steps", fmt.Sprint(judged))
	for _, o := range obs {
		if o.Err != "" {
			r.H("e2e.api_error", o.Err)
		}
	}
	if v == nil {
		return
	}
	if id := c12KnownPattern(s, v); id != "" && listed(id) {
		r.KnownFinding(id, v.What)
		return
	}
	r.Violate(Violation{Kind: "e2e", Suite: suite, Input: s, Observed: map[string]interface{}{"step": v.Step, "class": v.Class, "got": v.Got, "obs": obs[v.Step]},
		Expected: map[string]interface{}{"want": v.Want, "verdict": v.What}})
}

// c12KnownPattern: decidable patterns of the listed findings (known_findings.d/C12.json) over a failing sequence.
func c12KnownPattern(s c12Seq, v *c12Verdict) string {
	for _, f := range v.Flags {
		if listed(f) {
			return f
		}
	}
	return ""
}

func init() {
	register("C12", func(r *Result, rng *rand.Rand, tier string) {
		defer c12Timed("e2e")()
		n := 2500
		if tier == "thorough" {
			n = 55000
		} else if tier == "search" {
			n = 4000
		}
		var kinds []string
		for _, k := range c12Kinds {
			kinds = append(kinds, k.Name)
		}
		cfg := c12GenCfg{Kinds: kinds, Unscoped: 0.35, Slice: 0.4, MaxLen: 8, Avoid: 0.85, Handles: 0.45}
		c12RunProbes(r)
		for i := 0; i < n && !expired(); {
			var batch []c12Seq
			for ; i < n && len(batch) < 250; i++ {
				s := c12GenSeq(rng, cfg)
				r.Case("e2e-sequences", canon(s), c12SeqNontrivial(s))
				c12Hist(r, "e2e", s)
				if i%97 == 0 {
					r.Sample(map[string]interface{}{"suite": "e2e-sequences", "input": s})
				}
				batch = append(batch, s)
			}
			for j, obs := range c12ExecAll(batch) {
				c12E2EObs(r, batch[j], "e2e-sequences", obs)
			}
		}
	})
	replayers["C12/e2e-sequences"] = func(r *Result, input json.RawMessage) {
		var s c12Seq
		if err := json.Unmarshal(input, &s); err != nil {
			r.Note("bad replay input: %v", err)
			return
		}
		c12E2E(r, s, "e2e-sequences")
	}
}
