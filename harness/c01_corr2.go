package main

// C01 correspondence suites for the code OUTSIDE Statement.AddVar (model: lean/GormModel/Model/BindJoin.lean):
//
//   "join-on"   callbacks/query.go genJoinClause: the ON handle of a relation join is rendered on a private statement,
//               re-templated placeholder by placeholder and re-bound as a clause.Expr in the outer statement.
//               REAL: DryRun Find on C01JUser with Select(expr, vars…) . Joins(relation, db.Where(members…)) . Where(…)
//               under the `?` and `$n` dummy dialectors;  MODEL: Gorm.Bind.joinStmt.  Compared: the text from the
//               first " ON " on and the whole var list.
//   "dispatch"  the entry points that decide clause.Expr vs clause.NamedExpr for a text with arguments:
//               DB.Raw, DB.Exec, raw Joins (always NamedExpr), DB.Select, Statement.BuildCondition - each fed with
//               every (text, args) pair of the render generator (positional, named containers of every kind, mixed).
//
// Sites that render on a private Statement / re-template (grep BindVarTo( | strings.Replace( | Statement{ in /repo):
//   statement.go:196-258      AddVar arms (model Bind.addVar; suites render/spec)
//   statement.go:205-236      AddVar case *DB: rendered branch re-templates (model retemplate; render suite `rs`, e2e RawInRaw/RawNested/sub-queries)
//   callbacks/query.go:193-218 genJoinClause onStmt (THIS suite; e2e RelJoin*)
//   callbacks/query.go:245,250 raw joins -> NamedExpr (dispatch suite; e2e Joins(raw…))
//   callbacks/query.go:87,154 / callbacks/update.go:252 / statement.go:508 / gorm.go:205,416: schema parsing / clone only, no SQL is rendered
//   association.go:574-580    many2many Find/Count: the join table's QueryClauses are rendered on joinStmt and the text is re-used
//                             as clause.Expr WITHOUT re-templating; reachable only with a join-table model whose QueryClauses
//                             bind values (soft delete binds none): not generated
//   chainable_api.go:465 Raw, finisher_api.go:765 Exec, chainable_api.go:130-145 Select, statement.go:290-300 BuildCondition (dispatch suite; e2e named entry points)
//   migrator/*                DDL: out of scope of C01 (see c01_e2e.go)

import (
	"context"
	"encoding/json"
	"fmt"
	"math/rand"
	"os"
	"strconv"
	"strings"

	"gorm.io/gorm"
	"gorm.io/gorm/clause"
)

func c01Col(t, n string) interface{} { return []interface{}{"col", t, n, "", false} }

type c01JoinIn struct {
	Rel   string        `json:"rel"`
	Inner bool          `json:"inner"`
	Pre   interface{}   `json:"pre"`
	On    []interface{} `json:"on"`
	Outer []interface{} `json:"outer"`
}

// relation -> (reference Eq, members the joined model's QueryClauses put first on the private statement)
func c01JoinRefs(rel string) (refs []interface{}, first []interface{}) {
	switch rel {
	case "Company":
		return []interface{}{[]interface{}{"cmp", "eq", c01Col("c01_j_users", "company_id"), c01Col("Company", "id")}}, nil
	case "Manager":
		return []interface{}{[]interface{}{"cmp", "eq", c01Col("c01_j_users", "manager_id"), c01Col("Manager", "id")}}, nil
	default: // Profile: has-one, soft delete
		return []interface{}{[]interface{}{"cmp", "eq", c01Col("c01_j_users", "id"), c01Col("Profile", "c01_j_user_id")}},
			[]interface{}{[]interface{}{"cmp", "eq", c01Col("Profile", "deleted_at"), []interface{}{"dv", true, "s:"}}}
	}
}

func (g *c01Gen) member(depth int) interface{} {
	switch g.rng.Intn(6) {
	case 0:
		return g.cmp(depth)
	case 1:
		return g.in(depth)
	case 2:
		return g.nexpr(depth)
	default:
		return g.expr(depth)
	}
}

func (g *c01Gen) joinInput() c01JoinIn {
	in := c01JoinIn{Rel: []string{"Company", "Manager", "Profile"}[g.rng.Intn(3)], Inner: g.rng.Intn(3) == 0}
	// SELECT expression: k values bound before the join
	k := []int{0, 0, 1, 2, 3, 10}[g.rng.Intn(6)]
	var sb strings.Builder
	sb.WriteString("c01_j_users.id")
	args := make([]interface{}, k)
	for i := range args {
		sb.WriteString(", ? AS k" + strconv.Itoa(i))
		args[i] = g.scalar()
	}
	in.Pre = []interface{}{"e", sb.String(), args, false}
	for i, n := 0, []int{0, 1, 1, 1, 2, 3}[g.rng.Intn(6)]; i < n; i++ {
		in.On = append(in.On, g.member(1))
	}
	for i, n := 0, g.rng.Intn(3); i < n; i++ {
		in.Outer = append(in.Outer, g.member(1))
	}
	return in
}

func c01CompareJoin(r *Result, dialect string, inputs []c01JoinIn) {
	const suite = "join-on"
	ctx := &c01Ctx{db: c01OpenDummy(dialect)}
	c01SubJSON = map[*gorm.DB]interface{}{}
	dry := ctx.db.Session(&gorm.Session{DryRun: true})
	type realOut struct {
		sql, pan string
		vars     []interface{}
	}
	reals := make([]realOut, len(inputs))
	ops := make([][]interface{}, 0, len(inputs))
	for i, in := range inputs {
		refs, first := c01JoinRefs(in.Rel)
		func() {
			defer func() {
				if e := recover(); e != nil {
					reals[i].pan = fmt.Sprint(e)
				}
			}()
			for _, x := range in.On {
				ctx.resolve(x)
			}
			for _, x := range in.Outer {
				ctx.resolve(x)
			}
			pre := ctx.real(in.Pre).(clause.Expr)
			tx := dry.Model(&C01JUser{}).Select(pre.SQL, pre.Vars...)
			var h *gorm.DB
			if len(in.On) > 0 {
				h = ctx.db.Session(&gorm.Session{NewDB: true})
				for _, x := range in.On {
					h = h.Where(ctx.real(x))
				}
			}
			// outer conditions half before, half after the Joins call (the build order does not depend on it)
			half := len(in.Outer) / 2
			for _, x := range in.Outer[:half] {
				tx = tx.Where(ctx.real(x))
			}
			switch {
			case h == nil && in.Inner:
				tx = tx.InnerJoins(in.Rel)
			case h == nil:
				tx = tx.Joins(in.Rel)
			case in.Inner:
				tx = tx.InnerJoins(in.Rel, h)
			default:
				tx = tx.Joins(in.Rel, h)
			}
			for _, x := range in.Outer[half:] {
				tx = tx.Where(ctx.real(x))
			}
			var us []C01JUser
			tx = tx.Find(&us)
			reals[i].sql = tx.Statement.SQL.String()
			reals[i].vars = c01Strip(c01EncList(len(tx.Statement.Vars), func(k int) interface{} { return tx.Statement.Vars[k] })).([]interface{})
		}()
		on := append(append([]interface{}{}, first...), in.On...)
		if in.On == nil {
			on = first
		}
		if on == nil {
			on = []interface{}{}
		}
		outer := in.Outer
		if outer == nil {
			outer = []interface{}{}
		}
		ops = append(ops, []interface{}{"bind.join", dialect, in.Pre, refs, on, outer})
	}
	outs, err := AskLean(ops)
	if err != nil {
		r.Violate(Violation{Kind: "correspondence", Suite: suite, Note: err.Error()})
		return
	}
	tail := func(s string) string {
		if i := strings.Index(s, " ON "); i >= 0 {
			return s[i:]
		}
		return "<no ON>" + s
	}
	for i, in := range inputs {
		input := map[string]interface{}{"dialect": dialect, "join": in}
		var m c01Out
		if e := json.Unmarshal(outs[i], &m); e != nil {
			r.Violate(Violation{Kind: "correspondence", Suite: suite, Input: input, Observed: string(outs[i]), Note: "model rejected the input (" + e.Error() + ")"})
			continue
		}
		r.CorrCompared++
		nOn := 0
		for _, x := range in.On {
			nOn += c01CountVars(x)
		}
		r.Case(suite, dialect+canon(in), len(reals[i].vars) >= 1)
		r.H(suite+".relation", in.Rel)
		r.H(suite+".on-members", fmt.Sprint(len(in.On)))
		r.H(suite+".on-values(approx)", c01Bucket(nOn))
		r.H(suite+".values-before-join", c01Bucket(len(jl(in.Pre.([]interface{})[2]))))
		r.H(suite+".vars", c01Bucket(len(reals[i].vars)))
		if reals[i].pan != "" {
			r.H(suite+".real-panic", c01Trunc(reals[i].pan, 40))
			continue
		}
		if m.Unsupported {
			r.H(suite+".unsupported", "true")
			continue
		}
		if i%499 == 0 {
			r.Sample(map[string]interface{}{"suite": suite, "dialect": dialect, "input": in, "sql": reals[i].sql, "vars": reals[i].vars})
		}
		if m.Oof || tail(m.SQL) != tail(reals[i].sql) || canon(m.Vars) != canon(reals[i].vars) {
			r.Violate(Violation{Kind: "correspondence", Suite: suite, Input: input,
				Observed: map[string]interface{}{"sql": tail(reals[i].sql), "vars": reals[i].vars},
				Expected: map[string]interface{}{"sql": tail(m.SQL), "vars": m.Vars, "oof": m.Oof},
				Note:     "real DryRun Find with a relation join vs Lean Gorm.Bind.joinStmt"})
		}
	}
}

// ---- dispatch ------------------------------------------------------------------------------------------------------

type c01DispIn struct {
	Kind string        `json:"kind"`
	SQL  string        `json:"sql"`
	Args []interface{} `json:"args"`
}

var c01DispKinds = []string{"raw", "exec", "rawjoin", "select", "cond"}

func (g *c01Gen) dispInput() c01DispIn {
	var e []interface{}
	if g.rng.Intn(2) == 0 {
		e = g.nexpr(1).([]interface{})
	} else {
		e = g.expr(1).([]interface{})
	}
	in := c01DispIn{Kind: c01DispKinds[g.rng.Intn(len(c01DispKinds))], SQL: e[1].(string), Args: jl(e[2])}
	switch g.rng.Intn(12) {
	case 0: // a positional template whose text also holds an '@' (e-mail literal)
		in.SQL += " AND email <> 'x@y.z'"
	case 1: // a struct / map given to a positional template
		in.Args = append(in.Args, g.strct())
	case 2:
		if in.Kind == "cond" {
			in.SQL = []string{"name", "age", "12", "z", "name "}[g.rng.Intn(5)]
			in.Args = []interface{}{g.val(1)}
		}
	}
	if in.Args == nil {
		in.Args = []interface{}{}
	}
	return in
}

func c01CompareDispatch(r *Result, dialect string, inputs []c01DispIn) {
	const suite = "dispatch"
	ctx := &c01Ctx{db: c01OpenDummy(dialect)}
	c01SubJSON = map[*gorm.DB]interface{}{}
	dry := ctx.db.Session(&gorm.Session{DryRun: true})
	type realOut struct {
		sql, pan string
		vars     []interface{}
		skip     bool
	}
	reals := make([]realOut, len(inputs))
	ops := make([][]interface{}, 0, len(inputs))
	for i, in := range inputs {
		func() {
			defer func() {
				if e := recover(); e != nil {
					reals[i].pan = fmt.Sprint(e)
				}
			}()
			for _, x := range in.Args {
				ctx.resolve(x)
			}
			args := ctx.list(in.Args)
			var stmt *gorm.Statement
			maps := []map[string]interface{}{}
			switch in.Kind {
			case "raw":
				stmt = dry.Raw(in.SQL, args...).Statement
			case "exec":
				stmt = dry.Exec(in.SQL, args...).Statement
			case "rawjoin":
				if len(args) == 1 {
					if _, ok := args[0].(*gorm.DB); ok {
						reals[i].skip = true // Joins(name, handle): the relation form
						return
					}
				}
				stmt = dry.Table("tt").Joins(in.SQL, args...).Find(&maps).Statement
			case "select":
				stmt = dry.Table("tt").Select(in.SQL, args...).Find(&maps).Statement
			default:
				// (a session of its own: BuildCondition reports unsupported forms through stmt.DB.AddError)
				stmt = &gorm.Statement{DB: ctx.db.Session(&gorm.Session{NewDB: true}), Table: "tt", Clauses: map[string]clause.Clause{}, Context: context.Background()}
				if conds := stmt.BuildCondition(in.SQL, args...); len(conds) > 0 {
					clause.Where{Exprs: conds}.Build(stmt)
				}
			}
			reals[i].sql = stmt.SQL.String()
			reals[i].vars = c01Strip(c01EncList(len(stmt.Vars), func(k int) interface{} { return stmt.Vars[k] })).([]interface{})
		}()
		if in.Kind == "cond" {
			_, err := strconv.Atoi(in.SQL)
			ops = append(ops, []interface{}{"bind.cond", dialect, err == nil, in.SQL, in.Args})
		} else {
			ops = append(ops, []interface{}{"bind.dispatch", dialect, in.Kind, in.SQL, in.Args})
		}
	}
	outs, err := AskLean(ops)
	if err != nil {
		r.Violate(Violation{Kind: "correspondence", Suite: suite, Note: err.Error()})
		return
	}
	for i, in := range inputs {
		input := map[string]interface{}{"dialect": dialect, "dispatch": in}
		container := "positional"
		for _, a := range in.Args {
			switch c01Tag(a) {
			case "na":
				container = "sql.Named"
			case "m":
				container = "map"
			case "st":
				container = "struct:" + fmt.Sprint(a.([]interface{})[3])
			}
		}
		r.H(suite+".entry x container", in.Kind+" x "+container)
		if reals[i].skip {
			continue
		}
		if t := strings.TrimSpace(in.SQL); in.Kind == "cond" && len(in.Args) == 1 && !strings.ContainsAny(t, " ?@") && strings.Trim(t, "abcdefghijklmnopqrstuvwxyz_") != "" {
			// BuildCondition's `column = value` form with a text that is not a plain identifier: how the dialector
			// quotes dots / backticks inside an identifier is outside the model (Seg.quoted)
			r.H(suite+".model", "cond:odd-identifier(skipped)")
			continue
		}
		if string(outs[i]) == `"fallthrough"` {
			r.H(suite+".model", in.Kind+":fallthrough")
			continue
		}
		var m c01Out
		if e := json.Unmarshal(outs[i], &m); e != nil {
			r.Violate(Violation{Kind: "correspondence", Suite: suite, Input: input, Observed: string(outs[i]), Note: "model rejected the input (" + e.Error() + ")"})
			continue
		}
		r.CorrCompared++
		r.Case(suite, dialect+canon(in), len(reals[i].vars) >= 1)
		r.H(suite+".model", in.Kind+":"+map[bool]string{true: "text has @", false: "no @"}[strings.Contains(in.SQL, "@")])
		if reals[i].pan != "" {
			r.H(suite+".real-panic", c01Trunc(reals[i].pan, 40))
			continue
		}
		if m.Unsupported {
			r.H(suite+".unsupported", in.Kind)
			continue
		}
		real := reals[i].sql
		switch in.Kind {
		case "rawjoin":
			real = strings.TrimPrefix(real, "SELECT * FROM `tt` ")
		case "select":
			real = strings.TrimSuffix(strings.TrimPrefix(real, "SELECT "), " FROM `tt`")
		}
		if m.Oof || m.SQL != real || canon(m.Vars) != canon(reals[i].vars) {
			r.Violate(Violation{Kind: "correspondence", Suite: suite, Input: input,
				Observed: map[string]interface{}{"sql": real, "vars": reals[i].vars},
				Expected: map[string]interface{}{"sql": m.SQL, "vars": m.Vars, "oof": m.Oof},
				Note:     "real entry point (Raw/Exec/Joins/Select/BuildCondition) vs Lean Gorm.Bind.rawDispatch/rawJoinDispatch/selectDispatch/buildCondStr"})
		}
	}
}

func init() {
	register("C01", func(r *Result, rng *rand.Rand, tier string) {
		n := 1500
		if tier == "thorough" {
			n = 60000
		} else if tier == "search" {
			n = 12000
		}
		for _, dialect := range []string{"qmark", "dollar"} {
			g := &c01Gen{rng: rng, hist: func(b string) { r.H("corr2.shape", b) }}
			joins := make([]c01JoinIn, n)
			for i := range joins {
				joins[i] = g.joinInput()
			}
			disp := make([]c01DispIn, n)
			for i := range disp {
				disp[i] = g.dispInput()
			}
			for lo := 0; lo < n && !expired(); lo += 10000 {
				hi := lo + 10000
				if hi > n {
					hi = n
				}
				c01CompareJoin(r, dialect, joins[lo:hi])
				c01CompareDispatch(r, dialect, disp[lo:hi])
			}
		}
	})
	driverFlag := func() {
		for i, a := range os.Args {
			if (a == "-driver" || a == "--driver") && i+1 < len(os.Args) {
				driverPath = os.Args[i+1]
			}
		}
	}
	replayers["C01/join-on"] = func(r *Result, input json.RawMessage) {
		var in struct {
			Dialect string    `json:"dialect"`
			Join    c01JoinIn `json:"join"`
		}
		if err := json.Unmarshal(input, &in); err != nil {
			r.Note("bad replay input: %v", err)
			return
		}
		driverFlag()
		c01CompareJoin(r, in.Dialect, []c01JoinIn{in.Join})
	}
	replayers["C01/dispatch"] = func(r *Result, input json.RawMessage) {
		var in struct {
			Dialect  string    `json:"dialect"`
			Dispatch c01DispIn `json:"dispatch"`
		}
		if err := json.Unmarshal(input, &in); err != nil {
			r.Note("bad replay input: %v", err)
			return
		}
		driverFlag()
		c01CompareDispatch(r, in.Dialect, []c01DispIn{in.Dispatch})
	}
}
