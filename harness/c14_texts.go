package main

// C14 round 5 — the cache sentences hold for EVERY statement text: scale and boundaries of the TEXTS.
//
// Dimension that was constant in every other C14 suite: all generated SQL texts were short (< 100 bytes), few (≤ 12 per
// cache), with ≤ 3 bound arguments, one spelling each.  Varied here:
//   length           around the usual thresholds: 255/256/257, 1023/1024/1025, 2048, 4096/4097, 65535/65536/65537 bytes
//                    (raw SQL padded with a comment to the exact byte length; gorm-built IN lists of 1…800 elements;
//                    batch Create of 1…500 rows, CreateInBatches with a remainder batch = a second text);
//   bound arguments  0, 1, 2, 100, 999, 1000, 32766 (SQLite's limit);
//   distinct texts   1, 2, dozens, hundreds of entries in the cache before Reset / Close;
//   spelling         texts that differ only in letter case / white space / a trailing blank or newline (distinct cache
//                    keys with DIFFERENT results: `select 'Ab'` / `select 'ab'`, `'a b'` / `'a  b'`), the empty text;
//   where            Config.PrepareStmt or Session{PrepareStmt}, ± SkipDefaultTransaction, sequential reuse, concurrent
//                    bursts on a new text, inside Transaction(), before and after Reset, after Close.
//
// (1) text SHAPES of the forced worlds (suites forced / pool / stampede): which SQL text stands behind text index i is
//     chosen per world (c14ShapedSQL) — short, padded to a boundary length, mixed long/short, the empty text, spellings of
//     one statement.  The Lean LTS is not told (it is parametric in the text: C14_text_uniform, C14_text_local), so a cache
//     that treats some texts differently breaks the correspondence and the e2e oracles of those suites on a concrete
//     forced schedule.
// (2) suite "texts" (e2e, no model): real gorm on SQLite behind the recording driver with the counting ConnPool of suite
//     modes.  Judged, for every text alike:
//       rows      every use returns what the non-prepared reference database returns (so two spellings never share a
//                 statement);
//       prepares  per cache generation and exact text: at most one PrepareContext on the pool, at most one on a
//                 transaction, none on a transaction once the pool-level statement exists (latitude as in suite modes);
//       reset     after Reset + drain every statement the pool handed out is closed and no driver statement is open;
//       close     after Close + drain the same, and then EVERY text of the program — and one never seen before — answers
//                 with an error through the closed handle, and no PrepareContext reaches the pool.
//     Latitude: what the statement itself answers is the reference's business (SQLite may reject a text — too many
//     variables, an empty statement); only "same as without the cache" is demanded.

import (
	"context"
	"encoding/json"
	"errors"
	"fmt"
	"math/rand"
	"strings"
	"sync"
	"sync/atomic"
	"time"

	"gorm.io/gorm"
)

// ---------------------------------------------------------------------------------------------------------------
// (1) text shapes of the forced worlds
// ---------------------------------------------------------------------------------------------------------------

var c14ShapeIndex sync.Map // SQL text -> text index, for shapes whose texts do not start with "SELECT <index>"

var c14ForceShape = -1 // replay: the shape of the stored run
var c14ShapeCtr int

var c14PadLens = []int{255, 256, 1023, 1024, 1025, 4096, 65536}

// spellings of ONE statement: distinct texts, distinct cache keys (the fake driver answers with a hash of the text, so
// a cache that confuses two of them returns wrongRows)
var c14Spellings = []string{
	"SELECT 7 /* c14 spelling */", "select 7 /* c14 spelling */", "SELECT  7 /* c14 spelling */", "SELECT 7 /* c14 spelling */ ",
	"SELECT 7 /* C14 SPELLING */", "SELECT 7 /* c14 spelling */\n", "\tSELECT 7 /* c14 spelling */", "Select 7 /* c14 spelling */",
}

const (
	c14ShapeShort = 0
	// 1 … len(c14PadLens): every text padded to that length
	// then: even texts padded to 1025 / odd texts padded to 4096 / text 0 empty / spellings
)

func c14NShapes() int { return 1 + len(c14PadLens) + 4 }

func c14ShapeName(shape int) string {
	n := len(c14PadLens)
	switch {
	case shape <= 0:
		return "short"
	case shape <= n:
		return fmt.Sprintf("all padded to %d bytes", c14PadLens[shape-1])
	case shape == n+1:
		return "even texts padded to 1025 bytes, odd short"
	case shape == n+2:
		return "odd texts padded to 4096 bytes, even short"
	case shape == n+3:
		return "text 0 is the empty text"
	}
	return "spellings of one statement (letter case / white space)"
}

// c14NextShape: half of the worlds keep the short texts; the others cycle through the shapes (deterministic)
func c14NextShape() int {
	if c14ForceShape >= 0 {
		return c14ForceShape
	}
	c14ShapeCtr++
	if c14ShapeCtr%2 == 0 {
		return c14ShapeShort
	}
	return 1 + (c14ShapeCtr/2)%(c14NShapes()-1)
}

func c14Padded(text, length int) string {
	head := fmt.Sprintf("SELECT %d /* c14 ", text)
	tail := " */"
	if n := length - len(head) - len(tail); n > 0 {
		return head + strings.Repeat("x", n) + tail
	}
	return head + tail
}

func c14ShapedSQL(shape, text int) string {
	n := len(c14PadLens)
	switch {
	case shape <= 0:
		return c14SQL(text)
	case shape <= n:
		return c14Padded(text, c14PadLens[shape-1])
	case shape == n+1:
		if text%2 == 0 {
			return c14Padded(text, 1025)
		}
		return c14SQL(text)
	case shape == n+2:
		if text%2 == 1 {
			return c14Padded(text, 4096)
		}
		return c14SQL(text)
	case shape == n+3:
		if text == 0 {
			c14ShapeIndex.Store("", 0)
			return ""
		}
		return c14SQL(text)
	}
	q := c14Spellings[text%len(c14Spellings)]
	c14ShapeIndex.Store(q, text%len(c14Spellings))
	return q
}

// ---------------------------------------------------------------------------------------------------------------
// (2) suite "texts"
// ---------------------------------------------------------------------------------------------------------------

type c14tText struct {
	Kind string `json:"kind"` // pad | args | in | batch | batches | spell | empty
	Len  int    `json:"len,omitempty"`
	N    int    `json:"n,omitempty"`
	Var  int    `json:"var,omitempty"`
}

type c14tStep struct {
	Text int    `json:"text"`
	Mode string `json:"mode"` // seq | burst | tx | many
	Reps int    `json:"reps"`
}

type c14tProg struct {
	Prepare   bool       `json:"prepare"` // Config.PrepareStmt; otherwise a Session{PrepareStmt: true} handle of a plain root
	SkipDefTx bool       `json:"skip_default_tx"`
	Texts     []c14tText `json:"texts"`
	Steps     []c14tStep `json:"steps"`
	Reset     bool       `json:"reset"`
	Post      []c14tStep `json:"post,omitempty"`
}

var c14tSpell = []string{
	"select 'Ab' as v", "select 'ab' as v", "SELECT 'ab' as v", "select  'ab' as v", "select 'a b' as v", "select 'a  b' as v",
	"select 'ab' as v ", "select 'ab' as v\n", "select 'ab' AS v", "\tselect 'ab' as v", "select 'AB' as v", "Select 'ab' as v",
}

func c14tPad(length, nargs int) string {
	head := "select 7 as v /* "
	if nargs == 1 {
		head = "select ? as v /* "
	}
	tail := " */"
	if n := length - len(head) - len(tail); n > 0 {
		return head + strings.Repeat("p", n) + tail
	}
	return head + tail
}

func (t c14tText) isWrite() bool { return t.Kind == "batch" || t.Kind == "batches" }

// c14tPanic: the use did not return — it panicked
type c14tPanic struct{ what string }

func (p c14tPanic) Error() string { return "panic: " + p.what }

// c14tUse executes the text once through d
func c14tUse(d *gorm.DB, t c14tText, rep int) (out string, err error) {
	defer func() {
		if x := recover(); x != nil {
			out, err = "", c14tPanic{fmt.Sprint(x)}
		}
	}()
	return c14tUseRaw(d, t, rep)
}

// usesRow: the text goes through DB.Row() (QueryRowContext)
func (t c14tText) usesRow() bool { return t.Kind == "args" && t.Var%2 == 1 }

func c14tUseRaw(d *gorm.DB, t c14tText, rep int) (string, error) {
	switch t.Kind {
	case "pad":
		var v int
		var e error
		if t.N == 1 {
			e = d.Raw(c14tPad(t.Len, 1), rep).Scan(&v).Error
		} else {
			e = d.Raw(c14tPad(t.Len, 0)).Scan(&v).Error
		}
		return fmt.Sprint(v), e
	case "args":
		var sb strings.Builder
		sb.WriteString("select count(*) from c14m_rows where id in (")
		args := make([]interface{}, t.N)
		for i := range args {
			if i > 0 {
				sb.WriteByte(',')
			}
			sb.WriteByte('?')
			args[i] = (i+rep)%9 + 1
		}
		sb.WriteString(")")
		var n int64
		if t.Var%2 == 1 {
			e := d.Raw(sb.String(), args...).Row().Scan(&n)
			return fmt.Sprint(n), e
		}
		e := d.Raw(sb.String(), args...).Scan(&n).Error
		return fmt.Sprint(n), e
	case "in":
		ids := make([]int, t.N)
		for i := range ids {
			ids[i] = (i*7+rep)%11 + 1
		}
		if t.Var%2 == 1 {
			var out []c14mRow
			e := d.Where("id IN ?", ids).Order("id").Find(&out).Error
			return fmt.Sprint(out), e
		}
		var n int64
		e := d.Table("c14m_rows").Where("id IN ?", ids).Count(&n).Error
		return fmt.Sprint(n), e
	case "batch", "batches":
		rows := make([]c14mRow, t.N)
		for i := range rows {
			rows[i] = c14mRow{ID: 1000 + i, Name: fmt.Sprintf("b%d", (i+rep)%5), Age: i}
		}
		var res *gorm.DB
		if t.Kind == "batches" {
			res = d.CreateInBatches(&rows, t.Len)
		} else {
			res = d.Create(&rows)
		}
		if res.Error != nil {
			return "", res.Error
		}
		var sum int64
		if e := d.Raw("select coalesce(sum(age), 0) from c14m_rows where id >= ?", 1000).Scan(&sum).Error; e != nil {
			return "", e
		}
		res2 := d.Exec("delete from c14m_rows where id >= ?", 1000)
		return fmt.Sprint(res.RowsAffected, sum, res2.RowsAffected), res2.Error
	case "spell":
		var v string
		e := d.Raw(c14tSpell[t.Var%len(c14tSpell)]).Scan(&v).Error
		return v, e
	case "empty":
		// NOT run on SQLite: go-sqlite3 steps a NULL statement handle for an empty prepared text (SIGSEGV inside cgo, outside
		// gorm).  The empty text is a text shape of the forced worlds (fake driver) instead.
		return "", errors.New("the empty text is not run on SQLite")
	case "many":
		var v int
		e := d.Raw(fmt.Sprintf("select %d as v /* c14 many */", rep)).Scan(&v).Error
		return fmt.Sprint(v), e
	}
	return "", errors.New("bad text kind")
}

type c14tObs struct {
	Mismatch    []string `json:"mismatch,omitempty"`
	Panic       string   `json:"panic,omitempty"`
	Dup         []string `json:"duplicate_prepares,omitempty"`
	OpenAtReset int      `json:"unclosed_after_reset"`
	DrvAtReset  int64    `json:"driver_stmts_after_reset"`
	OpenAtClose int      `json:"unclosed_after_close"`
	DrvAtClose  int64    `json:"driver_stmts_after_close"`
	AfterClose  []string `json:"after_close,omitempty"`
	NPreps      int      `json:"prepares"`
	NTexts      int      `json:"texts"`
	MaxLen      int      `json:"longest_text"`
	InvalidDB   int      `json:"err_invalid_db_after_close"`
	RowPanics   []string `json:"row_panics_after_close,omitempty"` // pattern of F14f: Row() through the closed cache
}

func c14tErrEq(a, b error) bool {
	if a == nil || b == nil {
		return a == nil && b == nil
	}
	return true // the statement's own error (SQLite's wording may name a statement handle): only error-ness is compared
}

func (o *c14tObs) runSteps(h, ref *gorm.DB, texts []c14tText, steps []c14tStep) {
	for si, s := range steps {
		if s.Mode == "many" {
			for k := 0; k < s.Reps; k++ {
				got, e1 := c14tUse(h, c14tText{Kind: "many"}, 100000*si+k)
				if e1 != nil || got != fmt.Sprint(100000*si+k) {
					o.Mismatch = append(o.Mismatch, fmt.Sprintf("step %d text %d of %d distinct texts: got %s / %v", si, k, s.Reps, got, e1))
					break
				}
			}
			continue
		}
		if s.Text < 0 || s.Text >= len(texts) {
			continue
		}
		t := texts[s.Text]
		cmp := func(where string, rep int, got string, e1 error) {
			want, e2 := c14tUse(ref, t, rep)
			if !c14tErrEq(e1, e2) || (e1 == nil && got != want) {
				if len(got) > 200 {
					got = got[:200] + "…"
				}
				if len(want) > 200 {
					want = want[:200] + "…"
				}
				o.Mismatch = append(o.Mismatch, fmt.Sprintf("step %d %s text %d %+v rep %d: got %s / %v, reference %s / %v", si, where, s.Text, t, rep, got, e1, want, e2))
			}
		}
		switch s.Mode {
		case "seq":
			for k := 0; k < s.Reps; k++ {
				got, e1 := c14tUse(h, t, k)
				cmp("seq", k, got, e1)
			}
		case "tx":
			_ = h.Transaction(func(tx *gorm.DB) error {
				for k := 0; k < s.Reps; k++ {
					got, e1 := c14tUse(tx, t, k)
					// the reference runs outside any transaction of its own database: same rows
					cmp("tx", k, got, e1)
				}
				return nil
			})
		case "burst":
			if t.isWrite() {
				got, e1 := c14tUse(h, t, 0)
				cmp("seq", 0, got, e1)
				continue
			}
			var wg sync.WaitGroup
			var mu sync.Mutex
			barrier := make(chan struct{})
			type res struct {
				got string
				err error
			}
			out := make([]res, s.Reps)
			for g := 0; g < s.Reps; g++ {
				wg.Add(1)
				go func(g int) {
					defer wg.Done()
					<-barrier
					got, e1 := c14tUse(h.WithContext(context.Background()), t, 0)
					mu.Lock()
					out[g] = res{got, e1}
					mu.Unlock()
				}(g)
			}
			close(barrier)
			wg.Wait()
			for _, x := range out {
				cmp("burst", 0, x.got, x.err)
			}
		}
	}
}

func c14tDups(preps []c14mPrep) (dup []string, nTexts, maxLen int) {
	type key struct {
		gen  int
		text string
	}
	poolN, txN, txAfterPool := map[key]int{}, map[key]int{}, map[key]bool{}
	texts := map[string]bool{}
	for _, pr := range preps {
		k := key{pr.Gen, pr.Text}
		texts[pr.Text] = true
		if len(pr.Text) > maxLen {
			maxLen = len(pr.Text)
		}
		if pr.Tx {
			txN[k]++
			if poolN[k] > 0 {
				txAfterPool[k] = true
			}
		} else {
			poolN[k]++
		}
	}
	short := func(q string) string {
		if len(q) > 90 {
			return fmt.Sprintf("%s…%s (%d bytes)", q[:60], q[len(q)-20:], len(q))
		}
		return q
	}
	for k, n := range poolN {
		if n > 1 {
			dup = append(dup, fmt.Sprintf("generation %d: %d pool-level PrepareContext calls for %q", k.gen, n, short(k.text)))
		}
	}
	for k, n := range txN {
		if n > 1 {
			dup = append(dup, fmt.Sprintf("generation %d: %d transaction-level PrepareContext calls for %q", k.gen, n, short(k.text)))
		}
		if txAfterPool[k] {
			dup = append(dup, fmt.Sprintf("generation %d: %q prepared on a transaction although the pool-level statement was already prepared", k.gen, short(k.text)))
		}
	}
	return dup, len(texts), maxLen
}

func c14tRunProg(p c14tProg) (obs *c14tObs) {
	obs = &c14tObs{}
	db, pool, rec, sqlDB := c14mOpen(&gorm.Config{PrepareStmt: p.Prepare, SkipDefaultTransaction: p.SkipDefTx}, true)
	ref, _, _, refSQL := c14mOpen(&gorm.Config{SkipDefaultTransaction: p.SkipDefTx}, false)
	defer sqlDB.Close()
	defer refSQL.Close()
	defer func() {
		if x := recover(); x != nil {
			obs.Panic = fmt.Sprint(x)
		}
	}()
	h := db
	if !p.Prepare {
		h = db.Session(&gorm.Session{PrepareStmt: true})
	}
	_, pdb := c14mPoolOf(h)
	if pdb == nil {
		obs.Mismatch = append(obs.Mismatch, "the handle is not in prepared-statement mode")
		return obs
	}
	obs.runSteps(h, ref, p.Texts, p.Steps)
	if p.Reset {
		pdb.Reset()
		pool.mu.Lock()
		pool.gen = 1
		pool.mu.Unlock()
		before := pool.snapshot()
		c14mDrain(func() bool { return c14mUnclosed(before) == 0 && atomic.LoadInt64(&rec.Stmts) == 0 })
		obs.OpenAtReset, obs.DrvAtReset = c14mUnclosed(before), atomic.LoadInt64(&rec.Stmts)
		obs.runSteps(h, ref, p.Texts, p.Post)
	}
	preps := pool.snapshot()
	obs.Dup, obs.NTexts, obs.MaxLen = c14tDups(preps)
	obs.NPreps = len(preps)
	pdb.Close()
	all := pool.snapshot()
	c14mDrain(func() bool { return c14mUnclosed(all) == 0 && atomic.LoadInt64(&rec.Stmts) == 0 })
	obs.OpenAtClose, obs.DrvAtClose = c14mUnclosed(all), atomic.LoadInt64(&rec.Stmts)
	// after Close: EVERY text of the program, and one the cache never saw
	after := append(append([]c14tText(nil), p.Texts...), c14tText{Kind: "pad", Len: 40, N: 1}, c14tText{Kind: "pad", Len: 5000, N: 0})
	for i, t := range after {
		n0 := len(pool.snapshot())
		_, err := c14tUse(h, t, 3)
		var pe c14tPanic
		switch {
		case errors.As(err, &pe) && t.usesRow() && strings.Contains(pe.what, "nil pointer dereference") && len(pool.snapshot()) == n0:
			// F14f: QueryRowContext drops prepare's ErrInvalidDB and returns the empty *sql.Row; Scan dereferences nil
			obs.RowPanics = append(obs.RowPanics, fmt.Sprintf("text %d %+v: Row().Scan through the closed cache: %v", i, t, err))
		case errors.As(err, &pe):
			obs.AfterClose = append(obs.AfterClose, fmt.Sprintf("text %d %+v through the closed cache: %v", i, t, err))
		case err == nil:
			obs.AfterClose = append(obs.AfterClose, fmt.Sprintf("text %d %+v: executed through the closed cache", i, t))
		case len(pool.snapshot()) != n0:
			obs.AfterClose = append(obs.AfterClose, fmt.Sprintf("text %d %+v: a PrepareContext reached the pool through the closed cache (%v)", i, t, err))
		case errors.Is(err, gorm.ErrInvalidDB):
			obs.InvalidDB++
		}
	}
	if n := atomic.LoadInt64(&rec.Stmts); n != 0 && obs.DrvAtClose == 0 {
		obs.DrvAtClose = n
		obs.AfterClose = append(obs.AfterClose, fmt.Sprintf("%d driver statements opened by uses of the closed cache", n))
	}
	return obs
}

func c14tJudge(o *c14tObs) []c14Verdict {
	var out []c14Verdict
	if o.Panic != "" {
		out = append(out, c14Verdict{"result", "panic: " + o.Panic, ""})
	}
	if len(o.Mismatch) > 0 {
		out = append(out, c14Verdict{"result", strings.Join(o.Mismatch, "; "), ""})
	}
	if len(o.Dup) > 0 {
		out = append(out, c14Verdict{"prepares", strings.Join(o.Dup, "; "), ""})
	}
	if o.OpenAtReset > 0 || o.DrvAtReset != 0 {
		out = append(out, c14Verdict{"leak", fmt.Sprintf("after Reset + drain: %d pool statements unclosed, %d driver statements open", o.OpenAtReset, o.DrvAtReset), ""})
	}
	if o.OpenAtClose > 0 || o.DrvAtClose != 0 {
		out = append(out, c14Verdict{"leak", fmt.Sprintf("after Close + drain: %d pool statements unclosed, %d driver statements open", o.OpenAtClose, o.DrvAtClose), ""})
	}
	if len(o.AfterClose) > 0 {
		out = append(out, c14Verdict{"closed", strings.Join(o.AfterClose, "; "), ""})
	}
	if len(o.RowPanics) > 0 {
		out = append(out, c14Verdict{"closed", strings.Join(o.RowPanics, "; "), c14tF14f})
	}
	return out
}

const c14tF14f = "F14f-C14-row-drops-prepare-error"

// c14tRowProbe re-confirms F14f on the real code (witnesses of C14_row_error_dropped_counterexample): Row() through a
// closed cache, and Row() for a text whose preparation fails — outside and inside a transaction; the non-prepared
// reference answers Scan with an error each time.
func c14tRowProbe(r *Result) {
	type wit struct {
		name   string
		closed bool
		tx     bool
		sql    string
	}
	for _, wt := range []wit{
		{"Row() after Close", true, false, "select count(*) from c14m_rows"},
		{"Row() of a text whose preparation fails", false, false, "select nothing from"},
		{"Row() of a text whose preparation fails, inside a transaction", false, true, "select nothing from"},
	} {
		run := func(prepared bool) (res string) {
			db, _, _, sqlDB := c14mOpen(&gorm.Config{PrepareStmt: prepared}, true)
			defer sqlDB.Close()
			defer func() {
				if x := recover(); x != nil {
					res = fmt.Sprintf("panic: %v", x)
				}
			}()
			if _, pdb := c14mPoolOf(db); pdb != nil && wt.closed {
				pdb.Close()
			}
			scan := func(d *gorm.DB) string {
				var n int64
				if err := d.Raw(wt.sql).Row().Scan(&n); err != nil {
					return "error"
				}
				return "row"
			}
			if wt.tx {
				_ = db.Transaction(func(tx *gorm.DB) error { res = scan(tx); return nil })
				return res
			}
			return scan(db)
		}
		got, ref := run(true), run(false)
		in := map[string]interface{}{"probe": "row-error", "witness": wt.name, "sql": wt.sql}
		r.Case("texts", "row-probe:"+wt.name, true)
		r.H("c14.texts.row-probe", wt.name+": "+strings.SplitN(got, ":", 2)[0])
		clean := got == "error" && (wt.closed || ref == "error")
		switch {
		case clean:
			if listed(c14tF14f) {
				r.Note("F14f not reproduced by %q: prepared mode answers %s", wt.name, got)
			}
		case strings.HasPrefix(got, "panic:") && strings.Contains(got, "nil pointer dereference") && listed(c14tF14f):
			r.KnownFinding(c14tF14f, fmt.Sprintf("gorm API: %s (%q) in prepared-statement mode: Scan %s; non-prepared mode: %s", wt.name, wt.sql, got, ref))
		default:
			r.Violate(Violation{Kind: "e2e", Suite: "texts", Input: in, Observed: fmt.Sprintf("prepared mode: %s; non-prepared mode: %s", got, ref),
				Expected: "Row().Scan answers with a clean error (closed cache) / with the preparation error non-prepared mode returns"})
		}
	}
}

// ---- generator ----

var c14tLens = []int{20, 64, 255, 256, 257, 1023, 1024, 1025, 2048, 4096, 4097, 65535, 65536, 65537}
var c14tArgs = []int{0, 1, 2, 100, 999, 1000}
var c14tIns = []int{1, 3, 40, 300, 500, 800}
var c14tRows = []int{1, 3, 60, 100, 170, 250, 500}

func c14tGenText(rng *rand.Rand) c14tText {
	switch k := rng.Intn(20); {
	case k < 7:
		return c14tText{Kind: "pad", Len: c14tLens[rng.Intn(len(c14tLens))], N: rng.Intn(2)}
	case k < 10:
		n := c14tArgs[rng.Intn(len(c14tArgs))]
		if rng.Intn(25) == 0 {
			n = 32766
		}
		v := 0
		if rng.Intn(4) == 0 {
			v = 1 // through DB.Row(): after Close this is the listed pattern F14f — kept rare
		}
		return c14tText{Kind: "args", N: n, Var: v}
	case k < 13:
		return c14tText{Kind: "in", N: c14tIns[rng.Intn(len(c14tIns))], Var: rng.Intn(2)}
	case k < 15:
		return c14tText{Kind: "batch", N: c14tRows[rng.Intn(len(c14tRows))]}
	case k < 16:
		n := c14tRows[1+rng.Intn(len(c14tRows)-1)]
		return c14tText{Kind: "batches", N: n, Len: 1 + n*2/3}
	}
	return c14tText{Kind: "spell", Var: rng.Intn(len(c14tSpell))}
}

func c14tGenSteps(rng *rand.Rand, nTexts, n int, many bool) []c14tStep {
	var out []c14tStep
	for i := 0; i < n; i++ {
		mode := []string{"seq", "seq", "burst", "tx"}[rng.Intn(4)]
		reps := 1 + rng.Intn(3)
		if mode == "burst" {
			reps = 2 + rng.Intn(5)
		}
		out = append(out, c14tStep{Text: rng.Intn(nTexts), Mode: mode, Reps: reps})
	}
	if many {
		at := rng.Intn(len(out) + 1)
		m := c14tStep{Mode: "many", Reps: []int{2, 30, 100, 300}[rng.Intn(4)]}
		out = append(out[:at], append([]c14tStep{m}, out[at:]...)...)
	}
	return out
}

func c14tGenProg(rng *rand.Rand) c14tProg {
	p := c14tProg{Prepare: rng.Intn(3) > 0, SkipDefTx: rng.Intn(2) == 0, Reset: rng.Intn(2) == 0}
	nt := 1 + rng.Intn(4)
	if rng.Intn(5) == 0 {
		// spellings together: the keys must stay apart
		for i := 0; i < 4; i++ {
			p.Texts = append(p.Texts, c14tText{Kind: "spell", Var: rng.Intn(len(c14tSpell))})
		}
	}
	for i := 0; i < nt; i++ {
		p.Texts = append(p.Texts, c14tGenText(rng))
	}
	p.Steps = c14tGenSteps(rng, len(p.Texts), 2+rng.Intn(5), rng.Intn(4) == 0)
	if p.Reset {
		p.Post = c14tGenSteps(rng, len(p.Texts), 1+rng.Intn(4), rng.Intn(6) == 0)
	}
	return p
}

func c14tReport(r *Result, p c14tProg, o *c14tObs) {
	for _, v := range c14tJudge(o) {
		if v.Finding != "" && listed(v.Finding) {
			r.KnownFinding(v.Finding, v.Detail)
			continue
		}
		r.Violate(Violation{Kind: "e2e", Suite: "texts", Input: p, Observed: v.Detail, Expected: "C14: " + v.What + " oracle (the cache sentences hold for every statement text alike)", Note: fmt.Sprintf("longest text %d bytes, %d distinct texts, %d PrepareContext calls", o.MaxLen, o.NTexts, o.NPreps)})
	}
}

func c14tLenBucket(n int) string {
	for _, b := range []int{256, 1024, 4096, 65536} {
		if n < b {
			return fmt.Sprintf("<%d", b)
		}
	}
	return ">=65536"
}

func c14tCountBucket(n int) string {
	for _, b := range []int{3, 10, 50, 200} {
		if n < b {
			return fmt.Sprintf("<%d", b)
		}
	}
	return ">=200"
}

func c14tSuite(r *Result, rng *rand.Rand, n int, budget time.Duration) {
	t0 := time.Now()
	bad := 0
	for i := 0; i < n && !expired() && time.Since(t0) < budget; i++ {
		if bad >= 3 {
			r.Note("texts suite: %d violating programs, the remaining programs are skipped", bad)
			return
		}
		p := c14tGenProg(rng)
		var o *c14tObs
		if !c14Bounded(c14GormTimeout(), func() { o = c14tRunProg(p) }) {
			r.Violate(Violation{Kind: "e2e", Suite: "texts", Input: p, Observed: "the program did not finish (goroutines blocked inside the prepared-statement cache)", Expected: "no deadlock"})
			return
		}
		r.Case("texts", canon(p), o.NTexts >= 2 && o.NPreps >= 2)
		r.H("c14.texts.longest", c14tLenBucket(o.MaxLen))
		r.H("c14.texts.distinct", c14tCountBucket(o.NTexts))
		r.H("c14.texts.reset", fmt.Sprint(p.Reset))
		r.H("c14.texts.open", fmt.Sprintf("PrepareStmt=%v skipDefTx=%v", p.Prepare, p.SkipDefTx))
		r.H("c14.texts.invalidDB-after-close", fmt.Sprintf("%d of %d", o.InvalidDB, len(p.Texts)+2))
		for _, t := range p.Texts {
			k := t.Kind
			switch t.Kind {
			case "pad":
				k = fmt.Sprintf("pad len=%d", t.Len)
			case "args", "in", "batch", "batches":
				k = fmt.Sprintf("%s n=%d", t.Kind, t.N)
			}
			r.H("c14.texts.text", k)
		}
		for _, s := range append(append([]c14tStep(nil), p.Steps...), p.Post...) {
			r.H("c14.texts.step", s.Mode)
		}
		if i%25 == 0 {
			r.Sample(map[string]interface{}{"suite": "texts", "prog": p, "obs": o})
		}
		c14tReport(r, p, o)
		for _, v := range c14tJudge(o) {
			if v.Finding == "" || !listed(v.Finding) {
				bad++
				break
			}
		}
	}
}

func init() {
	replayers["C14/texts"] = func(r *Result, input json.RawMessage) {
		var probe struct {
			Probe string `json:"probe"`
		}
		if json.Unmarshal(input, &probe) == nil && probe.Probe == "row-error" {
			c14tRowProbe(r)
			return
		}
		var p c14tProg
		if json.Unmarshal(input, &p) != nil {
			return
		}
		for k := 0; k < 3; k++ { // bursts are free-running: a few attempts
			o := c14tRunProg(p)
			if len(c14tJudge(o)) > 0 {
				c14tReport(r, p, o)
				return
			}
		}
	}
	register("C14", func(r *Result, rng *rand.Rand, tier string) {
		n, budget := 400, 6*time.Second
		if tier == "thorough" {
			n, budget = 6000, 90*time.Second
		} else if tier == "search" {
			n, budget = 2000, 30*time.Second
		}
		c14tRowProbe(r)
		c14tSuite(r, rng, n, budget)
	})
}
