package main

// C20: generator of model histories (grammar of field kinds x tags, relations with constraints, v2 = v1 + additions).

import (
	"fmt"
	"math/rand"
	"strings"
)

var c20ScalarKinds = []string{"int", "int64", "int32", "int8", "uint", "uint8", "uint32", "float64", "float32", "string", "string", "string",
	"bool", "time", "bytes", "pstring", "pint", "ptime", "nullstr", "nullint"}

func c20Class(kind string) string {
	switch kind {
	case "int", "int64", "int32", "int8", "pint", "nullint":
		return "int"
	case "uint", "uint8", "uint32":
		return "uint"
	case "float64", "float32":
		return "float"
	case "string", "pstring", "nullstr":
		return "string"
	case "bool":
		return "bool"
	case "time", "ptime":
		return "time"
	case "bytes":
		return "bytes"
	}
	return kind
}

// c20Excluded: tag combinations that SQLite (through gorm.io/driver/sqlite's DDL text parser) cannot reflect, or that
// SQLite's ALTER TABLE ADD COLUMN cannot execute.  They are never generated; the list is printed in the evidence.
var c20Excluded = []string{
	"added (v2) field with `not null` and no non-NULL default: SQLite rejects ALTER TABLE ADD COLUMN NOT NULL without default",
	"added (v2) field that is primaryKey/autoIncrement: SQLite cannot add a PRIMARY KEY column",
	"added (v2) unique / uniqueIndex on bool columns or a check the existing rows violate: the data legitimately forbids it",
	"added (v2) field with default CURRENT_TIMESTAMP: SQLite rejects ADD COLUMN with a non-constant default",
	"`type:T(N)` together with `size:M` (contradictory: the column is T(N), gorm compares N with M and alters on every run)",
	"`type:` with a digit group on a numeric Go kind (decimal(10,2) on float64 …): the SQLite dialector's DDL parser reports the first digit group as the column LENGTH, which MigrateColumn compares with the Go bit size (64/32); SQLite cannot reflect a precision",
	"added (v2) field carrying both a default and unique/uniqueIndex: every existing row receives the same default, the data forbids the index",
	"`-:migration` fields: the user tells gorm NOT to create the column, so a record of the model cannot be stored afterwards by design (and an index tag on such a field makes AutoMigrate fail with `no such column`: contradictory tags)",
	"comment tag as a judged feature: SQLite has no column comments (ColumnType.Comment() reports ok=false); generated but nothing to reflect",
	"Config.PrepareStmt as a configuration of the history: gorm.io/driver/sqlite's ColumnTypes reads the column list through the cached prepared `SELECT * FROM t LIMIT 1`, whose result columns stay those of the first preparation; a further AutoMigrate in the same process then re-adds a column it added before (`duplicate column name`, reproduced on the unchanged tree; driver + database/sql statement cache, outside the migrator code in scope)",
}

type c20Gen struct {
	rng   *rand.Rand
	feat  map[string]bool
	tricky bool // allow the default spellings listed as known finding patterns
	qual   bool // the table name is schema-qualified (findings are not combined: F33 shapes only on unqualified tables)
}

func (g *c20Gen) f(s string) { g.feat[s] = true }

func (g *c20Gen) pick(xs ...string) string { return xs[g.rng.Intn(len(xs))] }

// defaults that round-trip textually through `DEFAULT <x>` and the driver's DDL parser
func (g *c20Gen) defaultFor(class string, added bool) string {
	switch class {
	case "int":
		if g.tricky && g.rng.Intn(3) == 0 {
			return g.pick("007", "+5", "0x10")
		}
		return g.pick("0", "18", "-3", "42")
	case "uint":
		if g.tricky && g.rng.Intn(3) == 0 {
			return g.pick("007", "0x10")
		}
		return g.pick("0", "18", "7")
	case "float":
		if g.tricky && g.rng.Intn(3) == 0 {
			return g.pick("1.50", "2.0", "1e2")
		}
		return g.pick("0", "1.5", "2", "-0.25")
	case "string":
		if g.tricky && g.rng.Intn(3) == 0 {
			return g.pick("'it''s'", "a b", "x)y")
		}
		return g.pick("hello", "'quoted'", "abc-1", "''", "x_y")
	case "bool":
		return g.pick("true", "false", "1", "0")
	case "time":
		if added {
			return "'2020-01-02 03:04:05'"
		}
		return g.pick("CURRENT_TIMESTAMP", "'2020-01-02 03:04:05'")
	}
	return ""
}

func c20ColName(name, tag string) string {
	for _, p := range strings.Split(tag, ";") {
		if strings.HasPrefix(p, "column:") {
			return p[len("column:"):]
		}
	}
	// NamingStrategy.ColumnName for the simple CamelCase names the generator uses
	var sb strings.Builder
	for i, c := range name {
		if c >= 'A' && c <= 'Z' {
			if i > 0 && !(name[i-1] >= 'A' && name[i-1] <= 'Z') {
				sb.WriteByte('_')
			}
			sb.WriteRune(c + 32)
		} else {
			sb.WriteRune(c)
		}
	}
	return sb.String()
}

func (g *c20Gen) checkFor(class, col string, named bool, name string) string {
	var e string
	switch class {
	case "int", "uint", "float":
		e = g.pick(col+" > -1000", col+" >= -5 AND "+col+" < 100000000", col+" <> -77", col+" <> -77")
	case "string":
		e = g.pick("length("+col+") >= 0", col+" <> 'forbidden'", col+" <> 'a,b'")
	default:
		e = col + " IS NOT NULL OR " + col + " IS NULL"
	}
	if named {
		return "check:chk_" + strings.ToLower(name) + "," + e
	}
	return "check:" + e
}

// scalarField generates one scalar field with a random tag subset. added = field is new in v2.
func (g *c20Gen) scalarField(name string, added bool, ver string) c20Field {
	kind := c20ScalarKinds[g.rng.Intn(len(c20ScalarKinds))]
	class := c20Class(kind)
	var tags []string
	if g.rng.Intn(3) == 0 { // column name != snake_case(field name): every name derived from the field must use DBName
		switch g.rng.Intn(4) {
		case 0:
			tags = append(tags, "column:c_"+strings.ToLower(name))
		case 1:
			tags = append(tags, "column:ext_"+strings.ToLower(name)+"_ref")
		case 2:
			tags = append(tags, "column:"+strings.ToLower(name)+"x")
		case 3:
			tags = append(tags, "column:Col"+name) // mixed case column
		}
		g.f(ver + ":column")
	}
	col := c20ColName(name, strings.Join(tags, ";"))
	hasDefault := false
	if class != "bytes" && g.rng.Intn(3) == 0 {
		tags = append(tags, "default:"+g.defaultFor(class, added))
		hasDefault = true
		g.f(ver + ":default:" + class)
	}
	if g.rng.Intn(4) == 0 && (!added || hasDefault) {
		tags = append(tags, g.pick("not null", "NOT NULL"))
		g.f(ver + ":notnull")
	}
	if (class == "string" || class == "bytes") && g.rng.Intn(3) == 0 {
		tags = append(tags, "size:"+g.pick("10", "64", "255", "1000"))
		g.f(ver + ":size")
	}
	sized := false
	for _, t := range tags {
		sized = sized || strings.HasPrefix(t, "size:")
	}
	if class == "string" && g.rng.Intn(8) == 0 && !sized {
		tags = append(tags, "type:"+g.pick("varchar(20)", "VARCHAR(64)", "char(8)", "text"))
		g.f(ver + ":type")
	}
	if class == "float" && g.rng.Intn(5) == 0 {
		tags = append(tags, g.pick("precision:10;scale:2", "precision:8", "type:double", "type:REAL"))
		g.f(ver + ":precision")
	}
	if class == "int" && g.rng.Intn(10) == 0 {
		tags = append(tags, "type:"+g.pick("bigint", "smallint", "INTEGER"))
		g.f(ver + ":type")
	}
	if class != "bool" && g.rng.Intn(7) == 0 && !(added && hasDefault) {
		tags = append(tags, "unique")
		g.f(ver + ":unique")
	}
	switch g.rng.Intn(10) {
	case 0:
		tags = append(tags, "index")
		g.f(ver + ":index")
	case 1:
		if class != "bool" && !(added && hasDefault) {
			tags = append(tags, "uniqueIndex")
			g.f(ver + ":uniqueIndex")
		}
	case 2:
		tags = append(tags, "index:idx_"+strings.ToLower(name)+"_named,sort:desc")
		g.f(ver + ":index-named")
	case 4:
		if class != "bool" && !(added && hasDefault) {
			u := "uidx_pair"
			if added {
				u = "uidx_pair_new"
			}
			tags = append(tags, fmt.Sprintf("uniqueIndex:%s,priority:%d", u, 1+g.rng.Intn(3)))
			g.f(ver + ":uniqueIndex-composite")
		}
	case 3:
		comp := "idx_comp"
		if added { // joining an index name v1 already has would CHANGE that index (left alone by design), not add one
			comp = "idx_comp_new"
		}
		tags = append(tags, fmt.Sprintf("index:%s,priority:%d", comp, 1+g.rng.Intn(4)))
		g.f(ver + ":index-composite")
	}
	if g.rng.Intn(7) == 0 {
		tags = append(tags, g.checkFor(class, col, g.rng.Intn(2) == 0, name))
		g.f(ver + ":check")
	}
	if g.rng.Intn(12) == 0 {
		tags = append(tags, "comment:note about "+strings.ToLower(name))
		g.f(ver + ":comment")
	}
	if g.rng.Intn(25) == 0 {
		tags = append(tags, "<-:create")
		g.f(ver + ":permission")
	}
	return c20Field{Name: name, Kind: kind, Tag: strings.Join(tags, ";")}
}

func (g *c20Gen) relation(ver string, have map[string]bool, idPK bool) []c20Field {
	var opts []string
	for _, k := range []string{"owner", "powner", "org", "audit", "stamp"} {
		if !have[k] && !(k == "powner" && have["owner"]) && !(k == "owner" && have["powner"]) {
			opts = append(opts, k)
		}
	}
	if idPK {
		for _, k := range []string{"toys", "badge", "tags", "pics"} {
			if !have[k] {
				opts = append(opts, k)
			}
		}
	}
	if len(opts) == 0 {
		return nil
	}
	k := opts[g.rng.Intn(len(opts))]
	have[k] = true
	g.f(ver + ":rel:" + k)
	cons := g.pick("", "", "constraint:OnDelete:CASCADE", "constraint:OnUpdate:CASCADE,OnDelete:SET NULL", "constraint:fk_gen_custom_"+k+",OnDelete:CASCADE", "constraint:-")
	if cons != "" {
		g.f(ver + ":constraint-tag")
	}
	join := func(a, b string) string {
		if a == "" {
			return b
		}
		if b == "" {
			return a
		}
		return a + ";" + b
	}
	switch k {
	case "owner":
		return []c20Field{{Name: "OwnerID", Kind: g.pick("uint", "uint", "pint"), Tag: g.pick("", "", "column:own_ref")}, {Name: "Owner", Kind: "owner", Tag: cons}}
	case "powner":
		return []c20Field{{Name: "OwnerID", Kind: "uint", Tag: g.pick("", "index", "column:holder;index", "column:OwnRef")}, {Name: "Owner", Kind: "powner", Tag: cons}}
	case "org":
		return []c20Field{{Name: "OrgCode", Kind: "string", Tag: g.pick("", "size:20", "column:org_ref;size:20")}, {Name: "Org", Kind: "org", Tag: join("foreignKey:OrgCode;references:Code", cons)}}
	case "stamp":
		return []c20Field{{Name: "Stamp", Kind: "stamp", Tag: g.pick("embedded", "embedded;embeddedPrefix:s_", "embedded;embeddedPrefix:st")}}
	case "toys":
		return []c20Field{{Name: "Toys", Kind: "toys", Tag: join("foreignKey:GenID", cons)}}
	case "badge":
		return []c20Field{{Name: "Badge", Kind: "badge", Tag: join("foreignKey:GenID", cons)}}
	case "tags":
		// (joinForeignKey spelled out: the generated struct type has no name, the default join column would be a bare `id`)
		return []c20Field{{Name: "Tags", Kind: "tags", Tag: join("many2many:gen_tags;joinForeignKey:GenRef", cons)}}
	case "pics":
		return []c20Field{{Name: "Pics", Kind: "pics", Tag: join("polymorphic:Host", cons)}}
	case "audit":
		return []c20Field{{Name: "Audit", Kind: "audit", Tag: g.pick("embedded", "embedded;embeddedPrefix:a_")}}
	}
	return nil
}

func c20HasTag(tag, key string) bool {
	for _, p := range strings.Split(tag, ";") {
		p = strings.ToLower(strings.TrimSpace(p))
		if p == key || strings.HasPrefix(p, key+":") {
			return true
		}
	}
	return false
}

func c20AddTag(tag, add string) string {
	if tag == "" {
		return add
	}
	return tag + ";" + add
}

// genSpec generates one history. tricky=true lets the generator use the spellings covered by listed findings.
func c20GenSpec(rng *rand.Rand, tricky bool) c20Spec {
	g := &c20Gen{rng: rng, feat: map[string]bool{}, tricky: tricky}
	sp := c20Spec{Table: "gen_items", Rows: 2 + rng.Intn(3)}
	idPK := false
	hasGModel := false
	qual := rng.Intn(4) == 0 // schema-qualified table name (c20_cols.go)
	if qual {
		g.qual = true
		sp.Qual = "main"
		g.f("table:qualified-main")
	}
	switch rng.Intn(9) {
	case 8:
		sp.V1 = append(sp.V1, c20Field{Name: "Model", Kind: "gmodel", Anon: true})
		hasGModel = true
		g.f("pk:gorm.Model")
	case 0, 1, 2:
		sp.V1 = append(sp.V1, c20Field{Name: "ID", Kind: "uint"})
		idPK = true
		g.f("pk:implicit-id")
	case 3:
		sp.V1 = append(sp.V1, c20Field{Name: "ID", Kind: "uint", Tag: "primaryKey;autoIncrement"})
		idPK = true
		g.f("pk:autoIncrement")
	case 4:
		sp.V1 = append(sp.V1, c20Field{Name: "Code", Kind: "string", Tag: "primaryKey;size:40"})
		g.f("pk:string")
	case 5:
		sp.V1 = append(sp.V1, c20Field{Name: "KA", Kind: "uint", Tag: "primaryKey;autoIncrement:false"}, c20Field{Name: "KB", Kind: "string", Tag: "primaryKey"})
		g.f("pk:composite")
	case 6:
		sp.V1 = append(sp.V1, c20Field{Name: "ID", Kind: "int64", Tag: "primaryKey"})
		g.f("pk:int64")
	case 7:
		sp.V1 = append(sp.V1, c20Field{Name: "ID", Kind: "uint", Tag: "primaryKey;column:item_id"})
		g.f("pk:renamed")
	}
	n := 1 + rng.Intn(5)
	for i := 0; i < n; i++ {
		sp.V1 = append(sp.V1, g.scalarField(fmt.Sprintf("F%c", 'A'+i), false, "v1"))
	}
	have := map[string]bool{}
	// several struct fields -> one column (c20_cols.go)
	if rng.Intn(4) == 0 || (hasGModel && rng.Intn(2) == 0) {
		sp.V1 = append(sp.V1, g.collide("v1", hasGModel, have)...)
	}
	if tricky && rng.Intn(3) == 0 { // F34: numeric kind + type tag with a digit group
		k := g.pick("int", "int64", "float64", "uint")
		t := map[string]string{"int": "type:int(11)", "int64": "type:bigint(20)", "float64": "type:decimal(10,2)", "uint": "type:int(10)"}[k]
		sp.V1 = append(sp.V1, c20Field{Name: "FN", Kind: k, Tag: t})
		g.f("v1:type-digit-group")
	}
	// (a foreign key INTO a qualified table cannot be written in SQLite: no has-one / has-many / many2many on a qualified hub)
	idPK = idPK && !qual
	for rng.Intn(3) == 0 {
		sp.V1 = append(sp.V1, g.relation("v1", have, idPK)...)
	}
	// ---- v2 = v1 + additions
	// (tags are only ever added to fields that OWN their column: a tag on a field that lost its column is either ignored or
	// lands on the owner's column through ParseIndexes — a change of the owner's declaration, not an addition; c20_cols.go)
	lost := c20Losers(sp.V1)
	sp.V2 = append([]c20Field(nil), sp.V1...)
	adds := 1 + rng.Intn(3)
	for a := 0; a < adds; a++ {
		switch rng.Intn(10) {
		case 9: // a shadowed PAIR added together: embedded struct + own field over one of its columns
			if pair := g.addedPair(have); pair != nil {
				sp.V2 = append(sp.V2, pair...)
			} else {
				sp.V2 = append(sp.V2, g.scalarField(fmt.Sprintf("N%c", 'A'+a), true, "v2add"))
				g.f("v2:add-field")
			}
		case 0, 1:
			sp.V2 = append(sp.V2, g.scalarField(fmt.Sprintf("N%c", 'A'+a), true, "v2add"))
			g.f("v2:add-field")
		case 2: // index on an existing scalar field
			for tries := 0; tries < 6; tries++ {
				i := rng.Intn(len(sp.V1))
				f := sp.V2[i]
				if lost[f.Name] != "" || c20IsRel(f.Kind) || c20Embeds(f.Kind) || f.Kind == "audit" || f.Kind == "stamp" || c20HasTag(f.Tag, "index") || c20HasTag(f.Tag, "uniqueindex") || c20HasTag(f.Tag, "-") {
					continue
				}
				if f.Kind != "bool" && rng.Intn(2) == 0 {
					sp.V2[i].Tag = c20AddTag(f.Tag, "uniqueIndex")
					g.f("v2:add-uniqueIndex")
				} else {
					sp.V2[i].Tag = c20AddTag(f.Tag, g.pick("index", "index:idx_added,priority:2"))
					g.f("v2:add-index")
				}
				break
			}
		case 3: // check on an existing scalar field
			for tries := 0; tries < 6; tries++ {
				i := rng.Intn(len(sp.V1))
				f := sp.V2[i]
				if lost[f.Name] != "" || c20IsRel(f.Kind) || c20Embeds(f.Kind) || f.Kind == "audit" || f.Kind == "stamp" || c20HasTag(f.Tag, "check") || c20HasTag(f.Tag, "-") {
					continue
				}
				sp.V2[i].Tag = c20AddTag(f.Tag, g.checkFor(c20Class(f.Kind), c20ColName(f.Name, f.Tag), rng.Intn(2) == 0, f.Name))
				g.f("v2:add-check")
				break
			}
		case 4: // unique constraint on an existing scalar field
			for tries := 0; tries < 6; tries++ {
				i := rng.Intn(len(sp.V1))
				f := sp.V2[i]
				if lost[f.Name] != "" || c20IsRel(f.Kind) || c20Embeds(f.Kind) || f.Kind == "audit" || f.Kind == "stamp" || f.Kind == "bool" || c20HasTag(f.Tag, "unique") || c20HasTag(f.Tag, "primarykey") || c20HasTag(f.Tag, "-") || f.Name == "ID" {
					continue
				}
				sp.V2[i].Tag = c20AddTag(f.Tag, "unique")
				g.f("v2:add-unique")
				break
			}
		case 7, 8: // a constraint / index added to an EXISTING field whose column is renamed (name derivations must agree)
			var cand []int
			for i, f := range sp.V1 {
				if lost[f.Name] == "" && !c20IsRel(f.Kind) && !c20Embeds(f.Kind) && f.Kind != "audit" && f.Kind != "stamp" && f.Kind != "bool" && c20HasTag(f.Tag, "column") && !c20HasTag(f.Tag, "primarykey") && f.Name != "ID" {
					cand = append(cand, i)
				}
			}
			if len(cand) == 0 {
				sp.V2 = append(sp.V2, g.scalarField(fmt.Sprintf("N%c", 'A'+a), true, "v2add"))
				g.f("v2:add-field")
				break
			}
			i := cand[rng.Intn(len(cand))]
			f := sp.V2[i]
			switch k := rng.Intn(4); {
			case k == 0 && !c20HasTag(f.Tag, "unique"):
				sp.V2[i].Tag = c20AddTag(f.Tag, "unique")
				g.f("v2:add-unique-renamed")
			case k == 1 && !c20HasTag(f.Tag, "uniqueindex") && !c20HasTag(f.Tag, "index"):
				sp.V2[i].Tag = c20AddTag(f.Tag, g.pick("uniqueIndex", "index", "uniqueIndex:uidx_ren_"+strings.ToLower(f.Name)))
				g.f("v2:add-index-renamed")
			case k == 2 && !c20HasTag(f.Tag, "check"):
				sp.V2[i].Tag = c20AddTag(f.Tag, g.checkFor(c20Class(f.Kind), c20ColName(f.Name, f.Tag), rng.Intn(2) == 0, f.Name))
				g.f("v2:add-check-renamed")
			default:
				if !c20HasTag(f.Tag, "unique") {
					sp.V2[i].Tag = c20AddTag(f.Tag, "unique")
					g.f("v2:add-unique-renamed")
				}
			}
		case 5, 6:
			if rel := g.relation("v2add", have, idPK); rel != nil {
				sp.V2 = append(sp.V2, rel...)
				g.f("v2:add-relation")
			} else {
				sp.V2 = append(sp.V2, g.scalarField(fmt.Sprintf("N%c", 'A'+a), true, "v2add"))
				g.f("v2:add-field")
			}
		}
	}
	// ---- configuration and the value lists of the two AutoMigrate calls (c20_opts.go)
	if rng.Intn(2) == 0 {
		sp.Cfg = c20GenCfg(rng)
	}
	extras := func(fs []c20Field) []string {
		var ks []string
		for _, f := range fs {
			if c20IsRel(f.Kind) && rng.Intn(2) == 0 {
				ks = append(ks, f.Kind)
			}
		}
		if len(ks) == 0 && rng.Intn(3) > 0 {
			return nil // the model alone
		}
		ks = append(ks, "hub")
		rng.Shuffle(len(ks), func(i, j int) { ks[i], ks[j] = ks[j], ks[i] })
		return ks
	}
	if rng.Intn(2) == 0 {
		sp.Extra1 = extras(sp.V1)
	}
	if rng.Intn(2) == 0 {
		sp.Extra2 = extras(sp.V2)
	}
	// generator artefacts avoided (not judged): (1) check expressions spell snake_case column names, so naming strategies that
	// change COLUMN names are not combined with check tags; (2) gorm copies the tag settings of the owner's key field onto the
	// join table's reference column (schema/relationship.go buildMany2ManyRelation removes only column/autoincrement/index/unique),
	// so a `check:` on a primary key naming its own column cannot be created on the join table (`no such column`, unchanged
	// tree): key fields of models with a many2many relation carry no check tag.
	stripCheck := func(fs []c20Field, only func(f c20Field) bool) {
		for i, f := range fs {
			if !only(f) || !c20HasTag(f.Tag, "check") {
				continue
			}
			var keep []string
			for _, p := range strings.Split(f.Tag, ";") {
				if !strings.HasPrefix(strings.ToLower(strings.TrimSpace(p)), "check:") {
					keep = append(keep, p)
				}
			}
			fs[i].Tag = strings.Join(keep, ";")
		}
	}
	hasTags, hasCheck := false, false
	for _, f := range sp.V2 {
		hasTags = hasTags || f.Kind == "tags"
		hasCheck = hasCheck || c20HasTag(f.Tag, "check")
	}
	if hasTags {
		isKey := func(f c20Field) bool { return f.Name == "ID" || c20HasTag(f.Tag, "primarykey") }
		stripCheck(sp.V1, isKey)
		stripCheck(sp.V2, isKey)
	}
	if sp.Cfg != nil && hasCheck && (sp.Cfg.Naming == "nolower" || sp.Cfg.Naming == "mixed") {
		sp.Cfg.Naming = "prefix"
	}
	// handles that name the table themselves: only for models without relations (c20_cols.go)
	anyRel := false
	for _, f := range sp.V2 {
		anyRel = anyRel || c20IsRel(f.Kind)
	}
	if !anyRel && rng.Intn(5) == 0 {
		c := sp.Cfg.get()
		c.Handle = []string{"table", "qtable", "scopes"}[rng.Intn(3)]
		sp.Cfg = &c
		// (the handle's name is the table name the schema is parsed under; the oracle asks gorm about the model through the plain
		// handle, so the naming strategy must answer the same bare name)
		sp.Qual = ""
	}
	if sp.Qual != "" && !tricky { // F31: a `unique` that has to be ADDED on a qualified table (listed; probed on its witness)
		old := map[string]string{}
		for _, f := range sp.V1 {
			old[f.Name] = f.Tag
		}
		for i, f := range sp.V2 {
			if t, was := old[f.Name]; c20HasTag(f.Tag, "unique") && (!was || !c20HasTag(t, "unique")) {
				sp.V2[i].Tag = c20StripTag(f.Tag, c20IsUniquePart)
			}
		}
		var keep []c20Field
		for _, f := range sp.V2 { // (C20Stamp.Serial is `unique`: an embedded stamp added in v2 is an added unique, too)
			if _, was := old[f.Name]; f.Kind == "stamp" && !was {
				continue
			}
			keep = append(keep, f)
		}
		sp.V2 = keep
	}
	if sp.Cfg != nil {
		g.f("cfg:" + sp.Cfg.String())
	}
	if len(sp.Extra1)+len(sp.Extra2) > 0 {
		g.f("call:explicit-relatives")
	}
	for k := range g.feat {
		sp.Feat = append(sp.Feat, k)
	}
	sortStrings(sp.Feat)
	return sp
}

func sortStrings(s []string) {
	for i := 1; i < len(s); i++ {
		for j := i; j > 0 && s[j] < s[j-1]; j-- {
			s[j], s[j-1] = s[j-1], s[j]
		}
	}
}
