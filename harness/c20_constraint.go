package main

// C20 correspondence suites added while strengthening:
//   mig.constraint — the REAL (*schema.Relationship).ParseConstraint against Lean `Gorm.Mig.parseConstraint`
//       (a) on every relation of every schema of the named family library of c20_rel.go (both versions, join tables and
//           the has-one/has-many back references gorm registers in the child schema included), parsed by schema.Parse;
//       (b) on generated relation graphs: real parsed schemas (so the namer is the real one) whose relation objects are
//           built by hand — relation type, 0..3 references with primary key / foreign key / polymorphic value drawn from
//           the fields of the two schemas, own-primary-key flags, join table or not, CONSTRAINT tag text (names, actions,
//           "-", malformed names) — and a generated set of relations in the referenced schema: exact mirrors, mirrors
//           that differ in ONE component (foreign key, primary key, value, length, target schema), the relation itself.
//   mig.addcolumn — the statement text the REAL migrator.Migrator.AddColumn sends (recording driver) against Lean
//       `Gorm.Mig.addColumnSQL` (= ALTER TABLE … ADD … + the full data type incl. NOT NULL / DEFAULT).

import (
	"fmt"
	"math/rand"
	"reflect"
	"sort"
	"strings"

	"gorm.io/driver/sqlite"
	"gorm.io/gorm"
	"gorm.io/gorm/schema"
)

type c20Ids struct {
	sch map[*schema.Schema]string
	fld map[*schema.Field]string
	rel map[*schema.Relationship]string
}

func newC20Ids() *c20Ids {
	return &c20Ids{sch: map[*schema.Schema]string{}, fld: map[*schema.Field]string{}, rel: map[*schema.Relationship]string{}}
}
func (x *c20Ids) S(s *schema.Schema) string {
	if s == nil {
		return ""
	}
	if v, ok := x.sch[s]; ok {
		return v
	}
	v := fmt.Sprintf("s%d:%s", len(x.sch), s.Table)
	x.sch[s] = v
	return v
}
func (x *c20Ids) F(f *schema.Field) string {
	if v, ok := x.fld[f]; ok {
		return v
	}
	v := fmt.Sprintf("f%d:%s", len(x.fld), f.Name)
	x.fld[f] = v
	return v
}
func (x *c20Ids) R(r *schema.Relationship) string {
	if v, ok := x.rel[r]; ok {
		return v
	}
	v := fmt.Sprintf("r%d:%s", len(x.rel), r.Name)
	x.rel[r] = v
	return v
}

func c20RelTypeName(t schema.RelationshipType) string { return string(t) }

func (x *c20Ids) relJ(r *schema.Relationship, ns schema.Namer) map[string]interface{} {
	refs := []interface{}{}
	for _, ref := range r.References {
		var pk interface{}
		if ref.PrimaryKey != nil {
			pk = map[string]interface{}{"id": x.F(ref.PrimaryKey), "schema": x.S(ref.PrimaryKey.Schema)}
		}
		refs = append(refs, map[string]interface{}{"pk": pk, "pv": ref.PrimaryValue,
			"fk": map[string]interface{}{"id": x.F(ref.ForeignKey), "schema": x.S(ref.ForeignKey.Schema)}, "own": ref.OwnPrimaryKey})
	}
	return map[string]interface{}{"key": x.R(r), "type": c20RelTypeName(r.Type), "schema": x.S(r.Schema), "fieldSchema": x.S(r.FieldSchema),
		"refs": refs, "join": r.JoinTable != nil, "tag": r.Field.TagSettings["CONSTRAINT"], "defname": ns.RelationshipFKName(*r)}
}

func (x *c20Ids) constraintJ(c *schema.Constraint) interface{} {
	if c == nil {
		return nil
	}
	fks, refs := []string{}, []string{}
	for _, f := range c.ForeignKeys {
		fks = append(fks, x.F(f))
	}
	for _, f := range c.References {
		refs = append(refs, x.F(f))
	}
	return map[string]interface{}{"name": c.Name, "schema": x.S(c.Schema), "ref": x.S(c.ReferenceSchema), "fks": fks, "refs": refs,
		"ondelete": c.OnDelete, "onupdate": c.OnUpdate}
}

// sorted relation list of a schema (map iteration order is random; the model takes any order)
func c20SortedRels(s *schema.Schema) []*schema.Relationship {
	var keys []string
	for k := range s.Relationships.Relations {
		keys = append(keys, k)
	}
	sort.Strings(keys)
	var out []*schema.Relationship
	seen := map[*schema.Relationship]bool{}
	for _, k := range keys {
		if r := s.Relationships.Relations[k]; !seen[r] {
			seen[r] = true
			out = append(out, r)
		}
	}
	return out
}

var c20ConstraintTags = []string{"", "", "-", "fk_custom,OnDelete:CASCADE", "OnDelete:SET NULL,OnUpdate:CASCADE", "my-name,ONUPDATE:RESTRICT",
	"bad name,OnDelete:CASCADE", ",OnDelete:CASCADE", "fk_x", "fk_a,ondelete:cascade , onupdate : no action", "fk_b,OnDelete:SET DEFAULT,OnDelete:CASCADE",
	"OnUpdate:CASCADE", "fk.dot,OnDelete:CASCADE", "FK_Upper9,onDelete:a:b", " -", "-,x"}

func c20TieConstraint(r *Result, rng *rand.Rand, tier string) {
	n := 3000
	if tier == "thorough" {
		n = 60000
	} else if tier == "search" {
		n = 10000
	}
	ns := c20Namer{NamingStrategy: schema.NamingStrategy{IdentifierMaxLength: 64}, anon: "anon_items"}
	type tcase struct {
		In   map[string]interface{}
		Real string
		Kind string
	}
	var cases []tcase
	var ops [][]interface{}
	add := func(x *c20Ids, rel *schema.Relationship, kind string, note string) {
		var real interface{}
		func() {
			defer func() {
				if p := recover(); p != nil {
					real = "panic: " + fmt.Sprint(p)
				}
			}()
			real = x.constraintJ(rel.ParseConstraint())
		}()
		relJ := x.relJ(rel, ns)
		var rels []interface{}
		for _, pr := range c20SortedRels(rel.FieldSchema) {
			rels = append(rels, x.relJ(pr, ns))
		}
		if rels == nil {
			rels = []interface{}{}
		}
		cases = append(cases, tcase{In: map[string]interface{}{"rel": relJ, "rels": rels, "note": note}, Real: canon(real), Kind: kind})
		ops = append(ops, []interface{}{"mig.constraint", relJ, rels})
	}
	// (a) the library
	for _, fam := range c20Families {
		for vi, ms := range [][]interface{}{fam.V1, fam.V2} {
			cache := newSyncMap()
			x := newC20Ids()
			var schemas []*schema.Schema
			seen := map[*schema.Schema]bool{}
			for _, m := range ms {
				s, err := schema.Parse(m, cache, ns)
				if err != nil {
					continue
				}
				if !seen[s] {
					seen[s] = true
					schemas = append(schemas, s)
				}
			}
			for i := 0; i < len(schemas); i++ { // join tables
				for _, rel := range c20SortedRels(schemas[i]) {
					if rel.JoinTable != nil && !seen[rel.JoinTable] {
						seen[rel.JoinTable] = true
						schemas = append(schemas, rel.JoinTable)
					}
				}
			}
			for _, s := range schemas {
				for _, rel := range c20SortedRels(s) {
					add(x, rel, "library", fmt.Sprintf("%s v%d %s.%s", fam.Name, vi+1, s.Table, rel.Name))
				}
			}
		}
	}
	// (b) generated graphs over real parsed schemas
	for i := 0; i < n && !expired(); i++ {
		cache := newSyncMap()
		child, err1 := schema.Parse(&C20rPost3{}, cache, ns)
		parent, err2 := schema.Parse(&C20rWriter3{}, cache, ns)
		other, err3 := schema.Parse(&C20rTag8{}, cache, ns)
		if err1 != nil || err2 != nil || err3 != nil {
			r.Note("library schema does not parse: %v %v %v", err1, err2, err3)
			return
		}
		x := newC20Ids()
		S, P := child, parent
		if rng.Intn(6) == 0 {
			P = S // self reference
		}
		pick := func(s *schema.Schema) *schema.Field { return s.Fields[rng.Intn(len(s.Fields))] }
		nref := 1 + rng.Intn(2)
		if rng.Intn(10) == 0 {
			nref = rng.Intn(4)
		}
		genRefs := func(fkS, pkS *schema.Schema, own bool) []*schema.Reference {
			var out []*schema.Reference
			for k := 0; k < nref; k++ {
				ref := &schema.Reference{ForeignKey: pick(fkS), OwnPrimaryKey: own}
				if rng.Intn(8) > 0 {
					ref.PrimaryKey = pick(pkS)
				} else {
					ref.PrimaryValue = "posts"
				}
				if rng.Intn(12) == 0 {
					ref.OwnPrimaryKey = !own
				}
				out = append(out, ref)
			}
			return out
		}
		types := []schema.RelationshipType{schema.BelongsTo, schema.BelongsTo, schema.BelongsTo, schema.HasOne, schema.HasMany, schema.Many2Many}
		typ := types[rng.Intn(len(types))]
		tag := c20ConstraintTags[rng.Intn(len(c20ConstraintTags))]
		settings := map[string]string{}
		if tag != "" || rng.Intn(2) == 0 {
			settings["CONSTRAINT"] = tag
		}
		rel := &schema.Relationship{Name: "Syn", Type: typ, Schema: S, FieldSchema: P,
			Field: &schema.Field{Name: "Syn", Schema: S, TagSettings: settings}}
		switch typ {
		case schema.BelongsTo:
			rel.References = genRefs(S, P, false)
		case schema.Many2Many:
			rel.JoinTable = other
			rel.References = append(genRefs(other, S, true), genRefs(other, P, false)...)
		default:
			rel.References = genRefs(P, S, true)
		}
		// relations of the referenced schema
		prels := map[string]*schema.Relationship{}
		np := rng.Intn(4)
		var notes []string
		for k := 0; k < np; k++ {
			pr := &schema.Relationship{Name: fmt.Sprintf("Back%d", k), Type: []schema.RelationshipType{schema.HasMany, schema.HasOne, schema.BelongsTo}[rng.Intn(3)],
				Schema: P, FieldSchema: S, Field: &schema.Field{Name: fmt.Sprintf("Back%d", k), Schema: P, TagSettings: map[string]string{}}}
			for _, ref := range rel.References { // start from an exact mirror
				c := *ref
				pr.References = append(pr.References, &c)
			}
			switch rng.Intn(9) {
			case 0, 1:
				notes = append(notes, "mirror")
			case 2:
				if len(pr.References) > 0 {
					j := rng.Intn(len(pr.References))
					old := pr.References[j].ForeignKey
					for t := 0; t < 5 && pr.References[j].ForeignKey == old; t++ {
						pr.References[j].ForeignKey = pick(old.Schema)
					}
					notes = append(notes, "fk-differs")
				}
			case 3:
				if len(pr.References) > 0 {
					j := rng.Intn(len(pr.References))
					pr.References[j].PrimaryKey = pick(P)
					notes = append(notes, "pk-redrawn")
				}
			case 4:
				if len(pr.References) > 0 {
					pr.References[rng.Intn(len(pr.References))].PrimaryValue = "x"
					notes = append(notes, "value-differs")
				}
			case 5:
				if len(pr.References) > 0 && rng.Intn(2) == 0 {
					pr.References = pr.References[:len(pr.References)-1]
				} else {
					pr.References = append(pr.References, &schema.Reference{ForeignKey: pick(S), PrimaryKey: pick(P)})
				}
				notes = append(notes, "length-differs")
			case 6:
				pr.FieldSchema = other
				notes = append(notes, "other-target")
			case 7:
				if len(pr.References) > 1 {
					pr.References[0], pr.References[1] = pr.References[1], pr.References[0]
					notes = append(notes, "order-swapped")
				}
			case 8:
				pr.Field.TagSettings["CONSTRAINT"] = "-"
				notes = append(notes, "mirror-disabled")
			}
			prels[pr.Name] = pr
		}
		if P == S || rng.Intn(5) == 0 {
			prels["Syn"] = rel // the relation itself sits in the map it searches (self reference)
			notes = append(notes, "self-in-map")
		}
		P.Relationships.Relations = prels
		add(x, rel, "generated:"+string(typ), strings.Join(notes, "+"))
		if np > 0 && rng.Intn(3) == 0 { // also ask for one of the back relations
			for _, pr := range prels {
				if pr != rel {
					S.Relationships.Relations = map[string]*schema.Relationship{"Syn": rel}
					add(x, pr, "generated-back:"+string(pr.Type), "")
					break
				}
			}
		}
	}
	outs, err := AskLean(ops)
	if err != nil {
		r.Violate(Violation{Kind: "correspondence", Suite: "mig.constraint", Note: err.Error()})
		return
	}
	for i, c := range cases {
		model := canonRaw(outs[i])
		r.CorrCompared++
		r.Case("mig.constraint", canon(c.In), true)
		r.H("constraint.kind", c.Kind)
		switch {
		case model == "null" && c.In["rel"].(map[string]interface{})["tag"] == "-":
			r.H("constraint.model-branch", "disabled")
		case model == "null":
			r.H("constraint.model-branch", "folded-into-mirror")
		default:
			r.H("constraint.model-branch", "emitted")
			if strings.Contains(fmt.Sprint(c.In["note"]), "fk-differs") {
				r.H("constraint.model-branch", "emitted-next-to-a-mirror-with-another-foreign-key")
			}
		}
		if c.Real != model {
			r.Violate(Violation{Kind: "correspondence", Suite: "mig.constraint", Input: c.In, Observed: c.Real, Expected: model,
				Note: "real (*schema.Relationship).ParseConstraint vs Lean Gorm.Mig.parseConstraint"})
		}
		if i < 2 {
			r.Sample(c.In)
		}
	}
}

// ---- AddColumn statement text -------------------------------------------------------------------

func c20TieAddColumn(r *Result, rng *rand.Rand, tier string) {
	n := 1500
	if tier == "thorough" {
		n = 30000
	} else if tier == "search" {
		n = 6000
	}
	db0, rec, sqlDB := OpenRec(nil)
	st := &c20Stub{constraints: map[string]bool{}, indexes: map[string]bool{}}
	db, err := gorm.Open(c20Dialector{Dialector: sqlite.Dialector{Conn: sqlDB}, st: st}, &gorm.Config{
		Logger:         db0.Logger,
		NamingStrategy: c20Namer{NamingStrategy: schema.NamingStrategy{IdentifierMaxLength: 64}, anon: "addc_items"}})
	if err != nil {
		r.Note("addcolumn: open failed: %v", err)
		return
	}
	type tcase struct {
		In   map[string]interface{}
		Real string
	}
	var cases []tcase
	var ops [][]interface{}
	for i := 0; i < n && !expired(); i++ {
		st.mysqlish = rng.Intn(2) == 0
		fs := []c20Field{{Name: "ID", Kind: "uint"}, c20TieField(rng, "FA")}
		if rng.Intn(4) == 0 {
			fs[1].Tag = c20AddTag(fs[1].Tag, "column:c_renamed")
		}
		if strings.Contains(fs[1].Tag, "primaryKey") {
			continue
		}
		t, err := c20Type(fs)
		if err != nil {
			continue
		}
		val := reflect.New(t).Interface()
		stmt := &gorm.Statement{DB: db}
		if err := stmt.Parse(val); err != nil {
			continue
		}
		f := stmt.Schema.LookUpField("FA")
		if f == nil {
			continue
		}
		rec.Reset()
		_ = db.Migrator().(c20Migrator).Migrator.AddColumn(val, "FA") // the real one (the table does not exist: only the text matters)
		real := []string{}
		for _, e := range rec.Snapshot() {
			if (e.Kind == "exec" || e.Kind == "stmt_exec" || e.Kind == "prepare") && c20DDL.MatchString(e.SQL) {
				if len(real) == 0 || real[len(real)-1] != e.SQL {
					real = append(real, e.SQL)
				}
			}
		}
		fj := c20FieldJ(db, f)
		in := map[string]interface{}{"field": fj, "tag": fs[1].Tag, "kind": fs[1].Kind, "mysqlish": st.mysqlish}
		want := "ignored"
		if len(real) == 1 {
			want = real[0]
		} else if len(real) > 1 {
			want = strings.Join(real, " ;; ")
		}
		cases = append(cases, tcase{In: in, Real: want})
		ops = append(ops, []interface{}{"mig.addcolumn", "addc_items", fj})
	}
	outs, err := AskLean(ops)
	if err != nil {
		r.Violate(Violation{Kind: "correspondence", Suite: "mig.addcolumn", Note: err.Error()})
		return
	}
	for i, c := range cases {
		var model string
		_ = jsonUnmarshal(outs[i], &model)
		if c.In["field"].(map[string]interface{})["ignore"] == true {
			model = "ignored" // AddColumn's guard (`if !f.IgnoreMigration`), modelled in columnDDL
		}
		r.CorrCompared++
		r.Case("mig.addcolumn", canon(c.In), true)
		switch {
		case model == "ignored":
			r.H("addcolumn.shape", "ignored")
		case strings.Contains(model, " NOT NULL") && strings.Contains(model, " DEFAULT "):
			r.H("addcolumn.shape", "not-null+default")
		case strings.Contains(model, " NOT NULL"):
			r.H("addcolumn.shape", "not-null")
		case strings.Contains(model, " DEFAULT "):
			r.H("addcolumn.shape", "default")
		default:
			r.H("addcolumn.shape", "plain")
		}
		if c.Real != model {
			r.Violate(Violation{Kind: "correspondence", Suite: "mig.addcolumn", Input: c.In, Observed: c.Real, Expected: model,
				Note: "statement sent by the real migrator.Migrator.AddColumn vs Lean Gorm.Mig.addColumnSQL"})
		}
	}
}

func init() {
	register("C20", func(r *Result, rng *rand.Rand, tier string) {
		if c20Only("constraint") {
			c20TieConstraint(r, rng, tier)
		}
	})
	register("C20", func(r *Result, rng *rand.Rand, tier string) {
		if c20Only("addcolumn") {
			c20TieAddColumn(r, rng, tier)
		}
	})
}
