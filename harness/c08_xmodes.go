package main

// C08 (round 4) — the soft-delete MODE, and every sentence of the property judged in each mode, in every context.
//
// (1) the declaration zoo of c08_decl.go (suites `decl`, `firstuse`) gains the zeroValue-mode declarations: a
//     `gorm.DeletedAt` whose tag carries a valid `zeroValue:` (live rows hold that fixed timestamp — the column default —
//     instead of NULL): by value, by pointer, date-only value under a renamed column, inside an embedded struct with a
//     prefix, inside an own embedded base struct, next to a second NULL-mode column, and the QUOTED spelling gorm's own
//     test uses (`zeroValue:'…'`: not parseable, so the model really runs in NULL mode).
//
// (2) suite `modes`: a REFERENCE TABLE (id → v, name, marked?, present?) is advanced by the property's own sentences —
//       scoped read    = the present, unmarked rows matching the condition
//       scoped update  = writes exactly those            scoped delete = marks exactly those, removes nothing
//       Unscoped read  = all present matching rows       Unscoped update reaches them; Unscoped delete removes them
//     and after EVERY call the real table (raw SQL dump) must equal the reference, RowsAffected included. Varied:
//       declaration (all modes) × condition CHANNEL (Where / Or / Not / map / clause expression / group handle / one or two
//       Scopes returning derived handles / inline arguments of the finisher / primary key through Model(&keyed),
//       Delete(&keyed), First(&m, id), Find(&out, ids)) × finisher (Find, Count, Pluck, First, Take, Last, Scan, Rows,
//       Update, Updates(map), UpdateColumn, Delete, repeated Delete; each scoped / Unscoped) × handle (fresh chain | ONE
//       kept chain handle used for two or three finishers in a row) × context (plain session, SkipDefaultTransaction,
//       PrepareStmt session, db.Transaction block, nested block, manual Begin/Commit, db.Connection) — and the rendered
//       statement of a DryRun / ToSQL Delete is an UPDATE without Unscoped and a DELETE with it.
//     Kept-handle latitude: gorm's statement reuse has behaviours of its own (a write after a read on one statement is
//     refused by SQLite with "ambiguous column name", Pluck after Find panics, …; suite `reuse` models them). A call that
//     returns an error or panics is not judged and ends the history; everything else is judged literally.

import (
	"database/sql"
	"encoding/json"
	"fmt"
	"math/rand"
	"reflect"
	"sort"
	"strings"

	"gorm.io/gorm"
	"gorm.io/gorm/clause"
	"gorm.io/gorm/schema"
)

// ---------------------------------------------------------------------------------------------
// zeroValue-mode declarations

type DZero struct {
	ID        uint `gorm:"primaryKey"`
	V         int
	Name      string
	DeletedAt gorm.DeletedAt `gorm:"zeroValue:1970-01-01 00:00:01;default:'1970-01-01 00:00:01';not null"`
}
type DZeroPtr struct {
	ID        uint `gorm:"primaryKey"`
	V         int
	Name      string
	DeletedAt *gorm.DeletedAt `gorm:"zeroValue:1970-01-01 00:00:01;default:'1970-01-01 00:00:01'"`
}
type DZeroCol struct {
	ID     uint `gorm:"primaryKey"`
	V      int
	Name   string
	GoneAt gorm.DeletedAt `gorm:"column:gone_at;zeroValue:2000-01-01;default:'2000-01-01'"`
}
type C08ZMeta struct {
	DeletedAt gorm.DeletedAt `gorm:"zeroValue:1970-01-01 00:00:01;default:'1970-01-01 00:00:01'"`
}
type DZeroPrefix struct {
	ID   uint `gorm:"primaryKey"`
	V    int
	Name string
	Meta C08ZMeta `gorm:"embedded;embeddedPrefix:meta_"`
}
type C08ZBase struct {
	ID        uint           `gorm:"primaryKey"`
	DeletedAt gorm.DeletedAt `gorm:"zeroValue:1970-01-01 00:00:01;default:'1970-01-01 00:00:01'"`
}
type DZeroBase struct {
	C08ZBase
	V    int
	Name string
}
type DZeroQuoted struct {
	ID        uint `gorm:"primaryKey"`
	V         int
	Name      string
	DeletedAt gorm.DeletedAt `gorm:"zeroValue:'1970-01-01 00:00:01'"` // quoted: not a time, the model runs in NULL mode
}
type DZeroAndNull struct {
	ID         uint `gorm:"primaryKey"`
	V          int
	Name       string
	DeletedAt  gorm.DeletedAt `gorm:"zeroValue:1970-01-01 00:00:01;default:'1970-01-01 00:00:01'"`
	ArchivedAt gorm.DeletedAt
}

func init() {
	z := "deleted_at = '1970-01-01 00:00:01'"
	c08Zoo = append(c08Zoo,
		c08Decl{"zeroValue mode (value)", reflect.TypeOf(DZero{}), "deleted_at", "2020-01-01 00:00:00", z},
		c08Decl{"zeroValue mode (pointer)", reflect.TypeOf(DZeroPtr{}), "deleted_at", "2020-01-01 00:00:00", z},
		c08Decl{"zeroValue mode (date-only value, renamed column)", reflect.TypeOf(DZeroCol{}), "gone_at", "2020-01-01 00:00:00", "gone_at = '2000-01-01'"},
		c08Decl{"zeroValue mode (embedded struct with prefix)", reflect.TypeOf(DZeroPrefix{}), "meta_deleted_at", "2020-01-01 00:00:00", "meta_deleted_at = '1970-01-01 00:00:01'"},
		c08Decl{"zeroValue mode (own embedded base struct)", reflect.TypeOf(DZeroBase{}), "deleted_at", "2020-01-01 00:00:00", z},
		c08Decl{"zeroValue tag quoted (NULL mode in effect)", reflect.TypeOf(DZeroQuoted{}), "deleted_at", "2020-01-01 00:00:00", "deleted_at IS NULL"},
		c08Decl{"zeroValue-mode column next to a NULL-mode column", reflect.TypeOf(DZeroAndNull{}), "deleted_at", "2020-01-01 00:00:00", z + " AND archived_at IS NULL"},
	)
}

// ---------------------------------------------------------------------------------------------
// the reference table

type c08Ref struct {
	ID      int
	V       int
	Name    string
	Dead    bool
	Present bool
}

type c08MCond struct {
	Desc   string
	Apply  func(*gorm.DB) *gorm.DB // chain methods
	Inline []interface{}           // or: arguments handed to the finisher itself (Find/First/Take/Last/Delete)
	Key    int                     // or: the primary key of a value given to Model(..) / Delete(..)
	Holds  func(c08Ref) bool
}

func c08GenMCond(rng *rand.Rand, n int) c08MCond {
	k, k2, nm := rng.Intn(4), rng.Intn(4), []string{"x", "y", "z"}[rng.Intn(3)]
	id := func(db *gorm.DB) *gorm.DB { return db }
	switch rng.Intn(16) {
	case 0:
		return c08MCond{Desc: "Where(1 = 1)", Apply: func(db *gorm.DB) *gorm.DB { return db.Where("1 = 1") }, Holds: func(c08Ref) bool { return true }}
	case 1:
		return c08MCond{Desc: fmt.Sprintf("Where(v >= %d)", k), Apply: func(db *gorm.DB) *gorm.DB { return db.Where("v >= ?", k) }, Holds: func(r c08Ref) bool { return r.V >= k }}
	case 2:
		return c08MCond{Desc: fmt.Sprintf("Where(v = %d).Or(name = %s)", k, nm), Apply: func(db *gorm.DB) *gorm.DB { return db.Where("v = ?", k).Or("name = ?", nm) },
			Holds: func(r c08Ref) bool { return r.V == k || r.Name == nm }}
	case 3:
		return c08MCond{Desc: fmt.Sprintf("Where(\"v = %d or name = '%s'\") [lower-case or, one raw string]", k, nm), Apply: func(db *gorm.DB) *gorm.DB { return db.Where("v = ? or name = ?", k, nm) },
			Holds: func(r c08Ref) bool { return r.V == k || r.Name == nm }}
	case 4:
		return c08MCond{Desc: fmt.Sprintf("Not(map v:%d)", k), Apply: func(db *gorm.DB) *gorm.DB { return db.Not(map[string]interface{}{"v": k}) }, Holds: func(r c08Ref) bool { return r.V != k }}
	case 5:
		return c08MCond{Desc: fmt.Sprintf("Or(v = %d) [leading Or]", k), Apply: func(db *gorm.DB) *gorm.DB { return db.Or("v = ?", k) }, Holds: func(r c08Ref) bool { return r.V == k }}
	case 6:
		return c08MCond{Desc: fmt.Sprintf("Where(clause.Gte{v,%d}).Not(clause.Eq{name,%s})", k, nm), Apply: func(db *gorm.DB) *gorm.DB {
			return db.Where(clause.Gte{Column: "v", Value: k}).Not(clause.Eq{Column: "name", Value: nm})
		}, Holds: func(r c08Ref) bool { return r.V >= k && r.Name != nm }}
	case 7:
		return c08MCond{Desc: fmt.Sprintf("Where(db.Where(v = %d).Or(v = %d)) [group handle]", k, k2), Apply: func(db *gorm.DB) *gorm.DB {
			root := db.Session(&gorm.Session{NewDB: true})
			return db.Where(root.Where("v = ?", k).Or("v = ?", k2))
		}, Holds: func(r c08Ref) bool { return r.V == k || r.V == k2 }}
	case 8:
		return c08MCond{Desc: fmt.Sprintf("Scopes(v >= %d)", k), Apply: func(db *gorm.DB) *gorm.DB {
			return db.Scopes(func(d *gorm.DB) *gorm.DB { return d.Where("v >= ?", k) })
		}, Holds: func(r c08Ref) bool { return r.V >= k }}
	case 9:
		return c08MCond{Desc: fmt.Sprintf("Scopes(v <= %d, Or(name = %s))", k, nm), Apply: func(db *gorm.DB) *gorm.DB {
			return db.Scopes(func(d *gorm.DB) *gorm.DB { return d.Where("v <= ?", k) }, func(d *gorm.DB) *gorm.DB { return d.Or("name = ?", nm) })
		}, Holds: func(r c08Ref) bool { return r.V <= k || r.Name == nm }}
	case 10:
		return c08MCond{Desc: fmt.Sprintf("inline(\"v >= ? OR name = ?\", %d, %s)", k, nm), Apply: id, Inline: []interface{}{"v >= ? OR name = ?", k, nm},
			Holds: func(r c08Ref) bool { return r.V >= k || r.Name == nm }}
	case 11:
		return c08MCond{Desc: fmt.Sprintf("inline(map name:%s)", nm), Apply: id, Inline: []interface{}{map[string]interface{}{"name": nm}}, Holds: func(r c08Ref) bool { return r.Name == nm }}
	case 12:
		// inline primary keys: a live row and its marked twin
		i := 1 + rng.Intn(n)
		return c08MCond{Desc: fmt.Sprintf("inline(ids %d,%d)", i, n+i), Apply: id, Inline: []interface{}{[]int{i, n + i}}, Holds: func(r c08Ref) bool { return r.ID == i || r.ID == n+i }}
	case 13:
		i := 1 + rng.Intn(2*n)
		return c08MCond{Desc: fmt.Sprintf("key %d (Model(&keyed) / Delete(&keyed) / First(&m, id))", i), Apply: id, Key: i, Holds: func(r c08Ref) bool { return r.ID == i }}
	case 14:
		i := 1 + rng.Intn(2*n)
		return c08MCond{Desc: fmt.Sprintf("key %d + Where(v >= %d)", i, k), Apply: func(db *gorm.DB) *gorm.DB { return db.Where("v >= ?", k) }, Key: i, Holds: func(r c08Ref) bool { return r.ID == i && r.V >= k }}
	}
	return c08MCond{Desc: fmt.Sprintf("Where(map name:%s).Where(v <> %d)", nm, k), Apply: func(db *gorm.DB) *gorm.DB { return db.Where(map[string]interface{}{"name": nm}).Where("v <> ?", k) },
		Holds: func(r c08Ref) bool { return r.Name == nm && r.V != k }}
}

type c08ModeCase struct {
	Seed    int64    `json:"seed"`
	Decl    string   `json:"declaration"`
	Context string   `json:"context"`
	Handle  string   `json:"handle"`
	Cond    string   `json:"condition"`
	Calls   []string `json:"calls"`
	Failing int      `json:"failing_call,omitempty"`
}

var c08ModeOps = []string{"find", "count", "pluck", "first", "take", "last", "scan", "rows", "update", "updates", "updatecolumn", "delete", "delete", "delete-again",
	"unscoped-find", "unscoped-count", "unscoped-update", "unscoped-delete", "unscoped-first", "unscoped-restore"}

// c08LiveValue: what the soft-delete column of a live row holds (nil | the zeroValue timestamp | 0), read off the declaration
func c08LiveValue(d c08Decl) interface{} {
	live := d.Live
	if i := strings.Index(live, " AND "); i >= 0 {
		live = live[:i]
	}
	switch {
	case strings.HasSuffix(live, " IS NULL"):
		return nil
	case strings.HasSuffix(live, " = 0"):
		return 0
	}
	return strings.Trim(live[strings.Index(live, "= ")+2:], "'")
}

func c08ModeOne(r *Result, seed int64, di int) {
	rng := rand.New(rand.NewSource(seed))
	d := c08Zoo[di%len(c08Zoo)]
	cfg := &gorm.Config{NowFunc: fixedNowFunc}
	if seed%4 == 0 {
		// schema-qualified table names: the filter is written with clause.CurrentTable
		cfg.NamingStrategy = schema.NamingStrategy{TablePrefix: "main."}
		r.H("modes.naming", "TablePrefix main.")
	}
	db, _, sqlDB := OpenRec(cfg)
	defer sqlDB.Close()
	table, rows := c08DeclSetup(db, d, rng)
	n := len(rows) / 2
	ref := map[int]*c08Ref{}
	for _, x := range rows {
		ref[x.ID] = &c08Ref{ID: x.ID, V: x.V, Name: x.Name, Dead: x.Dead, Present: true}
	}
	r.H("modes.declaration", d.Name)
	dump := func() map[int]c08Ref {
		out := map[int]c08Ref{}
		rs, err := db.Session(&gorm.Session{NewDB: true}).Raw("SELECT id, v, name, COALESCE((" + d.Live + "), 0) FROM " + table).Rows()
		if err != nil {
			panic(err)
		}
		defer rs.Close()
		for rs.Next() {
			var x c08Ref
			var live bool
			if err := rs.Scan(&x.ID, &x.V, &x.Name, &live); err != nil {
				panic(err)
			}
			x.Dead, x.Present = !live, true
			out[x.ID] = x
		}
		return out
	}
	diffRef := func() string {
		got := dump()
		for id := 1; id <= 2*n; id++ {
			w, g := ref[id], got[id]
			switch {
			case w.Present && !g.Present:
				return fmt.Sprintf("row %d was removed physically", id)
			case !w.Present && g.Present:
				return fmt.Sprintf("row %d is still in the table (live=%v)", id, !g.Dead)
			case w.Present && w.Dead != g.Dead:
				return fmt.Sprintf("row %d: marked=%v, expected marked=%v", id, g.Dead, w.Dead)
			case w.Present && (w.V != g.V || w.Name != g.Name):
				return fmt.Sprintf("row %d (marked=%v): v=%d name=%s, expected v=%d name=%s", id, w.Dead, g.V, g.Name, w.V, w.Name)
			}
		}
		return ""
	}
	resync := func() {
		got := dump()
		for id := 1; id <= 2*n; id++ {
			if g, ok := got[id]; ok {
				*ref[id] = g
			} else {
				ref[id].Present = false
			}
		}
	}
	sel := func(c c08MCond, unscoped bool) []int {
		out := []int{}
		for id := 1; id <= 2*n; id++ {
			x := ref[id]
			if x.Present && (unscoped || !x.Dead) && c.Holds(*x) {
				out = append(out, id)
			}
		}
		return out
	}

	for hist := 0; hist < 4; hist++ {
		c := c08GenMCond(rng, n)
		ctx := []string{"session", "session", "skip-default-tx", "prepare", "transaction", "nested-transaction", "begin-commit", "connection"}[rng.Intn(8)]
		kept := rng.Intn(3) == 0
		ncalls := 1 + rng.Intn(3)
		var calls []string
		for i := 0; i < ncalls; i++ {
			calls = append(calls, c08ModeOps[rng.Intn(len(c08ModeOps))])
		}
		if kept && rng.Intn(2) == 0 {
			// the shapes people write with a kept handle: count+page, update then delete, delete twice
			calls = [][]string{{"count", "find"}, {"update", "delete"}, {"delete", "delete-again"}, {"count", "pluck"}, {"update", "update"}, {"find", "find"}, {"updates", "delete", "count"}}[rng.Intn(7)]
		}
		if kept {
			// a kept statement keeps what its finishers leave behind (suite `reuse` models that): LIMIT / ORDER BY of
			// First/Take/Last, the Dest of Scan, the key of a Model(&keyed) value that reads ignore, and Unscoped() set
			// AFTER the filter was installed does not take the filter out again.  Outside the sentences judged here:
			// such calls come first or not at all.
			for c.Key != 0 {
				c = c08GenMCond(rng, n)
			}
			for i, op := range calls {
				fin := strings.TrimPrefix(op, "unscoped-")
				if i > 0 && strings.HasPrefix(op, "unscoped-") {
					calls[i], op = fin, fin
				}
				if (fin == "first" || fin == "take" || fin == "last" || fin == "scan" || fin == "rows") && i < len(calls)-1 {
					calls[i] = "find"
				}
				if i > 0 && (fin == "first" || fin == "take" || fin == "last") {
					calls[i] = "count"
				}
			}
		}
		newV := 90 + hist
		mc := c08ModeCase{Seed: seed, Decl: d.Name, Context: ctx, Handle: map[bool]string{true: "one kept chain handle", false: "fresh chain per call"}[kept], Cond: c.Desc, Calls: calls}

		// a call that failed (or was judged) ends the history; what a failed call inside a transaction block leaves behind
		// is not this property's subject: the reference is re-read from the table once the block is over
		skipFinal := false
		resyncIn := func() { skipFinal = true }
		body := func(base *gorm.DB) {
			var keptH *gorm.DB
			stickyUn := false
			for ci, op := range calls {
				unscoped := strings.HasPrefix(op, "unscoped-") || stickyUn
				fin := strings.TrimPrefix(op, "unscoped-")
				if kept && unscoped {
					stickyUn = true // Unscoped() on the kept handle sets the flag of the shared statement
				}
				// ---- the handle
				var h *gorm.DB
				if kept && keptH != nil {
					h = keptH
				} else {
					h = base
					if c.Key != 0 && (fin == "update" || fin == "updates" || fin == "updatecolumn" || fin == "restore" || fin == "count" || fin == "pluck" || fin == "scan" || fin == "rows") {
						if fin == "count" || fin == "pluck" || fin == "scan" || fin == "rows" {
							// reads ignore the key of the Model value: give it as a condition
							h = h.Model(d.newModel()).Where("id = ?", c.Key)
						} else {
							h = h.Model(d.keyed(c.Key))
						}
					} else {
						h = h.Model(d.newModel())
					}
					h = c.Apply(h)
					if len(c.Inline) > 0 && !(fin == "find" || fin == "first" || fin == "take" || fin == "last" || fin == "delete" || fin == "delete-again") {
						h = h.Where(c.Inline[0], c.Inline[1:]...)
					}
					if kept {
						keptH = h
					}
				}
				if unscoped {
					h = h.Unscoped()
				}
				inline := []interface{}{}
				if !kept || ci == 0 {
					inline = c.Inline
				}
				if kept && ci > 0 && (len(c.Inline) > 0 || c.Key != 0) {
					// inline arguments / keys given to an earlier finisher stay on a kept statement: not given twice
					inline = nil
				}
				exp := sel(c, unscoped)
				var err error
				var got []int
				hasGot := false
				var ra int64 = -1
				func() {
					defer func() {
						if e := recover(); e != nil {
							err = fmt.Errorf("panic: %v", e)
						}
					}()
					switch fin {
					case "find":
						sl := d.newSlice()
						if c.Key != 0 && (!kept || ci == 0) {
							err = h.Find(sl, c.Key).Error
						} else {
							err = h.Find(sl, inline...).Error
						}
						got, hasGot = c08IDsOf(sl), true
					case "count":
						var cnt int64
						err = h.Count(&cnt).Error
						if err == nil && int(cnt) != len(exp) {
							err = fmt.Errorf("JUDGE: Count = %d, expected %d (%v)", cnt, len(exp), exp)
						}
					case "pluck":
						var ids []int
						err = h.Pluck("id", &ids).Error
						sort.Ints(ids)
						got, hasGot = append([]int{}, ids...), true
					case "scan":
						type lite struct{ ID int }
						var out []lite
						err = h.Scan(&out).Error
						got = []int{}
						for _, o := range out {
							got = append(got, o.ID)
						}
						sort.Ints(got)
						hasGot = true
					case "rows":
						rs, e := h.Rows()
						err = e
						got = []int{}
						if e == nil {
							for rs.Next() {
								m := map[string]interface{}{}
								if db.ScanRows(rs, &m) == nil {
									got = append(got, toInt(m["id"]))
								}
							}
							rs.Close()
						}
						sort.Ints(got)
						hasGot = true
					case "first", "take", "last":
						m := d.newModel()
						args := inline
						if c.Key != 0 && (!kept || ci == 0) {
							args = []interface{}{c.Key}
						}
						switch fin {
						case "first":
							err = h.First(m, args...).Error
						case "take":
							err = h.Take(m, args...).Error
						default:
							err = h.Last(m, args...).Error
						}
						if err == gorm.ErrRecordNotFound {
							err = nil
							if len(exp) != 0 {
								err = fmt.Errorf("JUDGE: record not found, expected one of %v", exp)
							}
						} else if err == nil {
							id := int(reflect.ValueOf(m).Elem().FieldByName("ID").Uint())
							if !c08ContainsInt(exp, id) {
								err = fmt.Errorf("JUDGE: returned row %d, expected one of %v", id, exp)
							} else if fin == "first" && id != exp[0] || fin == "last" && id != exp[len(exp)-1] {
								err = fmt.Errorf("JUDGE: %s returned row %d, expected the first / last of %v", fin, id, exp)
							}
						}
					case "update", "updates", "updatecolumn":
						var res *gorm.DB
						switch fin {
						case "update":
							res = h.Update("v", newV)
						case "updates":
							res = h.Updates(map[string]interface{}{"v": newV})
						default:
							res = h.UpdateColumn("v", newV)
						}
						err, ra = res.Error, res.RowsAffected
						if err == nil {
							for _, id := range exp {
								ref[id].V = newV
							}
						}
					case "restore":
						// Unscoped().Update(<soft-delete column>, <live value>): the marked rows are visible to it, they come back
						res := h.Update(d.Col, c08LiveValue(d))
						err, ra = res.Error, res.RowsAffected
						if err == nil {
							for _, id := range exp {
								ref[id].Dead = false
							}
						}
					case "delete", "delete-again":
						var res *gorm.DB
						if c.Key != 0 && (!kept || ci == 0) {
							res = h.Delete(d.keyed(c.Key))
						} else {
							res = h.Delete(d.newModel(), inline...)
						}
						err, ra = res.Error, res.RowsAffected
						if err == nil {
							for _, id := range exp {
								if unscoped {
									ref[id].Present = false
								} else {
									ref[id].Dead = true
								}
							}
						}
					}
				}()
				r.Case("modes", fmt.Sprint(d.Name, c.Desc, op, ctx, kept, ci), true)
				r.H("modes.op", op)
				r.H("modes.context", ctx)
				r.H("modes.handle", mc.Handle)
				bad := func(obs, expd interface{}, note string) {
					mc2 := mc
					mc2.Failing = ci + 1
					r.Violate(Violation{Kind: "e2e", Suite: "modes", Input: mc2, Observed: obs, Expected: expd, Note: note})
				}
				sentence := "without Unscoped the call behaves as if the marked rows did not exist"
				if unscoped {
					sentence = "with Unscoped the marked rows are visible again and Delete removes rows physically"
				}
				if err != nil && strings.HasPrefix(err.Error(), "JUDGE: ") {
					bad(strings.TrimPrefix(err.Error(), "JUDGE: "), exp, op+": "+sentence)
					resyncIn()
					return
				}
				if err != nil {
					r.H("modes.error", trunc(err.Error(), 44))
					resyncIn()
					return // an error sticks to a kept handle; in a transaction block it ends the block
				}
				if hasGot && !sameInts(got, exp) {
					bad(got, exp, op+": "+sentence)
					resyncIn()
					return
				}
				if ra >= 0 && int(ra) != len(exp) {
					bad(fmt.Sprintf("RowsAffected %d", ra), fmt.Sprintf("%d (rows %v)", len(exp), exp), op+": "+sentence)
					resyncIn()
					return
				}
				if ctx == "session" || ctx == "skip-default-tx" || ctx == "prepare" {
					if df := diffRef(); df != "" {
						bad(df, "the table the property's sentences predict", op+": "+sentence+"; Delete marks the matching live rows instead of removing them; marked rows are untouched")
						resyncIn()
						return
					}
				}
			}
		}
		base := db.Session(&gorm.Session{})
		switch ctx {
		case "skip-default-tx":
			body(db.Session(&gorm.Session{SkipDefaultTransaction: true}))
		case "prepare":
			body(db.Session(&gorm.Session{PrepareStmt: true}))
		case "transaction":
			base.Transaction(func(tx *gorm.DB) error { body(tx); return nil })
		case "nested-transaction":
			base.Transaction(func(tx *gorm.DB) error {
				return tx.Transaction(func(tx2 *gorm.DB) error { body(tx2); return nil })
			})
		case "begin-commit":
			tx := base.Begin()
			body(tx)
			tx.Commit()
		case "connection":
			// (the handle db.Connection hands to its callback is a chain in progress — clone 0, one shared Statement —, unlike
			// the one db.Transaction hands out; a reusable handle is derived from it, as for every other context)
			base.Connection(func(tx *gorm.DB) error { body(tx.Session(&gorm.Session{})); return nil })
		default:
			body(base)
		}
		// after the block: the committed table
		if skipFinal {
			resync()
		} else if df := diffRef(); df != "" {
			mc2 := mc
			mc2.Failing = len(calls)
			r.Violate(Violation{Kind: "e2e", Suite: "modes", Input: mc2, Observed: df, Expected: "the table the property's sentences predict",
				Note: "after the history: Delete marks the matching live rows instead of removing them, marked rows are untouched, Unscoped Delete removes physically"})
			resync()
		}
		// ---- the statement a Delete renders: UPDATE … SET <col> without Unscoped, DELETE with it
		if hist == 0 {
			for _, un := range []bool{false, true} {
				sql := db.ToSQL(func(tx *gorm.DB) *gorm.DB {
					if un {
						tx = tx.Unscoped()
					}
					return tx.Where("v >= ?", 1).Delete(d.newModel())
				})
				r.Case("modes", fmt.Sprint(d.Name, "tosql-delete", un), true)
				wantPrefix := "UPDATE "
				if un {
					wantPrefix = "DELETE "
				}
				if !strings.HasPrefix(sql, wantPrefix) || (!un && !strings.Contains(sql, d.Col)) {
					r.Violate(Violation{Kind: "e2e", Suite: "modes", Input: c08ModeCase{Seed: seed, Decl: d.Name, Context: "ToSQL", Calls: []string{map[bool]string{false: "delete", true: "unscoped-delete"}[un]}},
						Observed: sql, Expected: wantPrefix + "… (Delete marks unless Unscoped)"})
				}
			}
		}
	}
}

func init() {
	register("C08", func(r *Result, rng *rand.Rand, tier string) {
		n := map[string]int{"quick": 152, "thorough": 6000, "search": 400}[tier]
		off := rng.Intn(len(c08Zoo))
		for i := 0; i < n && !expired(); i++ {
			c08ModeOne(r, rng.Int63(), off+i)
		}
	})
	replayers["C08/modes"] = func(r *Result, input json.RawMessage) {
		var c c08ModeCase
		if json.Unmarshal(input, &c) != nil {
			return
		}
		for i, d := range c08Zoo {
			if d.Name == c.Decl {
				c08ModeOne(r, c.Seed, i)
			}
		}
	}
}

// ---------------------------------------------------------------------------------------------
// ties of the round-4 models
//
// suite `modes.tie` (correspondence): Model/SoftDeleteMode.lean `filterModeNow` — which ZeroValue the live-row filter of the
//   query / update / delete path carries for a field whose `zeroValue:` tag is absent / valid / not parseable — against the
//   statement the real code renders in DryRun for generated tags: the text after the soft-delete column (`IS NULL` | `= ?`)
//   and the bound value.  `parseOk` (does the time library outside the tree accept the tag) is read off the real query clause value.
// suite `chain.tie` (correspondence): Model/AssocScope.lean `finisherUnscoped` — what a chain of *DB methods (Model, Where,
//   Clauses, Session{…} incl. NewDB, Unscoped …) does to Statement.Unscoped, with and without Config.PropagateUnscoped —
//   against the real handle after the same calls.

var c08TieTags = []string{"", "1970-01-01 00:00:01", "2000-01-01", "'1970-01-01 00:00:01'", "abc", "0", "0000-00-00", "12:30", "2006-01-02T15:04:05Z",
	"1999-12-31 23:59:59", "2020-02-30", "-1", "1970-01-01 00:00:01 ", "01/02/2006", "now"}

func c08ModeTie(r *Result, rng *rand.Rand, n int) {
	dbs, _, sqlDB := OpenRec(&gorm.Config{NowFunc: fixedNowFunc})
	defer sqlDB.Close()
	dry := dbs.Session(&gorm.Session{DryRun: true})
	type job struct {
		tag     string
		present bool
		ptr     bool
		col     string
		typ     reflect.Type
	}
	var jobs []job
	var ask [][]interface{}
	for i := 0; i < n; i++ {
		j := job{tag: c08TieTags[rng.Intn(len(c08TieTags))], present: rng.Intn(5) > 0, ptr: rng.Intn(3) == 0, col: []string{"deleted_at", "gone_at"}[rng.Intn(2)]}
		tag := "column:" + j.col
		if j.present {
			tag += ";zeroValue:" + j.tag
		}
		ft := reflect.TypeOf(gorm.DeletedAt{})
		if j.ptr {
			ft = reflect.PtrTo(ft)
		}
		j.typ = reflect.StructOf([]reflect.StructField{
			{Name: "ID", Type: reflect.TypeOf(uint(0)), Tag: `gorm:"primaryKey"`},
			{Name: "V", Type: reflect.TypeOf(0)},
			{Name: "Gone", Type: ft, Tag: reflect.StructTag(`gorm:"` + tag + `"`)},
		})
		// does the time library soft_delete.go asks (jinzhu/now, outside the tree) accept the tag?  Read off the clause value the
		// real constructor built for the QUERY path; the tie then is: text and bound value of all three paths follow from it
		parseOk := false
		stmt := &gorm.Statement{DB: dbs}
		if err := stmt.Parse(reflect.New(j.typ).Interface()); err == nil && len(stmt.Schema.QueryClauses) == 1 {
			if qc, ok := stmt.Schema.QueryClauses[0].(gorm.SoftDeleteQueryClause); ok {
				parseOk = qc.ZeroValue.Valid
			}
		}
		jobs = append(jobs, j)
		ask = append(ask, []interface{}{"c08.mode", j.present, j.present && parseOk, j.tag})
	}
	res, err := AskLean(ask)
	if err != nil {
		r.Violate(Violation{Kind: "correspondence", Suite: "modes.tie", Note: err.Error()})
		return
	}
	type pm struct {
		Valid bool   `json:"valid"`
		Zero  string `json:"zero"`
		Text  string `json:"text"`
	}
	for i, j := range jobs {
		var m map[string]pm
		if json.Unmarshal(res[i], &m) != nil || len(m) != 3 {
			r.Violate(Violation{Kind: "correspondence", Suite: "modes.tie", Input: j.tag, Observed: string(res[i]), Note: "the Lean driver does not answer c08.mode"})
			return
		}
		for _, path := range []string{"query", "update", "delete"} {
			mv := reflect.New(j.typ).Interface()
			var st *gorm.Statement
			switch path {
			case "query":
				st = dry.Table("tie_t").Where("v = ?", 1).Find(reflect.New(reflect.SliceOf(j.typ)).Interface()).Statement
			case "update":
				st = dry.Table("tie_t").Model(mv).Where("v = ?", 1).Update("v", 2).Statement
			default:
				st = dry.Table("tie_t").Where("v = ?", 1).Delete(mv).Statement
			}
			stmtSQL := st.SQL.String()
			col := "`tie_t`.`" + j.col + "`"
			k := strings.LastIndex(stmtSQL, col)
			text, zero := "(no filter)", ""
			if k >= 0 {
				text = stmtSQL[k+len(col):]
				if strings.HasPrefix(text, " = ?") && len(st.Vars) > 0 {
					zero = fmt.Sprint(st.Vars[len(st.Vars)-1])
					if ns, ok := st.Vars[len(st.Vars)-1].(sql.NullString); ok { // the bound value is the clause's ZeroValue itself
						zero = ns.String
					}
				}
			}
			r.CorrCompared++
			r.Case("modes.tie", fmt.Sprint(j.present, j.tag, j.ptr, path), j.present)
			r.H("modes.tie", fmt.Sprintf("%s: tag present=%v → %s", path, j.present, strings.TrimSpace(text)))
			want := m[path]
			if text != want.Text || zero != want.Zero {
				r.Violate(Violation{Kind: "correspondence", Suite: "modes.tie",
					Input:    map[string]interface{}{"tag_present": j.present, "tag": j.tag, "pointer": j.ptr, "path": path},
					Observed: map[string]string{"filter": text, "value": zero, "sql": stmtSQL}, Expected: want,
					Note: "the live-row filter of this path differs from Model/SoftDeleteMode.lean filterModeNow"})
			}
		}
	}
}

var c08ChainSteps = []string{"Model", "Where", "Not", "Clauses", "Select", "Omit", "Order", "Session{}", "Session{QueryFields: true}", "Session{NewDB: true}",
	"Session{NewDB: true, SkipHooks: true}", "Session{NewDB: false}", "Session{PrepareStmt: true}", "Unscoped", "Table", "Scopes"}

func c08ApplyStep(h *gorm.DB, step string) *gorm.DB {
	switch step {
	case "Model":
		return h.Model(&DValue{})
	case "Where":
		return h.Where("v = ?", 1)
	case "Not":
		return h.Not("v = ?", 2)
	case "Clauses":
		return h.Clauses(clause.Eq{Column: "v", Value: 3})
	case "Select":
		return h.Select("id")
	case "Omit":
		return h.Omit("name")
	case "Order":
		return h.Order("id")
	case "Table":
		return h.Table("d_values")
	case "Scopes":
		return h.Scopes(func(d *gorm.DB) *gorm.DB { return d })
	case "Unscoped":
		return h.Unscoped()
	case "Session{}":
		return h.Session(&gorm.Session{})
	case "Session{QueryFields: true}":
		return h.Session(&gorm.Session{QueryFields: true})
	case "Session{NewDB: true}":
		return h.Session(&gorm.Session{NewDB: true})
	case "Session{NewDB: true, SkipHooks: true}":
		return h.Session(&gorm.Session{NewDB: true, SkipHooks: true})
	case "Session{NewDB: false}":
		return h.Session(&gorm.Session{NewDB: false})
	case "Session{PrepareStmt: true}":
		return h.Session(&gorm.Session{PrepareStmt: true})
	}
	panic(step)
}

func c08ChainTie(r *Result, rng *rand.Rand, n int) {
	dbs := map[bool]*gorm.DB{}
	for _, p := range []bool{false, true} {
		db, _, sqlDB := OpenRec(&gorm.Config{NowFunc: fixedNowFunc, PropagateUnscoped: p, DryRun: true})
		defer sqlDB.Close()
		dbs[p] = db
	}
	type job struct {
		p, u  bool
		chain []string
	}
	var jobs []job
	var ask [][]interface{}
	for i := 0; i < n; i++ {
		j := job{p: rng.Intn(2) == 0, u: rng.Intn(2) == 0}
		for k, m := 0, rng.Intn(6); k < m; k++ {
			j.chain = append(j.chain, c08ChainSteps[rng.Intn(len(c08ChainSteps))])
		}
		if i < len(c08AssocChains) {
			j.chain = c08AssocChains[i]
		}
		steps := []interface{}{}
		for _, s := range j.chain {
			steps = append(steps, s)
		}
		jobs = append(jobs, j)
		ask = append(ask, []interface{}{"c08.chain", j.p, j.u, steps})
	}
	res, err := AskLean(ask)
	if err != nil {
		r.Violate(Violation{Kind: "correspondence", Suite: "chain.tie", Note: err.Error()})
		return
	}
	for i, j := range jobs {
		// the root: a chain in progress (clone 0), as `association.DB` — the result of db.Model(&owner) — is
		h := dbs[j.p].Session(&gorm.Session{}).Model(&DValue{})
		if j.u {
			h = h.Unscoped()
		}
		for _, s := range j.chain {
			h = c08ApplyStep(h, s)
		}
		// the statement the finisher works on
		var out []DValue
		got := h.Find(&out).Statement.Unscoped
		var want bool
		r.CorrCompared++
		r.Case("chain.tie", fmt.Sprint(j.p, j.u, j.chain), len(j.chain) > 1)
		r.H("chain.tie", fmt.Sprintf("propagate=%v unscoped=%v → %v", j.p, j.u, got))
		if json.Unmarshal(res[i], &want) != nil || got != want {
			r.Violate(Violation{Kind: "correspondence", Suite: "chain.tie", Input: map[string]interface{}{"propagate_unscoped": j.p, "root_unscoped": j.u, "chain": j.chain},
				Observed: got, Expected: string(res[i]), Note: "Statement.Unscoped at the finisher differs from Model/AssocScope.lean finisherUnscoped"})
		}
	}
}

// the chains association.go uses today (Gen/AssocScopeFacts.lean), and the one the NewDB fault would use
var c08AssocChains = [][]string{{"Model", "Where"}, {"Model", "Clauses"}, {"Session{}", "Model", "Clauses"}, {"Session{}", "Model", "Where"}, {"Where", "Model"},
	{"Model", "Session{QueryFields: true}", "Clauses"}, {"Session{}", "Model", "Select", "Session{}"}, {"Session{NewDB: true}", "Model", "Where"}}

func init() {
	register("C08", func(r *Result, rng *rand.Rand, tier string) {
		n := map[string]int{"quick": 150, "thorough": 2000, "search": 150}[tier]
		c08ModeTie(r, rng, n)
		c08ChainTie(r, rng, 4*n)
	})
}
