package main

// C15 round 4 — KEY SHAPES of the read models × every read path.
//
// Shapes (declared, legal gorm models; rows are inserted in NON-key order):
//
//	ab   : composite key (a uint, b uint), no auto-increment member, no ID field  → no prioritized primary field
//	sn   : composite key (code string, line int)                                   → no prioritized primary field
//	idt  : composite key (id uint, tenant uint): the ID field IS prioritized, but not unique on its own
//	str  : one string key `code`                 ref : one uint key not named ID (`ref`)
//	col  : the conventional ID field renamed with `column:rec_no`
//	none : no key at all (name, n, v)
//
// Leading key parts REPEAT in runs of 1..4 rows (composite shapes), start at the legitimate zero value ("" / 0) now
// and then, string keys are ordered bytewise ("B" < "a" < "b10" < "b9").  Paths: Find, Find into maps, Count, Pluck of
// the leading key column, First / Last / Take, FindInBatches with batch sizes 1..n+1 (boundaries inside runs of equal
// leading parts), all on `db.Model(&T{})` [+ Where v >= x].
//
// E2E oracle.  M = matching rows of the in-memory table.
//   Find / maps / Pluck : exactly M as a multiset (no ORDER BY is given: nothing is demanded of the order); Count = |M|
//   First / Last        : ErrRecordNotFound iff M is empty; otherwise a row of M whose LEADING key part is minimal /
//                         maximal (LATITUDE: which of several rows sharing that leading part — a composite key is
//                         ordered by its first column only; for single-column keys this is "the lowest / highest key");
//                         shape none: any row of M.  Take: any row of M
//   FindInBatches       : either no error, every row of M exactly once, leading parts non-decreasing (strictly
//                         increasing for single-column keys), every batch non-empty and ≤ the requested size,
//                         RowsAffected = |M| — or an HONEST refusal: ErrPrimaryKeyRequired with the rows delivered so far
//                         being distinct rows of M.  The refusal is accepted only where the schema gives no usable cursor
//                         (no prioritized primary field) or the last row of a batch carries a zero key; never for
//                         single-column keys with non-zero values.  A nil error with rows missing / repeated violates
//                         "exactly the rows Find would, once each".
//   Listed finding F7h-C15-composite-cursor: shape idt with a repeated id — the cursor `id > last` skips the rest of a run.
// Correspondence (`keys.batches`): per batch the leading parts delivered, and the ErrPrimaryKeyRequired flag, vs
// Gorm.KeyCursor.batchesK (cursor = schema has a prioritized field, or the regenerated fallback flag).

import (
	"encoding/json"
	"errors"
	"fmt"
	"math/rand"
	"os"
	"reflect"
	"sort"
	"strings"

	"gorm.io/gorm"
)

type C15KAB struct {
	A uint `gorm:"primaryKey;autoIncrement:false"`
	B uint `gorm:"primaryKey;autoIncrement:false"`
	V int
}
type C15KSN struct {
	Code string `gorm:"primaryKey"`
	Line int    `gorm:"primaryKey;autoIncrement:false"`
	V    int
}
type C15KIDT struct {
	ID     uint `gorm:"primaryKey;autoIncrement:false"`
	Tenant uint `gorm:"primaryKey;autoIncrement:false"`
	V      int
}
type C15KStr struct {
	Code string `gorm:"primaryKey"`
	V    int
}
type C15KRef struct {
	Ref uint `gorm:"primaryKey;autoIncrement:false"`
	V   int
}
type C15KCol struct {
	ID uint `gorm:"column:rec_no;primaryKey;autoIncrement:false"`
	V  int
}
type C15KNone struct {
	Name string
	N    int
	V    int
}

// bytewise-sorted alphabet of string key parts; index 0 is the zero value
var c15KStrs = []string{"", "B", "Zz", "a", "a b", "b10", "b9", "c", "c-1", "d", "e", "f", "g", "h", "i", "j", "k", "l", "m", "n", "o", "p", "q", "r", "s", "t"}

// a row: leading key part as RANK (ints: the value; strings: index into c15KStrs), second part, payload
type c15KRow struct {
	L int `json:"l"`
	B int `json:"b"`
	V int `json:"v"`
}

type c15KShape struct {
	name       string
	strLead    bool
	composite  bool
	hasPrio    bool
	uniqueLead bool
	noKey      bool
	leadCol    string
	bCol       string
}

type c15KOps struct {
	shape   c15KShape
	migrate func(db *gorm.DB) error
	insert  func(db *gorm.DB, rows []c15KRow) error
	model   func(db *gorm.DB) *gorm.DB
	find    func(h *gorm.DB) ([]c15KRow, *gorm.DB)
	one     func(h *gorm.DB, which string) (c15KRow, *gorm.DB)
	batches func(h *gorm.DB, n int, cb func(rows []c15KRow) error) *gorm.DB
}

func c15KMake[T any](shape c15KShape, to func(c15KRow) T, from func(T) c15KRow) c15KOps {
	return c15KOps{
		shape:   shape,
		migrate: func(db *gorm.DB) error { var z T; return db.AutoMigrate(&z) },
		insert: func(db *gorm.DB, rows []c15KRow) error {
			xs := make([]T, len(rows))
			for i, r := range rows {
				xs[i] = to(r)
			}
			return db.Create(&xs).Error
		},
		model: func(db *gorm.DB) *gorm.DB { var z T; return db.Model(&z) },
		find: func(h *gorm.DB) ([]c15KRow, *gorm.DB) {
			var xs []T
			tx := h.Find(&xs)
			out := make([]c15KRow, len(xs))
			for i, x := range xs {
				out[i] = from(x)
			}
			return out, tx
		},
		one: func(h *gorm.DB, which string) (c15KRow, *gorm.DB) {
			var x T
			var tx *gorm.DB
			switch which {
			case "first":
				tx = h.First(&x)
			case "last":
				tx = h.Last(&x)
			default:
				tx = h.Take(&x)
			}
			return from(x), tx
		},
		batches: func(h *gorm.DB, n int, cb func(rows []c15KRow) error) *gorm.DB {
			var xs []T
			return h.FindInBatches(&xs, n, func(_ *gorm.DB, _ int) error {
				out := make([]c15KRow, len(xs))
				for i, x := range xs {
					out[i] = from(x)
				}
				return cb(out)
			})
		},
	}
}

func c15KStrRank(s string) int {
	for i, x := range c15KStrs {
		if x == s {
			return i
		}
	}
	return -1
}

var c15KShapes = map[string]c15KOps{
	"ab": c15KMake(c15KShape{name: "ab", composite: true, leadCol: "a", bCol: "b"},
		func(r c15KRow) C15KAB { return C15KAB{A: uint(r.L), B: uint(r.B), V: r.V} },
		func(x C15KAB) c15KRow { return c15KRow{int(x.A), int(x.B), x.V} }),
	"sn": c15KMake(c15KShape{name: "sn", composite: true, strLead: true, leadCol: "code", bCol: "line"},
		func(r c15KRow) C15KSN { return C15KSN{Code: c15KStrs[r.L], Line: r.B, V: r.V} },
		func(x C15KSN) c15KRow { return c15KRow{c15KStrRank(x.Code), x.Line, x.V} }),
	"idt": c15KMake(c15KShape{name: "idt", composite: true, hasPrio: true, leadCol: "id", bCol: "tenant"},
		func(r c15KRow) C15KIDT { return C15KIDT{ID: uint(r.L), Tenant: uint(r.B), V: r.V} },
		func(x C15KIDT) c15KRow { return c15KRow{int(x.ID), int(x.Tenant), x.V} }),
	"str": c15KMake(c15KShape{name: "str", strLead: true, hasPrio: true, uniqueLead: true, leadCol: "code"},
		func(r c15KRow) C15KStr { return C15KStr{Code: c15KStrs[r.L], V: r.V} },
		func(x C15KStr) c15KRow { return c15KRow{c15KStrRank(x.Code), 0, x.V} }),
	"ref": c15KMake(c15KShape{name: "ref", hasPrio: true, uniqueLead: true, leadCol: "ref"},
		func(r c15KRow) C15KRef { return C15KRef{Ref: uint(r.L), V: r.V} },
		func(x C15KRef) c15KRow { return c15KRow{int(x.Ref), 0, x.V} }),
	"col": c15KMake(c15KShape{name: "col", hasPrio: true, uniqueLead: true, leadCol: "rec_no"},
		func(r c15KRow) C15KCol { return C15KCol{ID: uint(r.L), V: r.V} },
		func(x C15KCol) c15KRow { return c15KRow{int(x.ID), 0, x.V} }),
	"none": c15KMake(c15KShape{name: "none", composite: true, strLead: true, noKey: true, leadCol: "name", bCol: "n"},
		func(r c15KRow) C15KNone { return C15KNone{Name: c15KStrs[r.L], N: r.B, V: r.V} },
		func(x C15KNone) c15KRow { return c15KRow{c15KStrRank(x.Name), x.N, x.V} }),
}

type c15KStep struct {
	Path  string `json:"path"` // find maps count pluck first last take batches
	Batch int    `json:"batch,omitempty"`
}

type c15KScn struct {
	Shape string     `json:"shape"`
	Rows  []c15KRow  `json:"rows"` // in key order
	Perm  []int      `json:"perm"` // insertion order
	MinV  *int       `json:"minv,omitempty"`
	Steps []c15KStep `json:"steps"`
}

func (s *c15KScn) match() []c15KRow {
	var out []c15KRow
	for _, r := range s.Rows {
		if s.MinV == nil || r.V >= *s.MinV {
			out = append(out, r)
		}
	}
	return out
}

func c15KSortRows(rows []c15KRow) []c15KRow {
	out := append([]c15KRow{}, rows...)
	sort.SliceStable(out, func(i, j int) bool {
		if out[i].L != out[j].L {
			return out[i].L < out[j].L
		}
		if out[i].B != out[j].B {
			return out[i].B < out[j].B
		}
		return out[i].V < out[j].V
	})
	return out
}

type c15KOut struct {
	Rows    []c15KRow   `json:"rows"`
	Batches [][]c15KRow `json:"batches,omitempty"`
	RA      int64       `json:"ra"`
	Err     string      `json:"err,omitempty"`
	Count   int64       `json:"count,omitempty"`
}

func c15KErrName(err error) string {
	if errors.Is(err, gorm.ErrPrimaryKeyRequired) {
		return "pkrequired"
	}
	return c15ErrName(err)
}

func c15KRun(ops c15KOps, db *gorm.DB, s *c15KScn, st c15KStep) (out *c15KOut) {
	out = &c15KOut{Rows: []c15KRow{}}
	defer func() {
		if x := recover(); x != nil {
			out.Err = fmt.Sprintf("error:panic: %v", x)
		}
	}()
	h := ops.model(db)
	if s.MinV != nil {
		h = h.Where("v >= ?", *s.MinV)
	}
	sh := ops.shape
	var tx *gorm.DB
	switch st.Path {
	case "find":
		out.Rows, tx = ops.find(h)
	case "maps":
		var ms []map[string]interface{}
		tx = h.Find(&ms)
		for _, m := range ms {
			r := c15KRow{}
			lv := m[sh.leadCol]
			if sh.strLead {
				r.L = c15KStrRank(strings.TrimPrefix(c15QCanon(lv), "s:"))
			} else {
				r.L, _ = c15Int(lv)
			}
			if sh.bCol != "" {
				r.B, _ = c15Int(m[sh.bCol])
			}
			r.V, _ = c15Int(m["v"])
			out.Rows = append(out.Rows, r)
		}
	case "count":
		tx = h.Count(&out.Count)
	case "pluck":
		if sh.strLead {
			var vs []string
			tx = h.Pluck(sh.leadCol, &vs)
			for _, v := range vs {
				out.Rows = append(out.Rows, c15KRow{L: c15KStrRank(v)})
			}
		} else {
			var vs []int
			tx = h.Pluck(sh.leadCol, &vs)
			for _, v := range vs {
				out.Rows = append(out.Rows, c15KRow{L: v})
			}
		}
	case "first", "last", "take":
		var r c15KRow
		r, tx = ops.one(h, st.Path)
		if tx.Error == nil {
			out.Rows = append(out.Rows, r)
		}
	case "batches":
		nb := 0
		tx = ops.batches(h, st.Batch, func(rows []c15KRow) error {
			out.Batches = append(out.Batches, rows)
			out.Rows = append(out.Rows, rows...)
			nb++
			if nb > len(s.Rows)+3 {
				return errC15Abort
			}
			return nil
		})
	default:
		panic("keys path " + st.Path)
	}
	if tx != nil {
		out.RA = tx.RowsAffected
		out.Err = c15KErrName(tx.Error)
	}
	return out
}

func c15KJudge(sh c15KShape, s *c15KScn, st c15KStep, out *c15KOut) string {
	m := s.match()
	if strings.HasPrefix(out.Err, "error:") || out.Err == "abort" {
		return "unexpected error " + out.Err
	}
	in := map[c15KRow]int{}
	for _, r := range m {
		in[r]++
	}
	sameSet := func(got []c15KRow, proj func(c15KRow) c15KRow) string {
		a, b := []c15KRow{}, []c15KRow{}
		for _, r := range got {
			a = append(a, proj(r))
		}
		for _, r := range m {
			b = append(b, proj(r))
		}
		a, b = c15KSortRows(a), c15KSortRows(b)
		if !reflect.DeepEqual(a, b) {
			return fmt.Sprintf("rows %v, the table holds %v", a, b)
		}
		return ""
	}
	id := func(r c15KRow) c15KRow { return r }
	switch st.Path {
	case "find", "maps":
		if out.Err != "" {
			return "unexpected " + out.Err
		}
		if int(out.RA) != len(out.Rows) {
			return fmt.Sprintf("RowsAffected %d, rows returned %d", out.RA, len(out.Rows))
		}
		return sameSet(out.Rows, id)
	case "pluck":
		if out.Err != "" {
			return "unexpected " + out.Err
		}
		return sameSet(out.Rows, func(r c15KRow) c15KRow { return c15KRow{L: r.L} })
	case "count":
		if out.Err != "" {
			return "unexpected " + out.Err
		}
		if int(out.Count) != len(m) {
			return fmt.Sprintf("Count = %d, Find returns %d rows", out.Count, len(m))
		}
		return ""
	case "first", "last", "take":
		if (out.Err == "notfound") != (len(m) == 0) {
			return fmt.Sprintf("ErrRecordNotFound=%v but %d matching row(s)", out.Err == "notfound", len(m))
		}
		if out.Err != "" && out.Err != "notfound" {
			return "unexpected " + out.Err
		}
		if len(m) == 0 {
			return ""
		}
		r := out.Rows[0]
		if in[r] == 0 {
			return fmt.Sprintf("row %v is not a matching row of the table", r)
		}
		if st.Path == "take" || sh.noKey {
			return ""
		}
		for _, x := range m {
			if st.Path == "first" && x.L < r.L {
				return fmt.Sprintf("First returned key (%d,%d) but (%d,%d) has a lower key", r.L, r.B, x.L, x.B)
			}
			if st.Path == "last" && x.L > r.L {
				return fmt.Sprintf("Last returned key (%d,%d) but (%d,%d) has a higher key", r.L, r.B, x.L, x.B)
			}
		}
		return ""
	case "batches":
		seen := map[c15KRow]int{}
		for _, r := range out.Rows {
			seen[r]++
			if in[r] == 0 {
				return fmt.Sprintf("batches deliver row %v which is not a matching row", r)
			}
			if seen[r] > in[r] {
				return fmt.Sprintf("batches deliver row %v more than once", r)
			}
		}
		for _, b := range out.Batches {
			if len(b) == 0 || len(b) > st.Batch {
				return fmt.Sprintf("batch of size %d (requested %d)", len(b), st.Batch)
			}
		}
		for i := 1; i < len(out.Rows); i++ {
			if out.Rows[i].L < out.Rows[i-1].L || (sh.uniqueLead && out.Rows[i].L == out.Rows[i-1].L) {
				return fmt.Sprintf("batches not in key order: %v", out.Rows)
			}
		}
		switch out.Err {
		case "":
			if len(out.Rows) != len(m) {
				return fmt.Sprintf("FindInBatches reported success but delivered %d of the %d rows Find returns (delivered %v)", len(out.Rows), len(m), out.Rows)
			}
			if int(out.RA) != len(m) {
				return fmt.Sprintf("RowsAffected %d, rows delivered %d", out.RA, len(out.Rows))
			}
		case "pkrequired":
			// honest refusal: only where there is no usable cursor
			zeroLast := false
			for _, b := range out.Batches {
				if len(b) > 0 && b[len(b)-1].L == 0 {
					zeroLast = true
				}
			}
			if sh.hasPrio && !zeroLast {
				return "ErrPrimaryKeyRequired although the model has a usable non-zero key cursor"
			}
		default:
			return "unexpected " + out.Err
		}
		return ""
	}
	panic("keys judge " + st.Path)
}

// the pattern of F7h-C15-composite-cursor: prioritized field that is not unique, and a matching run of equal ids
func c15KF7h(sh c15KShape, s *c15KScn, st c15KStep) bool {
	if !(sh.hasPrio && !sh.uniqueLead && st.Path == "batches") {
		return false
	}
	m := s.match()
	for i := 1; i < len(m); i++ {
		if m[i].L == m[i-1].L {
			return true
		}
	}
	return false
}

// ---- generator -------------------------------------------------------------------------------------------------

var c15KShapeNames = []string{"ab", "ab", "sn", "sn", "idt", "str", "ref", "col", "none"}

func c15KGenScn(rng *rand.Rand, maxN int) *c15KScn {
	s := &c15KScn{Shape: c15KShapeNames[rng.Intn(len(c15KShapeNames))]}
	sh := c15KShapes[s.Shape].shape
	n := rng.Intn(maxN + 1)
	l := 1
	if rng.Intn(5) == 0 {
		l = 0 // a legitimate zero leading part
	}
	repeat := sh.composite
	if s.Shape == "idt" && rng.Intn(10) < 7 {
		repeat = false // stay outside the listed finding most of the time
	}
	b := 0
	for i := 0; i < n; i++ {
		if i > 0 {
			if repeat && rng.Intn(5) < 3 {
				b += 1 + rng.Intn(2)
			} else {
				l += 1 + rng.Intn(2)
				b = rng.Intn(2)
			}
		}
		if l >= len(c15KStrs) {
			break
		}
		s.Rows = append(s.Rows, c15KRow{L: l, B: b, V: rng.Intn(5)})
	}
	if !sh.composite {
		for i := range s.Rows {
			s.Rows[i].B = 0
		}
	}
	s.Perm = rng.Perm(len(s.Rows))
	if rng.Intn(3) == 0 {
		v := rng.Intn(4)
		s.MinV = &v
	}
	paths := []string{"find", "maps", "count", "pluck", "first", "last", "take", "batches", "batches", "batches", "batches"}
	k := 3 + rng.Intn(5)
	for i := 0; i < k; i++ {
		st := c15KStep{Path: paths[rng.Intn(len(paths))]}
		if st.Path == "batches" {
			st.Batch = 1 + rng.Intn(len(s.Rows)+1)
			if rng.Intn(2) == 0 && len(s.Rows) > 2 {
				st.Batch = 1 + rng.Intn(3)
			}
		}
		s.Steps = append(s.Steps, st)
	}
	return s
}

// ---- suite -----------------------------------------------------------------------------------------------------

type c15KPend struct {
	scn  *c15KScn
	st   c15KStep
	out  *c15KOut
	op   []interface{}
	rows []c15KRow
}

func c15KRunScn(r *Result, s *c15KScn, pend *[]*c15KPend) {
	ops, ok := c15KShapes[s.Shape]
	if !ok {
		r.Note("unknown key shape %q", s.Shape)
		return
	}
	sh := ops.shape
	db, _, _ := OpenRec(nil)
	if err := ops.migrate(db); err != nil {
		panic(err)
	}
	if len(s.Rows) > 0 {
		ins := make([]c15KRow, len(s.Rows))
		for i, pi := range s.Perm {
			ins[i] = s.Rows[pi]
		}
		if err := ops.insert(db, ins); err != nil {
			panic(err)
		}
	}
	m := s.match()
	for _, st := range s.Steps {
		out := c15KRun(ops, db, s, st)
		r.Case("keys", canon([]interface{}{s.Shape, s.Rows, s.MinV, st}), len(m) > 1)
		r.H("keys.shape", s.Shape)
		r.H("keys.path", st.Path)
		r.H("keys.err", out.Err)
		if st.Path == "batches" {
			r.H("keys.batches", fmt.Sprint(len(out.Batches)))
		}
		msg := c15KJudge(sh, s, st, out)
		if msg != "" && c15KF7h(sh, s, st) && listed("F7h-C15-composite-cursor") && out.Err == "" && strings.HasPrefix(msg, "FindInBatches reported success but delivered") {
			r.KnownFinding("F7h-C15-composite-cursor", fmt.Sprintf("key (id, tenant) rows %v batch %d: %s", m, st.Batch, msg))
			msg = ""
		}
		if msg != "" {
			one := *s
			one.Steps = []c15KStep{st}
			r.Violate(Violation{Kind: "e2e", Suite: "keys", Input: &one, Observed: map[string]interface{}{"step": st, "out": out}, Expected: msg,
				Note: "read path on a model with this key shape disagrees with the in-memory table"})
			continue
		}
		if pend != nil && st.Path == "batches" && (out.Err == "" || out.Err == "pkrequired") {
			rows := []interface{}{}
			for i, x := range m {
				rows = append(rows, []int{i, x.L})
			}
			*pend = append(*pend, &c15KPend{scn: s, st: st, out: out, rows: m,
				op: []interface{}{"keys.batches", rows, st.Batch, sh.hasPrio}})
		}
	}
}

func c15KFlush(r *Result, pend *[]*c15KPend) {
	if len(*pend) == 0 {
		return
	}
	ops := make([][]interface{}, len(*pend))
	for i, p := range *pend {
		ops[i] = p.op
	}
	outs, err := AskLean(ops)
	if err != nil {
		r.Violate(Violation{Kind: "correspondence", Suite: "keys.batches", Note: err.Error()})
		*pend = nil
		return
	}
	nv := 0
	for i, p := range *pend {
		r.CorrCompared++
		var a struct {
			Batches [][]int `json:"batches"`
			PK      bool    `json:"pk"`
			Fuel    bool    `json:"fuel"`
		}
		d := ""
		if err := json.Unmarshal(outs[i], &a); err != nil {
			d = "bad model answer " + string(outs[i])
		} else {
			// leading parts per batch (which of several rows sharing a leading part comes first is not compared)
			ml, rl := [][]int{}, [][]int{}
			for _, b := range a.Batches {
				ls := []int{}
				for _, i := range b {
					ls = append(ls, p.rows[i].L)
				}
				ml = append(ml, ls)
			}
			for _, b := range p.out.Batches {
				ls := []int{}
				for _, x := range b {
					ls = append(ls, x.L)
				}
				rl = append(rl, ls)
			}
			if a.Fuel {
				d = "model ran out of fuel"
			} else if a.PK != (p.out.Err == "pkrequired") {
				d = fmt.Sprintf("ErrPrimaryKeyRequired real %v model %v", p.out.Err == "pkrequired", a.PK)
			} else if !reflect.DeepEqual(ml, rl) {
				d = fmt.Sprintf("leading key parts per batch real %v model %v", rl, ml)
			}
		}
		if d != "" && nv < 3 {
			nv++
			one := *p.scn
			one.Steps = []c15KStep{p.st}
			r.Violate(Violation{Kind: "correspondence", Suite: "keys.batches", Input: &one, Observed: map[string]interface{}{"step": p.st, "out": p.out}, Expected: d,
				Note: "real FindInBatches on this key shape vs Gorm.KeyCursor.batchesK"})
		}
	}
	*pend = nil
}

func init() {
	register("C15", func(r *Result, _ *rand.Rand, tier string) {
		if only := os.Getenv("C15_ONLY"); only != "" && !strings.Contains(only, "keys") {
			return
		}
		rng := rand.New(rand.NewSource(r.Seed*15485863 + 5))
		rounds, maxN := 450, 9
		if tier == "thorough" {
			rounds, maxN = 12000, 20
		} else if tier == "search" {
			rounds, maxN = 4000, 12
		}
		var pend []*c15KPend
		for i := 0; i < rounds && !expired(); i++ {
			s := c15KGenScn(rng, maxN)
			if i%90 == 0 {
				r.Sample(map[string]interface{}{"suite": "keys", "input": s})
			}
			c15KRunScn(r, s, &pend)
		}
		// dedicated probe of the listed finding: ids 1,1,1,2 under tenants 1,2,3,1, batch 2
		if listed("F7h-C15-composite-cursor") {
			probe := &c15KScn{Shape: "idt", Rows: []c15KRow{{1, 1, 0}, {1, 2, 0}, {1, 3, 0}, {2, 1, 0}}, Perm: []int{2, 0, 3, 1}, Steps: []c15KStep{{Path: "batches", Batch: 2}}}
			c15KRunScn(r, probe, &pend)
		}
		c15KFlush(r, &pend)
	})
	replayers["C15/keys"] = func(r *Result, input json.RawMessage) {
		var s c15KScn
		if err := json.Unmarshal(input, &s); err != nil {
			r.Note("bad replay input: %v", err)
			return
		}
		c15KRunScn(r, &s, nil)
	}
	replayers["C15/keys.batches"] = replayers["C15/keys"]
}
