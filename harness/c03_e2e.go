package main

// C03 end-to-end oracle: model types generated from a grammar (reflect.StructOf over field kinds × tags) plus a
// fixed library of named types with methods; AutoMigrate → Create (single / slice of values / slice of pointers /
// CreateInBatches / map / slice of maps) → Find / First / Take into fresh structs and into maps → compare field by
// field.  With and without RETURNING.  Also suite "rt": single-field database round trip vs the Lean store/load
// model (validates the MODELLED part of the round-trip theorem against real SQLite).
//
// LATITUDE (accepted, because the property text does not decide it):
//   * nil and empty []byte are equal; a nil embedded-struct pointer equals a pointer to an all-zero struct
//     (only column-backed field values are compared);
//   * times are compared as instants (UTC, monotonic reading stripped);
//   * a zero-valued field with a `default:` tag or auto-time tag may be replaced by gorm: then only
//     loaded == in-memory-after-Create is demanded (plus == NowFunc for auto-time);
//   * map reads are compared on the stored representation (bool as 0/1, integral REAL == INTEGER);
//   * a nil pointer to a self-serializing / Scanner struct type equals a pointer to its zero value;
//   * map keys of Create-from-map are column names on schemas with crossing names (a key that is both a column and
//     another field's Go name means the column);
//   * Pluck is asked only for non-pointer plain kinds (it scans into a bare *T, NULL is not representable there);
//     maps read through the model only for schemas of plainly stored kinds.
// SCHEMA NAMING STYLES: plain (F<i>/f<i>, renamed columns) | cycle | chain | cycle+emb — in the cross styles the column
// of one field is the Go name of another field (or of an embedded member), see c03GenSchema.
// READ PATHS (every one pushes several rows through the same scan code; all copies are judged after ALL loads, then
// one copy is overwritten and the others must not change): Find(&[]T), Find(&[]*T), Find(&[]map), Model.Find(&[]map),
// Rows+ScanRows, FindInBatches, Find(&[]Small), Pluck, First, Take, Take(&map); Joins in c03_joins.go.
// EXCLUDED from generation (not representable in SQLite/go-sqlite3 or ill-formed): uint64 >= 2^63, NaN, -0.0
// (SQLite hands it back as 0.0), defined bool types without Scanner (database/sql cannot scan SQLite's integer
// into them), NUL bytes and invalid UTF-8 in strings, times outside years 1..9999, empty-but-non-nil slices/maps inside
// gob fields (gob does not transmit them), two fields mapping to one column.

import (
	"database/sql"
	"database/sql/driver"
	"encoding/hex"
	"encoding/json"
	"errors"
	"fmt"
	"math"
	"math/rand"
	"reflect"
	"sort"
	"strconv"
	"strings"
	"time"

	"gorm.io/gorm"
)

// ---- library of named types with methods ----

// value-receiver Valuer, pointer-receiver Scanner, stored as text "a|b"
type CVPair struct {
	A int
	B string
}

func (p CVPair) Value() (driver.Value, error) { return fmt.Sprintf("%d|%s", p.A, p.B), nil }
func (p *CVPair) Scan(v interface{}) error {
	var s string
	switch x := v.(type) {
	case nil:
		*p = CVPair{}
		return nil
	case string:
		s = x
	case []byte:
		s = string(x)
	default:
		return fmt.Errorf("CVPair: cannot scan %T", v)
	}
	i := strings.IndexByte(s, '|')
	if i < 0 {
		return errors.New("CVPair: bad text")
	}
	n, err := strconv.Atoi(s[:i])
	*p = CVPair{A: n, B: s[i+1:]}
	return err
}

// custom string type with both methods on value/pointer
type CUpper string

func (c CUpper) Value() (driver.Value, error) { return "U:" + string(c), nil }
func (c *CUpper) Scan(v interface{}) error {
	switch x := v.(type) {
	case nil:
		*c = ""
	case string:
		*c = CUpper(strings.TrimPrefix(x, "U:"))
	case []byte:
		*c = CUpper(strings.TrimPrefix(string(x), "U:"))
	default:
		return fmt.Errorf("CUpper: cannot scan %T", v)
	}
	return nil
}

// custom int type stored shifted (pointer receiver Scanner, value receiver Valuer)
type CShift int32

func (c CShift) Value() (driver.Value, error) { return int64(c) + 1000, nil }
func (c *CShift) Scan(v interface{}) error {
	switch x := v.(type) {
	case nil:
		*c = 0
	case int64:
		*c = CShift(x - 1000)
	default:
		return fmt.Errorf("CShift: cannot scan %T", v)
	}
	return nil
}

type EmbA struct {
	EA int16
	EB string
}
type EmbB struct {
	X *int64
	Y bool
}
type SerDoc struct {
	N    int
	S    string
	L    []string
	M    map[string]int
	Deep *SerDoc
}

// ---- field atoms ----

type c03Atom struct {
	Name   string
	Typ    reflect.Type
	Gen    func(rng *rand.Rand) reflect.Value
	Tag    string   // mandatory tag part (serializer, embedded…)
	Opt    []string // optional tag variants
	NoMap  bool     // not comparable in map reads / not creatable from maps
	Canon  func(v reflect.Value) string
	MapVal func(v reflect.Value) interface{} // stored representation (nil func = generic)
}

var c03UniStrings = []string{"", "a", "it's", `say "hi"`, `back\slash`, "line\nbreak", "tab\there", "héllo wörld", "日本語", "emoji 🙂", "%_like", "  spaced  ", "NULL", "0", "'; DROP TABLE x; --", strings.Repeat("x", 300)}

func rv(x interface{}) reflect.Value { return reflect.ValueOf(x) }

func genI(rng *rand.Rand, min, max int64) int64 {
	switch rng.Intn(6) {
	case 0:
		return 0
	case 1:
		return min
	case 2:
		return max
	case 3:
		return int64(rng.Intn(200) - 100)
	}
	if max-min <= 0 { // full int64 range
		return int64(rng.Uint64())
	}
	return min + rng.Int63n(max-min) + int64(rng.Intn(2))
}
func genU(rng *rand.Rand, max uint64) uint64 {
	switch rng.Intn(5) {
	case 0:
		return 0
	case 1:
		return max
	case 2:
		return uint64(rng.Intn(300))
	}
	return rng.Uint64() % (max/2 + 1) * 2 % (max + 1)
}
func genF(rng *rand.Rand) float64 {
	fs := []float64{0, 1, -1, 0.1, 1e-300, 1e300, math.MaxFloat64, math.SmallestNonzeroFloat64, math.Inf(1), math.Inf(-1), 3.141592653589793, 1 << 53, 123456789.125}
	if rng.Intn(3) == 0 {
		return rng.NormFloat64() * math.Pow(10, float64(rng.Intn(40)-20))
	}
	return fs[rng.Intn(len(fs))]
}
func genS(rng *rand.Rand) string { return c03UniStrings[rng.Intn(len(c03UniStrings))] }
func genT(rng *rand.Rand) time.Time {
	switch rng.Intn(7) {
	case 0:
		return time.Time{}
	case 1:
		return time.Date(9999, 12, 31, 23, 59, 59, 999999999, time.UTC)
	case 2:
		return time.Date(1, 1, 1, 0, 0, 0, 1, time.UTC)
	case 3:
		return time.Date(2024, 2, 29, 13, 14, 15, 123456789, time.FixedZone("X", 5*3600+1800))
	case 4:
		return time.Unix(rng.Int63n(4e9), 0).UTC()
	}
	return time.Unix(rng.Int63n(4e9)-1e9, int64(rng.Intn(1e9))).UTC()
}
func genBytes(rng *rand.Rand) []byte {
	switch rng.Intn(5) {
	case 0:
		return nil
	case 1:
		return []byte{}
	case 2:
		return []byte{0, 1, 2, 255, 0}
	}
	b := make([]byte, rng.Intn(40))
	rng.Read(b)
	return b
}
func genDoc(rng *rand.Rand, gob bool, depth int) SerDoc {
	d := SerDoc{N: rng.Intn(100) - 50, S: genS(rng)}
	if rng.Intn(2) == 0 {
		d.L = []string{genS(rng), "x"}
	} else if !gob && rng.Intn(3) == 0 {
		d.L = []string{}
	}
	if rng.Intn(2) == 0 {
		d.M = map[string]int{"a": rng.Intn(9), "b'": -1}
	}
	if depth > 0 && rng.Intn(3) == 0 {
		c := genDoc(rng, gob, depth-1)
		d.Deep = &c
	}
	return d
}

// ptrTo wraps a generator: nil one time in three
func ptrTo(t reflect.Type, g func(rng *rand.Rand) reflect.Value) func(rng *rand.Rand) reflect.Value {
	return func(rng *rand.Rand) reflect.Value {
		if rng.Intn(3) == 0 {
			return reflect.Zero(reflect.PointerTo(t))
		}
		p := reflect.New(t)
		p.Elem().Set(g(rng).Convert(t))
		return p
	}
}

func c03Atoms() []c03Atom {
	var as []c03Atom
	basic := func(name string, zero interface{}, g func(rng *rand.Rand) reflect.Value, opt ...string) {
		t := reflect.TypeOf(zero)
		as = append(as, c03Atom{Name: name, Typ: t, Gen: func(r *rand.Rand) reflect.Value { return g(r).Convert(t) }, Opt: opt})
		var popt []string
		for _, o := range opt { // pointer fields carry the default: variants too (nil = zero ⇒ default applies; non-nil is kept)
			if strings.HasPrefix(o, "default:") {
				popt = append(popt, o)
			}
		}
		as = append(as, c03Atom{Name: "*" + name, Typ: reflect.PointerTo(t), Gen: ptrTo(t, g), Opt: popt})
	}
	basic("bool", false, func(r *rand.Rand) reflect.Value { return rv(r.Intn(2) == 0) }, "default:true", "default:false")
	basic("int8", int8(0), func(r *rand.Rand) reflect.Value { return rv(genI(r, math.MinInt8, math.MaxInt8)) })
	basic("int16", int16(0), func(r *rand.Rand) reflect.Value { return rv(genI(r, math.MinInt16, math.MaxInt16)) }, "default:-5")
	basic("int32", int32(0), func(r *rand.Rand) reflect.Value { return rv(genI(r, math.MinInt32, math.MaxInt32)) })
	basic("int64", int64(0), func(r *rand.Rand) reflect.Value { return rv(genI(r, math.MinInt64, math.MaxInt64)) }, "default:42", "default:(abs(-7))", "autoCreateTime", "autoCreateTime:nano", "autoUpdateTime:milli", "serializer:unixtime;type:datetime")
	basic("int", int(0), func(r *rand.Rand) reflect.Value { return rv(genI(r, math.MinInt64, math.MaxInt64)) }, "default:7", "default:(1+1)")
	basic("uint8", uint8(0), func(r *rand.Rand) reflect.Value { return rv(genU(r, math.MaxUint8)) })
	basic("uint16", uint16(0), func(r *rand.Rand) reflect.Value { return rv(genU(r, math.MaxUint16)) })
	basic("uint32", uint32(0), func(r *rand.Rand) reflect.Value { return rv(genU(r, math.MaxUint32)) }, "default:9")
	basic("uint64", uint64(0), func(r *rand.Rand) reflect.Value { return rv(genU(r, math.MaxInt64)) })
	basic("uint", uint(0), func(r *rand.Rand) reflect.Value { return rv(genU(r, math.MaxInt64)) }, "autoUpdateTime")
	basic("float32", float32(0), func(r *rand.Rand) reflect.Value { return rv(float32(genF(r))) })
	basic("float64", float64(0), func(r *rand.Rand) reflect.Value { return rv(genF(r)) }, "default:1.5")
	basic("string", "", func(r *rand.Rand) reflect.Value { return rv(genS(r)) }, "default:abc", "default:'q w'", "size:500", "default:(lower('QW'))", "default:(lower(hex(randomblob(4))))")
	basic("time", time.Time{}, func(r *rand.Rand) reflect.Value { return rv(genT(r)) }, "autoCreateTime", "autoUpdateTime")
	as = append(as, c03Atom{Name: "bytes", Typ: reflect.TypeOf([]byte(nil)), Gen: func(r *rand.Rand) reflect.Value { return rv(genBytes(r)) }})
	// defined types without methods
	as = append(as,
		c03Atom{Name: "MyStr", Typ: reflect.TypeOf(MyStr("")), Gen: func(r *rand.Rand) reflect.Value { return rv(MyStr(genS(r))) }},
		c03Atom{Name: "MyI32", Typ: reflect.TypeOf(MyI32(0)), Gen: func(r *rand.Rand) reflect.Value { return rv(MyI32(genI(r, math.MinInt32, math.MaxInt32))) }},
		c03Atom{Name: "MyU16", Typ: reflect.TypeOf(MyU16(0)), Gen: func(r *rand.Rand) reflect.Value { return rv(MyU16(genU(r, math.MaxUint16))) }},
		c03Atom{Name: "MyF64", Typ: reflect.TypeOf(MyF64(0)), Gen: func(r *rand.Rand) reflect.Value { return rv(MyF64(genF(r))) }},
		c03Atom{Name: "*MyI64", Typ: reflect.TypeOf((*MyI64)(nil)), Gen: ptrTo(reflect.TypeOf(MyI64(0)), func(r *rand.Rand) reflect.Value { return rv(MyI64(genI(r, math.MinInt64, math.MaxInt64))) })},
		c03Atom{Name: "MyBytes", Typ: reflect.TypeOf(MyBytes(nil)), Gen: func(r *rand.Rand) reflect.Value { return rv(MyBytes(genBytes(r))) }},
	)
	// nullable wrappers
	as = append(as,
		c03Atom{Name: "NullInt64", Typ: reflect.TypeOf(sql.NullInt64{}), Gen: func(r *rand.Rand) reflect.Value {
			if r.Intn(3) == 0 {
				return rv(sql.NullInt64{})
			}
			return rv(sql.NullInt64{Int64: genI(r, math.MinInt64, math.MaxInt64), Valid: true})
		}},
		c03Atom{Name: "NullInt32", Typ: reflect.TypeOf(sql.NullInt32{}), Gen: func(r *rand.Rand) reflect.Value {
			if r.Intn(3) == 0 {
				return rv(sql.NullInt32{})
			}
			return rv(sql.NullInt32{Int32: int32(genI(r, math.MinInt32, math.MaxInt32)), Valid: true})
		}},
		c03Atom{Name: "NullString", Typ: reflect.TypeOf(sql.NullString{}), Gen: func(r *rand.Rand) reflect.Value {
			if r.Intn(3) == 0 {
				return rv(sql.NullString{})
			}
			return rv(sql.NullString{String: genS(r), Valid: true})
		}},
		c03Atom{Name: "NullBool", Typ: reflect.TypeOf(sql.NullBool{}), Gen: func(r *rand.Rand) reflect.Value {
			if r.Intn(3) == 0 {
				return rv(sql.NullBool{})
			}
			return rv(sql.NullBool{Bool: r.Intn(2) == 0, Valid: true})
		}},
		c03Atom{Name: "NullFloat64", Typ: reflect.TypeOf(sql.NullFloat64{}), Gen: func(r *rand.Rand) reflect.Value {
			if r.Intn(3) == 0 {
				return rv(sql.NullFloat64{})
			}
			return rv(sql.NullFloat64{Float64: genF(r), Valid: true})
		}},
		c03Atom{Name: "NullTime", Typ: reflect.TypeOf(sql.NullTime{}), Gen: func(r *rand.Rand) reflect.Value {
			if r.Intn(3) == 0 {
				return rv(sql.NullTime{})
			}
			return rv(sql.NullTime{Time: genT(r), Valid: true})
		}},
		c03Atom{Name: "*NullInt64", Typ: reflect.TypeOf((*sql.NullInt64)(nil)), NoMap: true, Gen: func(r *rand.Rand) reflect.Value {
			if r.Intn(3) == 0 {
				return rv((*sql.NullInt64)(nil))
			}
			return rv(&sql.NullInt64{Int64: int64(r.Intn(1000)), Valid: true})
		}},
	)
	// custom Scanner/Valuer types
	as = append(as,
		c03Atom{Name: "CVPair", Typ: reflect.TypeOf(CVPair{}), Tag: "type:text", NoMap: true, Gen: func(r *rand.Rand) reflect.Value { return rv(CVPair{A: r.Intn(100) - 50, B: genS(r)}) }},
		c03Atom{Name: "*CVPair", Typ: reflect.TypeOf((*CVPair)(nil)), Tag: "type:text", NoMap: true, Gen: func(r *rand.Rand) reflect.Value {
			if r.Intn(3) == 0 {
				return rv((*CVPair)(nil))
			}
			return rv(&CVPair{A: r.Intn(100), B: genS(r)})
		}},
		c03Atom{Name: "CUpper", Typ: reflect.TypeOf(CUpper("")), NoMap: true, Gen: func(r *rand.Rand) reflect.Value { return rv(CUpper(genS(r))) }},
		c03Atom{Name: "CShift", Typ: reflect.TypeOf(CShift(0)), NoMap: true, Gen: func(r *rand.Rand) reflect.Value { return rv(CShift(genI(r, math.MinInt32, math.MaxInt32))) }},
	)
	// serializers
	docT := reflect.TypeOf(SerDoc{})
	as = append(as,
		c03Atom{Name: "json:struct", Typ: docT, Tag: "serializer:json", NoMap: true, Gen: func(r *rand.Rand) reflect.Value { return rv(genDoc(r, false, 1)) }},
		c03Atom{Name: "json:*struct", Typ: reflect.PointerTo(docT), Tag: "serializer:json", NoMap: true, Gen: ptrTo(docT, func(r *rand.Rand) reflect.Value { return rv(genDoc(r, false, 1)) })},
		c03Atom{Name: "json:[]string", Typ: reflect.TypeOf([]string(nil)), Tag: "serializer:json", NoMap: true, Gen: func(r *rand.Rand) reflect.Value {
			switch r.Intn(3) {
			case 0:
				return rv([]string(nil))
			case 1:
				return rv([]string{})
			}
			return rv([]string{genS(r), genS(r)})
		}},
		c03Atom{Name: "json:map", Typ: reflect.TypeOf(map[string]interface{}(nil)), Tag: "serializer:json", NoMap: true, Gen: func(r *rand.Rand) reflect.Value {
			if r.Intn(3) == 0 {
				return rv(map[string]interface{}(nil))
			}
			return rv(map[string]interface{}{"k": genS(r), "n": float64(r.Intn(100)), "b": true, "l": []interface{}{"x", 1.5}})
		}},
		c03Atom{Name: "gob:struct", Typ: docT, Tag: "serializer:gob", NoMap: true, Gen: func(r *rand.Rand) reflect.Value { return rv(genDoc(r, true, 1)) }},
	)
	// self-serializing types and Scanners with INCREMENTAL Scan (fill the receiver, ignore NULL): right only when every
	// row is scanned into a fresh receiver
	genSelfDoc := func(r *rand.Rand) CSelfDoc {
		d := CSelfDoc{}
		if r.Intn(2) == 0 {
			d.Theme = genS(r)
		}
		if r.Intn(2) == 0 {
			d.Tags = make([]string, 1+r.Intn(4))
			for i := range d.Tags {
				d.Tags[i] = fmt.Sprintf("t%d-%s", r.Intn(100), genS(r))
			}
		}
		if r.Intn(2) == 0 {
			d.Level = 1 + r.Intn(9)
		}
		if r.Intn(3) == 0 {
			d.Attr = map[string]int{fmt.Sprint("k", r.Intn(3)): 1 + r.Intn(50)}
		}
		if r.Intn(3) == 0 {
			d.Sub = &CSelfSub{A: r.Intn(4), L: []string{"s", genS(r)}[:1+r.Intn(2)]}
		}
		return d
	}
	genSelfList := func(r *rand.Rand) CSelfList {
		switch r.Intn(4) {
		case 0:
			return nil
		case 1:
			return CSelfList{}
		}
		l := make(CSelfList, 1+r.Intn(5))
		for i := range l {
			l[i] = fmt.Sprintf("e%d-%s", r.Intn(100), genS(r))
		}
		return l
	}
	genSparse := func(r *rand.Rand) CSparse {
		s := CSparse{}
		if r.Intn(2) == 0 {
			n := r.Intn(100) - 50
			s.A = &n
		}
		if r.Intn(2) == 0 {
			s.B = genS(r)
		}
		if r.Intn(2) == 0 {
			s.L = make([]string, 1+r.Intn(3))
			for i := range s.L {
				s.L[i] = fmt.Sprint("l", r.Intn(1000))
			}
		}
		return s
	}
	nilIsZero := func(t reflect.Type) func(v reflect.Value) string {
		return func(v reflect.Value) string {
			if v.IsNil() {
				return c03Canon(reflect.Zero(t))
			}
			return c03Canon(v.Elem())
		}
	}
	as = append(as,
		c03Atom{Name: "self:doc", Typ: reflect.TypeOf(CSelfDoc{}), NoMap: true, Gen: func(r *rand.Rand) reflect.Value { return rv(genSelfDoc(r)) }},
		// LATITUDE: a nil pointer to a self-serializing type is stored as NULL and read back as a pointer to the zero value
		c03Atom{Name: "self:*doc", Typ: reflect.TypeOf((*CSelfDoc)(nil)), NoMap: true, Canon: nilIsZero(reflect.TypeOf(CSelfDoc{})), Gen: func(r *rand.Rand) reflect.Value {
			if r.Intn(4) == 0 {
				return rv((*CSelfDoc)(nil))
			}
			d := genSelfDoc(r)
			return rv(&d)
		}},
		c03Atom{Name: "self:list", Typ: reflect.TypeOf(CSelfList(nil)), NoMap: true, Gen: func(r *rand.Rand) reflect.Value { return rv(genSelfList(r)) }},
		c03Atom{Name: "self:count", Typ: reflect.TypeOf(CSelfCount{}), Tag: "type:integer", NoMap: true, Gen: func(r *rand.Rand) reflect.Value { return rv(CSelfCount{N: int64(r.Intn(7)) * int64(r.Intn(1000))}) }},
		c03Atom{Name: "CSparse", Typ: reflect.TypeOf(CSparse{}), Tag: "type:text", NoMap: true, Gen: func(r *rand.Rand) reflect.Value { return rv(genSparse(r)) }},
		c03Atom{Name: "*CSparse", Typ: reflect.TypeOf((*CSparse)(nil)), Tag: "type:text", NoMap: true, Canon: nilIsZero(reflect.TypeOf(CSparse{})), Gen: func(r *rand.Rand) reflect.Value {
			if r.Intn(3) == 0 {
				return rv((*CSparse)(nil))
			}
			s := genSparse(r)
			return rv(&s)
		}},
		c03Atom{Name: "CAccum", Typ: reflect.TypeOf(CAccum{}), Tag: "type:integer", NoMap: true, Gen: func(r *rand.Rand) reflect.Value {
			if r.Intn(3) == 0 {
				return rv(CAccum{})
			}
			return rv(CAccum{Hist: []int64{int64(r.Intn(1000))}})
		}},
		c03Atom{Name: "json:sparse", Typ: reflect.TypeOf(SerSparse{}), Tag: "serializer:json", NoMap: true, Gen: func(r *rand.Rand) reflect.Value {
			d := SerSparse{}
			if r.Intn(2) == 0 {
				d.K = genS(r)
			}
			if r.Intn(2) == 0 {
				n := r.Intn(9)
				d.N = &n
			}
			if r.Intn(2) == 0 {
				d.L = []int{1, 2, 3, 4}[:1+r.Intn(4)]
			}
			if r.Intn(3) == 0 {
				d.M = map[string]int{"x": r.Intn(5)}
			}
			return rv(d)
		}},
		c03Atom{Name: "json:[]int", Typ: reflect.TypeOf([]int(nil)), Tag: "serializer:json", NoMap: true, Gen: func(r *rand.Rand) reflect.Value {
			if r.Intn(4) == 0 {
				return rv([]int(nil))
			}
			l := make([]int, r.Intn(6))
			for i := range l {
				l[i] = r.Intn(1000)
			}
			return rv(l)
		}},
	)
	// embedded structs
	embA, embB := reflect.TypeOf(EmbA{}), reflect.TypeOf(EmbB{})
	genA := func(r *rand.Rand) reflect.Value { return rv(EmbA{EA: int16(genI(r, math.MinInt16, math.MaxInt16)), EB: genS(r)}) }
	genB := func(r *rand.Rand) reflect.Value {
		b := EmbB{Y: r.Intn(2) == 0}
		if r.Intn(2) == 0 {
			n := genI(r, math.MinInt64, math.MaxInt64)
			b.X = &n
		}
		return rv(b)
	}
	as = append(as,
		c03Atom{Name: "embedded", Typ: embA, Tag: "embedded", NoMap: true, Gen: genA},
		c03Atom{Name: "embedded+prefix", Typ: embB, Tag: "embedded;embeddedPrefix:pre_", NoMap: true, Gen: genB},
		c03Atom{Name: "*embedded+prefix", Typ: reflect.PointerTo(embA), Tag: "embedded;embeddedPrefix:pp_", NoMap: true, Gen: ptrTo(embA, genA),
			Canon: func(v reflect.Value) string {
				if v.IsNil() {
					return c03Canon(reflect.Zero(embA))
				}
				return c03Canon(v.Elem())
			}},
	)
	return as
}

// ---- canonical forms ----

var timeT = reflect.TypeOf(time.Time{})

func c03Canon(v reflect.Value) string {
	if !v.IsValid() {
		return "invalid"
	}
	if v.Type() == timeT {
		return "T" + v.Interface().(time.Time).UTC().Format(time.RFC3339Nano)
	}
	switch v.Kind() {
	case reflect.Ptr, reflect.Interface:
		if v.IsNil() {
			return "nil"
		}
		if v.Kind() == reflect.Interface {
			return c03Canon(v.Elem())
		}
		return "&" + c03Canon(v.Elem())
	case reflect.Bool:
		return fmt.Sprint(v.Bool())
	case reflect.Int, reflect.Int8, reflect.Int16, reflect.Int32, reflect.Int64:
		return strconv.FormatInt(v.Int(), 10)
	case reflect.Uint, reflect.Uint8, reflect.Uint16, reflect.Uint32, reflect.Uint64:
		return strconv.FormatUint(v.Uint(), 10)
	case reflect.Float32:
		return fmt.Sprintf("f32:%08x", math.Float32bits(float32(v.Float())))
	case reflect.Float64:
		return fmt.Sprintf("f64:%016x", math.Float64bits(v.Float()))
	case reflect.String:
		return strconv.Quote(v.String())
	case reflect.Slice:
		if v.Type().Elem().Kind() == reflect.Uint8 {
			return "x" + hex.EncodeToString(v.Bytes()) // nil == empty (latitude)
		}
		if v.IsNil() {
			return "nil-slice"
		}
		parts := []string{}
		for i := 0; i < v.Len(); i++ {
			parts = append(parts, c03Canon(v.Index(i)))
		}
		return "[" + strings.Join(parts, ",") + "]"
	case reflect.Map:
		if v.IsNil() {
			return "nil-map"
		}
		parts := []string{}
		for _, k := range v.MapKeys() {
			parts = append(parts, c03Canon(k)+":"+c03Canon(v.MapIndex(k)))
		}
		sort.Strings(parts)
		return "map{" + strings.Join(parts, ",") + "}"
	case reflect.Struct:
		parts := []string{}
		for i := 0; i < v.NumField(); i++ {
			parts = append(parts, c03Canon(v.Field(i)))
		}
		return "{" + strings.Join(parts, ";") + "}"
	}
	return fmt.Sprintf("?%v", v.Kind())
}

// stored representation of a Go value (what database/sql would bind), canonical text
func c03StoredCanon(x interface{}) string {
	for i := 0; i < 4; i++ {
		if x == nil {
			return "null"
		}
		if vl, ok := x.(driver.Valuer); ok {
			v := reflect.ValueOf(x)
			if v.Kind() == reflect.Ptr && v.IsNil() {
				return "null"
			}
			x, _ = vl.Value()
			continue
		}
		v := reflect.ValueOf(x)
		if v.Kind() == reflect.Ptr {
			if v.IsNil() {
				return "null"
			}
			x = v.Elem().Interface()
			continue
		}
		break
	}
	if x == nil {
		return "null"
	}
	if t, ok := x.(time.Time); ok {
		return "T" + t.UTC().Format(time.RFC3339Nano)
	}
	v := reflect.ValueOf(x)
	switch v.Kind() {
	case reflect.Bool:
		if v.Bool() {
			return "1"
		}
		return "0"
	case reflect.Int, reflect.Int8, reflect.Int16, reflect.Int32, reflect.Int64:
		return strconv.FormatInt(v.Int(), 10)
	case reflect.Uint, reflect.Uint8, reflect.Uint16, reflect.Uint32, reflect.Uint64:
		return strconv.FormatUint(v.Uint(), 10)
	case reflect.Float32, reflect.Float64:
		f := v.Float()
		if f == math.Trunc(f) && math.Abs(f) < 1e15 {
			return strconv.FormatInt(int64(f), 10) // SQLite may hand an integral REAL back as INTEGER and vice versa
		}
		return fmt.Sprintf("f64:%016x", math.Float64bits(f))
	case reflect.String:
		return "x" + hex.EncodeToString([]byte(v.String()))
	case reflect.Slice:
		if v.Type().Elem().Kind() == reflect.Uint8 {
			if v.IsNil() {
				return "null"
			}
			return "x" + hex.EncodeToString(v.Bytes())
		}
	}
	return fmt.Sprintf("?%T", x)
}

// ---- schema grammar ----

type c03Field struct {
	Atom   c03Atom
	GoName string
	Column string // "" = embedded (several columns)
	Tag    string
	Def    bool   // has default: tag
	DBDef  bool   // … whose value is a DB expression (gorm cannot substitute it itself: learnt through RETURNING only)
	Auto   string // "", "time", "sec", "milli", "nano" (auto create/update time)
	PK     bool
	AutoPK bool
}

type c03Schema struct {
	Seed    int64
	PKStyle string
	Fields  []c03Field
	Typ     reflect.Type
	Desc    string
	Naming  string // plain | cycle | chain | cycle+emb
}

var c03PKStyles = []string{"auto-uint", "auto-int64", "string", "composite", "manual-int", "auto-uint"}

// Go field names used by the "cross" naming styles: the COLUMN of one field is the GO NAME of another one
// (legacy PascalCase tables), so that Schema.FieldsByName and Schema.FieldsByDBName share keys that designate
// different fields.  Column names must stay distinct case-insensitively (SQLite).
var c03CrossNames = []string{"Name", "Title", "DisplayName", "LegacyName", "Code", "Label", "Value", "Owner", "Status", "Kind"}

func c03GenSchema(seed int64, atoms []c03Atom) *c03Schema {
	rng := rand.New(rand.NewSource(seed))
	s := &c03Schema{Seed: seed, PKStyle: c03PKStyles[rng.Intn(len(c03PKStyles))]}
	var sf []reflect.StructField
	add := func(f c03Field) {
		s.Fields = append(s.Fields, f)
		sf = append(sf, reflect.StructField{Name: f.GoName, Type: f.Atom.Typ, Tag: reflect.StructTag(`gorm:"` + f.Tag + `"`)})
	}
	atomBy := func(name string) c03Atom {
		for _, a := range atoms {
			if a.Name == name {
				return a
			}
		}
		panic(name)
	}
	switch s.PKStyle {
	case "auto-uint":
		add(c03Field{Atom: atomBy("uint"), GoName: "ID", Column: "id", Tag: "primaryKey", PK: true, AutoPK: true})
	case "auto-int64":
		add(c03Field{Atom: atomBy("int64"), GoName: "Key", Column: "the_key", Tag: "primaryKey;column:the_key", PK: true, AutoPK: true})
	case "string":
		add(c03Field{Atom: atomBy("string"), GoName: "Code0", Column: "code0", Tag: "primaryKey", PK: true})
	case "composite":
		add(c03Field{Atom: atomBy("string"), GoName: "K1", Column: "k1", Tag: "primaryKey", PK: true})
		add(c03Field{Atom: atomBy("int32"), GoName: "K2", Column: "k2", Tag: "primaryKey;autoIncrement:false", PK: true})
	case "manual-int":
		add(c03Field{Atom: atomBy("int64"), GoName: "ID", Column: "id", Tag: "primaryKey;autoIncrement:false", PK: true})
	}
	add(c03Field{Atom: atomBy("string"), GoName: "Payload", Column: "payload", Tag: "column:payload"})
	n := 3 + rng.Intn(6)
	used := map[string]bool{}
	// one schema in four is built from plainly stored kinds only (no serializer / custom / embedded members, no default or
	// auto-time tags): those are the schemas the map paths (Create from maps, maps read through the model) apply to
	plainOnly := rng.Intn(4) == 0
	if plainOnly {
		var pa []c03Atom
		for _, a := range atoms {
			if !a.NoMap && !strings.Contains(a.Tag, "embedded") {
				a.Opt = nil
				pa = append(pa, a)
			}
		}
		atoms = pa
	}
	type pend struct {
		f      c03Field
		tags   []string
		colTag bool
	}
	var ps []pend
	for i := 0; i < n; i++ {
		a := atoms[rng.Intn(len(atoms))]
		if strings.Contains(a.Tag, "embedded") {
			if used[a.Name] { // the same embedded struct twice would map two fields to one column (ill-formed)
				continue
			}
			used[a.Name] = true
		}
		f := c03Field{Atom: a, GoName: fmt.Sprintf("F%d", i), Column: fmt.Sprintf("f%d", i)}
		tags := []string{}
		colTag := false
		if a.Tag != "" {
			tags = append(tags, a.Tag)
		}
		if strings.Contains(a.Tag, "embedded") {
			f.Column = ""
		} else if rng.Intn(3) == 0 {
			f.Column = fmt.Sprintf("Col_%d x", i) // renamed column (mixed case, space)
			if rng.Intn(2) == 0 {
				f.Column = fmt.Sprintf("c%d_renamed", i)
			}
			colTag = true
		}
		if len(a.Opt) > 0 && rng.Intn(3) == 0 {
			o := a.Opt[rng.Intn(len(a.Opt))]
			tags = append(tags, o)
			switch {
			case strings.HasPrefix(o, "default:"):
				f.Def = true
				f.DBDef = strings.HasPrefix(o, "default:(")
			case strings.HasPrefix(o, "auto"):
				switch {
				case a.Name == "time":
					f.Auto = "time"
				case strings.HasSuffix(o, ":nano"):
					f.Auto = "nano"
				case strings.HasSuffix(o, ":milli"):
					f.Auto = "milli"
				default:
					f.Auto = "sec"
				}
			case strings.HasPrefix(o, "serializer:unixtime"):
				f.Atom.NoMap = true
				f.Atom.Name = "unixtime:int64"
				f.Atom.Gen = func(r *rand.Rand) reflect.Value { return rv(r.Int63n(4e9)) }
			}
		}
		ps = append(ps, pend{f, tags, colTag})
	}
	// ---- naming style ----
	// plain:  Go names F<i>, columns f<i> / explicitly renamed (never equal to a Go name)
	// cycle:  the column-backed fields get realistic Go names and the column of field j is the Go name of field j+1
	//         (cyclically): every column name is some OTHER field's Go name
	// chain:  the same with one link broken (the last field keeps a snake_case column)
	// In both cross styles a field may instead take the Go name of a member of an embedded struct as its column, and
	// an embedded struct with an upper-case prefix produces columns that equal top-level Go names.
	s.Naming = []string{"plain", "plain", "cycle", "chain", "cycle"}[rng.Intn(5)]
	if s.Naming != "plain" {
		var idx []int
		for i := range ps {
			if ps[i].f.Column != "" {
				idx = append(idx, i)
			}
		}
		perm := rng.Perm(len(c03CrossNames))
		if len(idx) > len(perm) {
			idx = idx[:len(perm)]
		}
		if len(idx) < 2 {
			s.Naming = "plain"
		} else {
			for j, i := range idx {
				ps[i].f.GoName = c03CrossNames[perm[j]]
			}
			for j, i := range idx {
				ps[i].f.Column = ps[idx[(j+1)%len(idx)]].f.GoName
				ps[i].colTag = true
			}
			if s.Naming == "chain" {
				last := idx[len(idx)-1]
				ps[last].f.Column = fmt.Sprintf("c%d_renamed", last)
			}
			// column = Go name of an embedded member (only where the embedded columns carry a lower-case prefix)
			if used["embedded+prefix"] && rng.Intn(2) == 0 {
				ps[idx[0]].f.Column = []string{"X", "Y"}[rng.Intn(2)]
				if s.Naming == "cycle" { // idx[1]'s Go name is no longer anybody's column: still a cross through idx[0]
					s.Naming = "cycle+emb"
				}
			} else if used["*embedded+prefix"] && !used["embedded"] && rng.Intn(2) == 0 {
				ps[idx[0]].f.Column = []string{"EA", "EB"}[rng.Intn(2)]
			}
			if rng.Intn(3) == 0 {
				// embedded struct whose prefixed columns ("Pxea", "Pxeb") equal the Go name of a top-level field
				ps = append(ps, pend{f: c03Field{Atom: c03Atom{Name: "embedded+Prefix", Typ: reflect.TypeOf(EmbC{}), NoMap: true,
					Gen: func(r *rand.Rand) reflect.Value { return rv(EmbC{Ea: int32(r.Intn(1000)), Eb: genS(r)}) }}, GoName: "Emb"}, tags: []string{"embedded;embeddedPrefix:Px"}})
				ps = append(ps, pend{f: c03Field{Atom: atomBy("string"), GoName: []string{"Pxea", "Pxeb"}[rng.Intn(2)], Column: "px_other"}, colTag: true})
			}
		}
	}
	for _, p := range ps {
		if p.colTag {
			p.tags = append(p.tags, "column:"+p.f.Column)
		}
		p.f.Tag = strings.Join(p.tags, ";")
		add(p.f)
	}
	s.Typ = reflect.StructOf(sf)
	parts := []string{s.PKStyle, "naming=" + s.Naming}
	for _, f := range s.Fields[1:] {
		parts = append(parts, f.GoName+":"+f.Atom.Name+"{"+f.Tag+"}")
	}
	s.Desc = strings.Join(parts, " ")
	return s
}

// smallType = a "smaller struct" destination: Payload plus a random subset of the other fields (same names, tags)
func (s *c03Schema) smallType(rng *rand.Rand) (reflect.Type, []int) {
	var sf []reflect.StructField
	var idx []int
	for fi, f := range s.Fields {
		if f.GoName == "Payload" || rng.Intn(2) == 0 {
			sf = append(sf, reflect.StructField{Name: f.GoName, Type: f.Atom.Typ, Tag: reflect.StructTag(`gorm:"` + f.Tag + `"`)})
			idx = append(idx, fi)
		}
	}
	return reflect.StructOf(sf), idx
}

// genRecords builds n records (deterministic in seed): slice value of type []T
func (s *c03Schema) genRecords(seed int64, n int) reflect.Value {
	rng := rand.New(rand.NewSource(seed))
	recs := reflect.MakeSlice(reflect.SliceOf(s.Typ), n, n)
	for i := 0; i < n; i++ {
		rec := recs.Index(i)
		for fi, f := range s.Fields {
			fv := rec.Field(fi)
			switch {
			case f.GoName == "Payload":
				fv.SetString(fmt.Sprintf("p%d-%d", seed%1000, i))
			case f.PK && f.AutoPK:
				// zero: generated by the database
			case f.PK && f.Atom.Name == "string" && f.GoName != "Payload":
				fv.SetString(fmt.Sprintf("k%d/%s", i, c03UniStrings[1+rng.Intn(10)]))
			case f.PK:
				fv.SetInt(int64(1000 + i*7))
			case f.DBDef:
				// one INSERT must not mix given and omitted values of a DB-default column (the SQLite dialector renders the
				// omitted ones as the keyword DEFAULT inside VALUES, which SQLite rejects): all records zero, or all non-zero
				if (seed>>3)%2 == 1 {
					for try := 0; try < 50 && fv.IsZero(); try++ {
						fv.Set(f.Atom.Gen(rng).Convert(f.Atom.Typ))
					}
					if fv.IsZero() {
						fv.Set(reflect.Zero(f.Atom.Typ))
					}
				}
			default:
				fv.Set(f.Atom.Gen(rng).Convert(f.Atom.Typ))
			}
		}
	}
	// (a column whose records could not all be made non-zero falls back to all-zero)
	for fi, f := range s.Fields {
		if !f.DBDef {
			continue
		}
		anyZero := false
		for i := 0; i < n; i++ {
			anyZero = anyZero || recs.Index(i).Field(fi).IsZero()
		}
		for i := 0; i < n && anyZero; i++ {
			recs.Index(i).Field(fi).Set(reflect.Zero(f.Atom.Typ))
		}
	}
	return recs
}

func (f c03Field) canon(v reflect.Value) string {
	if f.Atom.Canon != nil {
		return f.Atom.Canon(v)
	}
	return c03Canon(v)
}

type c03E2EInput struct {
	SchemaSeed int64  `json:"schema_seed"`
	RecSeed    int64  `json:"rec_seed"`
	N          int    `json:"n"`
	Mode       string `json:"mode"` // single | values | pointers | batches | map | maps
	Batch      int    `json:"batch"`
	Returning  bool   `json:"returning"`
	Desc       string `json:"desc,omitempty"`
}

var c03AtomList = c03Atoms()

// c03RunE2E returns a list of mismatch descriptions (empty = property holds on this input)
func c03RunE2E(r *Result, in c03E2EInput) (bad []string) {
	defer func() {
		if p := recover(); p != nil {
			bad = append(bad, fmt.Sprint("panic: ", p))
		}
	}()
	s := c03GenSchema(in.SchemaSeed, c03AtomList)
	db, sqlDB := c03Open(in.Returning, &gorm.Config{NowFunc: fixedNowFunc})
	defer sqlDB.Close()
	const tbl = "gen_models"
	if err := db.Table(tbl).AutoMigrate(reflect.New(s.Typ).Interface()); err != nil {
		return []string{"AutoMigrate: " + err.Error()}
	}
	orig := s.genRecords(in.RecSeed, in.N)
	mem := s.genRecords(in.RecSeed, in.N) // identical values; this copy is handed to gorm
	ptrs := reflect.MakeSlice(reflect.SliceOf(reflect.PointerTo(s.Typ)), in.N, in.N)
	for i := 0; i < in.N; i++ {
		ptrs.Index(i).Set(mem.Index(i).Addr())
	}
	fromMap := in.Mode == "map" || in.Mode == "maps" || in.Mode == "maps-val"
	var maps []map[string]interface{}
	var err error
	switch in.Mode {
	case "single":
		for i := 0; i < in.N && err == nil; i++ {
			err = db.Table(tbl).Create(mem.Index(i).Addr().Interface()).Error
		}
	case "values":
		p := reflect.New(mem.Type())
		p.Elem().Set(mem)
		err = db.Table(tbl).Create(p.Interface()).Error
		mem = p.Elem()
	case "pointers":
		err = db.Table(tbl).Create(ptrs.Interface()).Error
	case "batches":
		if in.RecSeed%2 == 0 {
			err = db.Table(tbl).CreateInBatches(ptrs.Interface(), in.Batch).Error
		} else {
			p := reflect.New(mem.Type())
			p.Elem().Set(mem)
			err = db.Table(tbl).CreateInBatches(p.Interface(), in.Batch).Error
			mem = p.Elem()
		}
	case "map", "maps", "maps-val":
		for i := 0; i < in.N; i++ {
			m := map[string]interface{}{}
			for fi, f := range s.Fields {
				if f.PK && f.AutoPK {
					continue
				}
				key := f.Column
				if (i+fi)%2 == 0 && s.Naming == "plain" {
					key = f.GoName // field names are accepted as well as column names (crossing schemas: a key that is a column name means that column)
				}
				m[key] = orig.Index(i).Field(fi).Interface()
			}
			maps = append(maps, m)
		}
		model := reflect.New(s.Typ).Interface()
		if in.Mode == "map" {
			for i := 0; i < in.N && err == nil; i++ {
				err = db.Table(tbl).Model(model).Create(maps[i]).Error
			}
		} else if in.Mode == "maps-val" {
			err = db.Table(tbl).Model(model).Create(maps).Error
		} else {
			err = db.Table(tbl).Model(model).Create(&maps).Error
			if len(maps) != in.N {
				bad = append(bad, fmt.Sprintf("Create changed the length of the caller's slice of maps: %d -> %d", in.N, len(maps)))
			}
		}
	}
	if err != nil {
		return append(bad, "Create: "+err.Error())
	}

	// ---- read back: ALL loads first (every path pushes several rows through the same scan code), judged afterwards ----
	model := reflect.New(s.Typ).Interface()
	payIdx := -1
	for fi, f := range s.Fields {
		if f.GoName == "Payload" {
			payIdx = fi
		}
	}
	type copyT struct {
		how string
		v   reflect.Value // struct of type s.Typ (or the small type, then idx != nil)
		idx []int         // small struct: schema field index of every struct field
	}
	loadedBy := map[string][]copyT{}
	push := func(how string, v reflect.Value) {
		p := v.Field(payIdx).String()
		loadedBy[p] = append(loadedBy[p], copyT{how: how, v: v})
	}
	all := reflect.New(reflect.SliceOf(s.Typ))
	if e := db.Table(tbl).Order("payload").Find(all.Interface()).Error; e != nil {
		return []string{"Find: " + e.Error()}
	}
	if all.Elem().Len() != in.N {
		bad = append(bad, fmt.Sprintf("Find returned %d rows, created %d", all.Elem().Len(), in.N))
	}
	for i := 0; i < all.Elem().Len(); i++ {
		push("Find(&[]T)", all.Elem().Index(i))
	}
	allPtr := reflect.New(reflect.SliceOf(reflect.PointerTo(s.Typ)))
	if e := db.Table(tbl).Find(allPtr.Interface()).Error; e != nil {
		return []string{"Find(ptrs): " + e.Error()}
	}
	for i := 0; i < allPtr.Elem().Len(); i++ {
		push("Find(&[]*T)", allPtr.Elem().Index(i).Elem())
	}
	var mapRows []map[string]interface{}
	if e := db.Table(tbl).Find(&mapRows).Error; e != nil {
		return []string{"Find(maps): " + e.Error()}
	}
	mapBy := map[string][]map[string]interface{}{}
	for _, m := range mapRows {
		p := fmt.Sprint(m["payload"])
		mapBy[p] = append(mapBy[p], m)
	}
	// maps through the model (prepareValues resolves every column to a field of the schema)
	// (only for schemas of plainly stored kinds: gorm prepares a **FieldType holder per column, which database/sql cannot
	// fill for serializer / embedded / struct-valued fields)
	var mapRows2 []map[string]interface{}
	modelMaps := 0
	if c03AllPlain(s) {
		modelMaps = 1
		if e := db.Table(tbl).Model(model).Find(&mapRows2).Error; e != nil {
			return []string{"Model.Find(maps): " + e.Error()}
		}
	}
	mapModelBy := map[string][]map[string]interface{}{}
	for _, m := range mapRows2 {
		p := fmt.Sprint(m["payload"])
		mapModelBy[p] = append(mapModelBy[p], m)
	}
	// Rows + ScanRows, one fresh destination per row
	wantCopies := 4
	prng := rand.New(rand.NewSource(in.RecSeed ^ 0x5ca1ab1e))
	if rows, e := db.Table(tbl).Model(model).Order("payload DESC").Rows(); e != nil {
		bad = append(bad, "Rows: "+e.Error())
	} else {
		for rows.Next() {
			d := reflect.New(s.Typ)
			if e := db.Table(tbl).ScanRows(rows, d.Interface()); e != nil {
				bad = append(bad, "ScanRows: "+e.Error())
				break
			}
			push("ScanRows", d.Elem())
		}
		rows.Close()
		wantCopies++
	}
	// FindInBatches
	{
		dest := reflect.New(reflect.SliceOf(s.Typ))
		bs := 1 + prng.Intn(3)
		fn := func(tx *gorm.DB, batch int) error {
			for i := 0; i < dest.Elem().Len(); i++ {
				c := reflect.New(s.Typ).Elem()
				c.Set(dest.Elem().Index(i))
				push(fmt.Sprintf("FindInBatches(%d)", bs), c)
			}
			return nil
		}
		if c03HasSinglePK(s) {
			if e := db.Table(tbl).Model(model).FindInBatches(dest.Interface(), bs, fn).Error; e != nil {
				bad = append(bad, "FindInBatches: "+e.Error())
			}
			wantCopies++
		}
	}
	// smaller struct destination (subset of the fields, same names and tags)
	{
		st, idx := s.smallType(prng)
		smalls := reflect.New(reflect.SliceOf(st))
		if e := db.Table(tbl).Model(model).Order("payload").Find(smalls.Interface()).Error; e != nil {
			bad = append(bad, "Find(smaller struct): "+e.Error())
		} else {
			sp := -1
			for j, fi := range idx {
				if fi == payIdx {
					sp = j
				}
			}
			for i := 0; i < smalls.Elem().Len(); i++ {
				v := smalls.Elem().Index(i)
				p := v.Field(sp).String()
				loadedBy[p] = append(loadedBy[p], copyT{how: "Find(&[]Small)", v: v, idx: idx})
			}
			wantCopies++
		}
	}
	// Pluck of every plainly stored column, in payload order
	plucked := map[int]reflect.Value{}
	for fi, f := range s.Fields {
		if f.Atom.NoMap || f.Column == "" || strings.Contains(f.Column, " ") || !c03Pluckable(f.Atom.Typ) {
			continue
		}
		dest := reflect.New(reflect.SliceOf(f.Atom.Typ))
		if e := db.Table(tbl).Model(model).Order("payload").Pluck(f.Column, dest.Interface()).Error; e != nil {
			bad = append(bad, fmt.Sprintf("Pluck(%q): %v", f.Column, e))
			continue
		}
		plucked[fi] = dest.Elem()
	}
	order := make([]int, in.N) // record index by payload order
	for i := range order {
		order[i] = i
	}
	sort.Slice(order, func(a, b int) bool {
		return orig.Index(order[a]).Field(payIdx).String() < orig.Index(order[b]).Field(payIdx).String()
	})
	rank := make([]int, in.N)
	for r0, i := range order {
		rank[i] = r0
	}
	// consecutive First / Take calls
	for i := 0; i < in.N; i++ {
		pay := orig.Index(i).Field(payIdx).String()
		f1, f2 := reflect.New(s.Typ), reflect.New(s.Typ)
		if e := db.Table(tbl).First(f1.Interface(), "payload = ?", pay).Error; e != nil {
			bad = append(bad, fmt.Sprintf("rec %d First: %v", i, e))
		} else {
			push("First", f1.Elem())
		}
		if e := db.Table(tbl).Where("payload = ?", pay).Take(f2.Interface()).Error; e != nil {
			bad = append(bad, fmt.Sprintf("rec %d Take: %v", i, e))
		} else {
			push("Take", f2.Elem())
		}
		one := map[string]interface{}{}
		if e := db.Table(tbl).Where("payload = ?", pay).Take(&one).Error; e != nil {
			bad = append(bad, fmt.Sprintf("rec %d Take(map): %v", i, e))
		} else {
			mapBy[pay] = append(mapBy[pay], one)
		}
	}
	if len(bad) > 0 {
		return bad
	}

	// ---- judge ----
	seenPK := map[string]bool{}
	for i := 0; i < in.N; i++ {
		o := orig.Index(i)
		pay := o.Field(payIdx).String()
		loaded := loadedBy[pay]
		if len(loaded) != wantCopies {
			bad = append(bad, fmt.Sprintf("rec %d (%s): %d struct copies loaded, want %d", i, pay, len(loaded), wantCopies))
			if len(loaded) == 0 {
				continue
			}
		}
		m := mem.Index(i)
		pkCanon := ""
		for fi, f := range s.Fields {
			want := f.canon(o.Field(fi))
			inMem := f.canon(m.Field(fi))
			zero := o.Field(fi).IsZero()
			checkMem := !fromMap
			switch {
			case f.PK && f.AutoPK:
				// generated key: in memory (struct creates) it must be the key of the row storing this payload
				want = f.canon(loaded[0].v.Field(fi))
				if !fromMap && (m.Field(fi).IsZero() || inMem != want) {
					bad = append(bad, fmt.Sprintf("rec %d: in-memory key %s, row holding its payload has key %s", i, inMem, want))
				}
				if fromMap {
					// the map must carry the key of its row (as `column` for maps created through a model)
					if kv, ok := maps[i][f.Column]; !ok {
						bad = append(bad, fmt.Sprintf("rec %d: map carries no primary key after Create", i))
					} else if c03StoredCanon(kv) != c03StoredCanon(loaded[0].v.Field(fi).Interface()) {
						bad = append(bad, fmt.Sprintf("rec %d: map key %v, row key %s", i, kv, want))
					}
				}
				checkMem = false
			case !fromMap && f.DBDef && zero && !in.Returning:
				// LATITUDE: without RETURNING gorm cannot learn a database-generated value: every read must agree, the
				// in-memory record is not judged
				want = f.canon(loaded[0].v.Field(fi))
				checkMem = false
			case !fromMap && f.Def && zero:
				want = inMem // gorm may substitute the default: demand loaded == in-memory only
			case !fromMap && f.Auto != "" && zero:
				want = inMem
				var now string
				switch f.Auto {
				case "time":
					now = c03Canon(reflect.ValueOf(fixedNow))
				case "sec":
					now = strconv.FormatInt(fixedNow.Unix(), 10)
				case "milli":
					now = strconv.FormatInt(fixedNow.UnixMilli(), 10)
				case "nano":
					now = strconv.FormatInt(fixedNow.UnixNano(), 10)
				}
				if inMem != now {
					bad = append(bad, fmt.Sprintf("rec %d field %s{%s}: auto time in memory %s, NowFunc gives %s", i, f.GoName, f.Tag, inMem, now))
				}
				checkMem = false
			}
			if f.PK {
				pkCanon += want + "|"
			}
			if checkMem && inMem != want {
				bad = append(bad, fmt.Sprintf("rec %d field %s %s{%s}: Create changed the in-memory value %s -> %s", i, f.GoName, f.Atom.Name, f.Tag, want, inMem))
			}
			for _, l := range loaded {
				lf := reflect.Value{}
				if l.idx == nil {
					lf = l.v.Field(fi)
				} else {
					for j, sfi := range l.idx {
						if sfi == fi {
							lf = l.v.Field(j)
						}
					}
					if !lf.IsValid() {
						continue
					}
				}
				if got := f.canon(lf); got != want {
					bad = append(bad, fmt.Sprintf("rec %d field %s %s{%s} read by %s: stored %s loaded %s", i, f.GoName, f.Atom.Name, f.Tag, l.how, want, got))
				}
			}
			if pv, ok := plucked[fi]; ok {
				if pv.Len() != in.N {
					bad = append(bad, fmt.Sprintf("Pluck(%q) returned %d values, want %d", f.Column, pv.Len(), in.N))
				} else if got := f.canon(pv.Index(rank[i])); got != want {
					bad = append(bad, fmt.Sprintf("rec %d field %s %s{%s} Pluck(%q): stored %s loaded %s", i, f.GoName, f.Atom.Name, f.Tag, f.Column, want, got))
				}
			}
			// map reads: stored representation, only for plainly stored kinds
			if !f.Atom.NoMap && f.Column != "" && !f.PK {
				src := loaded[0].v.Field(fi).Interface()
				wantM := c03StoredCanon(src)
				for mi, mrow := range append(append([]map[string]interface{}{}, mapBy[pay]...), mapModelBy[pay]...) {
					gv, ok := mrow[f.Column]
					if !ok {
						bad = append(bad, fmt.Sprintf("rec %d map#%d: column %q missing", i, mi, f.Column))
						continue
					}
					if got := c03StoredCanon(gv); got != wantM && !(wantM == "x" && got == "null") {
						bad = append(bad, fmt.Sprintf("rec %d field %s %s map#%d: struct read %s map read %s (%T)", i, f.GoName, f.Atom.Name, mi, wantM, got, gv))
					}
				}
			}
		}
		if seenPK[pkCanon] {
			bad = append(bad, fmt.Sprintf("rec %d: duplicate primary key %s", i, pkCanon))
		}
		seenPK[pkCanon] = true
		if len(mapBy[pay]) != 2 || len(mapModelBy[pay]) != modelMaps {
			bad = append(bad, fmt.Sprintf("rec %d: %d+%d map copies loaded, want 2+%d", i, len(mapBy[pay]), len(mapModelBy[pay]), modelMaps))
		}
	}
	// ---- independence of the loaded copies: overwrite everything reachable from ONE loaded copy (slice elements, map
	// entries, pointees) and demand that no other loaded copy changes (rows must not share backing arrays / pointees)
	if len(bad) == 0 {
		var flat []copyT
		var keys []string
		for p := range loadedBy {
			keys = append(keys, p)
		}
		sort.Strings(keys)
		for _, p := range keys {
			flat = append(flat, loadedBy[p]...)
		}
		before := make([]string, len(flat))
		for i, c := range flat {
			before[i] = c03Canon(c.v)
		}
		for round := 0; round < 2 && len(flat) > 1 && len(bad) == 0; round++ {
			victim := prng.Intn(len(flat))
			c03Scribble(flat[victim].v)
			for i, c := range flat {
				if i == victim {
					before[i] = c03Canon(c.v)
					continue
				}
				if after := c03Canon(c.v); after != before[i] {
					bad = append(bad, fmt.Sprintf("loaded copies share memory: overwriting the contents of a record read by %s changed a record read by %s: %s -> %s",
						flat[victim].how, c.how, before[i], after))
					break
				}
			}
		}
	}
	if r != nil {
		for _, f := range s.Fields[1:] {
			r.H("e2e.atom", f.Atom.Name)
			for _, t := range strings.Split(f.Tag, ";") {
				if t != "" {
					r.H("e2e.tag", strings.SplitN(t, ":", 2)[0])
				}
			}
		}
		r.H("e2e.pk", s.PKStyle)
		r.H("e2e.naming", s.Naming)
		r.H("e2e.plucked-columns", fmt.Sprint(minInt(len(plucked), 6)))
	}
	return bad
}

func c03HasSinglePK(s *c03Schema) bool {
	n := 0
	for _, f := range s.Fields {
		if f.PK {
			n++
		}
	}
	return n == 1
}

// c03Pluckable: element types database/sql can scan a single column into directly
func c03Pluckable(t reflect.Type) bool {
	if t.Kind() == reflect.Ptr { // Pluck scans into a plain *T per element: NULL is not representable there (latitude: not asked)
		return false
	}
	if t.PkgPath() != "" { // defined / struct types (time.Time, sql.Null*, My*): left to the struct reads
		return false
	}
	switch t.Kind() {
	case reflect.Bool, reflect.Int, reflect.Int8, reflect.Int16, reflect.Int32, reflect.Int64, reflect.Uint, reflect.Uint8, reflect.Uint16,
		reflect.Uint32, reflect.Uint64, reflect.Float32, reflect.Float64, reflect.String:
		return true
	}
	return false
}

func c03AllPlain(s *c03Schema) bool {
	for _, f := range s.Fields {
		if f.Atom.NoMap || f.Column == "" {
			return false
		}
	}
	return true
}

func c03IsRef(k reflect.Kind) bool {
	return k == reflect.Ptr || k == reflect.Slice || k == reflect.Map || k == reflect.Interface
}

// c03Scribble overwrites everything REACHABLE THROUGH REFERENCES from v (slice elements, map entries, pointees), not
// v's own scalar members
func c03Scribble(v reflect.Value) {
	switch v.Kind() {
	case reflect.Ptr:
		if !v.IsNil() {
			c03Overwrite(v.Elem())
		}
	case reflect.Interface:
		if !v.IsNil() {
			if e := v.Elem(); c03IsRef(e.Kind()) {
				c03Scribble(e)
			} else if v.CanSet() {
				tmp := reflect.New(e.Type()).Elem()
				tmp.Set(e)
				c03Overwrite(tmp)
				v.Set(tmp)
			}
		}
	case reflect.Slice:
		for i := 0; i < v.Len(); i++ {
			c03Overwrite(v.Index(i))
		}
	case reflect.Map:
		for _, k := range v.MapKeys() {
			tmp := reflect.New(v.Type().Elem()).Elem()
			tmp.Set(v.MapIndex(k))
			c03Overwrite(tmp)
			v.SetMapIndex(k, tmp)
		}
	case reflect.Struct:
		if v.Type() == timeT {
			return
		}
		for i := 0; i < v.NumField(); i++ {
			if v.Type().Field(i).IsExported() {
				c03Scribble(v.Field(i))
			}
		}
	}
}

// c03Overwrite replaces the scalars stored IN v by values no generator produces and scribbles over what v references
func c03Overwrite(v reflect.Value) {
	switch v.Kind() {
	case reflect.Ptr, reflect.Slice, reflect.Map, reflect.Interface:
		c03Scribble(v)
	case reflect.Struct:
		if v.Type() == timeT {
			return
		}
		for i := 0; i < v.NumField(); i++ {
			if v.Type().Field(i).IsExported() {
				c03Overwrite(v.Field(i))
			}
		}
	default:
		if !v.CanSet() {
			return
		}
		switch v.Kind() {
		case reflect.Bool:
			v.SetBool(!v.Bool())
		case reflect.Int, reflect.Int8, reflect.Int16, reflect.Int32, reflect.Int64:
			v.SetInt(v.Int() ^ 0x55)
		case reflect.Uint, reflect.Uint8, reflect.Uint16, reflect.Uint32, reflect.Uint64:
			v.SetUint(v.Uint() ^ 0x55)
		case reflect.Float32, reflect.Float64:
			v.SetFloat(-12345.5)
		case reflect.String:
			v.SetString("\x01scribbled:" + v.String())
		}
	}
}

const c03F18 = "F18-C03-returning-slice-of-maps"

// c03KnownE2E: pattern of finding F18 — RETURNING-capable dialector, Create from a slice of maps through a model
// with an auto-increment key; the only complaints are "maps carry no key / slice grew" (pointer to slice) or the
// Scan error of the by-value form.
func c03KnownE2E(in c03E2EInput, bad []string) bool {
	if !in.Returning || (in.Mode != "maps" && in.Mode != "maps-val") || len(bad) == 0 {
		return false
	}
	for _, b := range bad {
		switch {
		case in.Mode == "maps" && (strings.Contains(b, "map carries no primary key after Create") || strings.HasPrefix(b, "Create changed the length of the caller's slice of maps")):
		case in.Mode == "maps-val" && strings.HasPrefix(b, "Create: ") && strings.Contains(b, "unsupported Scan") && strings.Contains(b, "*map[string]interface {}"):
		default:
			return false
		}
	}
	return true
}

func l0(l []reflect.Value) reflect.Value { return l[0] }

func c03MapOK(s *c03Schema) bool {
	for _, f := range s.Fields {
		if f.Atom.NoMap || f.Def || f.Auto != "" || f.Column == "" {
			return false
		}
	}
	return true
}

func c03E2ESuite(r *Result, rng *rand.Rand, tier string) {
	nSchemas := 300
	if tier == "thorough" {
		nSchemas = 2500
	}
	modes := []string{"single", "values", "pointers", "batches", "batches", "map", "maps", "maps-val"}
	for si := 0; si < nSchemas && !expired(); si++ {
		seed := rng.Int63()
		s := c03GenSchema(seed, c03AtomList)
		kinds := map[string]bool{}
		for _, f := range s.Fields {
			kinds[f.Atom.Name] = true
		}
		for _, returning := range []bool{true, false} {
			for _, mode := range modes {
				if strings.HasPrefix(mode, "map") && !c03MapOK(s) {
					r.H("e2e.skipped", "map-create on schema with serializer/custom/default/embedded fields")
					continue
				}
				if tier != "thorough" && rng.Intn(2) == 0 {
					continue
				}
				n := 1 + rng.Intn(6)
				if tier == "thorough" && rng.Intn(6) == 0 {
					n = 10 + rng.Intn(25)
				}
				in := c03E2EInput{SchemaSeed: seed, RecSeed: rng.Int63n(1 << 40), N: n, Mode: mode, Returning: returning, Desc: s.Desc}
				if mode == "batches" {
					in.Batch = []int{1, 2, 3, n, n + 1, 1 + rng.Intn(n+1)}[rng.Intn(6)]
				}
				bad := c03RunE2E(r, in)
				r.H("e2e.mode", mode)
				r.H("e2e.returning", fmt.Sprint(returning))
				r.H("e2e.records", fmt.Sprint(minInt(n, 10)))
				r.Case("e2e", fmt.Sprint(seed, mode, returning, in.RecSeed), len(kinds) >= 3)
				if c03KnownE2E(in, bad) && listed(c03F18) {
					r.H("e2e.verdict", "known-F18")
					r.KnownFinding(c03F18, "with RETURNING, Create from a slice of maps leaves the maps without their row's primary key (pointer: extra maps are appended to the caller's slice; by value: Scan error)")
				} else if len(bad) > 0 {
					if len(bad) > 6 {
						bad = append(bad[:6], fmt.Sprintf("… %d more", len(bad)-6))
					}
					r.H("e2e.verdict", "violation")
					r.Violate(Violation{Kind: "e2e", Suite: "e2e", Input: in, Observed: bad, Expected: "every field read back equals what Create was given; every record carries its row's key"})
				} else {
					r.H("e2e.verdict", "ok")
				}
			}
		}
		if si < 3 {
			r.Sample(map[string]interface{}{"schema": s.Desc})
		}
	}
}

// ---- "rt": single-field database round trip vs Lean store/load/setField ----

func c03RTSuite(r *Result, rng *rand.Rand, tier string) {
	type pending struct {
		k    c03Kind
		fv   interface{}
		real interface{}
	}
	var ops [][]interface{}
	var pend []pending
	db, sqlDB := c03Open(true, nil)
	defer sqlDB.Close()
	for ki, k := range c03AllKinds() {
		m := c03ModelOf(k)
		tbl := fmt.Sprintf("rt_%d", ki)
		if err := db.Table(tbl).AutoMigrate(reflect.New(m.Typ).Interface()); err != nil {
			r.Violate(Violation{Kind: "correspondence", Suite: "rt", Input: k, Observed: err.Error()})
			continue
		}
		vals := genVals(rng, k.ty(), 0)
		if k.Ptr || k.Base == "bytes" {
			vals = append(vals, nil)
		}
		for _, fv := range vals {
			rec := reflect.New(m.Typ)
			m.setF(rec.Elem(), fv)
			if k.TU != "sec" && rec.Elem().Field(1).IsZero() {
				r.H("rt.skipped", "zero value of an autoCreateTime/autoUpdateTime field (gorm substitutes NowFunc; judged by the e2e suite)")
				continue
			}
			if k.GoInt && k.Base == "uint" && rec.Elem().Field(1).Kind() != reflect.Ptr && rec.Elem().Field(1).Uint() >= 1<<63 ||
				k.GoInt && k.Base == "uint" && k.Ptr && !rec.Elem().Field(1).IsNil() && rec.Elem().Field(1).Elem().Uint() >= 1<<63 {
				r.H("rt.skipped", "Go uint >= 2^63 (database/sql wraps it to a negative int64 instead of rejecting it; not representable)")
				continue
			}
			var real interface{}
			if err := db.Table(tbl).Create(rec.Interface()).Error; err != nil {
				real = "create-error"
			} else {
				out := reflect.New(m.Typ)
				if err := db.Table(tbl).First(out.Interface(), rec.Elem().Field(0).Interface()).Error; err != nil {
					real = "load-error"
				} else {
					real = []interface{}{"ok", m.fvalJ(out.Elem())}
				}
			}
			ops = append(ops, []interface{}{"c03.rt", k.lean(), fv})
			pend = append(pend, pending{k, fv, real})
		}
	}
	outs, err := AskLean(ops)
	if err != nil {
		r.Violate(Violation{Kind: "correspondence", Suite: "rt", Note: err.Error()})
		return
	}
	for i, p := range pend {
		var mo []interface{}
		_ = json.Unmarshal(outs[i], &mo)
		if len(mo) != 2 {
			r.Violate(Violation{Kind: "correspondence", Suite: "rt", Input: p, Observed: string(outs[i])})
			continue
		}
		rep := mo[0].(bool)
		r.H("rt.representable", fmt.Sprint(rep))
		r.Case("rt", p.k.String()+canon(p.fv), true)
		want := canon(mo[1])
		if want == `["unmodelled"]` {
			r.H("rt.representable", "unmodelled(skipped)")
			continue
		}
		r.CorrCompared++
		got := canon(p.real)
		if got != want {
			r.Violate(Violation{Kind: "correspondence", Suite: "rt", Input: map[string]interface{}{"kind": p.k, "fv": p.fv}, Observed: p.real,
				Expected: mo[1], Note: "real Create+First of one field differs from Model.Scan.roundTrip (store/load are MODELLED: repair the model if SQLite/database/sql behave differently)"})
		}
		// the theorem's conclusion, observed on the real code: representable ⇒ identity
		if rep && got != canon([]interface{}{"ok", p.fv}) {
			r.Violate(Violation{Kind: "e2e", Suite: "rt", Input: map[string]interface{}{"kind": p.k, "fv": p.fv}, Observed: p.real,
				Expected: "representable value read back unchanged"})
		}
	}
}

func init() {
	register("C03", c03RTSuite)
	register("C03", c03E2ESuite)
	replayers["C03/e2e"] = func(r *Result, input json.RawMessage) {
		var in c03E2EInput
		if json.Unmarshal(input, &in) != nil {
			return
		}
		if bad := c03RunE2E(nil, in); c03KnownE2E(in, bad) && listed(c03F18) {
			r.KnownFinding(c03F18, "with RETURNING, Create from a slice of maps leaves the maps without their row's primary key")
		} else if len(bad) > 0 {
			r.Violate(Violation{Kind: "e2e", Suite: "e2e", Input: in, Observed: bad})
		}
	}
	replayers["C03/rt"] = func(r *Result, input json.RawMessage) { r.Note("rt replays: rerun the suite") }
}
