package main

import (
	"bufio"
	"encoding/json"
	"fmt"
	"io"
	"math/rand"
	"os"
	"os/exec"
	"reflect"
	"runtime/debug"
	"sort"
	"strings"
	"unsafe"

	"gorm.io/gorm"
	"gorm.io/gorm/callbacks"
	"gorm.io/gorm/clause"
	"gorm.io/gorm/logger"
	"gorm.io/gorm/schema"
)

// ---- dummy dialector: registers the default callbacks, no database -----------------------------

type dummyDialector struct{}

func (dummyDialector) Name() string { return "dummy" }
func (dummyDialector) Initialize(db *gorm.DB) error {
	callbacks.RegisterDefaultCallbacks(db, &callbacks.Config{})
	return nil
}
func (dummyDialector) Migrator(db *gorm.DB) gorm.Migrator { return nil }
func (dummyDialector) DataTypeOf(*schema.Field) string    { return "" }
func (dummyDialector) DefaultValueOf(*schema.Field) clause.Expression {
	return clause.Expr{SQL: "DEFAULT"}
}
func (dummyDialector) BindVarTo(w clause.Writer, s *gorm.Statement, v interface{}) { w.WriteByte('?') }
func (dummyDialector) QuoteTo(w clause.Writer, s string) {
	w.WriteByte('`')
	w.WriteString(s)
	w.WriteByte('`')
}
func (dummyDialector) Explain(sql string, vars ...interface{}) string { return sql }

// ---- history representation -------------------------------------------------------------------

type regOp struct {
	Op     string `json:"op"` // register replace remove
	Name   string `json:"name"`
	Before string `json:"before"` // the request as the chain spells it: argument of the LAST Before / After
	After  string `json:"after"`
	Hid    int    `json:"hid"`
	// HOW the request is built (c17_build.go). nil = the legacy spelling p.Match(nil)[.Before(b)][.After(a)]
	Chain *c17Chain `json:"chain,omitempty"`
}

func (o regOp) J(matchOk bool) []interface{} {
	if o.Chain != nil {
		return o.Chain.J(o)
	}
	switch o.Op {
	case "register":
		return []interface{}{"register", o.Name, o.Before, o.After, matchOk, o.Hid}
	case "replace":
		return []interface{}{"replace", o.Name, o.Before, o.After, o.Hid}
	}
	return []interface{}{"remove", o.Name}
}

type c17Case struct {
	Pipeline string  `json:"pipeline"`
	SkipTx   bool    `json:"skipDefaultTransaction"`
	Ops      []regOp `json:"ops"`
	// a second history on ANOTHER pipeline of the same *gorm.DB, interleaved with Ops (op k of Other runs right
	// before op k of Ops, the rest after): every pipeline must behave as if it were alone
	Other *c17Case `json:"other,omitempty"`
	// round 5 (c17_reentrant.go): after Ops, armed runs whose callbacks make registration calls themselves
	Reent *c17Reent `json:"reent,omitempty"`
}

type c17Obs struct {
	Errs  []string `json:"errs"`
	Fns   []int    `json:"fns"`   // after the last op
	Steps [][]int  `json:"steps"` // fns after each op
	Crash bool     `json:"crash,omitempty"`
	// processor.callbacks after the last op, read by reflection: [name, before, after, remove, replace] per record
	Table [][]interface{} `json:"table"`
	Alias []int           `json:"alias,omitempty"` // per record: index of the first record that is the SAME pointer
	Get   []int           `json:"get,omitempty"`   // processor.Get(n) for n in c17GetNames: handler id, -1 = nil
	Other *c17Obs         `json:"other,omitempty"`
	Cross string          `json:"cross,omitempty"` // a call on the OTHER pipeline changed this pipeline's firing order
	Reent *c17ReentObs    `json:"reent,omitempty"` // per armed run (c17_reentrant.go)
}

type builtin struct {
	Name  string
	Match string
}

var c17Builtins map[string][]builtin

func loadBuiltins() {
	if c17Builtins != nil {
		return
	}
	c17Builtins = map[string][]builtin{}
	b, err := os.ReadFile("/verif/.build/facts.json")
	if err != nil {
		panic("facts.json missing: run the extractor first")
	}
	var doc struct {
		Pipelines map[string][][2]string `json:"pipelines"`
	}
	if err := json.Unmarshal(b, &doc); err != nil {
		panic(err)
	}
	for k, v := range doc.Pipelines {
		for _, p := range v {
			c17Builtins[k] = append(c17Builtins[k], builtin{p[0], p[1]})
		}
	}
}

// initOps: the model's initial history = built-in registrations followed by a Replace of each by a stub
func initOps(c c17Case) [][]interface{} {
	var out [][]interface{}
	bs := c17Builtins[c.Pipeline]
	for i, b := range bs {
		matchOk := !(b.Match == "enableTransaction" && c.SkipTx)
		out = append(out, []interface{}{"register", b.Name, "", "", matchOk, 1000 + i})
	}
	for i, b := range bs {
		if b.Match == "enableTransaction" && c.SkipTx {
			continue // filtered out by compile (match false): not replaced by a stub either
		}
		out = append(out, []interface{}{"replace", b.Name, "", "", 1 + i})
	}
	return out
}

// c17Real runs one history on the real callbacks API (may overflow the stack: run in a child process).
func c17Real(c c17Case) c17Obs {
	db, err := gorm.Open(dummyDialector{}, &gorm.Config{SkipDefaultTransaction: c.SkipTx, Logger: logger.Discard})
	if err != nil {
		panic(err)
	}
	var fired []int
	stub := func(id int) func(*gorm.DB) { return func(*gorm.DB) { fired = append(fired, id) } }
	procOf := func(name string) interface {
		Execute(*gorm.DB) *gorm.DB
		Get(string) func(*gorm.DB)
	} {
		switch name {
		case "query":
			return db.Callback().Query()
		case "update":
			return db.Callback().Update()
		case "delete":
			return db.Callback().Delete()
		case "row":
			return db.Callback().Row()
		case "raw":
			return db.Callback().Raw()
		}
		return db.Callback().Create()
	}
	type side struct {
		c    c17Case
		obs  *c17Obs
		next int
		app  func(o regOp) error
	}
	mk := func(c c17Case, obs *c17Obs) *side {
		*obs = c17Obs{Errs: []string{}, Fns: []int{}, Steps: [][]int{}}
		return &side{c: c, obs: obs, app: c17Applier(db, c.Pipeline, c.SkipTx, stub)}
	}
	exec := func(pipeline string) []int {
		fired = []int{}
		procOf(pipeline).Execute(db.Session(&gorm.Session{NewDB: true}))
		return append([]int{}, fired...)
	}
	step := func(s *side) {
		o := s.c.Ops[s.next]
		s.next++
		if e := s.app(o); e != nil {
			s.obs.Errs = append(s.obs.Errs, "conflict")
		} else {
			s.obs.Errs = append(s.obs.Errs, "ok")
		}
		s.obs.Steps = append(s.obs.Steps, exec(s.c.Pipeline))
	}
	finish := func(s *side) {
		s.obs.Fns = exec(s.c.Pipeline)
		s.obs.Table, s.obs.Alias = c17ReadTable(procOf(s.c.Pipeline))
		for _, n := range c17GetNames(s.c.Pipeline) {
			id := -1
			if fn := procOf(s.c.Pipeline).Get(n); fn != nil {
				func() {
					defer func() {
						if recover() != nil {
							id = -2
						}
					}()
					fired = []int{}
					fn(nil)
					if len(fired) == 1 {
						id = fired[0]
					} else {
						id = -2
					}
				}()
			}
			s.obs.Get = append(s.obs.Get, id)
		}
	}
	var obs c17Obs
	main := mk(c, &obs)
	var other *side
	var oobs c17Obs
	if c.Other != nil && c.Other.Pipeline != c.Pipeline {
		oc := *c.Other
		oc.SkipTx = c.SkipTx
		other = mk(oc, &oobs)
	}
	for main.next < len(c.Ops) {
		if other != nil && other.next < len(other.c.Ops) {
			before := exec(c.Pipeline)
			step(other)
			if after := exec(c.Pipeline); fmt.Sprint(before) != fmt.Sprint(after) {
				obs.Cross = fmt.Sprintf("op %d on pipeline %q changed the firing order of pipeline %q: %v -> %v", other.next-1, other.c.Pipeline, c.Pipeline, before, after)
			}
		}
		step(main)
	}
	for other != nil && other.next < len(other.c.Ops) {
		step(other)
	}
	finish(main)
	if other != nil {
		finish(other)
		obs.Other = &oobs
	}
	return obs
}

// c17Applier stubs the built-ins of one pipeline of db (Replace by recording stubs) and returns the function that
// performs one regOp on it through the real builder API, spelled as the op's Chain says (c17_build.go).
func c17Applier(db *gorm.DB, pipeline string, skipTx bool, stub func(id int) func(*gorm.DB)) func(o regOp) error {
	bs := c17Builtins[pipeline]
	p := db.Callback().Create()
	switch pipeline {
	case "query":
		p = db.Callback().Query()
	case "update":
		p = db.Callback().Update()
	case "delete":
		p = db.Callback().Delete()
	case "row":
		p = db.Callback().Row()
	case "raw":
		p = db.Callback().Raw()
	}
	for i, b := range bs {
		if b.Match == "enableTransaction" && skipTx {
			continue
		}
		if e := p.Replace(b.Name, stub(1+i)); e != nil {
			panic(e)
		}
	}
	prev := p.Match(nil) // the builder VALUE of the previous chain (reuse)
	return func(o regOp) error {
		if o.Chain == nil {
			cb := p.Match(nil) // same as starting from the processor: &callback{processor: p}
			if o.Before != "" {
				cb = cb.Before(o.Before)
			}
			if o.After != "" {
				cb = cb.After(o.After)
			}
			prev = cb
			switch o.Op {
			case "register":
				return cb.Register(o.Name, stub(o.Hid))
			case "replace":
				return cb.Replace(o.Name, stub(o.Hid))
			}
			return p.Remove(o.Name)
		}
		ch := o.Chain
		cb := prev
		switch {
		case ch.Reuse:
			// the builder value of the previous op, used again
		case len(ch.Start) == 0 || ch.Start[0] == "plain":
			if len(ch.Steps) == 0 {
				switch o.Op {
				case "register":
					return p.Register(o.Name, stub(o.Hid))
				case "replace":
					return p.Replace(o.Name, stub(o.Hid))
				}
				return p.Remove(o.Name)
			}
			cb = p.Match(nil)
		case ch.Start[0] == "before":
			cb = p.Before(ch.Start[1])
		case ch.Start[0] == "after":
			cb = p.After(ch.Start[1])
		default:
			switch ch.Start[1] {
			case "true":
				cb = p.Match(func(*gorm.DB) bool { return true })
			case "false":
				cb = p.Match(func(*gorm.DB) bool { return false })
			default:
				cb = p.Match(nil)
			}
		}
		for _, st := range ch.Steps {
			keep := cb
			if st[0] == "before" {
				cb = cb.Before(st[1])
			} else {
				cb = cb.After(st[1])
			}
			if ch.DropResults {
				cb = keep // the value returned by the chain method is thrown away: `b.After(y); b.Register(…)`
			}
		}
		prev = cb
		switch o.Op {
		case "register":
			return cb.Register(o.Name, stub(o.Hid))
		case "replace":
			return cb.Replace(o.Name, stub(o.Hid))
		}
		return cb.Remove(o.Name)
	}
}

// c17GetNames: the names asked of processor.Get after a history
func c17GetNames(pipeline string) []string {
	var out []string
	for _, b := range c17Builtins[pipeline] {
		out = append(out, b.Name)
	}
	return append(out, "u1", "u2", "u3", "u4", "u5", "nope", "*", "")
}

// c17ReadTable reads processor.callbacks (unexported) by reflection: per record [name, before, after, remove,
// replace] and the index of the first slot holding the same pointer. nil when the structs no longer look like that.
func c17ReadTable(p interface{}) (tab [][]interface{}, alias []int) {
	defer func() {
		if recover() != nil {
			tab, alias = nil, nil
		}
	}()
	open := func(f reflect.Value) reflect.Value {
		return reflect.NewAt(f.Type(), unsafe.Pointer(f.UnsafeAddr())).Elem()
	}
	v := reflect.ValueOf(p).Elem().FieldByName("callbacks")
	if !v.IsValid() {
		return nil, nil
	}
	v = open(v)
	tab = [][]interface{}{}
	seen := map[uintptr]int{}
	for i := 0; i < v.Len(); i++ {
		ptr := v.Index(i)
		e := ptr.Elem()
		rec := []interface{}{}
		for _, n := range []string{"name", "before", "after"} {
			rec = append(rec, open(e.FieldByName(n)).String())
		}
		for _, n := range []string{"remove", "replace"} {
			rec = append(rec, open(e.FieldByName(n)).Bool())
		}
		tab = append(tab, rec)
		if j, ok := seen[ptr.Pointer()]; ok {
			alias = append(alias, j)
		} else {
			seen[ptr.Pointer()] = i
			alias = append(alias, i)
		}
	}
	return tab, alias
}

func init() {
	// child mode: one JSON case per line in, one observation per line out
	suites["C17child"] = []suiteFn{func(r *Result, rng *rand.Rand, tier string) {
		debug.SetMaxStack(4 << 20) // unbounded recursion dies quickly instead of eating 1 GB first
		loadBuiltins()
		in := bufio.NewReaderSize(os.Stdin, 1<<20)
		out := bufio.NewWriter(os.Stdout)
		for {
			line, err := in.ReadBytes('\n')
			if len(line) > 0 {
				var c c17Case
				if json.Unmarshal(line, &c) == nil {
					var o c17Obs
					if c.Reent != nil {
						o = c17ReentReal(c)
					} else {
						o = c17Real(c)
					}
					b, _ := json.Marshal(o)
					out.Write(b)
					out.WriteByte('\n')
					out.Flush()
				}
			}
			if err != nil {
				break
			}
		}
		os.Exit(0)
	}}

	register("C17", c17Suite)
	replayers["C17/callbacks"] = func(r *Result, input json.RawMessage) {
		loadBuiltins()
		var c c17Case
		if json.Unmarshal(input, &c) != nil {
			return
		}
		ch := newC17Child()
		defer ch.close()
		obs := ch.run(c)
		r.Case("callbacks", canon(c), true)
		if v, _, _ := c17OracleAll(c, obs); v != "" {
			r.Violate(Violation{Kind: "e2e", Suite: "callbacks", Input: c, Observed: obs, Expected: v})
		}
	}
}

// ---- crash-isolating child runner ---------------------------------------------------------------

type c17Child struct {
	cmd *exec.Cmd
	in  io.WriteCloser
	out *bufio.Reader
}

func newC17Child() *c17Child {
	ch := &c17Child{}
	ch.start()
	return ch
}

func (ch *c17Child) start() {
	ch.cmd = exec.Command(os.Args[0], "-prop", "C17child")
	ch.cmd.Env = append(os.Environ(), "GOMAXPROCS=2", "GOTRACEBACK=none")
	ch.in, _ = ch.cmd.StdinPipe()
	so, _ := ch.cmd.StdoutPipe()
	ch.cmd.Stderr = nil
	ch.out = bufio.NewReaderSize(so, 1<<20)
	if err := ch.cmd.Start(); err != nil {
		panic(err)
	}
}

func (ch *c17Child) close() {
	ch.in.Close()
	_ = ch.cmd.Wait()
}

func (ch *c17Child) run(c c17Case) c17Obs {
	b, _ := json.Marshal(c)
	b = append(b, '\n')
	_, werr := ch.in.Write(b)
	line, rerr := ch.out.ReadBytes('\n')
	if werr != nil || rerr != nil {
		// child died while processing this case (stack overflow in sortCallback): restart
		_ = ch.cmd.Wait()
		ch.start()
		return c17Obs{Crash: true}
	}
	var obs c17Obs
	_ = json.Unmarshal(line, &obs)
	return obs
}

// ---- property oracle (no model): what C17 demands of a history without error --------------------

func c17Oracle(c c17Case, obs c17Obs) string {
	if obs.Crash {
		return "registration neither returned an error nor completed (process crashed: unbounded recursion in sortCallback)"
	}
	if obs.Cross != "" {
		return obs.Cross // pipelines are independent: a call on one never changes another
	}
	for _, e := range obs.Errs {
		if e != "ok" {
			return "" // an error was returned: the property demands nothing further
		}
	}
	// Match: a Register / Replace whose Match predicate is false is no registration at all (compile drops the
	// record at once); what a Remove issued through Match(false) should do the property does not say: not judged
	allOps := c.Ops
	var eff []regOp
	for _, o := range c.Ops {
		if o.MatchFalse() {
			if o.Op == "remove" {
				return ""
			}
			continue
		}
		eff = append(eff, o)
	}
	c.Ops = eff
	bs := c17Builtins[c.Pipeline]
	type entry struct {
		name, before, after string
		hid                 int
		builtin             bool
		repl                bool
		ambig               bool // the spelling does not fix the request (c17Ambig): its side is not judged
	}
	live := map[string][]entry{} // per name: entries since the last remove
	order := []string{}
	for i, b := range bs {
		if b.Match == "enableTransaction" && c.SkipTx {
			continue // compile dropped it (match false) and the harness did not stub it
		}
		live[b.Name] = []entry{{name: b.Name, hid: 1 + i, builtin: true}}
		order = append(order, b.Name)
	}
	builtinName := map[string]bool{}
	for _, b := range bs {
		builtinName[b.Name] = true
	}
	reusedBuiltin := false
	removedEver := map[string]bool{}
	for _, o := range c.Ops {
		switch o.Op {
		case "remove":
			delete(live, o.Name)
			removedEver[o.Name] = true
		case "register", "replace":
			if builtinName[o.Name] && (o.Op == "register" || o.Before != "" || o.After != "") {
				reusedBuiltin = true
			}
			live[o.Name] = append(live[o.Name], entry{o.Name, o.Before, o.After, o.Hid, false, o.Op == "replace", o.c17Ambig()})
		}
	}
	pos := map[int]int{}
	for i, h := range obs.Fns {
		if _, dup := pos[h]; dup {
			return fmt.Sprintf("callback with handler %d ran more than once", h)
		}
		pos[h] = i
	}
	// (1) exactly once per live name.  Latitude: when a name was registered more than once with plain
	// Register (gorm warns "duplicated callback"), which of those registrations' handlers runs is not
	// fixed by the property; after a Replace it must be the handler of the latest Replace.
	cand := map[int]string{}
	ran := map[string]int{}
	for n, es := range live {
		lastRepl := -1
		for i, e := range es {
			if e.repl {
				lastRepl = i
			}
		}
		lo := 0
		if lastRepl >= 0 {
			lo = lastRepl
		}
		for _, e := range es[lo:] {
			cand[e.hid] = n
		}
	}
	for h := range pos {
		n, ok := cand[h]
		if !ok {
			return fmt.Sprintf("handler %d ran although it is not a live handler of any name", h)
		}
		if _, dup := ran[n]; dup {
			return fmt.Sprintf("two handlers of callback %q ran", n)
		}
		ran[n] = h
	}
	for n := range live {
		if _, ok := ran[n]; !ok {
			return fmt.Sprintf("live callback %q did not run", n)
		}
	}
	posOf := func(name string) int { return pos[ran[name]] }
	// (2) sides: only for names with a single entry (unambiguous request) and a live, distinct target
	constrained := map[string]bool{}
	for n, es := range live {
		for _, e := range es {
			if e.before != "" || e.after != "" {
				constrained[n] = true
			}
		}
	}
	for n, es := range live {
		if len(es) != 1 || es[0].ambig {
			continue
		}
		e := es[0]
		if e.before != "" && e.before != "*" && e.before != n {
			if _, ok := live[e.before]; ok && posOf(n) > posOf(e.before) {
				return fmt.Sprintf("callback %q registered Before(%q) runs after it", n, e.before)
			}
		}
		if e.after != "" && e.after != "*" && e.after != n {
			if _, ok := live[e.after]; ok && posOf(n) < posOf(e.after) {
				return fmt.Sprintf("callback %q registered After(%q) runs before it", n, e.after)
			}
		}
		if e.before == "*" && e.after == "" {
			for m := range live {
				if !constrained[m] && posOf(n) > posOf(m) {
					return fmt.Sprintf("callback %q registered Before(\"*\") runs after unconstrained %q", n, m)
				}
			}
		}
		if e.after == "*" && e.before == "" {
			for m := range live {
				if !constrained[m] && posOf(n) < posOf(m) {
					return fmt.Sprintf("callback %q registered After(\"*\") runs before unconstrained %q", n, m)
				}
			}
		}
	}
	// (3) built-in order (user registrations do not reuse built-in names except plain Replace/Remove)
	if !reusedBuiltin {
		last := -1
		for _, n := range order {
			if _, ok := live[n]; !ok || removedEver[n] {
				continue // removed built-ins (even if registered again later) have no original position any more
			}
			p := posOf(n)
			if p < last {
				return fmt.Sprintf("built-in callback %q runs out of its original relative order", n)
			}
			last = p
		}
	}
	// (4) a plain Replace of a live name takes its position: fns after = fns before with the handler substituted
	liveNow := map[string]int{}
	for i, b := range bs {
		if !(b.Match == "enableTransaction" && c.SkipTx) {
			liveNow[b.Name] = 1 + i
		}
	}
	for k, o := range allOps {
		if o.MatchFalse() {
			continue
		}
		switch o.Op {
		case "remove":
			delete(liveNow, o.Name)
		case "register":
			liveNow[o.Name] = o.Hid
		case "replace":
			old, ok := liveNow[o.Name]
			if ok && o.Before == "" && o.After == "" && k > 0 && len(obs.Steps) > k {
				// compared by NAME (which handler of a duplicated name runs is not fixed, see (1)),
				// plus: the replaced name must now run the new handler
				prev, cur := obs.Steps[k-1], obs.Steps[k]
				nameOf := func(h int) string {
					for i, b := range bs {
						if h == 1+i {
							return b.Name
						}
					}
					for _, x := range c.Ops {
						if x.Hid == h {
							return x.Name
						}
					}
					return fmt.Sprint("?", h)
				}
				pn, cn := []string{}, []string{}
				for _, h := range prev {
					pn = append(pn, nameOf(h))
				}
				newRuns := false
				for _, h := range cur {
					cn = append(cn, nameOf(h))
					if h == o.Hid {
						newRuns = true
					}
				}
				_ = old
				if fmt.Sprint(pn) != fmt.Sprint(cn) || !newRuns {
					return fmt.Sprintf("Replace(%q) did not take the replaced callback's position: before %v after %v", o.Name, prev, cur)
				}
			}
			liveNow[o.Name] = o.Hid
		}
	}
	return ""
}

// ---- generation ---------------------------------------------------------------------------------

func c17OpUniverse(pipeline string, small bool) []regOp {
	bs := c17Builtins[pipeline]
	b1 := bs[len(bs)/2].Name
	targets := []string{"", b1, "u1", "u2", "nope", "*"}
	names := []string{"u1", "u2", b1}
	if !small {
		targets = append(targets, bs[0].Name, "u3", "u4")
		names = append(names, "u3", "u4")
	}
	var ops []regOp
	for _, n := range names {
		for _, b := range targets {
			for _, a := range targets {
				ops = append(ops, regOp{Op: "register", Name: n, Before: b, After: a})
			}
		}
	}
	for _, n := range []string{b1, "u1"} {
		ops = append(ops, regOp{Op: "replace", Name: n})
		ops = append(ops, regOp{Op: "remove", Name: n})
	}
	return ops
}

func c17Suite(r *Result, rng *rand.Rand, tier string) {
	loadBuiltins()
	var cases []c17Case
	kinds := []string{"create", "query", "update", "delete", "row", "raw"}
	addExhaustive := func(p string, depth int, skip bool) {
		u := c17OpUniverse(p, true)
		var rec func(prefix []regOp, d int)
		rec = func(prefix []regOp, d int) {
			if len(prefix) > 0 {
				ops := make([]regOp, len(prefix))
				for i, o := range prefix {
					o.Hid = 100 + i
					ops[i] = o
				}
				cases = append(cases, c17Case{Pipeline: p, SkipTx: skip, Ops: ops})
			}
			if d == 0 {
				return
			}
			for _, o := range u {
				rec(append(prefix, o), d-1)
			}
		}
		rec(nil, depth)
	}
	nrand := 6000
	switch tier {
	case "thorough":
		for _, p := range kinds {
			addExhaustive(p, 2, false)
		}
		addExhaustive("create", 2, true)
		nrand = 400000
	case "search":
		addExhaustive("create", 2, false)
		nrand = 60000
	default:
		addExhaustive("create", 2, false)
		addExhaustive("query", 1, false)
		addExhaustive("update", 1, true)
	}
	r.Exhaustive = false
	for i := 0; i < nrand; i++ {
		p := kinds[rng.Intn(len(kinds))]
		u := c17OpUniverse(p, false)
		// sort.SliceStable is a plain insertion sort (what the model transcribes) only for <= 20 entries:
		// keep built-ins + their stub replaces + user registrations within that bound
		maxOps := 20 - 2*len(c17Builtins[p])
		if maxOps > 8 {
			maxOps = 8
		}
		n := 1 + rng.Intn(maxOps)
		ops := make([]regOp, n)
		for j := range ops {
			ops[j] = u[rng.Intn(len(u))]
			if rng.Intn(3) == 0 { // bias towards plain registrations / replaces
				ops[j].Before, ops[j].After = "", ""
			}
			ops[j].Hid = 100 + j
		}
		cs := c17Case{Pipeline: p, SkipTx: rng.Intn(4) == 0, Ops: ops}
		if rng.Intn(4) != 0 { // HOW each request is built: a random spelling of the same request (c17_build.go)
			cs = c17Respell(rng, cs, []string{"u1", "u2", "u3", "u4", "nope", "*", c17Builtins[p][0].Name})
		}
		cases = append(cases, cs)
	}
	// every spelling of a request (starter x up to two chain calls x finisher) on a discriminating fixture
	switch tier {
	case "thorough":
		for _, p := range kinds {
			cases = append(cases, c17SpellCases(p, []string{"register", "replace", "remove"})...)
		}
	default:
		cases = append(cases, c17SpellCases("create", []string{"register", "replace", "remove"})...)
		cases = append(cases, c17SpellCases(kinds[1+rng.Intn(5)], []string{"register"})...)
	}
	// structured dependency webs among up to five fresh names (c17_gen.go)
	nchain := 6000
	switch tier {
	case "thorough":
		nchain = 300000
	case "search":
		nchain = 60000
	}
	for _, cs := range c17ChainCases(rng, nchain) {
		if rng.Intn(4) != 0 {
			cs = c17Respell(rng, cs, c17Pool)
		}
		if rng.Intn(8) == 0 { // a second history on another pipeline of the same DB, interleaved
			var q string
			for q = cs.Pipeline; q == cs.Pipeline; q = kinds[rng.Intn(len(kinds))] {
			}
			oc := c17ChainCases(rng, 1)[0]
			oc.Pipeline = q
			mx := 20 - 2*len(c17Builtins[q])
			if mx > 4 {
				mx = 4
			}
			if mx < 1 {
				mx = 1
			}
			if len(oc.Ops) > mx {
				oc.Ops = oc.Ops[:mx]
			}
			for j := range oc.Ops { // built-in names of the generated pipeline do not exist on q: they become unknown names there
				oc.Ops[j].Hid = 200 + j
			}
			oc = c17Respell(rng, oc, c17Pool)
			oc.SkipTx = cs.SkipTx
			cs.Other = &oc
		}
		if rng.Intn(50) == 0 { // a builder value used for two finishers (listed finding F21: rare on purpose)
			cs = c17Reuse(rng, cs)
		}
		cases = append(cases, cs)
	}
	// probes: the witness of every listed finding is re-run on the real code in every run
	probeAt := map[int]string{}
	for _, w := range c17Witnesses() {
		probeAt[len(cases)] = w.ID
		cases = append(cases, w.Case)
	}
	// model first (cheap; tells which histories would not terminate)
	leanOps := make([][]interface{}, 0, len(cases))
	otherAt := map[int]int{} // case index -> index of the answer for its Other history
	leanOp := func(c c17Case) []interface{} {
		ops := make([]interface{}, len(c.Ops))
		for j, o := range c.Ops {
			ops[j] = o.J(true)
		}
		return []interface{}{"cb.run", initOps(c), ops, c17GetNames(c.Pipeline)}
	}
	for _, c := range cases {
		leanOps = append(leanOps, leanOp(c))
	}
	for i, c := range cases {
		if c.Other != nil {
			oc := *c.Other
			oc.SkipTx = c.SkipTx
			otherAt[i] = len(leanOps)
			leanOps = append(leanOps, leanOp(oc))
		}
	}
	outs, err := AskLean(leanOps)
	if err != nil {
		r.Violate(Violation{Kind: "correspondence", Suite: "callbacks", Note: err.Error()})
		return
	}
	// which repairs of callbacks.go the model follows (regenerated facts, extract/gen_c17.go): the model of the
	// tree under check is Proc.runR treeRepairs; the flags are only reported here, the comparison is the same
	guardInTree := false
	if fl, err := AskLean([][]interface{}{{"cb.flags"}}); err == nil && len(fl) == 1 {
		r.H("model-follows-tree", canonRaw(fl[0]))
		var f struct {
			DepthGuard bool `json:"depthGuard"`
		}
		_ = json.Unmarshal(fl[0], &f)
		guardInTree = f.DepthGuard
	}
	// real code in crash-isolating children, sharded
	nw := 12
	type job struct{ lo, hi int }
	res := make([]c17Obs, len(cases))
	done := make(chan bool, nw)
	// histories on which the model predicts unbounded recursion: only a sample is run for real
	// (each one kills a child process); the others are skipped and counted separately
	fuelSeen := 0
	skip := make([]bool, len(cases))
	for i := range cases {
		if j, ok := otherAt[i]; ok && strings.Contains(string(outs[j]), "\"fuel\"") {
			cases[i].Other = nil // keep crash-prone histories out of the interleaved runs
			delete(otherAt, i)
		}
		if strings.Contains(string(outs[i]), "\"fuel\"") {
			fuelSeen++
			if _, probe := probeAt[i]; fuelSeen > 40 && !probe {
				skip[i] = true
			}
		}
	}
	for w := 0; w < nw; w++ {
		go func(w int) {
			ch := newC17Child()
			defer ch.close()
			for i := w; i < len(cases); i += nw {
				if skip[i] {
					continue
				}
				if expired() {
					res[i] = c17Obs{Errs: nil}
					continue
				}
				res[i] = ch.run(cases[i])
			}
			done <- true
		}(w)
	}
	for w := 0; w < nw; w++ {
		<-done
	}
	// judged first: the probes (so that, when a listed entry has been marked fixed and the defect is back, the
	// stored VIOLATION replays include the former witness itself), then every other case in generation order
	judgeOrder := make([]int, 0, len(cases))
	for i := range cases {
		if _, probe := probeAt[i]; probe {
			judgeOrder = append(judgeOrder, i)
		}
	}
	for i := range cases {
		if _, probe := probeAt[i]; !probe {
			judgeOrder = append(judgeOrder, i)
		}
	}
	judge := func(i int, c c17Case, obs c17Obs, out json.RawMessage, sub bool) {
		full, fullObs := cases[i], res[i] // what a replay needs (for the Other history: the whole interleaved case)
		var m struct {
			Errs    []string        `json:"errs"`
			Fns     []int           `json:"fns"`
			Gap     []int           `json:"gap"`
			Table   [][]interface{} `json:"table"`
			Get     []int           `json:"get"`
			Spelled bool            `json:"spelled"`
		}
		_ = json.Unmarshal(out, &m)
		for k, e := range m.Errs {
			if e == "cycle" { // the depth guard's error (repair of F12): an ordinary returned error for the caller
				m.Errs[k] = "conflict"
				r.H("model-branch", "depth-guard-error")
			}
		}
		// the depth guard against the unguarded recursion: calls on which the unguarded model terminates although
		// it recurses deeper than the guard's bound 2n+2 (the only tables on which the guard changes a result;
		// C17_guard_conservative / C17_guard_error_iff_beyond_bound) -- and those among them without an error
		if len(m.Gap) == 2 && guardInTree {
			if m.Gap[0] > 0 {
				r.H("guard-vs-unguarded", "terminating-recursion-deeper-than-2n+2")
				r.Note("unguarded sortCallback terminates deeper than 2n+2 on %s (%d calls, %d without error)", canon(c), m.Gap[0], m.Gap[1])
			} else {
				r.H("guard-vs-unguarded", "same-or-guard-stops-divergence")
			}
		}
		key := canon(c)
		if sub {
			key += "/other-of/" + canon(full.Ops)
		}
		nontriv := false
		for _, o := range c.Ops {
			if o.Before != "" || o.After != "" || o.Op != "register" || o.Chain != nil {
				nontriv = true
			}
			// how the request was built (the dimension of round 3)
			switch ch := o.Chain; {
			case ch == nil:
				r.H("spelling", "legacy Match(nil).Before.After")
			default:
				st := "plain"
				if len(ch.Start) == 2 {
					st = ch.Start[0]
					if st == "match" {
						st += "(" + ch.Start[1] + ")"
					}
				}
				seq := ""
				for _, x := range ch.Steps {
					seq += string(x[0][0])
				}
				if len(seq) > 3 {
					seq = seq[:3] + "+"
				}
				r.H("spelling", fmt.Sprintf("start=%s steps=%s fin=%s", st, seq, o.Op))
				if o.c17Ambig() {
					r.H("spelling-kind", "request not fixed by the property (repeated call with another argument / dropped results / reuse)")
				} else if len(ch.Steps) > 0 {
					r.H("spelling-kind", "chain of "+fmt.Sprint(len(ch.Steps)+len(ch.Start)-1)+" calls")
				}
				if ch.Reuse {
					r.H("spelling-kind", "builder value reused")
				}
				if ch.DropResults {
					r.H("spelling-kind", "results of chain methods dropped")
				}
			}
		}
		r.Case("callbacks", key, nontriv)
		r.H("pipeline", c.Pipeline)
		if sub {
			r.H("cross-pipeline", "second history on "+c.Pipeline+" interleaved")
		}
		r.H("len", fmt.Sprint(len(c.Ops)))
		outcome := "ok"
		for _, e := range obs.Errs {
			if e != "ok" {
				outcome = "error"
			}
		}
		if obs.Crash {
			outcome = "crash"
		}
		r.H("outcome", outcome)
		if i%4999 == 0 {
			r.Sample(map[string]interface{}{"input": c, "real": obs})
		}
		// correspondence: error class per op + final firing order; model "fuel" <-> real crash.
		// Histories that reuse a builder value are outside the value model (C17_builder_used_once_appends): e2e only.
		if !c17HasReuse(c) {
			r.CorrCompared++
			modelFuel := false
			for _, e := range m.Errs {
				if e == "fuel" {
					modelFuel = true
				}
			}
			if !m.Spelled {
				r.H("model-branch", "chain record differs from the spelled request (non-canonical builder tables)")
			}
			if modelFuel != obs.Crash {
				r.Violate(Violation{Kind: "correspondence", Suite: "callbacks", Input: full, Observed: fullObs, Expected: m,
					Note: "model runs out of fuel iff the real sortCallback recursion does not terminate"})
			} else if !obs.Crash {
				if strings.Join(m.Errs, ",") != strings.Join(obs.Errs, ",") || fmt.Sprint(m.Fns) != fmt.Sprint(obs.Fns) {
					r.Violate(Violation{Kind: "correspondence", Suite: "callbacks", Input: full, Observed: fullObs, Expected: m,
						Note: "real Callback() API (error per call, firing order of stubs) vs Lean Gorm.Proc.run"})
				} else if obs.Table != nil && canon(obs.Table) != canon(c17TableNoHid(m.Table)) {
					// the registration table itself: name / before / after / remove / replace of every record
					r.Violate(Violation{Kind: "correspondence", Suite: "callbacks", Input: full, Observed: fullObs, Expected: m,
						Note: "processor.callbacks read by reflection vs the model's table (records built through the regenerated builder tables)"})
				} else if obs.Get != nil && fmt.Sprint(obs.Get) != fmt.Sprint(m.Get) {
					r.Violate(Violation{Kind: "correspondence", Suite: "callbacks", Input: full, Observed: fullObs, Expected: m,
						Note: "processor.Get(name) for every name of the universe vs Lean Gorm.Proc.get"})
				}
				if obs.Table == nil {
					r.H("table-by-reflection", "unreadable (struct layout changed)")
				} else {
					r.H("table-by-reflection", "compared")
				}
			}
		} else {
			r.H("outcome", "builder reuse: e2e only")
		}
		// end-to-end oracle
		if want, probe := probeAt[i]; probe && !sub {
			v := c17Oracle(c, obs)
			got := ""
			if v != "" {
				got = c17Classify(c, obs, v)
			}
			if listed(want) {
				r.H("probe", fmt.Sprintf("%s reproduced=%v", want, got == want))
				if got != want {
					r.Note("probe of listed finding %s: witness now yields %q (%s)", want, got, v)
				}
			} else {
				// entry marked fixed: the former witness is an ordinary input and must satisfy the property
				// (a failure is reported as a VIOLATION by the oracle call below: nothing is suppressed)
				r.H("probe", fmt.Sprintf("%s fixed: former witness judged, passes=%v", want, v == ""))
			}
		}
		if v := c17Oracle(c, obs); v != "" {
			id := c17Classify(c, obs, v)
			if id != "" && listed(id) {
				r.KnownFinding(id, v)
			} else {
				if sub {
					v = "history on the second pipeline: " + v
				}
				r.Violate(Violation{Kind: "e2e", Suite: "callbacks", Input: full, Observed: fullObs, Expected: v, Note: id})
			}
		}
	}
	for _, i := range judgeOrder {
		c := cases[i]
		obs := res[i]
		if skip[i] {
			r.H("outcome", "model-predicts-nontermination(not run)")
			continue
		}
		if obs.Errs == nil && !obs.Crash {
			continue // not run (budget expired)
		}
		judge(i, c, obs, outs[i], false)
		if j, ok := otherAt[i]; ok && c.Other != nil && obs.Other != nil && !obs.Crash {
			oc := *c.Other
			oc.SkipTx = c.SkipTx
			judge(i, oc, *obs.Other, outs[j], true)
		}
	}
	_ = sort.Strings
}

// c17Classify maps a violation witness to the id of a known-finding pattern ("" = none).
func c17Classify(c c17Case, obs c17Obs, v string) string {
	if obs.Crash {
		return "F12-C17-unbounded-recursion"
	}
	// F21: one builder VALUE used for two finishers -- the second call rewrites the record the first one stored
	// (p.callbacks holds the pointer): name / handler / remove / replace of the first registration are overwritten
	for i, o := range c.Ops {
		if o.Chain != nil && o.Chain.Reuse && i > 0 {
			return "F21-C17-builder-value-reused"
		}
	}
	c.Ops = c17Effective(c.Ops)
	if strings.Contains(v, "registered") || strings.Contains(v, "built-in callback") {
		if !c17Satisfiable(c) {
			return "F13-C17-undetected-conflict"
		}
	}
	// walk the history: names live with a '*' request / with more than one entry at the time of each op
	star := map[string]bool{}
	count := map[string]int{}
	hasAfter := map[string]bool{}
	for _, b := range c17Builtins[c.Pipeline] {
		if !(b.Match == "enableTransaction" && c.SkipTx) {
			count[b.Name] = 1
		}
	}
	f14, f15, f16 := false, false, false
	for _, o := range c.Ops {
		if o.Op == "remove" {
			delete(star, o.Name)
			delete(count, o.Name)
			delete(hasAfter, o.Name)
			continue
		}
		if o.Op == "replace" && star[o.Name] {
			f14 = true // Replace of a callback registered with Before("*")/After("*")
		}
		if o.Op == "register" && count[o.Name] >= 1 && (o.Before != "" || o.After != "") {
			f15 = true // an already live name registered again with a request
		}
		count[o.Name]++
		if o.Before == "*" || o.After == "*" {
			star[o.Name] = true
		}
		if o.After != "" {
			hasAfter[o.Name] = true
		}
	}
	// F16: some callback X carries its own After request and is named by another callback's Before(X):
	// `cs[idx].after = c.name` in sortCallback overwrites X's request for good
	for _, o := range c.Ops {
		if o.Op != "remove" && o.Before != "" && o.Before != "*" && o.Before != o.Name {
			for _, x := range c.Ops {
				if x.Op != "remove" && x.Name == o.Before && x.After != "" && x.After != o.Name {
					f16 = true
				}
			}
		}
	}
	if strings.Contains(v, "not a live handler") || strings.Contains(v, "did not take the replaced") || strings.Contains(v, "did not run") {
		if f14 {
			return "F14-C17-replace-of-star-callback-ignored"
		}
	}
	if strings.Contains(v, "registered After(") && f16 {
		return "F16-C17-before-overwrites-after-request"
	}
	// F16, second symptom: the overwritten request is X's After("*"): X stops being a '*' record, so the pre-pass of
	// the NEXT compile no longer keeps it behind the other '*' callbacks -- an unrelated plain Replace moves it
	if strings.Contains(v, "did not take the replaced") {
		for _, o := range c.Ops {
			if o.Op != "remove" && o.Before != "" && o.Before != "*" && o.Before != o.Name {
				for _, x := range c.Ops {
					if x.Op != "remove" && x.Name == o.Before && x.After == "*" {
						return "F16-C17-before-overwrites-after-request"
					}
				}
			}
		}
	}
	// F20: a name N made a request Before(X)/After(X), was removed, and is registered again later: the
	// back-link the first N left on X (`cs[idx].after = N` / `after.before = N`) survives the Remove and now
	// acts as a request of X towards the new N that nobody made
	if strings.Contains(v, "registered") {
		requested := map[string]bool{} // names that left a back-link
		removedAfterRequest := map[string]bool{}
		for _, o := range c.Ops {
			switch {
			case o.Op == "remove":
				if requested[o.Name] {
					removedAfterRequest[o.Name] = true
				}
			default:
				if removedAfterRequest[o.Name] && strings.Contains(v, fmt.Sprintf("%q", o.Name)) {
					return "F20-C17-stale-backlink-after-remove"
				}
				if (o.Before != "" && o.Before != "*" && o.Before != o.Name) || (o.After != "" && o.After != "*" && o.After != o.Name) {
					requested[o.Name] = true
				}
			}
		}
	}
	// F19: one name is live with a Before("*") record AND an After("*") record (duplicate registration):
	// the comparator of the sort.SliceStable pre-pass is not a strict weak order on such a table, every
	// compile reshuffles the records, so an unrelated later call moves existing callbacks
	if strings.Contains(v, "did not take the replaced") {
		bs, as := map[string]bool{}, map[string]bool{}
		for _, o := range c.Ops {
			if o.Op == "remove" {
				delete(bs, o.Name)
				delete(as, o.Name)
				continue
			}
			if o.Before == "*" {
				bs[o.Name] = true
			}
			if o.After == "*" {
				as[o.Name] = true
			}
		}
		for n := range bs {
			if as[n] {
				return "F19-C17-duplicate-star-records-reshuffled"
			}
		}
	}
	// F18: the violated request is X's After("*") and X is named by another callback's After(X): the
	// requester's visit recurses into X and places it before unconstrained callbacks that come later
	for _, o := range c.Ops {
		if o.Op != "remove" && o.After != "" && o.After != "*" && o.After != o.Name &&
			strings.Contains(v, fmt.Sprintf("callback %q registered After(\"*\") runs before unconstrained", o.After)) {
			return "F18-C17-star-callback-pulled-forward"
		}
	}
	// F17: the violated request is a Before(X) and X is named by the Before(X) of two or more different
	// callbacks: each visit overwrites the back-link `cs[idx].after = c.name`, only the last one is checked
	{
		req := map[string]map[string]bool{}
		for _, o := range c.Ops {
			if o.Op != "remove" && o.Before != "" && o.Before != "*" && o.Before != o.Name {
				if req[o.Before] == nil {
					req[o.Before] = map[string]bool{}
				}
				req[o.Before][o.Name] = true
			}
		}
		for x, who := range req {
			if len(who) >= 2 && strings.Contains(v, fmt.Sprintf("registered Before(%q) runs after it", x)) {
				return "F17-C17-second-before-overwrites-backlink"
			}
		}
	}
	if strings.Contains(v, "registered") || strings.Contains(v, "built-in callback") {
		if f15 {
			return "F15-C17-duplicate-name-with-constraint"
		}
	}
	return ""
}

// c17Satisfiable: is there ANY order meeting all requested sides plus the built-in order?
// (requests as the oracle reads them: names with a single live entry; '*' relative to unconstrained names)
func c17Satisfiable(c c17Case) bool {
	c.Ops = c17Effective(c.Ops)
	bs := c17Builtins[c.Pipeline]
	type entry struct{ before, after string }
	live := map[string][]entry{}
	var order []string
	for _, b := range bs {
		if b.Match == "enableTransaction" && c.SkipTx {
			continue
		}
		live[b.Name] = []entry{{}}
		order = append(order, b.Name)
	}
	for _, o := range c.Ops {
		if o.Op == "remove" {
			delete(live, o.Name)
		} else {
			live[o.Name] = append(live[o.Name], entry{o.Before, o.After})
		}
	}
	constrained := map[string]bool{}
	for n, es := range live {
		for _, e := range es {
			if e.before != "" || e.after != "" {
				constrained[n] = true
			}
		}
	}
	edges := map[string][]string{}
	add := func(a, b string) { edges[a] = append(edges[a], b) }
	for n, es := range live {
		for _, e := range es { // every entry's request counts when asking "is there a conflict?"
			if e.before != "" && e.before != "*" {
				if _, ok := live[e.before]; ok {
					add(n, e.before)
				}
			}
			if e.after != "" && e.after != "*" {
				if _, ok := live[e.after]; ok {
					add(e.after, n)
				}
			}
			for m := range live {
				if m != n && !constrained[m] {
					if e.before == "*" {
						add(n, m)
					}
					if e.after == "*" {
						add(m, n)
					}
				}
			}
		}
	}
	prev := ""
	for _, n := range order {
		if _, ok := live[n]; !ok {
			continue
		}
		if prev != "" {
			add(prev, n)
		}
		prev = n
	}
	state := map[string]int{}
	var dfs func(n string) bool
	dfs = func(n string) bool {
		state[n] = 1
		for _, m := range edges[n] {
			if state[m] == 1 || (state[m] == 0 && !dfs(m)) {
				return false
			}
		}
		state[n] = 2
		return true
	}
	for n := range live {
		if state[n] == 0 && !dfs(n) {
			return false
		}
	}
	return true
}

// c17Effective: the ops without the Register / Replace calls whose Match predicate is false (no-ops)
func c17Effective(ops []regOp) []regOp {
	var eff []regOp
	for _, o := range ops {
		if o.MatchFalse() && o.Op != "remove" {
			continue
		}
		eff = append(eff, o)
	}
	return eff
}

// c17TableNoHid: the model's table rows without the handler id (not readable on the real side)
func c17TableNoHid(t [][]interface{}) [][]interface{} {
	out := [][]interface{}{}
	for _, row := range t {
		if len(row) >= 5 {
			out = append(out, row[:5])
		}
	}
	return out
}

// c17OracleAll: the oracle on the history and, when there is one, on the interleaved history of the second pipeline
func c17OracleAll(c c17Case, obs c17Obs) (string, c17Case, c17Obs) {
	if v := c17Oracle(c, obs); v != "" {
		return v, c, obs
	}
	if c.Other != nil && obs.Other != nil {
		oc := *c.Other
		oc.SkipTx = c.SkipTx
		if v := c17Oracle(oc, *obs.Other); v != "" {
			return "history on the second pipeline: " + v, oc, *obs.Other
		}
	}
	return "", c, obs
}
