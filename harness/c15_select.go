package main

// C15 round 4 — SELECT LISTS with computed / aliased / non-model columns, given to the chain in every spelling, read
// through every path and destination kind ("report the same rows and VALUES" includes the values of computed columns).
//
// A scenario: table c15_sels (id, name, age NULLable, score, grp; names of mixed case incl. the empty string, zero and
// negative scores, rows inserted in non-key order) and ONE chain
//
//	db.Model(&C15Sel{}) | db.Table("c15_sels")   [.Distinct()]   [earlier Select call that the later one replaces]
//	  + a select list of 0..5 ITEMS: model columns, `*`, computed columns with an alias that is no model column
//	    (0, 1, 2+ of them: score*K AS dbl, upper(name) AS uname, length(name) AS ln, age+K AS agep (NULL-propagating),
//	    COALESCE(age,K)+1 AS agec, id%3 AS md, name||'-x' AS nm2, K AS k7), computed columns whose alias COLLIDES with
//	    a real column (score+K AS score, COALESCE(age,K)+1 AS age, lower(name) AS name); every constant either spelled
//	    in the text or passed as a BIND ARGUMENT
//	  + the FORM the list is given in: one string | several string arguments | []string | string with `?` args |
//	    string with @named args (sql.Named / map) | Clauses(clause.Select{Expression}) | Clauses(clause.Select{Columns})
//	  + optional WHERE, a total ORDER BY id [desc], Limit/Offset; fresh chain per path or ONE Session handle used for all
//	    paths, outside or inside one user transaction; PrepareStmt on/off
//
// and a list of read paths run on it: Find into []model / []custom struct carrying the alias fields / []smaller struct /
// one struct; Scan into []model / []custom / one custom struct; Find / Scan into []map; Take / First into one map;
// Rows + ScanRows into model / custom struct / map; First / Last / Take into model / custom struct; FindInBatches;
// Pluck of the (single) selected item by its alias; Count; Count followed by Find on the handle Count returned.
//
// E2E oracle (independent of the model): E = rows of the in-memory table under the chain's reading (WHERE, order, later
// positive Limit/Offset win); every item has a Go evaluator.  Every delivered element must carry, for every selected
// OUTPUT COLUMN the destination can hold, the evaluator's value (NULL = nil pointer / nil map value, map KEY PRESENT).
// LATITUDE: unselected struct fields are not judged; output names are kept unique per list (which of two equally
// named columns a map keeps is unspecified); Pluck is generated only for single-item lists and only by the item's own
// output name (what Pluck("x") means on a chain that selects something else is not stated); Count is judged without
// effective limit/offset, and not for a list that is ONE plain nullable column (COUNT(col) skips NULLs — documented
// SQL behaviour) nor under Distinct unless the list is one NOT NULL plain column; with Distinct rows are compared as
// multisets; FindInBatches only with ascending order and a plain `id` in the list (the cursor needs the key); single
// finders into maps only on Model-bound chains (no schema, no key to order by, otherwise).
// Correspondence (`select.resolve`): the select list of the SQL each path sends vs Gorm.ReadSelect.find/pluck/countQuery
// of the regenerated Facts for the same chain calls.

import (
	"database/sql"
	"encoding/json"
	"errors"
	"fmt"
	"math/rand"
	"os"
	"reflect"
	"sort"
	"strings"

	"gorm.io/gorm"
	"gorm.io/gorm/clause"
)

type C15Sel struct {
	ID    uint `gorm:"primaryKey"`
	Name  string
	Age   *int
	Score int
	Grp   string
}

func (C15Sel) TableName() string { return "c15_sels" }

// custom destination: every model column and every alias, all pointers (NULL / unselected = nil)
type c15SelExt struct {
	ID    *uint
	Name  *string
	Age   *int
	Score *int
	Grp   *string
	Dbl   *int
	Uname *string
	Ln    *int
	Agep  *int
	Agec  *int
	Md    *int
	Nm2   *string
	K7    *int
}

type c15SelSmall struct {
	ID   uint
	Name string
}

type c15QRow struct {
	ID    int    `json:"id"`
	Name  string `json:"name"`
	Age   *int   `json:"age"`
	Score int    `json:"score"`
	Grp   string `json:"grp"`
}

type c15QItem struct {
	Key string `json:"key"`
	Arg bool   `json:"arg,omitempty"` // constants passed as bind arguments
	K   int    `json:"k,omitempty"`
}

type c15QDef struct {
	sql   string
	args  []interface{}
	out   string // output column name ("" for `*`)
	eval  func(r c15QRow) interface{}
	kind  string // col | comp | collide | star
	plain bool
}

var c15QModelCols = []string{"id", "name", "age", "score", "grp"}

func c15QCol(name string, r c15QRow) interface{} {
	switch name {
	case "id":
		return r.ID
	case "name":
		return r.Name
	case "age":
		if r.Age == nil {
			return nil
		}
		return *r.Age
	case "score":
		return r.Score
	case "grp":
		return r.Grp
	}
	panic("col " + name)
}

func (it c15QItem) def() c15QDef {
	k := it.K
	lit := func(text string, args ...interface{}) (string, []interface{}) {
		// text uses `?`; without Arg the constants are spelled into the text
		if it.Arg {
			return text, args
		}
		for _, a := range args {
			s := fmt.Sprint(a)
			if str, ok := a.(string); ok {
				s = "'" + str + "'"
			}
			text = strings.Replace(text, "?", s, 1)
		}
		return text, nil
	}
	d := c15QDef{out: it.Key, kind: "comp"}
	switch it.Key {
	case "id", "name", "age", "score", "grp":
		key := it.Key
		d.sql, d.kind, d.plain = key, "col", true
		d.eval = func(r c15QRow) interface{} { return c15QCol(key, r) }
	case "star":
		d.sql, d.kind, d.out = "*", "star", ""
	case "dbl":
		d.sql, d.args = lit("score * ? AS dbl", k)
		d.eval = func(r c15QRow) interface{} { return r.Score * k }
	case "uname":
		d.sql = "upper(name) AS uname"
		d.eval = func(r c15QRow) interface{} { return strings.ToUpper(r.Name) }
	case "ln":
		d.sql = "length(name) AS ln"
		d.eval = func(r c15QRow) interface{} { return len(r.Name) }
	case "agep":
		d.sql, d.args = lit("age + ? AS agep", k)
		d.eval = func(r c15QRow) interface{} {
			if r.Age == nil {
				return nil
			}
			return *r.Age + k
		}
	case "agec", "c.age":
		alias := "agec"
		if it.Key == "c.age" {
			alias, d.kind, d.out = "age", "collide", "age"
		}
		d.sql, d.args = lit("COALESCE(age, ?) + ? AS "+alias, k, 1)
		d.eval = func(r c15QRow) interface{} {
			if r.Age == nil {
				return k + 1
			}
			return *r.Age + 1
		}
	case "md":
		d.sql = "id % 3 AS md"
		d.eval = func(r c15QRow) interface{} { return r.ID % 3 }
	case "nm2":
		d.sql, d.args = lit("name || ? AS nm2", "-x")
		d.eval = func(r c15QRow) interface{} { return r.Name + "-x" }
	case "k7":
		d.sql, d.args = lit("? AS k7", k)
		d.eval = func(r c15QRow) interface{} { return k }
	case "c.score":
		d.kind, d.out = "collide", "score"
		d.sql, d.args = lit("score + ? AS score", k)
		d.eval = func(r c15QRow) interface{} { return r.Score + k }
	case "c.name":
		d.kind, d.out = "collide", "name"
		d.sql = "lower(name) AS name"
		d.eval = func(r c15QRow) interface{} { return strings.ToLower(r.Name) }
	default:
		panic("item " + it.Key)
	}
	return d
}

type c15QPath struct {
	Path  string `json:"path"`
	Batch int    `json:"batch,omitempty"`
	Col   string `json:"col,omitempty"` // pluck.col: Pluck of a model column on a chain without Select
}

type c15QPrior struct {
	Form  string     `json:"form"`
	Items []c15QItem `json:"items"`
}

type c15QSpec struct {
	Rows     []c15QRow  `json:"rows"`
	Bind     string     `json:"bind"` // model | table
	Form     string     `json:"form"` // none str1 strs slice args named namedmap clause ccols
	Items    []c15QItem `json:"items,omitempty"`
	Prior    *c15QPrior `json:"prior,omitempty"`
	Distinct bool       `json:"distinct,omitempty"`
	DArgs    bool       `json:"dargs,omitempty"` // the list is given as Distinct("a", "b") instead of Distinct().Select("a", "b")
	Where    string     `json:"where,omitempty"` // "" | score | grp | agenn
	WV       int        `json:"wv,omitempty"`
	WS       string     `json:"ws,omitempty"`
	Desc     bool       `json:"desc,omitempty"`
	Lims     []limCall  `json:"lims,omitempty"`
	Handle   string     `json:"handle"` // fresh | session | tx | txsession
	Prep     bool       `json:"prep,omitempty"`
	Paths    []c15QPath `json:"paths"`
}

// ---- the chain -------------------------------------------------------------------------------------------------

func c15QJoin(items []c15QItem, named bool) (string, []interface{}, []string) {
	var parts []string
	var args []interface{}
	var names []string
	for _, it := range items {
		d := it.def()
		s := d.sql
		if named {
			for range d.args {
				n := fmt.Sprintf("p%d", len(names))
				s = strings.Replace(s, "?", "@"+n, 1)
				names = append(names, n)
			}
		}
		parts = append(parts, s)
		args = append(args, d.args...)
	}
	return strings.Join(parts, ", "), args, names
}

func c15QApplySelect(h *gorm.DB, form string, items []c15QItem) *gorm.DB {
	switch form {
	case "none":
		return h
	case "str1":
		s, _, _ := c15QJoin(items, false)
		return h.Select(s)
	case "strs":
		rest := []interface{}{}
		for _, it := range items[1:] {
			rest = append(rest, it.def().sql)
		}
		return h.Select(items[0].def().sql, rest...)
	case "slice":
		var ss []string
		for _, it := range items {
			ss = append(ss, it.def().sql)
		}
		return h.Select(ss)
	case "args":
		s, args, _ := c15QJoin(items, false)
		return h.Select(s, args...)
	case "named":
		s, args, names := c15QJoin(items, true)
		var na []interface{}
		for i, n := range names {
			na = append(na, sql.Named(n, args[i]))
		}
		return h.Select(s, na...)
	case "namedmap":
		s, args, names := c15QJoin(items, true)
		m := map[string]interface{}{}
		for i, n := range names {
			m[n] = args[i]
		}
		return h.Select(s, m)
	case "clause":
		s, args, _ := c15QJoin(items, false)
		return h.Clauses(clause.Select{Expression: clause.Expr{SQL: s, Vars: args}})
	case "ccols":
		var cols []clause.Column
		for _, it := range items {
			d := it.def()
			cols = append(cols, clause.Column{Name: d.sql, Raw: !d.plain})
		}
		return h.Clauses(clause.Select{Columns: cols})
	}
	panic("form " + form)
}

func (s *c15QSpec) chain(db *gorm.DB) *gorm.DB {
	var h *gorm.DB
	if s.Bind == "model" {
		h = db.Model(&C15Sel{})
	} else {
		h = db.Table("c15_sels")
	}
	if s.Distinct && s.DArgs && s.Form == "strs" {
		var as []interface{}
		for _, it := range s.Items {
			as = append(as, it.def().sql)
		}
		h = h.Distinct(as...)
	} else {
		if s.Distinct {
			h = h.Distinct()
		}
		if s.Prior != nil {
			h = c15QApplySelect(h, s.Prior.Form, s.Prior.Items)
		}
		h = c15QApplySelect(h, s.Form, s.Items)
	}
	switch s.Where {
	case "score":
		h = h.Where("score >= ?", s.WV)
	case "grp":
		h = h.Where("grp = ?", s.WS)
	case "agenn":
		h = h.Where("age IS NOT NULL")
	}
	if !s.Distinct {
		if s.Desc {
			h = h.Order("id desc")
		} else {
			h = h.Order("id")
		}
	}
	return applyLimCalls(h, s.Lims)
}

// outputs of the list: names in order (`*` expands), evaluator per name
func (s *c15QSpec) outs() (names []string, eval map[string]func(c15QRow) interface{}) {
	eval = map[string]func(c15QRow) interface{}{}
	add := func(n string, f func(c15QRow) interface{}) {
		names = append(names, n)
		eval[n] = f
	}
	items := s.Items
	if s.Form == "none" {
		items = []c15QItem{{Key: "star"}}
	}
	for _, it := range items {
		d := it.def()
		if d.kind == "star" {
			for _, c := range c15QModelCols {
				c := c
				add(c, func(r c15QRow) interface{} { return c15QCol(c, r) })
			}
			continue
		}
		add(d.out, d.eval)
	}
	return
}

func (s *c15QSpec) expected() (match, e []c15QRow) {
	for _, r := range s.Rows {
		ok := true
		switch s.Where {
		case "score":
			ok = r.Score >= s.WV
		case "grp":
			ok = r.Grp == s.WS
		case "agenn":
			ok = r.Age != nil
		}
		if ok {
			match = append(match, r)
		}
	}
	sort.Slice(match, func(i, j int) bool { return (match[i].ID < match[j].ID) != s.Desc })
	return match, c15QWindow(match, s.Lims)
}

func c15QWindow(rows []c15QRow, lims []limCall) []c15QRow {
	lim, off := c15Eff(lims)
	if off > len(rows) {
		off = len(rows)
	}
	rows = rows[off:]
	if lim >= 0 && lim < len(rows) {
		rows = rows[:lim]
	}
	return rows
}

// ---- canonical values ------------------------------------------------------------------------------------------

func c15QCanon(v interface{}) string {
	for {
		if v == nil {
			return "NULL"
		}
		rv := reflect.ValueOf(v)
		if rv.Kind() == reflect.Ptr || rv.Kind() == reflect.Interface {
			if rv.IsNil() {
				return "NULL"
			}
			v = rv.Elem().Interface()
			continue
		}
		break
	}
	switch t := v.(type) {
	case []byte:
		return "s:" + string(t)
	case string:
		return "s:" + t
	case sql.NullInt64:
		if !t.Valid {
			return "NULL"
		}
		return fmt.Sprintf("i:%d", t.Int64)
	case sql.NullString:
		if !t.Valid {
			return "NULL"
		}
		return "s:" + t.String
	case float64:
		if t == float64(int64(t)) {
			return fmt.Sprintf("i:%d", int64(t))
		}
	}
	rv := reflect.ValueOf(v)
	switch rv.Kind() {
	case reflect.Int, reflect.Int8, reflect.Int16, reflect.Int32, reflect.Int64:
		return fmt.Sprintf("i:%d", rv.Int())
	case reflect.Uint, reflect.Uint8, reflect.Uint16, reflect.Uint32, reflect.Uint64:
		return fmt.Sprintf("i:%d", rv.Uint())
	}
	return fmt.Sprintf("%T:%v", v, v)
}

// one delivered element: output name → canonical value; `has` = names the destination kind can hold
type c15QElem map[string]string

func c15QOfModel(x C15Sel) c15QElem {
	return c15QElem{"id": c15QCanon(x.ID), "name": c15QCanon(x.Name), "age": c15QCanon(x.Age), "score": c15QCanon(x.Score), "grp": c15QCanon(x.Grp)}
}

func c15QOfExt(x c15SelExt) c15QElem {
	return c15QElem{"id": c15QCanon(x.ID), "name": c15QCanon(x.Name), "age": c15QCanon(x.Age), "score": c15QCanon(x.Score), "grp": c15QCanon(x.Grp),
		"dbl": c15QCanon(x.Dbl), "uname": c15QCanon(x.Uname), "ln": c15QCanon(x.Ln), "agep": c15QCanon(x.Agep), "agec": c15QCanon(x.Agec),
		"md": c15QCanon(x.Md), "nm2": c15QCanon(x.Nm2), "k7": c15QCanon(x.K7)}
}

func c15QOfMap(m map[string]interface{}) c15QElem {
	e := c15QElem{}
	for k, v := range m {
		e[k] = c15QCanon(v)
	}
	return e
}

type c15QOut struct {
	Elems  []c15QElem `json:"elems"`
	Kind   string     `json:"kind"` // model | ext | small | map | pluck | count
	RA     int64      `json:"ra"`
	Err    string     `json:"err,omitempty"`
	Count  int64      `json:"count,omitempty"`
	Batches []int     `json:"batches,omitempty"`
	SQL    string     `json:"sql,omitempty"` // the judged query as the driver received it
	Single bool       `json:"single,omitempty"`
	NoRA   bool       `json:"-"`
}

// ---- running one path ------------------------------------------------------------------------------------------

func c15QRun(db *gorm.DB, rec *Recorder, h *gorm.DB, s *c15QSpec, p c15QPath) (out *c15QOut) {
	out = &c15QOut{Elems: []c15QElem{}}
	defer func() {
		if x := recover(); x != nil {
			out.Err = fmt.Sprintf("error:panic: %v", x)
		}
	}()
	start := len(rec.Snapshot())
	nth := 0 // which query of the path is the judged one
	var tx *gorm.DB
	models := func(xs []C15Sel) {
		out.Kind = "model"
		for _, x := range xs {
			out.Elems = append(out.Elems, c15QOfModel(x))
		}
	}
	exts := func(xs []c15SelExt) {
		out.Kind = "ext"
		for _, x := range xs {
			out.Elems = append(out.Elems, c15QOfExt(x))
		}
	}
	maps := func(ms []map[string]interface{}) {
		out.Kind = "map"
		for _, m := range ms {
			out.Elems = append(out.Elems, c15QOfMap(m))
		}
	}
	switch p.Path {
	case "find.model":
		var xs []C15Sel
		tx = h.Find(&xs)
		models(xs)
	case "find.ext":
		var xs []c15SelExt
		tx = h.Find(&xs)
		exts(xs)
	case "find.small":
		var xs []c15SelSmall
		tx = h.Find(&xs)
		out.Kind = "small"
		for _, x := range xs {
			out.Elems = append(out.Elems, c15QElem{"id": c15QCanon(x.ID), "name": c15QCanon(x.Name)})
		}
	case "find.model1":
		var x C15Sel
		tx = h.Find(&x)
		out.Single = true
		if tx.RowsAffected > 0 {
			models([]C15Sel{x})
		}
		out.Kind = "model"
	case "scan.model":
		var xs []C15Sel
		tx = h.Scan(&xs)
		models(xs)
	case "scan.ext":
		var xs []c15SelExt
		tx = h.Scan(&xs)
		exts(xs)
	case "scan1.ext":
		var x c15SelExt
		tx = h.Scan(&x)
		out.Single = true
		if tx.RowsAffected > 0 {
			exts([]c15SelExt{x})
		}
		out.Kind = "ext"
	case "find.maps":
		var ms []map[string]interface{}
		tx = h.Find(&ms)
		maps(ms)
	case "scan.maps":
		var ms []map[string]interface{}
		tx = h.Scan(&ms)
		maps(ms)
	case "take.map", "first.map":
		m := map[string]interface{}{}
		if p.Path == "take.map" {
			tx = h.Take(&m)
		} else {
			tx = h.First(&m)
		}
		out.Single = true
		if tx.Error == nil {
			maps([]map[string]interface{}{m})
		}
		out.Kind = "map"
	case "rows.model", "rows.ext", "rows.map":
		out.NoRA = true
		out.Kind = strings.TrimPrefix(p.Path, "rows.")
		rows, err := h.Rows()
		if err != nil {
			out.Err = c15ErrName(err)
			break
		}
		for rows.Next() {
			var err error
			switch p.Path {
			case "rows.model":
				var x C15Sel
				if err = db.ScanRows(rows, &x); err == nil {
					models([]C15Sel{x})
				}
			case "rows.ext":
				var x c15SelExt
				if err = db.ScanRows(rows, &x); err == nil {
					exts([]c15SelExt{x})
				}
			default:
				m := map[string]interface{}{}
				if err = db.ScanRows(rows, &m); err == nil {
					maps([]map[string]interface{}{m})
				}
			}
			if err != nil {
				out.Err = c15ErrName(err)
				break
			}
		}
		if err := rows.Err(); err != nil && out.Err == "" {
			out.Err = c15ErrName(err)
		}
		rows.Close()
	case "first.model", "last.model", "take.model":
		var x C15Sel
		switch p.Path {
		case "first.model":
			tx = h.First(&x)
		case "last.model":
			tx = h.Last(&x)
		default:
			tx = h.Take(&x)
		}
		out.Single = true
		if tx.Error == nil {
			models([]C15Sel{x})
		}
		out.Kind = "model"
	case "first.ext":
		var x c15SelExt
		tx = h.First(&x)
		out.Single = true
		if tx.Error == nil {
			exts([]c15SelExt{x})
		}
		out.Kind = "ext"
	case "batches.model":
		var xs []C15Sel
		nb := 0
		out.Kind = "model"
		tx = h.FindInBatches(&xs, p.Batch, func(_ *gorm.DB, _ int) error {
			out.Batches = append(out.Batches, len(xs))
			models(xs)
			nb++
			if nb > len(s.Rows)+3 {
				return errC15Abort
			}
			return nil
		})
	case "pluck":
		out.Kind = "pluck"
		d := s.Items[0].def()
		var vs []interface{}
		tx = h.Pluck(d.out, &vs)
		for _, v := range vs {
			out.Elems = append(out.Elems, c15QElem{d.out: c15QCanon(v)})
		}
	case "pluck.col":
		out.Kind = "pluck"
		var vs []interface{}
		tx = h.Pluck(p.Col, &vs)
		for _, v := range vs {
			out.Elems = append(out.Elems, c15QElem{p.Col: c15QCanon(v)})
		}
	case "pluck.typed":
		out.Kind = "pluck"
		d := s.Items[0].def()
		var vs []sql.NullString
		tx = h.Pluck(d.out, &vs)
		for _, v := range vs {
			c := "NULL"
			if v.Valid {
				c = v.String
			}
			out.Elems = append(out.Elems, c15QElem{d.out: c})
		}
	case "count":
		out.Kind = "count"
		tx = h.Count(&out.Count)
	case "count+find.maps":
		var n int64
		t1 := h.Count(&n)
		if t1.Error != nil {
			tx = t1
			break
		}
		nth = 1
		var ms []map[string]interface{}
		tx = t1.Find(&ms)
		maps(ms)
	default:
		panic("path " + p.Path)
	}
	if tx != nil {
		out.RA = tx.RowsAffected
		out.Err = c15ErrName(tx.Error)
	}
	k := 0
	for _, ev := range rec.Snapshot()[start:] {
		if ev.Kind == "query" || ev.Kind == "stmt_query" {
			if k == nth {
				out.SQL = ev.SQL
			}
			k++
		}
	}
	return out
}

// ---- the judge -------------------------------------------------------------------------------------------------

func c15QCanonWant(v interface{}) string {
	switch t := v.(type) {
	case nil:
		return "NULL"
	case int:
		return fmt.Sprintf("i:%d", t)
	case string:
		return "s:" + t
	}
	panic(fmt.Sprintf("want %T", v))
}

// holds: can a destination of this kind hold output column n?
func c15QHolds(kind, n string) bool {
	switch kind {
	case "model":
		return n == "id" || n == "name" || n == "age" || n == "score" || n == "grp"
	case "small":
		return n == "id" || n == "name"
	}
	return true
}

func c15QJudge(s *c15QSpec, p c15QPath, out *c15QOut) string {
	match, e := s.expected()
	names, eval := s.outs()
	if p.Path == "pluck.col" {
		col := p.Col
		names, eval = []string{col}, map[string]func(c15QRow) interface{}{col: func(r c15QRow) interface{} { return c15QCol(col, r) }}
	}
	lim, off := c15Eff(s.Lims)
	if strings.HasPrefix(out.Err, "error:") || out.Err == "abort" {
		if (p.Path == "count" || p.Path == "count+find.maps") && c15QCountAliasPattern(s) && strings.Contains(out.Err, "no such column") {
			return "F7g:" + fmt.Sprintf("Count on Select(%q): %s, Find returns %d rows (query %q)", c15QEffSelects(s)[0].def().sql, out.Err, len(match), out.SQL)
		}
		return "unexpected error " + out.Err
	}
	switch p.Path {
	case "count":
		if out.Err != "" {
			return "unexpected " + out.Err
		}
		if lim >= 0 || off > 0 {
			return ""
		}
		want := len(match)
		if s.Distinct {
			if len(s.Items) != 1 || !(s.Items[0].Key == "grp" || s.Items[0].Key == "score" || s.Items[0].Key == "name") {
				return ""
			}
			set := map[string]bool{}
			for _, r := range match {
				set[c15QCanonWant(eval[names[0]](r))] = true
			}
			want = len(set)
		} else if eff := c15QEffSelects(s); len(eff) == 1 && eff[0].Key == "age" {
			// Statement.Selects holds exactly the nullable column `age` (from this Select call, or from an earlier string
			// Select that a later clause-form Select does not clear): Count sends COUNT(`age`), which skips NULLs
			return ""
		}
		if int(out.Count) != want {
			return fmt.Sprintf("Count = %d, Find returns %d rows", out.Count, want)
		}
		return ""
	}
	single := false
	switch p.Path {
	case "first.model", "last.model", "take.model", "first.ext", "take.map", "first.map":
		single = true
		e = c15QWindow(match, append(append([]limCall{}, s.Lims...), limCall{"limit", 1}))
		if (out.Err == "notfound") != (len(e) == 0) {
			return fmt.Sprintf("ErrRecordNotFound=%v but %d matching row(s)", out.Err == "notfound", len(e))
		}
	default:
		if out.Err != "" {
			return "unexpected " + out.Err
		}
	}
	if out.Single && !single && len(e) > 1 {
		e = e[:1]
	}
	// expected elements
	want := make([]c15QElem, len(e))
	for i, r := range e {
		w := c15QElem{}
		for _, n := range names {
			if c15QHolds(out.Kind, n) {
				w[n] = c15QCanonWant(eval[n](r))
				if p.Path == "pluck.typed" && w[n] != "NULL" {
					w[n] = w[n][2:] // read through sql.NullString: the text of the value
				}
			}
		}
		want[i] = w
	}
	render := func(el c15QElem, w c15QElem) string {
		var ks []string
		for k := range w {
			ks = append(ks, k)
		}
		sort.Strings(ks)
		var b strings.Builder
		for _, k := range ks {
			v, ok := el[k]
			if !ok {
				v = "<no key>"
			}
			fmt.Fprintf(&b, "%s=%s;", k, v)
		}
		return b.String()
	}
	if s.Distinct {
		// DISTINCT is over the FULL select list; the destination may hold a projection of it: expected = the distinct
		// full rows, each projected to what the destination holds, as a multiset
		full := map[string]string{}
		for _, r := range e {
			fw, pw := c15QElem{}, c15QElem{}
			for _, n := range names {
				fw[n] = c15QCanonWant(eval[n](r))
				if p.Path == "pluck.typed" && fw[n] != "NULL" {
					fw[n] = fw[n][2:]
				}
				if c15QHolds(out.Kind, n) {
					pw[n] = fw[n]
				}
			}
			full[render(fw, fw)] = render(pw, pw)
		}
		ws, gs := map[string]int{}, map[string]int{}
		for _, proj := range full {
			ws[proj]++
		}
		for i, g := range out.Elems {
			gs[render(g, want0(want, i))]++
		}
		if !reflect.DeepEqual(ws, gs) && !(len(ws) == 0 && len(gs) == 0) {
			return fmt.Sprintf("DISTINCT rows returned %v, the chain's select list gives %v", gs, ws)
		}
	} else {
		if len(out.Elems) != len(want) {
			return fmt.Sprintf("%d rows returned, want %d", len(out.Elems), len(want))
		}
		for i := range want {
			if g, w := render(out.Elems[i], want[i]), render(want[i], want[i]); g != w {
				return fmt.Sprintf("row %d (id %d): delivered {%s}, the chain's select list gives {%s}", i, e[i].ID, g, w)
			}
		}
	}
	if !out.NoRA && int(out.RA) != len(out.Elems) {
		return fmt.Sprintf("RowsAffected %d, rows returned %d", out.RA, len(out.Elems))
	}
	if p.Path == "batches.model" {
		for _, b := range out.Batches {
			if b == 0 || b > p.Batch {
				return fmt.Sprintf("batch of size %d (requested %d)", b, p.Batch)
			}
		}
	}
	return ""
}

// c15QCountAliasPattern: the pattern of F7g-C15-count-alias — the chain's Select is ONE string of the shape
// `<token> AS <alias>` (three runs of name characters, the middle one AS)
// c15QEffSelects: the call that filled Statement.Selects last — this Select if it was given as strings, otherwise an
// earlier string Select (a clause-form Select does not clear Selects)
func c15QEffSelects(s *c15QSpec) []c15QItem {
	strs := func(f string) bool { return f == "str1" || f == "strs" || f == "slice" }
	if strs(s.Form) {
		return s.Items
	}
	if s.Prior != nil && s.Form != "none" && strs(s.Prior.Form) {
		return s.Prior.Items
	}
	return nil
}

// c15QCountAliasPattern: the pattern of F7g-C15-count-alias — Statement.Selects is ONE string of the shape
// `<token> AS <alias>` (three runs of name characters, the middle one AS)
func c15QCountAliasPattern(s *c15QSpec) bool {
	items := c15QEffSelects(s)
	if len(items) != 1 {
		return false
	}
	f := strings.Fields(items[0].def().sql)
	return items[0].Key == "k7" && len(f) == 3 && strings.ToUpper(f[1]) == "AS"
}

func want0(want []c15QElem, i int) c15QElem {
	if len(want) == 0 {
		return c15QElem{}
	}
	if i >= len(want) {
		i = 0
	}
	return want[i]
}

// ---- generator -------------------------------------------------------------------------------------------------

var c15QNames = []string{"Ann", "bob", "Cy", "dEE", "", "bob", "ZZ top"}
var c15QGrps = []string{"x", "y", "z"}
var c15QComp = []string{"dbl", "uname", "ln", "agep", "agec", "md", "nm2", "k7"}
var c15QCollide = []string{"c.score", "c.age", "c.name"}

func c15QGenRows(rng *rand.Rand, n int) []c15QRow {
	rows := make([]c15QRow, 0, n)
	id := 0
	for i := 0; i < n; i++ {
		id += 1 + rng.Intn(3)
		r := c15QRow{ID: id, Name: c15QNames[rng.Intn(len(c15QNames))], Score: rng.Intn(7) - 2, Grp: c15QGrps[rng.Intn(len(c15QGrps))]}
		if rng.Intn(4) != 0 {
			v := rng.Intn(40)
			r.Age = &v
		}
		rows = append(rows, r)
	}
	return rows
}

func (it c15QItem) hasArgs() bool { return len(it.def().args) > 0 }

func c15QGenItems(rng *rand.Rand, single bool) []c15QItem {
	used := map[string]bool{}
	var items []c15QItem
	add := func(key string) {
		it := c15QItem{Key: key, K: 2 + rng.Intn(3), Arg: rng.Intn(2) == 0}
		out := it.def().out
		if key == "star" {
			for _, c := range c15QModelCols {
				if used[c] {
					return
				}
			}
			for _, c := range c15QModelCols {
				used[c] = true
			}
		} else {
			if used[out] {
				return
			}
			used[out] = true
		}
		items = append(items, it)
	}
	if single {
		switch rng.Intn(4) {
		case 0:
			add(c15QModelCols[rng.Intn(len(c15QModelCols))])
		case 1, 2:
			add(c15QComp[rng.Intn(len(c15QComp))])
		default:
			add(c15QCollide[rng.Intn(len(c15QCollide))])
		}
		return items
	}
	// model columns (or `*`), then 0..3 computed columns, sometimes a colliding alias, in a shuffled order
	if rng.Intn(5) == 0 {
		add("star")
	} else {
		if rng.Intn(6) != 0 {
			add("id")
		}
		for _, c := range c15QModelCols[1:] {
			if rng.Intn(3) == 0 {
				add(c)
			}
		}
	}
	nc := []int{0, 1, 2, 2, 3, 3}[rng.Intn(6)]
	for _, i := range rng.Perm(len(c15QComp))[:nc] {
		add(c15QComp[i])
	}
	if rng.Intn(3) == 0 {
		add(c15QCollide[rng.Intn(len(c15QCollide))])
	}
	if len(items) == 0 {
		add("id")
	}
	if items[0].Key != "star" || rng.Intn(2) == 0 {
		rng.Shuffle(len(items), func(i, j int) { items[i], items[j] = items[j], items[i] })
	}
	return items
}

// fix the Arg flags so that the form can spell the list; returns false if impossible
func c15QFit(form string, items []c15QItem) bool {
	switch form {
	case "str1", "strs", "slice", "ccols":
		for i := range items {
			items[i].Arg = false
		}
		return len(items) > 0
	case "args", "named", "namedmap":
		any := false
		for i := range items {
			if items[i].hasArgs() {
				any = true
			}
		}
		if !any {
			// make one item carry arguments
			for i := range items {
				items[i].Arg = true
				if items[i].hasArgs() {
					any = true
					break
				}
			}
		}
		return any
	case "clause":
		return len(items) > 0
	}
	return true
}

var c15QForms = []string{"none", "str1", "str1", "strs", "slice", "args", "args", "named", "namedmap", "clause", "clause", "ccols"}

func c15QGenSpec(rng *rand.Rand, maxN int) *c15QSpec {
	s := &c15QSpec{Rows: c15QGenRows(rng, rng.Intn(maxN+1))}
	s.Bind = []string{"model", "model", "table"}[rng.Intn(3)]
	s.Handle = []string{"fresh", "session", "fresh", "session", "tx", "txsession"}[rng.Intn(6)]
	s.Prep = rng.Intn(4) == 0
	single := rng.Intn(4) == 0
	for try := 0; ; try++ {
		s.Form = c15QForms[rng.Intn(len(c15QForms))]
		if s.Form == "none" {
			s.Items = nil
			break
		}
		s.Items = c15QGenItems(rng, single)
		if c15QFit(s.Form, s.Items) {
			break
		}
	}
	if s.Form != "none" && rng.Intn(6) == 0 {
		// an earlier Select on the same chain, in another spelling: the later call replaces it
		pf := []string{"str1", "slice", "args", "clause"}[rng.Intn(4)]
		pi := c15QGenItems(rng, rng.Intn(2) == 0)
		if c15QFit(pf, pi) {
			s.Prior = &c15QPrior{Form: pf, Items: pi}
		}
	}
	switch rng.Intn(5) {
	case 0:
		s.Where, s.WV = "score", rng.Intn(5)-1
	case 1:
		s.Where, s.WS = "grp", c15QGrps[rng.Intn(3)]
	case 2:
		s.Where = "agenn"
	}
	s.Desc = rng.Intn(3) == 0
	if rng.Intn(4) == 0 {
		s.Lims = c15GenLims(rng, 2, len(s.Rows)/2+2)
	}
	// DISTINCT: lists without the key, spelled as strings or with `?` arguments (clause.NamedExpr / user clauses do
	// not carry the chain's Distinct flag — not a read-path disagreement, every path drops it alike)
	if s.Form == "none" && rng.Intn(5) == 0 {
		s.Distinct, s.Lims = true, nil // SELECT DISTINCT * (all rows differ in id); Pluck then selects DISTINCT <column>
	}
	if rng.Intn(7) == 0 && (s.Form == "str1" || s.Form == "strs" || s.Form == "slice" || s.Form == "args") && s.Prior == nil {
		ok := true
		for _, it := range s.Items {
			if it.Key == "id" || it.Key == "star" || it.Key == "md" {
				ok = false
			}
		}
		if ok {
			s.Distinct, s.Lims = true, nil
		}
	}
	// DISTINCT over ONE plain NOT NULL column: Count must send COUNT(DISTINCT col) = the number of rows Find returns
	if !s.Distinct && rng.Intn(12) == 0 && s.Prior == nil {
		s.Form = []string{"str1", "strs", "slice"}[rng.Intn(3)]
		s.Items = []c15QItem{{Key: []string{"grp", "score", "name"}[rng.Intn(3)]}}
		s.Distinct, s.Lims = true, nil
	}
	if s.Distinct && s.Form == "strs" {
		s.DArgs = rng.Intn(2) == 0
	}
	s.Paths = c15QGenPaths(rng, s)
	if s.Distinct && len(s.Items) == 1 {
		s.Paths = append(s.Paths, c15QPath{Path: "count"})
	}
	return s
}

func c15QGenPaths(rng *rand.Rand, s *c15QSpec) []c15QPath {
	names, _ := s.outs()
	has := map[string]bool{}
	for _, n := range names {
		has[n] = true
	}
	plainID := false
	for _, it := range s.Items {
		if it.Key == "id" || it.Key == "star" {
			plainID = true
		}
	}
	if s.Form == "none" {
		plainID = true
	}
	cands := []string{"find.model", "scan.model", "find.maps", "find.maps", "scan.maps", "rows.model", "rows.map", "rows.map", "count", "take.model", "find.model1"}
	if s.Form != "none" {
		cands = append(cands, "find.ext", "scan.ext", "scan1.ext", "rows.ext", "count+find.maps")
	} else if s.Bind == "model" {
		cands = append(cands, "find.small", "count+find.maps")
	}
	if !s.Distinct {
		cands = append(cands, "first.model", "last.model")
		if s.Form != "none" {
			cands = append(cands, "first.ext")
		}
		if s.Bind == "model" {
			cands = append(cands, "take.map", "first.map", "take.map")
		}
		if plainID && !s.Desc {
			cands = append(cands, "batches.model")
		}
	}
	if len(s.Items) == 1 && s.Items[0].Key != "star" {
		cands = append(cands, "pluck", "pluck", "pluck.typed", "pluck")
	}
	if s.Form == "none" {
		cands = append(cands, "pluck.col", "pluck.col")
	}
	if len(names) == 1 && !c15QHolds("model", names[0]) {
		// scan.go reads a result set of ONE column that is no field of the destination struct into the struct itself
		// (the Scanner / time.Time case): a model struct cannot hold that list
		keep := cands[:0]
		for _, c := range cands {
			if !strings.HasSuffix(c, ".model") && c != "find.model1" {
				keep = append(keep, c)
			}
		}
		cands = keep
	}
	if s.Distinct {
		// single finders / first-row paths have no defined row under DISTINCT without an order
		keep := cands[:0]
		for _, c := range cands {
			if c != "take.model" && c != "find.model1" && c != "scan1.ext" {
				keep = append(keep, c)
			}
		}
		cands = keep
	}
	n := 3 + rng.Intn(5)
	var out []c15QPath
	for i := 0; i < n; i++ {
		p := c15QPath{Path: cands[rng.Intn(len(cands))]}
		if p.Path == "batches.model" {
			p.Batch = 1 + rng.Intn(len(s.Rows)/2+2)
		}
		if p.Path == "pluck.col" {
			p.Col = c15QModelCols[rng.Intn(len(c15QModelCols))]
		}
		out = append(out, p)
	}
	return out
}

// ---- Lean side: which select list the query carries --------------------------------------------------------------

func c15QNorm(s string) string {
	s = strings.ReplaceAll(s, "`", "")
	s = strings.ReplaceAll(s, "c15_sels.", "")
	s = strings.Join(strings.Fields(s), "")
	for i := 9; i >= 0; i-- {
		s = strings.ReplaceAll(s, fmt.Sprintf("@p%d", i), "?")
	}
	return s
}

// the select list of a recorded query: text between SELECT and FROM, DISTINCT stripped
func c15QSelectList(sqlText string) string {
	i := strings.Index(sqlText, "SELECT ")
	j := strings.Index(sqlText, " FROM ")
	if i < 0 || j < i {
		return "?" + sqlText
	}
	l := c15QNorm(sqlText[i+7 : j])
	return strings.TrimPrefix(l, "DISTINCT")
}

type c15QPend struct {
	spec *c15QSpec
	path c15QPath
	real string
	txt  []string // item id → normalised text
	op   []interface{}
}

func c15QLeanOp(s *c15QSpec, p c15QPath) ([]interface{}, []string) {
	var txt []string
	id := func(t string) int {
		txt = append(txt, c15QNorm(t))
		return len(txt) - 1
	}
	call := func(form string, items []c15QItem) []interface{} {
		ids := func(named bool) []int {
			out := []int{}
			for _, it := range items {
				out = append(out, id(it.def().sql))
			}
			return out
		}
		switch form {
		case "str1":
			return []interface{}{"strings", [][]int{ids(false)}}
		case "strs", "slice":
			es := [][]int{}
			for _, i := range ids(false) {
				es = append(es, []int{i})
			}
			return []interface{}{"strings", es}
		case "args", "named", "namedmap":
			return []interface{}{"expr", ids(false)}
		case "clause", "ccols":
			return []interface{}{"clause", []interface{}{"list", ids(false)}}
		}
		panic(form)
	}
	calls := []interface{}{}
	if s.Prior != nil {
		calls = append(calls, call(s.Prior.Form, s.Prior.Items))
	}
	if s.Form != "none" {
		calls = append(calls, call(s.Form, s.Items))
	}
	var fin interface{} = []interface{}{"find"}
	var dest interface{}
	switch p.Path {
	case "pluck", "pluck.typed":
		fin = []interface{}{"pluck", id(s.Items[0].def().out)}
	case "pluck.col":
		fin = []interface{}{"pluck", id(p.Col)}
	case "count":
		fin = []interface{}{"count"}
	case "count+find.maps":
		fin = []interface{}{"count+find"}
	case "find.small":
		if s.Bind == "model" {
			dest = []int{id("id"), id("name")}
		}
	}
	return []interface{}{"sel.resolve", calls, fin, dest}, txt
}

func c15QCompare(p *c15QPend, ans json.RawMessage) string {
	var a []interface{}
	if err := json.Unmarshal(ans, &a); err != nil || len(a) == 0 {
		return "bad model answer " + string(ans)
	}
	want := ""
	switch a[0] {
	case "star":
		want = "*"
	case "count":
		if !strings.HasPrefix(strings.ToLower(p.real), "count(") {
			return fmt.Sprintf("select list real %q, model: Count's own expression", p.real)
		}
		return ""
	case "list":
		var parts []string
		for _, x := range a[1].([]interface{}) {
			parts = append(parts, p.txt[int(x.(float64))])
		}
		want = strings.Join(parts, ",")
	default:
		return "bad model answer " + string(ans)
	}
	if p.real != want {
		return fmt.Sprintf("select list real %q model %q", p.real, want)
	}
	return ""
}

// ---- suite -----------------------------------------------------------------------------------------------------

func c15QOpen(s *c15QSpec) (*gorm.DB, *Recorder) {
	db, rec, _ := OpenRec(&gorm.Config{PrepareStmt: s.Prep})
	if err := db.AutoMigrate(&C15Sel{}); err != nil {
		panic(err)
	}
	if len(s.Rows) > 0 {
		recs := make([]C15Sel, len(s.Rows))
		// non-key insertion order
		perm := rand.New(rand.NewSource(int64(len(s.Rows))*31 + int64(s.Rows[0].ID))).Perm(len(s.Rows))
		for i, pi := range perm {
			r := s.Rows[pi]
			recs[i] = C15Sel{ID: uint(r.ID), Name: r.Name, Age: r.Age, Score: r.Score, Grp: r.Grp}
		}
		if err := db.Create(&recs).Error; err != nil {
			panic(err)
		}
	}
	rec.Reset()
	return db, rec
}

func c15QRunSpec(r *Result, s *c15QSpec, pend *[]*c15QPend) {
	db, rec := c15QOpen(s)
	var base *gorm.DB
	switch s.Handle {
	case "session":
		base = s.chain(db).Session(&gorm.Session{})
	case "tx", "txsession":
		// every path runs inside ONE user transaction (pinned connection; with PrepareStmt the tx-bound statements)
		db = db.Begin()
		defer db.Rollback()
		if s.Handle == "txsession" {
			base = s.chain(db).Session(&gorm.Session{})
		}
	}
	ncomp := 0
	for _, it := range s.Items {
		if k := it.def().kind; k == "comp" || k == "collide" {
			ncomp++
		}
	}
	for _, p := range s.Paths {
		h := base
		if h == nil {
			h = s.chain(db)
		}
		out := c15QRun(db, rec, h, s, p)
		r.Case("select", canon([]interface{}{s.Bind, s.Form, s.Items, s.Prior, s.Distinct, s.DArgs, s.Where, s.Desc, s.Lims, p, len(s.Rows)}), len(s.Rows) > 1 && ncomp > 0)
		r.H("select.path", p.Path)
		r.H("select.form", s.Form)
		r.H("select.computed", fmt.Sprint(ncomp))
		r.H("select.bind", s.Bind)
		r.H("select.handle", s.Handle)
		r.H("select.err", out.Err)
		if msg := c15QJudge(s, p, out); strings.HasPrefix(msg, "F7g:") && listed("F7g-C15-count-alias") {
			r.KnownFinding("F7g-C15-count-alias", msg[4:])
		} else if msg != "" {
			one := *s
			one.Paths = []c15QPath{p}
			r.Violate(Violation{Kind: "e2e", Suite: "select", Input: &one, Observed: map[string]interface{}{"path": p, "out": out}, Expected: msg,
				Note: "read path disagrees with the in-memory table under the chain's select list"})
		} else if pend != nil && out.SQL != "" && !strings.HasPrefix(out.Err, "error:") {
			op, txt := c15QLeanOp(s, p)
			*pend = append(*pend, &c15QPend{spec: s, path: p, real: c15QSelectList(out.SQL), txt: txt, op: op})
		}
	}
}

func c15QFlush(r *Result, pend *[]*c15QPend) {
	if len(*pend) == 0 {
		return
	}
	ops := make([][]interface{}, len(*pend))
	for i, p := range *pend {
		ops[i] = p.op
	}
	outs, err := AskLean(ops)
	if err != nil {
		r.Violate(Violation{Kind: "correspondence", Suite: "select.resolve", Note: err.Error()})
		*pend = nil
		return
	}
	nv := 0
	for i, p := range *pend {
		r.CorrCompared++
		if d := c15QCompare(p, outs[i]); d != "" && nv < 3 {
			nv++
			one := *p.spec
			one.Paths = []c15QPath{p.path}
			r.Violate(Violation{Kind: "correspondence", Suite: "select.resolve", Input: &one, Observed: map[string]interface{}{"path": p.path, "select": p.real}, Expected: d,
				Note: "select list of the SQL the finisher sent vs Gorm.ReadSelect.find / pluck / countQuery under the regenerated Facts"})
		}
	}
	*pend = nil
}

func init() {
	register("C15", func(r *Result, _ *rand.Rand, tier string) {
		if only := os.Getenv("C15_ONLY"); only != "" && !strings.Contains(only, "select") {
			return
		}
		rng := rand.New(rand.NewSource(r.Seed*104729 + 77))
		rounds, maxN := 700, 8
		if tier == "thorough" {
			rounds, maxN = 20000, 14
		} else if tier == "search" {
			rounds, maxN = 6000, 10
		}
		var pend []*c15QPend
		for i := 0; i < rounds && !expired(); i++ {
			s := c15QGenSpec(rng, maxN)
			if i%120 == 0 {
				r.Sample(map[string]interface{}{"suite": "select", "input": s})
			}
			c15QRunSpec(r, s, &pend)
			if len(pend) > 5000 {
				c15QFlush(r, &pend)
			}
		}
		// dedicated probe of the listed finding F7g: Count on a one-entry `K AS k7` string Select
		if listed("F7g-C15-count-alias") {
			three := 3
			probe := &c15QSpec{Rows: []c15QRow{{ID: 1, Name: "Ann", Age: &three, Score: 1, Grp: "x"}, {ID: 2, Name: "bob", Score: 2, Grp: "y"}},
				Bind: "model", Form: "str1", Items: []c15QItem{{Key: "k7", K: 3}}, Handle: "fresh", Paths: []c15QPath{{Path: "count"}, {Path: "find.maps"}}}
			c15QRunSpec(r, probe, &pend)
		}
		c15QFlush(r, &pend)
	})
	replayers["C15/select"] = func(r *Result, input json.RawMessage) {
		var s c15QSpec
		if err := json.Unmarshal(input, &s); err != nil {
			r.Note("bad replay input: %v", err)
			return
		}
		c15QRunSpec(r, &s, nil)
	}
	replayers["C15/select.resolve"] = replayers["C15/select"]
}

var _ = errors.Is
