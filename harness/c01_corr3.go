package main

// C01 correspondence, round 3: the dispatch of (*DB).Table(name, args...) — Lean `Gorm.Bind.tableForm` /
// `tableDispatch` / `tableBinds` (lean/GormModel/Model/BindApi.lean) against the real chainable_api.go.
//
// Input: a table text in many SPELLINGS (plain name, qualified name, alias forms with blank / AS / backticks,
// table-valued function calls `fn(?,?)`, bare parenthesised sub-query `(?)`, `(?) AS u`, several `?`, blank-free
// and blank-containing variants of the same template, empty text) x 0..3 arguments from the value grammar of the
// C01 generator (scalars, lists, gorm.Expr with own arguments, chain sub-query handles, rendered Raw handles,
// nullable wrappers).  Real side: `db.Table(name, args...)` on a DryRun handle; observed are Statement.TableExpr
// (nil / SQL / number of Vars) and the statement a `Find` builds from it (text after `SELECT * FROM `, Vars).
// Compared with the model: the branch taken, the rendered text (for the identifier branches only when the name
// has no dot: how the dialector quotes a qualified name is opaque, Seg.quoted) and the bound values.

import (
	"encoding/json"
	"fmt"
	"math/rand"
	"os"
	"strings"

	"gorm.io/gorm"
	"gorm.io/gorm/clause"
)

type c01TableIn struct {
	Name string        `json:"name"`
	Args []interface{} `json:"args"`
}

var c01TableFns = []string{"json_each", "generate_series", "unnest", "jsonb_array_elements", "f", "pragma_table_info", "x.y"}
var c01TableNames = []string{"tt", "uu", "main.tt", "a.b.c", "", "tt AS t1", "tt t1", "`tt`", "`tt` AS `t1`", "tt  t1", "Tt", "tt,uu", "tt, uu", "é", " tt", "tt ",
	"tt as T1", "tt aS t_1 ", "(SELECT 1) AS u, tt", "tt AS t1 , uu AS u2", "tt AS", "a AS b AS c", "tt\tt1", "tt AS t1 JOIN x", "x AS é", "tt AS t1,", " AS x", "tt  AS  t1", "tt AS t-1", "main.tt t9", "tt t1 t2", "tt\nAS t1", "a.b AS c"}

// tableInput: spelling x arguments.  The template always has as many `?` as arguments (well-formed call), except
// for the "surplus"/"missing" spellings (caller errors: the model must still agree with the real code).
func (g *c01Gen) tableInput() c01TableIn {
	arg := func() interface{} {
		switch g.rng.Intn(6) {
		case 0:
			return g.subq(1)
		case 1:
			return g.rsub(1)
		case 2:
			return g.expr(1)
		default:
			return g.val(1)
		}
	}
	k := g.rng.Intn(4)
	args := make([]interface{}, k)
	for i := range args {
		args[i] = arg()
	}
	qs := func(n int, sep string) string {
		s := make([]string, n)
		for i := range s {
			s[i] = "?"
		}
		return strings.Join(s, sep)
	}
	in := c01TableIn{Args: args}
	spelling := ""
	switch r := g.rng.Intn(12); {
	case r == 0 || k == 0 && r < 6:
		spelling = "name"
		in.Name = c01TableNames[g.rng.Intn(len(c01TableNames))]
		if k > 0 && g.rng.Intn(3) > 0 {
			in.Args = []interface{}{}
		}
	case r < 3:
		spelling = "fn(?,..) no blank"
		in.Name = c01TableFns[g.rng.Intn(len(c01TableFns))] + "(" + qs(k, ",") + ")"
	case r == 3:
		spelling = "fn(?, ..) blanks"
		in.Name = c01TableFns[g.rng.Intn(len(c01TableFns))] + "(" + qs(k, ", ") + ")" + []string{"", " AS je", " je", " AS `je`", " as je, tt", " AS je ,tt AS t2"}[g.rng.Intn(6)]
	case r == 4:
		spelling = "(?) bare"
		in.Name = "(" + qs(k, ",") + ")"
	case r == 5:
		spelling = "(?) AS u"
		s := make([]string, 0, k)
		for i := 0; i < k; i++ {
			s = append(s, fmt.Sprintf("(?) AS u%d", i))
		}
		in.Name = strings.Join(s, ", ")
		if k == 0 {
			in.Name = "(SELECT 1) AS u"
		}
	case r == 6:
		spelling = "name,fn(?) no blank"
		in.Name = "tt,json_each(" + qs(k, ",") + ")"
	case r == 7:
		spelling = "backtick"
		in.Name = "`tt`" + strings.Repeat(",f(?)", k)
	case r == 8:
		spelling = "surplus/missing"
		in.Name = []string{"f(?)", "tt", "(?)", "f(?,?) x", "a.b"}[g.rng.Intn(5)]
	case r == 9:
		spelling = "tab/newline instead of blank"
		in.Name = "f(" + qs(k, ",") + ")" + []string{"\tu", "\nu", "\tAS\tu"}[g.rng.Intn(3)]
	default:
		spelling = "generated template"
		e := g.expr(1).([]interface{})
		in.Name, in.Args = e[1].(string), jl(e[2])
		if g.rng.Intn(2) == 0 {
			in.Name = strings.ReplaceAll(in.Name, " ", "")
			spelling += ", blanks removed"
		}
	}
	if in.Args == nil {
		in.Args = []interface{}{}
	}
	g.hist("table-spelling:" + spelling)
	return in
}

func c01CompareTable(r *Result, dialect string, inputs []c01TableIn) {
	const suite = "api-table"
	ctx := &c01Ctx{db: c01OpenDummy(dialect)}
	c01SubJSON = map[*gorm.DB]interface{}{}
	dry := ctx.db.Session(&gorm.Session{DryRun: true})
	type realOut struct {
		form, sql, pan, exprSQL string
		table                   string
		nvars                   int
		vars                    []interface{}
	}
	reals := make([]realOut, len(inputs))
	ops := make([][]interface{}, 0, len(inputs))
	for i, in := range inputs {
		func() {
			defer func() {
				if e := recover(); e != nil {
					reals[i].pan = fmt.Sprint(e)
				}
			}()
			for _, x := range in.Args {
				ctx.resolve(x)
			}
			args := ctx.list(in.Args)
			tx := dry.Table(in.Name, args...)
			if i%3 == 1 {
				// the handle is kept and re-used: Session() marks it for cloning, the next chain call clones the Statement
				tx = tx.Session(&gorm.Session{}).Where("1 = 1")
			} else if i%3 == 2 {
				tx = tx.Where("1 = 1").Session(&gorm.Session{NewDB: false}).Order("1")
			}
			te := tx.Statement.TableExpr
			reals[i].table = tx.Statement.Table
			switch {
			case te == nil:
				reals[i].form = "empty"
			case te.SQL == in.Name:
				reals[i].form = "expr" // verbatim text (a quoted name has additional characters)
			case tx.Statement.Table == in.Name:
				reals[i].form = "plain"
			default:
				reals[i].form = "qualified"
			}
			if te != nil {
				reals[i].exprSQL, reals[i].nvars = te.SQL, len(te.Vars)
				stmt := &gorm.Statement{DB: ctx.db.Session(&gorm.Session{NewDB: true}), Table: tx.Statement.Table, TableExpr: te,
					Clauses: map[string]clause.Clause{}, Context: tx.Statement.Context}
				// what FROM / UPDATE / DELETE FROM / INSERT INTO write for the current table
				stmt.QuoteTo(stmt, clause.Table{Name: clause.CurrentTable})
				reals[i].sql = stmt.SQL.String()
				reals[i].vars = c01Strip(c01EncList(len(stmt.Vars), func(k int) interface{} { return stmt.Vars[k] })).([]interface{})
			}
		}()
		ops = append(ops, []interface{}{"bind.table", dialect, in.Name, in.Args})
	}
	outs, err := AskLean(ops)
	if err != nil {
		r.Violate(Violation{Kind: "correspondence", Suite: suite, Note: err.Error()})
		return
	}
	for i, in := range inputs {
		input := map[string]interface{}{"dialect": dialect, "table": in}
		var m struct {
			Form   string        `json:"form"`
			Render *c01Out       `json:"render"`
			Binds  []interface{} `json:"binds"`
			Table  *string       `json:"table"`
		}
		if e := json.Unmarshal(outs[i], &m); e != nil {
			r.Violate(Violation{Kind: "correspondence", Suite: suite, Input: input, Observed: string(outs[i]), Note: "model rejected the input (" + e.Error() + ")"})
			continue
		}
		r.CorrCompared++
		r.Case(suite, dialect+canon(in), len(in.Args) >= 1)
		blank := map[bool]string{true: "blank/backtick", false: "no blank/backtick"}[strings.ContainsAny(in.Name, " `")]
		r.H(suite+".model-branch", fmt.Sprintf("%s (%s, %d args)", m.Form, blank, len(in.Args)))
		if reals[i].pan != "" {
			r.H(suite+".real-panic", c01Trunc(reals[i].pan, 40))
			continue
		}
		bad := ""
		if m.Table == nil {
			r.H(suite+".alias", "outside the model")
		} else if m.Form == "expr" {
			r.H(suite+".alias", map[bool]string{true: "alias extracted", false: "no alias"}[*m.Table != ""])
		}
		switch {
		case m.Form != reals[i].form:
			bad = "branch"
		case m.Table != nil && *m.Table != reals[i].table:
			bad = "Statement.Table (alias form)"
		case m.Form == "expr" && reals[i].nvars != len(in.Args):
			bad = "TableExpr.Vars does not hold all arguments"
		case m.Form == "empty":
		case m.Render == nil:
			bad = "model has no table expression"
		case m.Render.Unsupported:
			r.H(suite+".unsupported", m.Form)
		case m.Render.Oof:
			bad = "model out of fuel"
		case canon(m.Render.Vars) != canon(reals[i].vars):
			bad = "bound values"
		case (m.Form == "expr" || !strings.Contains(in.Name, ".")) && m.Render.SQL != reals[i].sql:
			bad = "text"
		case m.Render.Wf && canon(m.Binds) != canon(reals[i].vars):
			bad = "tableBinds (specification) differs from the real Vars of a well-formed call"
		}
		if bad != "" {
			var ms, mv interface{}
			if m.Render != nil {
				ms, mv = m.Render.SQL, m.Render.Vars
			}
			r.Violate(Violation{Kind: "correspondence", Suite: suite, Input: input,
				Observed: map[string]interface{}{"branch": reals[i].form, "Statement.Table": reals[i].table, "TableExpr.SQL": reals[i].exprSQL, "len(TableExpr.Vars)": reals[i].nvars, "sql": reals[i].sql, "vars": reals[i].vars},
				Expected: map[string]interface{}{"branch": m.Form, "Statement.Table": m.Table, "sql": ms, "vars": mv, "binds": m.Binds},
				Note:     "(*DB).Table(name, args...) vs Lean Gorm.Bind.tableForm/tableDispatch/tableBinds: " + bad})
		}
	}
}

func init() {
	register("C01", func(r *Result, rng *rand.Rand, tier string) {
		n := 1500
		if tier == "thorough" {
			n = 40000
		} else if tier == "search" {
			n = 8000
		}
		for _, dialect := range []string{"qmark", "dollar"} {
			g := &c01Gen{rng: rng, hist: func(b string) { r.H("corr3.shape", b) }}
			ins := make([]c01TableIn, n)
			for i := range ins {
				ins[i] = g.tableInput()
			}
			for lo := 0; lo < n && !expired(); lo += 10000 {
				hi := lo + 10000
				if hi > n {
					hi = n
				}
				c01CompareTable(r, dialect, ins[lo:hi])
			}
		}
	})
	replayers["C01/api-table"] = func(r *Result, input json.RawMessage) {
		var in struct {
			Dialect string     `json:"dialect"`
			Table   c01TableIn `json:"table"`
		}
		if err := json.Unmarshal(input, &in); err != nil {
			r.Note("bad replay input: %v", err)
			return
		}
		for i, a := range os.Args {
			if (a == "-driver" || a == "--driver") && i+1 < len(os.Args) {
				driverPath = os.Args[i+1]
			}
		}
		c01CompareTable(r, in.Dialect, []c01TableIn{in.Table})
	}
}
