package main

import (
	"encoding/json"
	"fmt"
	"math/rand"
	"reflect"
	"sort"
	"strings"

	"gorm.io/gorm"
	"gorm.io/gorm/schema"
)

// C11 correspondence suite "join-scan": scan.go scanIntoStruct (the distribution of the columns `Rel__Sub__col` of an
// association join over nested relation structs, and the decision which relation pointers are allocated for a row) vs the
// Lean model Gorm.scanRow (Model/JoinScan.lean), whose theorems say: a relation is attached iff ANY selected column in or
// below it is non-NULL, independent of the column order.
//
// The rows are produced by SQLite from `SELECT ? AS "P__R__u", …` (NULL / value parameters) and read through the real
// Raw(...).Scan(&dest) path, so the column list, its ORDER and the NULL pattern are fully under the generator's control:
// nullable columns first, key last, key missing, all-NULL relations, only the deepest relation non-NULL, pointer and
// non-pointer relation fields, up to three hops, slice / slice-of-pointers / single destination, several rows.

type C11Z3 struct {
	K    *string
	L    *int64
	N    int
	ID   uint `gorm:"primaryKey"`
	Z2ID *uint
}

type C11Z2 struct {
	U        *string
	V        *int64
	N        int
	ID       uint `gorm:"primaryKey"`
	OwnerRef *uint
	W        *C11Z3 `gorm:"foreignKey:Z2ID"`
}

type C11Z1 struct {
	X    *string
	Y    *int64
	N    int
	ID   uint `gorm:"primaryKey"`
	RKey *uint
	R    *C11Z2 `gorm:"foreignKey:RKey"`
	T    C11Z2  `gorm:"foreignKey:OwnerRef"` // non-pointer has-one
}

type C11Z0 struct {
	A    *string
	B    *int64
	N    int
	ID   uint `gorm:"primaryKey"`
	PKey *uint
	P    *C11Z1 `gorm:"foreignKey:PKey"`
	QKey *uint
	Q    *C11Z1 `gorm:"foreignKey:QKey"`
	SKey *uint
	S    C11Z2 `gorm:"foreignKey:SKey"` // non-pointer belongs-to
}

type c11ZRel struct {
	Name string
	Ptr  bool
	Node *c11ZNode
}

type c11ZNode struct {
	Typ  reflect.Type
	Cols []string // Go names of the scalar fields
	Rels []c11ZRel
	db   map[string]string // Go name -> db name
}

var c11ZRoot *c11ZNode

func c11ZInit() *c11ZNode {
	if c11ZRoot != nil {
		return c11ZRoot
	}
	mk := func(m interface{}, cols []string, rels ...c11ZRel) *c11ZNode {
		s, err := schema.Parse(m, &c11SchemaCache, schema.NamingStrategy{})
		if err != nil {
			panic(err)
		}
		n := &c11ZNode{Typ: reflect.TypeOf(m).Elem(), Cols: cols, Rels: rels, db: map[string]string{}}
		for _, c := range cols {
			n.db[c] = s.LookUpField(c).DBName
		}
		for _, r := range rels {
			if s.Relationships.Relations[r.Name] == nil {
				panic("c11 scan model: relation " + r.Name + " not parsed")
			}
		}
		return n
	}
	z3 := mk(&C11Z3{}, []string{"K", "L", "N", "ID", "Z2ID"})
	z2 := mk(&C11Z2{}, []string{"U", "V", "N", "ID", "OwnerRef"}, c11ZRel{"W", true, z3})
	z1 := mk(&C11Z1{}, []string{"X", "Y", "N", "ID", "RKey"}, c11ZRel{"R", true, z2}, c11ZRel{"T", false, z2})
	c11ZRoot = mk(&C11Z0{}, []string{"A", "B", "N", "ID", "PKey", "QKey", "SKey"}, c11ZRel{"P", true, z1}, c11ZRel{"Q", true, z1}, c11ZRel{"S", false, z2})
	return c11ZRoot
}

type c11ZPath struct {
	Levels []c11ZRel
	Node   *c11ZNode
}

func (p c11ZPath) names() []string {
	var out []string
	for _, l := range p.Levels {
		out = append(out, l.Name)
	}
	return out
}

func c11ZPaths(n *c11ZNode, pre []c11ZRel, out *[]c11ZPath) {
	*out = append(*out, c11ZPath{Levels: append([]c11ZRel{}, pre...), Node: n})
	for _, r := range n.Rels {
		c11ZPaths(r.Node, append(append([]c11ZRel{}, pre...), r), out)
	}
}

type c11ZCell struct {
	Path  []string    `json:"path"`
	Ptrs  []bool      `json:"ptrs"`
	Col   string      `json:"col"` // db name
	Field string      `json:"field"`
	Val   interface{} `json:"val"` // nil = NULL
}

type c11ZCase struct {
	Rows  [][]c11ZCell `json:"rows"` // same columns in every row
	Shape string       `json:"shape"`
}

func (c c11ZCell) alias() string { return strings.Join(append(append([]string{}, c.Path...), c.Col), "__") }

func genC11ZCase(rng *rand.Rand) c11ZCase {
	root := c11ZInit()
	var paths []c11ZPath
	c11ZPaths(root, nil, &paths)
	// the destination's own columns + 1..4 relation paths
	chosen := []c11ZPath{paths[0]}
	for _, i := range rng.Perm(len(paths) - 1)[:1+rng.Intn(4)] {
		chosen = append(chosen, paths[1+i])
	}
	var cols []c11ZCell
	for _, p := range chosen {
		perm := rng.Perm(len(p.Node.Cols))
		k := 1 + rng.Intn(len(perm))
		for _, i := range perm[:k] {
			f := p.Node.Cols[i]
			c := c11ZCell{Path: p.names(), Col: p.Node.db[f], Field: f}
			for _, l := range p.Levels {
				c.Ptrs = append(c.Ptrs, l.Ptr)
			}
			cols = append(cols, c)
		}
	}
	// column ORDER: shuffled | grouped by relation (as gorm's own join select does) | grouped, deepest first
	switch rng.Intn(3) {
	case 0:
		rng.Shuffle(len(cols), func(i, j int) { cols[i], cols[j] = cols[j], cols[i] })
	case 1:
		sort.SliceStable(cols, func(i, j int) bool { return len(cols[i].Path) > len(cols[j].Path) })
	}
	cs := c11ZCase{Shape: []string{"slice", "ptrs", "single"}[rng.Intn(3)]}
	nrows := 1 + rng.Intn(3)
	seq := 0
	for r := 0; r < nrows; r++ {
		// NULL pattern per relation path of this row
		pat := map[string]int{}
		row := make([]c11ZCell, len(cols))
		seen := map[string]int{}
		for i, c := range cols {
			key := strings.Join(c.Path, ".")
			if _, ok := pat[key]; !ok {
				pat[key] = rng.Intn(6)
			}
			idx := seen[key]
			seen[key]++
			null := false
			switch pat[key] {
			case 0: // every column NULL: the LEFT JOIN found no row
				null = true
			case 1: // the first selected column NULL, the others not
				null = idx == 0
			case 2: // only the last one carries a value
				null = true // fixed up below
			case 3:
				null = rng.Intn(2) == 0
			case 4: // first carries a value, the rest NULL
				null = idx > 0
			}
			c.Val = nil
			if !null {
				seq++
				c.Val = c11ZVal(c.Field, seq)
			}
			row[i] = c
		}
		for key, p := range pat {
			if p != 2 {
				continue
			}
			for i := len(row) - 1; i >= 0; i-- {
				if strings.Join(row[i].Path, ".") == key {
					seq++
					row[i].Val = c11ZVal(row[i].Field, seq)
					break
				}
			}
		}
		cs.Rows = append(cs.Rows, row)
	}
	return cs
}

func c11ZVal(field string, seq int) interface{} {
	switch field {
	case "A", "X", "U", "K":
		return fmt.Sprintf("v%d", seq)
	}
	return 100 + seq
}

// real side: allocated pointer paths and non-zero scalar fields per loaded element
func c11ZDump(v reflect.Value, n *c11ZNode, pre []string, alloc, sets *[]string) {
	v = reflect.Indirect(v)
	for _, f := range n.Cols {
		fv := v.FieldByName(f)
		if fv.Kind() == reflect.Ptr {
			if fv.IsNil() {
				continue
			}
			fv = fv.Elem()
		}
		if fv.IsZero() {
			continue
		}
		*sets = append(*sets, fmt.Sprintf("%s.%s=%v", strings.Join(pre, "__"), n.db[f], fv.Interface()))
	}
	for _, r := range n.Rels {
		fv := v.FieldByName(r.Name)
		path := append(append([]string{}, pre...), r.Name)
		if r.Ptr {
			if fv.IsNil() {
				continue
			}
			*alloc = append(*alloc, strings.Join(path, "__"))
		}
		c11ZDump(fv, r.Node, path, alloc, sets)
	}
}

func c11ZRun(db *gorm.DB, cs c11ZCase) (rows []map[string][]string, err error) {
	defer func() {
		if p := recover(); p != nil {
			err = fmt.Errorf("panic: %v", p)
		}
	}()
	var sels []string
	var args []interface{}
	for _, row := range cs.Rows {
		var parts []string
		for _, c := range row {
			parts = append(parts, "? AS `"+c.alias()+"`")
			args = append(args, c.Val)
		}
		sels = append(sels, "SELECT "+strings.Join(parts, ", "))
	}
	q := db.Raw(strings.Join(sels, " UNION ALL "), args...)
	var elems []reflect.Value
	switch cs.Shape {
	case "single":
		var one C11Z0
		if e := q.Scan(&one).Error; e != nil {
			return nil, e
		}
		elems = append(elems, reflect.ValueOf(&one))
	case "ptrs":
		var sl []*C11Z0
		if e := q.Scan(&sl).Error; e != nil {
			return nil, e
		}
		for _, p := range sl {
			elems = append(elems, reflect.ValueOf(p))
		}
	default:
		var sl []C11Z0
		if e := q.Scan(&sl).Error; e != nil {
			return nil, e
		}
		for i := range sl {
			elems = append(elems, reflect.ValueOf(&sl[i]))
		}
	}
	for _, e := range elems {
		var alloc, sets []string
		c11ZDump(e, c11ZInit(), nil, &alloc, &sets)
		sort.Strings(alloc)
		sort.Strings(sets)
		rows = append(rows, map[string][]string{"alloc": alloc, "sets": sets})
	}
	return rows, nil
}

func (cs c11ZCase) leanOps() [][]interface{} {
	var ops [][]interface{}
	for _, row := range cs.Rows {
		var cells []interface{}
		for _, c := range row {
			var chain []interface{}
			for i, n := range c.Path {
				chain = append(chain, []interface{}{n, c.Ptrs[i]})
			}
			if chain == nil {
				chain = []interface{}{}
			}
			cells = append(cells, []interface{}{chain, c.Col, c.Val == nil})
		}
		ops = append(ops, []interface{}{"scan.row", cells})
	}
	return ops
}

func c11JoinScanSuite(r *Result, rng *rand.Rand, tier string) {
	n := 1500
	if tier == "thorough" {
		n = 60000
	} else if tier == "search" {
		n = 4000
	}
	db, _, sqlDB := OpenRec(&gorm.Config{})
	defer sqlDB.Close()
	var cases []c11ZCase
	var reals [][]map[string][]string
	var ops [][]interface{}
	var at []int
	for i := 0; i < n && !expired(); i++ {
		cs := genC11ZCase(rng)
		rows, err := c11ZRun(db, cs)
		if err != nil {
			r.Violate(Violation{Kind: "correspondence", Suite: "join-scan", Input: cs, Observed: err.Error(), Expected: "no error",
				Note: "Raw(SELECT … AS `Rel__col`).Scan(&dest) failed"})
			continue
		}
		cases = append(cases, cs)
		reals = append(reals, rows)
		at = append(at, len(ops))
		ops = append(ops, cs.leanOps()...)
	}
	outs, err := AskLean(ops)
	if err != nil {
		r.Violate(Violation{Kind: "correspondence", Suite: "join-scan", Note: err.Error()})
		return
	}
	for ci, cs := range cases {
		nrows := len(cs.Rows)
		if cs.Shape == "single" {
			nrows = 1
		}
		var want []map[string][]string
		mixed := false
		for ri := 0; ri < nrows; ri++ {
			var m struct {
				Alloc []string `json:"alloc"`
				Sets  []string `json:"sets"`
			}
			_ = json.Unmarshal(outs[at[ci]+ri], &m)
			vals := map[string]interface{}{}
			nulls, vals2 := map[string]bool{}, map[string]bool{}
			for _, c := range cs.Rows[ri] {
				vals[strings.Join(c.Path, "__")+"."+c.Col] = c.Val
				for k := range c.Path {
					if c.Ptrs[k] {
						key := strings.Join(c.Path[:k+1], "__")
						if c.Val == nil {
							nulls[key] = true
						} else {
							vals2[key] = true
						}
					}
				}
			}
			for k := range nulls {
				if vals2[k] {
					mixed = true
				}
			}
			sets := []string{}
			for _, s := range m.Sets {
				sets = append(sets, fmt.Sprintf("%s=%v", s, vals[s]))
			}
			alloc := append([]string{}, m.Alloc...)
			sort.Strings(alloc)
			sort.Strings(sets)
			want = append(want, map[string][]string{"alloc": alloc, "sets": sets})
			r.H("joinscan.allocated", c11Bucket(len(alloc)))
		}
		r.CorrCompared++
		r.Case("join-scan", canon(cs), mixed)
		r.H("joinscan.shape", fmt.Sprintf("%s rows=%d", cs.Shape, len(cs.Rows)))
		r.H("joinscan.mixed-null-relation", fmt.Sprint(mixed))
		got := reals[ci]
		for i := range got {
			if got[i]["alloc"] == nil {
				got[i]["alloc"] = []string{}
			}
			if got[i]["sets"] == nil {
				got[i]["sets"] = []string{}
			}
		}
		if canon(got) != canon(want) {
			r.Violate(Violation{Kind: "correspondence", Suite: "join-scan", Input: cs, Observed: got, Expected: want,
				Note: "real scan of joined columns (scan.go scanIntoStruct: allocated relation pointers, values written) vs Lean Gorm.scanRow"})
		}
		if ci%301 == 0 {
			r.Sample(map[string]interface{}{"suite": "join-scan", "input": cs, "observed": got})
		}
	}
}

func init() {
	register("C11", c11JoinScanSuite)
	replayers["C11/join-scan"] = func(r *Result, input json.RawMessage) { r.Note("join-scan replays are correspondence-only: rerun the suite") }
}
