package main

// C03, round 5: Create FROM MAPS over the declaration zoo of the "decl" suite (c03GGenRun: key conventions, permissions,
// literal / expression / NULL defaults, renamed columns, embedded / prefixed / twice-embedded structs, `-:migration`), plus
// NOT NULL columns with a literal default.
//
//  * suite "mapdecl" (e2e): AutoMigrate → Create(map) / Create(&map) / Create([]map) / Create(&[]map) / CreateInBatches([]map),
//    through Model(&T{}) (keys are column names OR Go field names) or through Table("t") alone (no schema); plain, in a
//    transaction, PrepareStmt, SkipDefaultTransaction; with and without RETURNING.  Every entry of a map is one of: MISSING,
//    an untyped nil, a typed nil pointer, the zero value, a value, a pointer to a value, an invalid sql.Null*.
//    Oracle (model-less read of the rows with Table("t").Find(&[]map), and First into a fresh struct):
//      - a GIVEN key is WRITTEN AS GIVEN: nil / typed nil → NULL (whatever DEFAULT the column has), zero → zero, value → value;
//      - a MISSING key takes the column's DEFAULT (literal or expression), NULL when there is none;
//      - a given nil on a NOT NULL column: Create must FAIL (or store nothing); it must not store the default;
//      - the struct view (First) agrees with the map view for plainly stored kinds;
//      - a single map created through a model carries the generated primary key of its row afterwards.
//    LATITUDES: in a slice of maps a key that only SOME elements hold is bound as NULL for the others (helper.go builds one
//    column list per INSERT) — NULL and the DEFAULT are both accepted there; a key that names a field without create
//    permission may be written or not (the second copy of a twice-embedded struct is, see "decl"); auto-time columns of a
//    map are not judged; slices of maps run without RETURNING when a model is given (finding F18).
//  * suite "mapcols" (correspondence): the INSERT column list and the bound values of the statement Create builds (DryRun)
//    from one map / a slice of maps, with and without model, with Select / Omit — against Lean
//    Model.SchemaAttrs.mapCreateOne / mapCreateMany (theorems C03_map_create_writes_given, C03_map_create_only_given,
//    C03_map_create_nil_written, C03_maps_create_writes_given).

import (
	"database/sql"
	"encoding/json"
	"fmt"
	"math/rand"
	"reflect"
	"strings"
	"sync"
	"time"

	"gorm.io/gorm"
	"gorm.io/gorm/schema"
)

type c03MInput struct {
	Seed      int64  `json:"seed"`
	Key       string `json:"key"`
	Shape     string `json:"shape"` // map | pmap | maps | pmaps | batches
	N         int    `json:"n"`
	Batch     int    `json:"batch,omitempty"`
	Returning bool   `json:"returning"`
	Where     string `json:"where"`
	Schema    bool   `json:"model"` // Model(&T{}) given (else Table only)
	Desc      string `json:"desc,omitempty"`
}

var c03MCustom = map[string]bool{"CUpper": true, "CShift": true, "CVPair": true, "json:struct": true, "json:[]string": true, "self:doc": true}

// one map entry for leaf l: how = missing | nil | tnil | zero | value | ptr | nullv
func c03MEntry(rng *rand.Rand, l c03GLeaf, i int) (how string, v interface{}) {
	class := c03GClass[l.N.T]
	if c03MCustom[l.N.T] || class == "other" {
		return []string{"missing", "missing", "nil"}[rng.Intn(3)], nil
	}
	how = []string{"missing", "missing", "nil", "nil", "tnil", "zero", "value", "value", "ptr", "nullv"}[rng.Intn(10)]
	small := l.N.T == "int32" || l.N.T == "MyI32"
	switch class {
	case "int", "uint":
		x := []int64{1, 5, 77, 2147483647, 1 << 40, -3, -2147483648}[rng.Intn(7)]
		if class == "uint" && x < 0 {
			x = -x
		}
		if small && (x > 2147483647 || x < -2147483648) {
			x = 2147483647
		}
		switch how {
		case "tnil":
			return how, (*int64)(nil)
		case "zero":
			return how, []interface{}{int64(0), int(0), int32(0)}[rng.Intn(3)]
		case "value":
			if x == int64(int32(x)) && rng.Intn(2) == 0 {
				return how, []interface{}{int(x), int32(x)}[rng.Intn(2)]
			}
			return how, x
		case "ptr":
			return how, &x
		case "nullv":
			return how, sql.NullInt64{}
		}
	case "string":
		s := []string{"a", "it's", "NULL", "héllo 🙂", "q w", "0", "  "}[rng.Intn(7)]
		switch how {
		case "tnil":
			return how, (*string)(nil)
		case "zero":
			return how, ""
		case "value":
			return how, s
		case "ptr":
			return how, &s
		case "nullv":
			return how, sql.NullString{}
		}
	case "bool":
		b := true
		switch how {
		case "tnil":
			return how, (*bool)(nil)
		case "zero":
			return how, false
		case "value":
			return how, b
		case "ptr":
			return how, &b
		case "nullv":
			return how, sql.NullBool{}
		}
	case "float":
		f := []float64{2.25, -0.5, 1e10}[rng.Intn(3)]
		switch how {
		case "tnil":
			return how, (*float64)(nil)
		case "zero":
			return how, float64(0)
		case "value":
			return how, f
		case "ptr":
			return how, &f
		case "nullv":
			return how, sql.NullFloat64{}
		}
	case "time":
		t := time.Date(2001+i, 2, 3, 4, 5, 6, 0, time.UTC)
		switch how {
		case "tnil":
			return how, (*time.Time)(nil)
		case "value", "zero":
			return "value", t
		case "ptr":
			return how, &t
		case "nullv":
			return how, sql.NullTime{}
		}
	case "bytes":
		switch how {
		case "tnil":
			return how, []byte(nil)
		case "zero":
			return how, []byte{}
		case "value", "ptr":
			return "value", []byte{1, 0, byte(i)}
		case "nullv":
			return "nil", nil
		}
	}
	if how == "missing" {
		return how, nil
	}
	return "nil", nil
}

// the stored canonical value of a column DEFAULT the declaration grammar hands out ("" = some non-NULL value)
func c03MDefault(n *c03GNode) (canon string, has bool) {
	class := c03GClass[n.T]
	switch n.Def {
	case "lit":
		switch class {
		case "int", "uint":
			return c03StoredCanon(int64(42)), true
		case "string":
			return c03StoredCanon("q w"), true
		case "bool":
			return c03StoredCanon(true), true
		case "float":
			return c03StoredCanon(1.5), true
		}
	case "db":
		switch class {
		case "int", "uint":
			return c03StoredCanon(int64(7)), true
		case "string":
			return c03StoredCanon("qw"), true
		}
	case "dbrand":
		return "", true
	}
	return "null", false
}

type c03MExpect struct {
	Accept []string // accepted canonical stored values; "!null" = any non-NULL value; empty = not judged
	How    string
}

func c03MRun(r *Result, in c03MInput) (bads []string, nodes []c03GNode) {
	bad := func(f string, a ...interface{}) { bads = append(bads, fmt.Sprintf(f, a...)) }
	defer func() {
		if p := recover(); p != nil {
			bad("panic: %v", p)
		}
	}()
	rng := rand.New(rand.NewSource(in.Seed))
	nodes, noLower := c03GGenRun(rng, in.Key, false)
	ns := schema.NamingStrategy{NoLowerCase: noLower}
	leaves := c03GFlatten(nodes, ns, nil, nil, "", "")
	notNull := map[*c03GNode]bool{}
	for _, l := range leaves {
		if l.N.Def == "lit" && !l.N.NoMig && !l.N.NoC && !l.N.GenKey && !l.N.AppKey && !notNull[l.N] && rng.Intn(3) == 0 {
			l.N.Tag = strings.TrimSuffix(l.N.Tag+";"+[]string{"not null", "NOT NULL"}[rng.Intn(2)], ";")
			l.N.Tag = strings.TrimPrefix(l.N.Tag, ";")
			notNull[l.N] = true
		}
	}
	typ := c03GType(nodes)
	cfg := &gorm.Config{NowFunc: fixedNowFunc, NamingStrategy: ns}
	switch in.Where {
	case "prepare":
		cfg.PrepareStmt = true
	case "skiptx":
		cfg.SkipDefaultTransaction = true
	}
	db, sqlDB := c03Open(in.Returning, cfg)
	defer sqlDB.Close()
	const tbl = "decl_models"
	if err := db.Table(tbl).AutoMigrate(reflect.New(typ).Interface()); err != nil {
		bad("AutoMigrate: %v", err)
		return
	}
	for _, l := range leaves {
		if l.N.NoMig && !l.N.NoCol {
			if err := db.Exec("ALTER TABLE `" + tbl + "` ADD COLUMN `" + l.Column + "` " + l.N.DDLDef).Error; err != nil {
				bad("ADD COLUMN %s: %v", l.Column, err)
				return
			}
		}
	}
	// which Go names may stand for their column: unique among the leaves and not some leaf's column
	nameCount, isCol := map[string]int{}, map[string]bool{}
	for _, l := range leaves {
		nameCount[l.N.Name]++
		isCol[l.Column] = true
	}
	single := in.Shape == "map" || in.Shape == "pmap"
	presetKeys := rng.Intn(6) == 0
	maps := make([]map[string]interface{}, in.N)
	hows := make([]map[int]string, in.N)
	keyOf := make([]map[int]string, in.N)
	for i := 0; i < in.N; i++ {
		m, hw, ko := map[string]interface{}{}, map[int]string{}, map[int]string{}
		for li, l := range leaves {
			if l.N.NoCol || l.Column == "" {
				continue
			}
			if _, dup := ko[li]; dup {
				continue
			}
			// two leaves may share one column (crossing declarations): the column is mentioned once
			shared := false
			for lj := 0; lj < li; lj++ {
				if leaves[lj].Column == l.Column && !leaves[lj].N.NoCol {
					shared = true
				}
			}
			if shared {
				hw[li] = "shared"
				continue
			}
			a := c03GAtomBy[l.N.T]
			how, v := "missing", interface{}(nil)
			switch {
			case l.N.Name == "Payload" && len(l.Index) == 1:
				how, v = "value", fmt.Sprintf("p%d", i)
			case l.N.AppKey && l.N.T == "string":
				how, v = "value", fmt.Sprintf("k%d", i)
			case l.N.AppKey:
				how, v = "value", c03GLit(a.Typ, 900+7*i).Interface()
				if rv := reflect.ValueOf(v); rv.Kind() != reflect.Int64 && rv.Kind() != reflect.Int32 {
					v = rv.Convert(reflect.TypeOf(int64(0))).Interface()
				}
			case in.Key == "dbgen-string" && l.N.Name == "Uid":
			case l.N.GenKey:
				switch {
				case l.N.NoC:
				case presetKeys:
					how, v = "value", int64(700+11*i)
				case rng.Intn(4) == 0:
					how = "nil"
				}
			default:
				how, v = c03MEntry(rng, l, i)
			}
			hw[li] = how
			if how == "missing" {
				continue
			}
			k := l.Column
			if in.Schema && nameCount[l.N.Name] == 1 && !isCol[l.N.Name] && rng.Intn(3) == 0 {
				k = l.N.Name
			}
			ko[li] = k
			m[k] = v
		}
		maps[i], hows[i], keyOf[i] = m, hw, ko
	}
	// ---- expectations ----
	batchOf := func(i int) int {
		switch in.Shape {
		case "maps", "pmaps":
			return 0
		case "batches":
			return i / in.Batch
		}
		return i
	}
	expect := make([]map[int]c03MExpect, in.N)
	expectErr := false
	for i := 0; i < in.N; i++ {
		expect[i] = map[int]c03MExpect{}
		for li, l := range leaves {
			how, ok := hows[i][li]
			if !ok || how == "shared" {
				continue
			}
			n := l.N
			def, hasDef := c03MDefault(n)
			generated := n.GenKey || (in.Key == "dbgen-string" && n.Name == "Uid")
			e := c03MExpect{How: how}
			siblingMentions := false
			for j := 0; j < in.N; j++ {
				if j != i && batchOf(j) == batchOf(i) {
					if _, m := keyOf[j][li]; m {
						siblingMentions = true
					}
				}
			}
			switch {
			case how != "missing" && in.Schema && n.NoC:
				// LATITUDE: no create permission — written or not
			case how == "missing" || (generated && how == "nil"):
				switch {
				case generated:
					e.Accept = []string{"!null"}
				case n.Def == "auto":
					// LATITUDE: gorm may or may not stamp a map
				case hasDef && def == "":
					e.Accept = []string{"!null"}
				default:
					e.Accept = []string{def}
				}
				if how == "missing" && siblingMentions && !generated && n.Def != "auto" {
					// LATITUDE: one column list per INSERT — the other elements' key is bound as NULL here
					e.Accept = append(e.Accept, "null")
					if notNull[n] {
						expectErr = true
					}
				}
			default:
				e.Accept = []string{c03StoredCanon(maps[i][keyOf[i][li]])}
				if e.Accept[0] == "null" && notNull[n] {
					expectErr = true
				}
			}
			expect[i][li] = e
		}
	}
	// ---- create ----
	given := make([]map[string]interface{}, in.N)
	for i, m := range maps {
		given[i] = map[string]interface{}{}
		for k, v := range m {
			given[i][k] = v
		}
	}
	create := func(tx *gorm.DB) error {
		h := tx.Table(tbl)
		if in.Schema {
			h = h.Model(reflect.New(typ).Interface())
		}
		switch in.Shape {
		case "map":
			for i := 0; i < in.N; i++ {
				if err := h.Create(maps[i]).Error; err != nil {
					return err
				}
			}
		case "pmap":
			for i := 0; i < in.N; i++ {
				if err := h.Create(&maps[i]).Error; err != nil {
					return err
				}
			}
		case "maps":
			return h.Create(maps).Error
		case "pmaps":
			ms := maps
			if err := h.Create(&ms).Error; err != nil {
				return err
			}
			if len(ms) != in.N {
				return fmt.Errorf("Create changed the length of the caller's slice of maps: %d -> %d", in.N, len(ms))
			}
		case "batches":
			return h.CreateInBatches(maps, in.Batch).Error
		}
		return nil
	}
	var err error
	if in.Where == "tx" {
		err = db.Transaction(create)
	} else {
		err = create(db)
	}
	if r != nil {
		r.H("mapdecl.not-null-nil", fmt.Sprintf("expected-error=%v got-error=%v", expectErr, err != nil))
	}
	if err != nil {
		if expectErr && strings.Contains(err.Error(), "NOT NULL") {
			return // a nil that cannot be stored is refused: nothing is read back
		}
		bad("Create: %v", err)
		return
	}
	// ---- read back ----
	var rows []map[string]interface{}
	if e := db.Table(tbl).Find(&rows).Error; e != nil {
		bad("Table.Find(&[]map): %v", e)
		return
	}
	if len(rows) != in.N {
		bad("table holds %d rows, created %d", len(rows), in.N)
	}
	rowBy := map[string]map[string]interface{}{}
	for _, row := range rows {
		switch p := row["payload"].(type) {
		case string:
			rowBy[p] = row
		case []byte:
			rowBy[string(p)] = row
		}
	}
	for i := 0; i < in.N; i++ {
		pay := fmt.Sprintf("p%d", i)
		row := rowBy[pay]
		if row == nil {
			bad("rec %d: no row holds its payload", i)
			continue
		}
		var take map[string]interface{}
		if e := db.Table(tbl).Where("payload = ?", pay).Take(&take).Error; e != nil {
			bad("rec %d: Table.Take(&map): %v", i, e)
			continue
		}
		loaded := reflect.New(typ)
		firstErr := db.Table(tbl).Where("payload = ?", pay).First(loaded.Interface()).Error
		for li, l := range leaves {
			e, ok := expect[i][li]
			if !ok {
				continue
			}
			n := l.N
			where := fmt.Sprintf("rec %d column %s (%s %s{%s}) entry %s", i, l.Column, l.Path, n.T, n.Tag, e.How)
			if e.How != "missing" {
				where += fmt.Sprintf(" under key %q = %s", keyOf[i][li], c03MShow(given[i][keyOf[i][li]]))
			}
			raw, has := row[l.Column]
			if !has {
				bad("%s: the row has no such column (%v)", where, c03GKeys(row))
				continue
			}
			got := c03StoredCanon(raw)
			if t := c03StoredCanon(take[l.Column]); t != got {
				bad("%s: Find(&[]map) reads %s, Take(&map) reads %s", where, c03SShow(raw), c03SShow(take[l.Column]))
			}
			if r != nil && i == 0 {
				r.H("mapdecl.entry", fmt.Sprintf("%s default=%s", e.How, n.Def))
			}
			if len(e.Accept) > 0 {
				okv := false
				for _, a := range e.Accept {
					if a == got || (a == "!null" && got != "null") {
						okv = true
					}
				}
				if !okv {
					what := "a given key is written as given"
					if e.How == "missing" {
						what = "a missing key takes the column default"
					}
					bad("%s: the row holds %s, expected %s (%s)", where, c03SShow(raw), strings.Join(e.Accept, " | "), what)
				}
			}
			// the struct view agrees with the map view
			if firstErr == nil && !n.NoR && !c03MCustom[n.T] {
				lv := l.of(loaded.Elem())
				if s, ok := c03GRawCanon(raw, lv); ok && s != c03Canon(lv) {
					bad("%s: the row holds %s, First loads %s", where, c03SShow(raw), c03Canon(lv))
				}
			}
			// the in-memory map of a single create through a model carries the row's generated key
			if single && in.Schema && n.GenKey && !n.NoC && (e.How == "missing" || e.How == "nil") && in.Key != "none" && !strings.Contains(in.Key, "composite") {
				mv, has := maps[i][l.Column]
				if !has {
					bad("%s: after Create the map carries no key %q (row key %s)", where, l.Column, c03SShow(raw))
				} else if c03StoredCanon(mv) != got {
					bad("%s: after Create the map carries key %v, the row's key is %s", where, mv, c03SShow(raw))
				}
			}
		}
		if firstErr != nil && r != nil {
			r.H("mapdecl.first-error", "yes")
		}
	}
	return
}

func c03MShow(v interface{}) string {
	if v == nil {
		return "nil"
	}
	rv := reflect.ValueOf(v)
	if rv.Kind() == reflect.Ptr {
		if rv.IsNil() {
			return fmt.Sprintf("(%T)(nil)", v)
		}
		return fmt.Sprintf("&%v", rv.Elem().Interface())
	}
	return fmt.Sprintf("%T(%v)", v, v)
}

func c03MapDeclSuite(r *Result, rng *rand.Rand, tier string) {
	n := 700
	if tier == "thorough" {
		n = 12000
	}
	for i := 0; i < n && !expired(); i++ {
		in := c03MInput{Seed: rng.Int63(), Key: c03GKeyStylesNow()[rng.Intn(len(c03GKeyStylesNow()))], Shape: []string{"map", "map", "pmap", "maps", "pmaps", "batches"}[rng.Intn(6)],
			N: 1 + rng.Intn(4), Returning: rng.Intn(3) != 0, Where: []string{"plain", "plain", "tx", "prepare", "skiptx"}[rng.Intn(5)], Schema: rng.Intn(3) != 0}
		if in.Shape == "batches" {
			in.Batch = 1 + rng.Intn(in.N+1)
		}
		if in.Shape != "map" && in.Shape != "pmap" && in.Schema {
			in.Returning = false // F18: slices of maps with RETURNING
		}
		bads, nodes := c03MRun(r, in)
		in.Desc = c03GDesc(nodes)
		r.H("mapdecl.shape", in.Shape)
		r.H("mapdecl.model", fmt.Sprint(in.Schema))
		r.H("mapdecl.where", in.Where)
		r.Case("mapdecl", fmt.Sprint(in.Seed, in.Key, in.Shape, in.Returning, in.N, in.Where, in.Schema), true)
		if len(bads) == 0 {
			r.H("mapdecl.verdict", "ok")
			continue
		}
		r.H("mapdecl.verdict", "violation")
		if len(bads) > 6 {
			bads = append(bads[:6], fmt.Sprintf("… %d more", len(bads)-6))
		}
		r.Violate(Violation{Kind: "e2e", Suite: "mapdecl", Input: in, Observed: bads,
			Expected: "a record created from a map is read back equal: every given key holds what the map gave (nil → NULL, whatever DEFAULT the column has), a missing key holds the column default"})
	}
}

// ---- suite "mapcols": DryRun INSERT of map creates vs Model.SchemaAttrs.mapCreateOne / mapCreateMany ----

type c03MColsInput struct {
	NoLower bool                     `json:"no_lower_case"`
	Nodes   []c03GNode               `json:"nodes"`
	Schema  bool                     `json:"model"`
	Single  bool                     `json:"single"`
	Ptr     bool                     `json:"ptr"`
	Selects []string                 `json:"selects"`
	Omits   []string                 `json:"omits"`
	Maps    []map[string]interface{} `json:"maps"`
	Desc    string                   `json:"desc,omitempty"`
}

func c03MVar(v interface{}) interface{} {
	switch x := v.(type) {
	case nil:
		return nil
	case *int64:
		if x == nil {
			return "tnil"
		}
		return *x
	case int:
		return x
	case int64:
		return int(x)
	case float64:
		return int(x)
	case string:
		return x
	}
	return fmt.Sprintf("%T", v)
}

func c03MapColsSuite(r *Result, rng *rand.Rand, tier string) {
	n := 1500
	if tier == "thorough" {
		n = 20000
	}
	var ops [][]interface{}
	var reals []interface{}
	var ins []c03MColsInput
	for it := 0; it < n && !expired(); it++ {
		nodes, noLower := c03GGenRun(rand.New(rand.NewSource(rng.Int63())), c03GKeyStylesNow()[rng.Intn(len(c03GKeyStylesNow()))], false)
		ns := schema.NamingStrategy{NoLowerCase: noLower}
		leaves := c03GFlatten(nodes, ns, nil, nil, "", "")
		in := c03MColsInput{NoLower: noLower, Nodes: nodes, Schema: rng.Intn(4) != 0, Single: rng.Intn(2) == 0, Ptr: rng.Intn(2) == 0, Selects: []string{}, Omits: []string{}, Desc: c03GDesc(nodes)}
		var pool []string // key spellings
		for _, l := range leaves {
			if l.Column != "" {
				pool = append(pool, l.Column)
			}
			if l.N.NoCol && !in.Single {
				continue
			}
			if l.N.NoCol && rng.Intn(4) != 0 {
				continue
			}
			pool = append(pool, l.N.Name)
		}
		pool = append(pool, "zz_extra", "Unknown", strings.ToUpper(pool[rng.Intn(len(pool))]))
		typ := c03GType(nodes)
		// the column every spelling is written to (to keep the keys of ONE map of a slice on distinct columns)
		colOf := func(k string) string { return k }
		if in.Schema {
			sch, err := schema.Parse(reflect.New(typ).Interface(), &sync.Map{}, ns)
			if err != nil {
				continue
			}
			colOf = func(k string) string {
				if f := sch.LookUpField(k); f != nil {
					return f.DBName
				}
				return k
			}
		}
		nm := 1
		if !in.Single {
			nm = 1 + rng.Intn(3)
		}
		next := 100
		for mi := 0; mi < nm; mi++ {
			m := map[string]interface{}{}
			used := map[string]bool{}
			for _, k := range pool {
				if rng.Intn(2) == 0 {
					continue
				}
				if !in.Single && used[colOf(k)] {
					continue
				}
				used[colOf(k)] = true
				switch rng.Intn(4) {
				case 0:
					m[k] = nil
				case 1:
					m[k] = (*int64)(nil)
				default:
					next++
					m[k] = next
				}
			}
			in.Maps = append(in.Maps, m)
		}
		if rng.Intn(4) == 0 {
			for _, k := range pool {
				if rng.Intn(3) == 0 {
					if rng.Intn(2) == 0 {
						in.Selects = append(in.Selects, k)
					} else {
						in.Omits = append(in.Omits, k)
					}
				}
			}
		}
		// real side
		h := c03GDryDB(noLower).Table("decl_t")
		if in.Schema {
			h = h.Model(reflect.New(typ).Interface())
		}
		if len(in.Selects) > 0 {
			sel := make([]interface{}, len(in.Selects)-1)
			for i, s := range in.Selects[1:] {
				sel[i] = s
			}
			h = h.Select(in.Selects[0], sel...)
		}
		if len(in.Omits) > 0 {
			h = h.Omit(in.Omits...)
		}
		var dest interface{}
		copies := make([]map[string]interface{}, len(in.Maps))
		for i, m := range in.Maps {
			copies[i] = map[string]interface{}{}
			for k, v := range m {
				copies[i][k] = v
			}
		}
		switch {
		case in.Single && in.Ptr:
			dest = &copies[0]
		case in.Single:
			dest = copies[0]
		case in.Ptr:
			dest = &copies
		default:
			dest = copies
		}
		var real interface{}
		func() {
			defer func() {
				if p := recover(); p != nil {
					real = fmt.Sprint("panic: ", p)
				}
			}()
			tx := h.Create(dest)
			if tx.Error != nil {
				real = "create-error: " + tx.Error.Error()
				return
			}
			cols, _ := c03DParseSQL(tx.Statement.SQL.String())
			vars := tx.Statement.Vars
			if in.Single {
				out := []interface{}{}
				for i, c := range cols {
					var v interface{} = "no-var"
					if i < len(vars) {
						v = c03MVar(vars[i])
					}
					out = append(out, []interface{}{c, v})
				}
				if len(vars) != len(cols) {
					out = append(out, fmt.Sprintf("%d vars for %d columns", len(vars), len(cols)))
				}
				real = out
				return
			}
			rowsOut := []interface{}{}
			for i := 0; i < len(in.Maps); i++ {
				row := []interface{}{}
				for j := range cols {
					if k := i*len(cols) + j; k < len(vars) {
						row = append(row, c03MVar(vars[k]))
					}
				}
				rowsOut = append(rowsOut, row)
			}
			if len(cols) == 0 {
				rowsOut = []interface{}{}
				for range in.Maps {
					rowsOut = append(rowsOut, []interface{}{})
				}
			}
			real = []interface{}{cols, rowsOut}
		}()
		// lean side
		var decl interface{}
		if in.Schema {
			decl = c03GDeclJSON(nodes, ns)
		}
		var msJ []interface{}
		for _, m := range in.Maps {
			ents := []interface{}{}
			ks := c03GKeys(m)
			rng.Shuffle(len(ks), func(i, j int) { ks[i], ks[j] = ks[j], ks[i] })
			for _, k := range ks {
				ents = append(ents, []interface{}{k, c03MVar(m[k])})
			}
			msJ = append(msJ, ents)
		}
		ops = append(ops, []interface{}{"c03.mapcreate", decl, in.Selects, in.Omits, in.Single, msJ})
		reals = append(reals, real)
		ins = append(ins, in)
		r.H("mapcols.shape", fmt.Sprintf("model=%v single=%v select/omit=%v", in.Schema, in.Single, len(in.Selects)+len(in.Omits) > 0))
	}
	outs, err := AskLean(ops)
	if err != nil {
		r.Violate(Violation{Kind: "correspondence", Suite: "mapcols", Note: "lean driver: " + err.Error()})
		return
	}
	for i := range ops {
		var s string
		if json.Unmarshal(outs[i], &s) == nil && (s == "unmodelled" || s == "error") {
			r.H("mapcols.verdict", s)
			continue
		}
		r.H("mapcols.verdict", "compared")
		r.Case("mapcols", ins[i].Desc+canon(ops[i][2:]), true)
		r.CorrCompared++
		if canon(reals[i]) != canonRaw(outs[i]) {
			r.Violate(Violation{Kind: "correspondence", Suite: "mapcols", Input: ins[i], Observed: reals[i], Expected: json.RawMessage(outs[i]),
				Note: "INSERT columns + bound values of Create from map(s) (DryRun; callbacks/helper.go ConvertMapToValuesForCreate / ConvertSliceOfMapToValuesForCreate) differ from Model.SchemaAttrs.mapCreateOne / mapCreateMany"})
		}
	}
}

func init() {
	register("C03", c03MapColsSuite)
	register("C03", c03MapDeclSuite)
	replayers["C03/mapcols"] = func(r *Result, input json.RawMessage) { r.Note("mapcols replays are correspondence-only") }
	replayers["C03/mapdecl"] = func(r *Result, input json.RawMessage) {
		var in c03MInput
		if json.Unmarshal(input, &in) != nil {
			return
		}
		if bads, _ := c03MRun(nil, in); len(bads) > 0 {
			r.Violate(Violation{Kind: "e2e", Suite: "mapdecl", Input: in, Observed: bads})
		}
	}
}
