package main

// C13 round 5 -- suite "bodies": what the HOOK BODIES do.
//
// The other C13 suites vary the operation, the argument shape, the association graph, the error value ... but their hooks
// all have one fixed body (log; BeforeCreate/BeforeUpdate set one column).  Here the body of every hook kind is a small
// PROGRAM drawn from an alphabet of things real hooks do with the handle they receive:
//
//	set      tx.Statement.SetColumn("V<Hook>", "<Hook>:<record>")       in EVERY hook kind (before and after, delete, find)
//	direct   assign a field of the receiver directly
//	changed  tx.Statement.Changed("Tag")                                (update operations)
//	mk       tx.Create(&HbAudit{…})                                     re-entrance: another model through the hook's tx
//	mkbatch  tx.Create(&[]HbAudit{…, …})                                re-entrance with a BATCH (its own walks, own SetColumn)
//	upd      tx.Model(&T{}).Where(name).UpdateColumn(hits+1)            re-entrance: the same row
//	qry      tx.Model(&HbAudit{}).Count + tx.Find(&[]HbAudit)           re-entrance: queries (AfterFind of another model)
//	+ every invocation reads tx.Statement.ReflectValue / CurDestIndex / Dest (which element does the statement address now?)
//	+ a fault at a position of one invocation's program: return an error | panic(error) | panic(string)
//
// over single records, []T, []*T, [n]T, [n]*T of 1..n records, maps (no hooks), in-memory has-many children (nested batch
// create with the same programs), Create / Save / Updates (map, struct, Update) / Delete / Find / First, default
// transaction / user transaction / SkipDefaultTransaction / PrepareStmt, and a KEPT chain handle (`h := db.Model(&slice)`)
// used for a second batch update (one Statement, four walks).
//
// Oracle (property text only):
//	B1 an operation whose hooks neither fail nor panic returns no error and does not panic
//	B2 every applicable hook fires exactly once per record, per record in documented order, before-hooks before after-hooks
//	B3 while a hook runs the statement addresses THAT record: Statement.ReflectValue.Index(CurDestIndex) is the receiver
//	   (anchor "SetColumn from hooks"), observable as: the value record i's hook wrote with SetColumn is found in record i
//	   (in memory: create/delete/find, after-hooks of struct updates), Changed() answers for record i
//	B4 values set by a before-hook are the values stored: create -- row i carries what record i's BeforeSave/BeforeCreate
//	   set (element i gets value i); update -- ONE statement, ONE value: every row carries a value some record's hook set
//	   (latitude: which one; gorm keeps the last); rows written by nested creates carry what THEIR hook set
//	B5 the operation's own transaction: every hook sees one and the same transaction handle, every write -- also those the
//	   hooks issue through tx -- lies in one begin..commit window, which is committed once; transactions are balanced
//	B6 a hook error at any position of any body is returned, no hook of a later phase runs, and everything the operation
//	   AND its hooks did is rolled back (not judged without a transaction: SkipDefaultTransaction, Find outside a user tx)
//	B7 a panic in a hook reaches the caller; inside db.Transaction(…) everything is rolled back and the transaction is finished
//	   (latitude: in the DEFAULT transaction gorm has no recover -- the property speaks of hook errors; not judged there)
//	B8 maps run no hooks
//
// Tie (correspondence): the recorded (element, CurDestIndex) pairs of every walk over the top-level Statement vs
// Gorm.walks for the regenerated configuration (Drv op hooks.walks).

import (
	"encoding/json"
	"errors"
	"fmt"
	"math/rand"
	"os"
	"reflect"
	"strings"
	"sync"

	"gorm.io/gorm"
)

type HbVals struct {
	VBeforeSave   string
	VBeforeCreate string
	VBeforeUpdate string
	VBeforeDelete string
	VAfterCreate  string
	VAfterUpdate  string
	VAfterSave    string
	VAfterDelete  string
	VAfterFind    string
}

type HbRec struct {
	ID   uint `gorm:"primaryKey"`
	Name string
	Tag  string
	Hits int
	HbVals
	Subs []HbSub `gorm:"foreignKey:RecID"`
}

type HbSub struct {
	ID    uint `gorm:"primaryKey"`
	Name  string
	Tag   string
	Hits  int
	RecID uint
	HbVals
}

type HbAudit struct {
	ID   uint `gorm:"primaryKey"`
	What string
	Note string
	Seen string
}

func (HbRec) TableName() string   { return "hbrec" }
func (HbSub) TableName() string   { return "hbsub" }
func (HbAudit) TableName() string { return "hbaudit" }

type c13bEv struct {
	Hook  string `json:"h"`
	Model string `json:"m"`
	Name  string `json:"n"`
	Op    int    `json:"op"`   // which top-level finisher call of the case
	Pool  int    `json:"pool"` // identity of tx.Statement.ConnPool within the case
	IsTx  bool   `json:"tx"`
	RV    string `json:"rv"`   // kind of tx.Statement.ReflectValue
	Len   int    `json:"len"`  // its length (slice/array)
	Cur   int    `json:"cur"`  // tx.Statement.CurDestIndex
	Self  bool   `json:"self"` // the element the statement addresses is the receiver
	Chg   string `json:"chg,omitempty"`
	Depth int    `json:"d"` // nesting: 0 = invoked by the case's operation, 1 = by an operation a hook issued
}

var c13b struct {
	mu     sync.Mutex
	log    []c13bEv
	pools  []interface{}
	c      c13bCase
	opIdx  int
	depth  int
	retErr []error
	panics []interface{}
}

var c13bErrPanic = errors.New("verif: hook panicked (error value)")

func c13bPool(p gorm.ConnPool) (int, bool) {
	if w, ok := p.(*gorm.PreparedStmtTX); ok && w != nil {
		p = w.Tx
	}
	if w, ok := p.(*gorm.PreparedStmtDB); ok && w != nil {
		p = w.ConnPool
	}
	_, isTx := p.(gorm.TxCommitter)
	for i, q := range c13b.pools {
		if q == interface{}(p) {
			return i, isTx
		}
	}
	c13b.pools = append(c13b.pools, p)
	return len(c13b.pools) - 1, isTx
}

// the body of every HbRec / HbSub hook
func c13bHook(hook, model, name string, self interface{}, setTag func(string), tx *gorm.DB) error {
	c13b.mu.Lock()
	c := c13b.c
	ev := c13bEv{Hook: hook, Model: model, Name: name, Op: c13b.opIdx, Depth: c13b.depth}
	ev.Pool, ev.IsTx = c13bPool(tx.Statement.ConnPool)
	c13b.mu.Unlock()
	// read what the statement addresses right now
	rv := tx.Statement.ReflectValue
	ev.RV, ev.Cur = rv.Kind().String(), tx.Statement.CurDestIndex
	switch rv.Kind() {
	case reflect.Slice, reflect.Array:
		ev.Len = rv.Len()
		if ev.Cur >= 0 && ev.Cur < rv.Len() {
			if el := reflect.Indirect(rv.Index(ev.Cur)); el.IsValid() && el.CanAddr() {
				ev.Self = el.Addr().Interface() == self
			}
		}
	case reflect.Struct:
		ev.Self = rv.CanAddr() && rv.Addr().Interface() == self
	}
	_ = tx.Statement.Dest
	c13b.mu.Lock()
	c13b.log = append(c13b.log, ev)
	at := len(c13b.log) - 1
	c13b.mu.Unlock()

	fault := c.FailKind != "" && c.FailHook == hook && c.FailName == name
	prog := c.Prog[hook]
	table := &HbRec{}
	var tbl interface{} = table
	if model == "sub" {
		tbl = &HbSub{}
	}
	for pos := 0; pos <= len(prog); pos++ {
		if fault && pos == c.FailPos || fault && pos == len(prog) && c.FailPos > len(prog) {
			switch c.FailKind {
			case "err":
				err := fmt.Errorf("verif: %s of %s refused", hook, name)
				c13b.mu.Lock()
				c13b.retErr = append(c13b.retErr, err)
				c13b.mu.Unlock()
				return err
			case "panic:err":
				panic(c13bErrPanic)
			default:
				panic("verif: hook panicked (string value)")
			}
		}
		if pos == len(prog) {
			break
		}
		sub := tx // the handle the hook received, used directly (clone 1: every finisher starts a fresh Statement)
		switch prog[pos] {
		case "set":
			tx.Statement.SetColumn("V"+hook, hook+":"+name)
		case "direct":
			setTag("direct:" + hook + ":" + name)
		case "changed":
			if c.Op == "updates" && model == "rec" {
				chg := fmt.Sprint(tx.Statement.Changed("Tag"))
				c13b.mu.Lock()
				c13b.log[at].Chg = chg
				c13b.mu.Unlock()
			}
		case "mk", "mkbatch", "qry":
			c13b.mu.Lock()
			c13b.depth++
			c13b.mu.Unlock()
			var err error
			switch prog[pos] {
			case "mk":
				err = sub.Create(&HbAudit{What: hook + ":" + name}).Error
			case "mkbatch":
				err = sub.Create(&[]HbAudit{{What: hook + ":" + name + ":0"}, {What: hook + ":" + name + ":1"}}).Error
			default:
				var n int64
				if err = sub.Model(&HbAudit{}).Count(&n).Error; err == nil {
					var as []*HbAudit
					err = sub.Order("id").Find(&as).Error
				}
			}
			c13b.mu.Lock()
			c13b.depth--
			c13b.mu.Unlock()
			if err != nil {
				return fmt.Errorf("verif: statement issued by hook failed: %w", err)
			}
		case "upd":
			if err := sub.Model(tbl).Where("name = ?", name).UpdateColumn("hits", gorm.Expr("hits + 1")).Error; err != nil {
				return fmt.Errorf("verif: statement issued by hook failed: %w", err)
			}
		}
	}
	return nil
}

func (h *HbRec) tag(s string) { h.Tag = s }
func (h *HbSub) tag(s string) { h.Tag = s }

func (h *HbRec) BeforeSave(tx *gorm.DB) error {
	return c13bHook("BeforeSave", "rec", h.Name, h, h.tag, tx)
}
func (h *HbRec) BeforeCreate(tx *gorm.DB) error {
	return c13bHook("BeforeCreate", "rec", h.Name, h, h.tag, tx)
}
func (h *HbRec) AfterCreate(tx *gorm.DB) error {
	return c13bHook("AfterCreate", "rec", h.Name, h, h.tag, tx)
}
func (h *HbRec) AfterSave(tx *gorm.DB) error {
	return c13bHook("AfterSave", "rec", h.Name, h, h.tag, tx)
}
func (h *HbRec) BeforeUpdate(tx *gorm.DB) error {
	return c13bHook("BeforeUpdate", "rec", h.Name, h, h.tag, tx)
}
func (h *HbRec) AfterUpdate(tx *gorm.DB) error {
	return c13bHook("AfterUpdate", "rec", h.Name, h, h.tag, tx)
}
func (h *HbRec) BeforeDelete(tx *gorm.DB) error {
	return c13bHook("BeforeDelete", "rec", h.Name, h, h.tag, tx)
}
func (h *HbRec) AfterDelete(tx *gorm.DB) error {
	return c13bHook("AfterDelete", "rec", h.Name, h, h.tag, tx)
}
func (h *HbRec) AfterFind(tx *gorm.DB) error {
	return c13bHook("AfterFind", "rec", h.Name, h, h.tag, tx)
}

func (h *HbSub) BeforeSave(tx *gorm.DB) error {
	return c13bHook("BeforeSave", "sub", h.Name, h, h.tag, tx)
}
func (h *HbSub) BeforeCreate(tx *gorm.DB) error {
	return c13bHook("BeforeCreate", "sub", h.Name, h, h.tag, tx)
}
func (h *HbSub) AfterCreate(tx *gorm.DB) error {
	return c13bHook("AfterCreate", "sub", h.Name, h, h.tag, tx)
}
func (h *HbSub) AfterSave(tx *gorm.DB) error {
	return c13bHook("AfterSave", "sub", h.Name, h, h.tag, tx)
}
func (h *HbSub) BeforeUpdate(tx *gorm.DB) error {
	return c13bHook("BeforeUpdate", "sub", h.Name, h, h.tag, tx)
}
func (h *HbSub) AfterUpdate(tx *gorm.DB) error {
	return c13bHook("AfterUpdate", "sub", h.Name, h, h.tag, tx)
}
func (h *HbSub) BeforeDelete(tx *gorm.DB) error {
	return c13bHook("BeforeDelete", "sub", h.Name, h, h.tag, tx)
}
func (h *HbSub) AfterDelete(tx *gorm.DB) error {
	return c13bHook("AfterDelete", "sub", h.Name, h, h.tag, tx)
}
func (h *HbSub) AfterFind(tx *gorm.DB) error {
	return c13bHook("AfterFind", "sub", h.Name, h, h.tag, tx)
}

// HbAudit: fixed bodies -- a before-hook AND an after-hook that both go through SetColumn (two walks over the nested batch)
func (a *HbAudit) log(hook string, tx *gorm.DB) {
	c13b.mu.Lock()
	ev := c13bEv{Hook: hook, Model: "audit", Name: a.What, Op: c13b.opIdx, Depth: c13b.depth}
	ev.Pool, ev.IsTx = c13bPool(tx.Statement.ConnPool)
	ev.Cur, ev.RV = tx.Statement.CurDestIndex, tx.Statement.ReflectValue.Kind().String()
	c13b.log = append(c13b.log, ev)
	c13b.mu.Unlock()
}
func (a *HbAudit) BeforeCreate(tx *gorm.DB) error {
	a.log("BeforeCreate", tx)
	tx.Statement.SetColumn("Note", "audit:"+a.What)
	return nil
}
func (a *HbAudit) AfterCreate(tx *gorm.DB) error {
	a.log("AfterCreate", tx)
	tx.Statement.SetColumn("Seen", "after:"+a.What)
	return nil
}
func (a *HbAudit) AfterFind(tx *gorm.DB) error { a.log("AfterFind", tx); return nil }

// c13Guard runs one operation of any C13 suite: a panic escaping from gorm (e.g. reflect "index out of range" out of
// Statement.SetColumn) becomes an error result, which every oracle judges (unexpected error / hook error not returned),
// instead of killing the harness before it can name a failing input.
func c13Guard(f func() *gorm.DB) (res *gorm.DB) {
	defer func() {
		if p := recover(); p != nil {
			res = &gorm.DB{Error: fmt.Errorf("PANIC escaped from the operation: %v", p)}
		}
	}()
	return f()
}

// ---- case ----------------------------------------------------------------------------------------

type c13bCase struct {
	Op    string              `json:"op"`            // create save createmap updates delete find
	Via   string              `json:"via,omitempty"` // updates: map struct update | find: find first
	Shape string              `json:"shape"`         // single valslice ptrslice valarray ptrarray
	N     int                 `json:"n"`
	Subs  int                 `json:"subs,omitempty"` // create/save: in-memory has-many children per record
	Ctx   string              `json:"ctx,omitempty"`  // "", usertx, skipdefault, prepare
	Kept  bool                `json:"kept,omitempty"` // updates: h := db.Model(&records); the update runs twice through h
	Prog  map[string][]string `json:"prog"`
	// fault: invocation (hook, record name), position in its program (> len = at the end), kind err | panic:err | panic:str
	FailHook string `json:"fail_hook,omitempty"`
	FailName string `json:"fail_name,omitempty"`
	FailPos  int    `json:"fail_pos,omitempty"`
	FailKind string `json:"fail_kind,omitempty"`
}

type c13bMem struct {
	Name string
	ID   uint
	Tag  string
	Vals HbVals
	Subs []c13bMem
}

type c13bObs struct {
	Events   []c13bEv            `json:"events"`
	Err      string              `json:"err"`
	Panic    string              `json:"panic,omitempty"`
	PanicOK  bool                `json:"panic_is_hooks_value,omitempty"`
	ErrOK    bool                `json:"err_returned"`
	Mem      []c13bMem           `json:"mem"`
	Before   map[string][]string `json:"-"`
	After    map[string][]string `json:"after"`
	Writes   []int               `json:"write_windows"`
	Begins   int                 `json:"begins"`
	Commits  int                 `json:"commits"`
	Rollback int                 `json:"rollbacks"`
	OpenTx   bool                `json:"open_tx,omitempty"` // a transaction was left open at the driver
}

func c13bName(i int) string { return fmt.Sprint("e", i) }

func c13bDump(db *gorm.DB, rec *Recorder) map[string][]string {
	rec.mu.Lock()
	off := rec.Off
	rec.Off = true
	rec.mu.Unlock()
	defer func() { rec.mu.Lock(); rec.Off = off; rec.mu.Unlock() }()
	raw := db.Session(&gorm.Session{NewDB: true, SkipHooks: true})
	out := map[string][]string{}
	vcols := "v_before_save, v_before_create, v_before_update, v_before_delete, v_after_create, v_after_update, v_after_save, v_after_delete, v_after_find"
	for _, t := range []string{"hbrec", "hbsub"} {
		rows, err := raw.Raw("SELECT name, tag, hits, " + vcols + " FROM " + t + " ORDER BY id").Rows()
		if err != nil {
			out[t] = []string{"ERR " + err.Error()}
			continue
		}
		list := []string{}
		for rows.Next() {
			var name, tag string
			var hits int
			v := make([]string, 9)
			_ = rows.Scan(&name, &tag, &hits, &v[0], &v[1], &v[2], &v[3], &v[4], &v[5], &v[6], &v[7], &v[8])
			list = append(list, fmt.Sprintf("%s|%s|%d|%s", name, tag, hits, strings.Join(v, "|")))
		}
		rows.Close()
		out[t] = list
	}
	rows, err := raw.Raw("SELECT what, note FROM hbaudit ORDER BY id").Rows()
	if err != nil {
		out["hbaudit"] = []string{"ERR " + err.Error()}
		return out
	}
	list := []string{}
	for rows.Next() {
		var w, n string
		_ = rows.Scan(&w, &n)
		list = append(list, w+"|"+n)
	}
	rows.Close()
	out["hbaudit"] = list
	return out
}

// in-memory Tag the records carry into an update: even records already hold the new value (Changed("Tag") = false)
func c13bMemTag(i int) string {
	if i%2 == 0 {
		return "upd"
	}
	return "mem"
}

// c13bValue builds the operation's argument: a pointer to one record / slice / array
func c13bValue(c c13bCase) reflect.Value {
	mk := func(i int) HbRec {
		r := HbRec{Name: c13bName(i), Tag: "mem"}
		switch c.Op {
		case "updates", "delete":
			r.ID = uint(i + 1)
			r.Tag = c13bMemTag(i)
		case "create", "save":
			for k := 0; k < c.Subs; k++ {
				r.Subs = append(r.Subs, HbSub{Name: fmt.Sprint(r.Name, "s", k), Tag: "mem"})
			}
		}
		return r
	}
	rt := reflect.TypeOf(HbRec{})
	switch c.Shape {
	case "single":
		r := mk(0)
		return reflect.ValueOf(&r)
	case "valslice", "ptrslice", "valarray", "ptrarray":
		et := rt
		if strings.HasPrefix(c.Shape, "ptr") {
			et = reflect.PointerTo(rt)
		}
		var v reflect.Value
		if strings.HasSuffix(c.Shape, "array") {
			v = reflect.New(reflect.ArrayOf(c.N, et))
		} else {
			v = reflect.New(reflect.SliceOf(et))
			v.Elem().Set(reflect.MakeSlice(reflect.SliceOf(et), c.N, c.N))
		}
		for i := 0; i < c.N; i++ {
			r := mk(i)
			if et == rt {
				v.Elem().Index(i).Set(reflect.ValueOf(r))
			} else {
				v.Elem().Index(i).Set(reflect.ValueOf(&r))
			}
		}
		return v
	}
	panic("c13b: shape " + c.Shape)
}

func c13bMemOf(v reflect.Value) []c13bMem {
	v = reflect.Indirect(v)
	one := func(e reflect.Value) c13bMem {
		e = reflect.Indirect(e)
		if !e.IsValid() {
			return c13bMem{}
		}
		r := e.Interface().(HbRec)
		m := c13bMem{Name: r.Name, ID: r.ID, Tag: r.Tag, Vals: r.HbVals}
		for _, s := range r.Subs {
			m.Subs = append(m.Subs, c13bMem{Name: s.Name, ID: s.ID, Tag: s.Tag, Vals: s.HbVals})
		}
		return m
	}
	switch v.Kind() {
	case reflect.Struct:
		return []c13bMem{one(v)}
	case reflect.Slice, reflect.Array:
		out := []c13bMem{}
		for i := 0; i < v.Len(); i++ {
			out = append(out, one(v.Index(i)))
		}
		return out
	}
	return nil
}

// c13bExec runs the case's finisher call(s) on h; `val` receives the argument (for the in-memory judgement)
func c13bExec(h *gorm.DB, c c13bCase, val *reflect.Value) *gorm.DB {
	setOp := func(i int) { c13b.mu.Lock(); c13b.opIdx = i; c13b.mu.Unlock() }
	setOp(0)
	switch c.Op {
	case "createmap":
		if c.Shape == "single" {
			return h.Model(&HbRec{}).Create(map[string]interface{}{"Name": c13bName(0), "Tag": "mem"})
		}
		ms := []map[string]interface{}{}
		for i := 0; i < c.N; i++ {
			ms = append(ms, map[string]interface{}{"Name": c13bName(i), "Tag": "mem"})
		}
		return h.Model(&HbRec{}).Create(ms)
	case "create":
		*val = c13bValue(c)
		return h.Create(val.Interface())
	case "save":
		*val = c13bValue(c)
		return h.Save(val.Interface())
	case "delete":
		*val = c13bValue(c)
		return h.Delete(val.Interface())
	case "updates":
		*val = c13bValue(c)
		m := h.Model(val.Interface())
		run := func(tag string) *gorm.DB {
			switch c.Via {
			case "struct":
				return m.Updates(HbRec{Tag: tag})
			case "update":
				return m.Update("tag", tag)
			}
			return m.Updates(map[string]interface{}{"tag": tag})
		}
		res := run("upd")
		if c.Kept && res.Error == nil {
			setOp(1)
			res = run("upd2")
		}
		return res
	case "find":
		if c.Via == "first" {
			var one HbRec
			*val = reflect.ValueOf(&one)
			return h.Order("id").First(&one)
		}
		if c.Shape == "ptrslice" {
			var items []*HbRec
			*val = reflect.ValueOf(&items)
			return h.Order("id").Find(&items)
		}
		var items []HbRec
		*val = reflect.ValueOf(&items)
		return h.Order("id").Find(&items)
	}
	panic("c13b: op " + c.Op)
}

func c13bRun(c c13bCase) c13bObs {
	cfg := &gorm.Config{}
	switch c.Ctx {
	case "skipdefault":
		cfg.SkipDefaultTransaction = true
	case "prepare":
		cfg.PrepareStmt = true
	}
	db, rec, sqlDB := OpenRec(cfg)
	defer sqlDB.Close()
	if err := db.AutoMigrate(&HbRec{}, &HbSub{}, &HbAudit{}); err != nil {
		panic(err)
	}
	c13b.mu.Lock()
	c13b.c, c13b.log, c13b.pools, c13b.opIdx, c13b.depth, c13b.retErr = c13bCase{}, nil, nil, 0, 0, nil
	c13b.mu.Unlock()
	if c.Op == "updates" || c.Op == "delete" || c.Op == "find" {
		seed := db.Session(&gorm.Session{SkipHooks: true})
		for i := 0; i < c.N; i++ {
			if err := seed.Create(&HbRec{ID: uint(i + 1), Name: c13bName(i), Tag: "old"}).Error; err != nil {
				panic(err)
			}
		}
	}
	var obs c13bObs
	obs.Before = c13bDump(db, rec)
	c13b.mu.Lock()
	c13b.c, c13b.log, c13b.pools = c, nil, nil
	c13b.mu.Unlock()
	rec.Reset()
	var res *gorm.DB
	var val reflect.Value
	func() {
		defer func() {
			if p := recover(); p != nil {
				obs.Panic = fmt.Sprint(p)
				if e, ok := p.(error); ok {
					obs.PanicOK = errors.Is(e, c13bErrPanic)
				} else if s, ok := p.(string); ok {
					obs.PanicOK = s == "verif: hook panicked (string value)"
				}
			}
		}()
		if c.Ctx == "usertx" {
			_ = db.Transaction(func(tx *gorm.DB) error {
				res = c13bExec(tx, c, &val)
				return res.Error
			})
		} else {
			res = c13bExec(db, c, &val)
		}
	}()
	c13b.mu.Lock()
	obs.Events = append([]c13bEv{}, c13b.log...)
	returned := c13b.retErr
	c13b.c, c13b.log, c13b.pools, c13b.retErr = c13bCase{}, nil, nil, nil
	c13b.mu.Unlock()
	if res != nil && res.Error != nil {
		obs.Err = res.Error.Error()
		obs.ErrOK = len(returned) > 0
		for _, e := range returned {
			if !c13ErrCarries(res.Error, e) {
				obs.ErrOK = false
			}
		}
	}
	if val.IsValid() {
		obs.Mem = c13bMemOf(val)
	}
	win, open := -1, false
	for _, e := range rec.Snapshot() {
		switch e.Kind {
		case "begin":
			if e.Err == "" {
				win++
				open = true
				obs.Begins++
			}
		case "commit":
			open = false
			obs.Commits++
		case "rollback":
			open = false
			obs.Rollback++
		default:
			if c13xIsWrite(e) {
				w := -1
				if open {
					w = win
				}
				obs.Writes = append(obs.Writes, w)
			}
		}
	}
	obs.OpenTx = obs.Begins > obs.Commits+obs.Rollback
	if obs.OpenTx {
		// a transaction is still open on a checked-out connection: reading the tables would see (or block on) its state
		obs.After = map[string][]string{"open-transaction": {"not read"}}
	} else {
		obs.After = c13bDump(db, rec)
	}
	return obs
}

// ---- oracle --------------------------------------------------------------------------------------

var c13bSeqs = map[string][]string{
	"create":  {"BeforeSave", "BeforeCreate", "AfterCreate", "AfterSave"},
	"save":    {"BeforeSave", "BeforeCreate", "AfterCreate", "AfterSave"},
	"updates": {"BeforeSave", "BeforeUpdate", "AfterUpdate", "AfterSave"},
	"delete":  {"BeforeDelete", "AfterDelete"},
	"find":    {"AfterFind"},
}

func c13bHas(prog []string, a string) bool {
	for _, x := range prog {
		if x == a {
			return true
		}
	}
	return false
}

func c13bVal(v HbVals, hook string) string {
	return reflect.ValueOf(v).FieldByName("V" + hook).String()
}

func c13bRowOf(rows []string, name string) []string {
	for _, r := range rows {
		if p := strings.Split(r, "|"); p[0] == name {
			return p
		}
	}
	return nil
}

var c13bColIdx = map[string]int{"BeforeSave": 3, "BeforeCreate": 4, "BeforeUpdate": 5, "BeforeDelete": 6, "AfterCreate": 7,
	"AfterUpdate": 8, "AfterSave": 9, "AfterDelete": 10, "AfterFind": 11}

func c13bNRec(c c13bCase) int {
	if c.Shape == "single" {
		return 1
	}
	return c.N
}

func c13bOracle(c c13bCase, obs c13bObs) string {
	userPanic := strings.HasPrefix(c.FailKind, "panic")
	nops := 1
	if c.Kept {
		nops = 2
	}
	// the fault only exists if the failing invocation is one the operation reaches
	if obs.Panic != "" && !userPanic {
		return "B1: the operation panicked although no hook panics: " + obs.Panic
	}
	if obs.OpenTx && !(userPanic && c.Ctx != "usertx") {
		return fmt.Sprintf("B5: a transaction was left open (begin %d, commit %d, rollback %d)", obs.Begins, obs.Commits, obs.Rollback)
	}
	count := map[string]int{}
	for _, e := range obs.Events {
		if e.Model != "audit" {
			count[fmt.Sprint(e.Op, "/", e.Model, "/", e.Name, "/", e.Hook)]++
		}
	}
	for k, n := range count {
		if n > 1 {
			return "B2: hook fired more than once for one record: " + k
		}
	}
	if c.Op == "createmap" {
		for _, e := range obs.Events {
			if e.Model != "audit" {
				return "B8: a hook fired for a map argument: " + e.Hook
			}
		}
		// (whether gorm can create from this map shape at all is not this property's business)
		return ""
	}
	// B3 for every invocation that happened (also in failing runs)
	for _, e := range obs.Events {
		if e.Model == "audit" {
			continue
		}
		if !e.Self {
			return fmt.Sprintf("B3: while %s of %s %s ran, the statement addressed another element (ReflectValue %s of %d, CurDestIndex %d)",
				e.Hook, e.Model, e.Name, e.RV, e.Len, e.Cur)
		}
	}
	seq := c13bSeqs[c.Op]
	n := c13bNRec(c)
	if c.FailKind == "" {
		if obs.Err != "" {
			return "B1: unexpected error: " + obs.Err
		}
		for op := 0; op < nops; op++ {
			names := []string{}
			for i := 0; i < n; i++ {
				names = append(names, "rec/"+c13bName(i))
				if c.Op == "create" || c.Op == "save" {
					for k := 0; k < c.Subs; k++ {
						names = append(names, fmt.Sprint("sub/", c13bName(i), "s", k))
					}
				}
			}
			for _, nm := range names {
				var got []string
				for _, e := range obs.Events {
					if e.Op == op && e.Model+"/"+e.Name == nm {
						got = append(got, e.Hook)
					}
				}
				want := seq
				if strings.HasPrefix(nm, "sub/") {
					want = c13bSeqs["create"]
				}
				if !reflect.DeepEqual(got, want) {
					return fmt.Sprintf("B2: %s (call %d) saw hooks %v, documented %v", nm, op, got, want)
				}
			}
			seenAfter := false
			for _, e := range obs.Events {
				if e.Op != op || e.Model != "rec" {
					continue
				}
				if strings.HasPrefix(e.Hook, "After") {
					seenAfter = true
				} else if seenAfter {
					return "B2: a before-hook fired after an after-hook of the same operation"
				}
			}
		}
		if v := c13bStored(c, obs); v != "" {
			return v
		}
		return c13bTx(c, obs)
	}
	// which invocation fails: does the operation reach it?
	reach := false
	for _, h := range seq {
		if h == c.FailHook {
			reach = true
		}
	}
	if strings.Contains(c.FailName, "s") && !(c.Op == "create" || c.Op == "save") {
		reach = false
	}
	if !reach {
		return "" // generator error; nothing to judge
	}
	isSub := strings.Contains(c.FailName, "s")
	if userPanic {
		if obs.Panic == "" || !obs.PanicOK {
			return "B7: the hook's panic did not reach the caller with its value: panic=" + obs.Panic + " err=" + obs.Err
		}
		if c.Ctx == "usertx" && !reflect.DeepEqual(obs.Before, obs.After) {
			return "B7: a hook panicked inside db.Transaction, but the database changed"
		}
		return ""
	}
	if obs.Err == "" || !obs.ErrOK {
		return "B6: hook error not returned: " + obs.Err
	}
	if !isSub && !strings.HasPrefix(c.FailHook, "After") {
		for _, e := range obs.Events {
			if e.Model == "rec" && strings.HasPrefix(e.Hook, "After") {
				return fmt.Sprintf("B6: %s of %s ran after %s of %s failed", e.Hook, e.Name, c.FailHook, c.FailName)
			}
		}
	}
	if c.Ctx != "skipdefault" && !(c.Op == "find" && c.Ctx != "usertx") {
		if !reflect.DeepEqual(obs.Before, obs.After) {
			return "B6: the database changed although a hook failed"
		}
		if obs.Commits != 0 {
			return "B6: a transaction was committed although a hook failed"
		}
	}
	return ""
}

// B3 (observable part) + B4
func c13bStored(c c13bCase, obs c13bObs) string {
	n := c13bNRec(c)
	if len(obs.Mem) != n && c.Op != "find" {
		return fmt.Sprintf("in-memory argument has %d records, want %d", len(obs.Mem), n)
	}
	if c.Op == "find" {
		want := c.N
		if c.Via == "first" && c.N > 0 {
			want = 1
		}
		if len(obs.Mem) != want {
			return fmt.Sprintf("B2: %d records loaded, want %d", len(obs.Mem), want)
		}
	}
	fired := map[string]bool{}
	for _, e := range obs.Events {
		fired[e.Model+"/"+e.Name+"/"+e.Hook] = true
	}
	lastOp := "upd"
	if c.Kept {
		lastOp = "upd2"
	}
	checkMem := func(model string, m c13bMem, hooks []string) string {
		for _, h := range hooks {
			if c13bHas(c.Prog[h], "set") && fired[model+"/"+m.Name+"/"+h] {
				if got := c13bVal(m.Vals, h); got != h+":"+m.Name {
					return fmt.Sprintf("B3: %s of %s %s called SetColumn(%q, %q) but the record holds %q", h, model, m.Name, "V"+h, h+":"+m.Name, got)
				}
			}
		}
		return ""
	}
	for i, m := range obs.Mem {
		if m.Name != c13bName(i) {
			return fmt.Sprintf("record %d is %q in memory", i, m.Name)
		}
		switch c.Op {
		case "create", "save":
			if v := checkMem("rec", m, c13bSeqs["create"]); v != "" {
				return v
			}
			for _, s := range m.Subs {
				if v := checkMem("sub", s, c13bSeqs["create"]); v != "" {
					return v
				}
			}
		case "delete":
			if v := checkMem("rec", m, c13bSeqs["delete"]); v != "" {
				return v
			}
		case "find":
			if v := checkMem("rec", m, c13bSeqs["find"]); v != "" {
				return v
			}
		case "updates":
			if c.Via == "struct" {
				// after-hooks run behind the statement: nothing overwrites what they set in their record
				if v := checkMem("rec", m, []string{"AfterUpdate", "AfterSave"}); v != "" {
					return v
				}
			}
		}
	}
	// Changed("Tag") in the before-hooks of an update answers for the hook's own record
	if c.Op == "updates" && !c.Kept && !c13bHas(c.Prog["BeforeSave"], "direct") && !c13bHas(c.Prog["BeforeUpdate"], "direct") {
		for _, e := range obs.Events {
			if e.Model == "rec" && e.Chg != "" && strings.HasPrefix(e.Hook, "Before") {
				idx := 0
				fmt.Sscanf(strings.TrimPrefix(e.Name, "e"), "%d", &idx)
				want := fmt.Sprint(c13bMemTag(idx) != "upd")
				if c.Shape == "single" {
					want = fmt.Sprint(c13bMemTag(0) != "upd")
				}
				if e.Chg != want {
					return fmt.Sprintf("B3: Changed(\"Tag\") in %s of %s answered %s, want %s (the record's own Tag vs the update)", e.Hook, e.Name, e.Chg, want)
				}
			}
		}
	}
	// the stored rows
	rows := obs.After["hbrec"]
	switch c.Op {
	case "create", "save":
		if len(rows) != n {
			return fmt.Sprintf("B4: %d rows stored, want %d", len(rows), n)
		}
		judge := func(table, name string) string {
			p := c13bRowOf(obs.After[table], name)
			if p == nil {
				return "B4: no row stored for " + name
			}
			for _, h := range []string{"BeforeSave", "BeforeCreate"} {
				if c13bHas(c.Prog[h], "set") && p[c13bColIdx[h]] != h+":"+name {
					return fmt.Sprintf("B4: %s of %s set %q, stored %q", h, name, h+":"+name, p[c13bColIdx[h]])
				}
			}
			wantTag := "mem"
			for _, h := range []string{"BeforeSave", "BeforeCreate"} {
				if c13bHas(c.Prog[h], "direct") {
					wantTag = "direct:" + h + ":" + name
				}
			}
			if p[1] != wantTag {
				return fmt.Sprintf("B4: tag of %s stored %q, the before-hooks left %q", name, p[1], wantTag)
			}
			hits := 0
			for _, h := range []string{"AfterCreate", "AfterSave"} {
				for _, a := range c.Prog[h] {
					if a == "upd" {
						hits++
					}
				}
			}
			if p[2] != fmt.Sprint(hits) {
				return fmt.Sprintf("B5: %s: %d updates issued by its after-hooks through tx, stored hits %s", name, hits, p[2])
			}
			return ""
		}
		for i := 0; i < n; i++ {
			if v := judge("hbrec", c13bName(i)); v != "" {
				return v
			}
			for k := 0; k < c.Subs; k++ {
				if v := judge("hbsub", fmt.Sprint(c13bName(i), "s", k)); v != "" {
					return v
				}
			}
		}
	case "updates":
		for i := 0; i < c.N; i++ { // every seeded row; with Shape single only row 0 is the Model
			p := c13bRowOf(rows, c13bName(i))
			if p == nil {
				return "B4: row lost: " + c13bName(i)
			}
			if i >= n {
				if p[1] != "old" {
					return "B4: a row outside the Model was updated: " + strings.Join(p, "|")
				}
				continue
			}
			if p[1] != lastOp {
				return fmt.Sprintf("B4: row %s: tag %q, want %q", p[0], p[1], lastOp)
			}
			for _, h := range []string{"BeforeSave", "BeforeUpdate"} {
				if !c13bHas(c.Prog[h], "set") {
					continue
				}
				ok := false
				for j := 0; j < n; j++ {
					if p[c13bColIdx[h]] == h+":"+c13bName(j) {
						ok = true
					}
				}
				if !ok {
					return fmt.Sprintf("B4: row %s: %s set its column in every record, stored %q", p[0], h, p[c13bColIdx[h]])
				}
			}
			hits := 0
			for _, h := range c13bSeqs["updates"] {
				for _, a := range c.Prog[h] {
					if a == "upd" {
						hits++
					}
				}
			}
			if c.Kept {
				hits *= 2
			}
			if p[2] != fmt.Sprint(hits) {
				return fmt.Sprintf("B5: %s: %d updates issued by its hooks through tx, stored hits %s", p[0], hits, p[2])
			}
		}
	case "delete":
		if len(rows) != c.N-n {
			return fmt.Sprintf("B4: %d rows left after deleting %d of %d", len(rows), n, c.N)
		}
	}
	// rows written by nested creates: one per mk, two per mkbatch, each carrying what ITS before-hook set
	want := 0
	for _, e := range obs.Events {
		if e.Model == "audit" {
			continue
		}
		for _, a := range c.Prog[e.Hook] {
			if a == "mk" {
				want++
			} else if a == "mkbatch" {
				want += 2
			}
		}
	}
	if got := len(obs.After["hbaudit"]); got != want {
		return fmt.Sprintf("B5: the hooks created %d records through tx, %d are stored", want, got)
	}
	for _, r := range obs.After["hbaudit"] {
		p := strings.Split(r, "|")
		if p[1] != "audit:"+p[0] {
			return fmt.Sprintf("B4: nested create %q: BeforeCreate set note %q, stored %q", p[0], "audit:"+p[0], p[1])
		}
	}
	return ""
}

// B5
func c13bTx(c c13bCase, obs c13bObs) string {
	if obs.Begins != obs.Commits+obs.Rollback {
		return "B5: transactions not balanced"
	}
	if c.Ctx == "skipdefault" || (c.Op == "find" && c.Ctx != "usertx") {
		return ""
	}
	nops := 1
	if c.Kept && c.Ctx != "usertx" {
		nops = 2
	}
	pools := map[string]bool{}
	for _, e := range obs.Events {
		if !e.IsTx {
			return fmt.Sprintf("B5: %s of %s did not receive a transaction", e.Hook, e.Name)
		}
		pools[fmt.Sprint(e.Op, "/", e.Pool)] = true
	}
	ops := map[int]bool{}
	for k := range pools {
		var op int
		fmt.Sscanf(k, "%d/", &op)
		if ops[op] {
			return "B5: the hooks of one operation saw different transactions"
		}
		ops[op] = true
	}
	for _, w := range obs.Writes {
		if w < 0 {
			return "B5: a write ran outside the operation's transaction"
		}
	}
	if obs.Begins != nops || obs.Commits != nops || obs.Rollback != 0 {
		return fmt.Sprintf("B5: %d begin / %d commit / %d rollback for %d operation(s)", obs.Begins, obs.Commits, obs.Rollback, nops)
	}
	return ""
}

// ---- tie: the walks over the top-level Statement ----------------------------------------------------

// recorded walks: per (call, phase) the (element, CurDestIndex) pairs of the rec-level invocations, one per element
func c13bWalks(c c13bCase, obs c13bObs) [][][2]int {
	type key struct {
		op    int
		after bool
	}
	var order []key
	ws := map[key][][2]int{}
	seen := map[string]bool{}
	for _, e := range obs.Events {
		if e.Model != "rec" || e.Depth != 0 {
			continue
		}
		k := key{e.Op, strings.HasPrefix(e.Hook, "After")}
		if _, ok := ws[k]; !ok {
			order = append(order, k)
			ws[k] = [][2]int{}
		}
		id := fmt.Sprint(k, e.Name)
		if seen[id] {
			continue
		}
		seen[id] = true
		idx := 0
		fmt.Sscanf(strings.TrimPrefix(e.Name, "e"), "%d", &idx)
		ws[k] = append(ws[k], [2]int{idx, e.Cur})
	}
	out := [][][2]int{}
	for _, k := range order {
		out = append(out, ws[k])
	}
	return out
}

// ---- generator -----------------------------------------------------------------------------------

var c13bActs = []string{"set", "set", "direct", "changed", "mk", "mkbatch", "upd", "qry"}
var c13bShapes = []string{"valslice", "ptrslice", "valarray", "ptrarray", "single"}

func c13bAllProg(acts ...string) map[string][]string {
	p := map[string][]string{}
	for _, h := range allHooks {
		p[h] = append([]string{}, acts...)
	}
	return p
}

func c13bCore() []c13bCase {
	var out []c13bCase
	progs := []map[string][]string{c13bAllProg("set"), c13bAllProg("changed", "set"), c13bAllProg("set", "mkbatch"), c13bAllProg("mk", "set", "upd"), c13bAllProg()}
	for _, p := range progs {
		for _, sh := range c13bShapes {
			for n := 1; n <= 3; n++ {
				if sh == "single" && n > 1 {
					continue
				}
				for _, op := range []string{"create", "save", "delete"} {
					out = append(out, c13bCase{Op: op, Shape: sh, N: n, Prog: p})
				}
				for _, via := range []string{"map", "struct", "update"} {
					out = append(out, c13bCase{Op: "updates", Via: via, Shape: sh, N: n, Prog: p})
				}
			}
		}
		for n := 0; n <= 3; n++ {
			out = append(out, c13bCase{Op: "find", Via: "find", Shape: "valslice", N: n, Prog: p},
				c13bCase{Op: "find", Via: "find", Shape: "ptrslice", N: n, Prog: p},
				c13bCase{Op: "find", Via: "first", Shape: "single", N: n + 1, Prog: p})
		}
		out = append(out, c13bCase{Op: "create", Shape: "valslice", N: 2, Subs: 2, Prog: p},
			c13bCase{Op: "create", Shape: "single", N: 1, Subs: 2, Prog: p},
			c13bCase{Op: "save", Shape: "ptrslice", N: 2, Subs: 1, Prog: p},
			c13bCase{Op: "updates", Via: "map", Shape: "ptrslice", N: 2, Kept: true, Prog: p},
			c13bCase{Op: "updates", Via: "struct", Shape: "valslice", N: 3, Kept: true, Prog: p},
			c13bCase{Op: "createmap", Shape: "single", N: 1, Prog: p},
			c13bCase{Op: "createmap", Shape: "valslice", N: 2, Prog: p})
	}
	return out
}

func c13bRandom(rng *rand.Rand, maxN int) c13bCase {
	c := c13bCase{Prog: map[string][]string{}}
	for _, h := range allHooks {
		k := rng.Intn(4)
		if rng.Intn(4) == 0 {
			k = 0
		}
		acts := []string{}
		for i := 0; i < k; i++ {
			acts = append(acts, c13bActs[rng.Intn(len(c13bActs))])
		}
		c.Prog[h] = acts
	}
	c.Op = []string{"create", "create", "save", "updates", "updates", "delete", "find", "createmap"}[rng.Intn(8)]
	c.Shape = c13bShapes[rng.Intn(len(c13bShapes))]
	c.N = 1 + rng.Intn(maxN)
	c.Ctx = []string{"", "", "usertx", "skipdefault", "prepare"}[rng.Intn(5)]
	switch c.Op {
	case "create", "save":
		if rng.Intn(3) == 0 {
			c.Subs = 1 + rng.Intn(2)
		}
	case "updates":
		c.Via = []string{"map", "struct", "update"}[rng.Intn(3)]
		c.Kept = rng.Intn(4) == 0
	case "find":
		c.Via = []string{"find", "find", "first"}[rng.Intn(3)]
		if c.Via == "first" {
			c.Shape = "single"
		} else if c.Shape != "ptrslice" {
			c.Shape = "valslice"
		}
	case "createmap":
		if c.Shape != "single" {
			c.Shape = "valslice"
		}
	}
	if c.Shape == "single" && c.Op != "find" && c.Op != "updates" && c.Op != "delete" {
		c.N = 1
	}
	// fault
	if c.Op != "createmap" && !c.Kept && rng.Intn(5) < 2 {
		seq := c13bSeqs[c.Op]
		c.FailHook = seq[rng.Intn(len(seq))]
		c.FailName = c13bName(rng.Intn(c13bNRec(c)))
		if c.Subs > 0 && rng.Intn(3) == 0 {
			c.FailHook = c13bSeqs["create"][rng.Intn(4)]
			c.FailName = fmt.Sprint(c.FailName, "s", rng.Intn(c.Subs))
		}
		c.FailPos = rng.Intn(len(c.Prog[c.FailHook]) + 2)
		c.FailKind = []string{"err", "err", "err", "panic:err", "panic:str"}[rng.Intn(5)]
	}
	return c
}

func c13bReport(r *Result, c c13bCase, obs c13bObs, v string) {
	r.Violate(Violation{Kind: "e2e", Suite: "bodies", Input: c, Observed: obs, Expected: v})
}

func c13bSuite(r *Result, rng *rand.Rand, tier string) {
	maxN, extra := 4, 700
	if tier == "thorough" {
		maxN, extra = 7, 8000
	} else if tier == "search" {
		maxN, extra = 5, 3000
	}
	cases := c13bCore()
	// every fault position of a few fixed programs
	for _, sh := range []string{"valslice", "ptrslice"} {
		for _, op := range []string{"create", "updates", "delete"} {
			p := c13bAllProg("set", "mk")
			for _, h := range c13bSeqs[op] {
				for i := 0; i < 2; i++ {
					for pos := 0; pos <= 2; pos++ {
						for _, kind := range []string{"err", "panic:err"} {
							for _, ctx := range []string{"", "usertx"} {
								cases = append(cases, c13bCase{Op: op, Via: "map", Shape: sh, N: 2, Ctx: ctx, Prog: p, FailHook: h, FailName: c13bName(i), FailPos: pos, FailKind: kind})
							}
						}
					}
				}
			}
		}
	}
	for i := 0; i < extra; i++ {
		cases = append(cases, c13bRandom(rng, maxN))
	}
	done := map[string]bool{}
	var tieOps [][]interface{}
	var tieReal []string
	var tieCase []c13bCase
	reported := 0
	for _, c := range cases {
		if expired() {
			break
		}
		key := canon(c)
		if done[key] {
			continue
		}
		done[key] = true
		obs := c13bRun(c)
		v := c13bOracle(c, obs)
		r.Case("bodies", key, true)
		r.H("b.op", c.Op+"/"+c.Via)
		r.H("b.shape", c.Shape)
		r.H("b.n", fmt.Sprint(c.N))
		r.H("b.ctx", "ctx:"+c.Ctx)
		r.H("b.fault", "fault:"+c.FailKind)
		if c.Kept {
			r.H("b.kept", "kept-handle")
		}
		for _, e := range obs.Events {
			if e.Model != "audit" {
				for _, a := range c.Prog[e.Hook] {
					r.H("b.act", a+"@"+e.Hook)
				}
			}
		}
		if len(done)%97 == 0 {
			r.Sample(map[string]interface{}{"input": c, "events": len(obs.Events), "err": obs.Err, "panic": obs.Panic})
		}
		if v != "" {
			if os.Getenv("C13B_DEBUG") != "" {
				fmt.Fprintln(os.Stderr, "C13B", v, canon(c))
			}
			if reported < 6 {
				c13bReport(r, c, obs, v)
			}
			reported++
			continue
		}
		// tie: failure-free batch operations
		if c.FailKind == "" && c.Shape != "single" && c.Op != "createmap" && obs.Panic == "" {
			ws := c13bWalks(c, obs)
			if len(ws) > 0 {
				slices := make([][]bool, len(ws))
				for i := range ws {
					slices[i] = make([]bool, len(obs.Mem))
					for j := range slices[i] {
						slices[i][j] = true
					}
				}
				tieOps = append(tieOps, []interface{}{"hooks.walks", slices, 0})
				tieReal = append(tieReal, canon(ws))
				tieCase = append(tieCase, c)
			}
		}
	}
	if reported > 6 {
		r.Note("bodies: %d further violating cases not reported individually", reported-6)
	}
	outs, err := AskLean(tieOps)
	if err != nil {
		r.Violate(Violation{Kind: "correspondence", Suite: "bodies", Note: err.Error()})
		return
	}
	bad := 0
	for i, o := range outs {
		r.CorrCompared++
		var ans struct {
			Walks json.RawMessage `json:"walks"`
		}
		_ = json.Unmarshal(o, &ans)
		r.H("b.tie", fmt.Sprint("walks:", strings.Count(tieReal[i], "[[")))
		if canonRaw(ans.Walks) != tieReal[i] {
			if bad < 3 {
				r.Violate(Violation{Kind: "correspondence", Suite: "bodies", Input: tieCase[i], Observed: tieReal[i], Expected: canonRaw(ans.Walks),
					Note: "recorded (element, CurDestIndex) pairs of the walks over the operation's Statement vs Gorm.walks genWalkCfg"})
			}
			bad++
		}
	}
}

func init() {
	replayers["C13/bodies"] = func(r *Result, input json.RawMessage) {
		var c c13bCase
		if json.Unmarshal(input, &c) != nil {
			return
		}
		obs := c13bRun(c)
		r.Case("bodies", canon(c), true)
		if v := c13bOracle(c, obs); v != "" {
			c13bReport(r, c, obs, v)
		}
	}
}
