package main

import (
	"encoding/json"
	"errors"
	"fmt"
	"math/rand"
	"reflect"
	"strings"
	"sync"

	"gorm.io/gorm"
)

// C13: hooks run once per record, in documented order, in the operation's transaction.

type hookEv struct {
	Hook string
	Rec  string // record identity (Name)
	Pool string // identity of tx.Statement.ConnPool
	IsTx bool
}

var (
	hookMu       sync.Mutex
	hookLog      []hookEv
	hookFailAt   string            // "<Hook>/<Name>" that returns an error ("" = none)
	hookFailErr  string            // which error VALUE it returns (c13_errvals.go; "" = errHook)
	hookFailMore map[string]string // further failing invocations: "<Hook>/<Name>" -> error kind
	hookReturned []error           // the error objects the failing hooks returned
)

var errHook = errors.New("verif: hook failed")

func logHook(hook string, name string, tx *gorm.DB) error {
	hookMu.Lock()
	defer hookMu.Unlock()
	_, isTx := tx.Statement.ConnPool.(gorm.TxCommitter)
	hookLog = append(hookLog, hookEv{hook, name, fmt.Sprintf("%p", tx.Statement.ConnPool), isTx})
	kind, fail := hookFailErr, hookFailAt == hook+"/"+name
	if k2, ok := hookFailMore[hook+"/"+name]; ok && !fail {
		kind, fail = k2, true
	}
	if fail {
		hookMu.Unlock()
		err := c13MakeErr(kind, tx, hook) // may issue statements through tx
		hookMu.Lock()
		hookReturned = append(hookReturned, err)
		return err
	}
	return nil
}

// HItem implements all nine hooks (pointer receivers).
type HItem struct {
	ID   uint `gorm:"primaryKey"`
	Name string
	Tag  string
	Note string
}

func (h *HItem) BeforeSave(tx *gorm.DB) error { return logHook("BeforeSave", h.Name, tx) }
func (h *HItem) BeforeCreate(tx *gorm.DB) error {
	h.Tag = "direct:" + h.Name // direct assignment in a before-hook must be what is stored
	tx.Statement.SetColumn("Note", "setcolumn:"+h.Name)
	return logHook("BeforeCreate", h.Name, tx)
}
func (h *HItem) AfterCreate(tx *gorm.DB) error { return logHook("AfterCreate", h.Name, tx) }
func (h *HItem) AfterSave(tx *gorm.DB) error   { return logHook("AfterSave", h.Name, tx) }
func (h *HItem) BeforeUpdate(tx *gorm.DB) error {
	tx.Statement.SetColumn("Note", "updhook:"+h.Name)
	return logHook("BeforeUpdate", h.Name, tx)
}
func (h *HItem) AfterUpdate(tx *gorm.DB) error  { return logHook("AfterUpdate", h.Name, tx) }
func (h *HItem) BeforeDelete(tx *gorm.DB) error { return logHook("BeforeDelete", h.Name, tx) }
func (h *HItem) AfterDelete(tx *gorm.DB) error  { return logHook("AfterDelete", h.Name, tx) }
func (h *HItem) AfterFind(tx *gorm.DB) error    { return logHook("AfterFind", h.Name, tx) }

var allHooks = []string{"BeforeSave", "BeforeCreate", "AfterCreate", "AfterSave", "BeforeUpdate", "AfterUpdate", "BeforeDelete", "AfterDelete", "AfterFind"}

type c13Case struct {
	Op     string `json:"op"`    // create query update delete
	Shape  string `json:"shape"` // ptrslice valslice single
	N      int    `json:"n"`
	FailAt string `json:"fail_at,omitempty"`
	Skip   string `json:"skip,omitempty"` // "", "session", "updatecolumn"
	// error VALUE the failing hook returns (c13ErrKinds; "" = a plain errors.New value); a second failing invocation
	FailErr  string `json:"fail_err,omitempty"`
	FailAt2  string `json:"fail_at2,omitempty"`
	FailErr2 string `json:"fail_err2,omitempty"`
}

type c13Obs struct {
	Events [][]interface{} `json:"events"`
	Err    string          `json:"err"`
	Pools  int             `json:"distinct_pools"`
	AllTx  bool            `json:"all_in_tx"`
	Stored []string        `json:"stored"`
	// the returned error errors.Is-matches (or textually contains) every error a failing hook returned
	ErrReturned bool     `json:"err_returned"`
	TxEnds      []string `json:"tx_ends,omitempty"` // commit / rollback events at the driver
	resErr      error
}

func c13Open() (*gorm.DB, *Recorder) {
	db, rec, _ := OpenRec(nil)
	if err := db.AutoMigrate(&HItem{}); err != nil {
		panic(err)
	}
	c13EnsureAux(db)
	return db, rec
}

func c13Dump(db *gorm.DB, rec *Recorder) []string {
	rec.mu.Lock()
	rec.Off = true
	rec.mu.Unlock()
	defer func() { rec.mu.Lock(); rec.Off = false; rec.mu.Unlock() }()
	rows, err := db.Session(&gorm.Session{NewDB: true, SkipHooks: true}).Raw("SELECT id, name, tag, note FROM h_items ORDER BY id").Rows()
	if err != nil {
		return []string{"ERR " + err.Error()}
	}
	defer rows.Close()
	out := []string{}
	for rows.Next() {
		var id int
		var a, b, c string
		rows.Scan(&id, &a, &b, &c)
		out = append(out, fmt.Sprintf("%d|%s|%s|%s", id, a, b, c))
	}
	return append(out, c13AuxDump(db)...)
}

// c13Run executes one case on a fresh database and returns the observation.
func c13Run(c c13Case) (obs c13Obs, before, after []string, stmtSent bool) {
	db, rec := c13Open()
	defer func() {
		if sqlDB, err := db.DB(); err == nil {
			sqlDB.Close()
		}
	}()
	mk := func(i int) HItem { return HItem{Name: fmt.Sprint("r", i)} }
	// pre-existing rows for update/delete/query
	if c.Op != "create" {
		hookMu.Lock()
		hookFailAt = ""
		hookMu.Unlock()
		for i := 0; i < c.N; i++ {
			it := mk(i)
			db.Session(&gorm.Session{SkipHooks: true}).Create(&it)
		}
	}
	before = c13Dump(db, rec)
	hookMu.Lock()
	hookLog = nil
	hookFailAt, hookFailErr, hookFailMore, hookReturned = c.FailAt, c.FailErr, nil, nil
	if c.FailAt2 != "" {
		hookFailMore = map[string]string{c.FailAt2: c.FailErr2}
	}
	hookMu.Unlock()
	rec.Reset()
	h := db
	if c.Skip == "session" {
		h = db.Session(&gorm.Session{SkipHooks: true})
	}
	var res *gorm.DB
	res = c13Guard(func() *gorm.DB {
		switch c.Op {
		case "create":
			switch c.Shape {
			case "ptrslice":
				items := make([]*HItem, c.N)
				for i := range items {
					it := mk(i)
					items[i] = &it
				}
				res = h.Create(&items)
			case "valslice":
				items := make([]HItem, c.N)
				for i := range items {
					items[i] = mk(i)
				}
				res = h.Create(&items)
			default:
				it := mk(0)
				res = h.Create(&it)
			}
		case "query":
			var items []HItem
			res = h.Order("id").Find(&items)
		case "update":
			// hooks run on the Model value: one record
			it := HItem{ID: 1, Name: "r0"}
			if c.Skip == "updatecolumn" {
				res = h.Model(&it).UpdateColumn("tag", "uc")
			} else {
				res = h.Model(&it).Updates(map[string]interface{}{"tag": "upd"})
			}
		case "delete":
			it := HItem{ID: 1, Name: "r0"}
			res = h.Delete(&it)
		}
		return res
	})
	if res.Error != nil {
		obs.Err = res.Error.Error()
	}
	hookMu.Lock()
	log := append([]hookEv(nil), hookLog...)
	returned := hookReturned
	hookFailAt, hookFailErr, hookFailMore, hookReturned = "", "", nil, nil
	hookMu.Unlock()
	obs.resErr = res.Error
	obs.ErrReturned = res.Error != nil && len(returned) > 0
	for _, e := range returned {
		if !c13ErrCarries(res.Error, e) {
			obs.ErrReturned = false
		}
	}
	for _, e := range rec.Snapshot() {
		if e.Kind == "commit" || e.Kind == "rollback" {
			obs.TxEnds = append(obs.TxEnds, e.Kind)
		}
	}
	pools := map[string]bool{}
	obs.AllTx = true
	// merge hook log with the statement position: statement events come from the recorder; to order them
	// relative to hooks we note how many hook events had fired when the statement was sent
	obs.Events = [][]interface{}{}
	for _, e := range log {
		idx := 0
		fmt.Sscanf(strings.TrimPrefix(e.Rec, "r"), "%d", &idx)
		obs.Events = append(obs.Events, []interface{}{e.Hook, idx})
		pools[e.Pool] = true
		if !e.IsTx {
			obs.AllTx = false
		}
	}
	obs.Pools = len(pools)
	for _, e := range rec.Snapshot() {
		if !isTxEvent(e) && !c13IsAuxSQL(e.SQL) {
			stmtSent = true
		}
	}
	after = c13Dump(db, rec)
	obs.Stored = after
	return
}

// position of the statement relative to hooks: the recorder and the hook log are separate streams, so the
// statement is placed by phase (before-hooks, after-hooks) -- that is all the property speaks about.
func c13WithStmt(evs [][]interface{}, stmtSent bool) [][]interface{} {
	out := [][]interface{}{}
	placed := false
	for _, e := range evs {
		h := e[0].(string)
		if !placed && stmtSent && (strings.HasPrefix(h, "After")) {
			out = append(out, []interface{}{"stmt"})
			placed = true
		}
		out = append(out, e)
	}
	if stmtSent && !placed {
		out = append(out, []interface{}{"stmt"})
	}
	return out
}

var c13Phase = map[string]int{"BeforeSave": 0, "BeforeCreate": 0, "BeforeUpdate": 0, "BeforeDelete": 0,
	"AfterCreate": 2, "AfterUpdate": 2, "AfterDelete": 2, "AfterSave": 2, "AfterFind": 2}

func c13Expected(op string) []string {
	switch op {
	case "create":
		return []string{"BeforeSave", "BeforeCreate", "AfterCreate", "AfterSave"}
	case "update":
		return []string{"BeforeSave", "BeforeUpdate", "AfterUpdate", "AfterSave"}
	case "delete":
		return []string{"BeforeDelete", "AfterDelete"}
	}
	return []string{"AfterFind"}
}

// c13Oracle: the property itself, judged on the real log.
func c13Oracle(c c13Case, obs c13Obs, before, after []string, stmtSent bool) string {
	nrec := c.N
	if c.Op == "update" || c.Op == "delete" || c.Shape == "single" {
		nrec = 1
	}
	if c.Skip != "" {
		if len(obs.Events) != 0 {
			return "hooks fired although SkipHooks / a column-update method was used"
		}
		return ""
	}
	count := map[string]int{}
	for _, e := range obs.Events {
		count[fmt.Sprint(e[0], "/", e[1])]++
	}
	for k, n := range count {
		if n > 1 {
			return "hook fired more than once for one record: " + k
		}
	}
	if c.FailAt == "" {
		if obs.Err != "" {
			return "unexpected error: " + obs.Err
		}
		for _, h := range c13Expected(c.Op) {
			for i := 0; i < nrec; i++ {
				if count[fmt.Sprint(h, "/", i)] != 1 {
					return fmt.Sprintf("hook %s did not fire exactly once for record %d", h, i)
				}
			}
		}
		// per record: documented order
		for i := 0; i < nrec; i++ {
			var seq []string
			for _, e := range obs.Events {
				if e[1].(int) == i {
					seq = append(seq, e[0].(string))
				}
			}
			if !reflect.DeepEqual(seq, c13Expected(c.Op)) {
				return fmt.Sprintf("record %d saw hooks %v, documented order %v", i, seq, c13Expected(c.Op))
			}
		}
		// all before-hooks precede all after-hooks (the statement lies between them)
		seenAfter := false
		for _, e := range obs.Events {
			if c13Phase[e[0].(string)] == 2 {
				seenAfter = true
			} else if seenAfter {
				return "a before-hook fired after an after-hook (statement not between them)"
			}
		}
		if c.Op != "query" && (obs.Pools != 1 || !obs.AllTx) {
			return fmt.Sprintf("hooks did not all run on the operation's transaction (pools=%d, allTx=%v)", obs.Pools, obs.AllTx)
		}
		// values set by before-hooks are the values stored
		if c.Op == "create" {
			for _, row := range after {
				if strings.HasPrefix(row, "aux:") {
					continue
				}
				p := strings.Split(row, "|")
				if p[2] != "direct:"+p[1] || p[3] != "setcolumn:"+p[1] {
					return "value set in BeforeCreate is not the value stored: " + row
				}
			}
		}
		if c.Op == "update" && len(after) > 0 {
			p := strings.Split(after[0], "|")
			if p[3] != "updhook:r0" || p[2] != "upd" {
				return "value set through SetColumn in BeforeUpdate is not the value stored: " + after[0]
			}
		}
		return ""
	}
	// failure injected at FailAt = hook/name
	if obs.Err == "" || !obs.ErrReturned {
		return "hook error not returned: " + obs.Err
	}
	fh := strings.Split(c.FailAt, "/")[0]
	for _, e := range obs.Events {
		if c13Phase[e[0].(string)] > c13Phase[fh] {
			return fmt.Sprintf("hook %v of a later phase ran after %s failed", e, c.FailAt)
		}
	}
	if c13Phase[fh] == 0 && stmtSent {
		return "statement was sent although a before-hook failed"
	}
	if c.Op != "query" && !reflect.DeepEqual(before, after) {
		return "database changed although a hook failed"
	}
	return ""
}

func init() {
	register("C13", func(r *Result, rng *rand.Rand, tier string) {
		maxN := 4
		if tier == "thorough" {
			maxN = 12
		} else if tier == "search" {
			maxN = 8
		}
		var cases []c13Case
		for n := 0; n <= maxN; n++ {
			for _, sh := range []string{"ptrslice", "valslice"} {
				if n >= 1 {
					cases = append(cases, c13Case{Op: "create", Shape: sh, N: n})
					for i := 0; i < n; i++ {
						for _, h := range c13Expected("create") {
							cases = append(cases, c13Case{Op: "create", Shape: sh, N: n, FailAt: fmt.Sprint(h, "/r", i)})
						}
					}
					cases = append(cases, c13Case{Op: "create", Shape: sh, N: n, Skip: "session"})
				}
			}
			cases = append(cases, c13Case{Op: "query", Shape: "ptrslice", N: n})
			for i := 0; i < n; i++ {
				cases = append(cases, c13Case{Op: "query", Shape: "ptrslice", N: n, FailAt: fmt.Sprint("AfterFind/r", i)})
			}
			cases = append(cases, c13Case{Op: "query", Shape: "ptrslice", N: n, Skip: "session"})
		}
		cases = append(cases, c13Case{Op: "create", Shape: "single", N: 1})
		for _, op := range []string{"update", "delete"} {
			cases = append(cases, c13Case{Op: op, Shape: "single", N: 2})
			for _, h := range c13Expected(op) {
				cases = append(cases, c13Case{Op: op, Shape: "single", N: 2, FailAt: h + "/r0"})
			}
			cases = append(cases, c13Case{Op: op, Shape: "single", N: 2, Skip: "session"})
		}
		cases = append(cases, c13Case{Op: "update", Shape: "single", N: 2, Skip: "updatecolumn"})
		r.Exhaustive = true
		// model predictions for the failure-free, hook-running cases
		var ops [][]interface{}
		var idx []int
		for i, c := range cases {
			if c.FailAt == "" && c.Skip == "" {
				n := c.N
				if c.Op == "update" || c.Op == "delete" || c.Shape == "single" {
					n = 1
				}
				ops = append(ops, []interface{}{"hooks.events", c.Op, allHooks, n})
				idx = append(idx, i)
			}
		}
		outs, err := AskLean(ops)
		if err != nil {
			r.Violate(Violation{Kind: "correspondence", Suite: "hooks", Note: err.Error()})
			return
		}
		pred := map[int]json.RawMessage{}
		for j, i := range idx {
			pred[i] = outs[j]
		}
		for i, c := range cases {
			if expired() {
				break
			}
			obs, before, after, stmtSent := c13Run(c)
			r.Case("hooks", canon(c), c.N >= 2 || c.FailAt != "")
			r.H("op", c.Op)
			r.H("n", fmt.Sprint(c.N))
			kind := "plain"
			if c.FailAt != "" {
				kind = "failing-hook"
			} else if c.Skip != "" {
				kind = "skip"
			}
			r.H("kind", kind)
			if i%29 == 0 {
				r.Sample(map[string]interface{}{"input": c, "observed": obs})
			}
			if p, ok := pred[i]; ok {
				r.CorrCompared++
				real := canon(c13WithStmt(obs.Events, stmtSent))
				// query with 0 rows: AfterQuery is guarded by RowsAffected > 0 (an uninterpreted condition in the model)
				if !(c.Op == "query" && c.N == 0) && real != canonRaw(p) {
					r.Violate(Violation{Kind: "correspondence", Suite: "hooks", Input: c, Observed: real, Expected: canonRaw(p),
						Note: "real hook log vs Lean Gorm.opEvents over Gen.pipelines/Gen.handlers"})
				}
			}
			if v := c13Oracle(c, obs, before, after, stmtSent); v != "" {
				r.Violate(Violation{Kind: "e2e", Suite: "hooks", Input: c, Observed: obs, Expected: v})
			}
		}
		// error VALUES returned by hooks (c13_errvals.go), hook detection by method set (c13_subsets.go)
		c13ErrvalSuite(r, rng, tier)
		c13sSuite(r, rng, tier)
		// compound finishers, associations, contexts, transaction identity (c13_world.go, c13_compound.go)
		r.Exhaustive = false
		c13xSuite(r, rng, tier)
		// association GRAPHS with shared in-memory records, visit map (c13_graphs.go)
		c13gSuite(r, rng, tier)
		// what the hook BODIES do: SetColumn / Changed / re-entrant operations / faults at every position (c13_bodies.go)
		c13bSuite(r, rng, tier)
		// custom JOIN MODELS (SetupJoinTable) as affected records of many2many saves (c13_r6.go)
		c13r6Suite(r, rng, tier)
	})
	replayers["C13/hooks"] = func(r *Result, input json.RawMessage) {
		var c c13Case
		if json.Unmarshal(input, &c) != nil {
			return
		}
		obs, before, after, stmtSent := c13Run(c)
		r.Case("hooks", canon(c), true)
		if v := c13Oracle(c, obs, before, after, stmtSent); v != "" {
			r.Violate(Violation{Kind: "e2e", Suite: "hooks", Input: c, Observed: obs, Expected: v})
		}
	}
}
