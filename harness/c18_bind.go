package main

// C18 end-to-end oracle with the CONTEXT BINDING as a generated dimension.
//
// A case = configuration (PrepareStmt / SkipDefaultTransaction of gorm.Config) + a binding program
// (WithContext, Session{…} with every flag subset with/without Context, harmless chain methods, in
// any order; re-binding; inheriting sessions) + transaction layers (Transaction blocks / explicit
// Begin, each with its own binding program applied to the tx handle) + one operation family.
// While it runs we keep "segments": from which recorded event on which context is the one the
// property demands.  Judged per context-carrying driver call (BeginTx / PrepareContext /
// ExecContext / QueryContext, also on prepared statements):
//   live       the received context IS the demanded one: same value marker, and -- unless it is
//              the identical object -- a deadline not later than the caller's and Done()/Err()
//              that follow the caller's cancellation (checked by cancelling afterwards);
//   cancelled  every context of the case is cancelled before the handle is built: no such call at all;
//   cancel@k   the contexts are cancelled when the k-th such call arrives: no later call.
// Latitude: calls whose demanded context is "none bound" (outer layers before the first binding)
// are only checked for not carrying one of the case's markers wrongly; commit / rollback /
// stmt.Close carry no context in database/sql.

import (
	"context"
	"encoding/json"
	"fmt"
	"math/rand"
	"reflect"
	"runtime/debug"
	"sort"
	"strings"
	"time"

	"gorm.io/gorm"
	"gorm.io/gorm/logger"
)

var c18FlagNames = []string{"DryRun", "PrepareStmt", "NewDB", "Initialized", "SkipHooks", "SkipDefaultTransaction",
	"DisableNestedTransaction", "AllowGlobalUpdate", "FullSaveAssociations", "PropagateUnscoped", "QueryFields",
	"Logger", "NowFunc", "CreateBatchSize"}

type c18Bind struct {
	Kind  string   `json:"kind"`            // with | sess | chain
	Flags []string `json:"flags,omitempty"` // sess: flags set (besides Context)
	Ctx   int      `json:"ctx"`             // with / sess: index of the context bound, -1 = no Context field
	Chain string   `json:"chain,omitempty"`
}

func (b c18Bind) String() string {
	switch b.Kind {
	case "with":
		return fmt.Sprintf("WithContext(c%d)", b.Ctx)
	case "sess":
		fs := append([]string(nil), b.Flags...)
		if b.Ctx >= 0 {
			fs = append(fs, fmt.Sprintf("Context:c%d", b.Ctx))
		}
		return "Session{" + strings.Join(fs, ",") + "}"
	}
	return b.Chain
}

type c18Layer struct {
	Kind  string    `json:"kind"` // block | begin
	Binds []c18Bind `json:"binds"`
}

type c18Case struct {
	Op        string     `json:"op"`
	Prepare   bool       `json:"prepareStmt"`
	SkipDefTx bool       `json:"skipDefaultTransaction"`
	Binds     []c18Bind  `json:"binds"`
	Layers    []c18Layer `json:"layers"`
	Probe     bool       `json:"probeSiblings"`
	Mode      string     `json:"mode"` // live | cancelled | cancel-at
	K         int        `json:"k"`
	DataSeed  int64      `json:"dataSeed"`
	NCtx      int        `json:"nCtx"`
}

func (c c18Case) describe() string {
	var parts []string
	for _, b := range c.Binds {
		parts = append(parts, b.String())
	}
	for _, l := range c.Layers {
		s := l.Kind + "{"
		for _, b := range l.Binds {
			s += b.String() + "."
		}
		parts = append(parts, s+"}")
	}
	return strings.Join(parts, ".") + "." + c.Op
}

func c18Clone(db *gorm.DB) int {
	return int(reflect.ValueOf(db).Elem().FieldByName("clone").Int())
}

func c18Session(b c18Bind, ctxs []context.Context) *gorm.Session {
	s := &gorm.Session{}
	for _, f := range b.Flags {
		switch f {
		case "DryRun":
			s.DryRun = true
		case "PrepareStmt":
			s.PrepareStmt = true
		case "NewDB":
			s.NewDB = true
		case "Initialized":
			s.Initialized = true
		case "SkipHooks":
			s.SkipHooks = true
		case "SkipDefaultTransaction":
			s.SkipDefaultTransaction = true
		case "DisableNestedTransaction":
			s.DisableNestedTransaction = true
		case "AllowGlobalUpdate":
			s.AllowGlobalUpdate = true
		case "FullSaveAssociations":
			s.FullSaveAssociations = true
		case "PropagateUnscoped":
			s.PropagateUnscoped = true
		case "QueryFields":
			s.QueryFields = true
		case "Logger":
			s.Logger = logger.Discard
		case "NowFunc":
			s.NowFunc = fixedNowFunc
		case "CreateBatchSize":
			s.CreateBatchSize = 2
		}
	}
	if b.Ctx >= 0 {
		s.Context = ctxs[b.Ctx]
	}
	return s
}

func c18Chain(db *gorm.DB, name string) *gorm.DB {
	switch name {
	case "Model":
		return db.Model(&RUser{})
	case "Where":
		return db.Where("1 = 1")
	case "Preload":
		return db.Preload("Company")
	case "Order":
		return db.Order("id")
	case "Limit":
		return db.Limit(1000)
	case "Unscoped":
		return db.Unscoped()
	case "Scopes":
		return db.Scopes(func(d *gorm.DB) *gorm.DB { return d })
	case "Omit":
		return db.Omit("no_such_column")
	}
	return db
}

var c18ChainNames = []string{"Model", "Where", "Preload", "Order", "Limit", "Unscoped", "Scopes", "Omit"}

// ---- generation --------------------------------------------------------------------------------

func c18GenFlags(rng *rand.Rand) []string {
	var fs []string
	switch rng.Intn(4) {
	case 0: // none
	case 1: // exactly one
		fs = []string{c18FlagNames[rng.Intn(len(c18FlagNames))]}
	case 2: // sparse subset
		for _, f := range c18FlagNames {
			if rng.Intn(5) == 0 {
				fs = append(fs, f)
			}
		}
	default: // dense subset
		for _, f := range c18FlagNames {
			if rng.Intn(2) == 0 {
				fs = append(fs, f)
			}
		}
	}
	// DryRun sends nothing to the driver: keep it rare so that most cases observe calls
	if rng.Intn(4) != 0 {
		out := fs[:0]
		for _, f := range fs {
			if f != "DryRun" {
				out = append(out, f)
			}
		}
		fs = out
	}
	return fs
}

// c18GenBinds: a binding program; when mustBind it binds a context at least once.
func c18GenBinds(rng *rand.Rand, nextCtx *int, mustBind bool, maxLen int) []c18Bind {
	n := rng.Intn(maxLen + 1)
	if mustBind && n == 0 {
		n = 1
	}
	var out []c18Bind
	bound := false
	for i := 0; i < n; i++ {
		switch k := rng.Intn(10); {
		case k < 2:
			out = append(out, c18Bind{Kind: "with", Ctx: *nextCtx})
			*nextCtx++
			bound = true
		case k < 5:
			out = append(out, c18Bind{Kind: "sess", Flags: c18GenFlags(rng), Ctx: *nextCtx})
			*nextCtx++
			bound = true
		case k < 7:
			out = append(out, c18Bind{Kind: "sess", Flags: c18GenFlags(rng), Ctx: -1})
		default:
			out = append(out, c18Bind{Kind: "chain", Ctx: -1, Chain: c18ChainNames[rng.Intn(len(c18ChainNames))]})
		}
	}
	if mustBind && !bound {
		b := c18Bind{Kind: "sess", Flags: c18GenFlags(rng), Ctx: *nextCtx}
		if rng.Intn(3) == 0 {
			b = c18Bind{Kind: "with", Ctx: *nextCtx}
		}
		*nextCtx++
		// at a random position
		p := rng.Intn(len(out) + 1)
		out = append(out[:p], append([]c18Bind{b}, out[p:]...)...)
	}
	return out
}

func c18GenCase(rng *rand.Rand, op c18Op) c18Case {
	c := c18Case{Op: op.Name, Prepare: rng.Intn(3) == 0, SkipDefTx: rng.Intn(2) == 0, DataSeed: rng.Int63(), Mode: "live"}
	next := 0
	depth := []int{0, 0, 0, 1, 1, 2, 3}[rng.Intn(7)]
	// where the first binding happens: mostly on the outermost handle, sometimes only inside a layer
	bindOuter := depth == 0 || rng.Intn(4) != 0
	c.Binds = c18GenBinds(rng, &next, bindOuter, 3)
	for i := 0; i < depth; i++ {
		l := c18Layer{Kind: "block"}
		if i == 0 && rng.Intn(3) == 0 {
			l.Kind = "begin" // an explicit Begin is only possible on a handle that is not yet in a transaction
		}
		must := !bindOuter && i == 0
		if must || rng.Intn(3) == 0 {
			l.Binds = c18GenBinds(rng, &next, must, 2)
		}
		c.Layers = append(c.Layers, l)
	}
	c.Probe = rng.Intn(3) == 0
	c.NCtx = next
	return c
}

// the single-flag x Context sweep: every flag alone (and NewDB + every flag) combined with Context
func c18SweepCases(rng *rand.Rand, op c18Op) []c18Case {
	var out []c18Case
	for _, f := range append([]string{""}, c18FlagNames...) {
		for _, withNew := range []bool{false, true} {
			var fs []string
			if f != "" {
				fs = append(fs, f)
			}
			if withNew && f != "NewDB" {
				fs = append(fs, "NewDB")
			}
			if f == "DryRun" {
				continue
			}
			c := c18Case{Op: op.Name, Prepare: rng.Intn(4) == 0, SkipDefTx: rng.Intn(2) == 0, DataSeed: rng.Int63(), Mode: "live",
				Binds: []c18Bind{{Kind: "sess", Flags: fs, Ctx: 0}}, NCtx: 1}
			out = append(out, c)
		}
	}
	return out
}

// ---- execution ---------------------------------------------------------------------------------

type c18Seg struct {
	start int // index of the first recorded event of the segment
	ctx   int // demanded context, -1 = none bound
}

type c18Run struct {
	c       c18Case
	db      *gorm.DB
	rec     *c18Recorder
	ctxs    []context.Context
	cancels []context.CancelFunc
	segs    []c18Seg
	probes  []c18ProbeH
	opErr   error
	notes   []string
}

type c18ProbeH struct {
	h   *gorm.DB
	ctx int
}

func (r *c18Run) seg(ctx int) {
	r.segs = append(r.segs, c18Seg{start: r.rec.length(), ctx: ctx})
}

// apply a binding program to h (bound to context index cur)
func (r *c18Run) apply(h *gorm.DB, binds []c18Bind, cur int) (*gorm.DB, int) {
	for _, b := range binds {
		if c18Clone(h) > 0 {
			r.probes = append(r.probes, c18ProbeH{h, cur})
		}
		switch b.Kind {
		case "with":
			h = h.WithContext(r.ctxs[b.Ctx])
			cur = b.Ctx
		case "sess":
			h = h.Session(c18Session(b, r.ctxs))
			if b.Ctx >= 0 {
				cur = b.Ctx
			}
		case "chain":
			h = c18Chain(h, b.Chain)
		}
	}
	return h, cur
}

// c18NilCtxPanic: a nil-pointer panic raised INSIDE database/sql while gorm calls it = gorm handed
// database/sql a nil context (ctx.Done() on a nil interface); anything else is an ordinary failure
// of the operation (e.g. a polluted re-used handle) and is not judged.
type c18NilCtxPanic struct{ where string }

func (e c18NilCtxPanic) Error() string {
	return "gorm passed a nil context to database/sql (nil-pointer panic inside " + e.where + ")"
}

func c18Safely(f func() error) (err error) {
	defer func() {
		if p := recover(); p != nil {
			err = fmt.Errorf("panic: %v", p)
			st := string(debug.Stack())
			if strings.Contains(fmt.Sprint(p), "nil pointer") {
				// the frame right below the runtime's panic frames
				lines := strings.Split(st, "\n")
				for i, l := range lines {
					if strings.HasPrefix(l, "panic(") && i+2 < len(lines) {
						// only the places where database/sql first touches the context it was given
						// (ctx.Done() on a nil interface); e.g. (*Row).Scan on a nil row is not one of them
						fn := strings.SplitN(lines[i+2], "(0x", 2)[0]
						fn = strings.SplitN(fn, "({", 2)[0]
						switch fn {
						case "database/sql.(*DB).conn": // (*Tx).grabConn is left out: a typed-nil *sql.Tx after a failed Begin panics there too
							err = c18NilCtxPanic{where: fn}
						}
						break
					}
				}
			}
		}
	}()
	return f()
}

func (r *c18Run) layers(h *gorm.DB, cur int, ls []c18Layer, op c18Op, rng *rand.Rand) error {
	if len(ls) == 0 {
		if op.Multi && c18Clone(h) == 0 {
			// a handle that ends in a chain method / Initialized session accumulates state when it is
			// re-used; operations with several finishers go through an inheriting session
			h = h.Session(&gorm.Session{})
		}
		r.seg(cur)
		return c18Safely(func() error { return op.Run(h, rng) })
	}
	l := ls[0]
	r.seg(cur)
	if l.Kind == "block" {
		return c18Safely(func() error {
			return h.Transaction(func(tx *gorm.DB) error {
				tx2, cur2 := r.apply(tx, l.Binds, cur)
				err := r.layers(tx2, cur2, ls[1:], op, rng)
				r.seg(cur) // ROLLBACK TO / COMMIT of this level belong to the handle Transaction was called on
				return err
			})
		})
	}
	tx := h.Begin()
	if tx.Error != nil {
		return tx.Error
	}
	tx2, cur2 := r.apply(tx, l.Binds, cur)
	err := r.layers(tx2, cur2, ls[1:], op, rng)
	r.seg(cur)
	if err != nil {
		tx.Rollback()
		return err
	}
	return tx.Commit().Error
}

func c18IsStmtKind(k string) bool {
	switch k {
	case "begin", "prepare", "exec", "query", "stmt_exec", "stmt_query":
		return true
	}
	return false
}

func c18SameObject(a, b context.Context) (same bool) {
	defer func() {
		if recover() != nil {
			same = false
		}
	}()
	return a == b
}

// c18Execute runs one case on a fresh world and returns the violation text ("" = property holds).
func c18Execute(c c18Case, res *Result) (viol string, nCtxEvents int, opErr error) {
	op, ok := c18OpByName[c.Op]
	if !ok {
		return "", 0, fmt.Errorf("unknown op %s", c.Op)
	}
	rng := rand.New(rand.NewSource(c.DataSeed))
	var db *gorm.DB
	var rec *c18Recorder
	closeFn := func() {}
	if err := c18Safely(func() error {
		db, rec, closeFn = c18OpenWorld(&gorm.Config{PrepareStmt: c.Prepare, SkipDefaultTransaction: c.SkipDefTx}, rng)
		return nil
	}); err != nil {
		if np, ok := err.(c18NilCtxPanic); ok {
			return "while seeding the world from the root handle (context.Background): " + np.Error(), 0, err
		}
		panic(err)
	}
	defer closeFn()
	r := &c18Run{c: c, db: db, rec: rec}
	for i := 0; i < c.NCtx; i++ {
		base := WithMarker(context.Background(), fmt.Sprint("c", i))
		var ctx context.Context
		var cancel context.CancelFunc
		if i%3 == 2 {
			ctx, cancel = context.WithDeadline(base, time.Now().Add(time.Hour+time.Duration(i)*time.Minute))
		} else {
			ctx, cancel = context.WithCancel(base)
		}
		r.ctxs = append(r.ctxs, ctx)
		r.cancels = append(r.cancels, cancel)
	}
	cancelAll := func() {
		for _, cf := range r.cancels {
			cf()
		}
	}
	defer cancelAll()
	stopAt := -1 // index (in events) after which no statement may arrive
	switch c.Mode {
	case "cancelled":
		cancelAll()
		stopAt = 0
	case "cancel-at":
		rec.onCtxEvent = func(n int, ev c18Event) {
			if n == c.K+1 {
				cancelAll()
			}
		}
	}
	h, cur := r.apply(db, c.Binds, -1)
	r.opErr = r.layers(h, cur, c.Layers, op, rng)
	if c.Probe && c.Mode == "live" {
		// sibling isolation: handles the program went through still run with the context THEY were bound to
		for i, p := range r.probes {
			if i > 3 {
				break
			}
			r.seg(p.ctx)
			var n int64
			_ = c18Safely(func() error { return p.h.Session(&gorm.Session{NewDB: true}).Model(&RCompany{}).Count(&n).Error })
		}
	}
	if np, ok := r.opErr.(c18NilCtxPanic); ok && c.Mode == "live" {
		return np.Error(), 0, r.opErr
	}
	evs := rec.snapshot()
	segOf := func(i int) c18Seg {
		s := c18Seg{ctx: -1}
		for _, sg := range r.segs {
			if sg.start <= i {
				s = sg
			}
		}
		return s
	}
	want := func(i int) (context.Context, int) {
		s := segOf(i)
		if s.ctx < 0 {
			return nil, -1
		}
		return r.ctxs[s.ctx], s.ctx
	}
	type derived struct {
		i    int
		got  context.Context
		want int
	}
	var ders []derived
	seenCtx := 0
	for i, e := range evs {
		if !e.hasCtx() {
			continue
		}
		seenCtx++
		w, wi := want(i)
		gotM := CtxMarker(e.Ctx)
		if w == nil {
			if gotM != "" && c.Mode == "live" {
				return fmt.Sprintf("%s #%d %q carried context %q although no context was bound to the handle it was issued from", e.Kind, i, trunc(e.SQL, 80), gotM), seenCtx, r.opErr
			}
			continue
		}
		wantM := fmt.Sprint("c", wi)
		switch c.Mode {
		case "live":
			if gotM != wantM {
				return fmt.Sprintf("%s #%d %q carried context %q, the handle was bound to %q", e.Kind, i, trunc(e.SQL, 80), gotM, wantM), seenCtx, r.opErr
			}
			if !c18SameObject(e.Ctx, w) {
				if wd, ok := w.Deadline(); ok {
					gd, gok := e.Ctx.Deadline()
					if !gok || gd.After(wd) {
						return fmt.Sprintf("%s #%d %q received a context without the caller's deadline (got %v,%v want <= %v)", e.Kind, i, trunc(e.SQL, 80), gd, gok, wd), seenCtx, r.opErr
					}
				}
				ders = append(ders, derived{i, e.Ctx, wi})
			}
		case "cancelled":
			if c18IsStmtKind(e.Kind) && !op.NoStop {
				return fmt.Sprintf("%s #%d %q reached the driver although the context bound to the handle was already cancelled", e.Kind, i, trunc(e.SQL, 80)), seenCtx, r.opErr
			}
		case "cancel-at":
			if seenCtx > c.K+1 && c18IsStmtKind(e.Kind) && !op.NoStop {
				return fmt.Sprintf("%s #%d %q reached the driver after the caller's context had been cancelled (at context-carrying call %d)", e.Kind, i, trunc(e.SQL, 80), c.K), seenCtx, r.opErr
			}
		}
	}
	_ = stopAt
	if len(ders) > 0 {
		// contexts that are not the caller's object must at least follow its cancellation
		cancelAll()
		deadline := time.Now().Add(30 * time.Millisecond)
		for _, d := range ders {
			for d.got.Err() == nil && time.Now().Before(deadline) {
				time.Sleep(time.Millisecond)
			}
			if d.got.Err() == nil {
				e := evs[d.i]
				return fmt.Sprintf("%s #%d %q received a context that carries the caller's values but is not cancelled when the caller's context c%d is (Done/Err not linked)", e.Kind, d.i, trunc(e.SQL, 80), d.want), seenCtx, r.opErr
			}
		}
	}
	return "", seenCtx, r.opErr
}

var c18OpByName = map[string]c18Op{}

func init() {
	for _, o := range c18Ops() {
		c18OpByName[o.Name] = o
	}
	replayers["C18/bind"] = func(r *Result, input json.RawMessage) {
		var c c18Case
		if err := json.Unmarshal(input, &c); err != nil {
			r.Note("bad replay input: %v", err)
			return
		}
		if v, _, _ := c18Execute(c, r); v != "" {
			r.Violate(Violation{Kind: "e2e", Suite: "bind", Input: c, Observed: v, Expected: c18Expected(c.Mode)})
		}
	}
}

func init() {
	// the fixed-binding suite "ctx" (c18.go) stores {op, prepareStmt, txDepth, via}: replay it as the equivalent bind case
	replayers["C18/ctx"] = func(r *Result, input json.RawMessage) {
		var in struct {
			Op      string `json:"op"`
			Prepare bool   `json:"prepareStmt"`
			Depth   int    `json:"txDepth"`
			Via     int    `json:"via"`
		}
		if err := json.Unmarshal(input, &in); err != nil {
			return
		}
		c := c18Case{Op: in.Op, Prepare: in.Prepare, Mode: "live", DataSeed: 1, NCtx: 1}
		switch in.Via {
		case 0:
			c.Binds = []c18Bind{{Kind: "with", Ctx: 0}}
		case 1:
			c.Binds = []c18Bind{{Kind: "sess", Ctx: 0}}
		default:
			c.Binds = []c18Bind{{Kind: "chain", Ctx: -1, Chain: "Where"}, {Kind: "with", Ctx: 0}, {Kind: "sess", Flags: []string{"NewDB"}, Ctx: -1}}
		}
		for i := 0; i < in.Depth; i++ {
			c.Layers = append(c.Layers, c18Layer{Kind: "block"})
		}
		for _, mode := range []string{"live", "cancelled"} {
			c.Mode = mode
			if v, _, _ := c18Execute(c, r); v != "" {
				r.Violate(Violation{Kind: "e2e", Suite: "bind", Input: c, Observed: v, Expected: c18Expected(mode)})
			}
		}
	}
}

func c18Expected(mode string) string {
	switch mode {
	case "cancelled":
		return "an already-cancelled context lets no statement run"
	case "cancel-at":
		return "statements issued after the context was cancelled do not run"
	}
	return "every driver call of the operation receives the context bound to the handle it was started from"
}

// c18BindSuite: the generated-binding oracle.
func c18BindSuite(r *Result, rng *rand.Rand, tier string) {
	ops := c18Ops()
	perOp := 12
	sweepOps := 6
	switch tier {
	case "thorough":
		perOp, sweepOps = 400, len(ops)
	case "search":
		perOp, sweepOps = 60, len(ops)
	}
	run := func(c c18Case) (int, bool) {
		v, n, err := c18Execute(c, r)
		flagsKey := []string{}
		for _, b := range c.Binds {
			flagsKey = append(flagsKey, b.String())
		}
		r.Case("bind", fmt.Sprint(c.Op, c.Mode, c.Prepare, c.SkipDefTx, flagsKey, len(c.Layers)), n >= 2 || c.Mode != "live")
		r.H("bind.mode", c.Mode)
		r.H("bind.op", c.Op)
		r.H("bind.layers", fmt.Sprint(len(c.Layers)))
		r.H("bind.calls_with_ctx", fmt.Sprint(n/5*5, "+"))
		for _, b := range c.Binds {
			r.H("bind.kind", b.Kind)
			if b.Kind == "sess" {
				k := "inherit"
				if b.Ctx >= 0 {
					k = "Context"
				}
				if len(b.Flags) == 0 {
					r.H("bind.sess_flag", k+"+<none>")
				}
				for _, f := range b.Flags {
					r.H("bind.sess_flag", k+"+"+f)
				}
			}
		}
		if err != nil {
			r.H("bind.op_error", trunc(err.Error(), 40))
		}
		if v != "" {
			r.Violate(Violation{Kind: "e2e", Suite: "bind", Input: c, Observed: v, Expected: c18Expected(c.Mode), Note: c.describe()})
			return n, false
		}
		return n, true
	}
	// (1) single flag x Context sweep on a few operation families per run (all of them in thorough)
	perm := rng.Perm(len(ops))
	for _, oi := range perm[:sweepOps] {
		for _, c := range c18SweepCases(rng, ops[oi]) {
			if expired() {
				return
			}
			run(c)
			if rng.Intn(3) == 0 {
				c.Mode = "cancelled"
				run(c)
			}
		}
	}
	// (2) random binding programs for every operation family, each followed by its cancelled variants
	for round := 0; round < perOp && !expired(); round++ {
		for _, op := range ops {
			c := c18GenCase(rng, op)
			n, ok := run(c)
			if !ok {
				continue
			}
			if round == 0 && len(c.Layers) <= 1 {
				r.Sample(map[string]interface{}{"case": c.describe(), "config": fmt.Sprintf("prepare=%v skipDefaultTx=%v", c.Prepare, c.SkipDefTx), "driver_calls_with_ctx": n})
			}
			cc := c
			cc.Mode = "cancelled"
			run(cc)
			if n > 0 {
				ck := c
				ck.Mode = "cancel-at"
				ck.K = rng.Intn(n)
				run(ck)
			}
		}
	}
	keys := make([]string, 0, len(c18OpByName))
	for k := range c18OpByName {
		keys = append(keys, k)
	}
	sort.Strings(keys)
	r.Note("C18 bind suite: %d operation families: %s", len(keys), strings.Join(keys, " "))
}
