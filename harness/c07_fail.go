package main

// C07 e2e, family "fail" (round 3): operations that hit ERROR paths concurrently through the one shared handle.
//
// Dimension: until round 3 every operation of every program succeeded (or failed without touching shared state).  Here all G
// goroutines leave a barrier together at every operation index and issue THE SAME KIND of operation, built so that the SQL
// TEXT is identical for all goroutines (their own rows only appear as bound arguments) and NEW at that index — under
// PrepareStmt (Config, one shared prepared session, or a prepared session derived per goroutine) every index is a concurrent
// FIRST use of a text.  Kinds (c07FailKinds):
//
//	unpreparable texts     missing table, missing column, syntax error — through Count / Find / First / Take / Pluck / Scan /
//	                       Row / Rows / Update / Delete / Exec / Raw
//	driver faults          injected by the recording driver (rec.go Fault) at prepare / exec / query, as an ordinary error and as
//	                       driver.ErrBadConn (database/sql drops the connection and retries; a keep-alive connection outside the
//	                       pool keeps the in-memory database alive); selected by a marker literal inside the SQL text, so the same
//	                       statements fail in the serial and in the concurrent run
//	error from rows.Next   a genuine SQLite step error (integer overflow in abs()) on the goroutine's second row: reaches gorm
//	                       only through Rows.Err()
//	contexts               already cancelled / deadline already exceeded (every goroutine of the index, so a broadcast
//	                       preparation error is the error each of them gets alone)
//	constraint violations  duplicate primary key, NOT NULL, UNIQUE index — on the goroutine's own rows
//	failing hooks          BeforeCreate / AfterCreate / BeforeUpdate / AfterFind returning an error (row must not appear / change)
//	invalid models         a model type nobody has used yet (reflect.StructOf, one per index) whose relation cannot be built; and a
//	                       VALID fresh soft-delete model read at once by everybody (the first operation must already filter)
//	not found              First on a missing key
//	ok                     succeeding Create / Find / Count in between (the cache and the rows after the failures)
//
// Oracle = the property: every goroutine's result strings (error TEXTS included) and the final rows equal the serial run of
// the same programs; a panic inside an operation is recovered per goroutine and is a result ("PANIC: …" + gorm frames) that
// the serial run does not have; a program that does not finish although every goroutine that carries gorm frames sits in a
// channel receive of the statement cache / schema cache is a deadlock (violation), any other timeout stays inconclusive.
// Latitude: none on values; SQLite lock errors ("locked"/"busy") stay inconclusive as in the other families.

import (
	"context"
	"database/sql"
	"database/sql/driver"
	"errors"
	"fmt"
	"math"
	"math/rand"
	"reflect"
	"regexp"
	"runtime"
	"sort"
	"strings"
	"sync"
	"sync/atomic"
	"time"

	"gorm.io/gorm"
)

// ---------- models of the family ----------

// C07FailHook: hooks that refuse by VALUE (so the caller decides which operation fails)
type C07FailHook struct {
	ID   uint `gorm:"primaryKey"`
	Name string
	N    int
	Uniq string `gorm:"uniqueIndex:c07_fail_uniq;not null"`
}

func (C07FailHook) TableName() string { return "c07_fail_hooks" }

var errC07Hook = errors.New("c07 hook refuses")

func (x *C07FailHook) BeforeCreate(tx *gorm.DB) error {
	if strings.HasPrefix(x.Name, "refuse-before") {
		return fmt.Errorf("%w: before create %s", errC07Hook, x.Name)
	}
	return nil
}
func (x *C07FailHook) AfterCreate(tx *gorm.DB) error {
	if strings.HasPrefix(x.Name, "refuse-after") {
		return fmt.Errorf("%w: after create %s", errC07Hook, x.Name)
	}
	return nil
}
func (x *C07FailHook) BeforeUpdate(tx *gorm.DB) error {
	if x.N == 666 {
		return fmt.Errorf("%w: before update", errC07Hook)
	}
	return nil
}
func (x *C07FailHook) AfterFind(tx *gorm.DB) error {
	if x.N == 13 {
		return fmt.Errorf("%w: after find %d", errC07Hook, x.N)
	}
	return nil
}

const (
	c07FailSeedRows  = 4    // base+1 … base+4 in rc_plain1 / rc_plain2 / c07_fail_hooks
	c07FailOverflow  = 9001 // base+9001 in rc_plain1 carries n = MinInt64 (abs() overflows while the row is stepped)
	c07FailUnlucky   = 9002 // base+9002 in c07_fail_hooks carries N = 13 (AfterFind refuses)
	c07FailFirstFree = 100
)

// c07FailSeed: rows of goroutine block g, inserted serially before the program starts (not through the shared handle)
func c07FailSeed(setup *gorm.DB, g int) {
	base := uint(g+1) * 10000
	must := func(err error) {
		if err != nil {
			panic("c07FailSeed: " + err.Error())
		}
	}
	for i := uint(1); i <= c07FailSeedRows; i++ {
		must(setup.Create(&C07Plain1{ID: base + i, Name: fmt.Sprintf("g%d-s%d", g, i), N: int(i)}).Error)
		p2 := C07Plain2{ID: base + i, Name: fmt.Sprintf("g%d-s%d", g, i), N: int(i)}
		must(setup.Create(&p2).Error)
		if i%2 == 0 { // soft-deleted rows: a first operation that does not know the model's query clauses returns them
			must(setup.Delete(&C07Plain2{}, p2.ID).Error)
		}
		must(setup.Create(&C07FailHook{ID: base + i, Name: fmt.Sprintf("g%d-h%d", g, i), N: int(i), Uniq: fmt.Sprintf("u%d", base+i)}).Error)
	}
	must(setup.Create(&C07Plain1{ID: base + c07FailOverflow, Name: "overflow", N: math.MinInt64}).Error)
	must(setup.Session(&gorm.Session{SkipHooks: true}).Create(&C07FailHook{ID: base + c07FailUnlucky, Name: "unlucky", N: 13, Uniq: fmt.Sprintf("u%d", base+c07FailUnlucky)}).Error)
}

// ---------- injected driver faults ----------

var c07ReFault = regexp.MustCompile(`c07fault:(prepare|run):(err|bad):`)

var errC07Injected = errors.New("c07 injected driver failure")

// c07FailFault: the statement text itself says at which driver call it fails and how
func c07FailFault(idx int, ev *Event) error {
	m := c07ReFault.FindStringSubmatch(ev.SQL)
	if m == nil {
		return nil
	}
	hit := false
	switch m[1] {
	case "prepare":
		hit = ev.Kind == "prepare"
	case "run":
		hit = ev.Kind == "exec" || ev.Kind == "query" || ev.Kind == "stmt_exec" || ev.Kind == "stmt_query"
	}
	if !hit {
		return nil
	}
	if m[2] == "bad" {
		return driver.ErrBadConn
	}
	return errC07Injected
}

// c07FailPrepare: seeds the rows, arms the fault hook, and keeps the in-memory database alive while ErrBadConn makes
// database/sql drop pool connections.  Returns the cleanup.
func c07FailPrepare(p c07RaceProg, setup *gorm.DB, rec *Recorder, sqlDB *sql.DB) func() {
	dsn := fmt.Sprintf("file:verifmem%d?mode=memory&cache=shared", atomic.LoadInt64(&memCounter))
	keep, err := sql.Open("sqlite3", dsn)
	if err == nil {
		keep.SetMaxOpenConns(1)
		err = keep.Ping()
	}
	if err != nil {
		panic("c07FailPrepare keep-alive: " + err.Error())
	}
	for g := 0; g < p.G; g++ {
		c07FailSeed(setup, g)
	}
	c07FailSeed(setup, 89) // the warm-up worker's block (base 900000)
	rec.mu.Lock()
	rec.Fault = c07FailFault
	rec.mu.Unlock()
	return func() { keep.Close() }
}

// ---------- barrier: all goroutines leave together at every operation index (concurrent run only) ----------

type c07Barrier struct {
	mu    sync.Mutex
	n     int
	count int
	gen   chan struct{}
}

func c07NewBarrier(n int) *c07Barrier { return &c07Barrier{n: n, gen: make(chan struct{})} }

// wait returns when n goroutines arrived (or after 3 s: a goroutine stuck in an earlier operation must not park the rest)
func (b *c07Barrier) wait() {
	if b == nil {
		return
	}
	b.mu.Lock()
	ch := b.gen
	b.count++
	if b.count >= b.n {
		b.count = 0
		b.gen = make(chan struct{})
		close(ch)
		b.mu.Unlock()
		return
	}
	b.mu.Unlock()
	select {
	case <-ch:
	case <-time.After(3 * time.Second):
	}
}

// ---------- panics ----------

var c07PanicMu sync.Mutex
var c07Panics []string

func c07TakePanics() []string {
	c07PanicMu.Lock()
	defer c07PanicMu.Unlock()
	out := c07Panics
	c07Panics = nil
	return out
}

var c07ReFrame = regexp.MustCompile(`(?m)^(gorm\.io/gorm[^\s(]*(?:\(\*?[A-Za-z0-9_]+\))?[^\s(]*)\(`)

// c07PanicResult: the result string of an operation that panicked — the value and the gorm frames of the stack (witness)
func c07PanicResult(v interface{}) string {
	buf := make([]byte, 1<<16)
	buf = buf[:runtime.Stack(buf, false)]
	var frames []string
	for _, m := range c07ReFrame.FindAllStringSubmatch(string(buf), -1) {
		f := c07NormaliseFrame(m[1])
		if len(frames) == 0 || frames[len(frames)-1] != f {
			frames = append(frames, f)
		}
		if len(frames) >= 6 {
			break
		}
	}
	s := fmt.Sprintf("PANIC: %v @ %s", v, strings.Join(frames, " < "))
	s = c07ReHex.ReplaceAllString(s, "0x?")
	c07PanicMu.Lock()
	c07Panics = append(c07Panics, s)
	c07PanicMu.Unlock()
	return s
}

// c07ExtraPanics: the concurrent run's panics minus (as a multiset) the serial run's
func c07ExtraPanics(ref, got []string) []string {
	have := map[string]int{}
	for _, s := range ref {
		have[s]++
	}
	var out []string
	for _, s := range got {
		if have[s] > 0 {
			have[s]--
			continue
		}
		out = append(out, s)
	}
	return out
}

// c07Guard runs one operation; a panic becomes its result
func c07Guard(f func() string) (s string) {
	defer func() {
		if v := recover(); v != nil {
			s = c07PanicResult(v)
		}
	}()
	return f()
}

// ---------- deadlock classification of a hung program ----------

var c07ReGoroutine = regexp.MustCompile(`(?m)^goroutine \d+ \[([^\]]+)\]:`)

// c07ClassifyHang: "" = not a recognisable gorm deadlock (stays inconclusive).  A deadlock: at least one goroutine sits in a
// channel receive directly inside PreparedStmtDB.prepare / ParseWithSpecialTableName and NO goroutine is inside a driver /
// database-sql call or running gorm code (nobody is left who could close the channel).
func c07ClassifyHang(stacks string) string {
	waiters, active := 0, 0
	var sample string
	for _, blk := range strings.Split(stacks, "\n\n") {
		m := c07ReGoroutine.FindStringSubmatch(blk)
		if m == nil || !strings.Contains(blk, "gorm.io/gorm") {
			continue
		}
		state := m[1]
		lines := strings.Split(blk, "\n")
		top := ""
		if len(lines) > 1 {
			top = lines[1]
		}
		inWait := strings.HasPrefix(state, "chan receive") &&
			(strings.HasPrefix(top, "gorm.io/gorm.(*PreparedStmtDB).prepare(") || strings.HasPrefix(top, "gorm.io/gorm/schema.ParseWithSpecialTableName("))
		if inWait {
			waiters++
			if sample == "" {
				sample = blk
			}
		} else {
			active++
		}
	}
	if waiters > 0 && active == 0 {
		if len(sample) > 1200 {
			sample = sample[:1200] + " …"
		}
		return fmt.Sprintf("%d goroutine(s) wait on a completion channel inside gorm and no goroutine is left inside gorm or the driver that could close it:\n%s", waiters, sample)
	}
	return ""
}

func c07AllStacks() string {
	buf := make([]byte, 1<<20)
	return string(buf[:runtime.Stack(buf, true)])
}

// ---------- the operations ----------

var c07FailKinds = []string{
	"missing-table", "missing-table", "missing-column", "syntax", "fault-prepare", "fault-run", "fault-badconn", "rows-next",
	"ctx-cancelled", "ctx-deadline", "dup-key", "not-null", "unique", "hook-create", "hook-update", "hook-find",
	"invalid-model", "fresh-softdelete-model", "not-found", "ok-create", "ok-find", "ok-count",
}

// kinds that only read (programs on several connections)
var c07FailReadKinds = map[string]bool{"missing-table": true, "missing-column": true, "syntax": true, "fault-prepare": true, "fault-run": true,
	"rows-next": true, "ctx-cancelled": true, "ctx-deadline": true, "hook-find": true, "invalid-model": true, "fresh-softdelete-model": true,
	"not-found": true, "ok-find": true, "ok-count": true}

// c07FailSeq: the kind and the finisher variant of every operation index — the SAME for all goroutines of the program
func c07FailSeq(p c07RaceProg, ro bool) [][2]int {
	rng := rand.New(rand.NewSource(p.Seed ^ 0x5eed))
	var allowed []int
	only := map[string]bool{}
	for _, k := range strings.Split(p.Only, ",") {
		if k != "" {
			only[k] = true
		}
	}
	for i, k := range c07FailKinds {
		if ro && !c07FailReadKinds[k] {
			continue
		}
		if len(only) > 0 && !only[k] {
			continue
		}
		allowed = append(allowed, i)
	}
	if len(allowed) == 0 {
		allowed = []int{0}
	}
	seq := make([][2]int, p.Ops+40)
	for i := range seq {
		seq[i] = [2]int{allowed[rng.Intn(len(allowed))], rng.Intn(1 << 16)}
	}
	return seq
}

// c07DynType: a struct type nobody has parsed on this handle yet (one per operation index).  valid: plain soft-delete model
// on rc_plain2; invalid: a has-many whose foreign key does not exist.
func c07DynType(idx int, valid bool) reflect.Type {
	fields := []reflect.StructField{
		{Name: "ID", Type: reflect.TypeOf(uint(0)), Tag: `gorm:"primaryKey"`},
		{Name: "Name", Type: reflect.TypeOf("")},
		{Name: "N", Type: reflect.TypeOf(int(0))},
		{Name: fmt.Sprintf("Pad%d", idx), Type: reflect.TypeOf(int(0)), Tag: `gorm:"-"`},
	}
	if valid {
		fields = append(fields, reflect.StructField{Name: "DeletedAt", Type: reflect.TypeOf(gorm.DeletedAt{})})
	} else {
		fields = append(fields, reflect.StructField{Name: "Kids", Type: reflect.TypeOf([]C07Plain3{}), Tag: reflect.StructTag(fmt.Sprintf(`gorm:"foreignKey:Nope%d"`, idx))})
	}
	return reflect.StructOf(fields)
}

func c07ShowDyn(slicePtr interface{}) string {
	v := reflect.ValueOf(slicePtr).Elem()
	var out []string
	for i := 0; i < v.Len(); i++ {
		e := v.Index(i)
		out = append(out, fmt.Sprintf("{%v %v %v}", e.FieldByName("ID").Interface(), e.FieldByName("Name").Interface(), e.FieldByName("N").Interface()))
	}
	return strings.Join(out, "")
}

func c07ShowP1(xs []C07Plain1) string {
	s := ""
	for _, x := range xs {
		s += fmt.Sprintf("{%d %s %d}", x.ID, x.Name, x.N)
	}
	return s
}

func c07ShowHooks(xs []C07FailHook) string {
	s := ""
	for _, x := range xs {
		s += fmt.Sprintf("{%d %s %d %s}", x.ID, x.Name, x.N, x.Uniq)
	}
	return s
}

// failRead runs a read with condition text `cond` (identical for all goroutines) on `base` through finisher variant v
func (w *c07RaceWorker) failRead(base *gorm.DB, v int, lo, hi uint) string {
	q := base.Where("id BETWEEN ? AND ?", lo, hi)
	switch v % 8 {
	case 0:
		var n int64
		err := q.Count(&n).Error
		return fmt.Sprintf("count %s %d", c07ErrClass(err), n)
	case 1:
		var xs []C07Plain1
		err := q.Order("id").Find(&xs).Error
		return "find " + c07ErrClass(err) + " " + c07ShowP1(xs)
	case 2:
		var x C07Plain1
		err := q.First(&x).Error
		return fmt.Sprintf("first %s %d", c07ErrClass(err), x.ID)
	case 3:
		var names []string
		err := q.Order("id").Pluck("name", &names).Error
		return fmt.Sprintf("pluck %s %v", c07ErrClass(err), names)
	case 4:
		var xs []C07Plain1
		err := q.Order("id").Scan(&xs).Error
		return "scan " + c07ErrClass(err) + " " + c07ShowP1(xs)
	case 5:
		var id uint
		err := q.Select("id").Order("id").Row().Scan(&id)
		return fmt.Sprintf("row %s %d", c07ErrClass(err), id)
	case 6:
		rows, err := q.Select("id").Order("id").Rows()
		n := 0
		if err == nil {
			for rows.Next() {
				n++
			}
			err = rows.Err()
			rows.Close()
		}
		return fmt.Sprintf("rows %s %d", c07ErrClass(err), n)
	default:
		var x C07Plain1
		err := q.Take(&x).Error
		return fmt.Sprintf("take %s %v", c07ErrClass(err), x.ID != 0)
	}
}

// failWrite: same for an exec-path finisher
func (w *c07RaceWorker) failWrite(base *gorm.DB, v int, lo, hi uint) string {
	q := base.Where("id BETWEEN ? AND ?", lo, hi)
	switch v % 3 {
	case 0:
		tx := q.Update("n", 7)
		return fmt.Sprintf("update %s %d", c07ErrClass(tx.Error), tx.RowsAffected)
	case 1:
		tx := q.Updates(map[string]interface{}{"n": 8, "name": "x"})
		return fmt.Sprintf("updates %s %d", c07ErrClass(tx.Error), tx.RowsAffected)
	default:
		tx := q.Delete(&C07Plain1{})
		return fmt.Sprintf("delete %s %d", c07ErrClass(tx.Error), tx.RowsAffected)
	}
}

func (w *c07RaceWorker) opFail(h *gorm.DB) string {
	i := w.opIdx
	if i >= len(w.failSeq) {
		i = len(w.failSeq) - 1
	}
	kind, v := c07FailKinds[w.failSeq[i][0]], w.failSeq[i][1]
	w.kinds["f-"+kind] = true
	lo, hi := w.base, w.base+c07FailSeedRows
	if w.n < c07FailFirstFree {
		w.n = c07FailFirstFree
	}
	// exec-path finishers (default transaction + UPDATE/DELETE): on one connection always; on several connections only for kinds
	// whose statement can never reach the database (it fails before it runs), so SQLite's table locks stay out of the picture
	write := v%3 == 0
	if w.ro {
		switch kind {
		case "missing-table", "missing-column", "syntax", "ctx-cancelled", "ctx-deadline", "fault-run":
		default:
			write = false
		}
	}
	switch kind {
	case "missing-table":
		base := h.Table(fmt.Sprintf("c07_missing_%d", i))
		if write {
			return "missing-table " + w.failWrite(base, v/3, lo, hi)
		}
		return "missing-table " + w.failRead(base, v, lo, hi)
	case "missing-column":
		base := h.Model(&C07Plain1{}).Where(fmt.Sprintf("nocol_%d = ?", i), 1)
		if write {
			return "missing-column " + w.failWrite(base, v/3, lo, hi)
		}
		return "missing-column " + w.failRead(base, v, lo, hi)
	case "syntax":
		if write {
			tx := h.Exec(fmt.Sprintf("UPDATE rc_plain1 SET WHERE %d = ? AND id = ?", i), i, w.base+1)
			return fmt.Sprintf("syntax exec %s %d", c07ErrClass(tx.Error), tx.RowsAffected)
		}
		var xs []C07Plain1
		err := h.Raw(fmt.Sprintf("SELEC * FORM rc_plain1 WHERE %d = ? AND id > ?", i), i, w.base).Scan(&xs).Error
		return "syntax raw " + c07ErrClass(err) + " " + c07ShowP1(xs)
	case "fault-prepare", "fault-run", "fault-badconn":
		stage, ek := "prepare", "err"
		switch kind {
		case "fault-run":
			stage = "run"
		case "fault-badconn":
			stage, ek = []string{"prepare", "run"}[v%2], "bad"
		}
		base := h.Model(&C07Plain1{}).Where(fmt.Sprintf("name <> 'c07fault:%s:%s:%d'", stage, ek, i))
		if write {
			return kind + " " + stage + " " + w.failWrite(base, v/3, lo, hi)
		}
		return kind + " " + stage + " " + w.failRead(base, v, lo, hi)
	case "rows-next":
		var xs []C07Plain1
		err := h.Raw(fmt.Sprintf("SELECT id, name, abs(n) AS n FROM rc_plain1 WHERE (id = ? OR id = ?) AND %d = %d ORDER BY id", i, i), w.base+1, w.base+c07FailOverflow).Scan(&xs).Error
		return "rows-next " + c07ErrClass(err) + " " + c07ShowP1(xs)
	case "ctx-cancelled", "ctx-deadline":
		var ctx context.Context
		var cancel context.CancelFunc
		if kind == "ctx-cancelled" {
			ctx, cancel = context.WithCancel(context.Background())
			cancel()
		} else {
			ctx, cancel = context.WithDeadline(context.Background(), time.Unix(1, 0))
			defer cancel()
		}
		base := h.WithContext(ctx).Model(&C07Plain1{}).Where(fmt.Sprintf("%d = %d", i, i))
		if write {
			return kind + " " + w.failWrite(base, v/3, lo, hi)
		}
		return kind + " " + w.failRead(base, v, lo, hi)
	case "dup-key":
		tx := h.Create(&C07Plain1{ID: w.base + 1, Name: "dup", N: 1})
		return fmt.Sprintf("dup-key %s %d", c07ErrClass(tx.Error), tx.RowsAffected)
	case "not-null":
		tx := h.Exec("INSERT INTO c07_fail_hooks (id, name, n, uniq) VALUES (?, ?, ?, NULL)", w.next(), "nn", 1)
		return fmt.Sprintf("not-null %s %d", c07ErrClass(tx.Error), tx.RowsAffected)
	case "unique":
		id := w.next()
		tx := h.Create(&C07FailHook{ID: id, Name: "uq", N: 1, Uniq: fmt.Sprintf("u%d", w.base+1)})
		if v%2 == 0 { // batch: the second record violates, the first must not stay
			id2 := w.next()
			tx = h.Create(&[]C07FailHook{{ID: id2, Name: "uq-a", N: 1, Uniq: fmt.Sprintf("u%d", id2)}, {ID: w.next(), Name: "uq-b", N: 1, Uniq: fmt.Sprintf("u%d", w.base+2)}})
		}
		return fmt.Sprintf("unique %s %d", c07ErrClass(tx.Error), tx.RowsAffected)
	case "hook-create":
		id := w.next()
		name := []string{"refuse-before", "refuse-after"}[v%2]
		tx := h.Create(&C07FailHook{ID: id, Name: fmt.Sprintf("%s-%d", name, id), N: 1, Uniq: fmt.Sprintf("u%d", id)})
		return fmt.Sprintf("hook-create %s %d", c07ErrClass(tx.Error), tx.RowsAffected)
	case "hook-update":
		tx := h.Model(&C07FailHook{ID: w.base + 1, N: 666}).Update("name", "never")
		return fmt.Sprintf("hook-update %s %d", c07ErrClass(tx.Error), tx.RowsAffected)
	case "hook-find":
		var xs []C07FailHook
		err := h.Where("id IN ?", []uint{w.base + 1, w.base + c07FailUnlucky}).Order("id").Find(&xs).Error
		return "hook-find " + c07ErrClass(err) + " " + c07ShowHooks(xs)
	case "invalid-model":
		t := c07DynType(i, false)
		dst := reflect.New(reflect.SliceOf(t)).Interface()
		err := h.Table("rc_plain1").Where("id BETWEEN ? AND ?", lo, hi).Order("id").Find(dst).Error
		return "invalid-model " + c07ErrClass(err) + " " + c07ShowDyn(dst)
	case "fresh-softdelete-model":
		t := c07DynType(i, true)
		dst := reflect.New(reflect.SliceOf(t)).Interface()
		err := h.Table("rc_plain2").Where("id BETWEEN ? AND ?", lo, hi).Order("id").Find(dst).Error
		return "fresh-model " + c07ErrClass(err) + " " + c07ShowDyn(dst)
	case "not-found":
		var x C07Plain1
		err := h.First(&x, w.base+7777).Error
		return "not-found " + c07ErrClass(err)
	case "ok-create":
		id := w.next()
		err := h.Create(&C07FailHook{ID: id, Name: fmt.Sprintf("ok-%d", id), N: int(id % 10), Uniq: fmt.Sprintf("u%d", id)}).Error
		return "ok-create " + c07ErrClass(err)
	case "ok-find":
		var xs []C07FailHook
		err := h.Where("id BETWEEN ? AND ?", w.base, w.base+8999).Order("id").Find(&xs).Error
		return "ok-find " + c07ErrClass(err) + " " + c07ShowHooks(xs)
	default:
		var n int64
		err := h.Model(&C07Plain1{}).Where("id BETWEEN ? AND ?", lo, hi).Count(&n).Error
		return fmt.Sprintf("ok-count %s %d", c07ErrClass(err), n)
	}
}

// c07FailF32: listed finding F32.  Pattern: prepared statements on; the operation is of kind fault-badconn (the driver answers
// driver.ErrBadConn to every execution of the index's text, for every goroutine); serially the operation returns "driver: bad
// connection"; concurrently, with NOTHING else different in its result, it returns "sql: statement is closed": another
// goroutine's ErrBadConn branch evicted the entry and closed the *sql.Stmt this goroutine already held a copy of.  Matching
// results are counted and replaced by the serial ones, so everything else is still compared.
func c07FailF32(ref, got [][]string) int {
	n := 0
	for g := range ref {
		if g >= len(got) {
			break
		}
		for i := range ref[g] {
			if i >= len(got[g]) || ref[g][i] == got[g][i] || !strings.HasPrefix(ref[g][i], "fault-badconn ") {
				continue
			}
			if strings.Replace(ref[g][i], "err:driver: bad connection", "err:sql: statement is closed", 1) == got[g][i] {
				got[g][i] = ref[g][i]
				n++
			}
		}
	}
	return n
}

// c07FailFixedProgs: fixed programs of every run — maximal contention on first use of failing texts in each way of
// switching prepared statements on, plus the non-prepared reference shape and a read-only one on several connections
func c07FailFixedProgs(rng *rand.Rand) []c07RaceProg {
	prepKinds := "missing-table,missing-column,syntax,fault-prepare,fault-run,fault-badconn,ctx-cancelled,ctx-deadline,rows-next,ok-count"
	return []c07RaceProg{
		{Seed: rng.Int63n(1 << 30), G: 16, Cold: true, Family: "fail", Handle: "db", Prepare: true, Ops: 40, Only: prepKinds},
		{Seed: rng.Int63n(1 << 30), G: 8, Cold: false, Family: "fail", Handle: "prepsession", Ops: 40, Only: prepKinds},
		{Seed: rng.Int63n(1 << 30), G: 16, Cold: true, Family: "fail", Handle: "session", Derive: "prepare", Ops: 30, Conns: 4, Only: prepKinds},
		{Seed: rng.Int63n(1 << 30), G: 8, Cold: true, Family: "fail", Handle: "db", Prepare: rng.Intn(2) == 0, Ops: 30},
		{Seed: rng.Int63n(1 << 30), G: 8, Cold: true, Family: "fail", Handle: "ctx", Ops: 24, Conns: 4, Only: "invalid-model,fresh-softdelete-model,hook-find,not-found,ok-find"},
		// probe re-confirming the listed finding F32: every goroutine executes the same cached statement into driver.ErrBadConn
		{Seed: 11 + rng.Int63n(1<<20), G: 16, Cold: false, Family: "fail", Handle: "db", Prepare: true, Ops: 40, Only: "fault-badconn"},
	}
}

func c07SortedKeys(m map[string]bool) []string {
	var ks []string
	for k := range m {
		ks = append(ks, k)
	}
	sort.Strings(ks)
	return ks
}
