package main

// Generator, Lean tie and registration of the C06 suites on a real database (see c06_real.go).

import (
	"encoding/json"
	"fmt"
	"math/rand"
	"sort"
	"strings"

	"gorm.io/gorm"
	"gorm.io/gorm/clause"
)

type c06xGen struct {
	rng   *rand.Rand
	h     c06xHist
	clone []int  // per handle: 0 chain instance, 1/2 reusable
	used  []bool // chain instance consumed
	fin   []int  // chain instance: finisher kind executed on it (-1 none) — it may be used ONCE more afterwards
	dry   []bool // handle runs in DryRun mode
	tx    []bool
	read  []bool // handle descends from a chain that carries query-only shapes (joins…): no writes from it
	reuse bool
	wrote bool
	after []bool // handle descends from a chain instance that was used again after a query had been executed on it
}

func (g *c06xGen) add(o c06xOp, clone int) int {
	g.h.Ops = append(g.h.Ops, o)
	src := o.S
	g.clone = append(g.clone, clone)
	g.used = append(g.used, false)
	g.fin = append(g.fin, -1)
	d := g.dry[src]
	if o.N == "sess" && o.F&c06fDryRun != 0 {
		d = true
	}
	g.dry = append(g.dry, d)
	g.tx = append(g.tx, g.tx[src] || o.N == "begin")
	g.read = append(g.read, g.read[src])
	g.after = append(g.after, g.after[src] || (g.clone[src] == 0 && g.fin[src] >= 0))
	return len(g.clone) - 1
}

func (g *c06xGen) reusable() []int {
	var out []int
	for i, c := range g.clone {
		if c > 0 {
			out = append(out, i)
		}
	}
	return out
}

func (g *c06xGen) pickReusable() int {
	rs := g.reusable()
	if g.rng.Intn(3) > 0 && len(rs) > 1 {
		return rs[len(rs)-1-g.rng.Intn(c06min(len(rs), 3))]
	}
	return rs[g.rng.Intn(len(rs))]
}

func c06min(a, b int) int {
	if a < b {
		return a
	}
	return b
}

// random Session flags: single flags, pairs, and arbitrary combinations
func (g *c06xGen) flags() int {
	r := g.rng
	n := len(c06xFlagNames) - 1 // Initialized is added separately
	f := 0
	switch r.Intn(5) {
	case 0:
		f = 1 << r.Intn(n)
	case 1:
		f = 1<<r.Intn(n) | 1<<r.Intn(n)
	case 2: // the statement-writing flags combined with NewDB
		f = c06fNewDB
		for _, b := range []int{c06fContext, c06fSkipHooks, c06fPrepareStmt, c06fDryRun, c06fLogger, c06fSkipDefTx} {
			if r.Intn(2) == 0 {
				f |= b
			}
		}
	default:
		for b := 0; b < n; b++ {
			if r.Intn(4) == 0 {
				f |= 1 << b
			}
		}
	}
	if r.Intn(12) == 0 {
		f |= c06fInitialized
	}
	return f
}

func (g *c06xGen) derive(s int) int {
	r := g.rng
	name := []string{"sess", "sess", "sess", "sess", "sess", "ctx", "debug", "begin"}[r.Intn(8)]
	if name == "begin" && (g.tx[s] || g.dry[s] || g.h.Cfg&2 != 0 || g.anyTx() || g.wrote) {
		name = "sess"
	}
	o := c06xOp{N: name, S: s}
	cl := 2
	switch name {
	case "sess":
		o.F = g.flags()
		if g.tx[s] {
			o.F &^= c06fPrepareStmt
		}
		if g.after[s] || (g.clone[s] == 0 && g.fin[s] >= 0) {
			o.F &^= c06fQueryFields // the SELECT clause of the executed query is kept: QueryFields is not re-evaluated
		}
		if o.F&c06fNewDB != 0 {
			cl = 1
		}
		if o.F&c06fInitialized != 0 {
			cl = 0
		}
	case "begin":
		if g.clone[s] == 1 {
			cl = 1
		}
	}
	return g.add(o, cl)
}

func (g *c06xGen) anyTx() bool {
	for _, t := range g.tx {
		if t {
			return true
		}
	}
	return false
}

// one chain method on s; returns the new instance
func (g *c06xGen) chainOp(s int, wide bool) int {
	r := g.rng
	var o c06xOp
	k := r.Intn(34)
	if g.after[s] || (g.clone[s] == 0 && g.fin[s] >= 0) {
		// after a query ran on this chain instance: conditions, order, limit, offset, hints (Select/Omit/Joins/Model
		// are not re-evaluated once the first query has left its SELECT / FROM clauses behind)
		k = r.Intn(14)
	}
	if !wide && k >= 12 && k < 30 {
		k = r.Intn(12)
	}
	switch {
	case k < 6:
		o = c06xOp{N: "where", A: r.Intn(3), B: r.Intn(9)}
	case k < 7:
		o = c06xOp{N: []string{"or", "not"}[r.Intn(2)], A: r.Intn(3), B: r.Intn(9)}
		if g.reuse {
			// a query executed on a chain leaves the schema's query clauses (deleted_at IS NULL) in its WHERE list; with
			// Or/Not conditions around, their POSITION changes the meaning — outside what gorm promises for a chain
			// instance that is used again, so histories with reuse keep to AND conditions
			o.N = "where"
		}
	case k < 9:
		o = c06xOp{N: "order", A: r.Intn(3)}
	case k < 10:
		o = c06xOp{N: "limit", A: r.Intn(7)}
	case k < 11:
		o = c06xOp{N: "offset", A: r.Intn(3)}
	case k < 12:
		o = c06xOp{N: "scopes", A: r.Intn(5)}
	case k < 14:
		o = c06xOp{N: "hint", A: r.Intn(len(c06xHintKeys)), B: r.Intn(3)}
	case k < 15:
		o = c06xOp{N: "builder", A: r.Intn(len(c06xBuilderKeys))}
	case k < 16:
		o = c06xOp{N: "once", A: r.Intn(3)}
	case k < 18:
		o = c06xOp{N: "fromj", A: r.Intn(4), B: r.Intn(3)}
	case k < 19:
		o = c06xOp{N: "joinsA"}
	case k < 20:
		o = c06xOp{N: "joinsR", A: r.Intn(3)}
	case k < 21:
		o = c06xOp{N: "custom", A: r.Intn(5)}
	case k < 22:
		o = c06xOp{N: "tag", A: r.Intn(5)}
	case k < 23:
		o = c06xOp{N: "lock", A: r.Intn(2), B: r.Intn(2)}
	case k < 24:
		o = c06xOp{N: "ret", A: r.Intn(3)}
	case k < 25:
		o = c06xOp{N: "onconf", A: r.Intn(3), B: r.Intn(5)}
	case k < 26:
		o = c06xOp{N: "setc", A: r.Intn(5)}
	case k < 27:
		o = c06xOp{N: "select", A: r.Intn(3)}
	case k < 28:
		o = c06xOp{N: "omit", A: r.Intn(3)}
	case k < 29:
		o = c06xOp{N: []string{"distinct", "preload", "model"}[r.Intn(3)]}
	case k < 30:
		o = c06xOp{N: "set", A: r.Intn(3), B: r.Intn(5)}
	case k < 32:
		o = c06xOp{N: "unscoped"}
	default:
		o = c06xOp{N: "where", A: r.Intn(3), B: r.Intn(9)}
	}
	o.S = s
	if g.clone[s] == 0 {
		g.used[s] = true
	}
	i := g.add(o, 0)
	if o.N == "model" {
		g.read[i] = true // Create(&notes) on a chain whose Model is the employee type would write the employees table
	}
	return i
}

// finisher on s; `reads` = only finishers that read
func (g *c06xGen) finisher(s int, reads bool) int {
	r := g.rng
	pool := []int{0, 0, 0, 1, 2, 3, 4, 4, 5, 6, 7, 8, 14, 9, 9, 10, 11, 12, 13}
	if reads || g.anyTx() || g.read[s] || g.after[s] { // an open transaction holds table locks (shared-cache SQLite): no writes beside it
		pool = []int{0, 0, 0, 1, 2, 3, 4, 4, 5, 6, 7, 8, 14}
	}
	if g.after[s] || (g.clone[s] == 0 && g.fin[s] >= 0) {
		// after a query on the same chain instance: the finishers that set Dest and SELECT themselves (Count leaves its
		// Dest, Find its SELECT clause: Pluck / Scan / Rows / Row read them)
		pool = []int{0, 0, 1, 2, 3, 4, 4, 8}
	}
	a := pool[r.Intn(len(pool))]
	if a >= 9 && a <= 13 {
		g.wrote = true
	}
	if g.clone[s] == 0 {
		g.used[s] = true
		g.fin[s] = a
	}
	i := g.add(c06xOp{N: "fin", S: s, A: a}, 0)
	g.used[i] = true
	return i
}

// finishers after which gorm promises nothing about the chain instance (First/Take/Last leave LIMIT 1 and their
// ORDER BY in the statement, FindInBatches its LIMIT/ORDER, Row's Select): no reuse after them
func c06xRestoringFin(a int) bool {
	switch c06xFins[a] {
	case "Find", "Count":
		// Pluck leaves its SELECT column, Rows/Scan/Row run without AfterQuery (generated joins stay in FROM)
		return true
	}
	return false
}

func c06xGenerate(rng *rand.Rand, maxOps int) c06xHist {
	g := &c06xGen{rng: rng, clone: []int{1}, used: []bool{false}, fin: []int{-1}, dry: []bool{false}, tx: []bool{false}, read: []bool{false}, after: []bool{false}}
	if rng.Intn(3) == 0 {
		g.h.Cfg = rng.Intn(32)
		if rng.Intn(2) == 0 {
			g.h.Cfg &^= 16
		}
	}
	g.dry[0] = g.h.Cfg&16 != 0
	g.h.Model = rng.Intn(2)
	g.reuse = rng.Intn(2) == 0 && !g.dry[0] // DryRun never rebuilds a statement's SQL: a second finisher shows the first one's text
	n := 4 + rng.Intn(maxOps-3)
	// a shared ancestor that already carries clause entries of several shapes; possibly a query was executed on
	// the chain before the handle is taken from it
	if rng.Intn(4) > 0 {
		s := 0
		for i, k := 0, 1+rng.Intn(4); i < k; i++ {
			s = g.chainOp(s, true)
		}
		if g.reuse && rng.Intn(2) == 0 && !g.dry[s] {
			pool := []int{0, 4, 4, 0}
			a := pool[rng.Intn(len(pool))]
			g.fin[s] = a
			g.used[g.add(c06xOp{N: "fin", S: s, A: a}, 0)] = true
		}
		g.used[s] = true
		g.derive(s)
	}
	for len(g.h.Ops) < n {
		switch k := rng.Intn(10); {
		case k < 3: // build a session (often never used)
			g.derive(g.pickReusable())
		case k < 8: // a chain from a reusable handle, finished
			s := g.pickReusable()
			for i, m := 0, rng.Intn(4); i < m; i++ {
				s = g.chainOp(s, rng.Intn(3) == 0)
			}
			q := s
			g.finisher(s, false)
			if g.reuse && g.clone[q] == 0 && !g.dry[q] && c06xRestoringFin(g.fin[q]) && rng.Intn(2) == 0 {
				// the executed chain instance is used once more: derive a handle from it / finish it again
				if rng.Intn(2) == 0 {
					d := g.derive(q)
					if g.clone[d] > 0 {
						for j, m := 0, 1+rng.Intn(2); j < m; j++ {
							s2 := d
							for i, mm := 0, rng.Intn(3); i < mm; i++ {
								s2 = g.chainOp(s2, false)
							}
							g.finisher(s2, true)
						}
					} else {
						g.finisher(d, true)
					}
				} else {
					s2 := q
					for i, mm := 0, rng.Intn(2); i < mm; i++ {
						s2 = g.chainOp(s2, false)
					}
					g.finisher(s2, true)
				}
			}
		default: // an abandoned chain
			s := g.pickReusable()
			for i, m := 0, 1+rng.Intn(3); i < m; i++ {
				s = g.chainOp(s, true)
			}
		}
	}
	// observe every reusable handle (the parents of the sessions built above) once more at the end
	for _, s := range g.reusable() {
		if len(g.h.Ops) >= n+8 {
			break
		}
		if rng.Intn(3) > 0 {
			g.finisher(s, false)
		}
	}
	return g.h
}

// ---- tie with the Lean model of Session() / Statement.clone / AfterQuery -------------------------------

type c06xLeanSess struct {
	Bad          []string `json:"bad"`
	SharedWrites []string `json:"sharedWrites"`
	Shared       bool     `json:"shared"`
	Clone        int64    `json:"clone"`
}

func c06xSessTie(r *Result, facts []c06xSessFact, hist map[int]c06xHist) {
	if len(facts) == 0 {
		return
	}
	ops := make([][]interface{}, len(facts))
	for i, f := range facts {
		fl := c06xFlagList(f.Flags)
		if f.Flags < 0 {
			fl = []string{}
		}
		ops[i] = []interface{}{"c06.sess", fl}
	}
	res, err := AskLean(ops)
	if err != nil {
		r.Violate(Violation{Kind: "correspondence", Suite: "sesstie", Input: "driver", Observed: err.Error(), Expected: "answers"})
		return
	}
	for i, f := range facts {
		var m c06xLeanSess
		if err := json.Unmarshal(res[i], &m); err != nil {
			r.Violate(Violation{Kind: "correspondence", Suite: "sesstie", Input: f, Observed: string(res[i]), Expected: "a result object"})
			return
		}
		r.CorrCompared++
		sort.Strings(m.SharedWrites)
		want := fmt.Sprintf("receiver fields changed=%v", m.SharedWrites)
		got := fmt.Sprintf("receiver fields changed=%v", f.Diff)
		if f.Flags >= 0 {
			// the Session call proper: clone mode of the result and whether it works on a private statement
			want += fmt.Sprintf(" clone=%d shared=%v", m.Clone, m.Shared)
			got += fmt.Sprintf(" clone=%d shared=%v", f.Clone, f.Shared)
			r.H("sess_tie_result", fmt.Sprintf("clone=%d shared=%v", f.Clone, f.Shared))
		}
		if len(m.Bad) > 0 {
			want = "model cannot follow Session(): " + strings.Join(m.Bad, "; ")
		}
		if got != want {
			r.CorrDiffs++
			r.Violate(Violation{Kind: "correspondence", Suite: "sesstie", Input: hist[i], Observed: got, Expected: want,
				Note: fmt.Sprintf("Session({%s}) at op %d: real receiver snapshot / result vs the model's run of the regenerated Session() body; %s",
					strings.Join(c06xFlagList(f.Flags), ","), f.Op, hist[i].Desc())})
			return
		}
	}
}

// c06xEntries: the clause map as the model sees it — per key the shape of the entry
func c06xEntries(st *gorm.Statement) [][]interface{} {
	var ks []string
	for k := range st.Clauses {
		ks = append(ks, k)
	}
	sort.Strings(ks)
	out := [][]interface{}{}
	b := func(x bool) int {
		if x {
			return 1
		}
		return 0
	}
	for _, k := range ks {
		c := st.Clauses[k]
		out = append(out, []interface{}{k, b(c.Expression != nil), b(c.BeforeExpression != nil), b(c.AfterNameExpression != nil),
			b(c.AfterExpression != nil), b(c.Builder != nil)})
	}
	return out
}

// c06xShapeTie: (a) Statement.clone's clause-map copy vs the model's cloneMap (regenerated copy loop) on statements
// that carry entries of every shape, also after a real query has left its marker entries; (b) the joins in the FROM
// clause while a query is built and after it, for k executed queries, vs the model's queryRounds (regenerated restore).
func c06xShapeTie(r *Result, rng *rand.Rand, w *c06xWorld, rounds int) {
	type cas struct {
		desc string
		got  string
	}
	var ops [][]interface{}
	var cases []cas
	for i := 0; i < rounds; i++ {
		g := &c06xGen{rng: rng, clone: []int{1}, used: []bool{false}, fin: []int{-1}, dry: []bool{false}, tx: []bool{false}, read: []bool{false}, after: []bool{false}}
		g.h.Model = rng.Intn(2)
		s := 0
		for j, k := 0, 1+rng.Intn(5); j < k; j++ {
			s = g.chainOp(s, true)
		}
		if rng.Intn(2) == 0 {
			g.add(c06xOp{N: "fin", S: s, A: []int{0, 4}[rng.Intn(2)]}, 0)
		}
		g.add(c06xOp{N: "sess", S: s}, 2)
		hIdx := len(g.h.Ops)
		g.add(c06xOp{N: "unscoped", S: hIdx}, 0)
		hs := c06xHandles(w, g.h)
		if hs == nil {
			continue
		}
		parent, child := hs[hIdx], hs[hIdx+1]
		in := c06xEntries(parent.Statement)
		ops = append(ops, []interface{}{"c06.clonemap", in})
		cases = append(cases, cas{desc: g.h.Desc(), got: canon(c06xEntries(child.Statement))})
		for _, e := range in {
			r.H("clone_tie_entry_shape", fmt.Sprint(e[1:]...))
		}
	}
	// FROM joins through k queries
	type fcase struct {
		c, n, k       int
		during, after int
		desc          string
	}
	var fcs []fcase
	for i := 0; i < rounds/2; i++ {
		c, n, k := rng.Intn(3), rng.Intn(3), 1+rng.Intn(3)
		h := c06xHist{Model: 1}
		s := 0
		add := func(o c06xOp) { o.S = s; h.Ops = append(h.Ops, o); s = len(h.Ops) }
		if c > 0 {
			add(c06xOp{N: "fromj", A: c - 1, B: rng.Intn(3)})
		}
		for j := 0; j < n; j++ {
			add(c06xOp{N: "joinsR", A: j})
		}
		if s == 0 {
			add(c06xOp{N: "limit", A: 3})
		}
		q := s
		for j := 0; j < k; j++ {
			h.Ops = append(h.Ops, c06xOp{N: "fin", S: q, A: []int{0, 4}[rng.Intn(2)]})
		}
		w.rec.Reset()
		run := c06xExec(w, h, nil)
		hs := c06xHandles(w, h)
		if run.Panic != "" || hs == nil {
			continue
		}
		last := run.Obs[len(h.Ops)-1]
		during := 0
		if len(last.Events) > 0 {
			during = strings.Count(last.Events[len(last.Events)-1], " JOIN ")
		}
		after := -1
		if f, ok := hs[q].Statement.Clauses["FROM"].Expression.(clause.From); ok {
			after = len(f.Joins)
		}
		fcs = append(fcs, fcase{c, n, k, during, after, h.Desc()})
		ops = append(ops, []interface{}{"c06.from", c, n, k})
	}
	res, err := AskLean(ops)
	if err != nil {
		r.Violate(Violation{Kind: "correspondence", Suite: "shapetie", Input: "driver", Observed: err.Error(), Expected: "answers"})
		return
	}
	for i, c := range cases {
		r.CorrCompared++
		if want := canonRaw(res[i]); want != c.got {
			r.CorrDiffs++
			r.Violate(Violation{Kind: "correspondence", Suite: "shapetie", Input: c.desc, Observed: c.got, Expected: want,
				Note: "clause map of a chain started from a reusable handle (real Statement.clone) vs the model's cloneMap of the handle's map; entries are [key, Expression, Before, AfterName, After, Builder present]"})
			return
		}
	}
	for i, c := range fcs {
		r.CorrCompared++
		var m struct{ During, After int }
		if err := json.Unmarshal(res[len(cases)+i], &m); err != nil {
			r.CorrDiffs++
			r.Violate(Violation{Kind: "correspondence", Suite: "shapetie", Input: c.desc, Observed: string(res[len(cases)+i]), Expected: "the model's FROM joins"})
			return
		}
		r.H("from_tie", fmt.Sprintf("caller=%d stmt=%d", c.c, c.n))
		if m.During != c.during || m.After != c.after {
			r.CorrDiffs++
			r.Violate(Violation{Kind: "correspondence", Suite: "shapetie", Input: c.desc,
				Observed: fmt.Sprintf("joins in FROM: %d in the last query, %d left in the statement after %d queries", c.during, c.after, c.k),
				Expected: fmt.Sprintf("joins in FROM: %d in the last query, %d left in the statement after %d queries", m.During, m.After, c.k),
				Note:     "real BuildQuerySQL / AfterQuery vs the model's queryRounds over the regenerated restore literal"})
			return
		}
	}
}

func c06xStats(r *Result, h c06xHist) bool {
	users := map[int]int{}
	fins, sess, reuse := 0, 0, 0
	finOn := map[int]bool{}
	for _, o := range h.Ops {
		r.H("x_op", o.N)
		users[o.S]++
		switch o.N {
		case "fin":
			fins++
			r.H("x_finisher", c06xFins[o.A])
			finOn[o.S] = true
		case "sess":
			sess++
			for _, f := range c06xFlagList(o.F) {
				r.H("x_session_flag", f)
			}
			r.H("x_session_flag_count", fmt.Sprint(c06min(len(c06xFlagList(o.F)), 6)))
		}
	}
	for i, o := range h.Ops {
		if o.S > 0 && finOn[o.S] && h.Ops[o.S-1].N != "fin" && !c06xIsDerive(h.Ops[o.S-1].N) && o.N != "fin" {
			reuse++
			r.H("x_reuse_after_query", o.N)
		}
		_ = i
	}
	maxShare := 0
	for _, n := range users {
		if n > maxShare {
			maxShare = n
		}
	}
	r.H("x_cfg", fmt.Sprint(h.Cfg))
	r.H("x_max_chains_from_one_handle", fmt.Sprint(c06min(maxShare, 6)))
	r.H("x_finishers", fmt.Sprint(c06min(fins, 8)))
	return maxShare >= 2 && fins >= 2
}

func init() {
	register("C06", func(r *Result, rng *rand.Rand, tier string) {
		rounds, maxOps := 3000, 14
		if tier == "thorough" {
			rounds, maxOps = 12000, 24
		} else if tier == "search" {
			rounds, maxOps = 3000, 18
		}
		w := c06xOpenWorld()
		defer w.close()
		var facts []c06xSessFact
		fhist := map[int]c06xHist{}
		flush := func() {
			c06xSessTie(r, facts, fhist)
			facts, fhist = nil, map[int]c06xHist{}
		}
		for i := 0; i < rounds && !expired(); i++ {
			h := c06xGenerate(rng, maxOps)
			full, bad := c06xJudge(w, h)
			nt := c06xStats(r, h)
			r.Case("real", canon(h), nt)
			if full.Panic != "" {
				r.H("x_panic", full.Panic)
			}
			if len(bad) > 0 {
				r.H("x_mismatch", bad[0].What)
				c06xReport(r, w, "real", h, bad)
			}
			for _, f := range full.Sess {
				fhist[len(facts)] = h
				facts = append(facts, f)
			}
			if len(facts) > 2000 {
				flush()
			}
			if i%97 == 0 {
				r.Sample(map[string]interface{}{"history": h.Desc()})
			}
		}
		flush()
		c06xShapeTie(r, rng, w, rounds/2)
	})
	replayers["C06/real"] = func(r *Result, input json.RawMessage) {
		var h c06xHist
		if err := json.Unmarshal(input, &h); err != nil {
			r.Violate(Violation{Kind: "e2e", Suite: "real", Input: string(input), Observed: err.Error(), Expected: "a history"})
			return
		}
		w := c06xOpenWorld()
		defer w.close()
		if _, bad := c06xJudge(w, h); len(bad) > 0 {
			c06xReport(r, w, "real", h, bad)
		}
	}
	replayers["C06/sesstie"] = func(r *Result, input json.RawMessage) {
		var h c06xHist
		if err := json.Unmarshal(input, &h); err != nil {
			return
		}
		w := c06xOpenWorld()
		defer w.close()
		full, bad := c06xJudge(w, h)
		if len(bad) > 0 {
			c06xReport(r, w, "real", h, bad)
		}
		fh := map[int]c06xHist{}
		for i := range full.Sess {
			fh[i] = h
		}
		c06xSessTie(r, full.Sess, fh)
	}
}
