package main

// C02 (round 4) — updates that TOUCH THEIR OWN KEY.  "… or the primary key of the model value is an indivisible logical unit:
// a chain … updates … exactly the rows satisfying its units": the key unit of `db.Model(&value)` is the key `value` carries
// WHEN THE FINISHER IS CALLED — also when the SET list assigns a primary-key column (re-keying a row, moving a row by
// changing one part of a composite key).  The oracle compares ALL rows of the table afterwards: the addressed rows carry the
// new values (new key included), every other row — in particular the one that already has the NEW key — is untouched; when
// the new key collides with another row the statement must fail and leave the table as it was.
//
// suites
//   rekey      (e2e)             Model(&keyed) [+ chain] . Update(keycol, v) | Updates(map / struct / &struct with key columns) |
//                                UpdateColumn(s) | Select(..).Updates | Updates(keyed VALUE) through an un-keyed Model | a second
//                                update through the same (now re-keyed) value | Save after changing the key in memory;
//                                single and composite (id, loc) keys; new key unused / equal to another row's / unchanged
//   rekey.tie  (correspondence)  real ConvertToAssignments (DryRun): key conditions, SET list and the in-memory value afterwards
//                                vs Lean Model/UpdateKeys.lean `updConvertToAssignments Gen.updateKeyBlockBeforeAssignments`
//
// latitude: as in wantIDs (c02.go) the key may bind as last flat AND unit or as conjunct of the whole chain, and Not over a
// multi-member AND unit without generated comparisons may negate the whole unit.

import (
	"encoding/json"
	"fmt"
	"math/rand"
	"regexp"
	"sort"
	"strings"

	"gorm.io/gorm"
)

type c02KRow struct {
	wRow
	Loc string
}

func (x c02KRow) key() string { return fmt.Sprintf("%d/%s", x.ID, x.Loc) }
func (x c02KRow) line() string {
	p := func(v *int) string {
		if v == nil {
			return "NULL"
		}
		return fmt.Sprint(*v)
	}
	s := "NULL"
	if x.S != nil {
		s = *x.S
	}
	return fmt.Sprintf("%s a=%s b=%s s=%s", x.key(), p(x.A), p(x.B), s)
}

type c02RekeyCase struct {
	Seed  int64    `json:"seed"`
	Comp  bool     `json:"composite"`
	Rows  []string `json:"rows"`
	Chain []string `json:"chain"`
	Op    string   `json:"op"`
	Model string   `json:"model_key"`
	Set   string   `json:"assign"`
}

type c02Assign struct {
	ID  *int
	Loc *string
	B   *int
}

func (a c02Assign) String() string {
	var p []string
	if a.ID != nil {
		p = append(p, fmt.Sprintf("id=%d", *a.ID))
	}
	if a.Loc != nil {
		p = append(p, fmt.Sprintf("loc=%s", *a.Loc))
	}
	if a.B != nil {
		p = append(p, fmt.Sprintf("b=%d", *a.B))
	}
	return strings.Join(p, ",")
}

func (a c02Assign) apply(x c02KRow) c02KRow {
	if a.ID != nil {
		x.ID = *a.ID
	}
	if a.Loc != nil {
		x.Loc = *a.Loc
	}
	if a.B != nil {
		v := *a.B
		x.B = &v
	}
	return x
}

func (a c02Assign) asMap() map[string]interface{} {
	m := map[string]interface{}{}
	if a.ID != nil {
		m["id"] = *a.ID
	}
	if a.Loc != nil {
		m["loc"] = *a.Loc
	}
	if a.B != nil {
		m["b"] = *a.B
	}
	return m
}

func c02DumpK(tx *gorm.DB, comp bool) ([]string, error) {
	var out []string
	if comp {
		var after []WComp
		if err := tx.Session(&gorm.Session{NewDB: true}).Order("id, loc").Find(&after).Error; err != nil {
			return nil, err
		}
		for _, a := range after {
			out = append(out, c02KRow{wRow{ID: int(a.ID), A: a.A, B: a.B, S: a.S}, a.Loc}.line())
		}
	} else {
		var after []WPlain
		if err := tx.Session(&gorm.Session{NewDB: true}).Order("id").Find(&after).Error; err != nil {
			return nil, err
		}
		for _, a := range after {
			out = append(out, c02KRow{wRow{ID: int(a.ID), A: a.A, B: a.B, S: a.S}, ""}.line())
		}
	}
	sort.Strings(out)
	return out, nil
}

func c02Lines(rows []c02KRow) []string {
	out := make([]string, len(rows))
	for i, x := range rows {
		out[i] = x.line()
	}
	sort.Strings(out)
	return out
}

// c02RekeyOne: one generated re-keying update
func c02RekeyOne(r *Result, seed int64) {
	rng := rand.New(rand.NewSource(seed))
	comp := rng.Intn(2) == 0
	w := newWorld()
	base := genRows(rng, 3+rng.Intn(4), false)
	locs := []string{"en", "zh", "de"}
	var rows []c02KRow
	if comp {
		for _, b := range base {
			for _, l := range locs[:2+rng.Intn(2)] {
				x := b
				x.A, x.B = nil, nil
				if rng.Intn(5) > 0 {
					v := rng.Intn(4)
					x.A = &v
				}
				if rng.Intn(5) > 0 {
					v := rng.Intn(4)
					x.B = &v
				}
				rows = append(rows, c02KRow{x, l})
			}
		}
		// rows are stored in NON-key order
		rng.Shuffle(len(rows), func(i, j int) { rows[i], rows[j] = rows[j], rows[i] })
	} else {
		for _, b := range base {
			rows = append(rows, c02KRow{b, ""})
		}
	}
	db, _, sqlDB := OpenRec(&gorm.Config{NowFunc: fixedNowFunc})
	defer sqlDB.Close()
	if err := db.AutoMigrate(&WComp{}, &WPlain{}); err != nil {
		panic(err)
	}
	for _, x := range rows {
		if comp {
			db.Create(&WComp{ID: uint(x.ID), Loc: x.Loc, A: x.A, B: x.B, S: x.S})
		} else {
			db.Create(&WPlain{ID: uint(x.ID), A: x.A, B: x.B, S: x.S})
		}
	}
	table := "w_plains"
	if comp {
		table = "w_comps"
	}
	cfg := chainGenCfg{exGenCfg: exGenCfg{table: table}, noStruct: comp, allowEmpty: true}
	nUnits := 0
	if rng.Intn(2) == 0 {
		nUnits = 1 + rng.Intn(2)
	}
	ch := genChainN(rng, w, 1, nUnits, cfg)

	// the addressed row: mostly an existing one
	target := rows[rng.Intn(len(rows))]
	if rng.Intn(8) == 0 {
		target = c02KRow{wRow{ID: 40 + rng.Intn(5)}, target.Loc}
	}
	// the assignment: a key column (sometimes both parts), sometimes a plain column next to it
	var as c02Assign
	other := rows[rng.Intn(len(rows))]
	newID := func() *int {
		var v int
		switch rng.Intn(4) {
		case 0:
			v = other.ID // another row's key (or the own one)
		case 1:
			v = target.ID // unchanged
		default:
			v = 20 + rng.Intn(9) // unused
		}
		return &v
	}
	newLoc := func() *string {
		v := []string{"fr", "fr", other.Loc, "en"}[rng.Intn(4)]
		return &v
	}
	switch {
	case !comp || rng.Intn(3) == 0:
		as.ID = newID()
	case rng.Intn(2) == 0:
		as.Loc = newLoc()
	default:
		as.ID, as.Loc = newID(), newLoc()
	}
	if rng.Intn(2) == 0 {
		v := 77
		as.B = &v
	}
	ops := []string{"updates-map", "updates-map", "updates-struct", "updates-ptr", "updatecolumns-map", "select-updates", "value-keyed", "save-rekeyed"}
	single := (as.ID != nil) != (as.Loc != nil) && as.B == nil
	if single {
		ops = append(ops, "update-col", "update-col", "updatecolumn")
	}
	op := ops[rng.Intn(len(ops))]
	if op == "value-keyed" && !ch.hasCond() {
		op = "updates-map"
	}
	if op == "save-rekeyed" {
		ch = &wChain{}
		if target.ID >= 40 {
			target = rows[0]
		}
		// Save writes every column: the value is the addressed row's copy with the key changed in memory
		as.B = nil
	}
	second := op != "save-rekeyed" && op != "value-keyed" && rng.Intn(3) == 0

	mkModel := func(x c02KRow) interface{} {
		if comp {
			return &WComp{ID: uint(x.ID), Loc: x.Loc}
		}
		return &WPlain{ID: uint(x.ID)}
	}
	mkValue := func(ptr bool) interface{} {
		if comp {
			v := WComp{B: as.B}
			if as.ID != nil {
				v.ID = uint(*as.ID)
			}
			if as.Loc != nil {
				v.Loc = *as.Loc
			}
			if ptr {
				return &v
			}
			return v
		}
		v := WPlain{B: as.B}
		if as.ID != nil {
			v.ID = uint(*as.ID)
		}
		if ptr {
			return &v
		}
		return v
	}
	keyOf := func(m interface{}) (int, string) {
		switch v := m.(type) {
		case *WComp:
			return int(v.ID), v.Loc
		case *WPlain:
			return int(v.ID), ""
		}
		return 0, ""
	}

	// expected tables per accepted reading
	type outcome struct {
		fail  bool // the new key collides: the statement must fail, table unchanged
		lines []string
	}
	expect := func(isKey func(c02KRow) bool, useKey bool, a c02Assign, from []c02KRow) []outcome {
		var outs []outcome
		for _, alt := range []bool{false, true} {
			for _, pkFlat := range []bool{false, true} {
				var after []c02KRow
				for _, x := range from {
					sel := false
					if !useKey {
						v, ok := semCtx{w: w, r: x.wRow, alt: alt}.chain(ch)
						sel = !ok || v == vT
					} else if pkFlat {
						kv := vF
						if isKey(x) {
							kv = vT
						}
						v, ok := semCtx{w: w, r: x.wRow, alt: alt}.chainThen(ch, kv)
						sel = ok && v == vT
					} else {
						v, ok := semCtx{w: w, r: x.wRow, alt: alt}.chain(ch)
						sel = (!ok || v == vT) && isKey(x)
					}
					if sel {
						x = a.apply(x)
					}
					after = append(after, x)
				}
				seen := map[string]bool{}
				dup := false
				for _, x := range after {
					if seen[x.key()] {
						dup = true
					}
					seen[x.key()] = true
				}
				if dup {
					outs = append(outs, outcome{fail: true, lines: c02Lines(from)})
				} else {
					outs = append(outs, outcome{lines: c02Lines(after)})
				}
			}
		}
		return outs
	}
	judge := func(err error, got []string, outs []outcome) bool {
		for _, o := range outs {
			if o.fail == (err != nil) && strings.Join(o.lines, ";") == strings.Join(got, ";") {
				return true
			}
		}
		return false
	}

	tx := db.Begin()
	defer tx.Rollback()
	m := mkModel(target)
	var err error
	run := func() {
		defer func() {
			if p := recover(); p != nil {
				err = fmt.Errorf("panic: %v", p)
			}
		}()
		h := ch.apply(tx.Model(m))
		switch op {
		case "update-col", "updatecolumn":
			col, val := "id", interface{}(nil)
			if as.ID != nil {
				val = *as.ID
			} else {
				col, val = "loc", *as.Loc
			}
			if op == "update-col" {
				err = h.Update(col, val).Error
			} else {
				err = h.UpdateColumn(col, val).Error
			}
		case "updates-map":
			err = h.Updates(as.asMap()).Error
		case "updatecolumns-map":
			err = h.UpdateColumns(as.asMap()).Error
		case "updates-struct":
			err = h.Updates(mkValue(false)).Error
		case "updates-ptr":
			err = h.Updates(mkValue(true)).Error
		case "select-updates":
			var cols []interface{}
			if as.Loc != nil {
				cols = append(cols, "loc")
			}
			if as.B != nil {
				cols = append(cols, "b")
			}
			first := "id"
			if as.ID == nil {
				first, cols = cols[0].(string), cols[1:]
			}
			err = ch.apply(tx.Model(m).Select(first, cols...)).Updates(mkValue(false)).Error
		case "value-keyed":
			// the keyed struct is the UPDATE VALUE; the model carries no key: the chain alone selects
			err = ch.apply(tx.Model(mkModel(c02KRow{}))).Updates(mkValue(false)).Error
		case "save-rekeyed":
			if comp {
				v := WComp{ID: uint(target.ID), Loc: target.Loc, A: target.A, B: target.B, S: target.S}
				if as.ID != nil {
					v.ID = uint(*as.ID)
				}
				if as.Loc != nil {
					v.Loc = *as.Loc
				}
				err = tx.Save(&v).Error
			} else {
				v := WPlain{ID: uint(target.ID), A: target.A, B: target.B, S: target.S}
				v.ID = uint(*as.ID)
				err = tx.Save(&v).Error
			}
		}
	}
	run()
	got, derr := c02DumpK(tx, comp)
	if derr != nil {
		// a failed statement aborts nothing in SQLite; a dump error is a harness problem
		r.Note("rekey: dump failed: %v", derr)
		return
	}
	c := c02RekeyCase{Seed: seed, Comp: comp, Rows: c02Lines(rows), Chain: ch.desc(), Op: op, Model: target.key(), Set: as.String()}
	r.Case("rekey", fmt.Sprint(op, comp, ch.desc(), c.Rows, c.Model, c.Set), true)
	r.H("rekey.op", op)
	r.H("rekey.assign", fmt.Sprintf("id=%v loc=%v b=%v", as.ID != nil, as.Loc != nil, as.B != nil))
	var outs []outcome
	switch op {
	case "save-rekeyed":
		// upsert of the value under the key it has when Save is called; every other row untouched
		nv := as.apply(target)
		var after []c02KRow
		hit := false
		for _, x := range rows {
			if x.key() == nv.key() {
				x, hit = nv, true
			}
			after = append(after, x)
		}
		if !hit {
			after = append(after, nv)
		}
		outs = []outcome{{lines: c02Lines(after)}}
	case "value-keyed":
		outs = expect(nil, false, as, rows)
	default:
		outs = expect(func(x c02KRow) bool { return x.ID == target.ID && x.Loc == target.Loc }, true, as, rows)
	}
	classify := func() bool {
		var flags c02Flags
		pkAtom := &wAtom{Col: "`id`", Kind: "eq", Val: "scalar", ID: w.id(wPred{Col: "id", Op: "eq", Vals: []int{target.ID}})}
		chPK := &wChain{Steps: append(append([]wStep{}, ch.Steps...), wStep{Op: "where", Form: &wForm{Kind: "col", Atoms: []*wAtom{pkAtom}}})}
		if res, e := AskLean([][]interface{}{{"chain.render", chPK.json(), []interface{}{false, nil}, []interface{}{}}}); e == nil {
			var out struct {
				Sound    bool `json:"sound"`
				MixedNot bool `json:"mixedNot"`
			}
			if json.Unmarshal(res[0], &out) == nil {
				flags = c02Flags{Sound: out.Sound, MixedNot: out.MixedNot, OK: true}
			}
		}
		if id, isListed := c02Classify(flags); id != "" && isListed {
			r.KnownFinding(id, "re-keying update: rows differ from the logical combination of the units")
			return true
		}
		return false
	}
	if !judge(err, got, outs) {
		r.H("rekey.outcome", "mismatch")
		if classify() {
			return
		}
		obs := map[string]interface{}{"table": got}
		if err != nil {
			obs["error"] = trunc(err.Error(), 80)
		}
		exp := map[string]interface{}{"table": outs[0].lines, "must_fail": outs[0].fail}
		r.Violate(Violation{Kind: "e2e", Suite: "rekey", Input: c, Observed: obs, Expected: exp,
			Note: "the model value's primary key is the key it carries when the finisher is called; ALL rows are compared (the addressed rows get the new values, every other row is untouched, a colliding new key must fail)"})
		return
	}
	r.H("rekey.outcome", fmt.Sprintf("ok err=%v", err != nil))
	if !second || err != nil {
		return
	}
	// a second update through the SAME model value: its key is the one it carries NOW
	kid, kloc := keyOf(m)
	var now []c02KRow
	for _, l := range rows {
		now = append(now, l)
	}
	// the table as it is: re-read it
	now = now[:0]
	if comp {
		var cur []WComp
		tx.Session(&gorm.Session{NewDB: true}).Find(&cur)
		for _, a := range cur {
			now = append(now, c02KRow{wRow{ID: int(a.ID), A: a.A, B: a.B, S: a.S}, a.Loc})
		}
	} else {
		var cur []WPlain
		tx.Session(&gorm.Session{NewDB: true}).Find(&cur)
		for _, a := range cur {
			now = append(now, c02KRow{wRow{ID: int(a.ID), A: a.A, B: a.B, S: a.S}, ""})
		}
	}
	v88 := 88
	saveCh := ch
	ch = &wChain{}
	err2 := tx.Model(m).Update("b", 88).Error
	got2, _ := c02DumpK(tx, comp)
	outs2 := expect(func(x c02KRow) bool { return x.ID == kid && x.Loc == kloc }, true, c02Assign{B: &v88}, now)
	ch = saveCh
	c.Op = op + " ; then Model(sameValue).Update(b, 88) with in-memory key " + fmt.Sprintf("%d/%s", kid, kloc)
	r.Case("rekey", fmt.Sprint("second", op, comp, c.Rows, c.Model, c.Set), true)
	if !judge(err2, got2, outs2) {
		obs := map[string]interface{}{"table": got2}
		if err2 != nil {
			obs["error"] = trunc(err2.Error(), 80)
		}
		r.Violate(Violation{Kind: "e2e", Suite: "rekey", Input: c, Observed: obs, Expected: map[string]interface{}{"table": outs2[0].lines},
			Note: "second update through the same model value: the key unit is the key the value carries at THAT call"})
	}
}

// ---------------------------------------------------------------------------------------------
// rekey.tie: ConvertToAssignments (real, DryRun) vs Lean Model/UpdateKeys.lean

type C02K struct {
	Hall int `gorm:"primaryKey;autoIncrement:false"`
	No   int `gorm:"primaryKey;autoIncrement:false"`
	N    int
	M    int
}

type C02K1 struct {
	ID int `gorm:"primaryKey"`
	N  int
	M  int
}

var c02CondRe = regexp.MustCompile("`(\\w+)` = \\?")
var c02SetRe = regexp.MustCompile("`(\\w+)`=\\?")

func c02RekeyTie(r *Result, rng *rand.Rand, n int) {
	db, _, sqlDB := OpenRec(&gorm.Config{NowFunc: fixedNowFunc})
	defer sqlDB.Close()
	if err := db.AutoMigrate(&C02K{}, &C02K1{}); err != nil {
		panic(err)
	}
	dry := db.Session(&gorm.Session{DryRun: true})
	type item struct {
		desc string
		real string
	}
	var items []item
	var ops [][]interface{}
	pairs := func(cols []string, vals []int) []interface{} {
		out := make([]interface{}, 0, len(cols))
		for i, c := range cols {
			out = append(out, []interface{}{c, vals[i]})
		}
		return out
	}
	small := func() int { return rng.Intn(4) } // 0 = the zero value
	for i := 0; i < n; i++ {
		comp := rng.Intn(2) == 0
		var cols, pks []string
		var vals []int
		var model interface{}
		if comp {
			k := &C02K{Hall: small(), No: small(), N: small(), M: small()}
			model, cols, pks, vals = k, []string{"hall", "no", "n", "m"}, []string{"hall", "no"}, []int{k.Hall, k.No, k.N, k.M}
		} else {
			k := &C02K1{ID: small(), N: small(), M: small()}
			model, cols, pks, vals = k, []string{"id", "n", "m"}, []string{"id"}, []int{k.ID, k.N, k.M}
		}
		// assignments over a random subset of the columns (key columns included)
		var setCols []string
		var setVals []int
		for _, c := range cols {
			if rng.Intn(2) == 0 {
				setCols = append(setCols, c)
				setVals = append(setVals, small())
			}
		}
		if len(setCols) == 0 {
			setCols, setVals = []string{cols[0]}, []int{1 + rng.Intn(3)}
		}
		form := []string{"map", "map", "struct", "column", "columns-map"}[rng.Intn(5)]
		var res *gorm.DB
		var sets []interface{}
		switch form {
		case "map", "columns-map":
			mp := map[string]interface{}{}
			idx := make([]int, len(setCols))
			for j := range setCols {
				mp[setCols[j]] = setVals[j]
				idx[j] = j
			}
			sort.Slice(idx, func(a, b int) bool { return setCols[idx[a]] < setCols[idx[b]] }) // gorm sorts the keys
			for _, j := range idx {
				sets = append(sets, []interface{}{setCols[j], setVals[j]})
			}
			if form == "map" {
				res = dry.Model(model).Updates(mp)
			} else {
				res = dry.Model(model).UpdateColumns(mp)
			}
		case "struct":
			// non-zero fields only, in field order
			get := func(c string) int {
				for j := range setCols {
					if setCols[j] == c {
						return setVals[j]
					}
				}
				return 0
			}
			for _, c := range cols {
				if v := get(c); v != 0 {
					sets = append(sets, []interface{}{c, v})
				}
			}
			if len(sets) == 0 {
				continue
			}
			if comp {
				res = dry.Model(model).Updates(C02K{Hall: get("hall"), No: get("no"), N: get("n"), M: get("m")})
			} else {
				res = dry.Model(model).Updates(C02K1{ID: get("id"), N: get("n"), M: get("m")})
			}
		default:
			sets = []interface{}{[]interface{}{setCols[0], setVals[0]}}
			res = dry.Model(model).Update(setCols[0], setVals[0])
		}
		sqlText := res.Statement.SQL.String()
		vars := res.Statement.Vars
		setPart, wherePart := sqlText, ""
		if k := strings.Index(sqlText, " WHERE "); k >= 0 {
			setPart, wherePart = sqlText[:k], sqlText[k+7:]
		}
		var realSet, realConds []interface{}
		vi := 0
		for _, mm := range c02SetRe.FindAllStringSubmatch(setPart, -1) {
			if vi < len(vars) {
				realSet = append(realSet, []interface{}{mm[1], vars[vi]})
			}
			vi++
		}
		for _, mm := range c02CondRe.FindAllStringSubmatch(wherePart, -1) {
			if vi < len(vars) {
				realConds = append(realConds, []interface{}{mm[1], vars[vi]})
			}
			vi++
		}
		var after []int
		switch k := model.(type) {
		case *C02K:
			after = []int{k.Hall, k.No, k.N, k.M}
		case *C02K1:
			after = []int{k.ID, k.N, k.M}
		}
		if realSet == nil {
			realSet = []interface{}{}
		}
		if realConds == nil {
			realConds = []interface{}{}
		}
		real := canon(map[string]interface{}{"conds": realConds, "set": realSet, "after": pairs(cols, after)})
		pk := make([]interface{}, len(pks))
		for j, p := range pks {
			pk[j] = p
		}
		ops = append(ops, []interface{}{"rekey.tie", pk, pairs(cols, vals), sets})
		items = append(items, item{fmt.Sprintf("%s model=%v set=%v sql=%s", form, pairs(cols, vals), sets, sqlText), real})
		keyAssigned := false
		for _, c := range setCols {
			for _, p := range pks {
				keyAssigned = keyAssigned || c == p
			}
		}
		r.H("rekey.tie", fmt.Sprintf("%s comp=%v keyAssigned=%v", form, comp, keyAssigned))
		r.Case("rekey.tie", real, keyAssigned)
	}
	res, err := AskLean(ops)
	if err != nil {
		r.Violate(Violation{Kind: "correspondence", Suite: "rekey.tie", Note: err.Error()})
		return
	}
	for i, it := range items {
		r.CorrCompared++
		if got := canonRaw(res[i]); got != it.real {
			r.Violate(Violation{Kind: "correspondence", Suite: "rekey.tie", Input: it.desc, Observed: it.real, Expected: got,
				Note: "ConvertToAssignments: key conditions / SET list / in-memory value afterwards differ from Lean updConvertToAssignments (key block BEFORE the assignments)"})
		}
	}
}

func init() {
	register("C02", func(r *Result, rng *rand.Rand, tier string) {
		n := map[string]int{"quick": 500, "thorough": 5000, "search": 3000}[tier]
		for i := 0; i < n && !expired(); i++ {
			c02RekeyOne(r, rng.Int63())
		}
		c02RekeyTie(r, rng, n*3)
	})
	replayers["C02/rekey"] = func(r *Result, input json.RawMessage) {
		var c c02RekeyCase
		if json.Unmarshal(input, &c) != nil {
			return
		}
		c02RekeyOne(r, c.Seed)
	}
}
