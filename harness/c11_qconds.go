package main

import (
	"context"
	"encoding/json"
	"fmt"
	"math/rand"
	"reflect"
	"regexp"
	"sort"
	"strings"
	"sync"

	"gorm.io/gorm"
	"gorm.io/gorm/clause"
	"gorm.io/gorm/schema"
)

// C11 correspondence suites for "which column of which side is compared with which":
//   rel-refs     : the references gorm's parser derives from the struct tags (as a set)  vs  Lean RelSpec.refs of the
//                  relation as the harness writes it down (parent column, child column / join-table hop / constant)
//   query-conds  : real schema.Relationship.ToQueryConditions (Association().Find / Count) on loaded records
//                  vs  Lean toQueryConditions + identitySlice: extra conditions, IN table, IN columns, IN value tuples
//   preload-cols : the queries callbacks.preload really sends (recording driver)  vs  Lean preloadDirectPairs /
//                  preloadJoinPairs / preloadHopPairs: table and IN columns of the child query, of the join-table query
//                  and of the target query, and the IN values of the first query

// value of a model field / an IN-list element -> KeyVal JSON (pointers dereferenced) and reflect's zero flag
func c11QV(v interface{}) (interface{}, bool) {
	if v == nil {
		return nil, true
	}
	rv := reflect.ValueOf(v)
	zero := rv.IsZero()
	for rv.Kind() == reflect.Ptr {
		if rv.IsNil() {
			return nil, true
		}
		rv = rv.Elem()
	}
	switch rv.Kind() {
	case reflect.String:
		return map[string]interface{}{"s": rv.String()}, zero
	case reflect.Slice:
		if b, ok := rv.Interface().([]byte); ok {
			if b == nil {
				return nil, true
			}
			return map[string]interface{}{"b": string(b)}, zero
		}
	case reflect.Uint, reflect.Uint8, reflect.Uint16, reflect.Uint32, reflect.Uint64:
		return map[string]interface{}{"u": rv.Uint()}, zero
	case reflect.Int, reflect.Int8, reflect.Int16, reflect.Int32, reflect.Int64:
		return map[string]interface{}{"i": rv.Int()}, zero
	}
	panic(fmt.Sprintf("c11QV %T", v))
}

func c11RefsJSON(rel *schema.Relationship) []interface{} {
	refs := []interface{}{}
	for _, ref := range rel.References {
		pk := ""
		if ref.PrimaryKey != nil {
			pk = ref.PrimaryKey.DBName
		}
		refs = append(refs, []interface{}{ref.OwnPrimaryKey, pk, ref.ForeignKey.DBName, ref.PrimaryValue})
	}
	return refs
}

func c11PairsJSON(ps [][2]string) []interface{} {
	out := []interface{}{}
	for _, p := range ps {
		out = append(out, []interface{}{p[0], p[1]})
	}
	return out
}

func (d *c11RelD) specOp() []interface{} {
	var via interface{}
	if d.Via != "" {
		via = d.Via
	}
	return []interface{}{"spec.refs", d.Kind == "belongs_to" || d.Kind == "self_belongs_to", c11PairsJSON(d.On), c11PairsJSON(d.Const), via, c11PairsJSON(d.ViaP), c11PairsJSON(d.ViaC)}
}

func c11SortedCanon(list []interface{}) string {
	var ss []string
	for _, x := range list {
		ss = append(ss, canon(x))
	}
	sort.Strings(ss)
	return strings.Join(ss, " ")
}

var c11KindType = map[string]schema.RelationshipType{
	"belongs_to": schema.BelongsTo, "self_belongs_to": schema.BelongsTo, "has_one": schema.HasOne, "poly_one": schema.HasOne,
	"has_many": schema.HasMany, "self_has_many": schema.HasMany, "poly_many": schema.HasMany,
	"many2many": schema.Many2Many, "self_many2many": schema.Many2Many,
}

var c11SchemaCache sync.Map

func c11Schema(t *c11Table) *schema.Schema {
	s, err := schema.Parse(t.Model, &c11SchemaCache, schema.NamingStrategy{})
	if err != nil {
		panic(err)
	}
	return s
}

func c11RelRefsSuite(r *Result, rng *rand.Rand, tier string) {
	type pending struct {
		key  string
		real []interface{}
		note string
	}
	var ops [][]interface{}
	var pend []pending
	for _, fn := range []string{"S", "U", "C", "R", "E", "D"} {
		f := c11Families[fn]
		for _, t := range f.Tables {
			if t.Model == nil {
				continue
			}
			s := c11Schema(t)
			for i := range t.Rels {
				d := &t.Rels[i]
				rel := s.Relationships.Relations[d.Field]
				key := t.Name + "." + d.Field
				if rel == nil {
					r.Violate(Violation{Kind: "correspondence", Suite: "rel-refs", Input: key, Observed: "relation not parsed"})
					continue
				}
				jt := ""
				if rel.JoinTable != nil {
					jt = rel.JoinTable.Table
				}
				if rel.Type != c11KindType[d.Kind] || rel.FieldSchema.Table != d.Child || jt != d.Via {
					r.Violate(Violation{Kind: "correspondence", Suite: "rel-refs", Input: key, Observed: fmt.Sprint(rel.Type, " ", rel.FieldSchema.Table, " ", jt), Expected: fmt.Sprint(d.Kind, " ", d.Child, " ", d.Via),
						Note: "relation type / target table / join table derived by schema.parseRelation vs the relation as declared"})
				}
				ops = append(ops, d.specOp())
				pend = append(pend, pending{key: key, real: c11RefsJSON(rel), note: d.Kind})
			}
		}
	}
	outs, err := AskLean(ops)
	if err != nil {
		r.Violate(Violation{Kind: "correspondence", Suite: "rel-refs", Note: err.Error()})
		return
	}
	for i, p := range pend {
		var want []interface{}
		_ = json.Unmarshal(outs[i], &want)
		r.CorrCompared++
		r.Case("rel-refs", p.key, len(want) >= 1)
		r.H("relrefs", fmt.Sprintf("%s/refs%d", p.note, len(want)))
		if c11SortedCanon(p.real) != c11SortedCanon(want) {
			r.Violate(Violation{Kind: "correspondence", Suite: "rel-refs", Input: p.key, Observed: p.real, Expected: want,
				Note: "schema.Reference list [OwnPrimaryKey, PrimaryKey column, ForeignKey column, PrimaryValue] parsed from the struct tags vs Lean Gorm.RelSpec.refs of the declared column pairs"})
		}
	}
}

type c11QCCase struct {
	World c11World `json:"world"`
	Table string   `json:"table"`
	Rel   string   `json:"rel"`
	Shape string   `json:"shape"`
}

// the loaded records of one table (all rows, also soft-deleted ones), ordered by n
func c11LoadAll(db *gorm.DB, t *c11Table) reflect.Value {
	sl := reflect.New(reflect.SliceOf(t.typ()))
	if e := db.Unscoped().Order("n").Find(sl.Interface()).Error; e != nil {
		panic(e)
	}
	return sl.Elem()
}

// Lean PRow of one record: every column-backed field
func c11PRow(s *schema.Schema, addr int, elem reflect.Value) []interface{} {
	cols := []interface{}{}
	for _, f := range s.Fields {
		if f.DBName == "" || f.DBName == "deleted_at" {
			continue
		}
		var val interface{}
		if fv, ok := c11FieldByBind(elem, f.BindNames); ok { // fields may sit in embedded structs (a nil embedded pointer holds nothing)
			val = fv.Interface()
		}
		kv, z := c11QV(val)
		cols = append(cols, []interface{}{f.DBName, kv, z})
	}
	return []interface{}{addr, cols}
}

func c11ValTags(vals []interface{}, arity int) [][]string {
	out := [][]string{}
	for _, v := range vals {
		var tup []string
		if arity == 1 {
			kv, _ := c11QV(v)
			tup = []string{c11KVTag(kv)}
		} else {
			for _, x := range v.([]interface{}) {
				kv, _ := c11QV(x)
				tup = append(tup, c11KVTag(kv))
			}
		}
		out = append(out, tup)
	}
	return out
}

// canonical rendering of what ToQueryConditions returned
func c11RenderConds(conds []clause.Expression) map[string]interface{} {
	atoms := []string{}
	out := map[string]interface{}{"table": "", "cols": []string{}, "values": [][]string{}}
	for _, c := range conds {
		switch e := c.(type) {
		case clause.Eq:
			col, _ := e.Column.(clause.Column)
			switch v := e.Value.(type) {
			case string:
				atoms = append(atoms, fmt.Sprintf("%s.%s='%s'", col.Table, col.Name, v))
			case clause.Column:
				atoms = append(atoms, fmt.Sprintf("%s.%s=%s.%s", col.Table, col.Name, v.Table, v.Name))
			default:
				atoms = append(atoms, fmt.Sprintf("%s.%s=?%T", col.Table, col.Name, v))
			}
		case clause.IN:
			switch col := e.Column.(type) {
			case clause.Column:
				out["table"], out["cols"] = col.Table, []string{col.Name}
				out["values"] = c11ValTags(e.Values, 1)
			case []clause.Column:
				cols := []string{}
				for _, c := range col {
					out["table"] = c.Table
					cols = append(cols, c.Name)
				}
				out["cols"] = cols
				out["values"] = c11ValTags(e.Values, len(cols))
			}
		default:
			atoms = append(atoms, fmt.Sprintf("?%T", c))
		}
	}
	out["atoms"] = atoms
	return out
}

// the value handed to Association() / Preload for a shape, with the Lean PRows describing it
func c11ShapeValue(s *schema.Schema, t *c11Table, all reflect.Value, shape string, rng *rand.Rand) (reflect.Value, []interface{}) {
	n := all.Len()
	prs := []interface{}{}
	switch shape {
	case "one":
		i := rng.Intn(n)
		return all.Index(i), []interface{}{c11PRow(s, i, all.Index(i))}
	case "dupvals":
		d := reflect.AppendSlice(reflect.MakeSlice(all.Type(), 0, 2*n), all)
		d = reflect.AppendSlice(d, all)
		for i := 0; i < 2*n; i++ {
			prs = append(prs, c11PRow(s, i, d.Index(i)))
		}
		return d, prs
	case "ptrs", "dupptrs":
		ps := reflect.MakeSlice(reflect.SliceOf(reflect.PointerTo(t.typ())), 0, 2*n)
		for i := 0; i < n; i++ {
			if shape == "ptrs" && n > 1 && rng.Intn(4) == 0 {
				continue
			}
			ps = reflect.Append(ps, all.Index(i).Addr())
			prs = append(prs, c11PRow(s, i, all.Index(i)))
		}
		if shape == "dupptrs" {
			for i := n - 1; i >= 0; i-- {
				ps = reflect.Append(ps, all.Index(i).Addr())
				prs = append(prs, c11PRow(s, i, all.Index(i)))
			}
		}
		return ps, prs
	}
	for i := 0; i < n; i++ {
		prs = append(prs, c11PRow(s, i, all.Index(i)))
	}
	return all, prs
}

var c11InRe = regexp.MustCompile("(\\(?(?:`[^`]+`\\.`[^`]+`,?)+\\)?) IN \\(")
var c11ColRe = regexp.MustCompile("`([^`]+)`\\.`([^`]+)`")
var c11ConstRe = regexp.MustCompile("(?:^|[^.])`([a-z_]+)` = \\?")
var c11EqRe = regexp.MustCompile("(`[^`]+`\\.`[^`]+`) = \\?")

// table, IN columns of a recorded SELECT
func c11InOf(sqlText string) (string, []string) {
	m := c11InRe.FindStringSubmatch(sqlText)
	if m == nil {
		m = c11EqRe.FindStringSubmatch(sqlText) // clause.IN with a single value is rendered as an equality
	}
	if m == nil {
		return "", nil
	}
	table, cols := "", []string{}
	for _, c := range c11ColRe.FindAllStringSubmatch(m[1], -1) {
		table = c[1]
		cols = append(cols, c[2])
	}
	return table, cols
}

func c11QCondsSuite(r *Result, rng *rand.Rand, tier string) {
	worlds := 160
	if tier == "thorough" {
		worlds = 3000
	}
	fams := []string{"R", "S", "C", "R", "U", "E", "D"}
	shapes := []string{"one", "structs", "ptrs", "dupptrs", "dupvals"}
	type pending struct {
		suite string
		cs    c11QCCase
		real  map[string]interface{}
		// preload-cols
		queries []Event
		rel     *schema.Relationship
	}
	var ops [][]interface{}
	var pend []pending
	for i := 0; i < worlds && !expired(); i++ {
		f := c11Families[fams[i%len(fams)]]
		w := f.Gen(rng, 0)
		if w.collides(f) {
			continue
		}
		db, rec, closeFn := c11OpenWorldRec(f, w)
		for _, t := range f.parentTables() {
			s := c11Schema(t)
			all := c11LoadAll(db, t)
			if all.Len() == 0 {
				continue
			}
			for ri := range t.Rels {
				d := &t.Rels[ri]
				rel := s.Relationships.Relations[d.Field]
				if rel == nil {
					continue
				}
				shape := shapes[rng.Intn(len(shapes))]
				cs := c11QCCase{World: w, Table: t.Name, Rel: d.Field, Shape: shape}
				val, prs := c11ShapeValue(s, t, all, shape, rng)
				var jt interface{}
				if rel.JoinTable != nil {
					jt = rel.JoinTable.Table
				}
				// --- query-conds
				var conds []clause.Expression
				if pn := c11Safely(func() { conds = rel.ToQueryConditions(context.Background(), val) }); pn != nil {
					r.Violate(Violation{Kind: "correspondence", Suite: "query-conds", Input: cs, Observed: fmt.Sprint("panic: ", pn), Expected: "no panic"})
					continue
				}
				ops = append(ops, []interface{}{"qc", rel.FieldSchema.Table, jt, c11RefsJSON(rel), prs})
				pend = append(pend, pending{suite: "query-conds", cs: cs, real: c11RenderConds(conds)})
				// --- preload-cols (slice of all records, scope off so that the only conditions are the relation's own)
				if i%2 == 0 {
					rec.Reset()
					dest := reflect.New(reflect.SliceOf(t.typ()))
					var e error
					if pn := c11Safely(func() { e = db.Unscoped().Preload(d.Field).Order("n").Find(dest.Interface()).Error }); pn != nil {
						e = fmt.Errorf("panic: %v", pn)
					}
					if e != nil {
						r.Violate(Violation{Kind: "correspondence", Suite: "preload-cols", Input: cs, Observed: e.Error(), Expected: "no error"})
						continue
					}
					var qs []Event
					for _, ev := range rec.Snapshot() {
						if (ev.Kind == "query" || ev.Kind == "stmt_query") && strings.HasPrefix(ev.SQL, "SELECT") {
							qs = append(qs, ev)
						}
					}
					var allRows []interface{}
					for k := 0; k < all.Len(); k++ {
						allRows = append(allRows, c11PRow(s, k, all.Index(k)))
					}
					cs2 := cs
					cs2.Shape = "structs"
					ops = append(ops, []interface{}{"qc", rel.FieldSchema.Table, jt, c11RefsJSON(rel), allRows})
					pend = append(pend, pending{suite: "preload-cols", cs: cs2, queries: qs, rel: rel})
					ops = append(ops, []interface{}{"preload.cols", c11RefsJSON(rel)})
					pend = append(pend, pending{suite: "preload-cols2"})
				}
			}
		}
		closeFn()
	}
	outs, err := AskLean(ops)
	if err != nil {
		r.Violate(Violation{Kind: "correspondence", Suite: "query-conds", Note: err.Error()})
		return
	}
	for i, p := range pend {
		switch p.suite {
		case "query-conds":
			var m map[string]interface{}
			_ = json.Unmarshal(outs[i], &m)
			delete(m, "fields")
			r.CorrCompared++
			vals, _ := m["values"].([]interface{})
			cols, _ := m["cols"].([]interface{})
			atoms, _ := m["atoms"].([]interface{})
			r.Case("query-conds", canon(p.cs), len(vals) >= 2)
			r.H("qconds", fmt.Sprintf("%s/%s/cols%d/atoms%d/values%s", c11Families[p.cs.World.Family].table(p.cs.Table).rel(p.cs.Rel).Kind, p.cs.Shape, len(cols), len(atoms), c11Bucket(len(vals))))
			if canon(m) != canon(p.real) {
				r.Violate(Violation{Kind: "correspondence", Suite: "query-conds", Input: p.cs, Observed: p.real, Expected: m,
					Note: "real schema.Relationship.ToQueryConditions on the loaded records vs Lean Gorm.toQueryConditions + identitySlice (extra conditions, IN table, IN columns = REFERENCED columns, one value tuple per distinct not-all-zero key)"})
			}
		case "preload-cols":
			var m, pc map[string]interface{}
			_ = json.Unmarshal(outs[i], &m)
			_ = json.Unmarshal(outs[i+1], &pc)
			r.CorrCompared++
			vals, _ := m["values"].([]interface{})
			r.Case("preload-cols", canon(p.cs), len(vals) >= 2)
			bad := c11JudgePreloadCols(p.rel, p.queries, m, pc)
			r.H("preloadcols", fmt.Sprintf("%s/queries%d", c11Families[p.cs.World.Family].table(p.cs.Table).rel(p.cs.Rel).Kind, len(p.queries)))
			if bad != "" {
				var qs []string
				for _, q := range p.queries {
					qs = append(qs, q.String())
				}
				r.Violate(Violation{Kind: "correspondence", Suite: "preload-cols", Input: p.cs, Observed: map[string]interface{}{"queries": qs, "verdict": bad}, Expected: map[string]interface{}{"first": m, "cols": pc},
					Note: "queries sent by callbacks.preload vs Lean Gorm.preloadDirectPairs / preloadJoinPairs / preloadHopPairs (query table, IN columns, IN values of the first query)"})
			}
		}
	}
}

func c11Safely(f func()) (p interface{}) {
	defer func() { p = recover() }()
	f()
	return nil
}

func c11Bucket(n int) string {
	switch {
	case n == 0:
		return "0"
	case n == 1:
		return "1"
	case n <= 3:
		return "2-3"
	}
	return "4+"
}

func c11PairCols(v interface{}) []string {
	out := []string{}
	ps, _ := v.([]interface{})
	for _, p := range ps {
		out = append(out, p.([]interface{})[0].(string))
	}
	return out
}

// queries[0] is the parent SELECT; then the relation's own queries.  m = Lean "qc" on all records (its values are the IN
// values of the first relation query), pc = Lean "preload.cols".
func c11JudgePreloadCols(rel *schema.Relationship, queries []Event, m, pc map[string]interface{}) string {
	vals, _ := m["values"].([]interface{})
	if len(queries) == 0 {
		return "no query recorded"
	}
	rest := queries[1:]
	if len(vals) == 0 {
		if len(rest) != 0 {
			return "no record has a usable key, yet a relation query was sent"
		}
		return ""
	}
	if len(rest) == 0 {
		return "no relation query was sent"
	}
	var wantVals []string
	for _, t := range vals {
		for _, x := range t.([]interface{}) {
			s := x.(string)
			if k := strings.Index(s, ":"); k >= 0 {
				s = s[k+1:]
			}
			wantVals = append(wantVals, s)
		}
	}
	sort.Strings(wantVals)
	first := func(q Event, table string, cols []string, nconst int) string {
		gt, gc := c11InOf(q.SQL)
		if gt != table || strings.Join(gc, ",") != strings.Join(cols, ",") {
			return fmt.Sprintf("first relation query filters %s(%s), model says %s(%s)", gt, strings.Join(gc, ","), table, strings.Join(cols, ","))
		}
		var got []string
		for _, a := range q.Args {
			if b, ok := a.([]byte); ok {
				a = string(b)
			}
			if a == nil {
				a = "nil"
			}
			got = append(got, fmt.Sprint(a))
		}
		if len(got) < nconst {
			return "constant arguments missing"
		}
		got = got[nconst:]
		sort.Strings(got)
		if strings.Join(got, "\x00") != strings.Join(wantVals, "\x00") {
			return fmt.Sprintf("IN values %q, model says %q", got, wantVals)
		}
		return ""
	}
	consts, _ := pc["consts"].([]interface{})
	if rel.JoinTable == nil {
		if len(rest) != 1 {
			return fmt.Sprintf("%d relation queries for a direct relation", len(rest))
		}
		if n := len(c11ConstRe.FindAllString(rest[0].SQL, -1)); n != len(consts) {
			return fmt.Sprintf("%d constant conditions, model says %d", n, len(consts))
		}
		return first(rest[0], rel.FieldSchema.Table, c11PairCols(pc["direct"]), len(consts))
	}
	if bad := first(rest[0], rel.JoinTable.Table, c11PairCols(pc["join"]), 0); bad != "" {
		return bad
	}
	if len(rest) >= 2 {
		gt, gc := c11InOf(rest[1].SQL)
		hop := c11PairCols(pc["hop"])
		if gt != rel.FieldSchema.Table || strings.Join(gc, ",") != strings.Join(hop, ",") {
			return fmt.Sprintf("target query filters %s(%s), model says %s(%s)", gt, strings.Join(gc, ","), rel.FieldSchema.Table, strings.Join(hop, ","))
		}
	}
	return ""
}

func init() {
	register("C11", c11RelRefsSuite)
	register("C11", c11QCondsSuite)
	replayers["C11/rel-refs"] = func(r *Result, input json.RawMessage) { r.Note("rel-refs replays are correspondence-only: rerun the suite") }
	replayers["C11/query-conds"] = func(r *Result, input json.RawMessage) { r.Note("query-conds replays are correspondence-only: rerun the suite") }
	replayers["C11/preload-cols"] = func(r *Result, input json.RawMessage) { r.Note("preload-cols replays are correspondence-only: rerun the suite") }
	_ = gorm.ErrRecordNotFound
}
